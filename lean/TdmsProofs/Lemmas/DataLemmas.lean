/-
  Raw data, contiguous layout: `splitEvery`, `readValues`, `readStringValues`.  Core Lean only.
-/
import TdmsProofs.Lemmas.ValueLemmas

namespace Tdms.Proofs.Bytes

open Tdms Tdms.Generated Tdms.Model

/-! ## the file monad `F` -/

theorem F_bind_ok {α β : Type} {x : F α} {f : α → F β} {s s' : FState} {a : α}
    (h : x s = .ok (a, s')) : (x >>= f) s = f a s' := by
  show (StateT.bind x f) s = _
  simp [StateT.bind, h, bind, Except.bind]

theorem F_pure {α : Type} (a : α) (s : FState) : (pure a : F α) s = .ok (a, s) := rfl

theorem drop_add_of_drop_eq {file a r : Bytes} {p : Nat} (h : file.drop p = a ++ r) :
    file.drop (p + a.length) = r := by
  rw [← List.drop_drop, h, List.drop_left]

theorem fRead_of_drop {file a r : Bytes} {st : FState} (h : file.drop st.pos = a ++ r) :
    fRead file a.length st = .ok (a, ⟨st.pos + a.length, st.trace ++ [(st.pos, a.length)]⟩) := by
  simp [fRead, h]

/-! ## `splitEvery` -/

theorem flatten_length_of_all {sz : Nat} (l : List Bytes) (h : ∀ v ∈ l, v.length = sz) :
    l.flatten.length = l.length * sz := by
  induction l with
  | nil => simp
  | cons v vs ih =>
    simp only [List.flatten_cons, List.length_append, List.length_cons]
    rw [ih (fun x hx => h x (List.mem_cons_of_mem _ hx)), h v List.mem_cons_self, Nat.succ_mul]
    omega

/-- cutting the concatenation of `n` items of `sz` bytes into items of `sz` bytes gives the items -/
theorem splitEvery_flatten_append {sz : Nat} (hsz : 0 < sz) (vals : List Bytes)
    (h : ∀ v ∈ vals, v.length = sz) (rest : Bytes) :
    splitEvery sz vals.length (vals.flatten ++ rest) = vals := by
  induction vals with
  | nil => simp [splitEvery]
  | cons v vs ih =>
    have hv : v.length = sz := h v List.mem_cons_self
    have hne : ¬ ((v ++ (vs.flatten ++ rest)).length < sz ∨ sz = 0) := by
      simp only [List.length_append, hv]; omega
    simp only [List.length_cons, List.flatten_cons, List.append_assoc, splitEvery, if_neg hne,
      List.take_left' hv, List.drop_left' hv]
    rw [ih (fun x hx => h x (List.mem_cons_of_mem _ hx))]

theorem splitEvery_flatten {sz n : Nat} (hsz : 0 < sz) (vals : List Bytes)
    (h : ∀ v ∈ vals, v.length = sz) (hn : vals.length = n) :
    splitEvery sz n vals.flatten = vals := by
  have := splitEvery_flatten_append hsz vals h []
  rwa [List.append_nil, hn] at this

/-! ## fixed-width values -/

theorem typeSize_tyString : typeSize tyString = none := by decide

theorem typeInfo_tyString :
    typeInfo tyString = some ⟨32, "String", none, none, none, false, true, false⟩ := by decide

theorem encObjValues_fixed (e : Endian) {ty sz : Nat} (hsz : typeSize ty = some sz)
    (vals : List Bytes) : encObjValues e ty vals = (vals.map (storeValue e ty)).flatten := by
  have hne : ty ≠ tyString := by
    intro h; rw [h, typeSize_tyString] at hsz; cases hsz
  simp [encObjValues, hne, List.flatMap_def]

theorem encObjValues_fixed_length (e : Endian) {ty sz : Nat} (hsz : typeSize ty = some sz)
    (vals : List Bytes) (hv : ∀ v ∈ vals, v.length = sz) :
    (encObjValues e ty vals).length = vals.length * sz := by
  rw [encObjValues_fixed e hsz, flatten_length_of_all (sz := sz), List.length_map]
  intro x hx
  obtain ⟨v, hvm, rfl⟩ := List.mem_map.mp hx
  exact storeValue_length e hsz v (hv v hvm)

/-- `fromfile`-style decoding of a run of stored fixed-width values -/
theorem decode_fixed (e : Endian) {ty sz : Nat} (hsz : typeSize ty = some sz) (vals : List Bytes)
    (hv : ∀ v ∈ vals, v.length = sz) :
    (splitEvery sz vals.length (encObjValues e ty vals)).map (canonValue e ty) = vals := by
  have hall : ∀ x ∈ vals.map (storeValue e ty), x.length = sz := by
    intro x hx
    obtain ⟨v, hvm, rfl⟩ := List.mem_map.mp hx
    exact storeValue_length e hsz v (hv v hvm)
  rw [encObjValues_fixed e hsz,
    splitEvery_flatten (typeSize_pos hsz) _ hall (by simp), List.map_map]
  conv => rhs; rw [← List.map_id vals]
  apply List.map_congr_left
  intro v hvm
  exact canonValue_storeValue e hsz v (hv v hvm)

theorem readValues_fixed (file : Bytes) (e : Endian) (o : SegObj) {ty sz : Nat} (vals : List Bytes)
    (pos : Nat) (tr : List (Nat × Nat))
    (hty : o.dataType = some ty) (hsz : typeSize ty = some sz) (hv : ∀ v ∈ vals, v.length = sz)
    (hfile : (file.drop pos).take (vals.length * sz) = encObjValues e ty vals) :
    (readValues file e o vals.length).run ⟨pos, tr⟩ =
      .ok (vals, ⟨pos + vals.length * sz, tr ++ [(pos, vals.length * sz)]⟩) := by
  obtain ⟨ti, hti, _, _, hs⟩ := typeSize_some hsz
  have hlen := encObjValues_fixed_length e hsz vals hv
  have hread : fRead file (vals.length * sz) ⟨pos, tr⟩ =
      .ok (encObjValues e ty vals, ⟨pos + vals.length * sz, tr ++ [(pos, vals.length * sz)]⟩) := by
    simp [fRead, hfile, hlen]
  show readValues file e o vals.length ⟨pos, tr⟩ = _
  unfold readValues
  simp only [hty, hti, hs]
  rw [F_bind_ok hread]
  have hmod : ¬ (ti.npKind.isNone = true ∧ (encObjValues e ty vals).length % sz ≠ 0) := by
    rw [hlen, Nat.mul_mod_left]; simp
  simp only [if_neg hmod]
  rw [decode_fixed e hsz vals hv]
  rfl

/-! ## strings -/

theorem cumOffsets_length (acc : Nat) (vals : List Bytes) : (cumOffsets acc vals).length = vals.length := by
  induction vals generalizing acc with
  | nil => rfl
  | cons v vs ih => simp [cumOffsets, ih]

theorem cumOffsets_le (acc : Nat) (vals : List Bytes) :
    ∀ o ∈ cumOffsets acc vals, o ≤ acc + vals.flatten.length := by
  induction vals generalizing acc with
  | nil => simp [cumOffsets]
  | cons v vs ih =>
    intro o ho
    simp only [cumOffsets, List.mem_cons] at ho
    simp only [List.flatten_cons, List.length_append]
    rcases ho with rfl | ho
    · omega
    · have := ih _ o ho; omega

theorem offsets_ok (file : Bytes) (e : Endian) (offs : List Nat) (h : ∀ o ∈ offs, o < 2 ^ 32)
    (st : FState) (rest : Bytes) (hf : file.drop st.pos = offs.flatMap (enc e 4) ++ rest) :
    ∃ tr', readStringValues.offsets file e offs.length st =
        .ok (offs, ⟨st.pos + 4 * offs.length, tr'⟩) ∧
      file.drop (st.pos + 4 * offs.length) = rest := by
  induction offs generalizing st with
  | nil => exact ⟨st.trace, rfl, by simpa using hf⟩
  | cons o os ih =>
    have hf' : file.drop st.pos = enc e 4 o ++ (os.flatMap (enc e 4) ++ rest) := by
      simpa [List.flatMap_cons] using hf
    have hr := fRead_of_drop hf'
    rw [enc_length] at hr
    have hd := drop_add_of_drop_eq hf'
    rw [enc_length] at hd
    obtain ⟨tr', h1, h2⟩ := ih (fun x hx => h x (List.mem_cons_of_mem _ hx))
      ⟨st.pos + 4, st.trace ++ [(st.pos, 4)]⟩ hd
    refine ⟨tr', ?_, ?_⟩
    · simp only [List.length_cons, readStringValues.offsets]
      rw [F_bind_ok hr]
      simp only [enc_length, Nat.lt_irrefl, if_false]
      rw [F_bind_ok h1]
      have : dec e (enc e 4 o) = o :=
        dec_enc_of_lt e (w := 4) (h o List.mem_cons_self)
      simp only [F_pure, this]
      congr 3
      omega
    · rw [← h2]; congr 1; simp only [List.length_cons]; omega

theorem strings_ok (file : Bytes) (vals : List Bytes) (prev : Nat) (st : FState) (rest : Bytes)
    (hf : file.drop st.pos = vals.flatten ++ rest) :
    ∃ tr', readStringValues.strings file prev (cumOffsets prev vals) st =
        .ok (vals, ⟨st.pos + vals.flatten.length, tr'⟩) := by
  induction vals generalizing st prev with
  | nil => exact ⟨st.trace, rfl⟩
  | cons v vs ih =>
    have hf' : file.drop st.pos = v ++ (vs.flatten ++ rest) := by simpa using hf
    have hr := fRead_of_drop hf'
    have hd := drop_add_of_drop_eq hf'
    obtain ⟨tr', h1⟩ := ih (prev + v.length) ⟨st.pos + v.length, st.trace ++ [(st.pos, v.length)]⟩ hd
    refine ⟨tr', ?_⟩
    simp only [cumOffsets, readStringValues.strings]
    have hlt : ¬ prev + v.length < prev := by omega
    simp only [if_neg hlt, Nat.add_sub_cancel_left]
    rw [F_bind_ok hr, F_bind_ok h1]
    simp only [F_pure, List.flatten_cons, List.length_append]
    congr 3
    omega

/-- the size of an encoded string run does not depend on the byte order -/
theorem encObjValues_string_length (e : Endian) (vals : List Bytes) :
    (encObjValues e tyString vals).length = 4 * vals.length + vals.flatten.length := by
  have hl : ((cumOffsets 0 vals).flatMap (enc e 4)).length = 4 * vals.length := by
    rw [List.flatMap_def, flatten_length_of_all (sz := 4), List.length_map, cumOffsets_length,
      Nat.mul_comm]
    intro x hx
    obtain ⟨o, _, rfl⟩ := List.mem_map.mp hx
    exact enc_length e 4 o
  simp [encObjValues, hl]

theorem readStringValues_ok (file : Bytes) (e : Endian) (vals : List Bytes) (pos : Nat)
    (tr : List (Nat × Nat)) (rest : Bytes) (hlen : vals.flatten.length < 2 ^ 32)
    (hfile : file.drop pos = encObjValues e tyString vals ++ rest) :
    ∃ tr', (readStringValues file e vals.length).run ⟨pos, tr⟩ =
      .ok (vals, ⟨pos + (encObjValues e tyString vals).length, tr'⟩) := by
  have henc : encObjValues e tyString vals =
      (cumOffsets 0 vals).flatMap (enc e 4) ++ vals.flatten := by simp [encObjValues]
  rw [henc, List.append_assoc] at hfile
  have hb : ∀ o ∈ cumOffsets 0 vals, o < 2 ^ 32 := by
    intro o ho; have := cumOffsets_le 0 vals o ho; omega
  obtain ⟨tr1, h1, h2⟩ := offsets_ok file e (cumOffsets 0 vals) hb ⟨pos, tr⟩ _ hfile
  rw [cumOffsets_length] at h1 h2
  obtain ⟨tr2, h3⟩ := strings_ok file vals 0 ⟨pos + 4 * vals.length, tr1⟩ rest h2
  refine ⟨tr2, ?_⟩
  show readStringValues file e vals.length ⟨pos, tr⟩ = _
  unfold readStringValues
  rw [F_bind_ok h1, h3, henc]
  have hl : ((cumOffsets 0 vals).flatMap (enc e 4)).length = 4 * vals.length := by
    rw [List.flatMap_def, flatten_length_of_all (sz := 4), List.length_map, cumOffsets_length,
      Nat.mul_comm]
    intro x hx
    obtain ⟨o, _, rfl⟩ := List.mem_map.mp hx
    exact enc_length e 4 o
  simp only [List.length_append, hl, Nat.add_assoc]

theorem readValues_string (file : Bytes) (e : Endian) (o : SegObj) (vals : List Bytes) (pos : Nat)
    (tr : List (Nat × Nat)) (rest : Bytes) (hty : o.dataType = some tyString)
    (hlen : vals.flatten.length < 2 ^ 32)
    (hfile : file.drop pos = encObjValues e tyString vals ++ rest) :
    ∃ tr', (readValues file e o vals.length).run ⟨pos, tr⟩ =
      .ok (vals, ⟨pos + (encObjValues e tyString vals).length, tr'⟩) := by
  obtain ⟨tr', h⟩ := readStringValues_ok file e vals pos tr rest hlen hfile
  refine ⟨tr', ?_⟩
  rw [← h]
  show readValues file e o vals.length ⟨pos, tr⟩ = readStringValues file e vals.length ⟨pos, tr⟩
  unfold readValues
  simp only [hty, typeInfo_tyString, if_true]

end Tdms.Proofs.Bytes
