/-
  C07 whole: `denote (encOfProgram v prog) = promised prog`.  Core Lean only.
-/
import TdmsProofs.Lemmas.C07WholeMeaning

namespace Tdms.Proofs.C07Whole

open Tdms Tdms.Generated Tdms.Model Tdms.Model.Writer Tdms.Proofs.C08 Tdms.Proofs.C02
open Tdms.Proofs.C01Multi

/-! ## the promised content, entry by entry -/

/-- the promised entry of a path from the objects written under it -/
def objOfMine (p : Bytes) (mine : List WObj) : ObjContent :=
  { path := p,
    ty := (mine.filterMap tyOfW).getLast?,
    props := (mine.flatMap fun o => o.props.map toPropEnc).foldl setProp [],
    values := mine.flatMap chanVals,
    scalers := [] }

theorem promisedObj_eq (ws : List WObj) (p : Bytes) :
    promisedObj ws p = objOfMine p (ws.filter (·.path = p)) := rfl

theorem promisedOf_paths (ws : List WObj) : (promisedOf ws).map (·.path) = (ws.map (·.path)).eraseDups := by
  unfold promisedOf
  rw [List.map_map]
  have : ((fun x : ObjContent => x.path) ∘ promisedObj ws) = id := by funext q; rfl
  rw [this, List.map_id]

theorem find_promisedOf (ws : List WObj) (p : Bytes) :
    (promisedOf ws).find? (·.path = p) = if p ∈ ws.map (·.path) then some (promisedObj ws p) else none := by
  unfold promisedOf
  rw [find_map_key _ (fun q => rfl)]
  simp only [List.mem_eraseDups]

theorem filter_path_absent {ws : List WObj} {p : Bytes} (h : p ∉ ws.map (·.path)) :
    ws.filter (·.path = p) = [] := by
  rw [List.filter_eq_nil_iff]
  intro o ho
  simp only [decide_eq_true_eq]
  intro e
  exact h (List.mem_map.2 ⟨o, ho, e⟩)

theorem getD_find_promisedOf (ws : List WObj) (p : Bytes) :
    ((promisedOf ws).find? (·.path = p)).getD (dflt p) = promisedObj ws p := by
  rw [find_promisedOf]
  by_cases h : p ∈ ws.map (·.path)
  · rw [if_pos h]; rfl
  · rw [if_neg h, promisedObj_eq, filter_path_absent h]; rfl

theorem filter_path_nodup : ∀ (objs : List WObj) (o : WObj) (p : Bytes), (objs.map (·.path)).Nodup →
    objs.find? (·.path = p) = some o → objs.filter (·.path = p) = [o] := by
  intro objs
  induction objs with
  | nil => intro o p _ h; cases h
  | cons a as ih =>
    intro o p hnd h
    rw [List.map_cons, List.nodup_cons] at hnd
    rw [List.find?_cons] at h
    rw [List.filter_cons]
    by_cases ha : a.path = p
    · simp only [ha, decide_true, if_true] at h ⊢
      cases h
      rw [filter_path_absent (ha ▸ hnd.1)]
    · simp only [ha, decide_false, Bool.false_eq_true, if_false] at h ⊢
      exact ih o p hnd.2 h

theorem objOfMine_snoc (p : Bytes) (A : List WObj) (o : WObj) :
    objOfMine p (A ++ [o]) =
      { path := p,
        ty := (match tyOfW o with | some t => some t | none => (objOfMine p A).ty),
        props := (o.props.map toPropEnc).foldl setProp (objOfMine p A).props,
        values := (objOfMine p A).values ++ chanVals o,
        scalers := [] } := by
  unfold objOfMine
  simp only [List.filterMap_append, List.flatMap_append, List.foldl_append, List.flatMap_cons,
    List.flatMap_nil, List.append_nil, List.filterMap_cons, List.filterMap_nil]
  cases tyOfW o with
  | none => simp
  | some t => simp

theorem dvals_eq_chanVals {o : WObj} (hw : WritableObj o) : dvals o = chanVals o := by
  cases o with
  | root ps => rfl
  | group g ps => rfl
  | channel g c d ps =>
    unfold dvals chanVals
    simp only [dataOf]
    by_cases hv : d.ty = tyVoid
    · have hd : WritableData d := hw.2.2.2
      unfold WritableData at hd
      rw [if_pos hv] at hd
      simp [hv, hd]
    · simp [hv]

theorem declF_actOfW_ty {last : LastIdx} {o : WObj} {x : ObjContent}
    (h : (last.get o.path).map (·.ty) = x.ty) :
    (declF (actOfW last o) x).ty = (match tyOfW o with | some t => some t | none => x.ty) := by
  unfold declF actOfW tyOfW
  cases dataOf o with
  | none =>
    simp only [Option.map_none, h]
    cases x.ty <;> rfl
  | some d => rfl

/-! ## one segment -/

theorem removeAll_eq_filter (xs ys : List Bytes) : xs.removeAll ys = xs.filter (fun k => !ys.elem k) := rfl

/-- **one written segment turns the promised content of the history into the promised content of the
    history extended by the segment's objects** -/
theorem denoteSeg_promised (v : Nat) (hist objs : List WObj) (last : LastIdx) (hlo : LastOK last hist)
    (hls : LastStd last) (hnd : (objs.map (·.path)).Nodup) (hw : ∀ o ∈ objs, WritableObj o) :
    denoteSeg (promisedOf hist) (segOfW v objs) (objs.map (actOfW last)) = promisedOf (hist ++ objs) := by
  symm
  apply content_ext
  · -- paths
    rw [paths_denoteSeg v objs last _ hls hnd hw, promisedOf_paths, promisedOf_paths, List.map_append,
      List.eraseDups_append, removeAll_eq_filter]
    congr 1
    have hfe : (objs.map (·.path)).filter (fun k => !(hist.map (·.path)).elem k) =
        (objs.map (·.path)).filter (fun k => !((hist.map (·.path)).eraseDups).elem k) := by
      apply List.filter_congr
      intro k _
      simp only [List.elem_eq_mem, List.mem_eraseDups]
    rw [hfe]
    exact eraseDups_of_nodup _ (hnd.sublist List.filter_sublist)
  · rw [promisedOf_paths]
    exact nodup_eraseDups _ _ (Nat.le_refl _)
  · intro p
    rw [find_denoteSeg v objs last _ hls hnd hw p, find_promisedOf, getD_find_promisedOf]
    cases hf : objs.find? (·.path = p) with
    | none =>
      simp only
      have hno : p ∉ objs.map (·.path) := by
        intro hm
        obtain ⟨o, ho, hp⟩ := List.mem_map.1 hm
        have := List.find?_eq_none.1 hf o ho
        simp [hp] at this
      rw [find_promisedOf]
      have hobj : promisedObj (hist ++ objs) p = promisedObj hist p := by
        rw [promisedObj_eq, promisedObj_eq, List.filter_append, filter_path_absent hno, List.append_nil]
      simp only [List.map_append, List.mem_append, hno, or_false, hobj]
    | some o =>
      simp only
      have ho : o ∈ objs := List.mem_of_find?_eq_some hf
      have hp : o.path = p := by simpa using List.find?_some hf
      have hmem : p ∈ (hist ++ objs).map (·.path) := List.mem_map.2 ⟨o, List.mem_append_right _ ho, hp⟩
      rw [if_pos hmem]
      congr 1
      rw [promisedObj_eq, List.filter_append, filter_path_nodup objs o p hnd hf, objOfMine_snoc,
        ← promisedObj_eq]
      have hty : (last.get o.path).map (·.ty) = (promisedObj hist p).ty := by
        rw [hlo o.path, hp]; rfl
      have h1 := declF_actOfW_ty (x := promisedObj hist p) hty
      have h2 : dvals o = chanVals o := dvals_eq_chanVals (hw o ho)
      rw [← h1, ← h2]
      rfl
  
/-! ## all segments -/

theorem denoteSegs_written (v : Nat) : ∀ (segs : List (List WObj)) (hist : List WObj) (last : LastIdx),
    LastOK last hist → LastStd last → (∀ objs ∈ segs, (objs.map (·.path)).Nodup) →
    (∀ objs ∈ segs, WritableObjs objs) →
    denoteSegs (promisedOf hist) (segs.map (segOfW v)) (actsOfW last segs) = promisedOf (hist ++ segs.flatten) := by
  intro segs
  induction segs with
  | nil => intro hist last _ _ _ _; simp [denoteSegs, actsOfW]
  | cons objs rest ih =>
    intro hist last hlo hls hnd hw
    rw [List.map_cons, actsOfW, denoteSegs,
      denoteSeg_promised v hist objs last hlo hls (hnd objs List.mem_cons_self) (hw objs List.mem_cons_self).2.1,
      ih (hist ++ objs) (lastAfter last objs) (lastOK_after objs hlo) (lastStd_after objs hls)
        (fun o ho => hnd o (List.mem_cons_of_mem _ ho)) (fun o ho => hw o (List.mem_cons_of_mem _ ho)),
      List.flatten_cons, List.append_assoc]

end Tdms.Proofs.C07Whole
