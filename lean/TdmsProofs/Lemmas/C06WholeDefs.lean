/-
  C06, whole-file truncation theorem for one-segment files: the closed form of what the model reader returns
  for the file cut after `k` bytes.  Definitions only (all executable).  Core Lean only.
-/
import TdmsProofs.Lemmas.C01ComposeMain

namespace Tdms.Proofs.C06Whole

open Tdms Tdms.Generated Tdms.Model Tdms.Proofs.Bytes Tdms.Proofs.C01Compose

/-- the class of one-segment files covered: `SingleStd` of `C01ComposeMain.lean` without the restriction on the
    next-segment-offset field of the lead-in — `s.lengthUnknown = true` (the `0xFFFF_FFFF_FFFF_FFFF` marker a
    writer leaves when it crashes before patching the lead-in) is allowed -/
structure CutStd (s : SegEnc) : Prop where
  hasMeta : s.hasMeta = true
  contiguous : s.interleaved = false
  stdObjs : ∀ o ∈ s.objs, stdIdx o
  wf : wellFormed [s] = true

theorem CutStd.wfSingle {s : SegEnc} (h : CutStd s) : WfSingle s :=
  wfSingle_of_wellFormed s h.hasMeta h.stdObjs h.wf

theorem CutStd.of_singleStd {s : SegEnc} (h : SingleStd s) : CutStd s :=
  ⟨h.hasMeta, h.contiguous, h.stdObjs, h.wf⟩

/-- where the raw data of the (only) segment start: lead-in, metadata, padding -/
def dataPosOf (s : SegEnc) : Nat := 28 + (segMeta s).length

/-- does a data object of the segment hold strings (the only type without a fixed width)? -/
def hasStr (s : SegEnc) : Bool := (dataOs s.objs).any fun o => tyOf o == some tyString

/-- number of complete chunks before byte `k` -/
def cutQ (s : SegEnc) (k : Nat) : Nat := (k - dataPosOf s) / chunkBytes s.objs

/-- number of bytes of the chunk that contains the cut (`0`: the cut is on a chunk boundary) -/
def cutR (s : SegEnc) (k : Nat) : Nat := (k - dataPosOf s) % chunkBytes s.objs

/-- the `final_chunk_lengths_override` npTDMS computes for a final chunk of `r` bytes:
    nothing at all when a string channel is present, the contiguous fit otherwise -/
def ovOf (s : SegEnc) (r : Nat) : List (Bytes × Nat) :=
  if hasStr s then [] else contiguousFinalLengths (s.objs.map segObjOf) r

/-- number of values of the path `p` read from the truncated chunk -/
def finLen (s : SegEnc) (k : Nat) (p : Bytes) : Nat :=
  if cutR s k = 0 then 0 else overrideGet (ovOf s (cutR s k)) p

/-- the values read from the truncated chunk: a prefix of every data object's values in that chunk -/
def lastChunk (s : SegEnc) (k : Nat) : List (List Bytes) :=
  List.zipWith (fun d v => v.take (finLen s k d.path)) (dataOs s.objs) (s.chunks.getD (cutQ s k) [])

/-- the chunks the reader yields for the cut file -/
def cutChunks (s : SegEnc) (k : Nat) : List (List (List Bytes)) :=
  s.chunks.take (cutQ s k) ++ (if cutR s k = 0 then [] else [lastChunk s k])

/-- the `Segment` the reader builds for the file of `L` bytes cut after `k` bytes (`dataPosOf s ≤ k ≤ L`);
    with the length-unknown marker in the lead-in the segment is flagged incomplete even when nothing is missing -/
def cutSeg (s : SegEnc) (L k : Nat) : Segment :=
  { position := 0, toc := tocMask s, nextSegmentPos := k, dataPosition := dataPosOf s,
    incomplete := s.lengthUnknown || decide (k < L), objects := s.objs.map segObjOf,
    numChunks := cutQ s k + (if cutR s k = 0 then 0 else 1),
    override := if cutR s k = 0 then none else some (ovOf s (cutR s k)) }

/-- `len(channel)` recorded for an object -/
def cutNum (s : SegEnc) (k : Nat) (o : ObjEnc) : Nat :=
  if isFull o then nvals o * cutQ s k + finLen s k o.path else 0

/-- `object_metadata` entry with an arbitrary value count -/
def metaN (nv : ObjEnc → Nat) (o : ObjEnc) : ObjMeta :=
  { path := o.path, props := (o.props.map canonProp).foldl setPropVal [], dataType := tyOf o,
    scalerTypes := none, numValues := nv o }

def meta0N (nv : ObjEnc → Nat) (o : ObjEnc) : ObjMeta :=
  { path := o.path, props := [], dataType := tyOf o, scalerTypes := none, numValues := nv o }

/-- the reader state for a cut inside or after the raw data -/
def cutState (s : SegEnc) (L k : Nat) (prev : PrevObjs) : ReaderState :=
  { version := some (s.version : Int), versions := [(s.version : Int)], prevObjs := prev,
    objects := s.objs.map (metaN (cutNum s k)), segments := [cutSeg s L k] }

/-- the channel data for a cut inside or after the raw data -/
def cutChannels (s : SegEnc) (k : Nat) : List ChannelData :=
  rcvWith (rcvPaths s.objs) (valsAfter (dataOs s.objs) (fun _ => []) (cutChunks s k))

/-- the reader state when the segment is dropped (cut inside lead-in, metadata or padding): no segment,
    no object; the version number is recorded when the 28 bytes of the lead-in are there -/
def droppedState (s : SegEnc) (k : Nat) : ReaderState :=
  if k < 28 then {} else { version := some (s.version : Int), versions := [(s.version : Int)] }

end Tdms.Proofs.C06Whole
