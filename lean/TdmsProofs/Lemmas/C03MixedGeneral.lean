/-
  C03 (mixed files) — when the window-strength invariant `SegsWOk` holds:

  * the number of complete rows the eager read of an interleaved segment gets (`interB_rows`);
  * `InterWOk` for an interleaved segment that is not truncated and lies inside the file
    (`interW_of_fits`), and for a TRUNCATED interleaved segment that ends at the end of the file, with the
    override `calculateChunks` computes (`interW_of_eof`: the override lengths are the complete rows);
  * `SegsWOk` and `ChanOk` for the reader state of any byte string `readMetadata` accepts
    (`readMetadata_invariants_mixedW`);
  * executable checkers with soundness proofs.
  Core Lean only.
-/
import TdmsProofs.Lemmas.C03MixedIterAll
import TdmsProofs.Lemmas.C03MixedIndex
import TdmsProofs.Lemmas.C03GeneralMixed
import TdmsProofs.Lemmas.C03Check

namespace Tdms.Proofs.C03

open Tdms Tdms.Generated Tdms.Model Tdms.Proofs.Bytes Tdms.Proofs.C04 Tdms.Proofs.C06

/-! ## how many complete rows -/

theorem rowsAt_length (file : Bytes) (w : Nat) (hw : 0 < w) : ∀ (n pos : Nat),
    (rowsAt file w pos n).length = min n ((file.length - pos) / w) := by
  intro n
  induction n with
  | zero => intro pos; rw [rowsAt_zero]; simp
  | succ n ih =>
    intro pos
    rw [rowsAt_succ file w pos n hw]
    split
    · rename_i hshort
      rw [Nat.div_eq_of_lt (by omega)]
      simp
    · rw [List.length_cons, ih (pos + w)]
      have h1 : file.length - pos = (file.length - (pos + w)) + w := by omega
      have h2 : (file.length - pos) / w = (file.length - (pos + w)) / w + 1 := by
        rw [h1, Nat.add_div_right _ hw]
      omega

theorem chanOf_length_mem (p : Bytes) (m : Nat) : ∀ (d : List SegObj) (cols : List (List Bytes)),
    p ∈ d.map (·.path) → cols.length = d.length → (∀ v ∈ cols, v.length = m) →
    ((chanOf p d cols).data.getD []).length = m := by
  intro d
  induction d with
  | nil => intro cols h; cases h
  | cons o os ih =>
    intro cols h hl hm
    cases cols with
    | nil => cases hl
    | cons v vs =>
      simp only [chanOf]
      by_cases hp : o.path = p
      · rw [if_pos hp]; exact hm v List.mem_cons_self
      · rw [if_neg hp]
        simp only [List.map_cons, List.mem_cons] at h
        rcases h with h | h
        · exact absurd h.symm hp
        · exact ih vs h (by simpa using hl) (fun x hx => hm x (List.mem_cons_of_mem _ hx))

/-- with distinct object paths, a data object is the one `get_segment_object` finds for its path -/
theorem layout_of_dataObj (s : Segment) (hnd : (s.objects.map (·.path)).Nodup) (o : SegObj) (hod : o ∈ dataObjs s) :
    getSegmentObject s o.path = some o ∧ (layoutOf o.path s).cs = o.numberValues := by
  have ho : o ∈ s.objects := (List.mem_filter.mp hod).1
  have hdat : o.hasData = true := by simpa using (List.mem_filter.mp hod).2
  have hget : getSegmentObject s o.path = some o := by
    rw [getSegmentObject_eq_find s o.path hnd]
    cases hf : s.objects.find? (·.path = o.path) with
    | none =>
      rw [List.find?_eq_none] at hf
      exact absurd (by simp) (hf o ho)
    | some o' =>
      have hm' := List.mem_of_find?_eq_some hf
      have hp' : o'.path = o.path := by simpa using List.find?_some hf
      rw [nodup_path_unique s.objects hnd hm' ho hp']
  refine ⟨hget, ?_⟩
  unfold layoutOf
  simp [hget, hdat]

/-- **the eager column of an interleaved segment holds the complete rows**: as many values as rows were
    requested, or as many complete rows as the file holds from the data position -/
theorem interB_rows {file : Bytes} {s : Segment} (hb : InterBase file s) (hnd : (s.objects.map (·.path)).Nodup)
    (o : SegObj) (hod : o ∈ dataObjs s) :
    ∃ w, 0 < w ∧ segCsz s = w * o.numberValues ∧
      (segE file s o.path).length = min (o.numberValues * s.numChunks) ((file.length - s.dataPosition) / w) := by
  obtain ⟨o0, os, w, hd, hst, hnv0, hcsz, hw⟩ := interB_static hb o hod
  have hndd : ((dataObjs s).map (·.path)).Nodup := hnd.sublist (List.Sublist.map _ List.filter_sublist)
  have hE := interB_segE hb o.path hndd o0 os w o.numberValues hd hst hnv0
  refine ⟨w, hw, hcsz, ?_⟩
  rw [hE, chanOf_length_mem o.path _ (o0 :: os) _ (by rw [← hd]; exact List.mem_map_of_mem hod)
    (colsOf_length _ _ _ _).1 (colsOf_length _ _ _ _).2, rowsAt_length file w hw]

/-- a non-truncated interleaved segment whose raw data lie inside the file -/
theorem interW_of_fits {file : Bytes} {s : Segment} (hb : InterBase file s) (hnd : (s.objects.map (·.path)).Nodup)
    (hov : s.override = none) (hfit : s.dataPosition + segCsz s * s.numChunks ≤ file.length) : InterWOk file s := by
  refine ⟨hb, ?_⟩
  intro o hod
  obtain ⟨w, hw, hcsz, hlen⟩ := interB_rows hb hnd o hod
  obtain ⟨_, hcs⟩ := layout_of_dataObj s hnd o hod
  rw [hlen]
  unfold SegL.nvals
  rw [hcs]
  have hf : (layoutOf o.path s).f = none := by simp [layoutOf, hov]
  have hk : (layoutOf o.path s).k = s.numChunks := rfl
  rw [hf, hk]
  by_cases h0 : o.numberValues = 0
  · simp [h0]
  · rw [if_neg h0]
    simp only []
    apply Nat.min_eq_left
    rw [Nat.le_div_iff_mul_le hw]
    rw [hcsz] at hfit
    have : o.numberValues * s.numChunks * w = w * o.numberValues * s.numChunks := by
      rw [Nat.mul_comm, Nat.mul_assoc]
    omega

theorem interleaved_flag {s : Segment} (hk : dataReaderKind s = .ok .interleaved) :
    hasFlag s.toc kTocInterleavedData = true := by
  unfold dataReaderKind at hk
  cases hd : haveDaqmxObjects s.objects with
  | error e => simp [hd, bind, Except.bind] at hk
  | ok b =>
    cases b with
    | true => simp [hd, bind, Except.bind, pure, Except.pure] at hk
    | false =>
      simp only [hd, bind, Except.bind, Bool.false_eq_true, if_false] at hk
      unfold haveInterleavedData at hk
      cases hf : hasFlag s.toc kTocInterleavedData with
      | true => rfl
      | false => simp [hf, pure, Except.pure] at hk

/-- **a truncated interleaved segment that ends at the end of the file**: the override lengths
    `calculateChunks` computes are the numbers of complete rows, so the eager column has exactly
    `cs·(numChunks-1) + override` values -/
theorem interW_of_eof {file : Bytes} {s : Segment} (hb : InterBase file s) (hnd : (s.objects.map (·.path)).Nodup)
    (hcalc : CalcOut s) (ov : List (Bytes × Nat)) (hov : s.override = some ov) (heof : s.nextSegmentPos = file.length) :
    InterWOk file s := by
  refine ⟨hb, ?_⟩
  intro o hod
  obtain ⟨w, hw, hcsz, hlen⟩ := interB_rows hb hnd o hod
  obtain ⟨_, hcs⟩ := layout_of_dataObj s hnd o hod
  obtain ⟨c, hc, hle, hcase⟩ := calcOut_cases s hcalc
  have hcc : c = segCsz s := by
    have := hb.size; rw [hc] at this; exact Except.ok.inj this
  rcases hcase with ⟨hov', _⟩ | ⟨ov', hov', hcpos, hrem, hk, hcf⟩
  · rw [hov] at hov'; cases hov'
  · rw [hov] at hov'
    cases hov'
    have hd := haveDaqmx_of_kind hb.kind (by decide)
    rw [computeFinalChunkLengths_std s c _ hd (sizedOk_allSized hb.sized), interleaved_flag hb.kind] at hcf
    simp only [Bool.true_or, if_true, Except.ok.injEq] at hcf
    have hndd : ((s.objects.filter (·.hasData)).map (·.path)).Nodup := hnd.sublist (List.Sublist.map _ List.filter_sublist)
    have hget : overrideGet ov o.path = o.numberValues * ((s.nextSegmentPos - s.dataPosition) % c) / c := by
      rw [← hcf]
      exact overrideGet_map_le (s.objects.filter (·.hasData))
        (fun o => o.numberValues * ((s.nextSegmentPos - s.dataPosition) % c) / c) o hndd hod
    rw [hlen]
    unfold SegL.nvals
    rw [hcs]
    have hf : (layoutOf o.path s).f = some (overrideGet ov o.path) := by simp [layoutOf, hov]
    have hkk : (layoutOf o.path s).k = s.numChunks := rfl
    rw [hf, hkk, hget, hk, heof]
    rw [heof] at hle
    generalize file.length - s.dataPosition = avail
    rw [hcc, hcsz] at hcpos ⊢
    generalize o.numberValues = nv at *
    have hnv : 0 < nv := by
      rcases Nat.eq_zero_or_pos nv with h | h
      · rw [h] at hcpos; simp at hcpos
      · exact h
    rw [if_neg (by omega)]
    simp only [Nat.add_sub_cancel_left]
    -- `avail = (w·nv)·q + r`
    have hdm := Nat.div_add_mod avail (w * nv)
    have hrlt := Nat.mod_lt avail hcpos
    generalize avail / (w * nv) = q at *
    generalize avail % (w * nv) = r at *
    have h1 : avail / w = nv * q + r / w := by
      rw [← hdm, Nat.mul_assoc, Nat.mul_add_div hw]
    have h2 : r / w < nv := by
      rw [Nat.div_lt_iff_lt_mul hw, Nat.mul_comm]; exact hrlt
    have h3 : nv * r / (w * nv) = r / w := by
      rw [Nat.mul_comm w nv, Nat.mul_div_mul_left _ _ hnv]
    rw [h1, h3, Nat.mul_add, Nat.mul_one]
    omega

/-! ## the reader state of any accepted file -/

/-- hypotheses on one segment of a mixed file, for window reads: distinct paths, no chunks without the
    raw-data flag, and either the contiguous reader with exact chunks, or the interleaved reader on
    fixed-width objects with a successful read — not truncated, or truncated at the end of the file -/
structure SegShapeW (file : Bytes) (s : Segment) : Prop where
  nodup : (s.objects.map (·.path)).Nodup
  noRaw : hasFlag s.toc kTocRawData = false → s.numChunks = 0
  data : (dataReaderKind s = .ok .contiguous ∧ ∀ ci, ci < s.numChunks →
        (exactChunk file s ci (dataObjs s) (s.dataPosition + ci * segCsz s)).isSome = true) ∨
    (dataReaderKind s = .ok .interleaved ∧ SizedOk s ∧ (∃ r, interRead file s = .ok r) ∧
      (s.override = none ∨ s.nextSegmentPos = file.length))

theorem readMetadata_invariants_mixedW (file : Bytes) (st : ReaderState) (h : readMetadata file = .ok st)
    (hshape : ∀ s ∈ st.segments, SegShapeW file s) :
    SegsWOk file st.segments ∧ ∀ p m, st.objects.get p = some m → ChanOk st.objects st.segments p m := by
  have hin := readMetadata_segments_inFile file st h
  have hkind : ∀ s ∈ st.segments, haveDaqmxObjects s.objects = .ok false := by
    intro s hs
    rcases (hshape s hs).data with ⟨hk, _⟩ | ⟨hk, _⟩
    · exact haveDaqmx_of_kind hk (by decide)
    · exact haveDaqmx_of_kind hk (by decide)
  have hwf : ∀ s ∈ st.segments, ∀ p, (layoutOf p s).WF := fun s hs p =>
    layout_wf_of_calcOut s (hin s hs).calcOut (hkind s hs) (hshape s hs).nodup p
  have hnum := readMetadata_numValues file st h (fun s hs => (hshape s hs).nodup) hwf
  constructor
  · intro s hs
    obtain ⟨c, hc, hle, hcase⟩ := calcOut_cases s (hin s hs).calcOut
    have hcsz : chunkSize s.objects = .ok (segCsz s) := by unfold segCsz; rw [hc]
    have hcc : segCsz s = c := by unfold segCsz; rw [hc]
    refine ⟨(hin s hs).tag, (hshape s hs).nodup, (hshape s hs).noRaw, ?_⟩
    rcases (hshape s hs).data with ⟨hk, hex⟩ | ⟨hk, hsz, hr, hcase2⟩
    · exact Or.inl ⟨hk, hcsz, hex⟩
    · right
      have hb : InterBase file s := ⟨hk, hcsz, hsz, hr⟩
      cases hov : s.override with
      | none =>
        apply interW_of_fits hb (hshape s hs).nodup hov
        rcases hcase with ⟨_, hkc⟩ | ⟨ov, hov', _⟩
        · have := (hin s hs).inFile
          rw [hcc, Nat.mul_comm]
          omega
        · rw [hov] at hov'; cases hov'
      | some ov =>
        rcases hcase2 with h1 | h1
        · rw [hov] at h1; cases h1
        · exact interW_of_eof hb (hshape s hs).nodup (hin s hs).calcOut ov hov h1
  · intro p m hm
    refine ⟨hm, ?_, ?_⟩
    · intro l hl
      obtain ⟨s, hs, rfl⟩ := List.mem_map.mp hl
      exact hwf s hs p
    · have := hnum p
      unfold nvGet at this
      rw [hm] at this
      exact this

/-! ## executable checkers -/

def interWOkB (file : Bytes) (s : Segment) : Bool :=
  (match dataReaderKind s with
    | .ok .interleaved => true
    | _ => false) &&
  (match chunkSize s.objects with
    | .ok _ => true
    | .error _ => false) &&
  sizedOkB s &&
  (match interRead file s with
    | .ok _ => true
    | .error _ => false) &&
  (dataObjs s).all fun o => decide ((segE file s o.path).length = (layoutOf o.path s).nvals)

theorem interWOkB_sound {file : Bytes} {s : Segment} (h : interWOkB file s = true) : InterWOk file s := by
  unfold interWOkB at h
  simp only [Bool.and_eq_true, List.all_eq_true, decide_eq_true_eq] at h
  obtain ⟨⟨⟨⟨h1, h2⟩, h3⟩, h4⟩, h5⟩ := h
  refine ⟨⟨?_, ?_, sizedOkB_sound h3, ?_⟩, h5⟩
  · cases hk : dataReaderKind s with
    | error e => rw [hk] at h1; cases h1
    | ok k => cases k <;> simp_all
  · unfold segCsz
    cases hc : chunkSize s.objects with
    | error e => rw [hc] at h2; cases h2
    | ok c => rfl
  · cases hr : interRead file s with
    | error e => rw [hr] at h4; cases h4
    | ok r => exact ⟨r, rfl⟩

def segWOkB (file : Bytes) (s : Segment) : Bool :=
  decide ((file.drop s.position).take 4 = tagData) &&
  decide ((s.objects.map (·.path)).Nodup) &&
  (hasFlag s.toc kTocRawData || decide (s.numChunks = 0)) &&
  (contigOkB file s || interWOkB file s)

theorem segWOkB_sound {file : Bytes} {s : Segment} (h : segWOkB file s = true) : SegWOk file s := by
  unfold segWOkB at h
  simp only [Bool.and_eq_true, Bool.or_eq_true, decide_eq_true_eq] at h
  obtain ⟨⟨⟨h1, h2⟩, h3⟩, h4⟩ := h
  refine ⟨h1, h2, ?_, ?_⟩
  · intro hr
    rcases h3 with h3 | h3
    · rw [hr] at h3; cases h3
    · exact h3
  · rcases h4 with h4 | h4
    · exact Or.inl (contigOkB_sound h4)
    · exact Or.inr (interWOkB_sound h4)

def segsWOkB (file : Bytes) (segs : List Segment) : Bool := segs.all (segWOkB file)

theorem segsWOkB_sound {file : Bytes} {segs : List Segment} (h : segsWOkB file segs = true) : SegsWOk file segs := by
  intro s hs
  exact segWOkB_sound (List.all_eq_true.mp h s hs)

/-- the eager read succeeds, the segments satisfy `SegsWOk`, and every listed path satisfies `ChanOk` -/
def checkAllW (file : Bytes) (ps : List Bytes) : Bool :=
  match readFile file with
  | .ok r => segsWOkB file r.state.segments && ps.all fun p => chanOkB r.state.objects r.state.segments p
  | .error _ => false

theorem checkAllW_sound {file : Bytes} {ps : List Bytes} (h : checkAllW file ps = true) :
    ∃ r, readFile file = .ok r ∧ SegsWOk file r.state.segments ∧
      ∀ p ∈ ps, ∃ m, ChanOk r.state.objects r.state.segments p m := by
  unfold checkAllW at h
  cases hr : readFile file with
  | error e => rw [hr] at h; cases h
  | ok r =>
    rw [hr] at h
    simp only [Bool.and_eq_true, List.all_eq_true] at h
    exact ⟨r, rfl, segsWOkB_sound h.1, fun p hp => chanOkB_sound (h.2 p hp)⟩

/-! ## from the whole-channel invariant `SegsMOk` to the window invariant -/

/-- what a window read needs of an interleaved segment beyond `SegMOk`: fixed-width objects with
    `data_size = number_values · size`, and the raw data inside the file -/
def InterFits (file : Bytes) (s : Segment) : Prop :=
  dataReaderKind s = .ok .interleaved → SizedOk s ∧ s.dataPosition + segCsz s * s.numChunks ≤ file.length

theorem SegMOk.toW {file : Bytes} {s : Segment} (h : SegMOk file s) (hf : InterFits file s) : SegWOk file s := by
  refine ⟨h.tag, h.nodup, h.noRaw, ?_⟩
  rcases h.data with hc | hi
  · exact Or.inl hc
  · obtain ⟨hsz, hfit⟩ := hf hi.kind
    exact Or.inr (interW_of_fits ⟨hi.kind, hi.size, hsz, hi.read⟩ h.nodup hi.noOverride hfit)

def interFitsB (file : Bytes) (s : Segment) : Bool :=
  match dataReaderKind s with
  | .ok .interleaved => sizedOkB s && decide (s.dataPosition + segCsz s * s.numChunks ≤ file.length)
  | _ => true

theorem interFitsB_sound {file : Bytes} {s : Segment} (h : interFitsB file s = true) : InterFits file s := by
  intro hk
  unfold interFitsB at h
  rw [hk] at h
  simp only [Bool.and_eq_true, decide_eq_true_eq] at h
  exact ⟨sizedOkB_sound h.1, h.2⟩

end Tdms.Proofs.C03
