import TdmsProofs.Lemmas.C04WindowPlan

/-!
# C04 (windows): `cumsumFrom`, `searchRight`, `searchLeft`, `buildIndex`

Characterisation of the channel index and of the start / end segment found by the two binary
searches, in terms of prefix sums of the per-segment value counts.  Core Lean only.
-/

namespace Tdms.Proofs.C04

open Tdms Tdms.Model

/-- number of values in segments `0 … i-1` -/
def psum (nv : List Nat) (i : Nat) : Nat := (nv.take i).sum

theorem psum_zero (nv : List Nat) : psum nv 0 = 0 := by simp [psum]

theorem psum_succ (nv : List Nat) (i : Nat) (h : i < nv.length) : psum nv (i + 1) = psum nv i + nv[i] := by
  unfold psum
  rw [List.take_succ_eq_append_getElem h, List.sum_append]
  simp

theorem psum_add (nv : List Nat) (a b : Nat) : psum nv (a + b) = psum nv a + ((nv.drop a).take b).sum := by
  unfold psum
  rw [List.take_add, List.sum_append]

theorem psum_mono (nv : List Nat) {a b : Nat} (h : a ≤ b) : psum nv a ≤ psum nv b := by
  obtain ⟨c, rfl⟩ : ∃ c, b = a + c := ⟨b - a, by omega⟩
  rw [psum_add]; omega

theorem psum_of_length_le (nv : List Nat) (i : Nat) (h : nv.length ≤ i) : psum nv i = nv.sum := by
  unfold psum; rw [List.take_of_length_le h]

theorem sum_eq_zero_of_all_zero (xs : List Nat) (h : ∀ x ∈ xs, x = 0) : xs.sum = 0 := by
  induction xs with
  | nil => rfl
  | cons x xs ih =>
    rw [List.sum_cons, h x (by simp), ih (fun y hy => h y (by simp [hy]))]

/-! ## `cumsumFrom` -/

theorem cumsumFrom_length (acc : Nat) (xs : List Nat) : (cumsumFrom acc xs).length = xs.length := by
  induction xs generalizing acc with
  | nil => rfl
  | cons x xs ih => simp [cumsumFrom, ih]

theorem cumsumFrom_getD (acc : Nat) (xs : List Nat) (j : Nat) (h : j < xs.length) :
    (cumsumFrom acc xs).getD j 0 = acc + (xs.take (j + 1)).sum := by
  induction xs generalizing acc j with
  | nil => simp at h
  | cons x xs ih =>
    cases j with
    | zero => simp [cumsumFrom]
    | succ j =>
      simp only [cumsumFrom, List.getD_cons_succ, List.take_succ_cons, List.sum_cons]
      rw [ih (acc + x) j (by simpa using h)]
      omega

/-! ## the searches -/

theorem takeWhile_spec {α : Type} (p : α → Bool) (xs : List α) :
    (xs.takeWhile p).length ≤ xs.length ∧
    (∀ j y, j < (xs.takeWhile p).length → xs[j]? = some y → p y = true) ∧
    (∀ y, xs[(xs.takeWhile p).length]? = some y → p y = false) := by
  induction xs with
  | nil => simp
  | cons x xs ih =>
    obtain ⟨ih1, ih2, ih3⟩ := ih
    rw [List.takeWhile_cons]
    by_cases hx : p x = true
    · rw [if_pos hx]
      refine ⟨by simp; omega, ?_, ?_⟩
      · intro j y hj hy
        cases j with
        | zero => simp at hy; rw [← hy]; exact hx
        | succ j => exact ih2 j y (by simpa using hj) (by simpa using hy)
      · intro y hy
        exact ih3 y (by simpa using hy)
    · rw [if_neg hx]
      refine ⟨by simp, by simp, ?_⟩
      intro y hy
      simp at hy; rw [← hy]; simpa using hx

theorem getD_eq_of_lt (xs : List Nat) (j : Nat) (h : j < xs.length) : xs[j]? = some (xs.getD j 0) := by
  simp [List.getD_eq_getElem?_getD, List.getElem?_eq_getElem h]

theorem searchRight_spec (xs : List Nat) (x : Int) :
    searchRight xs x ≤ xs.length ∧
    (∀ j, j < searchRight xs x → ((xs.getD j 0 : Nat) : Int) ≤ x) ∧
    (searchRight xs x < xs.length → x < ((xs.getD (searchRight xs x) 0 : Nat) : Int)) := by
  obtain ⟨h1, h2, h3⟩ := takeWhile_spec (fun (y : Nat) => decide ((y : Int) ≤ x)) xs
  unfold searchRight
  refine ⟨h1, ?_, ?_⟩
  · intro j hj
    have := h2 j _ hj (getD_eq_of_lt xs j (by omega))
    simpa using this
  · intro hr
    have := h3 _ (getD_eq_of_lt xs _ hr)
    simp only [decide_eq_false_iff_not] at this
    omega

theorem searchLeft_spec (xs : List Nat) (x : Int) :
    searchLeft xs x ≤ xs.length ∧
    (∀ j, j < searchLeft xs x → ((xs.getD j 0 : Nat) : Int) < x) ∧
    (searchLeft xs x < xs.length → x ≤ ((xs.getD (searchLeft xs x) 0 : Nat) : Int)) := by
  obtain ⟨h1, h2, h3⟩ := takeWhile_spec (fun (y : Nat) => decide ((y : Int) < x)) xs
  unfold searchLeft
  refine ⟨h1, ?_, ?_⟩
  · intro j hj
    have := h2 j _ hj (getD_eq_of_lt xs j (by omega))
    simpa using this
  · intro hr
    have := h3 _ (getD_eq_of_lt xs _ hr)
    simp only [decide_eq_false_iff_not] at this
    omega

/-! ## first / last index with a positive count -/

theorem filter_range_head (q : Nat → Bool) (n a : Nat) (h : ((List.range n).filter q).head? = some a) :
    a < n ∧ q a = true ∧ ∀ i, i < a → q i = false := by
  obtain ⟨tl, htl⟩ := List.head?_eq_some_iff.mp h
  have hmem : a ∈ (List.range n).filter q := by rw [htl]; simp
  rw [List.mem_filter, List.mem_range] at hmem
  refine ⟨hmem.1, hmem.2, ?_⟩
  intro i hi
  cases hq : q i with
  | false => rfl
  | true =>
    exfalso
    have hi' : i ∈ (List.range n).filter q := by
      rw [List.mem_filter, List.mem_range]; exact ⟨by omega, hq⟩
    have hpw : List.Pairwise (· < ·) ((List.range n).filter q) := List.Pairwise.filter q List.pairwise_lt_range
    rw [htl] at hi' hpw
    rw [List.pairwise_cons] at hpw
    rcases List.mem_cons.mp hi' with h1 | h1
    · omega
    · have := hpw.1 i h1; omega

theorem filter_range_getLast (q : Nat → Bool) (n b : Nat) (h : ((List.range n).filter q).getLast? = some b) :
    b < n ∧ q b = true ∧ ∀ i, b < i → i < n → q i = false := by
  obtain ⟨ini, hini⟩ := List.getLast?_eq_some_iff.mp h
  have hmem : b ∈ (List.range n).filter q := by rw [hini]; simp
  rw [List.mem_filter, List.mem_range] at hmem
  refine ⟨hmem.1, hmem.2, ?_⟩
  intro i hi hin
  cases hq : q i with
  | false => rfl
  | true =>
    exfalso
    have hi' : i ∈ (List.range n).filter q := by
      rw [List.mem_filter, List.mem_range]; exact ⟨hin, hq⟩
    have hpw : List.Pairwise (· < ·) ((List.range n).filter q) := List.Pairwise.filter q List.pairwise_lt_range
    rw [hini] at hi' hpw
    rw [List.pairwise_append] at hpw
    rcases List.mem_append.mp hi' with h1 | h1
    · have := hpw.2.2 i h1 b (by simp); omega
    · simp at h1; omega

/-- the per-segment value counts `_build_index` collects -/
def nvOf (segs : List Segment) (p : Bytes) : List Nat :=
  segs.map fun s => match getSegmentObject s p with
    | some o => numberOfSegmentValues o s
    | none => 0

/-- what `buildIndex` returns, in terms of the value counts -/
inductive IndexSpec (nv : List Nat) (ix : ChannelIndex) : Prop
  | empty (hzero : ∀ x ∈ nv, x = 0) (hix : ix = ⟨nv.length, []⟩)
  | data (first last : Nat) (hfl : first ≤ last) (hlast : last < nv.length)
      (hfpos : 0 < nv.getD first 0) (hlpos : 0 < nv.getD last 0)
      (hbefore : ∀ i, i < first → nv.getD i 0 = 0) (hafter : ∀ i, last < i → nv.getD i 0 = 0)
      (hix : ix = ⟨first, cumsumFrom 0 ((nv.drop first).take (last + 1 - first))⟩)

theorem buildIndex_spec (segs : List Segment) (p : Bytes) : IndexSpec (nvOf segs p) (buildIndex segs p) := by
  unfold buildIndex
  simp only []
  change IndexSpec (nvOf segs p)
    (match ((List.range (nvOf segs p).length).filter fun i => (nvOf segs p).getD i 0 > 0).head?,
           ((List.range (nvOf segs p).length).filter fun i => (nvOf segs p).getD i 0 > 0).getLast? with
      | some first, some last => ⟨first, cumsumFrom 0 (((nvOf segs p).drop first).take (last + 1 - first))⟩
      | _, _ => ⟨segs.length, []⟩)
  generalize hnv : nvOf segs p = nv
  have hlen : nv.length = segs.length := by rw [← hnv]; simp [nvOf]
  generalize hq : (fun i => decide (nv.getD i 0 > 0)) = q
  cases hh : ((List.range nv.length).filter q).head? with
  | none =>
    simp only []
    have hnil : (List.range nv.length).filter q = [] := by simpa using hh
    apply IndexSpec.empty
    · intro x hx
      obtain ⟨i, hi, rfl⟩ := List.getElem_of_mem hx
      have : i ∉ (List.range nv.length).filter q := by rw [hnil]; simp
      rw [List.mem_filter, List.mem_range] at this
      have hqi : q i = false := by
        cases h : q i with
        | false => rfl
        | true => exact absurd ⟨hi, h⟩ this
      rw [← hq] at hqi
      simp [List.getD_eq_getElem?_getD, List.getElem?_eq_getElem hi] at hqi
      exact hqi
    · rw [hlen]
  | some first =>
    cases hl : ((List.range nv.length).filter q).getLast? with
    | none =>
      exfalso
      have : (List.range nv.length).filter q = [] := by simpa using hl
      rw [this] at hh; simp at hh
    | some last =>
      simp only []
      obtain ⟨hf1, hf2, hf3⟩ := filter_range_head q _ _ hh
      obtain ⟨hl1, hl2, hl3⟩ := filter_range_getLast q _ _ hl
      rw [← hq] at hf2 hf3 hl2 hl3
      simp only [gt_iff_lt, decide_eq_true_eq, decide_eq_false_iff_not, Nat.not_lt, Nat.le_zero_eq] at hf2 hf3 hl2 hl3
      apply IndexSpec.data first last
      · rcases Nat.lt_or_ge last first with h | h
        · have := hf3 last h; omega
        · exact h
      · exact hl1
      · exact hf2
      · exact hl2
      · exact hf3
      · intro i hi
        rcases Nat.lt_or_ge i nv.length with h | h
        · exact hl3 i hi h
        · simp [List.getD_eq_getElem?_getD, List.getElem?_eq_none h]
      · rfl

end Tdms.Proofs.C04
