/-
  C06, whole-file truncation theorem for files of several self-describing segments: the raw data.
  Core Lean only.
-/
import TdmsProofs.Lemmas.C06WholeMultiMeta

namespace Tdms.Proofs.C06Whole

open Tdms Tdms.Generated Tdms.Model Tdms.Proofs.Bytes Tdms.Proofs.C01Compose

/-! ## one segment placed at byte `P` -/

/-- the raw data region of a segment placed at byte `P` of which `k` bytes are in the file -/
theorem drop_data_at (file : Bytes) (s : SegEnc) (hi : s.interleaved = false) (w : WfSingle s) (P k : Nat)
    (B : Bytes) (hat : SegAt file s P k B) (hk : dataPosOf s ≤ k) :
    file.drop (P + dataPosOf s) =
      (s.chunks.take (cutQ s k)).flatMap (encCh s) ++
        (((s.chunks.drop (cutQ s k)).flatMap (encCh s)).take (cutR s k) ++ B) := by
  have hle : k ≤ (encodeSeg s (s.objs.map actOf)).length := hat.le
  have htl : ((encodeSeg s (s.objs.map actOf)).take k).length = k := by
    rw [List.length_take]; omega
  rw [← List.drop_drop, hat.bytes, List.drop_append_of_le_length (by rw [htl]; exact hk),
    drop_data_cut s hi w k hk hle, List.append_assoc]

theorem readChunksSeq_at (file : Bytes) (s : SegEnc) (hi : s.interleaved = false) (hstd : ∀ o ∈ s.objs, stdIdx o)
    (w : WfSingle s) (fit : SegFits s) (P k : Nat) (B : Bytes) (hat : SegAt file s P k B)
    (hk : dataPosOf s ≤ k) (tr : List (Nat × Nat)) :
    ∃ st', (readChunksSeq file (cutSegAt s P k) .contiguous ((dataOs s.objs).map segObjOf) 0
        (cutSegAt s P k).numChunks).run ⟨P + dataPosOf s, tr⟩ =
      .ok ((cutChunks s k).map (setCols [] ((dataOs s.objs).map segObjOf)), st') := by
  have hkL : k ≤ (encodeSeg s (s.objs.map actOf)).length := hat.le
  have hfile := drop_data_at file s hi w P k B hat hk
  have hqle := cutQ_le s w hi k hk hkL
  have hrpos := cutR_pos_imp s w hi k hk hkL
  have hend : (cutSegAt s P k).endian = s.endian := segEndian_of_tocMask s
  have hok : ∀ ch ∈ s.chunks.take (cutQ s k),
      contOK ((dataOs s.objs).map segObjOf) ((dataOs s.objs).map actOf) ch :=
    fun ch hch => contOK_std (dataOs s.objs) ch (fun d hd => w.objs d (dataOs_sub hd).1)
      (fun d hd => fit.strData d (dataOs_sub hd).1) (w.chunks ch (List.mem_of_mem_take hch))
  have hlt : (s.chunks.take (cutQ s k)).length = cutQ s k := by
    rw [List.length_take, Nat.min_eq_left hqle]
  by_cases hr : cutR s k = 0
  · have hnum : (cutSegAt s P k).numChunks = (s.chunks.take (cutQ s k)).length + 0 := by
      simp [cutSegAt, cutSeg, hr, hlt]
    have hcc : cutChunks s k = s.chunks.take (cutQ s k) := by simp [cutChunks, hr]
    rw [hnum, hcc]
    have := readChunksSeq_then file (cutSegAt s P k) (dataOs s.objs) 0 [] (s.chunks.take (cutQ s k)) 0
      (P + dataPosOf s) tr _ hok
      (fun j _ _ o => channelNumberValues_none _ o j (by simp [cutSegAt, cutSeg, hr]))
      (by rw [hend]; exact hfile) (fun tr1 => ⟨_, rfl⟩)
    simpa using this
  · obtain ⟨_, _, hltL, hq⟩ := hrpos hr
    have hB : B = [] := hat.cut hltL
    subst hB
    rw [List.append_nil] at hfile
    have hnum : (cutSegAt s P k).numChunks = (s.chunks.take (cutQ s k)).length + 1 := by
      simp [cutSegAt, cutSeg, hr, hlt]
    have hcc : cutChunks s k = s.chunks.take (cutQ s k) ++ [lastChunk s k] := by simp [cutChunks, hr]
    rw [hnum, hcc, List.map_append]
    refine readChunksSeq_then file (cutSegAt s P k) (dataOs s.objs) 1
      [setCols [] ((dataOs s.objs).map segObjOf) (lastChunk s k)] (s.chunks.take (cutQ s k)) 0
      (P + dataPosOf s) tr _ hok
      (fun j _ hj o => channelNumberValues_not_last _ o j (by rw [hnum]; omega))
      (by rw [hend]; exact hfile) ?_
    intro tr1
    rw [hend, hlt, Nat.zero_add]
    have hd := drop_add_of_drop_eq hfile
    have hdq : s.chunks.drop (cutQ s k) = s.chunks[cutQ s k] :: s.chunks.drop (cutQ s k + 1) :=
      List.drop_eq_getElem_cons hq
    rw [hdq, List.flatMap_cons] at hd
    obtain ⟨st1, h1⟩ := readContiguousChunk_last s hstd w fit k (cutSegAt s P k) file _
      (P + dataPosOf s + ((s.chunks.take (cutQ s k)).flatMap (encCh s)).length) tr1 hr hq hend
      (by simp [cutSegAt, cutSeg, hr]) (by simp [cutSegAt, cutSeg, hr])
      (by rw [hd, List.take_take, Nat.min_self])
    refine ⟨st1, ?_⟩
    show readChunksSeq file (cutSegAt s P k) .contiguous ((dataOs s.objs).map segObjOf) (cutQ s k) (0 + 1) _ = _
    unfold readChunksSeq
    simp only
    have h1' : readContiguousChunk file (cutSegAt s P k) (cutQ s k) ((dataOs s.objs).map segObjOf) []
      ⟨P + dataPosOf s + ((s.chunks.take (cutQ s k)).flatMap (encCh s)).length, tr1⟩ = _ := h1
    rw [F_bind_ok h1']
    simp only [readChunksSeq]
    rw [F_bind_ok (F_pure _ _)]
    rfl

/-- **the raw data of one segment placed at byte `P`** (complete or cut inside its raw data), from any file state -/
theorem segRead_at (file : Bytes) (s : SegEnc) (h : CutStd s) (fit : SegFits s) (P k : Nat) (B : Bytes)
    (hat : SegAt file s P k B) (hk : dataPosOf s ≤ k) (st : FState) :
    ∃ st1 st', verifySegmentStart file (cutSegAt s P k) st = .ok ((), st1) ∧
      segmentReadRawData file (cutSegAt s P k) st1 = .ok (cutRawChunks s k, st') := by
  have w := h.wfSingle
  obtain ⟨st1, hseq⟩ := readChunksSeq_at file s h.contiguous h.stdObjs w fit P k B hat hk (st.trace ++ [(P, 4)])
  have htake := take_file_data s k hk
  have htag : file.drop (⟨P, st.trace⟩ : FState).pos = tagData ++ (encLE 4 (tocMask s) ++ enc s.endian 4 s.version ++
      enc s.endian 8 (if s.lengthUnknown then 2 ^ 64 - 1 else (segMeta s).length + (encRaw s (s.objs.map actOf)).length) ++
      enc s.endian 8 (segMeta s).length ++
      (segMeta s ++ (encRaw s (s.objs.map actOf)).take (k - dataPosOf s)) ++ B) := by
    rw [hat.bytes, htake]; simp [encLeadIn]
  have hkind : dataReaderKind (cutSegAt s P k) = .ok .contiguous :=
    dataReaderKind_std _ s.objs h.stdObjs rfl (by
      show hasFlag (tocMask s) kTocInterleavedData = false
      rw [hasFlag_tocMask_interleaved, h.contiguous])
  have hverify : verifySegmentStart file (cutSegAt s P k) st = .ok ((), ⟨P + 4, st.trace ++ [(P, 4)]⟩) := by
    have hread : fRead file 4 ⟨P, st.trace⟩ = .ok (tagData, ⟨P + 4, st.trace ++ [(P, 4)]⟩) :=
      fRead_of_drop htag
    unfold verifySegmentStart
    have hseek : fSeek (cutSegAt s P k).position st = .ok ((), ⟨P, st.trace⟩) := rfl
    rw [F_bind_ok hseek, F_bind_ok hread]
    simp [F_pure]
  have hsegread : segmentReadRawData file (cutSegAt s P k) ⟨P + 4, st.trace ++ [(P, 4)]⟩ =
      .ok (cutRawChunks s k, st1) := by
    unfold segmentReadRawData
    have hseek : fSeek (cutSegAt s P k).dataPosition ⟨P + 4, st.trace ++ [(P, 4)]⟩ =
        .ok ((), ⟨P + dataPosOf s, st.trace ++ [(P, 4)]⟩) := rfl
    have hlift : liftE (dataReaderKind (cutSegAt s P k)) ⟨P + dataPosOf s, st.trace ++ [(P, 4)]⟩ =
        .ok (.contiguous, ⟨P + dataPosOf s, st.trace ++ [(P, 4)]⟩) := by
      rw [hkind]; rfl
    have hd : (cutSegAt s P k).objects.filter (·.hasData) = (dataOs s.objs).map segObjOf :=
      filter_hasData_map_segObjOf s.objs h.stdObjs
    have hflagraw : hasFlag (cutSegAt s P k).toc kTocRawData = s.rawFlag := hasFlag_tocMask_raw s
    simp only []
    rw [F_bind_ok hseek, F_bind_ok hlift]
    simp only [hd]
    have hseq' : readChunksSeq file (cutSegAt s P k) .contiguous ((dataOs s.objs).map segObjOf) 0
      (cutSegAt s P k).numChunks ⟨P + dataPosOf s, st.trace ++ [(P, 4)]⟩ = _ := hseq
    rw [F_bind_ok hseq']
    simp only [F_pure, cutRawChunks, hflagraw]
  exact ⟨_, st1, hverify, hsegread⟩

/-! ## all segments -/

/-- the complete segments `ss` laid out from byte `P` on, followed by the segments `tailSegs` -/
theorem readRawDataAll_run (file : Bytes) (tailSegs : List Segment) (ct : List RawChunk)
    (htail : ∀ st, ∃ st', (readRawDataAll file tailSegs).run st = .ok (ct, st')) :
    ∀ (ss : List SegEnc) (P : Nat) (tailB : Bytes),
      (∀ s ∈ ss, CutStd s ∧ SegFits s ∧ s.lengthUnknown = false) →
      file.drop P = encAll ss ++ tailB → file.length = P + (encAll ss).length + tailB.length →
      ∀ st, ∃ st', (readRawDataAll file (runSegs P ss ++ tailSegs)).run st =
        .ok (ss.flatMap (fun s => cutRawChunks s (encLen s)) ++ ct, st') := by
  intro ss
  induction ss with
  | nil => intro P tailB _ _ _ st; simpa [runSegs] using htail st
  | cons s ss ih =>
    intro P tailB hall hbytes hsize st
    obtain ⟨hs, hfit, hlu⟩ := hall s List.mem_cons_self
    have w := hs.wfSingle
    rw [encAll_cons, List.append_assoc] at hbytes
    rw [encAll_length_cons] at hsize
    have hat : SegAt file s P (encLen s) (encAll ss ++ tailB) := by
      refine ⟨?_, ?_, Nat.le_refl _, fun h => absurd h (Nat.lt_irrefl _), fun h => ?_⟩
      · rw [hbytes]; unfold encLen; rw [List.take_length]
      · rw [hsize, List.length_append]; omega
      · rw [hlu] at h; cases h
    have hLd : dataPosOf s ≤ encLen s := by
      unfold encLen; rw [file_length s w hs.contiguous]; omega
    obtain ⟨st1, st2, hv, hr⟩ := segRead_at file s hs hfit P (encLen s) _ hat hLd st
    obtain ⟨st3, hrest⟩ := ih (P + encLen s) tailB (fun x hx => hall x (List.mem_cons_of_mem _ hx))
      (by rw [← List.drop_drop, hbytes]; unfold encLen; rw [List.drop_left])
      (by rw [hsize]; omega) st2
    refine ⟨st3, ?_⟩
    show readRawDataAll file (cutSegAt s P (encLen s) :: (runSegs (P + encLen s) ss ++ tailSegs)) st = _
    unfold readRawDataAll
    have hrest' : readRawDataAll file (runSegs (P + encLen s) ss ++ tailSegs) st2 = _ := hrest
    rw [F_bind_ok hv, F_bind_ok hr, F_bind_ok hrest']
    simp [F_pure]

/-- the raw chunks of the file `s₀ :: mid` followed by `k` bytes of `s` -/
def multiRawChunks (s₀ : SegEnc) (mid : List SegEnc) (s : SegEnc) (k : Nat) : List RawChunk :=
  (s₀ :: mid).flatMap (fun x => cutRawChunks x (encLen x)) ++ (if dataPosOf s ≤ k then cutRawChunks s k else [])

theorem readRawDataAll_multi (s₀ : SegEnc) (mid : List SegEnc) (s : SegEnc) (H : MultiOK s₀ mid s) (k : Nat)
    (hk : k ≤ encLen s) (prev : PrevObjs) (st : FState) :
    ∃ st', (readRawDataAll (encAll (s₀ :: mid) ++ (encodeSeg s (s.objs.map actOf)).take k)
        (multiState s₀ mid s k prev).segments).run st = .ok (multiRawChunks s₀ mid s k, st') := by
  generalize hfile : encAll (s₀ :: mid) ++ (encodeSeg s (s.objs.map actOf)).take k = file
  have htk : ((encodeSeg s (s.objs.map actOf)).take k).length = k := by
    rw [List.length_take]; unfold encLen at hk; omega
  have hall : ∀ x ∈ s₀ :: mid, CutStd x ∧ SegFits x ∧ x.lengthUnknown = false := by
    intro x hx
    rcases List.mem_cons.mp hx with rfl | hx
    · exact ⟨H.first, H.firstFits, H.firstKnown⟩
    · obtain ⟨h1, h2⟩ := H.mid x hx
      exact ⟨h1.std, h1.fits, h2⟩
  have hbytes : file.drop 0 = encAll (s₀ :: mid) ++ (encodeSeg s (s.objs.map actOf)).take k := by
    rw [List.drop_zero, hfile]
  have hsize : file.length = 0 + (encAll (s₀ :: mid)).length + ((encodeSeg s (s.objs.map actOf)).take k).length := by
    rw [← hfile, List.length_append]; omega
  by_cases hkd : dataPosOf s ≤ k
  · have hats : SegAt file s (encAll (s₀ :: mid)).length k [] := by
      refine ⟨?_, ?_, hk, fun _ => rfl, fun _ => rfl⟩
      · rw [← hfile, List.drop_left, List.append_nil]
      · rw [← hfile, List.length_append, htk]; simp
    have htail : ∀ st, ∃ st', (readRawDataAll file [cutSegAt s (encAll (s₀ :: mid)).length k]).run st =
        .ok (cutRawChunks s k ++ [], st') := by
      intro st
      obtain ⟨st1, st2, hv, hr⟩ := segRead_at file s H.last.std H.last.fits _ k [] hats hkd st
      refine ⟨st2, ?_⟩
      show readRawDataAll file [cutSegAt s (encAll (s₀ :: mid)).length k] st = _
      unfold readRawDataAll
      rw [F_bind_ok hv, F_bind_ok hr]
      simp only [readRawDataAll]
      rw [F_bind_ok (F_pure _ _)]
      simp [F_pure]
    have := readRawDataAll_run file _ _ htail (s₀ :: mid) 0 _ hall hbytes hsize st
    simpa [multiState, multiRawChunks, hkd, stAfter] using this
  · have htail : ∀ st, ∃ st', (readRawDataAll file []).run st = .ok (([] : List RawChunk), st') :=
      fun st => ⟨st, rfl⟩
    have := readRawDataAll_run file _ _ htail (s₀ :: mid) 0 _ hall hbytes hsize st
    simpa [multiState, multiRawChunks, hkd, stAfter] using this

end Tdms.Proofs.C06Whole
