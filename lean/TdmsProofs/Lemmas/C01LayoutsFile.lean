/-
  C01 for files with contiguous and interleaved segments: `readFile` (receivers, capacity check) and the
  comparison with `denote`.  The one chunk an interleaved segment yields carries, per data object, the
  concatenation of what `denote` adds chunk by chunk (`bump_mergeCols`).  Core Lean only.
-/
import TdmsProofs.Lemmas.C01LayoutsData

namespace Tdms.Proofs.C01Layouts

open Tdms Tdms.Generated Tdms.Model Tdms.Proofs.C02 Tdms.Proofs.C01Multi
open Tdms.Proofs.Bytes (canonProp)
open Tdms.Proofs.C01Compose (pairsChunk bump rcvWith valuesIn ObjView content contentOfDenote)

/-! ## merged columns against per-chunk pairs -/

/-- the values stored under `q` in a list of (path, values) pairs -/
def colOf (pairs : List (Bytes × List Bytes)) (q : Bytes) : List Bytes :=
  (pairs.filter fun pv => decide (pv.1 = q)).flatMap (·.2)

theorem colOf_not_mem (pairs : List (Bytes × List Bytes)) (q : Bytes) (h : q ∉ pairs.map (·.1)) :
    colOf pairs q = [] := by
  unfold colOf
  have : pairs.filter (fun pv => decide (pv.1 = q)) = [] := by
    rw [List.filter_eq_nil_iff]
    intro pv hpv hq
    exact h (List.mem_map.2 ⟨pv, hpv, by simpa using hq⟩)
  rw [this]; rfl

theorem zip_fst_sub {α β : Type} (ps : List α) (vs : List β) {p : α} (h : p ∈ (ps.zip vs).map (·.1)) : p ∈ ps := by
  obtain ⟨pv, hpv, rfl⟩ := List.mem_map.mp h
  exact (List.of_mem_zip hpv).1

theorem colOf_zipApp : ∀ (ps : List Bytes) (v w : List (List Bytes)) (q : Bytes), ps.Nodup →
    v.length = w.length → colOf (ps.zip (zipApp v w)) q = colOf (ps.zip v) q ++ colOf (ps.zip w) q := by
  intro ps
  induction ps with
  | nil => intro v w q _ _; simp [colOf]
  | cons p ps ih =>
    intro v w q hnd hlen
    cases v with
    | nil =>
      cases w with
      | nil => simp [colOf, zipApp]
      | cons w0 ws => simp at hlen
    | cons v0 vs =>
      cases w with
      | nil => simp at hlen
      | cons w0 ws =>
        rw [List.nodup_cons] at hnd
        have hlen' : vs.length = ws.length := by simpa using hlen
        have ih' := ih vs ws q hnd.2 hlen'
        show colOf ((p, v0 ++ w0) :: ps.zip (zipApp vs ws)) q = colOf ((p, v0) :: ps.zip vs) q ++ colOf ((p, w0) :: ps.zip ws) q
        by_cases hpq : p = q
        · subst hpq
          have h1 := colOf_not_mem (ps.zip (zipApp vs ws)) p (fun h => hnd.1 (zip_fst_sub _ _ h))
          have h2 := colOf_not_mem (ps.zip vs) p (fun h => hnd.1 (zip_fst_sub _ _ h))
          have h3 := colOf_not_mem (ps.zip ws) p (fun h => hnd.1 (zip_fst_sub _ _ h))
          unfold colOf at h1 h2 h3 ⊢
          simp only [List.filter_cons, decide_true, if_true, List.flatMap_cons, h1, h2, h3, List.append_nil]
        · unfold colOf at ih' ⊢
          simp only [List.filter_cons, hpq, decide_false, Bool.false_eq_true, if_false]
          exact ih'

theorem bump_closed (pairs : List (Bytes × List Bytes)) (f : Bytes → List Bytes) :
    pairs.foldl bump f = fun q => f q ++ colOf pairs q := by
  funext q
  exact bump_foldl_closed pairs f q

theorem colOf_flatMap {α : Type} (l : List α) (g : α → List (Bytes × List Bytes)) (q : Bytes) :
    colOf (l.flatMap g) q = l.flatMap fun x => colOf (g x) q := by
  induction l with
  | nil => rfl
  | cons x xs ih =>
    have : colOf (g x ++ xs.flatMap g) q = colOf (g x) q ++ colOf (xs.flatMap g) q := by
      simp [colOf, List.filter_append, List.flatMap_append]
    simp only [List.flatMap_cons, this, ih]

theorem wfStdChunk_length : ∀ (d : List ActiveObj) (ch : List (List Bytes)), wfStdChunk d ch = true →
    ch.length = d.length := by
  intro d
  induction d with
  | nil => intro ch h; rw [wfStdChunk_nil_left h]; rfl
  | cons a as ih =>
    intro ch h
    cases ch with
    | nil => simp [wfStdChunk] at h
    | cons v vs =>
      rw [wfStdChunk, Bool.and_eq_true] at h
      simp [ih vs h.2]

theorem mergeCols_length (d : List ActiveObj) : ∀ (chs : List (List (List Bytes))),
    (∀ ch ∈ chs, ch.length = d.length) → (mergeCols d chs).length = d.length := by
  intro chs
  induction chs with
  | nil => intro _; simp [mergeCols]
  | cons ch chs ih =>
    intro h
    simp [mergeCols, zipApp, h ch List.mem_cons_self, ih (fun c hc => h c (List.mem_cons_of_mem _ hc))]

theorem colOf_empty_cols (ps : List Bytes) : ∀ (k : Nat) (q : Bytes),
    colOf (ps.zip (List.replicate k [])) q = [] := by
  induction ps with
  | nil => intro k q; simp [colOf]
  | cons p ps ih =>
    intro k q
    cases k with
    | zero => simp [colOf]
    | succ k =>
      have := ih k q
      unfold colOf at this ⊢
      simp only [List.replicate_succ, List.zip_cons_cons, List.filter_cons]
      split
      · simpa using this
      · exact this

theorem map_const_nil {α : Type} (d : List α) :
    (d.map fun _ => ([] : List Bytes)) = List.replicate d.length [] := by
  induction d with
  | nil => rfl
  | cons a as ih => simp [List.replicate_succ, ih]

/-- the merged columns hold, per path, the per-chunk values in chunk order -/
theorem colOf_mergeCols (d : List ActiveObj) (hnd : (d.map (·.path)).Nodup) (q : Bytes) :
    ∀ (chs : List (List (List Bytes))), (∀ ch ∈ chs, ch.length = d.length) →
      colOf (pairsOf d (mergeCols d chs)) q = colOf (chs.flatMap (pairsOf d)) q := by
  intro chs
  induction chs with
  | nil =>
    intro _
    have := map_const_nil d
    simp only [mergeCols, pairsOf, this, colOf_empty_cols, List.flatMap_nil]
    rfl
  | cons ch chs ih =>
    intro hlen
    have hrest : ∀ c ∈ chs, c.length = d.length := fun c hc => hlen c (List.mem_cons_of_mem _ hc)
    have hm := mergeCols_length d chs hrest
    have := colOf_zipApp (d.map (·.path)) ch (mergeCols d chs) q hnd
      (by rw [hlen ch List.mem_cons_self, hm])
    simp only [mergeCols, pairsOf] at this ⊢
    rw [this, colOf_flatMap, List.flatMap_cons, ← colOf_flatMap]
    congr 1
    exact ih hrest

theorem bump_mergeCols (d : List ActiveObj) (hnd : (d.map (·.path)).Nodup)
    (chs : List (List (List Bytes))) (hlen : ∀ ch ∈ chs, ch.length = d.length) (f : Bytes → List Bytes) :
    (pairsOf d (mergeCols d chs)).foldl bump f = (chs.flatMap (pairsOf d)).foldl bump f := by
  rw [bump_closed, bump_closed]
  funext q
  rw [colOf_mergeCols d hnd q chs hlen]

/-! ## the chunks of a segment as lists of pairs -/

def pairListsI (s : SegEnc) (a : List ActiveObj) : List (List (Bytes × List Bytes)) :=
  (if !s.rawFlag then [[]] else []) ++
    (if s.interleaved then
      (if (dataObjs a).isEmpty then [] else [pairsOf (dataObjs a) (mergeCols (dataObjs a) s.chunks)])
     else s.chunks.map (pairsOf (dataObjs a)))

def pairListsAllI : List SegEnc → List (List ActiveObj) → List (List (Bytes × List Bytes))
  | s :: ss, a :: as => pairListsI s a ++ pairListsAllI ss as
  | _, _ => []

theorem rawChunksOfSegI_eq (s : SegEnc) (a : List ActiveObj) :
    rawChunksOfSegI s a = (pairListsI s a).map pairsChunk := by
  unfold rawChunksOfSegI pairListsI
  cases s.rawFlag <;> cases s.interleaved <;> cases (dataObjs a).isEmpty <;> simp [pairsChunk]

theorem rawChunksAllI_eq : ∀ (ss : List SegEnc) (as : List (List ActiveObj)),
    rawChunksAllI ss as = (pairListsAllI ss as).map pairsChunk := by
  intro ss
  induction ss with
  | nil => intro as; cases as <;> rfl
  | cons s ss ih =>
    intro as
    cases as with
    | nil => rfl
    | cons a as => rw [rawChunksAllI, pairListsAllI, List.map_append, rawChunksOfSegI_eq, ih]

theorem pairListsI_fold {s : SegEnc} {a : List ActiveObj} (hok : SegOKI s a) (hnd : (a.map (·.path)).Nodup)
    (f : Bytes → List Bytes) : (pairListsI s a).flatten.foldl bump f = (segPairs s a).foldl bump f := by
  have hpre : ∀ (L : List (List (Bytes × List Bytes))),
      ((if !s.rawFlag then [[]] else []) ++ L).flatten = L.flatten := by
    intro L; cases s.rawFlag <;> simp
  unfold pairListsI
  rw [hpre]
  cases hi : s.interleaved with
  | false => simp [segPairs, List.flatMap_def]
  | true =>
    simp only [if_true]
    have hlen : ∀ ch ∈ s.chunks, ch.length = (dataObjs a).length :=
      fun ch hch => wfStdChunk_length _ _ (hok.chunks ch hch)
    have hm := bump_mergeCols (dataObjs a) (dataObjs_nodup hnd) s.chunks hlen f
    cases hd : dataObjs a with
    | nil =>
      have hp : pairsOf [] = fun _ => [] := by funext ch; simp [pairsOf]
      have hz : ∀ l : List (List (List Bytes)), l.flatMap (fun _ => ([] : List (Bytes × List Bytes))) = [] := by
        intro l; induction l <;> simp [*]
      simp [segPairs, hd, hp, hz]
    | cons x xs =>
      rw [hd] at hm
      simp only [List.isEmpty_cons, Bool.false_eq_true, if_false, List.flatten_cons, List.flatten_nil,
        List.append_nil, hm, segPairs, hd]

theorem pairListsAllI_fold : ∀ (ss : List SegEnc) (as : List (List ActiveObj)), SegsOKI ss as →
    ActsNodup as → ∀ f : Bytes → List Bytes,
    (pairListsAllI ss as).flatten.foldl bump f = (allPairs ss as).foldl bump f := by
  intro ss
  induction ss with
  | nil => intro as _ _ f; cases as <;> rfl
  | cons s ss ih =>
    intro as hok hnd f
    cases as with
    | nil => rfl
    | cons a as =>
      rw [pairListsAllI, allPairs, List.flatten_append, List.foldl_append, List.foldl_append,
        pairListsI_fold hok.1 (hnd a List.mem_cons_self),
        ih as hok.2 (fun a' ha' => hnd a' (List.mem_cons_of_mem _ ha'))]

/-! ## which paths occur in the chunks -/

/-- the condition on one segment and its active list: if the segment has a chunk OR IS INTERLEAVED, every
    object active with data is a channel.  (An interleaved segment hands its data objects to the receivers
    even when it has no chunk: `InterleavedDataReader.read_data_chunks` always yields one chunk.) -/
def ChannelsOnlyI (sa : SegEnc × List ActiveObj) : Prop :=
  (sa.1.chunks ≠ [] ∨ sa.1.interleaved = true) → ∀ x ∈ sa.2, x.hasData = true → countComponents x.path = 2

def onlyChannelsHaveDataI (e : FileEnc) : Prop :=
  ∀ acts, activeLists none [] e = .ok acts → ∀ sa ∈ e.zip acts, ChannelsOnlyI sa

def onlyChannelsHaveDataIB (e : FileEnc) : Bool :=
  match activeLists none [] e with
  | .ok acts => (e.zip acts).all fun sa =>
      (sa.1.chunks.isEmpty && !sa.1.interleaved) ||
        sa.2.all fun x => !x.hasData || decide (countComponents x.path = 2)
  | .error _ => true

theorem onlyChannelsHaveDataIB_sound {e : FileEnc} (h : onlyChannelsHaveDataIB e = true) :
    onlyChannelsHaveDataI e := by
  intro acts ha sa hsa hne x hx hd
  unfold onlyChannelsHaveDataIB at h
  rw [ha] at h
  simp only [List.all_eq_true, Bool.or_eq_true, Bool.and_eq_true, Bool.not_eq_true', decide_eq_true_eq] at h
  rcases h sa hsa with h | h
  · rcases hne with hne | hne
    · exact absurd (List.isEmpty_iff.mp h.1) hne
    · rw [hne] at h; cases h.2
  · rcases h x hx with h | h
    · rw [hd] at h; cases h
    · exact h

theorem mem_pairListsI {s : SegEnc} {a : List ActiveObj} {pairs : List (Bytes × List Bytes)}
    {pv : Bytes × List Bytes} (h1 : pairs ∈ pairListsI s a) (h2 : pv ∈ pairs) :
    (s.chunks ≠ [] ∨ s.interleaved = true) ∧ pv.1 ∈ (dataObjs a).map (·.path) := by
  unfold pairListsI at h1
  rw [List.mem_append] at h1
  rcases h1 with h1 | h1
  · have : pairs = [] := by
      cases hr : s.rawFlag <;> simp [hr] at h1
      exact h1
    subst this; cases h2
  · cases hi : s.interleaved with
    | false =>
      rw [hi] at h1
      simp only [Bool.false_eq_true, if_false, List.mem_map] at h1
      obtain ⟨ch, hch, rfl⟩ := h1
      exact ⟨Or.inl (List.ne_nil_of_mem hch), (List.of_mem_zip h2).1⟩
    | true =>
      rw [hi] at h1
      simp only [if_true] at h1
      split at h1
      · cases h1
      · rw [List.mem_singleton] at h1
        subst h1
        exact ⟨Or.inr rfl, (List.of_mem_zip h2).1⟩

theorem dataObj_idx_ne_none {s : SegEnc} {a : List ActiveObj} (hok : SegOKI s a)
    (hne : s.chunks ≠ [] ∨ s.interleaved = true) : ∀ x ∈ dataObjs a, x.idx ≠ none := by
  intro x hx
  rcases hne with hne | hi
  · obtain ⟨ch, hch⟩ := List.exists_mem_of_ne_nil _ hne
    exact wfStdChunk_idx _ _ (hok.chunks ch hch) x hx
  · obtain ⟨ty, n, total, hidx, _⟩ := (hok.inter hi).fixed x hx
    rw [hidx]; simp

/-- every path that occurs in a chunk the reader yields has a data type in the final content, and is active
    with data in a segment that has a chunk or is interleaved -/
theorem pairListsAllI_hasTy : ∀ (ss : List SegEnc) (as : List (List ActiveObj)) (c : Content), SegsOKI ss as →
    ∀ pairs ∈ pairListsAllI ss as, ∀ pv ∈ pairs, hasTy (denoteSegs c ss as) pv.1 ∧
      ∃ sa ∈ ss.zip as, (sa.1.chunks ≠ [] ∨ sa.1.interleaved = true) ∧
        ∃ x ∈ sa.2, x.hasData = true ∧ x.path = pv.1 := by
  intro ss
  induction ss with
  | nil => intro as c _ pairs hp; cases as <;> simp [pairListsAllI] at hp
  | cons s ss ih =>
    intro as c h pairs hp pv hpv
    cases as with
    | nil => cases h
    | cons a as =>
      rw [pairListsAllI, List.mem_append] at hp
      rcases hp with hp | hp
      · obtain ⟨hne, hmem⟩ := mem_pairListsI hp hpv
        rw [List.mem_map] at hmem
        obtain ⟨x, hx, hxp⟩ := hmem
        have hxa : x ∈ a ∧ x.hasData = true := by simpa [dataObjs] using hx
        have hidx := dataObj_idx_ne_none h.1 hne x hx
        refine ⟨?_, (s, a), List.mem_cons_self, hne, x, hxa.1, hxa.2, hxp⟩
        rw [denoteSegs, ← hxp, ← denoteSegs_deint]
        have := hasTy_denoteSegs (ss.map deint) as _ _ (segsOK_deint ss as h.2)
          (hasTy_denoteSeg_active c s a (not_daq_of_good h.1.good) x hxa.1 hidx)
        exact this
      · obtain ⟨h1, sa, hsa, h2⟩ := ih as (denoteSeg c s a) h.2 pairs hp pv hpv
        exact ⟨h1, sa, List.mem_cons_of_mem _ hsa, h2⟩

/-! ## `readFile` and the content -/

theorem channelsOnly_deint {e : FileEnc} {acts : List (List ActiveObj)}
    (hch : ∀ sa ∈ e.zip acts, ChannelsOnlyI sa) : ∀ sa ∈ (e.map deint).zip acts, ChannelsOnly sa := by
  intro sa hsa hne x hx hd
  rw [List.zip_map_left, List.mem_map] at hsa
  obtain ⟨sa0, hsa0, rfl⟩ := hsa
  exact hch sa0 hsa0 (Or.inl hne) x hx hd

/-- **`readFile` on the encoding of a file with contiguous and interleaved segments** -/
theorem readFile_multiI (e : FileEnc) (acts : List (List ActiveObj)) (hacts : activeLists none [] e = .ok acts)
    (hok : SegsOKI e acts) (hnd : ActsNodup acts) (hch : ∀ sa ∈ e.zip acts, ChannelsOnlyI sa)
    (hlen : (zipEncode encodeSeg e acts).length < 2 ^ 63) :
    ∃ st, readMetadata (zipEncode encodeSeg e acts) = .ok st ∧
      st.objects = (denoteSegs [] e acts).map (mOC fun _ => 0) ∧
      readFile (zipEncode encodeSeg e acts) = .ok ⟨st, channelsOfContent (denoteSegs [] e acts)⟩ := by
  obtain ⟨st, hmeta, hsegs, hobjs, _⟩ := readMetadata_multiI e acts hacts hok hlen
  obtain ⟨fs, hdata⟩ := readRawDataAll_multiI (zipEncode encodeSeg e acts) e acts 0 {} hok hnd rfl
  refine ⟨st, hmeta, hobjs, C01Compose.readFile_of_parts _ _ (rawChunksAllI e acts) fs _ hmeta
    (by rw [hsegs]; exact hdata) ?_⟩
  have hokd := segsOK_deint e acts hok
  have htyok : TyOK (denoteSegs [] e acts) := by
    have := tyOK_denoteSegs (e.map deint) acts [] hokd (fun _ h => by cases h)
    rwa [denoteSegs_deint] at this
  have hvals : valsOf (denoteSegs [] e acts) = (allPairs e acts).foldl bump (fun _ => []) := by
    have := valsOf_denoteSegs (e.map deint) acts [] hokd
    rwa [denoteSegs_deint, allPairs_deint] at this
  have hps : ∀ pairs ∈ pairListsAllI e acts, ∀ pv ∈ pairs, pv.1 ∈ rcvPathsC (denoteSegs [] e acts) := by
    intro pairs hpairs pv hpv
    obtain ⟨h1, sa, hsa, hne, x, hx, hd, hxp⟩ := pairListsAllI_hasTy e acts [] hok pairs hpairs pv hpv
    exact mem_rcvPathsC h1 (hxp ▸ hch sa hsa hne x hx hd)
  rw [hobjs, receivers_of_content _ htyok, rawChunksAllI_eq, channelsOfContent, hvals,
    ← pairListsAllI_fold e acts hok hnd]
  apply foldl_fileStep_chunks st
  · exact hps
  · intro p _
    rw [hobjs, cap_of_content, hvals, pairListsAllI_fold e acts hok hnd]
    exact Nat.le_refl _

/-- **the reader's content is the spec's content** -/
theorem content_multiI (e : FileEnc) (acts : List (List ActiveObj)) (hok : SegsOKI e acts)
    (hch : ∀ sa ∈ e.zip acts, ChannelsOnlyI sa)
    (st : ReaderState) (hobjs : st.objects = (denoteSegs [] e acts).map (mOC fun _ => 0)) :
    content ⟨st, channelsOfContent (denoteSegs [] e acts)⟩ = contentOfDenote (denoteSegs [] e acts) := by
  have := content_multi (e.map deint) acts (segsOK_deint e acts hok) (channelsOnly_deint hch) st
    (by rw [denoteSegs_deint]; exact hobjs)
  rwa [denoteSegs_deint] at this

end Tdms.Proofs.C01Layouts
