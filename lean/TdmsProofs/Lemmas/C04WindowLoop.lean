import TdmsProofs.Lemmas.C04WindowFrame

/-!
# C04 (windows): the loop over segments, and the window theorem on model segments

Core Lean only.
-/

namespace Tdms.Proofs.C04

open Tdms Tdms.Model

theorem fullFrom_length (vals : Vals) (i : Nat) (L : List SegL) (hwf : WellFormed L)
    (hv : ∀ t l, L[t]? = some l → ChunksOk l (vals (i + t))) :
    (fullFrom vals i L).length = (L.map SegL.nvals).sum := by
  induction L generalizing i with
  | nil => rfl
  | cons l ls ih =>
    simp only [fullFrom, List.length_append, List.map_cons, List.sum_cons]
    rw [segVals_length l (vals i) (hwf l (by simp)) (by simpa using hv 0 l (by simp))]
    rw [ih (i + 1) (fun l' hl' => hwf l' (by simp [hl']))]
    intro t l' hl'
    have := hv (t + 1) l' (by simpa using hl')
    rw [show i + 1 + t = i + (t + 1) by omega]
    exact this

theorem fullFrom_append (vals : Vals) (i : Nat) (L1 L2 : List SegL) :
    fullFrom vals i (L1 ++ L2) = fullFrom vals i L1 ++ fullFrom vals (i + L1.length) L2 := by
  induction L1 generalizing i with
  | nil => simp [fullFrom]
  | cons l ls ih =>
    simp only [List.cons_append, fullFrom, List.append_assoc, List.length_cons]
    rw [ih (i + 1)]
    congr 3; omega

/-- the loop over the segments `i, i+1, …, endSeg` returns the window cut out of those segments -/
theorem loop_eq (segs : List Segment) (p : Bytes) (vals : Vals) (L : List SegL) (nv : List Nat)
    (hL : L = segs.map (layoutOf p)) (hnv : nv = L.map SegL.nvals)
    (hwf : WellFormed L) (hvals : ValsOk L vals)
    (ix : ChannelIndex) (offset endIndex : Int) (startSeg endSeg : Nat)
    (fr : Frame nv ix offset endIndex startSeg endSeg)
    (hF : startSeg ≤ endSeg → startSeg < segs.length → offset ≤ endIndex) :
    ∀ cnt i vr, i + cnt = endSeg + 1 → startSeg ≤ i →
      vr = (if i = startSeg then 0 else ((psum nv i : Nat) : Int) - offset) →
      dataOf (windowLoopPure (supOf vals) p ix offset endIndex (endIndex - offset) startSeg endSeg
        ((segs.drop i).take cnt) i vr)
      = sl (fullFrom vals i ((L.drop i).take cnt)) (offset - ((psum nv i : Nat) : Int))
          (endIndex - ((psum nv i : Nat) : Int)) := by
  have hLlen : L.length = segs.length := by rw [hL]; simp
  have hnvlen : nv.length = segs.length := by rw [hnv, List.length_map, hLlen]
  intro cnt
  induction cnt with
  | zero => intro i vr _ _ _; simp [windowLoopPure, fullFrom, dataOf, sl]
  | succ cnt ih =>
    intro i vr hcnt hsi hvr
    rcases Nat.lt_or_ge i segs.length with hi | hi
    · have hiL : i < L.length := by omega
      have hinv : i < nv.length := by omega
      have hLi : L[i] = layoutOf p segs[i] := by subst hL; simp
      have hnvi : nv[i] = L[i].nvals := by subst hnv; simp
      have hps := psum_succ nv i hinv
      rw [hnvi] at hps
      rw [List.drop_eq_getElem_cons hi, List.drop_eq_getElem_cons hiL, List.take_succ_cons, List.take_succ_cons]
      simp only [windowLoopPure, fullFrom]
      rw [segPlan_eq_planA, ← hLi]
      have hwfi : L[i].WF := hwf _ (List.getElem_mem hiL)
      have hvi : ChunksOk L[i] (vals i) := hvals i L[i] (List.getElem?_eq_getElem hiL)
      obtain ⟨hE1, hE2⟩ := fr.hE i hsi (by omega) hinv
      rw [hE1, hE2]
      have hBi : i = startSeg → offset < ((psum nv (i + 1) : Nat) : Int) := by
        intro h; subst h; exact fr.hB (by omega) hinv
      by_cases hcs : L[i].cs = 0
      · -- the channel has no data in this segment
        have hnone : ∀ a b c d, planA L[i] a b c d = none := by
          intro a b c d; unfold planA; rw [if_pos hcs]
        have hsv : segVals L[i] (vals i) = [] := by unfold segVals; rw [if_pos hcs]
        have hnz : L[i].nvals = 0 := by unfold SegL.nvals; rw [if_pos hcs]
        rw [hnone, hsv, List.nil_append]
        simp only []
        have hps' : psum nv (i + 1) = psum nv i := by omega
        have hne : i ≠ startSeg := by
          intro h
          have := hBi h
          have := fr.hA
          rw [← h] at this
          omega
        have := ih (i + 1) vr (by omega) (by omega) (by rw [if_neg (by omega), hps']; rw [if_neg hne] at hvr; exact hvr)
        rw [this, hps']
      · have hcs' : 0 < L[i].cs := by omega
        have hstart : i ≠ startSeg → offset < ((psum nv i : Nat) : Int) := by
          intro hne
          by_cases hn : startSeg < nv.length
          · have h1 := fr.hB (by omega) hn
            have h2 := psum_mono nv (show startSeg + 1 ≤ i by omega)
            omega
          · omega
        obtain ⟨co, skip, nc, hplan, hdata, hvrend⟩ := seg_step L[i] (vals i) hwfi hcs' hvi
          (decide (i = startSeg)) (decide (i = endSeg))
          (offset - ((psum nv i : Nat) : Int)) (endIndex - ((psum nv i : Nat) : Int)) vr
          (by intro h
              have h : i = startSeg := by simpa using h
              have h1 := hBi h
              have h2 := fr.hA
              rw [← h] at h2
              omega)
          (by intro h
              have h : i ≠ startSeg := by simpa using h
              have := hstart h
              omega)
          (by by_cases h : i = startSeg
              · simp only [h, if_true, decide_true] at hvr ⊢; exact hvr
              · simp only [h, if_false, decide_false] at hvr ⊢
                rw [hvr]; simp; omega)
          (by intro h
              have h : i = endSeg := by simpa using h
              have hC := fr.hC
              rw [← h] at hC
              refine ⟨by omega, ?_, ?_⟩
              · by_cases hs : i = startSeg
                · have := hF (by omega) (by omega); omega
                · have := hstart hs
                  have := fr.hD (by omega)
                  rw [← h] at this
                  omega
              · intro hs
                have hs : i ≠ startSeg := by simpa using hs
                have := fr.hD (by omega)
                rw [← h] at this
                omega)
          (by intro h
              have h : i ≠ endSeg := by simpa using h
              have h1 := fr.hD (by omega)
              have h2 := psum_mono nv (show i + 1 ≤ endSeg by omega)
              omega)
        have harg : ((psum nv (i + 1) : Nat) : Int) - endIndex
            = (L[i].nvals : Int) - (endIndex - ((psum nv i : Nat) : Int)) := by omega
        rw [harg, hplan]
        simp only []
        rw [dataOf_append, supOf_eq_wrap, sl_append]
        have hlen : endIndex - offset = endIndex - ((psum nv i : Nat) : Int) - (offset - ((psum nv i : Nat) : Int)) := by
          omega
        rw [← hlen] at hdata hvrend
        generalize trimStream (endIndex - offset) (wrap (List.map (vals i) (List.range' co.toNat nc.toNat)))
          skip.toNat vr = ts at hdata hvrend ⊢
        rw [hdata]
        congr 1
        rw [segVals_length _ _ hwfi hvi]
        rcases Nat.eq_zero_or_pos cnt with hc0 | hc0
        · subst hc0
          simp [windowLoopPure, fullFrom, dataOf, sl]
        · have hnotend : i ≠ endSeg := by omega
          have hv2 := hvrend (by simpa using hnotend)
          have := ih (i + 1) ts.2 (by omega) (by omega)
            (by rw [if_neg (by omega), hv2, hps]; simp only [Int.natCast_add]; omega)
          rw [this, hps]
          congr 1 <;> (simp only [Int.natCast_add]; omega)
    · rw [List.drop_eq_nil_of_le hi, List.drop_eq_nil_of_le (by omega)]
      simp [windowLoopPure, fullFrom, dataOf, sl]

end Tdms.Proofs.C04
