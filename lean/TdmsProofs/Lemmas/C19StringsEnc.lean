import TdmsProofs.Lemmas.C19StringsWindow
import TdmsProofs.Lemmas.C19WFMain

/-!
# C19Strings: on an ENCODED file every planned chunk is readable inside the channel's bytes

`readChannelChunkContiguous` arrives at the channel by adding up DECLARED sizes; on the spec's encoding
of a segment of the class `SegOK` the bytes there are `encObjValues` of the chunk's values of that channel
(for a string channel: the offset table and then the characters, together the declared `total`), so the
reads stay inside them (`spanAt_readValues_string`).  With `window_plan_bounds` (the plan stays inside the
segment) this discharges `WindowReadable` for `openFile (encodeFile e)`.  Core Lean only.
-/

namespace Tdms.Proofs.C19S

open Tdms Tdms.Generated Tdms.Model Tdms.Proofs.C02 Tdms.Proofs.C01Multi Tdms.Proofs.C04 Tdms.Proofs.C05
open Tdms.Proofs.C19 Tdms.Proofs.C05WF Tdms.Proofs.C19WF
open Tdms.Proofs.Bytes (contOK drop_add_of_drop_eq aTy)

/-- one encoded chunk: wherever the reader arrives for path `p`, the values are read inside the object's
    bytes -/
theorem channelLoc_enc (file : Bytes) (seg : Segment) (hov : seg.override = none) (ci : Nat) (p : Bytes) :
    ∀ (d : List ActiveObj) (ch : List (List Bytes)) (cur : Nat) (rest : Bytes),
      (∀ x ∈ d, ∀ i, x.idx = some i → GoodDesc i) → wfStdChunk d ch = true →
      file.drop cur = encChunkContiguous seg.endian d ch ++ rest →
      ∀ o a, channelLoc seg ci p (d.map concObj) cur = some (o, a) → ReadsWithin file seg ci o a := by
  intro d
  induction d with
  | nil => intro ch cur rest _ _ _ o a h; cases h
  | cons x xs ih =>
    intro ch cur rest hg hwf hfile o a hloc
    cases ch with
    | nil => simp [wfStdChunk] at hwf
    | cons v vs =>
      obtain ⟨hc, hlen⟩ := chunk_facts seg.endian (x :: xs) (v :: vs) hg hwf
      have hwf' : wfStdChunk xs vs = true := by
        rw [wfStdChunk, Bool.and_eq_true] at hwf; exact hwf.2
      have hg' : ∀ y ∈ xs, ∀ i, y.idx = some i → GoodDesc i := fun y hy => hg y (List.mem_cons_of_mem _ hy)
      obtain ⟨_, hlen'⟩ := chunk_facts seg.endian xs vs hg' hwf'
      obtain ⟨⟨hty, hnv, hkind⟩, _⟩ := hc
      have h1 : encChunkContiguous seg.endian (x :: xs) (v :: vs) =
          encObjValues seg.endian (aTy x) v ++ encChunkContiguous seg.endian xs vs := rfl
      have hhead : (encObjValues seg.endian (aTy x) v).length = (concObj x).dataSize := by
        rw [h1, List.length_append, hlen'] at hlen
        simp only [List.map_cons, List.sum_cons] at hlen
        omega
      rw [h1, List.append_assoc] at hfile
      have hcn : channelNumberValues seg (concObj x) ci = v.length := by
        simp [channelNumberValues, hov, hnv]
      rw [List.map_cons] at hloc
      unfold channelLoc at hloc
      by_cases hpa : (concObj x).path = p
      · rw [if_pos hpa] at hloc
        injection hloc with hloc
        simp only [Prod.mk.injEq] at hloc
        obtain ⟨rfl, rfl⟩ := hloc
        rcases hkind with ⟨sz, hsz, _⟩ | ⟨hstr, hl⟩
        · exact readsWithin_of_sized file seg ci _ _ sz (by rw [hty]; exact hsz)
        · rw [hstr] at hty hfile hhead
          unfold ReadsWithin objBytes
          have hnone : (concObj x).dataType.bind typeSize = none := by
            rw [hty]; exact Tdms.Proofs.Bytes.typeSize_tyString
          rw [hnone, hcn]
          dsimp only
          rw [← hhead, Tdms.Proofs.Bytes.encObjValues_string_length]
          exact spanAt_readValues_string file seg.endian (concObj x) v cur _ hty hl hfile
      · rw [if_neg hpa, hcn, if_pos hnv.symm] at hloc
        have hd : file.drop (cur + (concObj x).dataSize) = encChunkContiguous seg.endian xs vs ++ rest := by
          rw [← hhead]; exact drop_add_of_drop_eq hfile
        exact ih vs (cur + (concObj x).dataSize) rest hg' hwf' hd o a hloc

/-- **every chunk of an encoded segment is readable inside the channel's bytes** -/
theorem segReadable_enc (file : Bytes) (pos : Nat) (s : SegEnc) (a : List ActiveObj) (rest : Bytes)
    (hfile : file.drop pos = encodeSeg s a ++ rest) (hok : SegOK s a) (p : Bytes)
    (co : Nat) (nc : Int) (hin : co + nc.toNat ≤ s.chunks.length) :
    SegReadable file (segRec pos s a) p co nc := by
  have hsplit := encodeSeg_split s a
  have hli28 := encLeadIn_length tagData s (segMeta s).length (encRaw s a).length rfl
  have hnoq := not_daq_of_good hok.good
  have hend : (segRec pos s a).endian = s.endian := Tdms.Proofs.Bytes.segEndian_of_tocMask s
  have hdrop : file.drop (pos + 28 + (segMeta s).length) =
      s.chunks.flatMap (encChunkContiguous (segRec pos s a).endian (Tdms.dataObjs a)) ++ rest := by
    have h28 : file.drop (pos + 28) = segMeta s ++ (encRaw s a ++ rest) := by
      rw [← List.drop_drop, hfile, hsplit, List.append_assoc, List.drop_left' hli28, List.append_assoc]
    rw [← List.drop_drop, h28, List.drop_left, encRaw_contig s a hok.std.contiguous hnoq, hend]
  have hgd := good_dataObjs hok.good
  have hc : ∀ ch ∈ s.chunks,
      (encChunkContiguous (segRec pos s a).endian (Tdms.dataObjs a) ch).length = chunkBytesA a := fun ch hch =>
    (chunk_facts _ (Tdms.dataObjs a) ch hgd (hok.chunks ch hch)).2
  have hcs : chunkSize (segRec pos s a).objects = .ok (chunkBytesA a) := chunkSize_conc a hok.good
  have hd : C19.dataObjs (segRec pos s a) = (Tdms.dataObjs a).map concObj := filter_hasData_conc a
  intro cs hcs' i hi
  rw [hcs] at hcs'
  injection hcs' with hcs'
  subst hcs'
  have hj : co + i < s.chunks.length := by omega
  have hpos : (segRec pos s a).dataPosition + chunkBytesA a * co + i * chunkBytesA a =
      pos + 28 + (segMeta s).length + chunkBytesA a * (co + i) := by
    show pos + 28 + (segMeta s).length + chunkBytesA a * co + i * chunkBytesA a = _
    rw [Nat.mul_add, Nat.mul_comm i]; omega
  rw [hpos, hd]
  have hdropj : file.drop (pos + 28 + (segMeta s).length + chunkBytesA a * (co + i)) =
      encChunkContiguous (segRec pos s a).endian (Tdms.dataObjs a) s.chunks[co + i] ++
        ((s.chunks.drop (co + i + 1)).flatMap (encChunkContiguous (segRec pos s a).endian (Tdms.dataObjs a)) ++ rest) := by
    rw [← List.drop_drop, hdrop, List.drop_append_of_le_length,
      Tdms.Proofs.C04Whole.drop_flatMap_const _ (chunkBytesA a) s.chunks (co + i) hc (by omega),
      List.drop_eq_getElem_cons hj, List.flatMap_cons, List.append_assoc]
    rw [Tdms.Proofs.C01Compose.flatMap_length_const _ _ (chunkBytesA a) hc, Nat.mul_comm (chunkBytesA a)]
    exact Nat.mul_le_mul_right _ (by omega)
  exact channelLoc_enc file (segRec pos s a) rfl (co + i) p (Tdms.dataObjs a) s.chunks[co + i] _ _ hgd
    (hok.chunks _ (List.getElem_mem hj)) hdropj

/-- what the lazily opened encoding provides for the I/O bounds: consistent sizes, contiguous segments, the
    layout facts of C04, and readability of every planned chunk of every window of every path -/
theorem windowReadable_encoded (e : FileEnc) (h : MultiStd e) (fit : FileFits e) (bytes : Bytes)
    (hb : encodeFile e = .ok bytes) (hlen : bytes.length < 2 ^ 63) :
    ∃ f c, openFile bytes = .ok f ∧ denote e = .ok c ∧ (∀ s ∈ f.segments, SegWF s) ∧
      (∀ s ∈ f.segments, dataReaderKind s = .ok .contiguous) ∧ (∀ s ∈ f.segments, s.override = none) ∧
      (∀ p, WellFormed (f.segments.map (layoutOf p)) ∧ chanLen f p = total (f.segments.map (layoutOf p))) ∧
      ∀ (p : Bytes) (off : Int) (len : Option Int), 0 ≤ off → (∀ l, len = some l → 0 ≤ l) →
        WindowReadable f p off len := by
  obtain ⟨f, acts, ss, as, hopen, ha, hc, hfile, hsegs, hobjs⟩ :=
    Tdms.Proofs.C04Whole.openFile_encoded e h fit bytes hb hlen
  obtain ⟨f', hopen', hu, hk, hov⟩ := file_props_encoded e h fit bytes hb hlen
  rw [hopen] at hopen'
  cases hopen'
  have hnd : NoDaqmx f := by intro s hs hd; rw [hk s hs] at hd; cases hd
  obtain ⟨_, prev, hi⟩ := openFile_inv bytes f hopen
  have hlay := fun p => layout_of_inv hi hu hnd p
  refine ⟨f, denoteSegs [] e acts, hopen, by simp [denote, ha],
    fun s hs => segWF_of_inv hi s hs (hnd s hs) (hu s hs), hk, hov, hlay, ?_⟩
  intro p off len h0 hl k seg hkseg co skip nc hplan _
  obtain ⟨hseg, hle⟩ := windowSegs_getElem? f _ k seg hkseg
  obtain ⟨hwf, hnum⟩ := hlay p
  obtain ⟨e1, e2, e3, e4⟩ := windowOf_eq_params f p off len
  have hplan' := hplan
  rw [e1, e2, e3, e4] at hplan'
  have hb' := Tdms.Proofs.C04Whole.window_plan_bounds f.segments p (chanLen f p) hwf hnum off len h0 hl _ seg hseg
    (by rw [← e3]; omega) (by rw [← e4]; exact hle) co skip nc hplan'
  have hin : co.toNat + nc.toNat ≤ seg.numChunks := hb'.inRange
  have hget : (segRecs 0 ss as)[(windowOf f p off len).startSeg + k]? = some seg := by rw [← hsegs]; exact hseg
  obtain ⟨pos', s, a, rest, hs, ha', heq, hdrop⟩ :=
    Tdms.Proofs.C04Whole.segRecs_at f.file ss as 0 (by rw [hfile]; rfl) _ _ hget
  have hsok := Tdms.Proofs.C04Whole.segsOK_getElem ss as hc.ok _ s a hs ha'
  subst heq
  exact segReadable_enc f.file pos' s a rest hdrop hsok p co.toNat nc hin

end Tdms.Proofs.C19S
