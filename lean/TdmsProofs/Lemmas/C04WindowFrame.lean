import TdmsProofs.Lemmas.C04WindowIndex

/-!
# C04 (windows): where the window starts and ends

`Frame` collects what the loop needs to know about the start / end segment chosen by the searches
and about the index look-ups of `segPlan`; `frame_of_spec` derives it from `buildIndex_spec`.
Core Lean only.
-/

namespace Tdms.Proofs.C04

open Tdms Tdms.Model

structure Frame (nv : List Nat) (ix : ChannelIndex) (offset endIndex : Int) (startSeg endSeg : Nat) : Prop where
  hS : startSeg ≤ nv.length
  /-- the start segment does not begin after the window -/
  hA : ((psum nv startSeg : Nat) : Int) ≤ offset
  /-- the window begins inside the start segment -/
  hB : startSeg ≤ endSeg → startSeg < nv.length → offset < ((psum nv (startSeg + 1) : Nat) : Int)
  /-- the window ends inside (or at the end of) the end segment -/
  hC : endIndex ≤ ((psum nv (endSeg + 1) : Nat) : Int)
  hD : startSeg < endSeg → ((psum nv endSeg : Nat) : Int) < endIndex
  /-- the look-ups of `segPlan` return the prefix sums -/
  hE : ∀ i, startSeg ≤ i → i ≤ endSeg → i < nv.length →
    segStartOf ix i = ((psum nv i : Nat) : Int) ∧ segEndOf ix i = ((psum nv (i + 1) : Nat) : Int)

theorem psum_eq_zero_of_before (nv : List Nat) (first : Nat) (h : ∀ i, i < first → nv.getD i 0 = 0) :
    ∀ i, i ≤ first → psum nv i = 0 := by
  intro i hi
  unfold psum
  apply sum_eq_zero_of_all_zero
  intro x hx
  obtain ⟨j, hj, rfl⟩ := List.getElem_of_mem hx
  rw [List.length_take] at hj
  rw [List.getElem_take]
  have := h j (by omega)
  rw [List.getD_eq_getElem?_getD, List.getElem?_eq_getElem (by omega)] at this
  simpa using this

theorem psum_eq_sum_of_after (nv : List Nat) (last : Nat) (h : ∀ i, last < i → nv.getD i 0 = 0) :
    ∀ i, last < i → psum nv i = nv.sum := by
  intro i hi
  unfold psum
  conv => rhs; rw [← List.take_append_drop i nv]
  rw [List.sum_append]
  have : (nv.drop i).sum = 0 := by
    apply sum_eq_zero_of_all_zero
    intro x hx
    obtain ⟨j, hj, rfl⟩ := List.getElem_of_mem hx
    rw [List.length_drop] at hj
    rw [List.getElem_drop]
    have := h (i + j) (by omega)
    rw [List.getD_eq_getElem?_getD, List.getElem?_eq_getElem (by omega)] at this
    simpa using this
  omega

theorem frame_of_spec (nv : List Nat) (ix : ChannelIndex) (hspec : IndexSpec nv ix) (offset endIndex : Int)
    (h0 : 0 ≤ offset) (hend : endIndex ≤ ((nv.sum : Nat) : Int)) :
    Frame nv ix offset endIndex (ix.firstSegment + searchRight ix.offsets offset)
      (ix.firstSegment + searchLeft ix.offsets endIndex) := by
  cases hspec with
  | empty hzero hix =>
    subst hix
    have hs : nv.sum = 0 := sum_eq_zero_of_all_zero nv hzero
    have hp : ∀ i, nv.length ≤ i → psum nv i = 0 := fun i hi => by rw [psum_of_length_le nv i hi, hs]
    simp only [searchRight, searchLeft, List.takeWhile_nil, List.length_nil, Nat.add_zero]
    refine ⟨by omega, by rw [hp _ (Nat.le_refl _)]; omega, by omega, by rw [hp _ (by omega)]; omega, by omega, by omega⟩
  | data first last hfl hlast hfpos hlpos hbefore hafter hix =>
    subst hix
    simp only []
    generalize hoffs : cumsumFrom 0 ((nv.drop first).take (last + 1 - first)) = offs
    have hm : offs.length = last + 1 - first := by
      rw [← hoffs, cumsumFrom_length, List.length_take, List.length_drop]; omega
    have hpz := psum_eq_zero_of_before nv first hbefore
    have hpt := psum_eq_sum_of_after nv last hafter
    have hoff : ∀ j, j < last + 1 - first → offs.getD j 0 = psum nv (first + j + 1) := by
      intro j hj
      rw [← hoffs, cumsumFrom_getD _ _ _ (by rw [List.length_take, List.length_drop]; omega),
        List.take_take, Nat.min_eq_left (by omega), Nat.add_assoc, psum_add nv first (j + 1),
        hpz first (Nat.le_refl _)]
    obtain ⟨r1, r2, r3⟩ := searchRight_spec offs offset
    obtain ⟨q1, q2, q3⟩ := searchLeft_spec offs endIndex
    generalize searchRight offs offset = r at *
    generalize searchLeft offs endIndex = q at *
    have hq : q < last + 1 - first := by
      rcases Nat.lt_or_ge q (last + 1 - first) with h | h
      · exact h
      · exfalso
        have := q2 (last - first) (by omega)
        rw [hoff _ (by omega), hpt _ (by omega)] at this
        omega
    refine ⟨by omega, ?_, ?_, ?_, ?_, ?_⟩
    · cases r with
      | zero => rw [Nat.add_zero, hpz first (Nat.le_refl _)]; omega
      | succ r =>
        have := r2 r (by omega)
        rw [hoff r (by omega)] at this
        exact this
    · intro hse _
      have := r3 (by omega)
      rw [hoff r (by omega)] at this
      exact this
    · have := q3 (by omega)
      rw [hoff q hq] at this
      exact this
    · intro hse
      obtain ⟨q', rfl⟩ : ∃ q', q = q' + 1 := ⟨q - 1, by omega⟩
      have := q2 q' (by omega)
      rw [hoff q' (by omega)] at this
      exact this
    · intro i hi1 hi2 _
      unfold segStartOf segEndOf
      simp only []
      constructor
      · by_cases hif : i = first
        · rw [if_pos hif, hif, hpz first (Nat.le_refl _)]; rfl
        · rw [if_neg hif, hoff _ (by omega)]
          congr 2; omega
      · rw [hoff _ (by omega)]
        congr 2; omega

/-! ## the counts `_build_index` uses are the layout's -/

theorem getSegmentObject_path (s : Segment) (p : Bytes) (o : SegObj) (h : getSegmentObject s p = some o) :
    o.path = p := by
  unfold getSegmentObject existingIndex at h
  simp only [] at h
  rw [Option.bind_eq_some_iff] at h
  obtain ⟨i, hi, ho⟩ := h
  obtain ⟨ini, hini⟩ := List.getLast?_eq_some_iff.mp hi
  have hmem : i ∈ (List.range s.objects.length).filter fun i => (s.objects[i]?.map (·.path)) = some p := by
    rw [hini]; simp
  rw [List.mem_filter] at hmem
  have := hmem.2
  rw [ho] at this
  simpa using this

theorem nvals_layoutOf (s : Segment) (p : Bytes) (hwf : (layoutOf p s).WF) :
    (match getSegmentObject s p with
      | some o => numberOfSegmentValues o s
      | none => 0) = (layoutOf p s).nvals := by
  unfold SegL.WF at hwf
  unfold SegL.nvals
  cases ho : getSegmentObject s p with
  | none => simp [layoutOf, ho]
  | some o =>
    have hp := getSegmentObject_path s p o ho
    simp only [layoutOf, ho] at hwf ⊢
    unfold numberOfSegmentValues
    cases hd : o.hasData with
    | false => simp
    | true =>
      simp only [Bool.not_true, Bool.false_eq_true, if_false, if_true]
      rw [hd] at hwf
      simp only [if_true] at hwf
      cases hov : s.override with
      | none =>
        simp only [Option.map]
        by_cases hz : o.numberValues = 0
        · simp [hz]
        · rw [if_neg hz]
      | some ov =>
        rw [hov] at hwf
        simp only [Option.map] at hwf ⊢
        rw [hp]
        by_cases hz : o.numberValues = 0
        · rw [if_pos hz, hz]; omega
        · rw [if_neg hz]

theorem nvOf_eq (segs : List Segment) (p : Bytes) (hwf : WellFormed (segs.map (layoutOf p))) :
    nvOf segs p = (segs.map (layoutOf p)).map SegL.nvals := by
  unfold nvOf
  rw [List.map_map]
  apply List.map_congr_left
  intro s hs
  exact nvals_layoutOf s p (hwf _ (List.mem_map_of_mem hs))

end Tdms.Proofs.C04
