import TdmsProofs.Lemmas.C19Window

/-! # C19: for files whose declared sizes are consistent, everything stays inside the planned chunks -/

namespace Tdms.Proofs.C19

open Tdms Tdms.Model Tdms.Generated Tdms.Proofs.C05

/-- declared sizes of a segment are consistent: a fixed-width data object declares
    `number_values * size` bytes, and a truncated final chunk never has more values than a full one -/
structure SegWF (s : Segment) : Prop where
  dataSize_eq : ∀ o ∈ dataObjs s, ∀ sz, o.dataType.bind typeSize = some sz → o.dataSize = o.numberValues * sz
  override_le : ∀ ov, s.override = some ov → ∀ o ∈ dataObjs s, overrideGet ov o.path ≤ o.numberValues

theorem kind_cases (s : Segment) (k : ReaderKind) (h : dataReaderKind s = .ok k) :
    (k = .daqmx ∧ haveDaqmxObjects s.objects = .ok true) ∨
    (k = .interleaved ∧ haveDaqmxObjects s.objects = .ok false ∧ haveInterleavedData s (dataObjs s) = .ok true) ∨
    (k = .contiguous ∧ haveDaqmxObjects s.objects = .ok false) := by
  unfold dataReaderKind at h
  cases h1 : haveDaqmxObjects s.objects with
  | error e => rw [h1] at h; cases h
  | ok b =>
    rw [h1] at h
    cases b with
    | true =>
      have : (Except.ok ReaderKind.daqmx : Except Err ReaderKind) = .ok k := h
      injection this with this
      exact Or.inl ⟨this.symm, rfl⟩
    | false =>
      have h : (do
          if ← haveInterleavedData s (List.filter (fun x => x.hasData) s.objects) then pure ReaderKind.interleaved
          else pure ReaderKind.contiguous) = Except.ok k := h
      cases h2 : haveInterleavedData s (List.filter (fun x => x.hasData) s.objects) with
      | error e => rw [h2] at h; cases h
      | ok b' =>
        rw [h2] at h
        cases b' with
        | true =>
          have : (Except.ok ReaderKind.interleaved : Except Err ReaderKind) = .ok k := h
          injection this with this
          exact Or.inr (Or.inl ⟨this.symm, rfl, h2⟩)
        | false =>
          have : (Except.ok ReaderKind.contiguous : Except Err ReaderKind) = .ok k := h
          injection this with this
          exact Or.inr (Or.inr ⟨this.symm, rfl⟩)

theorem chunkSize_not_daqmx (s : Segment) (cs : Nat) (hcs : chunkSize s.objects = .ok cs)
    (hd : haveDaqmxObjects s.objects = .ok false) : cs = ((dataObjs s).map (·.dataSize)).sum := by
  unfold chunkSize at hcs
  rw [hd] at hcs
  have : (Except.ok ((s.objects.filter (·.hasData)).map (·.dataSize)).sum : Except Err Nat) = .ok cs := hcs
  injection this with this
  exact this.symm

theorem bufferDimensions_dataObjs (s : Segment) : bufferDimensions (dataObjs s) = bufferDimensions s.objects := by
  unfold bufferDimensions dataObjs
  rw [List.filter_filter]
  simp only [Bool.and_self]

theorem chunkSize_daqmx (s : Segment) (cs : Nat) (hcs : chunkSize s.objects = .ok cs)
    (hd : haveDaqmxObjects s.objects = .ok true) : cs = daqmxChunkBytes (dataObjs s) := by
  unfold chunkSize at hcs
  rw [hd] at hcs
  unfold daqmxChunkBytes
  rw [bufferDimensions_dataObjs]
  cases hb : bufferDimensions s.objects with
  | error e => rw [hb] at hcs; cases hcs
  | ok dims =>
    rw [hb] at hcs
    have : (Except.ok (dims.map fun (n, w) => n * w).sum : Except Err Nat) = .ok cs := hcs
    injection this with this
    exact this.symm

theorem channelNumberValues_le (s : Segment) (hwf : SegWF s) (o : SegObj) (ho : o ∈ dataObjs s) (j : Nat) :
    channelNumberValues s o j ≤ o.numberValues := by
  unfold channelNumberValues
  cases hov : s.override with
  | none => exact Nat.le_refl _
  | some ov =>
    dsimp only
    split
    · exact hwf.override_le ov hov o ho
    · exact Nat.le_refl _

theorem channelSpan_within (s : Segment) (j : Nat) (p : Bytes) (os : List SegObj)
    (h1 : ∀ o ∈ os, ∀ sz, o.dataType.bind typeSize = some sz → o.dataSize = o.numberValues * sz)
    (h2 : ∀ o ∈ os, channelNumberValues s o j ≤ o.numberValues)
    (c a len : Nat) (h : channelSpan s j p os c = some (a, len)) :
    c ≤ a ∧ a + len ≤ c + (os.map (·.dataSize)).sum := by
  induction os generalizing c with
  | nil => cases h
  | cons o os ih =>
    have ih := ih (fun o' ho' => h1 o' (List.mem_cons_of_mem _ ho')) (fun o' ho' => h2 o' (List.mem_cons_of_mem _ ho'))
    have hn := h2 o (List.mem_cons_self ..)
    simp only [List.map_cons, List.sum_cons]
    unfold channelSpan at h
    split at h
    · injection h with h
      simp only [Prod.mk.injEq] at h
      obtain ⟨rfl, rfl⟩ := h
      refine ⟨Nat.le_refl _, ?_⟩
      cases hsz : o.dataType.bind typeSize with
      | none => simp
      | some sz =>
        have := h1 o (List.mem_cons_self ..) sz hsz
        simp only [Option.getD_some]
        have : channelNumberValues s o j * sz ≤ o.dataSize := by rw [this]; exact Nat.mul_le_mul_right _ hn
        omega
    · split at h
      · have := ih _ h
        omega
      · split at h
        · rename_i sz hsz
          have hd := h1 o (List.mem_cons_self ..) sz hsz
          have : sz * channelNumberValues s o j ≤ o.dataSize := by
            rw [hd, Nat.mul_comm]; exact Nat.mul_le_mul_right _ hn
          have := ih _ h
          omega
        · cases h

theorem interleaved_sized (s : Segment) (d : List SegObj) (h : haveInterleavedData s d = .ok true) :
    ∀ o ∈ d, ∃ sz, o.dataType.bind typeSize = some sz := by
  unfold haveInterleavedData at h
  split at h
  · cases h
  · split at h
    · cases h
    · dsimp only at h
      split at h
      · rename_i hlen
        intro o ho
        cases hsz : o.dataType.bind typeSize with
        | some sz => exact ⟨sz, rfl⟩
        | none =>
          have : o ∈ d.filter fun o => (o.dataType.bind typeSize).isNone := by
            rw [List.mem_filter]; exact ⟨ho, by rw [hsz]; rfl⟩
          rw [List.length_eq_zero_iff.1 hlen] at this
          cases this
      · split at h <;> cases h

theorem interleaved_chunk_bytes (d : List SegObj) (nv : Nat)
    (hnv : ∀ o ∈ d, o.numberValues = nv)
    (hsz : ∀ o ∈ d, ∃ sz, o.dataType.bind typeSize = some sz ∧ o.dataSize = o.numberValues * sz) :
    (d.map (·.dataSize)).sum = interleavedWidth d * nv := by
  induction d with
  | nil => simp [interleavedWidth]
  | cons o os ih =>
    have ih := ih (fun o' ho' => hnv o' (List.mem_cons_of_mem _ ho')) (fun o' ho' => hsz o' (List.mem_cons_of_mem _ ho'))
    obtain ⟨sz, h1, h2⟩ := hsz o (List.mem_cons_self ..)
    have h3 := hnv o (List.mem_cons_self ..)
    simp only [interleavedWidth, List.map_cons, List.sum_cons] at ih ⊢
    rw [ih, h1, h2, h3]
    simp only [Option.getD_some]
    rw [Nat.add_mul, Nat.mul_comm]

/-- inside the planned chunk range `[dataPosition + cs·co, dataPosition + cs·(co + n))` -/
def InPlanned (s : Segment) (cs co n : Nat) (x : Nat × Nat) : Prop :=
  s.dataPosition + cs * co ≤ x.1 ∧ x.1 + x.2 ≤ s.dataPosition + cs * (co + n)

theorem any_ne_false {d : List SegObj} {nv : Nat} (h : (d.any fun o => o.numberValues ≠ nv) = false) :
    ∀ o ∈ d, o.numberValues = nv := by
  intro o ho
  rw [List.any_eq_false] at h
  have := h o ho
  simpa using this

/-- for a segment with consistent sizes every data read lies inside the planned chunks -/
theorem segDataAllowed_in_planned (s : Segment) (hwf : SegWF s) (p : Bytes) (co : Nat) (nc : Int) (x : Nat × Nat)
    (h : SegDataAllowed s p co nc x) : ∃ cs, chunkSize s.objects = .ok cs ∧ InPlanned s cs co nc.toNat x := by
  obtain ⟨cs, kind, hcs, hkind, h⟩ := h
  refine ⟨cs, hcs, ?_⟩
  have hmul : cs * (co + nc.toNat) = cs * co + nc.toNat * cs := by rw [Nat.mul_add, Nat.mul_comm cs nc.toNat]
  unfold InPlanned
  rw [hmul]
  rcases kind_cases s kind hkind with ⟨rfl, hd⟩ | ⟨rfl, hd, hi⟩ | ⟨rfl, hd⟩
  · obtain ⟨i, hi, h1, h2⟩ := h
    have hb := chunkSize_daqmx s cs hcs hd
    rw [← hb] at h2
    have : (i + 1) * cs ≤ nc.toNat * cs := Nat.mul_le_mul_right _ hi
    rw [Nat.add_mul] at this
    omega
  · obtain ⟨hany, h1, h2⟩ := h
    have hnv := any_ne_false hany
    have hsz := interleaved_sized s (dataObjs s) hi
    have hb := chunkSize_not_daqmx s cs hcs hd
    rw [interleaved_chunk_bytes (dataObjs s) (nv0 (dataObjs s)) hnv
      (fun o ho => by obtain ⟨sz, h⟩ := hsz o ho; exact ⟨sz, h, hwf.dataSize_eq o ho sz h⟩)] at hb
    have e1 : interleavedWidth (dataObjs s) * (nv0 (dataObjs s) * nc.toNat) = nc.toNat * cs := by
      rw [← Nat.mul_assoc, ← hb, Nat.mul_comm]
    rw [e1] at h2
    exact ⟨h1, by omega⟩
  · obtain ⟨i, hi, a, len, hspan, h1, h2⟩ := h
    have hb := chunkSize_not_daqmx s cs hcs hd
    have := channelSpan_within s (co + i) p (dataObjs s) (fun o ho => hwf.dataSize_eq o ho)
      (fun o ho => channelNumberValues_le s hwf o ho _) _ a len hspan
    rw [← hb] at this
    have : (i + 1) * cs ≤ nc.toNat * cs := Nat.mul_le_mul_right _ hi
    rw [Nat.add_mul] at this
    omega

theorem sum_map_le_length_mul {α : Type} (l : List α) (g : α → Nat) (b : Nat) (h : ∀ x ∈ l, g x ≤ b) :
    (l.map g).sum ≤ l.length * b := by
  induction l with
  | nil => simp
  | cons x xs ih =>
    have := ih (fun y hy => h y (List.mem_cons_of_mem _ hy))
    have := h x (List.mem_cons_self ..)
    simp only [List.map_cons, List.sum_cons, List.length_cons, Nat.add_mul]
    omega

/-- bytes of the planned chunks of a segment (0 when the chunk size cannot be computed) -/
def plannedBytes (s : Segment) (n : Nat) : Nat :=
  match chunkSize s.objects with
  | .ok cs => cs * n
  | .error _ => 0

theorem segBudget_le (s : Segment) (hwf : SegWF s) (p : Bytes) (co : Nat) (nc : Int) :
    segBudget s p co nc ≤ plannedBytes s nc.toNat := by
  unfold segBudget plannedBytes
  cases hkind : dataReaderKind s with
  | error e => exact Nat.zero_le _
  | ok kind =>
    rcases kind_cases s kind hkind with ⟨rfl, hd⟩ | ⟨rfl, hd, hi⟩ | ⟨rfl, hd⟩
    · dsimp only
      cases hcs : chunkSize s.objects with
      | ok cs =>
        dsimp only
        have hb := chunkSize_daqmx s cs hcs hd
        unfold chunksBudget
        refine Nat.le_trans (sum_map_le_length_mul _ _ cs (fun t _ => ?_)) ?_
        · unfold chunkBudget; rw [hb]; exact Nat.le_refl _
        · rw [List.length_range, Nat.mul_comm]; exact Nat.le_refl _
      | error e =>
        dsimp only
        have hz : daqmxChunkBytes (dataObjs s) = 0 := by
          unfold daqmxChunkBytes
          rw [bufferDimensions_dataObjs]
          unfold chunkSize at hcs
          rw [hd] at hcs
          cases hb : bufferDimensions s.objects with
          | error e' => rfl
          | ok dims => rw [hb] at hcs; cases hcs
        unfold chunksBudget
        refine Nat.le_trans (sum_map_le_length_mul _ _ 0 (fun t _ => ?_)) (by simp)
        unfold chunkBudget; rw [hz]; exact Nat.le_refl _
    · dsimp only
      cases hcs : chunkSize s.objects with
      | error e => unfold chunkSize at hcs; rw [hd] at hcs; cases hcs
      | ok cs =>
        dsimp only
        have hb := chunkSize_not_daqmx s cs hcs hd
        by_cases hany : ((dataObjs s).any fun o => o.numberValues ≠ nv0 (dataObjs s)) = true
        · rw [if_pos hany]; exact Nat.zero_le _
        · rw [if_neg hany]
          have hany : ((dataObjs s).any fun o => o.numberValues ≠ nv0 (dataObjs s)) = false := by
            cases h : ((dataObjs s).any fun o => o.numberValues ≠ nv0 (dataObjs s)) with
            | true => exact (hany h).elim
            | false => rfl
          have hnv := any_ne_false hany
          have hsz := interleaved_sized s (dataObjs s) hi
          rw [interleaved_chunk_bytes (dataObjs s) (nv0 (dataObjs s)) hnv
            (fun o ho => by obtain ⟨sz, h⟩ := hsz o ho; exact ⟨sz, h, hwf.dataSize_eq o ho sz h⟩)] at hb
          rw [← Nat.mul_assoc, ← hb]
          exact Nat.le_refl _
    · dsimp only
      cases hcs : chunkSize s.objects with
      | error e => unfold chunkSize at hcs; rw [hd] at hcs; cases hcs
      | ok cs =>
        dsimp only
        have hb := chunkSize_not_daqmx s cs hcs hd
        unfold chunksBudget
        refine Nat.le_trans (sum_map_le_length_mul _ _ cs (fun t _ => ?_)) ?_
        · unfold chunkBudget
          dsimp only
          cases hspan : channelSpan s (co + (0 + t)) p (dataObjs s) 0 with
          | none => exact Nat.zero_le _
          | some al =>
            obtain ⟨a, len⟩ := al
            have := channelSpan_within s (co + (0 + t)) p (dataObjs s) (fun o ho => hwf.dataSize_eq o ho)
              (fun o ho => channelNumberValues_le s hwf o ho _) _ a len hspan
            rw [← hb] at this
            simp only [Option.map_some, Option.getD_some]
            omega
        · rw [List.length_range, Nat.mul_comm]; exact Nat.le_refl _

/-- the file-size independent budget of a window: per touched segment the 4 tag bytes and the bytes of
    its planned chunks -/
def windowPlanned (p : Bytes) (ix : ChannelIndex) (offset endIndex : Int) (startSeg endSeg : Nat) :
    List Segment → Nat → Nat
  | [], _ => 0
  | s :: rest, segIndex =>
    4 + (match segPlan p ix offset endIndex startSeg endSeg segIndex s with
         | none => 0
         | some (_, _, nc) => plannedBytes s nc.toNat) +
      windowPlanned p ix offset endIndex startSeg endSeg rest (segIndex + 1)

theorem windowBudget_le (p : Bytes) (ix : ChannelIndex) (offset endIndex : Int) (startSeg endSeg : Nat)
    (segs : List Segment) (hwf : ∀ s ∈ segs, SegWF s) (segIndex : Nat) :
    windowBudget p ix offset endIndex startSeg endSeg segs segIndex ≤
      windowPlanned p ix offset endIndex startSeg endSeg segs segIndex := by
  induction segs generalizing segIndex with
  | nil => exact Nat.le_refl _
  | cons s rest ih =>
    have ih := ih (fun s' hs' => hwf s' (List.mem_cons_of_mem _ hs')) (segIndex + 1)
    unfold windowBudget windowPlanned
    have : planBudget s p (segPlan p ix offset endIndex startSeg endSeg segIndex s) ≤
        (match segPlan p ix offset endIndex startSeg endSeg segIndex s with
         | none => 0
         | some (_, _, nc) => plannedBytes s nc.toNat) := by
      cases segPlan p ix offset endIndex startSeg endSeg segIndex s with
      | none => exact Nat.le_refl _
      | some plan =>
        obtain ⟨co, skip, nc⟩ := plan
        exact segBudget_le s (hwf s (List.mem_cons_self ..)) p co.toNat nc
    omega

/-- tag bytes, or inside the planned chunks of the segment's plan -/
def SegAllowedCoarse (s : Segment) (plan : Option (Int × Int × Int)) (x : Nat × Nat) : Prop :=
  InTag s x ∨ ∃ co skip nc cs, plan = some (co, skip, nc) ∧ chunkSize s.objects = .ok cs ∧
    InPlanned s cs co.toNat nc.toNat x

theorem segAllowed_coarse (s : Segment) (hwf : SegWF s) (p : Bytes) (plan : Option (Int × Int × Int))
    (x : Nat × Nat) (h : SegAllowed s p plan x) : SegAllowedCoarse s plan x := by
  rcases h with h | ⟨co, skip, nc, hplan, h⟩
  · exact Or.inl h
  · obtain ⟨cs, hcs, hin⟩ := segDataAllowed_in_planned s hwf p co.toNat nc x h
    exact Or.inr ⟨co, skip, nc, cs, hplan, hcs, hin⟩

end Tdms.Proofs.C19
