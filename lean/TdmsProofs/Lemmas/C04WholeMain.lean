import TdmsProofs.Lemmas.C04WholePlan
import TdmsProofs.Lemmas.C04WholeLayout
import TdmsProofs.Lemmas.C04WindowLink

/-!
# C04Whole: `read_data(offset, length)` on a lazily opened encoded file

Composition of C04 (window arithmetic), the plan bounds (`C04WholePlan`), the per-segment read lemma
(`C04WholeChunk`) and the layout facts (`C04WholeLayout`): on an open file whose bytes are the encoding
of a file of the class and whose segment table is the one the metadata reader builds,
`channelReadData` returns the window of the values the encoding lists under the channel's path.
Core Lean only.
-/

namespace Tdms.Proofs.C04Whole

open Tdms Tdms.Generated Tdms.Model Tdms.Proofs.C02 Tdms.Proofs.C01Multi Tdms.Proofs.C04

theorem segPlan_some_cs {p : Bytes} {ix : ChannelIndex} {offset endIndex : Int} {startSeg endSeg i : Nat}
    {s : Segment} {x : Int × Int × Int} (h : segPlan p ix offset endIndex startSeg endSeg i s = some x) :
    (layoutOf p s).cs ≠ 0 := by
  intro h0
  rw [segPlan_eq_planA] at h
  unfold planA at h
  rw [if_pos h0] at h
  cases h

/-- what the segment reads of the lazily opened encoded file return: the empty chunk of a segment
    without the raw-data flag, then the planned chunks -/
def fileSup (ss : List SegEnc) (as : List (List ActiveObj)) (p : Bytes) : Supplier := fun i co nc =>
  (if !(ss.getD i default).rawFlag then [({} : ChanChunk)] else []) ++ supOf (fileVals ss as p) i co nc

/-- **every planned segment read returns the planned chunks** (the hypothesis `ReadsAs` of C04's link
    lemma, discharged for the encoding of a file of the class) -/
theorem readsAs_encoded (ss : List SegEnc) (as : List (List ActiveObj)) (hok : SegsOK ss as) (hnd : ActsNodup as)
    (f : OpenFile) (hfile : f.file = zipEncode encodeSeg ss as) (hsegs : f.segments = segRecs 0 ss as)
    (p : Bytes) (numValues : Nat) (hnum : numValues = total (f.segments.map (layoutOf p)))
    (offset : Int) (length : Option Int) (h0 : 0 ≤ offset) (hl : ∀ l, length = some l → 0 ≤ l) :
    ReadsAs f p numValues offset length (fileSup ss as p) := by
  have hlay : f.segments.map (layoutOf p) = layouts ss as p := by rw [hsegs]; exact layouts_segRecs p ss as 0 hnd
  have hwf : WellFormed (f.segments.map (layoutOf p)) := by rw [hlay]; exact layouts_wellFormed ss as p
  unfold ReadsAs
  intro w i seg hseg hsi hie
  have hseg' := hseg
  rw [hsegs] at hseg'
  obtain ⟨pos', s, a, rest, hs, ha, rfl, hbytes⟩ := segRecs_at f.file ss as 0 (by rw [hfile]; rfl) i seg hseg'
  have hsok := segsOK_getElem ss as hok i s a hs ha
  have hamem : a ∈ as := List.mem_of_getElem? ha
  refine ⟨fun st => verifySegmentStart_enc f.file pos' s a rest hbytes st, ?_⟩
  intro co skip nc hplan st
  have hpo := window_plan_bounds f.segments p numValues hwf hnum offset length h0 hl i _ hseg hsi hie co skip nc hplan
  have hcs := segPlan_some_cs hplan
  rw [layoutOf_segRec pos' s a (hnd a hamem) p] at hpo hcs
  have hp := mem_paths_of_csD_ne_zero _ _ hcs
  obtain ⟨st', hr⟩ := segReadChannel_enc f.file pos' s a rest hbytes hsok p hp co.toNat nc hpo.inRange st
  refine ⟨st', ?_⟩
  show segReadChannel f.file (segRec pos' s a) p co.toNat (some nc) st = _
  rw [hr]
  simp only [fileSup, supOf, chunkRun, fileVals, List.getD_eq_getElem?_getD, hs, ha, Option.getD_some]

/-- the empty chunk of a segment without the raw-data flag does not change the window -/
theorem window_fileSup (ss : List SegEnc) (as : List (List ActiveObj)) (hnd : ActsNodup as)
    (hraw : ∀ s ∈ ss, s.chunks ≠ [] → s.rawFlag = true)
    (segs : List Segment) (hsegs : segs = segRecs 0 ss as)
    (p : Bytes) (numValues : Nat) (hnum : numValues = total (segs.map (layoutOf p)))
    (offset : Int) (length : Option Int) (h0 : 0 ≤ offset) (hl : ∀ l, length = some l → 0 ≤ l) :
    dataOf (windowPureG segs p numValues (fileSup ss as p) offset length) =
      dataOf (windowPureG segs p numValues (supOf (fileVals ss as p)) offset length) := by
  subst hsegs
  have hlay : (segRecs 0 ss as).map (layoutOf p) = layouts ss as p := layouts_segRecs p ss as 0 hnd
  have hwf : WellFormed ((segRecs 0 ss as).map (layoutOf p)) := by rw [hlay]; exact layouts_wellFormed ss as p
  unfold windowPureG
  simp only []
  apply windowLoopPure_congr
  intro t seg hseg co skip nc hplan vr
  obtain ⟨ht, hseg'⟩ := getElem?_take_drop _ _ _ _ _ hseg
  have hpo := window_plan_bounds _ p numValues hwf hnum offset length h0 hl _ seg hseg' (by omega) (by omega)
    co skip nc hplan
  obtain ⟨pos', s, a, rest, hs, ha, rfl, _⟩ := segRecs_at (zipEncode encodeSeg ss as) ss as 0 rfl _ seg hseg'
  have hamem : a ∈ as := List.mem_of_getElem? ha
  have hsmem : s ∈ ss := List.mem_of_getElem? hs
  rw [layoutOf_segRec pos' s a (hnd a hamem) p] at hpo
  have hsup : fileSup ss as p ((windowParams (segRecs 0 ss as) p numValues offset length).startSeg + t) co.toNat nc =
      (if !s.rawFlag then [({} : ChanChunk)] else []) ++
        supOf (fileVals ss as p) ((windowParams (segRecs 0 ss as) p numValues offset length).startSeg + t) co.toNat nc := by
    simp only [fileSup, List.getD_eq_getElem?_getD, hs, Option.getD_some]
  rw [hsup]
  cases hrf : s.rawFlag with
  | true => simp
  | false =>
    have hch : s.chunks = [] := by
      cases hc : s.chunks with
      | nil => rfl
      | cons c cs =>
        have := hraw s hsmem (by rw [hc]; simp)
        rw [hrf] at this; cases this
    have hk : ¬ (0 < s.chunks.length) := by rw [hch]; simp
    have hskip : skip = 0 := by
      cases Decidable.em (skip = 0) with
      | inl h => exact h
      | inr h => exact absurd (hpo.skipPos h) hk
    subst hskip
    simp only [Bool.not_false, if_true, List.singleton_append, Int.toNat_zero]
    exact trimStream_empty_cons _ _ _

/-- **`read_data(offset, length)` on the lazily opened encoding**: for an open file whose bytes are the
    encoding `zipEncode encodeSeg ss as` of segments of the class and whose segment table is the one the
    metadata reader builds, and a channel `p` whose `object_metadata` entry has a data type and the right
    number of values, `channelReadData` succeeds from any file state and returns the window
    `[offset, offset + length)` of the values the encoding lists under `p` -/
theorem channelReadData_encoded (ss : List SegEnc) (as : List (List ActiveObj)) (hok : SegsOK ss as)
    (hnd : ActsNodup as) (hraw : ∀ s ∈ ss, s.chunks ≠ [] → s.rawFlag = true)
    (f : OpenFile) (hfile : f.file = zipEncode encodeSeg ss as) (hsegs : f.segments = segRecs 0 ss as)
    (p : Bytes) (m : ObjMeta) (hm : f.objects.get p = some m) (hty : m.dataType.isSome = true)
    (hnum : m.numValues = (chanValsAll ss as p).length)
    (offset : Int) (length : Option Int) (h0 : 0 ≤ offset) (hl : ∀ l, length = some l → 0 ≤ l) (st : FState) :
    ∃ st' r, (channelReadData f p offset length).run st = .ok (some r, st') ∧
      r.data.getD [] = takeOpt length ((chanValsAll ss as p).drop offset.toNat) := by
  have hlay : f.segments.map (layoutOf p) = layouts ss as p := by rw [hsegs]; exact layouts_segRecs p ss as 0 hnd
  have hwf : WellFormed (f.segments.map (layoutOf p)) := by rw [hlay]; exact layouts_wellFormed ss as p
  have hvals : ValsOk (f.segments.map (layoutOf p)) (fileVals ss as p) := by rw [hlay]; exact fileVals_ok ss as hok p
  have hfull : full (f.segments.map (layoutOf p)) (fileVals ss as p) = chanValsAll ss as p := by
    rw [hlay]; exact full_layouts ss as hok p
  have hnum' : m.numValues = total (f.segments.map (layoutOf p)) := by
    rw [← full_length _ _ hwf hvals, hfull, hnum]
  have hreads := readsAs_encoded ss as hok hnd f hfile hsegs p m.numValues hnum' offset length h0 hl
  obtain ⟨st', r, hrun, hr⟩ := channelReadData_eq_windowPure f p m offset length (fileSup ss as p) hm hty h0 hl hreads st
  refine ⟨st', r, hrun, ?_⟩
  rw [hr, window_fileSup ss as hnd hraw f.segments hsegs p m.numValues hnum' offset length h0 hl,
    window_eq_slice_segments f.segments p (fileVals ss as p) m.numValues hwf hvals hnum' offset length h0 hl, hfull]

end Tdms.Proofs.C04Whole
