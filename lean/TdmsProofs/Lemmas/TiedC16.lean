import Tdms.Generated.Code
import Tdms.Model.Path
import TdmsProofs.Lemmas.TiedPrelude

/-!
# Lemmas for the C16 tied theorems (`_components_to_path`, `_path_components`)

The two `while True:` loops of the generated `_path_components` are characterised by what ONE iteration
does on the remaining input (`innerStep`, `outerStep`: functions of `path[i:]`, not of the generated
term); the loop lemmas (`inner_loop_eq`, `outer_loop_eq`) are stated for an abstract loop body that
satisfies such a specification, and relate the fuel-bounded loop to the model scanner
`Tdms.Model.Path.scan`.  Core Lean only.
-/

namespace Tdms.Proofs.Tied
open Tdms.Generated Tdms.Model.Path

/-! ## generic `Py.*` lemmas (strings) -/

/-- `zip_longest(xs, xs[1:])` of a non-empty string: the head paired with the head of the tail -/
theorem pairsWithNext_cons {α : Type} (x : α) (xs : List α) :
    Py.pairsWithNext (x :: xs) = (x, xs.head?) :: Py.pairsWithNext xs := by
  cases xs <;> rfl

@[simp] theorem pairsWithNext_nil {α : Type} : Py.pairsWithNext ([] : List α) = [] := rfl

theorem pairsWithNext_length {α : Type} (xs : List α) : (Py.pairsWithNext xs).length = xs.length := by
  induction xs with
  | nil => rfl
  | cons x xs ih => rw [pairsWithNext_cons]; simp [ih]

/-- `c.replace(q, q + q)` doubles every `q` -/
theorem replaceChar_double {α : Type} [DecidableEq α] (q : α) (c : List α) :
    Py.replaceChar c q [q, q] = escape q c := by
  unfold Py.replaceChar
  induction c with
  | nil => rfl
  | cons x xs ih =>
    rw [List.flatMap_cons, ih]
    by_cases h : x = q <;> simp [escape, h]

/-- `sep.join(xs)` for a one-character separator -/
theorem join_singleton {α : Type} (s : α) (xs : List (List α)) :
    Py.join [s] xs = Tdms.Model.Path.join s xs := by
  induction xs with
  | nil => rfl
  | cons x xs ih =>
    cases xs with
    | nil => rfl
    | cons y ys =>
      show x ++ [s] ++ Py.join [s] (y :: ys) = x ++ s :: Tdms.Model.Path.join s (y :: ys)
      rw [ih]; simp

/-! ## the inner loop of `_path_components` -/

variable {α : Type} [DecidableEq α]

/-- the state of the loops: the iterator (remaining pairs), `component`, `out` -/
abbrev InnerSt (α : Type) := List (α × Option α) × List α × List (List α)
abbrev OuterSt (α : Type) := List (α × Option α) × List (List α)

/-- ONE iteration of the inner loop, as a function of the remaining input `rest = path[i:]`
    (the iterator is `zip_longest(rest, rest[1:])`), `component` and `out` in forward order -/
def innerStep (q : α) : List α → List α → List (List α) →
    Except Py.Exc (Py.Ctl (InnerSt α) (List (List α)))
  -- `next(chars)`: StopIteration, `return`
  | [], _, out => .ok (.ret out)
  | c :: rest, comp, out =>
    if c = q then
      match rest with
      -- closing quote at the end of the input: yield, break
      | [] => .ok (.brk ([], comp, out ++ [comp]))
      | n :: rest' =>
        -- doubled quote: one quote is appended, the second one is consumed
        if n = q then .ok (.next (Py.pairsWithNext rest', comp ++ [q], out))
        -- closing quote: yield, break
        else .ok (.brk (Py.pairsWithNext (n :: rest'), comp, out ++ [comp]))
    else .ok (.next (Py.pairsWithNext rest, comp ++ [c], out))

/-- the whole inner loop on the remaining input: `return`ed (input exhausted inside a component),
    or fell out by `break` with the remaining input, `component` and the extended `out` -/
def innerRun (q : α) : List α → List α → List (List α) →
    Py.LoopOut (List α × List α × List (List α)) (List (List α))
  | [], _, out => .returned out
  | c :: rest, comp, out =>
    if c = q then
      match rest with
      | [] => .fell ([], comp, out ++ [comp])
      | n :: rest' =>
        if n = q then innerRun q rest' (comp ++ [q]) out
        else .fell (n :: rest', comp, out ++ [comp])
    else innerRun q rest (comp ++ [c]) out

theorem innerRun_other (q : α) {c : α} (hc : c ≠ q) (rest comp : List α) (out : List (List α)) :
    innerRun q (c :: rest) comp out = innerRun q rest (comp ++ [c]) out := by
  cases rest <;> simp [innerRun, hc]

/-- the inner loop result with the iterator in place of the remaining input -/
def innerOut (r : Py.LoopOut (List α × List α × List (List α)) (List (List α))) :
    Py.LoopOut (InnerSt α) (List (List α)) :=
  match r with
  | .returned v => .returned v
  | .fell (rest, comp, out) => .fell (Py.pairsWithNext rest, comp, out)

/-- a loop whose body does `innerStep` is `innerRun`, for any fuel above the length of the remaining
    input (in particular the pseudo-exception "NonTermination" is not raised) -/
theorem inner_loop_eq (q : α)
    (ib : InnerSt α → Except Py.Exc (Py.Ctl (InnerSt α) (List (List α))))
    (hI : ∀ rest comp out, ib (Py.pairsWithNext rest, comp, out) = innerStep q rest comp out)
    (fuel : Nat) (rest comp : List α) (out : List (List α)) (hf : rest.length < fuel) :
    Py.whileE fuel (Py.pairsWithNext rest, comp, out) ib = .ok (innerOut (innerRun q rest comp out)) := by
  induction fuel generalizing rest comp out with
  | zero => omega
  | succ fuel ih =>
    unfold Py.whileE
    rw [hI]
    match rest with
    | [] => simp [innerStep, innerRun, innerOut]
    | c :: rest =>
      by_cases hc : c = q
      · match rest with
        | [] => simp [innerStep, innerRun, innerOut, hc]
        | n :: rest' =>
          by_cases hn : n = q
          · simp only [innerStep, innerRun, hc, hn, if_true]
            exact ih rest' _ _ (by simp only [List.length_cons] at hf; omega)
          · simp [innerStep, innerRun, innerOut, hc, hn]
      · rw [innerRun_other q hc]
        simp only [innerStep, hc, if_false]
        exact ih rest _ _ (by simp only [List.length_cons] at hf; omega)

/-- `innerRun` against the model scanner (state `.comp`, everything reversed) -/
theorem innerRun_scan (q s : α) (n : Nat) (rest comp : List α) (out : List (List α))
    (hn : rest.length ≤ n) :
    match innerRun q rest comp out with
    | .returned v => scan q s (.comp comp.reverse) out.reverse rest = .ok v
    | .fell (rest', _, out') =>
      rest'.length < rest.length ∧
        scan q s (.comp comp.reverse) out.reverse rest = scan q s .slash out'.reverse rest' := by
  induction n generalizing rest comp out with
  | zero =>
    match rest with
    | [] => simp [innerRun, scan]
    | _ :: _ => simp at hn
  | succ n ih =>
    match rest with
    | [] => simp [innerRun, scan]
    | c :: rest =>
      by_cases hc : c = q
      · subst hc
        match rest with
        | [] => simp [innerRun, scan]
        | m :: rest' =>
          by_cases hm : m = c
          · subst hm
            have h := ih rest' (comp ++ [m]) out (by simp only [List.length_cons] at hn; omega)
            have e : scan m s (.comp comp.reverse) out.reverse (m :: m :: rest')
                = scan m s (.comp (comp ++ [m]).reverse) out.reverse rest' := by simp [scan]
            rw [e]
            simp only [innerRun, if_true]
            split
            · rename_i v hv
              rw [hv] at h
              exact h
            · rename_i r c' o hv
              rw [hv] at h
              exact ⟨by simp only [List.length_cons]; omega, h.2⟩
          · simp [innerRun, scan, hm]
      · have h := ih rest (comp ++ [c]) out (by simp only [List.length_cons] at hn; omega)
        have e : scan q s (.comp comp.reverse) out.reverse (c :: rest)
            = scan q s (.comp (comp ++ [c]).reverse) out.reverse rest := by
          cases rest <;> simp [scan, hc]
        rw [e, innerRun_other q hc]
        split
        · rename_i v hv
          rw [hv] at h
          exact h
        · rename_i r c' o hv
          rw [hv] at h
          exact ⟨by simp only [List.length_cons]; omega, h.2⟩

/-! ## the outer loop of `_path_components` -/

/-- ONE iteration of the outer loop, as a function of the remaining input and `out`; the inner loop is
    `innerRun` -/
def outerStep (q s : α) : List α → List (List α) →
    Except Py.Exc (Py.Ctl (OuterSt α) (List (List α)))
  -- `next(chars)`: StopIteration, `return`
  | [], out => .ok (.ret out)
  | c :: rest, out =>
    if c = s then
      match rest with
      -- `next_char is None`: the `else:` branch runs `next(chars)`: StopIteration
      | [] => .ok (.ret out)
      | n :: rest' =>
        if n = q then
          -- `next(chars)` consumes the opening quote; `component = []`; inner loop
          match innerRun q rest' [] out with
          | .returned v => .ok (.ret v)
          | .fell (r, _, out') => .ok (.next (Py.pairsWithNext r, out'))
        else .error "ValueError"
    else .error "ValueError"

/-- the result of the generator function: the model scanner's, with the Python exception class name -/
def scanOut (r : Except PathErr (List (List α))) : Except Py.Exc (Py.LoopOut (OuterSt α) (List (List α))) :=
  match r with
  | .ok v => .ok (.returned v)
  | .error _ => .error "ValueError"

/-- a loop whose body does `outerStep` (on inputs shorter than the bound `F` of the inner loop) is the
    model scanner from state `.slash`, for any fuel above the length of the remaining input -/
theorem outer_loop_eq (q s : α) (F : Nat)
    (ob : OuterSt α → Except Py.Exc (Py.Ctl (OuterSt α) (List (List α))))
    (hO : ∀ rest out, rest.length < F → ob (Py.pairsWithNext rest, out) = outerStep q s rest out)
    (fuel : Nat) (rest : List α) (out : List (List α)) (hf : rest.length < fuel) (hF : rest.length < F) :
    Py.whileE fuel (Py.pairsWithNext rest, out) ob = scanOut (scan q s .slash out.reverse rest) := by
  induction fuel generalizing rest out with
  | zero => omega
  | succ fuel ih =>
    unfold Py.whileE
    rw [hO rest out hF]
    match rest with
    | [] => simp [outerStep, scan, scanOut]
    | c :: rest =>
      by_cases hc : c = s
      · match rest with
        | [] => simp [outerStep, scan, scanOut, hc]
        | n :: rest' =>
          by_cases hn : n = q
          · have h := innerRun_scan q s rest'.length rest' [] out (Nat.le_refl _)
            simp only [outerStep, hc, hn, if_true]
            have e : scan q s .slash out.reverse (s :: q :: rest')
                = scan q s (.comp []) out.reverse rest' := by simp [scan]
            rw [e]
            split at h
            · rename_i v hv
              simp only [List.reverse_nil] at h
              rw [h]; rfl
            · rename_i r c' o hv
              simp only [List.reverse_nil] at h
              rw [h.2]
              simp only [List.length_cons] at hf hF
              exact ih r o (by omega) (by omega)
          · simp [outerStep, scan, scanOut, hc, hn]
      · have e : scan q s .slash out.reverse (c :: rest) = .error .expectedSlash := by
          cases rest <;> simp [scan, hc]
        simp [outerStep, scanOut, hc, e]

/-- the Python exception class of the model's errors (`tooManyComponents` belongs to
    `ObjectPath.__init__`, not to `_path_components`) -/
def errName : PathErr → Py.Exc
  | .expectedSlash => "ValueError"
  | .expectedQuote => "ValueError"
  | .tooManyComponents => "ValueError"

theorem errName_eq (e : PathErr) : errName e = "ValueError" := by cases e <;> rfl

end Tdms.Proofs.Tied
