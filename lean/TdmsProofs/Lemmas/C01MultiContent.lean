/-
  C01 for multi-segment files: the spec's `Content` against the reader's `ObjMetas`.

  `mOC ex` views a content entry as an `object_metadata` entry (value count = values held so far plus
  `ex path`).  One segment of `denoteSeg` (declare, properties, chunks) is simulated by the reader's
  `stepMetas` fold, `updateObjectProperties`, and nothing (the counts were added up front).
  Core Lean only.
-/
import TdmsProofs.Lemmas.C01MultiSpec

namespace Tdms.Proofs.C01Multi

open Tdms Tdms.Generated Tdms.Model Tdms.Proofs.C02
open Tdms.Proofs.Bytes (canonProp)

/-! ## `Content.modify` -/

def dflt (p : Bytes) : ObjContent := ⟨p, none, [], [], []⟩

theorem mem_modify {c : Content} {p : Bytes} {f : ObjContent → ObjContent} {x : ObjContent}
    (h : x ∈ c.modify p f) :
    (x ∈ c ∧ x.path ≠ p) ∨ (∃ y ∈ c, y.path = p ∧ x = f y) ∨ x = f (dflt p) := by
  unfold Content.modify at h
  split at h
  · rw [List.mem_map] at h
    obtain ⟨y, hy, rfl⟩ := h
    by_cases hp : y.path = p
    · right; left; exact ⟨y, hy, hp, by simp [hp]⟩
    · left; simp [hp, hy]
  · rename_i hany
    rw [List.mem_append] at h
    rcases h with h | h
    · left
      refine ⟨h, fun hp => hany ?_⟩
      simp only [List.any_eq_true, decide_eq_true_eq]
      exact ⟨x, h, hp⟩
    · right; right; simpa [dflt] using h

theorem modify_paths (c : Content) (p : Bytes) (f : ObjContent → ObjContent)
    (hf : ∀ x, (f x).path = x.path) :
    (c.modify p f).map (·.path) =
      if c.any (·.path = p) then c.map (·.path) else c.map (·.path) ++ [p] := by
  unfold Content.modify
  split
  · simp only [List.map_map]
    apply List.map_congr_left
    intro x _
    simp only [Function.comp]
    split <;> simp [hf]
  · simp [hf]

theorem modify_nodup (c : Content) (p : Bytes) (f : ObjContent → ObjContent)
    (hf : ∀ x, (f x).path = x.path) (h : (c.map (·.path)).Nodup) :
    ((c.modify p f).map (·.path)).Nodup := by
  rw [modify_paths c p f hf]
  split
  · exact h
  · rename_i hany
    rw [List.nodup_append]
    refine ⟨h, by simp, ?_⟩
    intro a ha b hb
    simp only [List.mem_singleton] at hb
    subst hb
    intro e
    subst e
    apply hany
    rw [List.mem_map] at ha
    obtain ⟨x, hx, hxp⟩ := ha
    simp only [List.any_eq_true, decide_eq_true_eq]
    exact ⟨x, hx, hxp⟩

theorem find_map_ne (c : Content) (p q : Bytes) (f : ObjContent → ObjContent)
    (hf : ∀ x, (f x).path = x.path) (hq : q ≠ p) :
    (c.map (fun o => if o.path = p then f o else o)).find? (·.path = q) = c.find? (·.path = q) := by
  induction c with
  | nil => rfl
  | cons x xs ih =>
    simp only [List.map_cons, List.find?_cons]
    grind

theorem find_map_self (c : Content) (p : Bytes) (f : ObjContent → ObjContent)
    (hf : ∀ x, (f x).path = x.path) :
    (c.map (fun o => if o.path = p then f o else o)).find? (·.path = p) =
      (c.find? (·.path = p)).map f := by
  induction c with
  | nil => rfl
  | cons x xs ih =>
    simp only [List.map_cons, List.find?_cons]
    grind

theorem find_modify (c : Content) (p q : Bytes) (f : ObjContent → ObjContent)
    (hf : ∀ x, (f x).path = x.path) :
    (c.modify p f).find? (·.path = q) =
      if q = p then some (f ((c.find? (·.path = p)).getD (dflt p))) else c.find? (·.path = q) := by
  unfold Content.modify
  split
  · rename_i hany
    by_cases hq : q = p
    · subst hq
      simp only [if_true]
      rw [find_map_self c q f hf]
      simp only [List.any_eq_true, decide_eq_true_eq] at hany
      obtain ⟨x, hx, hxp⟩ := hany
      cases hfind : c.find? (·.path = q) with
      | none =>
        rw [List.find?_eq_none] at hfind
        exact absurd (by simpa using hxp) (hfind x hx)
      | some y => rfl
    · simp only [hq, if_false]
      exact find_map_ne c p q f hf hq
  · rename_i hany
    have hnone : c.find? (·.path = p) = none := by
      rw [List.find?_eq_none]
      intro x hx
      simp only [decide_eq_true_eq]
      intro hxp
      apply hany
      simp only [List.any_eq_true, decide_eq_true_eq]
      exact ⟨x, hx, hxp⟩
    rw [List.find?_append]
    by_cases hq : q = p
    · subst hq
      simp [hnone, hf, dflt]
    · have : ¬ p = q := fun e => hq e.symm
      simp [hq, hf, this]

/-! ## the view of a content entry as an `object_metadata` entry -/

def mOC (ex : Bytes → Nat) (oc : ObjContent) : ObjMeta :=
  { path := oc.path, props := oc.props.map canonProp, dataType := oc.ty, scalerTypes := none,
    numValues := oc.values.length + ex oc.path }

theorem mOC_path (ex : Bytes → Nat) (oc : ObjContent) : (mOC ex oc).path = oc.path := rfl

/-- simulation of one `modify` -/
theorem modify_sim (c : Content) (p : Bytes) (f : ObjContent → ObjContent) (f' : ObjMeta → ObjMeta)
    (g g' : ObjContent → ObjMeta) (hg : ∀ oc, (g oc).path = oc.path)
    (hne : ∀ oc ∈ c, oc.path ≠ p → g' oc = g oc)
    (heq : ∀ oc ∈ c, oc.path = p → g' (f oc) = f' (g oc))
    (hnew : c.any (fun o => decide (o.path = p)) = false → g' (f (dflt p)) = f' { path := p }) :
    ObjMetas.modify (c.map g) p f' = (c.modify p f).map g' := by
  have hany : (c.map g).any (fun m => decide (m.path = p)) = c.any (fun o => decide (o.path = p)) := by
    rw [List.any_map]
    congr 1
    funext x
    simp [hg]
  unfold ObjMetas.modify Content.modify
  rw [hany]
  split
  · simp only [List.map_map]
    apply List.map_congr_left
    intro x hxm
    simp only [Function.comp, hg]
    by_cases hx : x.path = p
    · simp only [hx, if_true]; exact (heq x hxm hx).symm
    · simp only [hx, if_false]; exact (hne x hxm hx).symm
  · rename_i hn
    simp only [List.map_append, List.map_cons, List.map_nil]
    congr 1
    · apply List.map_congr_left
      intro x hx
      refine (hne x hx ?_).symm
      intro hxp
      apply hn
      simp only [List.any_eq_true, decide_eq_true_eq]
      exact ⟨x, hx, hxp⟩
    · simp only [List.cons.injEq, and_true]
      exact (hnew (by simpa using hn)).symm

/-! ## values per chunk -/

/-- values one chunk adds to an active object -/
def perObj (a : ActiveObj) : Nat := if a.hasData then (a.idx.map (·.n)).getD 0 else 0

/-- values one chunk adds under a path -/
def cntOf (act : List ActiveObj) (p : Bytes) : Nat := (act.map fun a => if a.path = p then perObj a else 0).sum

theorem cntOf_nil (p : Bytes) : cntOf [] p = 0 := rfl

theorem cntOf_cons (a : ActiveObj) (as : List ActiveObj) (p : Bytes) :
    cntOf (a :: as) p = (if a.path = p then perObj a else 0) + cntOf as p := by
  simp [cntOf]

theorem cntOf_dataObjs (act : List ActiveObj) (p : Bytes) : cntOf (dataObjs act) p = cntOf act p := by
  induction act with
  | nil => rfl
  | cons a as ih =>
    unfold dataObjs at ih ⊢
    rw [List.filter_cons]
    by_cases h : a.hasData = true
    · simp only [h, if_true, cntOf_cons, ih]
    · have h' : a.hasData = false := by simpa using h
      simp only [h', Bool.false_eq_true, if_false, cntOf_cons, ih, perObj]
      simp

/-! ## phase 1: `updateObjectMetadata` against `declareObjs` -/

def notDaq (a : ActiveObj) : Prop := ∀ dg ty n sc w, a.idx ≠ some (.daq dg ty n sc w)

theorem notDaq_of_good {a : ActiveObj} (h : ∀ d, a.idx = some d → GoodDesc d) : notDaq a := by
  intro dg ty n sc w hi
  exact h _ hi

/-- the function `declareObjs` applies for an object without a DAQmx description -/
def declF (a : ActiveObj) (o : ObjContent) : ObjContent :=
  { o with ty := (a.idx.map (·.ty)).orElse fun _ => o.ty }

theorem declareObjs_cons_std (c : Content) (a : ActiveObj) (as : List ActiveObj) (h : notDaq a) :
    declareObjs c (a :: as) = declareObjs (c.modify a.path (declF a)) as := by
  rw [declareObjs]
  congr 1
  congr 1
  funext o
  unfold declF
  cases hi : a.idx with
  | none => rfl
  | some d =>
    cases d with
    | std ty n total => rfl
    | daq dg ty n sc w => exact absurd hi (h dg ty n sc w)

theorem concObj_scalerTypes {a : ActiveObj} (h : notDaq a) : (concObj a).scalerTypes = none := by
  unfold concObj SegObj.scalerTypes
  cases hi : a.idx with
  | none => rfl
  | some d =>
    cases d with
    | std ty n total => rfl
    | daq dg ty n sc w => exact absurd hi (h dg ty n sc w)

theorem numberOfSegmentValues_conc (a : ActiveObj) (seg : Segment) (hov : seg.override = none) :
    numberOfSegmentValues (concObj a) seg = perObj a * seg.numChunks := by
  unfold numberOfSegmentValues perObj
  rw [concObj_hasData, hov]
  cases hd : a.hasData
  · simp
  · simp only [Bool.not_true, Bool.false_eq_true, if_false, if_true]
    unfold concObj
    cases hi : a.idx with
    | none => simp
    | some d => cases d <;> simp [IdxDesc.n]

theorem stepMetas_conc (seg : Segment) (hov : seg.override = none) (ms : ObjMetas) (a : ActiveObj)
    (h : notDaq a) :
    stepMetas seg ms (concObj a) = ms.modify a.path fun m =>
      { m with numValues := m.numValues + perObj a * seg.numChunks, dataType := a.idx.map (·.ty) } := by
  unfold stepMetas
  rw [concObj_path, numberOfSegmentValues_conc a seg hov, concObj_dataType, concObj_scalerTypes h]
  rfl

theorem declare_sim (seg : Segment) (hov : seg.override = none) (last' : LastIdx) :
    ∀ (act : List ActiveObj) (c : Content) (ex : Bytes → Nat),
      (∀ a ∈ act, a.idx = last'.get a.path) → (∀ a ∈ act, notDaq a) →
      (∀ oc ∈ c, last'.get oc.path = none → oc.ty = none) →
      (∀ p, c.any (fun o => decide (o.path = p)) = false → ex p = 0) →
      (act.map concObj).foldl (stepMetas seg) (c.map (mOC ex)) =
        (declareObjs c act).map (mOC fun p => ex p + cntOf act p * seg.numChunks) := by
  intro act
  induction act with
  | nil => intro c ex _ _ _ _; simp [declareObjs, cntOf_nil]
  | cons a as ih =>
    intro c ex hidx hnd hty hex
    have ha := hnd a List.mem_cons_self
    have hdt : ∀ t : Option Nat, (a.idx = none → t = none) →
        ((a.idx.map (·.ty)).orElse fun _ => t) = a.idx.map (·.ty) := by
      intro t ht
      cases hi : a.idx with
      | none => simp [ht hi]
      | some d => rfl
    rw [List.map_cons, List.foldl_cons, stepMetas_conc seg hov _ a ha, declareObjs_cons_std c a as ha]
    have hstep := modify_sim c a.path (declF a)
      (fun m => { m with numValues := m.numValues + perObj a * seg.numChunks, dataType := a.idx.map (·.ty) })
      (mOC ex) (mOC fun p => ex p + (if a.path = p then perObj a else 0) * seg.numChunks)
      (fun _ => rfl)
      (by
        intro oc _ hne
        have : ¬ a.path = oc.path := fun e => hne e.symm
        simp [mOC, this])
      (by
        intro oc hmem hp
        have hoc : a.idx = none → oc.ty = none := by
          intro hn
          apply hty oc hmem
          rw [hp, ← hidx a List.mem_cons_self, hn]
        simp only [mOC, declF, hdt oc.ty hoc, hp, if_true, Nat.add_assoc])
      (by
        intro hn
        simp only [mOC, declF, dflt, hdt none (fun _ => rfl), if_true, List.map_nil, List.length_nil,
          Nat.zero_add, hex a.path hn])
    rw [hstep, ih _ _ (fun x hx => hidx x (List.mem_cons_of_mem _ hx))
      (fun x hx => hnd x (List.mem_cons_of_mem _ hx))]
    · congr 1
      funext oc
      simp only [mOC, cntOf_cons, Nat.add_mul, Nat.add_assoc]
    · intro oc hoc hl
      rcases mem_modify hoc with ⟨h1, _⟩ | ⟨y, hy, hyp, rfl⟩ | rfl
      · exact hty oc h1 hl
      · have hai : a.idx = none := by
          rw [hidx a List.mem_cons_self, ← hyp]; exact hl
        simp only [declF, hai, Option.map_none, Option.orElse_none]
        exact hty y hy (by simpa [declF] using hl)
      · have hai : a.idx = none := by
          rw [hidx a List.mem_cons_self]; exact hl
        simp [declF, dflt, hai]
    · intro p hp
      rw [modify_any (declF a) (fun _ => rfl)] at hp
      simp only [Bool.or_eq_false_iff, decide_eq_false_iff_not] at hp
      have : ¬ a.path = p := fun e => hp.2 e.symm
      simp [hex p hp.1, this]

/-! ## phase 2: `updateObjectProperties` against `applyProps` -/

theorem modify_present_mono (c : Content) (p q : Bytes) (f : ObjContent → ObjContent)
    (hf : ∀ x, (f x).path = x.path) (h : c.any (fun o => decide (o.path = q)) = true) :
    (c.modify p f).any (fun o => decide (o.path = q)) = true := by
  rw [modify_any f hf, h]; rfl

theorem modify_id_of_present (c : Content) (p : Bytes) (f : ObjContent → ObjContent)
    (hf : ∀ x ∈ c, f x = x) (h : c.any (fun o => decide (o.path = p)) = true) : c.modify p f = c := by
  rw [modify_present f h]
  calc c.map (fun o => if o.path = p then f o else o) = c.map id := by
        apply List.map_congr_left
        intro x hx
        by_cases hp : x.path = p <;> simp [hp, hf x hx]
    _ = c := by simp

theorem props_sim (ex : Bytes → Nat) : ∀ (objs : List ObjEnc) (c : Content),
    (∀ o ∈ objs, c.any (fun x => decide (x.path = o.path)) = true) →
    updateObjectProperties (c.map (mOC ex))
      ((objs.filter fun o => !o.props.isEmpty).map fun o => (o.path, o.props.map canonProp)) =
    (applyProps c objs).map (mOC ex) := by
  intro objs
  induction objs with
  | nil => intro c _; rfl
  | cons o os ih =>
    intro c hpres
    have hpo := hpres o List.mem_cons_self
    have hpres' : ∀ o' ∈ os, (c.modify o.path fun x => { x with props := o.props.foldl setProp x.props }).any
        (fun x => decide (x.path = o'.path)) = true := by
      intro o' ho'
      exact modify_present_mono _ _ _ _ (fun _ => rfl) (hpres o' (List.mem_cons_of_mem _ ho'))
    rw [applyProps]
    by_cases hp : o.props = []
    · have hid : (c.modify o.path fun x => { x with props := o.props.foldl setProp x.props }) = c := by
        apply modify_id_of_present _ _ _ _ hpo
        intro x _
        rw [hp]
        rfl
      rw [hid] at hpres' ⊢
      simp only [List.filter_cons, hp, List.isEmpty_nil, Bool.not_true, Bool.false_eq_true, if_false]
      exact ih c hpres'
    · have hemp : o.props.isEmpty = false := by
        cases h : o.props with
        | nil => exact absurd h hp
        | cons a as => rfl
      simp only [List.filter_cons, hemp, Bool.not_false, if_true, List.map_cons, updateObjectProperties]
      rw [modify_sim c o.path (fun x => { x with props := o.props.foldl setProp x.props })
        (fun m => { m with props := (o.props.map canonProp).foldl setPropVal m.props }) (mOC ex) (mOC ex)
        (fun _ => rfl) (fun _ _ _ => rfl)
        (by
          intro oc _ _
          simp only [mOC, C01Compose.foldl_setProp_canon])
        (by intro hn; rw [hn] at hpo; cases hpo)]
      exact ih _ hpres'

/-! ## phase 3: the chunks only add values -/

def appF (v : List Bytes) (o : ObjContent) : ObjContent := { o with values := o.values ++ v }

theorem addStdChunk_present : ∀ (d : List ActiveObj) (ch : List (List Bytes)) (c : Content) (q : Bytes),
    c.any (fun o => decide (o.path = q)) = true →
    (addStdChunk c d ch).any (fun o => decide (o.path = q)) = true := by
  intro d
  induction d with
  | nil => intro ch c q h; cases ch <;> exact h
  | cons a as ih =>
    intro ch c q h
    cases ch with
    | nil => exact h
    | cons v vs =>
      rw [addStdChunk]
      apply ih
      exact modify_present_mono _ _ _ _ (fun _ => rfl) h

theorem wfStdChunk_head {a : ActiveObj} {as : List ActiveObj} {v : List Bytes} {vs : List (List Bytes)}
    (h : wfStdChunk (a :: as) (v :: vs) = true) :
    (∃ ty n total, a.idx = some (.std ty n total) ∧ v.length = n) ∧ wfStdChunk as vs = true := by
  rw [wfStdChunk, Bool.and_eq_true] at h
  refine ⟨?_, h.2⟩
  have h1 := h.1
  cases hi : a.idx with
  | none => rw [hi] at h1; cases h1
  | some d =>
    cases d with
    | daq dg ty n sc w => rw [hi] at h1; cases h1
    | std ty n total =>
      rw [hi] at h1
      simp only [Bool.and_eq_true, decide_eq_true_eq] at h1
      exact ⟨ty, n, total, rfl, h1.1⟩

theorem addStdChunk_counts (ex : Bytes → Nat) : ∀ (d : List ActiveObj) (ch : List (List Bytes)) (c : Content),
    wfStdChunk d ch = true → (∀ a ∈ d, a.hasData = true) →
    (∀ a ∈ d, c.any (fun o => decide (o.path = a.path)) = true) →
    (addStdChunk c d ch).map (mOC ex) = c.map (mOC fun p => ex p + cntOf d p) := by
  intro d
  induction d with
  | nil => intro ch c _ _ _; cases ch <;> simp [addStdChunk, cntOf_nil]
  | cons a as ih =>
    intro ch c hwf hd hpres
    cases ch with
    | nil => simp [wfStdChunk] at hwf
    | cons v vs =>
      obtain ⟨⟨ty, n, total, hi, hv⟩, hrest⟩ := wfStdChunk_head hwf
      have hper : perObj a = v.length := by
        simp [perObj, hd a List.mem_cons_self, hi, IdxDesc.n, hv]
      rw [addStdChunk, ih vs _ hrest (fun x hx => hd x (List.mem_cons_of_mem _ hx))
        (by
          intro x hx
          exact modify_present_mono _ _ _ _ (fun _ => rfl) (hpres x (List.mem_cons_of_mem _ hx))),
        modify_present _ (hpres a List.mem_cons_self), List.map_map]
      apply List.map_congr_left
      intro oc _
      simp only [Function.comp, cntOf_cons, hper]
      by_cases hp : oc.path = a.path
      · simp only [hp, if_true, mOC, List.length_append]
        congr 1
        omega
      · have : ¬ a.path = oc.path := fun e => hp e.symm
        simp only [hp, if_false, mOC, this, Nat.zero_add]

theorem addChunk_std (s : SegEnc) (act : List ActiveObj) (hnd : (dataObjs act).any isDaqmxObj = false)
    (c : Content) (ch : List (List Bytes)) : addChunk s act c ch = addStdChunk c (dataObjs act) ch := by
  simp only [addChunk, hnd, Bool.false_eq_true, if_false]

theorem chunks_counts (s : SegEnc) (act : List ActiveObj) (hnd : (dataObjs act).any isDaqmxObj = false) :
    ∀ (chs : List (List (List Bytes))) (c : Content) (ex : Bytes → Nat),
      (∀ ch ∈ chs, wfStdChunk (dataObjs act) ch = true) →
      (∀ a ∈ act, c.any (fun o => decide (o.path = a.path)) = true) →
      (chs.foldl (addChunk s act) c).map (mOC ex) =
        c.map (mOC fun p => ex p + cntOf act p * chs.length) := by
  intro chs
  induction chs with
  | nil => intro c ex _ _; simp
  | cons ch chs ih =>
    intro c ex hwf hpres
    have hmem : ∀ a ∈ dataObjs act, a ∈ act ∧ a.hasData = true := by
      intro a ha
      simpa [dataObjs] using ha
    rw [List.foldl_cons, addChunk_std s act hnd, ih _ ex (fun c' hc' => hwf c' (List.mem_cons_of_mem _ hc'))
      (fun a ha => addStdChunk_present _ _ _ _ (hpres a ha)),
      addStdChunk_counts _ _ _ _ (hwf ch List.mem_cons_self) (fun a ha => (hmem a ha).2)
        (fun a ha => hpres a (hmem a ha).1)]
    apply List.map_congr_left
    intro oc _
    simp only [mOC, cntOf_dataObjs, List.length_cons, Nat.mul_succ, Nat.add_assoc]

/-! ## values by path -/

open Tdms.Proofs.C01Compose (bump)

def valsOf (c : Content) (p : Bytes) : List Bytes := ((c.find? (·.path = p)).map (·.values)).getD []

theorem valsOf_modify_same (c : Content) (p : Bytes) (f : ObjContent → ObjContent)
    (hf : ∀ x, (f x).path = x.path) (hv : ∀ x, (f x).values = x.values) :
    valsOf (c.modify p f) = valsOf c := by
  funext q
  unfold valsOf
  rw [find_modify c p q f hf]
  by_cases hq : q = p
  · subst hq
    simp only [if_true, Option.map_some, Option.getD_some, hv]
    cases c.find? (·.path = q) <;> rfl
  · simp only [hq, if_false]

theorem valsOf_modify_append (c : Content) (p : Bytes) (v : List Bytes) :
    valsOf (c.modify p (appF v)) = bump (valsOf c) (p, v) := by
  funext q
  unfold valsOf bump
  rw [find_modify c p q (appF v) (fun _ => rfl)]
  by_cases hq : q = p
  · subst hq
    simp only [if_true, Option.map_some, Option.getD_some, appF]
    cases c.find? (·.path = q) <;> rfl
  · simp only [hq, if_false]

theorem valsOf_declareObjs : ∀ (act : List ActiveObj) (c : Content), valsOf (declareObjs c act) = valsOf c := by
  intro act
  induction act with
  | nil => intro c; rfl
  | cons a as ih =>
    intro c
    rw [declareObjs, ih]
    exact valsOf_modify_same _ _ _ (fun _ => rfl) (fun _ => rfl)

theorem valsOf_applyProps : ∀ (os : List ObjEnc) (c : Content), valsOf (applyProps c os) = valsOf c := by
  intro os
  induction os with
  | nil => intro c; rfl
  | cons o os ih =>
    intro c
    rw [applyProps, ih]
    exact valsOf_modify_same _ _ _ (fun _ => rfl) (fun _ => rfl)

/-- one chunk as (path, values) pairs, in the order of the data objects -/
def pairsOf (d : List ActiveObj) (ch : List (List Bytes)) : List (Bytes × List Bytes) := (d.map (·.path)).zip ch

theorem valsOf_addStdChunk : ∀ (d : List ActiveObj) (ch : List (List Bytes)) (c : Content),
    valsOf (addStdChunk c d ch) = (pairsOf d ch).foldl bump (valsOf c) := by
  intro d
  induction d with
  | nil => intro ch c; cases ch <;> rfl
  | cons a as ih =>
    intro ch c
    cases ch with
    | nil => rfl
    | cons v vs =>
      rw [addStdChunk]
      have := ih vs (c.modify a.path (appF v))
      rw [valsOf_modify_append] at this
      exact this

/-- all (path, values) pairs of a segment, in file order -/
def segPairs (s : SegEnc) (a : List ActiveObj) : List (Bytes × List Bytes) :=
  s.chunks.flatMap (pairsOf (dataObjs a))

theorem valsOf_chunks (s : SegEnc) (act : List ActiveObj) (hnd : (dataObjs act).any isDaqmxObj = false) :
    ∀ (chs : List (List (List Bytes))) (c : Content),
      valsOf (chs.foldl (addChunk s act) c) = (chs.flatMap (pairsOf (dataObjs act))).foldl bump (valsOf c) := by
  intro chs
  induction chs with
  | nil => intro c; rfl
  | cons ch chs ih =>
    intro c
    rw [List.foldl_cons, ih, addChunk_std s act hnd, valsOf_addStdChunk, List.flatMap_cons, List.foldl_append]

theorem valsOf_denoteSeg (c : Content) (s : SegEnc) (a : List ActiveObj)
    (hnd : (dataObjs a).any isDaqmxObj = false) :
    valsOf (denoteSeg c s a) = (segPairs s a).foldl bump (valsOf c) := by
  unfold denoteSeg segPairs
  rw [valsOf_chunks s a hnd]
  congr 1
  cases s.hasMeta
  · simp only [Bool.false_eq_true, if_false]; exact valsOf_declareObjs a c
  · simp only [if_true]; rw [valsOf_applyProps, valsOf_declareObjs]

/-! ## distinct paths -/

theorem declareObjs_nodup : ∀ (act : List ActiveObj) (c : Content), (c.map (·.path)).Nodup →
    ((declareObjs c act).map (·.path)).Nodup := by
  intro act
  induction act with
  | nil => intro c h; exact h
  | cons a as ih => intro c h; rw [declareObjs]; exact ih _ (modify_nodup _ _ _ (fun _ => rfl) h)

theorem applyProps_nodup : ∀ (os : List ObjEnc) (c : Content), (c.map (·.path)).Nodup →
    ((applyProps c os).map (·.path)).Nodup := by
  intro os
  induction os with
  | nil => intro c h; exact h
  | cons o os ih => intro c h; rw [applyProps]; exact ih _ (modify_nodup _ _ _ (fun _ => rfl) h)

theorem addStdChunk_nodup : ∀ (d : List ActiveObj) (ch : List (List Bytes)) (c : Content),
    (c.map (·.path)).Nodup → ((addStdChunk c d ch).map (·.path)).Nodup := by
  intro d
  induction d with
  | nil => intro ch c h; cases ch <;> exact h
  | cons a as ih =>
    intro ch c h
    cases ch with
    | nil => exact h
    | cons v vs => rw [addStdChunk]; exact ih _ _ (modify_nodup _ _ _ (fun _ => rfl) h)

theorem chunks_nodup (s : SegEnc) (a : List ActiveObj) (hnd : (dataObjs a).any isDaqmxObj = false) :
    ∀ (chs : List (List (List Bytes))) (c : Content), (c.map (·.path)).Nodup →
      ((chs.foldl (addChunk s a) c).map (·.path)).Nodup := by
  intro chs
  induction chs with
  | nil => intro c h; exact h
  | cons ch chs ih =>
    intro c h
    rw [List.foldl_cons]
    apply ih
    rw [addChunk_std s a hnd]
    exact addStdChunk_nodup _ _ _ h

theorem denoteSeg_nodup (c : Content) (s : SegEnc) (a : List ActiveObj)
    (hnd : (dataObjs a).any isDaqmxObj = false) (h : (c.map (·.path)).Nodup) :
    ((denoteSeg c s a).map (·.path)).Nodup := by
  unfold denoteSeg
  apply chunks_nodup s a hnd
  split
  · exact applyProps_nodup _ _ (declareObjs_nodup _ _ h)
  · exact declareObjs_nodup _ _ h

theorem find_of_nodup {c : Content} (h : (c.map (·.path)).Nodup) {oc : ObjContent} (hm : oc ∈ c) :
    c.find? (·.path = oc.path) = some oc := by
  induction c with
  | nil => cases hm
  | cons x xs ih =>
    rw [List.map_cons, List.nodup_cons] at h
    rw [List.find?_cons]
    rcases List.mem_cons.1 hm with rfl | hm'
    · simp
    · have : ¬ x.path = oc.path := fun e => h.1 (List.mem_map.2 ⟨oc, hm', e.symm⟩)
      simp only [this, decide_false]
      exact ih h.2 hm'

end Tdms.Proofs.C01Multi
