/-
  C03 — files mixing contiguous and INTERLEAVED segments: the invariant `SegsMOk`, the interleaved
  chunk in closed form, and the lazy whole-segment read of an interleaved segment.  Core Lean only.
-/
import TdmsProofs.Lemmas.C03FileIterG
import TdmsProofs.Lemmas.C03ChanAll

namespace Tdms.Proofs.C03

open Tdms Tdms.Generated Tdms.Model Tdms.Proofs.Bytes Tdms.Proofs.C04 Tdms.Proofs.C06

/-- an interleaved segment whose (single) read succeeds and that is not truncated -/
structure InterOk (file : Bytes) (s : Segment) : Prop where
  kind : dataReaderKind s = .ok .interleaved
  size : chunkSize s.objects = .ok (segCsz s)
  noOverride : s.override = none
  read : ∃ r, interRead file s = .ok r

/-- **the invariant on one segment, both layouts** -/
structure SegMOk (file : Bytes) (s : Segment) : Prop where
  tag : (file.drop s.position).take 4 = tagData
  nodup : (s.objects.map (·.path)).Nodup
  noRaw : hasFlag s.toc kTocRawData = false → s.numChunks = 0
  data : ContigOk file s (segCsz s) ∨ InterOk file s

def SegsMOk (file : Bytes) (segs : List Segment) : Prop := ∀ s ∈ segs, SegMOk file s

theorem SegOk.toM {file : Bytes} {s : Segment} (h : SegOk file s) : SegMOk file s :=
  ⟨h.tag, h.nodup, h.noRaw, Or.inl h.contig⟩

theorem SegMOk.toF {file : Bytes} {s : Segment} (h : SegMOk file s) : SegFOk file s := by
  refine ⟨h.tag, ?_⟩
  rcases h.data with hc | hi
  · exact Or.inl hc
  · exact Or.inr ⟨hi.kind, ⟨_, hi.size⟩, hi.read⟩

theorem SegsMOk.toF {file : Bytes} {segs : List Segment} (h : SegsMOk file segs) : SegsFOk file segs :=
  fun s hs => (h s hs).toF

theorem SegMOk.nodupData {file : Bytes} {s : Segment} (h : SegMOk file s) : ((dataObjs s).map (·.path)).Nodup :=
  h.nodup.sublist (List.Sublist.map _ List.filter_sublist)

/-! ## the interleaved chunk in closed form -/

/-- the columns `interleavedColumns` extracts from the rows -/
def colsOf (e : Endian) (rows : List Bytes) : Nat → List SegObj → List (List Bytes)
  | _, [] => []
  | col, o :: os =>
    (rows.map fun r => canonValue e (o.dataType.getD 0) ((r.drop col).take (objSz o))) ::
      colsOf e rows (col + objSz o) os

theorem interleavedColumns_eq_setCols (e : Endian) (rows : List Bytes) : ∀ (d : List SegObj) (col : Nat) (acc c : RawChunk),
    interleavedColumns e rows col d acc = .ok c → c = setCols acc d (colsOf e rows col d) := by
  intro d
  induction d with
  | nil =>
    intro col acc c h
    simp only [interleavedColumns, Except.ok.injEq] at h
    rw [← h]; rfl
  | cons o os ih =>
    intro col acc c h
    unfold interleavedColumns at h
    cases hsz : objSize o with
    | error x => simp [hsz, bind, Except.bind] at h
    | ok sz =>
      simp only [hsz, bind, Except.bind] at h
      have hobj : objSz o = sz := by
        unfold objSize at hsz
        unfold objSz
        cases hty : o.dataType with
        | none => rw [hty] at hsz; cases hsz
        | some ty =>
          rw [hty] at hsz
          simp only [] at hsz
          cases hts : typeSize ty with
          | none => rw [hts] at hsz; cases hsz
          | some z => rw [hts] at hsz; cases hsz; simp [hts]
      have := ih _ _ c h
      rw [this]
      simp only [colsOf, setCols, hobj]

theorem colsOf_length (e : Endian) (rows : List Bytes) : ∀ (d : List SegObj) (col : Nat),
    (colsOf e rows col d).length = d.length ∧ ∀ v ∈ colsOf e rows col d, v.length = rows.length := by
  intro d
  induction d with
  | nil => intro col; exact ⟨rfl, by intro v hv; cases hv⟩
  | cons o os ih =>
    intro col
    obtain ⟨h1, h2⟩ := ih (col + objSz o)
    refine ⟨by simp [colsOf, h1], ?_⟩
    intro v hv
    simp only [colsOf, List.mem_cons] at hv
    rcases hv with rfl | hv
    · simp
    · exact h2 v hv

theorem splitEvery_length_le (w : Nat) : ∀ (n : Nat) (b : Bytes), (splitEvery w n b).length ≤ n := by
  intro n
  induction n with
  | zero => intro b; simp [splitEvery]
  | succ n ih =>
    intro b
    unfold splitEvery
    split
    · simp
    · simp only [List.length_cons]; have := ih (b.drop w); omega

/-- what a successful interleaved read returns: nothing when the segment has no data object, else one
    chunk holding, for every data object, one column with at most `number_values · n` values -/
theorem readInterleaved_shape (file : Bytes) (s : Segment) (d : List SegObj) (n : Nat) (st st' : FState)
    (cs : List RawChunk) (h : readInterleavedChunks file s d n st = .ok (cs, st')) :
    (d = [] ∧ cs = []) ∨ ∃ cols : List (List Bytes), cs = [setCols [] d cols] ∧ cols.length = d.length ∧
      ∃ m, (∀ v ∈ cols, v.length = m) ∧ ∀ o ∈ d, m ≤ o.numberValues * n := by
  unfold readInterleavedChunks at h
  split at h
  · simp only [F_pure, Except.ok.injEq, Prod.mk.injEq] at h
    exact Or.inl ⟨rfl, h.1.symm⟩
  · rename_i o0 os
    right
    by_cases hany : ((o0 :: os).any fun x => decide (x.numberValues ≠ o0.numberValues)) = true
    · rw [if_pos hany] at h
      cases h
    · rw [if_neg hany] at h
      simp only [pure_bind] at h
      generalize hw : List.foldl _ _ (o0 :: os) = w at h
      cases w with
      | error e => cases h
      | ok w =>
        simp only [] at h
        cases hrows : readRows file w (o0.numberValues * n) st with
        | error e =>
          exfalso
          revert h
          show StateT.bind _ _ _ = _ → False
          simp [StateT.bind, hrows, bind, Except.bind]
        | ok r =>
          obtain ⟨rows, st1⟩ := r
          rw [F_bind_ok hrows] at h
          cases hcol : interleavedColumns s.endian rows 0 (o0 :: os) [] with
          | error x => simp only [hcol] at h; cases h
          | ok c =>
            simp only [hcol, F_pure, Except.ok.injEq, Prod.mk.injEq] at h
            have hc := interleavedColumns_eq_setCols _ _ _ _ _ _ hcol
            obtain ⟨hl1, hl2⟩ := colsOf_length s.endian rows (o0 :: os) 0
            refine ⟨colsOf s.endian rows 0 (o0 :: os), by rw [← h.1, hc], hl1, rows.length, hl2, ?_⟩
            -- the number of rows
            have hrl : rows.length ≤ o0.numberValues * n := by
              unfold readRows at hrows
              have hread : fRead file (w * (o0.numberValues * n)) st =
                  .ok ((file.drop st.pos).take (w * (o0.numberValues * n)),
                    ⟨st.pos + ((file.drop st.pos).take (w * (o0.numberValues * n))).length,
                      st.trace ++ [(st.pos, ((file.drop st.pos).take (w * (o0.numberValues * n))).length)]⟩) := rfl
              rw [F_bind_ok hread] at hrows
              split at hrows
              · cases hrows
              · simp only [F_pure, Except.ok.injEq, Prod.mk.injEq] at hrows
                rw [← hrows.1]
                exact splitEvery_length_le _ _ _
            intro o ho
            have : o.numberValues = o0.numberValues := by
              have hall : ∀ x ∈ o0 :: os, ¬ (x.numberValues ≠ o0.numberValues) := by
                intro x hx hne
                apply hany
                rw [List.any_eq_true]
                exact ⟨x, hx, by simpa using hne⟩
              have := hall o ho
              omega
            rw [this]
            exact hrl

/-- the lazy read of a whole interleaved segment (`num_chunks = numChunks`): the channel's entry of
    every eager chunk, after the optional empty chunk -/
theorem segReadChannel_inter (file : Bytes) (s : Segment) (p : Bytes) (h : InterOk file s) (st : FState) :
    ∃ st', segReadChannel file s p 0 (some (s.numChunks : Int)) st =
      .ok ((if !hasFlag s.toc kTocRawData then [({} : ChanChunk)] else []) ++
        (segChunksG file s).map (fun c => RawChunk.get c p), st') := by
  obtain ⟨r, hr⟩ := h.read
  obtain ⟨cs, pos'⟩ := r
  have hchunks : segChunksG file s = cs := by unfold segChunksG; rw [h.kind, hr]
  obtain ⟨tr2, h2⟩ := interRead_run hr st.trace
  unfold segReadChannel
  rw [F_bind_ok (fSeek_run _ _), h.size, F_bind_ok (liftE_ok _ _)]
  rw [if_neg (by omega)]
  simp only []
  rw [h.kind, F_bind_ok (liftE_ok _ _), F_bind_ok (fTell_run _)]
  simp only []
  rw [if_neg (by omega)]
  have hn : ((s.numChunks : Int) + ((0 : Nat) : Int) - ((0 : Nat) : Int)).toNat = s.numChunks := by omega
  rw [hn, F_bind_ok h2, hchunks]
  by_cases hemp : (!(cs.map fun c => RawChunk.get c p).isEmpty) = true
  · rw [if_pos hemp, F_bind_ok (fSeek_run _ _)]
    exact ⟨⟨s.dataPosition + segCsz s, tr2⟩, rfl⟩
  · rw [if_neg hemp]
    exact ⟨⟨pos', tr2⟩, rfl⟩

end Tdms.Proofs.C03
