import TdmsProofs.Lemmas.C08Data

/-!
# C08: one segment, then whole files

`pSegment true (writeSegment false v objs ++ rest)`, the index twin of a segment, and `pFile` on a
concatenation of written segments.  Core Lean only.
-/

namespace Tdms.Proofs.C08
open Tdms Tdms.Strict Tdms.Model.Writer Tdms.Generated Tdms.Proofs.BytesW

theorem leadin_length (b : Bool) (v m d : Nat) : (leadin b v m d).length = 28 := by
  cases b <;> simp [leadin, tagIndex, tagData]

theorem except_ok_bind {ε α β} (a : α) (f : α → Except ε β) : (Except.ok a >>= f) = f a := rfl

/-- the segment parser on a byte string whose pieces are known -/
theorem pSegment_pieces (L m D rest : Bytes) (v : Nat) (pobjs : List PObj)
    (hL : L.length = 28) (htag : L.take 4 = tagData)
    (htoc : decLE ((L.drop 4).take 4) = tocWritten)
    (hver : decLE ((L.drop 8).take 4) = v)
    (hnext : decLE ((L.drop 12).take 8) = m.length + D.length)
    (hraw : decLE ((L.drop 20).take 8) = m.length)
    (hmeta : (do let n ← u .little 4
                 pObjs .little n) m = .ok (pobjs, []))
    (hexp : expectedDataLength pobjs = D.length)
    (hchk : checkStringData .little pobjs D = true) :
    pSegment true (L ++ (m ++ (D ++ rest))) =
      .ok (⟨false, tocWritten, v, m.length + D.length, m.length, pobjs, L ++ m⟩, rest) := by
  unfold pSegment
  have h1 : StateT.run (Tdms.Strict.take 28) (L ++ (m ++ (D ++ rest))) = .ok (L, m ++ (D ++ rest)) :=
    take_ok _ hL
  have h2 : (L ++ (m ++ (D ++ rest))).drop 28 = m ++ (D ++ rest) := drop_append_of_length _ hL
  have h6 : (m ++ (D ++ rest)).drop (m.length + D.length) = rest := by
    rw [← List.drop_drop]; simp
  have h7 : (L ++ (m ++ (D ++ rest))).take (28 + m.length) = L ++ m := by
    rw [← List.append_assoc]; exact take_append_of_length _ (by simp [hL])
  have hlittle : ¬ (tocWritten / kTocBigEndian % 2 = 1) := by decide
  have htag2 : tagData ≠ tagIndex := by decide
  have h9 : StateT.run (do let n ← u .little 4
                           pObjs .little n) m = .ok (pobjs, []) := hmeta
  have hA : ¬ (m.length + (D.length + rest.length) < m.length) := by omega
  have hC : ¬ (m.length + D.length < m.length) := by omega
  simp only [h1, except_ok_bind]
  simp [except_ok_bind, htag, htoc, hver, hnext, hraw, h2, h6, h7, hlittle, htag2, h9, hchk, dec, hexp, hA, hC]
  rfl

/-! ## the lead-in, field by field -/

theorem leadin_eq (b : Bool) (v mlen dlen : Nat) :
    leadin b v mlen dlen = (if b then tagIndex else tagData) ++
      (encLE 4 tocWritten ++ (encLE 4 v ++ (encLE 8 (mlen + dlen) ++ encLE 8 mlen))) := by
  simp [leadin]

theorem tag_length (b : Bool) : (if b then tagIndex else tagData).length = 4 := by cases b <;> rfl

theorem leadin_take4 (b : Bool) (v mlen dlen : Nat) :
    (leadin b v mlen dlen).take 4 = (if b then tagIndex else tagData) := by
  rw [leadin_eq]; exact take_append_of_length _ (tag_length b)

theorem leadin_drop4 (b : Bool) (v mlen dlen : Nat) :
    (leadin b v mlen dlen).drop 4 =
      encLE 4 tocWritten ++ (encLE 4 v ++ (encLE 8 (mlen + dlen) ++ encLE 8 mlen)) := by
  rw [leadin_eq]; exact drop_append_of_length _ (tag_length b)

theorem leadin_toc (b : Bool) (v mlen dlen : Nat) :
    decLE (((leadin b v mlen dlen).drop 4).take 4) = tocWritten := by
  rw [leadin_drop4, take_encLE_append]; exact decLE_encLE_of_lt (by decide)

theorem leadin_version (b : Bool) (v mlen dlen : Nat) (hv : v < 2 ^ 32) :
    decLE (((leadin b v mlen dlen).drop 8).take 4) = v := by
  rw [show 8 = 4 + 4 from rfl, ← List.drop_drop, leadin_drop4, drop_encLE_append, take_encLE_append]
  exact decLE_encLE_of_lt (by simpa using hv)

theorem leadin_next (b : Bool) (v mlen dlen : Nat) (h : mlen + dlen < 2 ^ 64) :
    decLE (((leadin b v mlen dlen).drop 12).take 8) = mlen + dlen := by
  rw [show 12 = 4 + (4 + 4) from rfl, ← List.drop_drop, ← List.drop_drop, leadin_drop4, drop_encLE_append,
    drop_encLE_append, take_encLE_append]
  exact decLE_encLE_of_lt (by simpa using h)

theorem leadin_raw (b : Bool) (v mlen dlen : Nat) (h : mlen < 2 ^ 64) :
    decLE (((leadin b v mlen dlen).drop 20).take 8) = mlen := by
  rw [show 20 = 4 + (4 + (4 + 8)) from rfl, ← List.drop_drop, ← List.drop_drop, ← List.drop_drop, leadin_drop4,
    drop_encLE_append, drop_encLE_append, drop_encLE_append]
  rw [List.take_of_length_le (by simp)]
  exact decLE_encLE_of_lt (by simpa using h)

/-! ## C08.1 — one written segment parses to exactly what was meant -/

theorem writeSegment_data (v : Nat) (objs : List WObj) :
    writeSegment false v objs =
      leadin false v (metadata objs).length (dataSize objs) ++ (metadata objs ++ objs.flatMap objData) := by
  simp [writeSegment]

theorem writeSegment_index (v : Nat) (objs : List WObj) :
    writeSegment true v objs = leadin true v (metadata objs).length (dataSize objs) ++ metadata objs := by
  simp [writeSegment]

theorem pSegment_writeSegment (v : Nat) (objs : List WObj) (rest : Bytes) (hv : v < 2 ^ 32)
    (h : WritableObjs objs) :
    pSegment true (writeSegment false v objs ++ rest) = .ok (expectedSeg v objs, rest) := by
  obtain ⟨hn, hobjs, htot⟩ := h
  have hD := flatMap_objData_length hobjs
  rw [writeSegment_data, List.append_assoc, List.append_assoc]
  have := pSegment_pieces (leadin false v (metadata objs).length (dataSize objs)) (metadata objs)
    (objs.flatMap objData) rest v (objs.map toPObj) (leadin_length _ _ _ _) (leadin_take4 _ _ _ _)
    (leadin_toc _ _ _ _) (leadin_version _ _ _ _ hv) (by rw [hD]; exact leadin_next _ _ _ _ htot)
    (leadin_raw _ _ _ _ (by omega))
    (by have := metadata_ok objs [] hn hobjs; rwa [List.append_nil] at this)
    (by rw [hD]; exact expectedDataLength_eq objs)
    (by have := checkStringData_ok hobjs []; rwa [List.append_nil] at this)
  rw [this, hD]
  rfl

/-- the index-file segment is the data-file segment's lead-in and metadata with the tag replaced -/
theorem writeSegment_index_twin (v : Nat) (objs : List WObj) :
    writeSegment true v objs =
      tagIndex ++ (leadin false v (metadata objs).length (dataSize objs) ++ metadata objs).drop 4 := by
  rw [writeSegment_index, leadin_eq, leadin_eq]
  simp [tagData]

theorem writeSegment_index_twin' (v : Nat) (objs : List WObj) :
    writeSegment true v objs = tagIndex ++ (expectedSeg v objs).leadAndMeta.drop 4 :=
  writeSegment_index_twin v objs

/-! ## whole files: `pFile` on a concatenation of written segments -/

theorem writeSegment_ne_nil (b : Bool) (v : Nat) (objs : List WObj) : writeSegment b v objs ≠ [] := by
  intro h
  have := congrArg List.length h
  simp [writeSegment, leadin_length] at this

theorem pFile_written (v : Nat) (hv : v < 2 ^ 32) (segs : List (List WObj))
    (h : ∀ objs ∈ segs, WritableObjs objs) (fuel : Nat) (hf : segs.length ≤ fuel) :
    pFile true fuel (segs.flatMap (writeSegment false v)) = .ok (segs.map (expectedSeg v)) := by
  induction segs generalizing fuel with
  | nil => cases fuel <;> rfl
  | cons s ss ih =>
    cases fuel with
    | zero => simp at hf
    | succ k =>
      rw [List.flatMap_cons, pFile]
      have hne : (writeSegment false v s ++ ss.flatMap (writeSegment false v)).isEmpty = false := by
        cases hs : writeSegment false v s with
        | nil => exact absurd hs (writeSegment_ne_nil _ _ _)
        | cons a as => rfl
      rw [hne]
      simp only [Bool.false_eq_true, if_false]
      rw [pSegment_writeSegment v s _ hv (h s (by simp))]
      simp only [except_ok_bind]
      rw [ih (fun o ho => h o (by simp [ho])) k (by simpa using hf)]
      rfl

theorem length_le_flatMap_writeSegment (v : Nat) (segs : List (List WObj)) :
    segs.length ≤ (segs.flatMap (writeSegment false v)).length := by
  induction segs with
  | nil => simp
  | cons s ss ih =>
    have : 0 < (writeSegment false v s).length := List.length_pos_iff.mpr (writeSegment_ne_nil _ _ _)
    simp only [List.flatMap_cons, List.length_append, List.length_cons]
    omega

/-- the fuel `pFile` is given by `indexIsTwin` / `checkWritten` always suffices -/
theorem pFile_written' (v : Nat) (hv : v < 2 ^ 32) (segs : List (List WObj))
    (h : ∀ objs ∈ segs, WritableObjs objs) :
    pFile true ((segs.flatMap (writeSegment false v)).length + 1) (segs.flatMap (writeSegment false v)) =
      .ok (segs.map (expectedSeg v)) :=
  pFile_written v hv segs h _ (by have := length_le_flatMap_writeSegment v segs; omega)

/-- C08.2 on files: the index file is the twin of the data file -/
theorem indexIsTwin_written (v : Nat) (hv : v < 2 ^ 32) (segs : List (List WObj))
    (h : ∀ objs ∈ segs, WritableObjs objs) :
    indexIsTwin (segs.flatMap (writeSegment false v)) (segs.flatMap (writeSegment true v)) = .ok () := by
  unfold indexIsTwin
  rw [pFile_written' v hv segs h]
  simp only [except_ok_bind]
  have : ((segs.map (expectedSeg v)).flatMap fun s => tagIndex ++ s.leadAndMeta.drop 4) =
      segs.flatMap (writeSegment true v) := by
    rw [List.flatMap_map]
    congr 1
    funext objs
    exact (writeSegment_index_twin' v objs).symm
  rw [this]
  simp
  rfl

/-! ## the index file parses on its own -/

/-- the segment parser on an index-file segment whose pieces are known -/
theorem pSegment_index_pieces (L m rest : Bytes) (v dlen : Nat) (pobjs : List PObj)
    (hL : L.length = 28) (htag : L.take 4 = tagIndex)
    (htoc : decLE ((L.drop 4).take 4) = tocWritten)
    (hver : decLE ((L.drop 8).take 4) = v)
    (hnext : decLE ((L.drop 12).take 8) = m.length + dlen)
    (hraw : decLE ((L.drop 20).take 8) = m.length)
    (hmeta : (do let n ← u .little 4
                 pObjs .little n) m = .ok (pobjs, []))
    (hexp : expectedDataLength pobjs = dlen) :
    pSegment false (L ++ (m ++ rest)) =
      .ok (⟨true, tocWritten, v, m.length + dlen, m.length, pobjs, L ++ m⟩, rest) := by
  unfold pSegment
  have h1 : StateT.run (Tdms.Strict.take 28) (L ++ (m ++ rest)) = .ok (L, m ++ rest) :=
    take_ok _ hL
  have h2 : (L ++ (m ++ rest)).drop 28 = m ++ rest := drop_append_of_length _ hL
  have h7 : (L ++ (m ++ rest)).take (28 + m.length) = L ++ m := by
    rw [← List.append_assoc]; exact take_append_of_length _ (by simp [hL])
  have hlittle : ¬ (tocWritten / kTocBigEndian % 2 = 1) := by decide
  have htag2 : tagIndex ≠ tagData := by decide
  have h9 : StateT.run (do let n ← u .little 4
                           pObjs .little n) m = .ok (pobjs, []) := hmeta
  have hA : ¬ (m.length + rest.length < m.length) := by omega
  have hC : ¬ (m.length + dlen < m.length) := by omega
  simp only [h1, except_ok_bind]
  simp [except_ok_bind, htag, htoc, hver, hnext, hraw, h2, h7, hlittle, htag2, h9, dec, hexp, hA, hC]
  rfl

/-- the parse of the index-file segment written for `objs` -/
def expectedIndexSeg (version : Nat) (objs : List WObj) : PSeg :=
  { expectedSeg version objs with isIndex := true, leadAndMeta := writeSegment true version objs }

theorem pSegment_index (v : Nat) (objs : List WObj) (rest : Bytes) (hv : v < 2 ^ 32)
    (h : WritableObjs objs) :
    pSegment false (writeSegment true v objs ++ rest) =
      .ok (expectedIndexSeg v objs, rest) := by
  obtain ⟨hn, hobjs, htot⟩ := h
  rw [writeSegment_index, List.append_assoc]
  rw [pSegment_index_pieces (leadin true v (metadata objs).length (dataSize objs)) (metadata objs)
    rest v (dataSize objs) (objs.map toPObj) (leadin_length _ _ _ _) (leadin_take4 _ _ _ _)
    (leadin_toc _ _ _ _) (leadin_version _ _ _ _ hv) (leadin_next _ _ _ _ htot)
    (leadin_raw _ _ _ _ (by omega))
    (by have := metadata_ok objs [] hn hobjs; rwa [List.append_nil] at this)
    (expectedDataLength_eq objs)]
  simp only [expectedIndexSeg, expectedSeg, writeSegment_index]

theorem pFile_index_written (v : Nat) (hv : v < 2 ^ 32) (segs : List (List WObj))
    (h : ∀ objs ∈ segs, WritableObjs objs) (fuel : Nat) (hf : segs.length ≤ fuel) :
    pFile false fuel (segs.flatMap (writeSegment true v)) = .ok (segs.map (expectedIndexSeg v)) := by
  induction segs generalizing fuel with
  | nil => cases fuel <;> rfl
  | cons s ss ih =>
    cases fuel with
    | zero => simp at hf
    | succ k =>
      rw [List.flatMap_cons, pFile]
      have hne : (writeSegment true v s ++ ss.flatMap (writeSegment true v)).isEmpty = false := by
        cases hs : writeSegment true v s with
        | nil => exact absurd hs (writeSegment_ne_nil _ _ _)
        | cons a as => rfl
      rw [hne]
      simp only [Bool.false_eq_true, if_false]
      rw [pSegment_index v s _ hv (h s (by simp))]
      simp only [except_ok_bind]
      rw [ih (fun o ho => h o (by simp [ho])) k (by simpa using hf)]
      rfl

end Tdms.Proofs.C08
