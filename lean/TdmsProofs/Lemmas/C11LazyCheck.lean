/-
  C11 (lazy DAQmx) — executable checkers for `SegsDOk`, with soundness proofs.  Core Lean only.
-/
import TdmsProofs.Lemmas.C11LazyWin
import TdmsProofs.Lemmas.C03Check

namespace Tdms.Proofs.C11Lazy

open Tdms Tdms.Generated Tdms.Model Tdms.Proofs.Bytes Tdms.Proofs.C03 Tdms.Proofs.C04

def daqOkB (file : Bytes) (s : Segment) : Bool :=
  (match dataReaderKind s with
    | .ok .daqmx => true
    | _ => false) &&
  (match chunkSize s.objects with
    | .ok _ => true
    | .error _ => false) &&
  (List.range s.numChunks).all fun ci =>
    match daqChunkAt file s ci with
    | .ok (_, e) => decide (ci + 1 < s.numChunks → e = s.dataPosition + (ci + 1) * segCsz s)
    | .error _ => false

theorem daqOkB_sound {file : Bytes} {s : Segment} (h : daqOkB file s = true) : DaqOk file s := by
  unfold daqOkB at h
  simp only [Bool.and_eq_true, List.all_eq_true, List.mem_range] at h
  obtain ⟨⟨h1, h2⟩, h3⟩ := h
  refine ⟨?_, ?_, ?_⟩
  · cases hk : dataReaderKind s with
    | error e => rw [hk] at h1; cases h1
    | ok k => cases k <;> simp_all
  · unfold segCsz
    cases hc : chunkSize s.objects with
    | error e => rw [hc] at h2; cases h2
    | ok c => rfl
  · intro ci hci
    have := h3 ci hci
    cases hd : daqChunkAt file s ci with
    | error e => rw [hd] at this; cases this
    | ok r =>
      obtain ⟨c, e⟩ := r
      rw [hd] at this
      exact ⟨c, e, rfl, of_decide_eq_true this⟩

def daqChanOkB (file : Bytes) (s : Segment) (p : Bytes) (id : Nat) : Bool :=
  daqOkB file s &&
  (List.range s.numChunks).all fun j =>
    decide (((daqChunk file s j).map (·.1)).Nodup) &&
    decide (ScChunk id ((layoutOf p s).chunkLen j) (RawChunk.get (daqChunk file s j) p))

theorem daqChanOkB_sound {file : Bytes} {s : Segment} {p : Bytes} {id : Nat} (h : daqChanOkB file s p id = true) :
    DaqChanOk file s p id := by
  unfold daqChanOkB at h
  simp only [Bool.and_eq_true, List.all_eq_true, List.mem_range, decide_eq_true_eq] at h
  exact ⟨daqOkB_sound h.1, fun j hj => (h.2 j hj).1, fun j hj => (h.2 j hj).2⟩

def segDOkB (file : Bytes) (s : Segment) (p : Bytes) (id : Nat) : Bool :=
  decide ((file.drop s.position).take 4 = tagData) &&
  (hasFlag s.toc kTocRawData || decide (s.numChunks = 0)) &&
  ((decide ((layoutOf p s).cs = 0) && decide (streamSc (segEager file s) p id = [])) ||
   (decide ((layoutOf p s).cs ≠ 0) && daqChanOkB file s p id))

theorem segDOkB_sound {file : Bytes} {s : Segment} {p : Bytes} {id : Nat} (h : segDOkB file s p id = true) :
    SegDOk file s p id := by
  unfold segDOkB at h
  simp only [Bool.and_eq_true, Bool.or_eq_true, decide_eq_true_eq] at h
  obtain ⟨⟨h1, h2⟩, h3⟩ := h
  refine ⟨h1, ?_, ?_⟩
  · intro hr
    rcases h2 with h2 | h2
    · rw [hr] at h2; cases h2
    · exact h2
  · rcases h3 with ⟨a, b⟩ | ⟨a, b⟩
    · exact Or.inl ⟨a, b⟩
    · exact Or.inr ⟨a, daqChanOkB_sound b⟩

def segsDOkB (file : Bytes) (segs : List Segment) (p : Bytes) (id : Nat) : Bool := segs.all fun s => segDOkB file s p id

theorem segsDOkB_sound {file : Bytes} {segs : List Segment} {p : Bytes} {id : Nat} (h : segsDOkB file segs p id = true) :
    SegsDOk file segs p id := by
  intro s hs
  exact segDOkB_sound (List.all_eq_true.mp h s hs)

/-- the eager read succeeds, `SegsDOk` holds for every listed scaler id, `ChanOk` holds, the channel has a type -/
def checkD (file : Bytes) (p : Bytes) (ids : List Nat) : Bool :=
  match readFile file with
  | .ok r => (ids.all fun id => segsDOkB file r.state.segments p id) && chanOkB r.state.objects r.state.segments p &&
      ((r.state.objects.get p).map (·.dataType.isSome) == some true)
  | .error _ => false

theorem checkD_sound {file : Bytes} {p : Bytes} {ids : List Nat} (h : checkD file p ids = true) :
    ∃ r m, readFile file = .ok r ∧ (∀ id ∈ ids, SegsDOk file r.state.segments p id) ∧
      ChanOk r.state.objects r.state.segments p m ∧ m.dataType.isSome = true := by
  unfold checkD at h
  cases hr : readFile file with
  | error e => rw [hr] at h; cases h
  | ok r =>
    rw [hr] at h
    simp only [Bool.and_eq_true, List.all_eq_true, beq_iff_eq] at h
    obtain ⟨⟨h1, h2⟩, h3⟩ := h
    obtain ⟨m, hm⟩ := chanOkB_sound h2
    refine ⟨r, m, rfl, fun id hid => segsDOkB_sound (h1 id hid), hm, ?_⟩
    rw [hm.get] at h3
    simpa using h3

end Tdms.Proofs.C11Lazy
