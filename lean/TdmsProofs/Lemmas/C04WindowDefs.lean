import Tdms.Model.Lazy

/-!
# C04 (windows): definitions

Abstract description of one channel's layout (`SegL`), the channel's full value array built from
abstract chunk contents, and a *pure* version of `TdmsReader.read_raw_data_for_channel`
(`windowPureG`, `windowPure`) that runs the model's own `buildIndex`, `searchRight`, `searchLeft`,
`cumsumFrom`, `segPlan` and `trimStream`; only the I/O call `segReadChannel` is replaced by a chunk
supplier.  Core Lean only.
-/

namespace Tdms.Proofs.C04

open Tdms Tdms.Model

/-- layout of one channel in one segment -/
structure SegL where
  /-- values per chunk; `0` = channel absent from the segment / has no data in it -/
  cs : Nat
  /-- number of chunks of the segment -/
  k : Nat
  /-- `final_chunk_lengths_override.get(path, 0)` when the segment's final chunk is truncated;
      `none` = no override -/
  f : Option Nat
deriving Repr, DecidableEq, Inhabited

/-- number of values of the channel in chunk `j` of the segment -/
def SegL.chunkLen (l : SegL) (j : Nat) : Nat :=
  match l.f with
  | some n => if j + 1 = l.k then n else l.cs
  | none => l.cs

/-- number of values of the channel in the segment (`_number_of_segment_values`) -/
def SegL.nvals (l : SegL) : Nat :=
  if l.cs = 0 then 0
  else match l.f with
    | none => l.cs * l.k
    | some n => l.cs * (l.k - 1) + n

/-- a truncated final chunk holds at most a full chunk, and a segment with a truncated chunk has
    at least one chunk -/
def SegL.WF (l : SegL) : Prop :=
  match l.f with
  | none => True
  | some n => n ≤ l.cs ∧ 0 < l.k

instance (l : SegL) : Decidable l.WF := by
  unfold SegL.WF; split <;> infer_instance

def WellFormed (L : List SegL) : Prop := ∀ l ∈ L, l.WF

instance (L : List SegL) : Decidable (WellFormed L) := by
  unfold WellFormed; infer_instance

/-- total number of values of the channel -/
def total (L : List SegL) : Nat := (L.map SegL.nvals).sum

/-- abstract chunk contents: `vals s j` are the channel's values in chunk `j` of segment `s` -/
abbrev Vals := Nat → Nat → List Bytes

/-- every chunk has the length the layout says -/
def ValsOk (L : List SegL) (vals : Vals) : Prop :=
  ∀ s l, L[s]? = some l → ∀ j, j < l.k → (vals s j).length = l.chunkLen j

/-- the channel's values in one segment: chunks `0 … k-1` (nothing when the channel has no data) -/
def segVals (l : SegL) (v : Nat → List Bytes) : List Bytes :=
  if l.cs = 0 then [] else ((List.range l.k).map v).flatten

/-- concatenation over segments `i, i+1, …` -/
def fullFrom (vals : Vals) : Nat → List SegL → List Bytes
  | _, [] => []
  | i, l :: ls => segVals l (vals i) ++ fullFrom vals (i + 1) ls

/-- the channel's full array: concatenation over segments (with `cs ≠ 0`) and chunks `j < k` -/
def full (L : List SegL) (vals : Vals) : List Bytes := fullFrom vals 0 L

/-! ## from real segments to layouts and back -/

/-- the layout of channel `p` in a segment of the model, exactly as `segPlan` / `_build_index` see it -/
def layoutOf (p : Bytes) (s : Segment) : SegL :=
  { cs := match getSegmentObject s p with
      | some o => if o.hasData then o.numberValues else 0
      | none => 0
    k := s.numChunks
    f := s.override.map fun ov => overrideGet ov p }

/-- a `Segment` record of the model with the given layout for channel `p` (positions irrelevant) -/
def SegL.toSegment (p : Bytes) (l : SegL) : Segment :=
  { position := 0, toc := 0, nextSegmentPos := 0, dataPosition := 0, incomplete := false
    objects := if l.cs = 0 then [] else [{ path := p, numberValues := l.cs, hasData := true }]
    numChunks := l.k
    override := l.f.map fun n => [(p, n)] }

/-! ## the pure window -/

/-- what the segment reads return: `sup s chunkOffset numChunks` -/
abbrev Supplier := Nat → Nat → Int → List ChanChunk

/-- chunks `chunkOffset, …, chunkOffset + numChunks - 1` of segment `s` (none for `numChunks ≤ 0`) -/
def supOf (vals : Vals) : Supplier := fun s co nc =>
  (List.range' co nc.toNat).map fun j => ({ data := some (vals s j) } : ChanChunk)

/-- `windowLoop` with `verifySegmentStart; segReadChannel … s p chunkOffset (some numChunks)`
    replaced by the supplier -/
def windowLoopPure (sup : Supplier) (p : Bytes) (ix : ChannelIndex) (offset endIndex length : Int)
    (startSeg endSeg : Nat) : List Segment → Nat → Int → List ChanChunk
  | [], _, _ => []
  | s :: rest, segIndex, valuesRead =>
    match segPlan p ix offset endIndex startSeg endSeg segIndex s with
    | none => windowLoopPure sup p ix offset endIndex length startSeg endSeg rest (segIndex + 1) valuesRead
    | some (chunkOffset, skip, numChunks) =>
      let chunks := sup segIndex chunkOffset.toNat numChunks
      let r := trimStream length chunks skip.toNat valuesRead
      r.1 ++ windowLoopPure sup p ix offset endIndex length startSeg endSeg rest (segIndex + 1) r.2

/-- the parameters `read_raw_data_for_channel` computes before its loop -/
structure WindowParams where
  ix : ChannelIndex
  len : Int
  endIndex : Int
  startSeg : Nat
  endSeg : Nat
deriving Repr, DecidableEq

def windowParams (segs : List Segment) (p : Bytes) (numValues : Nat) (offset : Int) (length : Option Int) :
    WindowParams :=
  let ix := buildIndex segs p
  let numValues : Int := numValues
  let maxLen := numValues - offset
  let len : Int := match length with
    | none => maxLen
    | some l => min l maxLen
  let endIndex := offset + len
  { ix := ix, len := len, endIndex := endIndex
    startSeg := ix.firstSegment + searchRight ix.offsets offset
    endSeg := ix.firstSegment + searchLeft ix.offsets endIndex }

/-- `readRawDataForChannel` on real `Segment` records, with the segment reads replaced by `sup`;
    `numValues` is `object_metadata[path].num_values` -/
def windowPureG (segs : List Segment) (p : Bytes) (numValues : Nat) (sup : Supplier) (offset : Int)
    (length : Option Int) : List ChanChunk :=
  let w := windowParams segs p numValues offset length
  let segs' := (segs.drop w.startSeg).take (w.endSeg + 1 - w.startSeg)
  windowLoopPure sup p w.ix offset w.endIndex w.len w.startSeg w.endSeg segs' w.startSeg 0

/-- the path used when a layout is instantiated as model segments -/
def chanPath : Bytes := [0x2f]

/-- the pure window on an abstract layout: the model's arithmetic on `Segment`s instantiated from `L` -/
def windowPure (L : List SegL) (vals : Vals) (offset : Int) (length : Option Int) : List ChanChunk :=
  windowPureG (L.map (SegL.toSegment chanPath)) chanPath (total L) (supOf vals) offset length

/-- the values carried by a list of chunks, concatenated -/
def dataOf (cs : List ChanChunk) : List Bytes := (cs.map fun c => c.data.getD []).flatten

/-- `take` with Python's `None` -/
def takeOpt (length : Option Int) (xs : List Bytes) : List Bytes :=
  match length with
  | none => xs
  | some l => xs.take l.toNat

end Tdms.Proofs.C04
