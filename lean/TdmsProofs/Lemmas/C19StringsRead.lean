import TdmsProofs.Lemmas.C19Bytes
import TdmsProofs.Lemmas.DataLemmas

/-!
# C19Strings: the I/O trace of `String.read_values`

`readStringValues file e n` reads `n` offsets (4 bytes each) and then `n` strings, the `i`-th of
`offset[i] - offset[i-1]` bytes (`file.read(-1)` = the rest of the file when that is negative).

* On an ENCODED string run (`encObjValues e tyString vals`) the trace is known exactly
  (`readValues_string_trace`): `offsetReads` followed by `stringReads`, all inside the run.
* On ARBITRARY bytes the reads stay inside `[a, a + 4n + m)` when the offset table found in the file is
  non-decreasing and ends at or below `m` (`spanAt_readValues_string_table`); nothing can be said
  otherwise (`Properties/C19Strings.lean` has the counter-example).

Core Lean only.
-/

namespace Tdms.Proofs.C19S

open Tdms Tdms.Model Tdms.Generated Tdms.Proofs.C05 Tdms.Proofs.C19
open Tdms.Proofs.Bytes (F_bind_ok F_pure drop_add_of_drop_eq fRead_of_drop enc_length dec_enc_of_lt
  cumOffsets_length cumOffsets_le typeInfo_tyString)

/-- started at position `a`, the reader `m` reads only inside `[a, a + n)` and at most `n` bytes -/
def SpanAt {α : Type} (a n : Nat) (m : F α) : Prop :=
  Tr (fun c => c = a) m (fun x => a ≤ x.1 ∧ x.1 + x.2 ≤ a + n) n (fun _ _ => True)

theorem SpanAt.of_span {α : Type} {m : F α} {n : Nat} (h : Span n m) (a : Nat) : SpanAt a n m :=
  (h a).conseq (fun _ h => h) (fun _ h => h) (Nat.le_refl _) (fun _ _ _ => trivial)

theorem SpanAt.mono {α : Type} {m : F α} {a n n' : Nat} (h : SpanAt a n m) (hn : n ≤ n') : SpanAt a n' m :=
  h.conseq (fun _ h => h) (fun x hx => ⟨hx.1, by omega⟩) hn (fun _ _ h => h)

/-- a run whose outcome is known: `Tr` can be read off -/
theorem tr_of_run {α : Type} {m : F α} {a : Nat} {A : Nat × Nat → Prop} {B : Nat} (l : List (Nat × Nat))
    (hrun : ∀ tr, ∃ v pos', m ⟨a, tr⟩ = .ok (v, ⟨pos', tr ++ l⟩)) (hA : ∀ x ∈ l, A x) (hB : traceBytes l ≤ B) :
    Tr (fun c => c = a) m A B (fun _ _ => True) := by
  intro s hs v s' hm
  obtain ⟨v', pos', h⟩ := hrun s.trace
  have hs' : s = ⟨a, s.trace⟩ := by
    cases s with
    | mk p t =>
      have hs : p = a := hs
      subst hs
      rfl
  rw [hs'] at hm
  rw [h] at hm
  injection hm with hm
  simp only [Prod.mk.injEq] at hm
  refine ⟨trivial, l, ?_, hA, hB⟩
  rw [← hm.2]

/-! ## the exact trace on an encoded string run -/

/-- the reads of the offset table: `n` reads of 4 bytes from `c` -/
def offsetReads (c : Nat) : Nat → List (Nat × Nat)
  | 0 => []
  | k + 1 => (c, 4) :: offsetReads (c + 4) k

/-- the reads of the characters: one read per string, back to back from `c` -/
def stringReads (c : Nat) : List Bytes → List (Nat × Nat)
  | [] => []
  | v :: vs => (c, v.length) :: stringReads (c + v.length) vs

theorem offsetReads_inside (c n : Nat) : ∀ x ∈ offsetReads c n, c ≤ x.1 ∧ x.1 + x.2 ≤ c + 4 * n := by
  induction n generalizing c with
  | zero => intro x hx; cases hx
  | succ k ih =>
    intro x hx
    simp only [offsetReads, List.mem_cons] at hx
    rcases hx with rfl | hx
    · simp only; omega
    · have := ih (c + 4) x hx; omega

theorem offsetReads_bytes (c n : Nat) : traceBytes (offsetReads c n) = 4 * n := by
  induction n generalizing c with
  | zero => rfl
  | succ k ih =>
    have : offsetReads c (k + 1) = [(c, 4)] ++ offsetReads (c + 4) k := rfl
    rw [this, traceBytes_append, traceBytes_singleton, ih]; omega

theorem stringReads_inside (c : Nat) (vals : List Bytes) :
    ∀ x ∈ stringReads c vals, c ≤ x.1 ∧ x.1 + x.2 ≤ c + vals.flatten.length := by
  induction vals generalizing c with
  | nil => intro x hx; cases hx
  | cons v vs ih =>
    intro x hx
    simp only [stringReads, List.mem_cons] at hx
    simp only [List.flatten_cons, List.length_append]
    rcases hx with rfl | hx
    · simp only; omega
    · have := ih (c + v.length) x hx; omega

theorem stringReads_bytes (c : Nat) (vals : List Bytes) : traceBytes (stringReads c vals) = vals.flatten.length := by
  induction vals generalizing c with
  | nil => rfl
  | cons v vs ih =>
    have : stringReads c (v :: vs) = [(c, v.length)] ++ stringReads (c + v.length) vs := rfl
    rw [this, traceBytes_append, traceBytes_singleton, ih]
    simp only [List.flatten_cons, List.length_append]

theorem offsets_trace (file : Bytes) (e : Endian) (offs : List Nat) (h : ∀ o ∈ offs, o < 2 ^ 32)
    (st : FState) (rest : Bytes) (hf : file.drop st.pos = offs.flatMap (enc e 4) ++ rest) :
    readStringValues.offsets file e offs.length st =
        .ok (offs, ⟨st.pos + 4 * offs.length, st.trace ++ offsetReads st.pos offs.length⟩) ∧
      file.drop (st.pos + 4 * offs.length) = rest := by
  induction offs generalizing st with
  | nil =>
    refine ⟨?_, by simpa using hf⟩
    simp only [List.length_nil, readStringValues.offsets, offsetReads, Nat.mul_zero, Nat.add_zero, List.append_nil]
    rfl
  | cons o os ih =>
    have hf' : file.drop st.pos = enc e 4 o ++ (os.flatMap (enc e 4) ++ rest) := by
      simpa [List.flatMap_cons] using hf
    have hr := fRead_of_drop hf'
    rw [enc_length] at hr
    have hd := drop_add_of_drop_eq hf'
    rw [enc_length] at hd
    obtain ⟨h1, h2⟩ := ih (fun x hx => h x (List.mem_cons_of_mem _ hx))
      ⟨st.pos + 4, st.trace ++ [(st.pos, 4)]⟩ hd
    refine ⟨?_, ?_⟩
    · simp only [List.length_cons, readStringValues.offsets]
      rw [F_bind_ok hr]
      simp only [enc_length, Nat.lt_irrefl, if_false]
      rw [F_bind_ok h1]
      have : dec e (enc e 4 o) = o :=
        dec_enc_of_lt e (w := 4) (h o List.mem_cons_self)
      simp only [F_pure, this, offsetReads, List.append_assoc, List.singleton_append]
      congr 3
      omega
    · rw [← h2]; congr 1; simp only [List.length_cons]; omega

theorem strings_trace (file : Bytes) (vals : List Bytes) (prev : Nat) (st : FState) (rest : Bytes)
    (hf : file.drop st.pos = vals.flatten ++ rest) :
    readStringValues.strings file prev (cumOffsets prev vals) st =
        .ok (vals, ⟨st.pos + vals.flatten.length, st.trace ++ stringReads st.pos vals⟩) := by
  induction vals generalizing st prev with
  | nil =>
    simp only [cumOffsets, readStringValues.strings, stringReads, List.flatten_nil, List.length_nil, Nat.add_zero,
      List.append_nil]
    rfl
  | cons v vs ih =>
    have hf' : file.drop st.pos = v ++ (vs.flatten ++ rest) := by simpa using hf
    have hr := fRead_of_drop hf'
    have hd := drop_add_of_drop_eq hf'
    have h1 := ih (prev + v.length) ⟨st.pos + v.length, st.trace ++ [(st.pos, v.length)]⟩ hd
    simp only [cumOffsets, readStringValues.strings]
    have hlt : ¬ prev + v.length < prev := by omega
    simp only [if_neg hlt, Nat.add_sub_cancel_left]
    rw [F_bind_ok hr, F_bind_ok h1]
    simp only [F_pure, List.flatten_cons, List.length_append, stringReads, List.append_assoc, List.singleton_append]
    congr 3
    omega

/-- the reads of one encoded string run of `vals` that starts at `c` -/
def stringRunReads (c : Nat) (vals : List Bytes) : List (Nat × Nat) :=
  offsetReads c vals.length ++ stringReads (c + 4 * vals.length) vals

theorem stringRunReads_inside (c : Nat) (vals : List Bytes) :
    ∀ x ∈ stringRunReads c vals, c ≤ x.1 ∧ x.1 + x.2 ≤ c + (4 * vals.length + vals.flatten.length) := by
  intro x hx
  rcases List.mem_append.1 hx with h | h
  · have := offsetReads_inside c vals.length x h; omega
  · have := stringReads_inside (c + 4 * vals.length) vals x h; omega

theorem stringRunReads_bytes (c : Nat) (vals : List Bytes) :
    traceBytes (stringRunReads c vals) = 4 * vals.length + vals.flatten.length := by
  unfold stringRunReads
  rw [traceBytes_append, offsetReads_bytes, stringReads_bytes]

/-- **the exact trace of reading an encoded string run**: `n` reads of 4 bytes (the offset table) and
    then one read per string, back to back — `4n + Σ len` bytes, each byte of the run exactly once -/
theorem readStringValues_trace (file : Bytes) (e : Endian) (vals : List Bytes) (pos : Nat)
    (tr : List (Nat × Nat)) (rest : Bytes) (hlen : vals.flatten.length < 2 ^ 32)
    (hfile : file.drop pos = encObjValues e tyString vals ++ rest) :
    readStringValues file e vals.length ⟨pos, tr⟩ =
      .ok (vals, ⟨pos + (4 * vals.length + vals.flatten.length), tr ++ stringRunReads pos vals⟩) := by
  have henc : encObjValues e tyString vals =
      (cumOffsets 0 vals).flatMap (enc e 4) ++ vals.flatten := by simp [encObjValues]
  rw [henc, List.append_assoc] at hfile
  have hb : ∀ o ∈ cumOffsets 0 vals, o < 2 ^ 32 := by
    intro o ho; have := cumOffsets_le 0 vals o ho; omega
  obtain ⟨h1, h2⟩ := offsets_trace file e (cumOffsets 0 vals) hb ⟨pos, tr⟩ _ hfile
  rw [cumOffsets_length] at h1 h2
  have h3 := strings_trace file vals 0 ⟨pos + 4 * vals.length, tr ++ offsetReads pos vals.length⟩ rest h2
  unfold readStringValues
  rw [F_bind_ok h1, h3]
  simp only [stringRunReads, List.append_assoc, Nat.add_assoc]

theorem readValues_string_trace (file : Bytes) (e : Endian) (o : SegObj) (vals : List Bytes) (pos : Nat)
    (tr : List (Nat × Nat)) (rest : Bytes) (hty : o.dataType = some tyString)
    (hlen : vals.flatten.length < 2 ^ 32)
    (hfile : file.drop pos = encObjValues e tyString vals ++ rest) :
    readValues file e o vals.length ⟨pos, tr⟩ =
      .ok (vals, ⟨pos + (4 * vals.length + vals.flatten.length), tr ++ stringRunReads pos vals⟩) := by
  rw [← readStringValues_trace file e vals pos tr rest hlen hfile]
  unfold readValues
  simp only [hty, typeInfo_tyString, if_true]

/-- reading an encoded string run stays inside the run -/
theorem spanAt_readValues_string (file : Bytes) (e : Endian) (o : SegObj) (vals : List Bytes) (pos : Nat)
    (rest : Bytes) (hty : o.dataType = some tyString) (hlen : vals.flatten.length < 2 ^ 32)
    (hfile : file.drop pos = encObjValues e tyString vals ++ rest) :
    SpanAt pos (4 * vals.length + vals.flatten.length) (readValues file e o vals.length) :=
  tr_of_run (stringRunReads pos vals)
    (fun tr => ⟨_, _, readValues_string_trace file e o vals pos tr rest hty hlen hfile⟩)
    (stringRunReads_inside pos vals) (Nat.le_of_eq (stringRunReads_bytes pos vals))

/-! ## arbitrary bytes: the offset table decides -/

/-- the `n` offsets `readStringValues` finds at position `a` (4-byte fields, cropped at the end of the file) -/
def tableAt (file : Bytes) (e : Endian) (a : Nat) : Nat → List Nat
  | 0 => []
  | k + 1 => dec e ((file.drop a).take 4) :: tableAt file e (a + 4) k

/-- non-decreasing, starting from `prev` -/
def MonoFrom : Nat → List Nat → Prop
  | _, [] => True
  | prev, o :: os => prev ≤ o ∧ MonoFrom o os

instance : ∀ (prev : Nat) (os : List Nat), Decidable (MonoFrom prev os)
  | _, [] => isTrue trivial
  | prev, o :: os => by
    unfold MonoFrom
    have := instDecidableMonoFrom o os
    infer_instance

/-- the last offset (`prev` for an empty table) -/
def lastFrom : Nat → List Nat → Nat
  | prev, [] => prev
  | _, o :: os => lastFrom o os

theorem lastFrom_ge (prev : Nat) (os : List Nat) (h : MonoFrom prev os) : prev ≤ lastFrom prev os := by
  induction os generalizing prev with
  | nil => exact Nat.le_refl _
  | cons o os ih => exact Nat.le_trans h.1 (ih o h.2)

/-- the offsets are read by `n` sequential 4-byte reads and are the table found in the file -/
theorem tr_offsets (file : Bytes) (e : Endian) (n c : Nat) :
    Tr (fun c' => c' = c) (readStringValues.offsets file e n)
      (fun x => c ≤ x.1 ∧ x.1 + x.2 ≤ c + 4 * n) (4 * n)
      (fun offs c' => offs = tableAt file e c n ∧ c' = c + 4 * n) := by
  induction n generalizing c with
  | zero =>
    unfold readStringValues.offsets
    exact Tr.pure _ (fun c' h => ⟨rfl, by omega⟩)
  | succ k ih =>
    unfold readStringValues.offsets
    refine Tr.bind (B1 := 4) (B2 := 4 * k)
      (Q := fun b c' => b = (file.drop c).take 4 ∧ (b.length = 4 → c' = c + 4)) ?_ (fun b => ?_) (by omega)
    · intro s hs b s' hrun
      have hrun' : (Except.ok ((file.drop s.pos).take 4,
          { pos := s.pos + ((file.drop s.pos).take 4).length,
            trace := s.trace ++ [(s.pos, ((file.drop s.pos).take 4).length)] }) : Except Err (Bytes × FState)) =
          .ok (b, s') := hrun
      injection hrun' with hrun'
      simp only [Prod.mk.injEq] at hrun'
      obtain ⟨rfl, rfl⟩ := hrun'
      have hs : s.pos = c := hs
      have hl : ((file.drop s.pos).take 4).length ≤ 4 := by simp [List.length_take]; omega
      refine ⟨⟨by rw [hs], fun h => by rw [h]; show s.pos + 4 = c + 4; rw [hs]⟩, [_], rfl, ?_, ?_⟩
      · intro x hx
        simp only [List.mem_singleton] at hx
        subst hx
        simp only
        omega
      · simpa using hl
    · refine Tr.ite (fun _ => ?_) (fun hb => ?_)
      · rw [throw_bind_F]; exact Tr.throw _
      · apply Tr.of_forall_pos
        rintro c1 ⟨hb1, hb2⟩
        have hlen : b.length = 4 := by
          have : b.length ≤ 4 := by rw [hb1]; simp [List.length_take]; omega
          omega
        have hc1 := hb2 hlen
        subst hc1
        refine Tr.bind (B1 := 4 * k) (B2 := 0)
          (Q := fun rest c' => rest = tableAt file e (c + 4) k ∧ c' = c + 4 + 4 * k)
          ((ih (c + 4)).conseq (fun _ h => h) (fun x hx => ⟨by omega, by omega⟩) (Nat.le_refl _) (fun _ _ h => h))
          (fun rest => ?_) (by omega)
        exact Tr.pure _ (fun c' h => ⟨by rw [h.1, hb1]; rfl, by omega⟩)

/-- with a non-decreasing table the strings are read forward, `lastFrom − prev` bytes at most -/
theorem span_strings (file : Bytes) (prev : Nat) (os : List Nat) (h : MonoFrom prev os) :
    Span (lastFrom prev os - prev) (readStringValues.strings file prev os) := by
  induction os generalizing prev with
  | nil => unfold readStringValues.strings; exact Span.pure _ _
  | cons o os ih =>
    unfold readStringValues.strings
    have h1 : prev ≤ o := h.1
    have h2 := lastFrom_ge o os h.2
    rw [if_neg (by omega)]
    refine Span.bind (a := o - prev) (b := lastFrom o os - o) (Span.fRead file (o - prev)) (fun s => ?_) ?_
    · exact Span.bind (b := 0) (ih o h.2) (fun _ => Span.pure _ 0) (Nat.le_refl _)
    · show o - prev + (lastFrom o os - o) ≤ lastFrom o os - prev
      omega

/-- **arbitrary bytes**: if the offset table found at `a` is non-decreasing and its last entry is at most
    `m`, `readStringValues` started at `a` stays inside `[a, a + 4n + m)` -/
theorem spanAt_readStringValues_table (file : Bytes) (e : Endian) (a n m : Nat)
    (hmono : MonoFrom 0 (tableAt file e a n)) (hlast : lastFrom 0 (tableAt file e a n) ≤ m) :
    SpanAt a (4 * n + m) (readStringValues file e n) := by
  unfold readStringValues
  refine Tr.bind (B1 := 4 * n) (B2 := m) (Q := fun offs c' => offs = tableAt file e a n ∧ c' = a + 4 * n)
    ((tr_offsets file e n a).conseq (fun _ h => h) (fun x hx => ⟨hx.1, by omega⟩) (Nat.le_refl _) (fun _ _ h => h))
    (fun offs => ?_) (Nat.le_refl _)
  apply Tr.of_forall_pos
  rintro c ⟨rfl, rfl⟩
  have := span_strings file 0 _ hmono (a + 4 * n)
  exact this.conseq (fun _ h => h) (fun x hx => ⟨by omega, by omega⟩) (by omega) (fun _ _ _ => trivial)

theorem spanAt_readValues_string_table (file : Bytes) (e : Endian) (o : SegObj) (a n m : Nat)
    (hty : o.dataType = some tyString)
    (hmono : MonoFrom 0 (tableAt file e a n)) (hlast : lastFrom 0 (tableAt file e a n) ≤ m) :
    SpanAt a (4 * n + m) (readValues file e o n) := by
  have : readValues file e o n = readStringValues file e n := by
    unfold readValues
    simp only [hty, typeInfo_tyString, if_true]
  rw [this]
  exact spanAt_readStringValues_table file e a n m hmono hlast

end Tdms.Proofs.C19S
