import TdmsProofs.Lemmas.C04WindowList

/-!
# C04 (windows): one segment

Streaming the chunk run `[co, co+n)` of one segment through `trimStream` yields the intersection of
the segment's values with the window, provided the run satisfies a handful of inequalities (which
`C04WindowPlan.lean` derives from `segPlan`).  Core Lean only.
-/

namespace Tdms.Proofs.C04

open Tdms Tdms.Model

/-- every chunk of the segment has the length the layout says -/
def ChunksOk (l : SegL) (v : Nat → List Bytes) : Prop := ∀ j, j < l.k → (v j).length = l.chunkLen j

theorem chunkLen_of_not_last (l : SegL) (j : Nat) (h : j + 1 < l.k) : l.chunkLen j = l.cs := by
  unfold SegL.chunkLen
  split
  · rw [if_neg (by omega)]
  · rfl

theorem length_run (v : Nat → List Bytes) (cs : Nat) (n j0 : Nat)
    (h : ∀ j, j0 ≤ j → j < j0 + n → (v j).length = cs) :
    (((List.range' j0 n).map v).flatten).length = cs * n := by
  induction n generalizing j0 with
  | zero => simp
  | succ n ih =>
    rw [List.range'_succ, List.map_cons, List.flatten_cons, List.length_append, ih (j0 + 1)]
    · rw [h j0 (by omega) (by omega), Nat.mul_succ]; omega
    · intro j h1 h2; exact h j (by omega) (by omega)

theorem segVals_length (l : SegL) (v : Nat → List Bytes) (hwf : l.WF) (hv : ChunksOk l v) :
    (segVals l v).length = l.nvals := by
  unfold segVals SegL.nvals
  by_cases hcs : l.cs = 0
  · simp [hcs]
  · rw [if_neg hcs, if_neg hcs]
    unfold SegL.WF at hwf
    cases hf : l.f with
    | none =>
      simp only []
      rw [List.range_eq_range']
      apply length_run
      intro j _ h2
      rw [hv j (by omega)]
      simp [SegL.chunkLen, hf]
    | some m =>
      rw [hf] at hwf
      simp only []
      obtain ⟨k', hk⟩ : ∃ k', l.k = k' + 1 := ⟨l.k - 1, by omega⟩
      rw [hk, List.range_succ, List.map_append, List.flatten_append, List.length_append,
        List.range_eq_range', length_run v l.cs k' 0]
      · have : (v k').length = m := by
          rw [hv k' (by omega)]
          simp [SegL.chunkLen, hf, hk]
        simp [this]
      · intro j _ h2
        rw [hv j (by omega)]
        exact chunkLen_of_not_last l j (by omega)

theorem runOk_range (v : Nat → List Bytes) (cs : Nat) (a e : Int) (n j0 : Nat)
    (hlen : ∀ j, j0 ≤ j → j + 1 < j0 + n → (v j).length = cs)
    (hend : 0 < n → ((cs * (j0 + n) : Nat) : Int) - cs ≤ e)
    (h0 : 0 < n → a ≤ ((cs * j0 : Nat) : Int) + (v j0).length)
    (h1 : a ≤ ((cs * (j0 + 1) : Nat) : Int)) :
    RunOk ((List.range' j0 n).map v) ((cs * j0 : Nat) : Int) a e := by
  induction n generalizing j0 with
  | zero => simp [RunOk]
  | succ n ih =>
    rw [List.range'_succ, List.map_cons]
    have hend' := hend (by omega)
    have hm1 : cs * (j0 + (n + 1)) = cs * j0 + cs * n + cs := by
      rw [Nat.mul_add, Nat.mul_succ]; omega
    have hm2 : cs * (j0 + 1) = cs * j0 + cs := Nat.mul_succ _ _
    refine ⟨?_, h0 (by omega), ?_⟩
    · have : 0 ≤ cs * n := Nat.zero_le _
      omega
    · by_cases hn : n = 0
      · subst hn; simp [RunOk]
      · have hl : (v j0).length = cs := hlen j0 (by omega) (by omega)
        have hq : ((cs * j0 : Nat) : Int) + ((v j0).length : Int) = ((cs * (j0 + 1) : Nat) : Int) := by
          rw [hl, hm2]; omega
        rw [hq]
        have hm3 : cs * (j0 + 1 + 1) = cs * j0 + cs + cs := by
          rw [Nat.mul_succ, Nat.mul_succ]
        have hm4 : cs * (j0 + 1 + n) = cs * j0 + cs * n + cs := by
          rw [Nat.mul_add, Nat.mul_succ]; omega
        apply ih (j0 + 1)
        · intro j h2 h3; exact hlen j (by omega) (by omega)
        · intro _; rw [hm4]; rw [hm1] at hend'; exact hend'
        · intro _; omega
        · rw [hm3]; rw [hm2] at h1; omega

/-- one segment: the chunk run `[co, co+n)` streamed with the model's `skip` / `values_read`
    gives the segment's values cut to the window `[a, e)` (positions relative to the segment start) -/
theorem seg_run (l : SegL) (v : Nat → List Bytes) (hwf : l.WF) (hcs : 0 < l.cs) (hv : ChunksOk l v)
    (co n : Nat) (a e : Int) (skip : Nat) (vr : Int)
    (h1 : co < l.k ∨ co = 0)
    (h4 : co + n ≤ l.k)
    (hpre : ((l.cs * co : Nat) : Int) ≤ a ∨ co = 0)
    (hskip : (skip : Int) = max 0 (a - ((l.cs * co : Nat) : Int)))
    (hvr : vr = ((l.cs * co : Nat) : Int) - a + skip)
    (h3 : a ≤ ((l.cs * co : Nat) : Int) + l.chunkLen co)
    (h3' : a ≤ ((l.cs * (co + 1) : Nat) : Int))
    (h5 : 0 < n → ((l.cs * (co + n) : Nat) : Int) - l.cs ≤ e)
    (h6 : co + n = l.k ∨ e ≤ ((l.cs * (co + n) : Nat) : Int)) :
    dataOf (trimStream (e - a) (wrap ((List.range' co n).map v)) skip vr).1 = sl (segVals l v) a e
    ∧ (co + n = l.k → (0 < n ∨ a ≤ 0) →
        (trimStream (e - a) (wrap ((List.range' co n).map v)) skip vr).2 = (l.nvals : Int) - a) := by
  have hfull : ∀ j, j + 1 < l.k → (v j).length = l.cs := by
    intro j hj; rw [hv j (by omega)]; exact chunkLen_of_not_last l j hj
  obtain ⟨m, hm⟩ : ∃ m, l.k = co + n + m := ⟨l.k - (co + n), by omega⟩
  have hsplit : List.range l.k = List.range' 0 co ++ (List.range' co n ++ List.range' (co + n) m) := by
    rw [List.range_eq_range', hm, List.range'_append_1, Nat.add_assoc]
    have := @List.range'_append_1 0 co (n + m)
    simp only [Nat.zero_add] at this
    rw [this]
  have hseg : segVals l v = ((List.range' 0 co).map v).flatten ++
      (((List.range' co n).map v).flatten ++ ((List.range' (co + n) m).map v).flatten) := by
    unfold segVals
    rw [if_neg (by omega), hsplit]
    simp only [List.map_append, List.flatten_append]
  have hprelen : (((List.range' 0 co).map v).flatten).length = l.cs * co := by
    apply length_run
    intro j _ h2
    apply hfull
    rcases h1 with h1 | h1 <;> omega
  have hrun := trimStream_run ((List.range' co n).map v) ((l.cs * co : Nat) : Int) a e skip vr hskip hvr
    (runOk_range v l.cs a e n co (fun j h2 h3 => hfull j (by omega)) h5
      (fun hn => by rw [hv co (by omega)]; exact h3)
      h3')
  constructor
  · rw [hrun, hseg, sl_append, sl_append, hprelen]
    have e1 : sl ((List.range' 0 co).map v).flatten a e = [] := by
      rcases hpre with hp | hp
      · apply sl_eq_nil_of_length_le; rw [hprelen]; exact hp
      · subst hp; simp [sl]
    have e2 : sl ((List.range' (co + n) m).map v).flatten
        (a - ((l.cs * co : Nat) : Int) - ((((List.range' co n).map v).flatten).length : Int))
        (e - ((l.cs * co : Nat) : Int) - ((((List.range' co n).map v).flatten).length : Int)) = [] := by
      rcases h6 with h6 | h6
      · have : m = 0 := by omega
        subst this; simp [sl]
      · by_cases hm0 : m = 0
        · subst hm0; simp [sl]
        · apply sl_eq_nil_of_nonpos
          rw [length_run v l.cs n co (fun j h2 h3 => hfull j (by omega))]
          have : l.cs * (co + n) = l.cs * co + l.cs * n := Nat.mul_add _ _ _
          omega
    rw [e1, e2]
    simp
  · intro hk hn
    rw [← segVals_length l v hwf hv, hseg]
    have hm0 : m = 0 := by omega
    subst hm0
    simp only [List.range'_zero, List.map_nil, List.flatten_nil, List.append_nil, List.length_append, hprelen]
    rcases Nat.eq_zero_or_pos n with hn0 | hn0
    · subst hn0
      simp only [List.range'_zero, List.map_nil, wrap, trimStream, List.flatten_nil, List.length_nil]
      have : co = 0 := by rcases h1 with h1 | h1 <;> omega
      subst this
      simp only [Nat.mul_zero] at hskip hvr ⊢
      omega
    · obtain ⟨n', hn'⟩ : ∃ n', n = n' + 1 := ⟨n - 1, by omega⟩
      subst hn'
      rw [List.range'_succ, List.map_cons, trimStream_snd_cons, hvr]
      simp only [List.length_append, List.flatten_cons]
      omega

end Tdms.Proofs.C04
