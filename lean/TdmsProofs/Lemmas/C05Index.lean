import TdmsProofs.Lemmas.C05Local

/-! # C05: arithmetic of the channel index (`buildIndex`, `searchRight`) -/

namespace Tdms.Proofs.C05

open Tdms Tdms.Model Tdms.Generated Tdms.Proofs.C19

theorem cumsumFrom_length (a : Nat) (l : List Nat) : (cumsumFrom a l).length = l.length := by
  induction l generalizing a with
  | nil => rfl
  | cons x xs ih => simp [cumsumFrom, ih]

/-- `cumsum[k] = cumsum[k-1] + l[k]` -/
theorem cumsumFrom_getD (a : Nat) (l : List Nat) (k : Nat) (hk : k < l.length) :
    (cumsumFrom a l).getD k 0 = (if k = 0 then a else (cumsumFrom a l).getD (k - 1) 0) + l.getD k 0 := by
  induction l generalizing a k with
  | nil => simp at hk
  | cons x xs ih =>
    cases k with
    | zero => simp [cumsumFrom]
    | succ k =>
      have hk' : k < xs.length := by simpa using hk
      simp only [cumsumFrom, List.getD_cons_succ, Nat.add_one_ne_zero, if_false, Nat.add_sub_cancel]
      rw [ih (a + x) k hk']
      cases k with
      | zero => simp
      | succ k => simp

theorem cumsumFrom_mono (a : Nat) (l : List Nat) (i k : Nat) (hik : i ≤ k) (hk : k < l.length) :
    (cumsumFrom a l).getD i 0 ≤ (cumsumFrom a l).getD k 0 := by
  induction k with
  | zero => have : i = 0 := by omega
            subst this; exact Nat.le_refl _
  | succ k ih =>
    rcases Nat.lt_or_ge i (k + 1) with h | h
    · have := ih (by omega) (by omega)
      rw [cumsumFrom_getD a l (k + 1) hk]
      simp only [Nat.add_one_ne_zero, if_false, Nat.add_sub_cancel]
      omega
    · have : i = k + 1 := by omega
      subst this; exact Nat.le_refl _

/-- what `searchRight` returns: everything before it is `≤ x`, the element at it (if any) is `> x` -/
theorem searchRight_spec (xs : List Nat) (x : Nat) :
    searchRight xs x ≤ xs.length ∧
    (∀ i, i < searchRight xs x → xs.getD i 0 ≤ x) ∧
    (searchRight xs x < xs.length → x < xs.getD (searchRight xs x) 0) := by
  induction xs with
  | nil => simp [searchRight]
  | cons y ys ih =>
    unfold searchRight at ih ⊢
    by_cases hy : (y : Int) ≤ (x : Int)
    · simp only [List.takeWhile_cons, hy, decide_true, if_true, List.length_cons]
      obtain ⟨h1, h2, h3⟩ := ih
      refine ⟨by omega, ?_, ?_⟩
      · intro i hi
        cases i with
        | zero => simpa using hy
        | succ i => simpa using h2 i (by omega)
      · intro h
        simpa using h3 (by omega)
    · simp only [List.takeWhile_cons, hy, decide_false]
      refine ⟨by simp, by simp, ?_⟩
      intro _
      show x < (y :: ys).getD 0 0
      simp only [List.getD_cons_zero]
      omega

/-- conversely, for a non-decreasing list the position is determined by its two neighbours -/
theorem searchRight_eq (xs : List Nat) (x k : Nat) (hk : k < xs.length)
    (hlo : ∀ i, i < k → xs.getD i 0 ≤ x) (hhi : x < xs.getD k 0) : searchRight xs x = k := by
  obtain ⟨h1, h2, h3⟩ := searchRight_spec xs x
  rcases Nat.lt_trichotomy (searchRight xs x) k with h | h | h
  · have := h3 (by omega)
    have := hlo _ h
    omega
  · exact h
  · have := h2 k h
    omega

/-- values of channel `p` in segment `s` as counted by the index -/
def nvOf (p : Bytes) (s : Segment) : Nat :=
  match getSegmentObject s p with
  | some o => numberOfSegmentValues o s
  | none => 0

theorem buildIndex_eq (segs : List Segment) (p : Bytes) :
    (buildIndex segs p).offsets = [] ∨
    ∃ m, (buildIndex segs p).offsets =
      cumsumFrom 0 (((segs.map (nvOf p)).drop (buildIndex segs p).firstSegment).take m) := by
  unfold buildIndex
  dsimp only
  split
  · exact Or.inr ⟨_, rfl⟩
  · exact Or.inl rfl

theorem take_drop_getD (l : List Nat) (a m k : Nat) (hk : k < ((l.drop a).take m).length) :
    ((l.drop a).take m).getD k 0 = l.getD (a + k) 0 := by
  have hk2 : k < m := by
    have := List.length_take_le m (l.drop a)
    omega
  simp only [List.getD_eq_getElem?_getD, List.getElem?_take, hk2, if_true, List.getElem?_drop]

/-- `offsets[k] = offsets[k-1] + (values in segment first + k)` -/
theorem buildIndex_offsets (segs : List Segment) (p : Bytes) (k : Nat)
    (hk : k < (buildIndex segs p).offsets.length) :
    (buildIndex segs p).offsets.getD k 0 =
      (if k = 0 then 0 else (buildIndex segs p).offsets.getD (k - 1) 0) +
        (segs.map (nvOf p)).getD ((buildIndex segs p).firstSegment + k) 0 := by
  rcases buildIndex_eq segs p with h | ⟨m, h⟩
  · rw [h] at hk; simp at hk
  · rw [h] at hk ⊢
    rw [cumsumFrom_length] at hk
    rw [cumsumFrom_getD 0 _ k hk, take_drop_getD _ _ _ _ hk]

theorem buildIndex_mono (segs : List Segment) (p : Bytes) (i k : Nat) (hik : i ≤ k)
    (hk : k < (buildIndex segs p).offsets.length) :
    (buildIndex segs p).offsets.getD i 0 ≤ (buildIndex segs p).offsets.getD k 0 := by
  rcases buildIndex_eq segs p with h | ⟨m, h⟩
  · rw [h] at hk; simp at hk
  · rw [h] at hk ⊢
    rw [cumsumFrom_length] at hk
    exact cumsumFrom_mono 0 _ i k hik hk

end Tdms.Proofs.C05
