import Tdms.Model.Data

/-!
# Lemmas for C06 (truncated final chunk arithmetic)
-/

open Tdms Tdms.Model Tdms.Generated
namespace Tdms.Proofs.C06

/-- byte size of one value of a fixed-width object (0 when the type is unknown / unsized) -/
def objSz (o : SegObj) : Nat := (o.dataType.bind typeSize).getD 0

theorem typeSize_pos {ty sz : Nat} (h : typeSize ty = some sz) : 0 < sz := by
  unfold typeSize typeInfo at h
  cases hf : typeTable.find? (·.code = ty) with
  | none => simp [hf] at h
  | some ti =>
    have hm := List.mem_of_find?_eq_some hf
    simp [hf] at h
    have : ∀ ti ∈ typeTable, ∀ s, ti.size = some s → 0 < s := by decide
    exact this ti hm sz h

/-- `contiguousFinalLengths` on a list of data objects only -/
def cfl : List SegObj → Nat → List (Bytes × Nat)
  | [], _ => []
  | o :: os, rem =>
    if rem > o.numberValues * objSz o then (o.path, o.numberValues) :: cfl os (rem - o.numberValues * objSz o)
    else [(o.path, rem / objSz o)]

theorem cfl_eq (objs : List SegObj) (r : Nat) :
    contiguousFinalLengths objs r = cfl (objs.filter (·.hasData)) r := by
  induction objs generalizing r with
  | nil => simp [contiguousFinalLengths, cfl]
  | cons o os ih =>
    unfold contiguousFinalLengths
    cases h : o.hasData
    · simp [h, ih]
    · simp [h, cfl, objSz, ih]

/-- closed form: number of complete values of each object inside the first `r` bytes -/
def fitSpec : List SegObj → Nat → List Nat
  | [], _ => []
  | o :: os, r => min o.numberValues (r / objSz o) :: fitSpec os (r - o.numberValues * objSz o)

theorem cfl_length_le (d : List SegObj) (r : Nat) : (cfl d r).length ≤ d.length := by
  induction d generalizing r with
  | nil => simp [cfl]
  | cons o os ih =>
    unfold cfl; split
    · simp; exact ih _
    · simp

theorem cfl_paths (d : List SegObj) (r : Nat) :
    (cfl d r).map (·.1) = (d.take (cfl d r).length).map (·.path) := by
  induction d generalizing r with
  | nil => simp [cfl]
  | cons o os ih =>
    unfold cfl; split
    · simpa [List.map_take] using ih _
    · simp

theorem fitSpec_zero (d : List SegObj) : fitSpec d 0 = List.replicate d.length 0 := by
  induction d with
  | nil => rfl
  | cons o os ih => simp [fitSpec, ih, List.replicate_succ]

theorem cfl_values (d : List SegObj) (r : Nat) (hsz : ∀ o ∈ d, 0 < objSz o) :
    (cfl d r).map (·.2) ++ List.replicate (d.length - (cfl d r).length) 0 = fitSpec d r := by
  induction d generalizing r with
  | nil => simp [cfl, fitSpec]
  | cons o os ih =>
    have hpos : 0 < objSz o := hsz o (by simp)
    have ih' := fun r => ih r (fun o ho => hsz o (by simp [ho]))
    unfold cfl fitSpec; split
    · rename_i hgt
      have : o.numberValues ≤ r / objSz o := by
        rw [Nat.le_div_iff_mul_le hpos]; omega
      simp [Nat.min_eq_left this]
      exact ih' _
    · rename_i hle
      have h1 : r / objSz o ≤ o.numberValues := by
        apply Nat.div_le_of_le_mul; rw [Nat.mul_comm]; omega
      have h2 : r - o.numberValues * objSz o = 0 := by omega
      simp [Nat.min_eq_right h1, h2, fitSpec_zero]


/-- bytes of a full chunk occupied by the listed objects -/
def totalBytes (d : List SegObj) : Nat := (d.map fun o => o.numberValues * objSz o).sum

/-- bytes accounted for by the final lengths -/
def usedBytes (d : List SegObj) (out : List (Bytes × Nat)) : Nat :=
  (List.zipWith (fun o l => l.2 * objSz o) d out).sum

theorem cfl_used_le (d : List SegObj) (r : Nat) : usedBytes d (cfl d r) ≤ r := by
  induction d generalizing r with
  | nil => simp [cfl, usedBytes]
  | cons o os ih =>
    unfold cfl; split
    · have := ih (r - o.numberValues * objSz o)
      simp [usedBytes] at this ⊢; omega
    · simp [usedBytes]; exact Nat.div_mul_le_self r (objSz o)

theorem cfl_le_numberValues (d : List SegObj) (r : Nat) (hsz : ∀ o ∈ d, 0 < objSz o) :
    ∀ (i : Nat) (o : SegObj) (l : Bytes × Nat), d[i]? = some o → (cfl d r)[i]? = some l → l.2 ≤ o.numberValues := by
  induction d generalizing r with
  | nil => simp
  | cons a os ih =>
    intro i o l hd hl
    have hpos : 0 < objSz a := hsz a (by simp)
    unfold cfl at hl; split at hl
    · cases i with
      | zero => simp at hd hl; subst hd; subst hl; simp
      | succ i =>
        simp at hd hl
        exact ih _ (fun o ho => hsz o (by simp [ho])) i o l hd hl
    · rename_i hle
      cases i with
      | zero =>
        simp at hd hl; subst hd; subst hl; simp
        apply Nat.div_le_of_le_mul; rw [Nat.mul_comm]; omega
      | succ i => simp at hl

theorem cfl_full_before_last (d : List SegObj) (r : Nat) :
    ∀ (i : Nat) (o : SegObj) (l : Bytes × Nat), i + 1 < (cfl d r).length → d[i]? = some o → (cfl d r)[i]? = some l → l.2 = o.numberValues := by
  induction d generalizing r with
  | nil => simp
  | cons a os ih =>
    intro i o l hi hd hl
    unfold cfl at hl hi; split at hl
    · rename_i h
      simp [h] at hi
      cases i with
      | zero => simp at hd hl; subst hd; subst hl; rfl
      | succ i => simp at hd hl; exact ih _ i o l (by omega) hd hl
    · rename_i h
      simp [h] at hi

theorem cfl_complete (d : List SegObj) (r : Nat) (hne : d ≠ []) (hr : r ≤ totalBytes d) :
    ∃ o, d[(cfl d r).length - 1]? = some o ∧ 0 < (cfl d r).length ∧ r - usedBytes d (cfl d r) < max 1 (objSz o) := by
  induction d generalizing r with
  | nil => simp at hne
  | cons a os ih =>
    unfold cfl; split
    · rename_i hgt
      have hr' : r - a.numberValues * objSz a ≤ totalBytes os := by
        simp [totalBytes] at hr ⊢; omega
      have hne' : os ≠ [] := by
        intro h; subst h; simp [totalBytes] at hr'; omega
      obtain ⟨o, h1, h2, h3⟩ := ih _ hne' hr'
      refine ⟨o, ?_, by simp, ?_⟩
      · simp
        have : (cfl os (r - a.numberValues * objSz a)).length = ((cfl os (r - a.numberValues * objSz a)).length - 1) + 1 := by omega
        rw [this]; simpa using h1
      · simp [usedBytes] at h3 ⊢; omega
    · refine ⟨a, by simp, by simp, ?_⟩
      simp [usedBytes]
      by_cases h0 : objSz a = 0
      · simp [h0]; simp [h0] at *; omega
      · have := Nat.mod_lt r (Nat.pos_of_ne_zero h0)
        have := Nat.div_add_mod r (objSz a)
        rw [Nat.mul_comm] at this; omega

theorem overrideGet_nil (p : Bytes) : overrideGet [] p = 0 := by simp [overrideGet]

theorem overrideGet_cons_eq (p : Bytes) (l : Nat) (rest : List (Bytes × Nat)) :
    overrideGet ((p, l) :: rest) p = l := by simp [overrideGet]

theorem overrideGet_cons_ne (p q : Bytes) (l : Nat) (rest : List (Bytes × Nat)) (h : q ≠ p) :
    overrideGet ((q, l) :: rest) p = overrideGet rest p := by simp [overrideGet, h]

theorem overrideGet_of_not_mem (out : List (Bytes × Nat)) (p : Bytes) (h : p ∉ out.map (·.1)) :
    overrideGet out p = 0 := by
  induction out with
  | nil => exact overrideGet_nil p
  | cons x xs ih =>
    obtain ⟨q, l⟩ := x
    simp at h
    rw [overrideGet_cons_ne _ _ _ _ (fun e => h.1 e.symm)]
    exact ih (by simpa using h.2)

/-- closed form of the final length of every object: the number of its complete values that lie inside the
    first `r` bytes of the chunk -/
theorem cfl_overrideGet (pre : List SegObj) (o : SegObj) (post : List SegObj) (r : Nat)
    (hsz : ∀ x ∈ pre ++ o :: post, 0 < objSz x)
    (hnd : ((pre ++ o :: post).map (·.path)).Nodup) :
    overrideGet (cfl (pre ++ o :: post) r) o.path
      = min o.numberValues ((r - totalBytes pre) / objSz o) := by
  induction pre generalizing r with
  | nil =>
    have hpos : 0 < objSz o := hsz o (by simp)
    simp only [List.nil_append, totalBytes, List.map_nil, List.sum_nil, Nat.sub_zero]
    unfold cfl; split
    · rename_i hgt
      rw [overrideGet_cons_eq]
      have : o.numberValues ≤ r / objSz o := by rw [Nat.le_div_iff_mul_le hpos]; omega
      omega
    · rename_i hle
      rw [overrideGet_cons_eq]
      have : r / objSz o ≤ o.numberValues := by
        apply Nat.div_le_of_le_mul; rw [Nat.mul_comm]; omega
      omega
  | cons a pre ih =>
    have hne : a.path ≠ o.path := by
      simp [List.nodup_cons] at hnd
      exact hnd.1.2.1
    have hnd' : ((pre ++ o :: post).map (·.path)).Nodup := by
      simp [List.nodup_cons] at hnd ⊢; exact hnd.2
    have hsz' : ∀ x ∈ pre ++ o :: post, 0 < objSz x := fun x hx => hsz x (by simp at hx ⊢; exact Or.inr hx)
    simp only [List.cons_append]
    unfold cfl; split
    · rw [overrideGet_cons_ne _ _ _ _ hne, ih _ hsz' hnd']
      simp [totalBytes, Nat.sub_add_eq]
    · rename_i hle
      rw [overrideGet_cons_ne _ _ _ _ hne, overrideGet_nil]
      have : r - totalBytes (a :: pre) = 0 := by simp [totalBytes]; omega
      simp [this]

/-- every data object has a fixed-width type -/
def allSized (objs : List SegObj) : Prop :=
  ∀ o ∈ objs, o.hasData = true → ∃ ty sz, o.dataType = some ty ∧ typeSize ty = some sz

theorem allSized_objSz_pos {objs : List SegObj} (h : allSized objs) :
    ∀ o ∈ objs.filter (·.hasData), 0 < objSz o := by
  intro o ho
  simp at ho
  obtain ⟨ty, sz, h1, h2⟩ := h o ho.1 ho.2
  simp [objSz, h1, h2]; exact typeSize_pos h2

theorem chunkSize_std (objs : List SegObj) (hd : haveDaqmxObjects objs = .ok false) :
    chunkSize objs = .ok ((objs.filter (·.hasData)).map (·.dataSize)).sum := by
  simp [chunkSize, hd, bind, Except.bind, pure, Except.pure]

theorem computeFinalChunkLengths_std (s : Segment) (c r : Nat)
    (hd : haveDaqmxObjects s.objects = .ok false) (hs : allSized s.objects) :
    computeFinalChunkLengths s c r = .ok
      (if hasFlag s.toc kTocInterleavedData || !s.incomplete then
         (s.objects.filter (·.hasData)).map fun o => (o.path, (o.numberValues * r) / c)
       else contiguousFinalLengths s.objects r) := by
  have h1 : ((s.objects.filter (·.hasData)).any (·.dataType.isNone)) = false := by
    rw [List.any_eq_false]; intro o ho
    simp at ho
    obtain ⟨ty, sz, h1, h2⟩ := hs o ho.1 ho.2
    simp [h1]
  have h2 : ((s.objects.filter (·.hasData)).any fun o => (o.dataType.bind typeSize).isNone) = false := by
    rw [List.any_eq_false]; intro o ho
    simp at ho
    obtain ⟨ty, sz, h1, h2⟩ := hs o ho.1 ho.2
    simp [h1, h2]
  unfold computeFinalChunkLengths
  simp only [hd, bind, Except.bind, h1, h2]
  simp [pure, Except.pure]
  split <;> rfl


/-- width of one interleaved row -/
def rowWidth (d : List SegObj) : Nat := (d.map objSz).sum

theorem sum_map_mul_left (n : Nat) (d : List SegObj) (f : SegObj → Nat) :
    (d.map fun o => n * f o).sum = n * (d.map f).sum := by
  induction d with
  | nil => simp
  | cons a as ih => simp [ih, Nat.mul_add]

theorem chunkSize_uniform (objs : List SegObj) (n : Nat)
    (hd : haveDaqmxObjects objs = .ok false)
    (hn : ∀ o ∈ objs, o.hasData = true → o.dataSize = n * objSz o) :
    chunkSize objs = .ok (n * rowWidth (objs.filter (·.hasData))) := by
  rw [chunkSize_std objs hd, rowWidth, ← sum_map_mul_left]
  congr 2
  apply List.map_congr_left
  intro o ho; simp at ho; exact hn o ho.1 ho.2

theorem rows_arith (n r W : Nat) (hn : 0 < n) : (n * r) / (n * W) = r / W :=
  Nat.mul_div_mul_left r W hn

theorem rows_le (n r W : Nat) (hr : r < n * W) : r / W < n := by
  have hW : 0 < W := by
    cases W with
    | zero => simp at hr
    | succ w => omega
  rw [Nat.div_lt_iff_lt_mul hW]; exact hr

theorem overrideGet_map_le (d : List SegObj) (f : SegObj → Nat) (o : SegObj)
    (hnd : (d.map (·.path)).Nodup) (ho : o ∈ d) :
    overrideGet (d.map fun o => (o.path, f o)) o.path = f o := by
  induction d with
  | nil => simp at ho
  | cons a as ih =>
    simp only [List.map_cons]
    simp [List.nodup_cons] at hnd
    rcases List.mem_cons.mp ho with h | h
    · subst h; exact overrideGet_cons_eq _ _ _
    · have : a.path ≠ o.path := fun e => hnd.1 o h e.symm
      rw [overrideGet_cons_ne _ _ _ _ this]
      exact ih hnd.2 h


theorem mem_split {α} {a : α} {l : List α} (h : a ∈ l) : ∃ pre post, l = pre ++ a :: post :=
  List.append_of_mem h

theorem computeFinalChunkLengths_cases (s : Segment) (c r : Nat)
    (hd : haveDaqmxObjects s.objects = .ok false) :
    computeFinalChunkLengths s c r = .error .noneType ∨
    computeFinalChunkLengths s c r = .ok [] ∨
    allSized s.objects := by
  by_cases hA : ((s.objects.filter (·.hasData)).any (·.dataType.isNone)) = true
  · left
    unfold computeFinalChunkLengths
    simp only [hd, bind, Except.bind, hA]
    rfl
  · by_cases hB : ((s.objects.filter (·.hasData)).any fun o => (o.dataType.bind typeSize).isNone) = true
    · right; left
      unfold computeFinalChunkLengths
      simp only [hd, bind, Except.bind, hA, hB]
      rfl
    · right; right
      intro o ho hdat
      have hB' : ∀ (x : SegObj), x ∈ s.objects → x.hasData = true →
          ∃ x_1, x.dataType = some x_1 ∧ ¬typeSize x_1 = none := by simpa using hB
      obtain ⟨ty, hty, hsz⟩ := hB' o ho hdat
      cases hsz' : typeSize ty with
      | none => exact absurd hsz' hsz
      | some sz => exact ⟨ty, sz, hty, hsz'⟩

/-- the final length of every data object of a non-DAQmx segment is at most its chunk length -/
theorem final_length_le_std (s : Segment) (c r : Nat) (ov : List (Bytes × Nat))
    (hd : haveDaqmxObjects s.objects = .ok false)
    (hnd : ((s.objects.filter (·.hasData)).map (·.path)).Nodup)
    (hrc : r ≤ c)
    (hov : computeFinalChunkLengths s c r = .ok ov)
    (o : SegObj) (ho : o ∈ s.objects) (hdat : o.hasData = true) :
    overrideGet ov o.path ≤ o.numberValues := by
  have hmem : o ∈ s.objects.filter (·.hasData) := by simp [ho, hdat]
  rcases computeFinalChunkLengths_cases s c r hd with h | h | h
  · rw [h] at hov; cases hov
  · rw [h] at hov; cases hov; simp [overrideGet_nil]
  · rw [computeFinalChunkLengths_std s c r hd h] at hov
    have hs := allSized_objSz_pos h
    cases hov
    split
    · rw [overrideGet_map_le _ (fun o => o.numberValues * r / c) o hnd hmem]
      by_cases hc0 : c = 0
      · subst hc0; simp
      · apply Nat.div_le_of_le_mul
        rw [Nat.mul_comm c]; exact Nat.mul_le_mul_left _ hrc
    · rw [cfl_eq]
      obtain ⟨pre, post, hsplit⟩ := mem_split hmem
      rw [hsplit] at hnd hs ⊢
      rw [cfl_overrideGet pre o post r hs hnd]
      exact Nat.min_le_left _ _

theorem calculateChunks_exact' (s : Segment) (c k : Nat)
    (hc : chunkSize s.objects = .ok c) (hpos : c > 0)
    (hn : s.nextSegmentPos = s.dataPosition + k * c) :
    calculateChunks s = .ok { s with numChunks := k } := by
  unfold calculateChunks
  simp only [hc]
  have h1 : ¬ (s.nextSegmentPos < s.dataPosition) := by omega
  have h2 : s.nextSegmentPos - s.dataPosition = k * c := by omega
  have h3 : c ≠ 0 := by omega
  simp [bind, Except.bind, h1, h2, h3, pure, Except.pure, Nat.mul_div_cancel _ hpos]

theorem calculateChunks_truncated' (s : Segment) (c k r : Nat)
    (hc : chunkSize s.objects = .ok c) (hr0 : 0 < r) (hrc : r < c)
    (hn : s.nextSegmentPos = s.dataPosition + (k * c + r)) :
    calculateChunks s =
      (computeFinalChunkLengths s c r).map fun ov => { s with numChunks := k + 1, override := some ov } := by
  unfold calculateChunks
  simp only [hc]
  have h1 : ¬ (s.nextSegmentPos < s.dataPosition) := by omega
  have h2 : s.nextSegmentPos - s.dataPosition = k * c + r := by omega
  have h3 : c ≠ 0 := by omega
  have h4 : (k * c + r) % c = r := by
    rw [Nat.add_comm, Nat.add_mul_mod_self_right, Nat.mod_eq_of_lt hrc]
  have h5 : (k * c + r) / c = k := by
    rw [Nat.add_comm, Nat.add_mul_div_right _ _ (by omega), Nat.div_eq_of_lt hrc]; omega
  have h6 : r ≠ 0 := by omega
  simp [bind, Except.bind, h1, h2, h3, h4, h5, h6, pure, Except.pure, Except.map]
  cases computeFinalChunkLengths s c r <;> simp [Nat.add_comm]

/-- generic monotonicity: if the final-chunk length of `o` never exceeds its chunk length, the cut segment
    holds at most as many values of `o` as the complete one -/
theorem values_cut_le_full_of_bound (s₁ s₂ : Segment) (c K : Nat)
    (hobj : s₁.objects = s₂.objects)
    (hdp : s₁.dataPosition = s₂.dataPosition)
    (hov₁ : s₁.override = none) (hov₂ : s₂.override = none)
    (hc : chunkSize s₂.objects = .ok c) (hpos : 0 < c)
    (hfull : s₂.nextSegmentPos = s₂.dataPosition + K * c)
    (hle : s₁.nextSegmentPos ≤ s₂.nextSegmentPos)
    (sc sf : Segment) (h1 : calculateChunks s₁ = .ok sc) (h2 : calculateChunks s₂ = .ok sf)
    (o : SegObj)
    (hb : ∀ r ov, r < c → computeFinalChunkLengths s₁ c r = .ok ov → overrideGet ov o.path ≤ o.numberValues) :
    numberOfSegmentValues o sc ≤ numberOfSegmentValues o sf := by
  rw [calculateChunks_exact' s₂ c K hc hpos hfull] at h2
  cases h2
  have hc1 : chunkSize s₁.objects = .ok c := by rw [hobj]; exact hc
  by_cases hneg : s₁.nextSegmentPos < s₁.dataPosition
  · unfold calculateChunks at h1
    simp [hc1, bind, Except.bind, hneg, throw, throwThe, MonadExceptOf.throw] at h1
  have hdm := Nat.div_add_mod (s₁.nextSegmentPos - s₁.dataPosition) c
  generalize hk : (s₁.nextSegmentPos - s₁.dataPosition) / c = k at hdm
  generalize hr : (s₁.nextSegmentPos - s₁.dataPosition) % c = r at hdm
  have hrc : r < c := by rw [← hr]; exact Nat.mod_lt _ hpos
  have hkK : c * k + r ≤ K * c := by omega
  by_cases hr0 : r = 0
  · subst hr0
    rw [calculateChunks_exact' s₁ c k hc1 hpos (by rw [Nat.mul_comm]; omega)] at h1
    cases h1
    have : k ≤ K := by
      have : c * k ≤ c * K := by rw [Nat.mul_comm c K]; omega
      exact Nat.le_of_mul_le_mul_left this hpos
    unfold numberOfSegmentValues
    cases o.hasData <;> simp [hov₁, hov₂]
    exact Nat.mul_le_mul_left _ this
  · rw [calculateChunks_truncated' s₁ c k r hc1 (by omega) hrc (by rw [Nat.mul_comm]; omega)] at h1
    cases hov : computeFinalChunkLengths s₁ c r with
    | error e => simp [hov, Except.map] at h1
    | ok ov =>
      simp [hov, Except.map] at h1
      subst h1
      have hbound := hb r ov hrc hov
      have : k + 1 ≤ K := by
        have : c * k < c * K := by rw [Nat.mul_comm c K]; omega
        exact Nat.lt_of_mul_lt_mul_left this
      unfold numberOfSegmentValues
      cases o.hasData <;> simp [hov₂]
      calc o.numberValues * k + overrideGet ov o.path
          ≤ o.numberValues * k + o.numberValues := by omega
        _ = o.numberValues * (k + 1) := by rw [Nat.mul_succ]
        _ ≤ o.numberValues * K := Nat.mul_le_mul_left _ this


theorem cfl_path_at (d : List SegObj) (r : Nat) :
    ∀ (i : Nat) (o : SegObj) (l : Bytes × Nat), d[i]? = some o → (cfl d r)[i]? = some l → l.1 = o.path := by
  induction d generalizing r with
  | nil => simp
  | cons a os ih =>
    intro i o l hd hl
    unfold cfl at hl; split at hl
    · cases i with
      | zero => simp at hd hl; subst hd; subst hl; rfl
      | succ i => simp at hd hl; exact ih _ i o l hd hl
    · cases i with
      | zero => simp at hd hl; subst hd; subst hl; rfl
      | succ i => simp at hl

/-- objects after the partial one are absent from the override: they read as length 0 -/
theorem cfl_absent (pre : List SegObj) (o : SegObj) (post : List SegObj) (r : Nat)
    (hnd : ((pre ++ o :: post).map (·.path)).Nodup)
    (hlen : (cfl (pre ++ o :: post) r).length ≤ pre.length) :
    overrideGet (cfl (pre ++ o :: post) r) o.path = 0 := by
  apply overrideGet_of_not_mem
  rw [cfl_paths]
  intro hmem
  have hsub : (List.take (cfl (pre ++ o :: post) r).length (pre ++ o :: post)) =
      pre.take (cfl (pre ++ o :: post) r).length := by
    rw [List.take_append_of_le_length hlen]
  rw [hsub] at hmem
  obtain ⟨x, hx, hxp⟩ := List.mem_map.mp hmem
  have hxpre : x ∈ pre := List.mem_of_mem_take hx
  rw [List.map_append, List.nodup_append] at hnd
  exact hnd.2.2 x.path (List.mem_map.mpr ⟨x, hxpre, rfl⟩) o.path (by simp) hxp

/-- no object could hold one more complete value -/
theorem fit_maximal (n x sz : Nat) (hsz : 0 < sz) :
    min n (x / sz) = n ∨ x < (min n (x / sz) + 1) * sz := by
  by_cases h : n ≤ x / sz
  · left; omega
  · right
    have : min n (x / sz) = x / sz := by omega
    rw [this]
    exact Nat.lt_mul_of_div_lt (by omega) hsz

end Tdms.Proofs.C06
