/-
  Scaler dictionaries (`List (scale id × values)`): `appendScaler` / `appendScalerData` through the per-id
  lookup `lookupV` and the id list; folds of appends in closed form (`colN`).  Core Lean only.
-/
import TdmsProofs.Lemmas.C01LayoutsDaqData

namespace Tdms.Proofs.C01Layouts

open Tdms Tdms.Generated Tdms.Model

/-- values stored under a scale id (of the first entry with that id) -/
def lookupV (l : ScalDict) (id : Nat) : List Bytes := ((l.find? (·.1 = id)).map (·.2)).getD []

/-- values a list of (id, values) items holds for an id, concatenated in order -/
def colN (items : ScalDict) (id : Nat) : List Bytes := (items.filter fun iv => decide (iv.1 = id)).flatMap (·.2)

/-- one append -/
def stepS (l : ScalDict) (iv : Nat × List Bytes) : ScalDict := appendScaler l iv.1 iv.2

theorem appendScalerData_eq : @appendScalerData = @appendScaler := rfl

theorem find_map_fst {l : ScalDict} (g : Nat × List Bytes → Nat × List Bytes) (hg : ∀ x, (g x).1 = x.1) (id : Nat) :
    (l.map g).find? (·.1 = id) = (l.find? (·.1 = id)).map g := by
  induction l with
  | nil => rfl
  | cons x xs ih =>
    simp only [List.map_cons, List.find?_cons, hg]
    split
    · rfl
    · exact ih

theorem lookupV_appendScaler (l : ScalDict) (id : Nat) (v : List Bytes) (id' : Nat) :
    lookupV (appendScaler l id v) id' = if id' = id then lookupV l id ++ v else lookupV l id' := by
  unfold appendScaler
  split
  · rename_i hany
    unfold lookupV
    rw [find_map_fst _ (by intro x; split <;> rfl)]
    by_cases he : id' = id
    · subst he
      simp only [if_true]
      simp only [List.any_eq_true, decide_eq_true_eq] at hany
      obtain ⟨x, hx, hxi⟩ := hany
      cases hf : l.find? (·.1 = id') with
      | none =>
        rw [List.find?_eq_none] at hf
        exact absurd (by simpa using hxi) (hf x hx)
      | some y =>
        have hy : y.1 = id' := by simpa using List.find?_some hf
        simp [hy]
    · simp only [he, if_false]
      cases hf : l.find? (·.1 = id') with
      | none => rfl
      | some y =>
        have hy : y.1 = id' := by simpa using List.find?_some hf
        have : ¬ y.1 = id := by rw [hy]; exact he
        simp [this]
  · rename_i hany
    have hnone : l.find? (·.1 = id) = none := by
      rw [List.find?_eq_none]
      intro x hx
      simp only [List.any_eq_true, decide_eq_true_eq, not_exists, not_and] at hany
      simpa using hany x hx
    unfold lookupV
    rw [List.find?_append]
    by_cases he : id' = id
    · subst he
      simp [hnone]
    · have : ¬ id = id' := fun e => he e.symm
      simp only [he, if_false]
      cases l.find? (·.1 = id') <;> simp [this]

theorem colN_cons (iv : Nat × List Bytes) (items : ScalDict) (id : Nat) :
    colN (iv :: items) id = (if iv.1 = id then iv.2 else []) ++ colN items id := by
  unfold colN
  rw [List.filter_cons]
  by_cases h : iv.1 = id <;> simp [h]

theorem colN_append (a b : ScalDict) (id : Nat) : colN (a ++ b) id = colN a id ++ colN b id := by
  simp [colN, List.filter_append]

theorem lookupV_fold : ∀ (items l : ScalDict) (id : Nat),
    lookupV (items.foldl stepS l) id = lookupV l id ++ colN items id := by
  intro items
  induction items with
  | nil => intro l id; simp [colN]
  | cons iv items ih =>
    intro l id
    rw [List.foldl_cons, ih, stepS, lookupV_appendScaler, colN_cons]
    by_cases h : id = iv.1
    · subst h; simp
    · have : ¬ iv.1 = id := fun e => h e.symm
      simp [h, this]

theorem ids_appendScaler (l : ScalDict) (id : Nat) (v : List Bytes) :
    (appendScaler l id v).map (·.1) = if id ∈ l.map (·.1) then l.map (·.1) else l.map (·.1) ++ [id] := by
  unfold appendScaler
  by_cases h : id ∈ l.map (·.1)
  · have hany : l.any (fun x => decide (x.1 = id)) = true := by
      obtain ⟨x, hx, hxi⟩ := List.mem_map.mp h
      exact List.any_eq_true.mpr ⟨x, hx, by simpa using hxi⟩
    rw [if_pos hany, if_pos h, List.map_map]
    apply List.map_congr_left
    intro x _
    simp only [Function.comp]
    split <;> rfl
  · have hany : ¬ l.any (fun x => decide (x.1 = id)) = true := by
      intro hc
      obtain ⟨x, hx, hxi⟩ := List.any_eq_true.mp hc
      exact h (List.mem_map.2 ⟨x, hx, by simpa using hxi⟩)
    rw [if_neg hany, if_neg h]
    simp

theorem ids_fold_mem : ∀ (items l : ScalDict), (∀ iv ∈ items, iv.1 ∈ l.map (·.1)) →
    (items.foldl stepS l).map (·.1) = l.map (·.1) := by
  intro items
  induction items with
  | nil => intro l _; rfl
  | cons iv items ih =>
    intro l h
    have h1 : (stepS l iv).map (·.1) = l.map (·.1) := by
      rw [stepS, ids_appendScaler, if_pos (h iv List.mem_cons_self)]
    rw [List.foldl_cons, ih _ (by rw [h1]; exact fun x hx => h x (List.mem_cons_of_mem _ hx)), h1]

theorem ids_fold_fresh : ∀ (items l : ScalDict), (items.map (·.1)).Nodup →
    (∀ iv ∈ items, iv.1 ∉ l.map (·.1)) →
    (items.foldl stepS l).map (·.1) = l.map (·.1) ++ items.map (·.1) := by
  intro items
  induction items with
  | nil => intro l _ _; simp
  | cons iv items ih =>
    intro l hnd h
    rw [List.map_cons, List.nodup_cons] at hnd
    have h1 : (stepS l iv).map (·.1) = l.map (·.1) ++ [iv.1] := by
      rw [stepS, ids_appendScaler, if_neg (h iv List.mem_cons_self)]
    rw [List.foldl_cons, ih _ hnd.2 (by
      intro x hx
      rw [h1, List.mem_append, not_or]
      refine ⟨h x (List.mem_cons_of_mem _ hx), ?_⟩
      simp only [List.mem_singleton]
      exact fun e => hnd.1 (List.mem_map.2 ⟨x, hx, e⟩)), h1]
    simp

/-- two dictionaries with the same, pairwise distinct, ids and the same values per id are equal -/
theorem ext_lookup : ∀ (l l' : ScalDict), l.map (·.1) = l'.map (·.1) → (l.map (·.1)).Nodup →
    (∀ id, lookupV l id = lookupV l' id) → l = l' := by
  intro l
  induction l with
  | nil => intro l' h _ _; cases l' <;> simp at h ⊢
  | cons x xs ih =>
    intro l' hids hnd hv
    cases l' with
    | nil => simp at hids
    | cons y ys =>
      simp only [List.map_cons, List.cons.injEq] at hids
      rw [List.map_cons, List.nodup_cons] at hnd
      have h1 := hv x.1
      simp only [lookupV, List.find?_cons, decide_true, Option.map_some, Option.getD_some, ← hids.1] at h1
      have hxy : x = y := Prod.ext hids.1 h1
      subst hxy
      congr 1
      apply ih ys hids.2 hnd.2
      intro id
      have := hv id
      by_cases he : x.1 = id
      · subst he
        have n1 : xs.find? (·.1 = x.1) = none := by
          rw [List.find?_eq_none]
          intro z hz
          simp only [decide_eq_true_eq]
          exact fun e => hnd.1 (List.mem_map.2 ⟨z, hz, e⟩)
        have n2 : ys.find? (·.1 = x.1) = none := by
          rw [List.find?_eq_none]
          intro z hz
          simp only [decide_eq_true_eq]
          exact fun e => hnd.1 (by rw [hids.2]; exact List.mem_map.2 ⟨z, hz, e⟩)
        simp [lookupV, n1, n2]
      · simpa [lookupV, List.find?_cons, he] using this

/-- an entry of a dictionary with pairwise distinct ids is the lookup of its id -/
theorem lookupV_of_mem {l : ScalDict} (hnd : (l.map (·.1)).Nodup) {x : Nat × List Bytes} (hx : x ∈ l) :
    lookupV l x.1 = x.2 := by
  induction l with
  | nil => cases hx
  | cons y ys ih =>
    rw [List.map_cons, List.nodup_cons] at hnd
    rcases List.mem_cons.1 hx with rfl | hx'
    · simp [lookupV]
    · have : ¬ y.1 = x.1 := fun e => hnd.1 (List.mem_map.2 ⟨x, hx', e.symm⟩)
      have := ih hnd.2 hx'
      simpa [lookupV, List.find?_cons, *] using this

end Tdms.Proofs.C01Layouts
