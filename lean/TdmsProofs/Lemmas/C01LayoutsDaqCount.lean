/-
  C01 with DAQmx segments: how many values the file holds per path (and per scale id) against the counts the
  reader adds up in `object_metadata` (`countsOf`) — the capacity of the receivers.  Core Lean only.
-/
import TdmsProofs.Lemmas.C01LayoutsDaqFile

namespace Tdms.Proofs.C01Layouts

open Tdms Tdms.Generated Tdms.Model Tdms.Proofs.C02 Tdms.Proofs.C01Multi

/-! ## standard chunks -/

theorem colOf_cons (pv : Bytes × List Bytes) (pairs : List (Bytes × List Bytes)) (q : Bytes) :
    colOf (pv :: pairs) q = (if pv.1 = q then pv.2 else []) ++ colOf pairs q := by
  unfold colOf
  rw [List.filter_cons]
  by_cases h : pv.1 = q <;> simp [h]

theorem colOf_pairsOf_length : ∀ (d : List ActiveObj) (ch : List (List Bytes)), wfStdChunk d ch = true →
    (∀ x ∈ d, x.hasData = true) → ∀ p, (colOf (pairsOf d ch) p).length = cntOf d p := by
  intro d
  induction d with
  | nil => intro ch _ _ p; simp [pairsOf, colOf, cntOf_nil]
  | cons a as ih =>
    intro ch hwf hd p
    cases ch with
    | nil => simp [wfStdChunk] at hwf
    | cons v vs =>
      obtain ⟨⟨ty, n, total, hi, hv⟩, hrest⟩ := wfStdChunk_head hwf
      have hper : perObj a = v.length := by
        simp [perObj, hd a List.mem_cons_self, hi, IdxDesc.n, hv]
      have : pairsOf (a :: as) (v :: vs) = (a.path, v) :: pairsOf as vs := rfl
      rw [this, colOf_cons, List.length_append, ih vs hrest (fun x hx => hd x (List.mem_cons_of_mem _ hx)),
        cntOf_cons, hper]
      by_cases hp : a.path = p <;> simp [hp]

theorem flatMap_length_const' {α β : Type} (l : List α) (f : α → List β) (c : Nat)
    (h : ∀ x ∈ l, (f x).length = c) : (l.flatMap f).length = l.length * c := by
  induction l with
  | nil => simp
  | cons x xs ih =>
    simp only [List.flatMap_cons, List.length_append, List.length_cons,
      ih (fun y hy => h y (List.mem_cons_of_mem _ hy)), h x List.mem_cons_self, Nat.succ_mul]
    omega

theorem dataObjs_hasData (a : List ActiveObj) : ∀ x ∈ dataObjs a, x.hasData = true := by
  intro x hx
  have : x ∈ a ∧ x.hasData = true := by simpa [dataObjs] using hx
  exact this.2

theorem stdPairs_count {F : ScF} {s : SegEnc} {a : List ActiveObj} (hok : SegOKD GoodDesc F s a) (p : Bytes) :
    (colOf (stdPairs s a) p).length ≤ cntOf a p * s.chunks.length := by
  unfold stdPairs
  rcases hok.layout with hl | hl
  · simp only [hl.noDaq, Bool.false_eq_true, if_false, segPairs]
    have := flatMap_length_const' s.chunks (fun ch => colOf (pairsOf (dataObjs a) ch) p)
      (cntOf (dataObjs a) p)
      (fun ch hch => colOf_pairsOf_length _ _ (hl.chunks ch hch) (dataObjs_hasData a) p)
    rw [colOf_flatMap, this, cntOf_dataObjs, Nat.mul_comm]
    exact Nat.le_refl _
  · simp only [daqLayout_any hl, if_true]
    simp [colOf]

/-! ## DAQmx chunks -/

theorem colN_len_le (n : Nat) : ∀ (items : ScalDict), (items.map (·.1)).Nodup → (∀ iv ∈ items, iv.2.length = n) →
    ∀ id, (colN items id).length ≤ n := by
  intro items
  induction items with
  | nil => intro _ _ id; simp [colN]
  | cons iv items ih =>
    intro hnd hlen id
    rw [List.map_cons, List.nodup_cons] at hnd
    rw [colN_cons]
    by_cases h : iv.1 = id
    · have hrest : colN items id = [] := by
        unfold colN
        have : items.filter (fun x => decide (x.1 = id)) = [] := by
          rw [List.filter_eq_nil_iff]
          intro x hx hxi
          exact hnd.1 (List.mem_map.2 ⟨x, hx, by rw [h]; simpa using hxi⟩)
        rw [this]; rfl
      simp [h, hrest, hlen iv List.mem_cons_self]
    · simp only [h, if_false, List.nil_append]
      exact ih hnd.2 (fun x hx => hlen x (List.mem_cons_of_mem _ hx)) id

theorem scalItemsG_facts {F : ScF} {W : List Nat} {x : ActiveObj} (h : DaqObj F W x) (e : Endian)
    (c : List (List Bytes)) (n0 : Nat) (hn : ∀ s ∈ daqScalers x, (c.getD s.buffer []).length = n0) :
    ((scalItemsG e x c).map (·.1)).Nodup ∧ (∀ iv ∈ scalItemsG e x c, iv.2.length = n0) ∧
    (scalItemsG e x c).map (·.1) = idsF F x.path := by
  obtain ⟨dg, n, sc, hi, hd⟩ := h
  have hds : daqScalers x = sc := by simp [daqScalers, hi]
  have hids : (scalItemsG e x c).map (·.1) = sc.map (·.scaleId) := by
    simp [scalItemsG, hi, List.map_map, Function.comp_def]
  refine ⟨by rw [hids]; exact hd.ids, ?_, ?_⟩
  · intro iv hiv
    simp only [scalItemsG, hi, List.mem_map] at hiv
    obtain ⟨s0, hs0, rfl⟩ := hiv
    have := hn s0 (by rw [hds]; exact hs0)
    simpa using this
  · rw [hids]
    simp [idsF, hd.types, scTypesOf_ids]

theorem daqChunk_count {F : ScF} {W : List Nat} (e : Endian) (c : List (List Bytes)) : ∀ (d : List ActiveObj),
    (∀ x ∈ d, DaqObj F W x) → (∀ x ∈ d, x.hasData = true) →
    (∀ x ∈ d, ∀ dsc, x.idx = some dsc → ∀ s ∈ daqScalers x, (c.getD s.buffer []).length = dsc.n) → ∀ p id,
    (colN (itemsAt (daqEntsOfChunk e d c) p) id).length ≤ cntOf d p := by
  intro d
  induction d with
  | nil => intro _ _ _ p id; simp [daqEntsOfChunk, itemsAt, colN]
  | cons x xs ih =>
    intro hobj hd hn p id
    have := ih (fun y hy => hobj y (List.mem_cons_of_mem _ hy)) (fun y hy => hd y (List.mem_cons_of_mem _ hy))
      (fun y hy => hn y (List.mem_cons_of_mem _ hy)) p id
    simp only [daqEntsOfChunk, List.map_cons, itemsAt_cons, colN_append, List.length_append, cntOf_cons] at this ⊢
    obtain ⟨dg, n, sc, hi, _⟩ := hobj x List.mem_cons_self
    obtain ⟨hnd, hlen, _⟩ := scalItemsG_facts (hobj x List.mem_cons_self) e c n
      (fun s hs => by simpa [IdxDesc.n] using hn x List.mem_cons_self _ hi s hs)
    have hx := colN_len_le n _ hnd hlen id
    have hper : perObj x = n := by
      simp [perObj, hd x List.mem_cons_self, hi, IdxDesc.n]
    by_cases hp : x.path = p
    · simp only [hp, if_true, hper]
      omega
    · simp only [hp, if_false, colN, List.filter_nil, List.flatMap_nil, List.length_nil, Nat.zero_add]
      simp only [colN] at this
      exact this

theorem daqEnts_count {F : ScF} {s : SegEnc} {a : List ActiveObj} (hok : SegOKD GoodDesc F s a) (p : Bytes)
    (id : Nat) : (colN (itemsAt (daqEnts s a) p) id).length ≤ cntOf a p * s.chunks.length := by
  unfold daqEnts
  rcases hok.layout with hl | hl
  · simp [hl.noDaq, itemsAt, colN]
  · simp only [daqLayout_any hl, if_true]
    obtain ⟨W, hobj, hch⟩ := hl.width
    rw [← cntOf_dataObjs]
    suffices h : ∀ (chs : List (List (List Bytes))), (∀ c ∈ chs, c ∈ s.chunks) →
        (colN (itemsAt (chs.flatMap (daqEntsOfChunk s.endian (dataObjs a))) p) id).length ≤
          cntOf (dataObjs a) p * chs.length from h s.chunks (fun _ h => h)
    intro chs
    induction chs with
    | nil => intro _; simp [itemsAt, colN]
    | cons c cs ih =>
      intro hmem
      have hck := hch c (hmem c List.mem_cons_self)
      have h1 := daqChunk_count s.endian c (dataObjs a) hobj (dataObjs_hasData a) hck.count p id
      have h2 := ih (fun c' hc' => hmem c' (List.mem_cons_of_mem _ hc'))
      rw [List.flatMap_cons, itemsAt_append, colN_append, List.length_append, List.length_cons, Nat.mul_succ]
      omega

/-- every item of a DAQmx entry of the file carries a scale id of the file -/
theorem daqEnts_ids {F : ScF} {s : SegEnc} {a : List ActiveObj} (hok : SegOKD GoodDesc F s a) (p : Bytes) :
    ∀ iv ∈ itemsAt (daqEnts s a) p, iv.1 ∈ idsF F p := by
  unfold daqEnts
  rcases hok.layout with hl | hl
  · simp [hl.noDaq, itemsAt]
  · simp only [daqLayout_any hl, if_true]
    obtain ⟨W, hobj, hch⟩ := hl.width
    intro iv hiv
    simp only [itemsAt, List.mem_flatMap, List.mem_filter, decide_eq_true_eq] at hiv
    obtain ⟨pe, ⟨⟨c, hc, hpe⟩, hpp⟩, hiv⟩ := hiv
    simp only [daqEntsOfChunk, List.mem_map] at hpe
    obtain ⟨x, hx, rfl⟩ := hpe
    obtain ⟨dg, n, sc, hi, hd⟩ := hobj x hx
    have hids : (scalItemsG s.endian x c).map (·.1) = idsF F x.path := by
      simp [scalItemsG, hi, idsF, hd.types, scTypesOf_ids, List.map_map, Function.comp_def]
    simp only [] at hpp hiv
    rw [← hpp, ← hids]
    exact List.mem_map.2 ⟨iv, hiv, rfl⟩

/-! ## the whole file -/

theorem allStdPairs_count {F : ScF} : ∀ (ss : List SegEnc) (as : List (List ActiveObj)), SegsOKD GoodDesc F ss as →
    ∀ p, (colOf (allStdPairs ss as) p).length ≤ countsOf ss as p := by
  intro ss
  induction ss with
  | nil => intro as _ p; cases as <;> simp [allStdPairs, colOf]
  | cons s ss ih =>
    intro as hok p
    cases as with
    | nil => cases hok
    | cons a as =>
      have h1 := stdPairs_count hok.1 p
      have h2 := ih as hok.2 p
      rw [allStdPairs, colOf_append, List.length_append, countsOf]
      omega

theorem allDaqEnts_count {F : ScF} : ∀ (ss : List SegEnc) (as : List (List ActiveObj)), SegsOKD GoodDesc F ss as →
    ∀ p id, (colN (itemsAt (allDaqEnts ss as) p) id).length ≤ countsOf ss as p := by
  intro ss
  induction ss with
  | nil => intro as _ p id; cases as <;> simp [allDaqEnts, itemsAt, colN]
  | cons s ss ih =>
    intro as hok p id
    cases as with
    | nil => cases hok
    | cons a as =>
      have h1 := daqEnts_count hok.1 p id
      have h2 := ih as hok.2 p id
      rw [allDaqEnts, itemsAt_append, colN_append, List.length_append, countsOf]
      omega

theorem allDaqEnts_ids {F : ScF} : ∀ (ss : List SegEnc) (as : List (List ActiveObj)), SegsOKD GoodDesc F ss as →
    ∀ p, ∀ iv ∈ itemsAt (allDaqEnts ss as) p, iv.1 ∈ idsF F p := by
  intro ss
  induction ss with
  | nil => intro as _ p iv hiv; cases as <;> simp [allDaqEnts, itemsAt] at hiv
  | cons s ss ih =>
    intro as hok p iv hiv
    cases as with
    | nil => cases hok
    | cons a as =>
      rw [allDaqEnts, itemsAt_append, List.mem_append] at hiv
      rcases hiv with h | h
      · exact daqEnts_ids hok.1 p iv h
      · exact ih as hok.2 p iv h

end Tdms.Proofs.C01Layouts
