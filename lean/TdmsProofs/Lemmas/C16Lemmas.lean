/-
  Helper lemmas for C16 (object-path round trip).  Core Lean only.
-/
import Tdms.Model.Path

namespace Tdms.Proofs.C16

open Tdms.Model.Path

variable {α : Type} [DecidableEq α]

/-! ### A recursive view of `componentsToPath` -/

/-- Everything after the first component boundary: each component preceded by a slash. -/
def segments (q s : α) (comps : List (List α)) : List α :=
  comps.flatMap fun c => s :: quoted q c

@[simp] theorem segments_nil (q s : α) : segments q s [] = [] := rfl

@[simp] theorem segments_cons (q s : α) (c : List α) (cs : List (List α)) :
    segments q s (c :: cs) = s :: quoted q c ++ segments q s cs := by
  simp [segments]

omit [DecidableEq α] in
theorem join_cons (s : α) (x : List α) (xs : List (List α)) :
    join s (x :: xs) = x ++ xs.flatMap (fun y => s :: y) := by
  induction xs generalizing x with
  | nil => simp [join]
  | cons y ys ih => simp [join, ih]

/-- For at least one component, the path is just the concatenated segments. -/
theorem componentsToPath_cons (q s : α) (c : List α) (cs : List (List α)) :
    componentsToPath q s (c :: cs) = segments q s (c :: cs) := by
  simp [componentsToPath, join_cons, segments, List.flatMap_map]

theorem componentsToPath_nil (q s : α) : componentsToPath q s ([] : List (List α)) = [s] := rfl

/-- The segments never start with a quote (they are empty or start with the slash). -/
theorem segments_not_quote {q s : α} (h : q ≠ s) (cs : List (List α)) :
    ∀ r, segments q s cs ≠ q :: r := by
  intro r
  cases cs with
  | nil => simp
  | cons c cs => simp [Ne.symm h]

/-! ### The scanner on canonical input -/

/-- Inner loop, `else: component += char`. -/
theorem scan_comp_other (q s : α) {x : α} (hx : x ≠ q) (rev : List α) (acc : List (List α))
    (rest : List α) :
    scan q s (.comp rev) acc (x :: rest) = scan q s (.comp (x :: rev)) acc rest := by
  cases rest <;> simp [scan, hx]

/-- Inner loop, `if char == "'" and next_char == "'"`. -/
theorem scan_comp_qq (q s : α) (rev : List α) (acc : List (List α)) (rest : List α) :
    scan q s (.comp rev) acc (q :: q :: rest) = scan q s (.comp (q :: rev)) acc rest := by
  simp [scan]

/-- Inner loop: reading an escaped name followed by the closing quote yields the name,
provided the closing quote is not followed by another quote. -/
theorem scan_comp_escape (q s : α) (c rev : List α) (acc : List (List α)) (rest : List α)
    (hrest : ∀ r, rest ≠ q :: r) :
    scan q s (.comp rev) acc (escape q c ++ q :: rest)
      = scan q s .slash ((rev.reverse ++ c) :: acc) rest := by
  induction c generalizing rev with
  | nil =>
    cases rest with
    | nil => simp [escape, scan]
    | cons n rest' =>
      have hn : n ≠ q := fun e => hrest rest' (by rw [e])
      simp [escape, scan, hn]
  | cons x c ih =>
    by_cases hx : x = q
    · subst hx
      simp [escape, scan_comp_qq, ih]
    · simp [escape, hx, scan_comp_other, ih]

/-- Outer loop: one segment `/'name'` yields `name`, provided the next symbol is not a quote. -/
theorem scan_slash_segment (q s : α) (c : List α) (acc : List (List α)) (rest : List α)
    (hrest : ∀ r, rest ≠ q :: r) :
    scan q s .slash acc (s :: quoted q c ++ rest) = scan q s .slash (c :: acc) rest := by
  have := scan_comp_escape q s c [] acc rest hrest
  simpa [quoted, scan] using this

/-- The scanner run on any number of segments yields exactly the components. -/
theorem scan_segments {q s : α} (h : q ≠ s) (cs : List (List α)) (acc : List (List α)) :
    scan q s .slash acc (segments q s cs) = .ok (acc.reverse ++ cs) := by
  induction cs generalizing acc with
  | nil => simp [scan]
  | cons c cs ih =>
    rw [segments_cons, scan_slash_segment q s c acc _ (segments_not_quote h cs), ih]
    simp

/-- A single component round-trips even when `q = s`. -/
theorem scan_single (q s : α) (c : List α) :
    pathComponents q s (componentsToPath q s [c]) = .ok [c] := by
  rw [componentsToPath_cons]
  have := scan_slash_segment q s c [] [] (by simp)
  simpa [pathComponents, scan] using this

/-! ### `ObjectPath` helpers -/

theorem pathOf_root (q s : α) : pathOf q s none none = componentsToPath q s [] := rfl
theorem pathOf_group (q s : α) (g : List α) :
    pathOf q s (some g) none = componentsToPath q s [g] := rfl
theorem pathOf_channel (q s : α) (g c : List α) :
    pathOf q s (some g) (some c) = componentsToPath q s [g, c] := rfl

end Tdms.Proofs.C16
