import Tdms.Model.Writer
import TdmsProofs.Lemmas.BytesLemmasW

/-!
# Lemmas for C07 (value level): `to_int_property_value`, `_infer_dtype`, `_to_tdms_value`

Core Lean only.  Every statement goes through `Tdms.Generated.intPropertyRules` /
`Tdms.Generated.inferDtypeChain`: the closed forms below are *derived* from the generated rule
tables by `simp`, so a changed threshold in `nptdms/writer.py` breaks these proofs.
-/

namespace Tdms.Proofs.C07
open Tdms Tdms.Model.Writer Tdms.Generated Tdms.Proofs.BytesW

/-! ## `to_int_property_value` -/

/-- closed form of `intPropertyType`, obtained by evaluating the generated rule list -/
theorem intPropertyType_eq (v : Int) : intPropertyType v =
    if 2 ^ 63 ≤ v then tyUint64 else if 2 ^ 31 ≤ v ∨ v < -2 ^ 31 then tyInt64 else tyInt32 := by
  simp only [intPropertyType, intPropertyType.pick, intPropertyRules]
  by_cases h1 : (9223372036854775808 : Int) ≤ v
  · simp [h1]
  · by_cases h2 : (2147483648 : Int) ≤ v ∨ v < -2147483648
    · simp [h1, h2]
    · simp [h1, h2]

theorem typeSize_int32 : typeSize tyInt32 = some 4 := by decide
theorem typeSize_int64 : typeSize tyInt64 = some 8 := by decide
theorem typeSize_uint64 : typeSize tyUint64 = some 8 := by decide

/-! ## `listMax` / `listMin` -/

theorem foldl_max_ge (a : Int) (xs : List Int) : a ≤ xs.foldl max a := by
  induction xs generalizing a with
  | nil => simp
  | cons x xs ih => simp only [List.foldl_cons]; have := ih (max a x); omega

theorem foldl_max_ge_mem (a : Int) (xs : List Int) : ∀ y ∈ xs, y ≤ xs.foldl max a := by
  induction xs generalizing a with
  | nil => simp
  | cons x xs ih =>
    intro y hy
    simp only [List.foldl_cons]
    rcases List.mem_cons.mp hy with rfl | hy
    · have := foldl_max_ge (max a y) xs; omega
    · exact ih _ y hy

theorem foldl_max_mem (a : Int) (xs : List Int) : xs.foldl max a ∈ a :: xs := by
  induction xs generalizing a with
  | nil => simp
  | cons x xs ih =>
    simp only [List.foldl_cons]
    have := ih (max a x)
    rcases List.mem_cons.mp this with h | h
    · rw [h]
      by_cases hax : a ≤ x
      · rw [Int.max_eq_right hax]; simp
      · rw [Int.max_eq_left (by omega)]; simp
    · simp [h]

theorem foldl_min_le (a : Int) (xs : List Int) : xs.foldl min a ≤ a := by
  induction xs generalizing a with
  | nil => simp
  | cons x xs ih => simp only [List.foldl_cons]; have := ih (min a x); omega

theorem foldl_min_le_mem (a : Int) (xs : List Int) : ∀ y ∈ xs, xs.foldl min a ≤ y := by
  induction xs generalizing a with
  | nil => simp
  | cons x xs ih =>
    intro y hy
    simp only [List.foldl_cons]
    rcases List.mem_cons.mp hy with rfl | hy
    · have := foldl_min_le (min a y) xs; omega
    · exact ih _ y hy

theorem foldl_min_mem (a : Int) (xs : List Int) : xs.foldl min a ∈ a :: xs := by
  induction xs generalizing a with
  | nil => simp
  | cons x xs ih =>
    simp only [List.foldl_cons]
    have := ih (min a x)
    rcases List.mem_cons.mp this with h | h
    · rw [h]
      by_cases hax : a ≤ x
      · rw [Int.min_eq_left hax]; simp
      · rw [Int.min_eq_right (by omega)]; simp
    · simp [h]

theorem le_listMax {data : List Int} {x : Int} (hx : x ∈ data) : x ≤ listMax data := by
  cases data with
  | nil => cases hx
  | cons a xs =>
    rcases List.mem_cons.mp hx with rfl | h
    · exact foldl_max_ge _ _
    · exact foldl_max_ge_mem _ _ _ h

theorem listMin_le {data : List Int} {x : Int} (hx : x ∈ data) : listMin data ≤ x := by
  cases data with
  | nil => cases hx
  | cons a xs =>
    rcases List.mem_cons.mp hx with rfl | h
    · exact foldl_min_le _ _
    · exact foldl_min_le_mem _ _ _ h

theorem listMax_mem {data : List Int} (h : data ≠ []) : listMax data ∈ data := by
  cases data with
  | nil => exact absurd rfl h
  | cons a xs => exact foldl_max_mem a xs

theorem listMin_mem {data : List Int} (h : data ≠ []) : listMin data ∈ data := by
  cases data with
  | nil => exact absurd rfl h
  | cons a xs => exact foldl_min_mem a xs

/-- for a non-empty list, "every element lies in `[lo, hi]`" is a statement about min and max -/
theorem forall_range_iff {data : List Int} (h : data ≠ []) (lo hi : Int) :
    (∀ x ∈ data, lo ≤ x ∧ x ≤ hi) ↔ lo ≤ listMin data ∧ listMax data ≤ hi := by
  constructor
  · intro hall
    exact ⟨(hall _ (listMin_mem h)).1, (hall _ (listMax_mem h)).2⟩
  · rintro ⟨h1, h2⟩ x hx
    have := le_listMax hx
    have := listMin_le hx
    omega

/-! ## `_infer_dtype` -/

/-- closed form of `inferDtype`, obtained by evaluating the generated chain -/
theorem inferDtype_eq (data : List Int) : inferDtype data =
    (if 2 ^ 63 ≤ listMax data ∧ 0 ≤ listMin data then "uint64"
     else if 2 ^ 32 ≤ listMax data ∨ listMin data < -2 ^ 31 then "int64"
     else if 2 ^ 31 ≤ listMax data ∧ 0 ≤ listMin data then "uint32"
     else if 2 ^ 16 ≤ listMax data ∨ listMin data < -2 ^ 15 then "int32"
     else if 2 ^ 15 ≤ listMax data ∧ 0 ≤ listMin data then "uint16"
     else if 2 ^ 8 ≤ listMax data ∨ listMin data < -2 ^ 7 then "int16"
     else if 2 ^ 7 ≤ listMax data ∧ 0 ≤ listMin data then "uint8" else "int8") := by
  simp [inferDtype, inferDtype.go, inferDtypeChain]

theorem dtypeRange_int8 : dtypeRange "int8" = (-2 ^ 7, 2 ^ 7 - 1) := by decide
theorem dtypeRange_uint8 : dtypeRange "uint8" = (0, 2 ^ 8 - 1) := by decide
theorem dtypeRange_int16 : dtypeRange "int16" = (-2 ^ 15, 2 ^ 15 - 1) := by decide
theorem dtypeRange_uint16 : dtypeRange "uint16" = (0, 2 ^ 16 - 1) := by decide
theorem dtypeRange_int32 : dtypeRange "int32" = (-2 ^ 31, 2 ^ 31 - 1) := by decide
theorem dtypeRange_uint32 : dtypeRange "uint32" = (0, 2 ^ 32 - 1) := by decide
theorem dtypeRange_int64 : dtypeRange "int64" = (-2 ^ 63, 2 ^ 63 - 1) := by decide
theorem dtypeRange_uint64 : dtypeRange "uint64" = (0, 2 ^ 64 - 1) := by decide

end Tdms.Proofs.C07
