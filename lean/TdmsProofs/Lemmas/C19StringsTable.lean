import TdmsProofs.Lemmas.C19StringsWindow

/-!
# C19Strings: arbitrary bytes — an executable check of the string offset tables of a window

`windowTablesOK f p off len` looks, for every planned chunk of every contiguous segment of the window, at the
object `readChannelChunkContiguous` arrives at: a fixed-width object passes; a string object passes when
the offset table found in the file is non-decreasing and `4n + last ≤ declared size`.  It implies
`WindowReadable` (`windowReadable_of_tablesOK`).  Core Lean only.
-/

namespace Tdms.Proofs.C19S

open Tdms Tdms.Model Tdms.Generated Tdms.Proofs.C05 Tdms.Proofs.C19

/-- the check for chunk `j` (which starts at `c`) -/
def chunkTableOK (file : Bytes) (s : Segment) (p : Bytes) (j c : Nat) : Bool :=
  match channelLoc s j p (C19.dataObjs s) c with
  | none => true
  | some (o, a) =>
    match o.dataType.bind typeSize with
    | some _ => true
    | none =>
      decide (o.dataType = some tyString) &&
      decide (MonoFrom 0 (tableAt file s.endian a (channelNumberValues s o j))) &&
      decide (4 * channelNumberValues s o j + lastFrom 0 (tableAt file s.endian a (channelNumberValues s o j)) ≤
        o.dataSize)

theorem chunkReadable_of_tableOK (file : Bytes) (s : Segment) (p : Bytes) (j c : Nat)
    (h : chunkTableOK file s p j c = true) : ChunkReadable file s (C19.dataObjs s) p j c := by
  intro o a hloc
  unfold chunkTableOK at h
  rw [hloc] at h
  dsimp only at h
  cases hsz : o.dataType.bind typeSize with
  | some sz => exact readsWithin_of_sized file s j o a sz hsz
  | none =>
    rw [hsz] at h
    simp only [Bool.and_eq_true, decide_eq_true_eq] at h
    exact readsWithin_of_table file s j o a h.1.1 h.1.2 h.2

/-- the check for the planned run `co … co + nc − 1` of segment `s` -/
def segTablesOK (file : Bytes) (s : Segment) (p : Bytes) (co : Nat) (nc : Int) : Bool :=
  match chunkSize s.objects with
  | .ok cs => (List.range nc.toNat).all fun i => chunkTableOK file s p (co + i) (s.dataPosition + cs * co + i * cs)
  | .error _ => true

theorem segReadable_of_tablesOK (file : Bytes) (s : Segment) (p : Bytes) (co : Nat) (nc : Int)
    (h : segTablesOK file s p co nc = true) : SegReadable file s p co nc := by
  intro cs hcs i hi
  unfold segTablesOK at h
  rw [hcs] at h
  simp only [List.all_eq_true, List.mem_range] at h
  exact chunkReadable_of_tableOK file s p _ _ (h i hi)

/-- the check for the window `(off, len)` of channel `p` -/
def windowTablesOK (f : OpenFile) (p : Bytes) (off : Int) (len : Option Int) : Bool :=
  (List.range (windowSegs f (windowOf f p off len)).length).all fun k =>
    match (windowSegs f (windowOf f p off len))[k]? with
    | none => true
    | some s =>
      match dataReaderKind s with
      | .ok .contiguous =>
        (match segPlan p (windowOf f p off len).ix off (windowOf f p off len).endIndex
            (windowOf f p off len).startSeg (windowOf f p off len).endSeg ((windowOf f p off len).startSeg + k) s with
          | none => true
          | some (co, _, nc) => segTablesOK f.file s p co.toNat nc)
      | _ => true

theorem windowReadable_of_tablesOK (f : OpenFile) (p : Bytes) (off : Int) (len : Option Int)
    (h : windowTablesOK f p off len = true) : WindowReadable f p off len := by
  intro k s hk co skip nc hplan hkind
  unfold windowTablesOK at h
  simp only [List.all_eq_true, List.mem_range] at h
  have hlt : k < (windowSegs f (windowOf f p off len)).length := by
    rcases Nat.lt_or_ge k (windowSegs f (windowOf f p off len)).length with h' | h'
    · exact h'
    · rw [List.getElem?_eq_none h'] at hk; cases hk
  have := h k hlt
  rw [hk] at this
  dsimp only at this
  rw [hkind] at this
  dsimp only at this
  rw [hplan] at this
  exact segReadable_of_tablesOK f.file s p co.toNat nc this

/-! ## an executable form of `SegWF` -/

/-- `SegWF` as a Boolean check -/
def segWFB (s : Segment) : Bool :=
  ((C19.dataObjs s).all fun o =>
    match o.dataType.bind typeSize with
    | some sz => o.dataSize == o.numberValues * sz
    | none => true) &&
  (match s.override with
   | none => true
   | some ov => (C19.dataObjs s).all fun o => decide (overrideGet ov o.path ≤ o.numberValues))

theorem segWFB_sound {s : Segment} (h : segWFB s = true) : SegWF s := by
  unfold segWFB at h
  rw [Bool.and_eq_true] at h
  obtain ⟨h1, h2⟩ := h
  rw [List.all_eq_true] at h1
  refine ⟨?_, ?_⟩
  · intro o ho sz hsz
    have := h1 o ho
    rw [hsz] at this
    simpa using this
  · intro ov hov o ho
    rw [hov] at h2
    simp only [List.all_eq_true, decide_eq_true_eq] at h2
    exact h2 o ho

end Tdms.Proofs.C19S
