import TdmsProofs.Lemmas.C04WholeFile
import TdmsProofs.Lemmas.C04SliceLemmas

/-!
# C04Whole: `channel[a:b:c]` from the window read

`channelReadSlice` on an open file whose window reads return `full[off : off + l]` returns CPython's
`full[a:b:c]` (this is `read_slice_end_to_end` of C04 with the window read as the only hypothesis).
Core Lean only.
-/

namespace Tdms.Proofs.C04Whole

open Tdms Tdms.Model Tdms.Proofs.C04

theorem channelReadSlice_of_window (f : OpenFile) (p : Bytes) (m : ObjMeta) (fullv : List Bytes)
    (hm : f.objects.get p = some m) (hn : m.numValues = fullv.length)
    (hread : ∀ (off l : Int), 0 ≤ off → 0 ≤ l → ∀ st : FState, ∃ st' r,
      (channelReadData f p off (some l)).run st = .ok (some r, st') ∧
        r.data.getD [] = (fullv.drop off.toNat).take l.toNat)
    (a b c : Option Int) (st : FState) :
    match Tdms.Spec.PySlice.pySlice fullv a b c with
    | .error _ => (channelReadSlice f p a b c).run st = .error .stepZero
    | .ok xs => ∃ st', (channelReadSlice f p a b c).run st = .ok (xs, st') := by
  have hspec := sliceResult_eq_pySlice fullv a b c
  unfold sliceResult at hspec
  rw [← hn] at hspec
  rw [channelReadSlice_eq, hm]
  simp only [Option.map_some, Option.getD_some]
  cases hreq : sliceRequest (m.numValues : Int) a b c with
  | error e =>
    rw [hreq] at hspec
    cases hpy : Tdms.Spec.PySlice.pySlice fullv a b c with
    | error u =>
      rw [hpy] at hspec
      simp only [Except.mapError, Except.error.injEq] at hspec
      subst hspec; rfl
    | ok xs => rw [hpy] at hspec; simp [Except.mapError] at hspec
  | ok r =>
    rw [hreq] at hspec
    cases r with
    | none =>
      cases hpy : Tdms.Spec.PySlice.pySlice fullv a b c with
      | error u => rw [hpy] at hspec; simp [Except.mapError] at hspec
      | ok xs =>
        rw [hpy] at hspec
        simp only [Except.mapError, Except.ok.injEq] at hspec
        subst hspec
        exact ⟨st, rfl⟩
    | some t =>
      obtain ⟨off, l, stp⟩ := t
      obtain ⟨h0, hl0, _, _⟩ := sliceRequest_in_range m.numValues a b c off l stp hreq
      obtain ⟨st', r, hrun, hr⟩ := hread off l h0 hl0 st
      cases hpy : Tdms.Spec.PySlice.pySlice fullv a b c with
      | error u => rw [hpy] at hspec; simp [Except.mapError] at hspec
      | ok xs =>
        rw [hpy] at hspec
        simp only [Except.mapError, Except.ok.injEq] at hspec
        refine ⟨st', ?_⟩
        simp only [bind, StateT.bind, StateT.run, Except.bind] at hrun ⊢
        rw [hrun]
        simp only []
        rw [hr, hspec]
        rfl

end Tdms.Proofs.C04Whole
