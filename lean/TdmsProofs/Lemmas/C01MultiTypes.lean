/-
  C01 for multi-segment files: one segment of `denoteSeg` against the reader's metadata update
  (`segment_metas`), and what the content knows about data types (`TyOK`, `hasTy`).  Core Lean only.
-/
import TdmsProofs.Lemmas.C01MultiContent

namespace Tdms.Proofs.C01Multi

open Tdms Tdms.Generated Tdms.Model Tdms.Proofs.C02
open Tdms.Proofs.Bytes (canonProp)

/-! ## one segment -/

theorem applyProps_present : ∀ (os : List ObjEnc) (c : Content) (q : Bytes),
    c.any (fun o => decide (o.path = q)) = true →
    (applyProps c os).any (fun o => decide (o.path = q)) = true := by
  intro os
  induction os with
  | nil => intro c q h; exact h
  | cons o os ih =>
    intro c q h
    rw [applyProps]
    exact ih _ _ (modify_present_mono _ _ _ _ (fun _ => rfl) h)

/-- the `properties` dictionary the reader builds for a segment -/
def propsDict (s : SegEnc) : List (Bytes × List PropVal) :=
  (s.objs.filter fun o => !o.props.isEmpty).map fun o => (o.path, o.props.map canonProp)

/-- **one segment, metadata**: the reader's updates of `object_metadata` turn the view of `c` into the
    view of `denoteSeg c s a` -/
theorem segment_metas (seg : Segment) (hov : seg.override = none) (s : SegEnc) (a : List ActiveObj)
    (last' : LastIdx) (c : Content) (hk : seg.numChunks = s.chunks.length)
    (hidx : ∀ x ∈ a, x.idx = last'.get x.path)
    (hgood : ∀ x ∈ a, ∀ d, x.idx = some d → GoodDesc d)
    (hty : ∀ oc ∈ c, last'.get oc.path = none → oc.ty = none)
    (hlisted : s.hasMeta = true → ∀ o ∈ s.objs, o.path ∈ a.map (·.path))
    (hnoMeta : s.hasMeta = false → s.objs = [])
    (hchunks : ∀ ch ∈ s.chunks, wfStdChunk (dataObjs a) ch = true) :
    updateObjectProperties ((a.map concObj).foldl (stepMetas seg) (c.map (mOC fun _ => 0))) (propsDict s) =
      (denoteSeg c s a).map (mOC fun _ => 0) := by
  have hnd := not_daq_of_good hgood
  rw [declare_sim seg hov last' a c (fun _ => 0) hidx (fun x hx => notDaq_of_good (hgood x hx)) hty
    (fun _ _ => rfl)]
  have hpresA : ∀ x ∈ a, (declareObjs c a).any (fun o => decide (o.path = x.path)) = true :=
    fun x hx => declareObjs_present a c x.path (Or.inr (List.mem_map.2 ⟨x, hx, rfl⟩))
  unfold denoteSeg
  simp only []
  by_cases hm : s.hasMeta = true
  · simp only [hm, if_true]
    rw [propsDict, props_sim _ s.objs (declareObjs c a)
      (fun o ho => declareObjs_present a c o.path (Or.inr (hlisted hm o ho))),
      chunks_counts s a hnd s.chunks _ (fun _ => 0) hchunks
        (fun x hx => applyProps_present _ _ _ (hpresA x hx)), hk]
  · have hm' : s.hasMeta = false := by simpa using hm
    simp only [hm', Bool.false_eq_true, if_false]
    rw [propsDict, hnoMeta hm']
    simp only [List.filter_nil, List.map_nil, updateObjectProperties]
    rw [chunks_counts s a hnd s.chunks _ (fun _ => 0) hchunks hpresA, hk]

/-! ## data types in the content -/

/-- no content entry has the DAQmx raw type -/
def TyOK (c : Content) : Prop := ∀ oc ∈ c, ∀ ty, oc.ty = some ty → ty ≠ tyDaqmxRaw

/-- the content has an entry with a data type under this path -/
def hasTy (c : Content) (p : Bytes) : Prop := ∃ oc ∈ c, oc.path = p ∧ oc.ty.isSome = true

theorem modify_forall {c : Content} {p : Bytes} {f : ObjContent → ObjContent} (Q : ObjContent → Prop)
    (hc : ∀ oc ∈ c, Q oc) (hf : ∀ oc, Q oc → Q (f oc)) (hd : Q (f (dflt p))) :
    ∀ oc ∈ c.modify p f, Q oc := by
  intro oc hoc
  rcases mem_modify hoc with ⟨h1, _⟩ | ⟨y, hy, _, rfl⟩ | rfl
  · exact hc oc h1
  · exact hf y (hc y hy)
  · exact hd

theorem hasTy_modify {c : Content} {p q : Bytes} {f : ObjContent → ObjContent}
    (hf : ∀ x, (f x).path = x.path) (hty : ∀ x, x.ty.isSome = true → (f x).ty.isSome = true)
    (h : hasTy c q) : hasTy (c.modify p f) q := by
  obtain ⟨oc, hoc, hp, ht⟩ := h
  unfold Content.modify
  split
  · by_cases hx : oc.path = p
    · exact ⟨f oc, List.mem_map.2 ⟨oc, hoc, by simp [hx]⟩, by rw [hf, hp], hty oc ht⟩
    · exact ⟨oc, List.mem_map.2 ⟨oc, hoc, by simp [hx]⟩, hp, ht⟩
  · exact ⟨oc, List.mem_append_left _ hoc, hp, ht⟩

theorem hasTy_modify_self {c : Content} {p : Bytes} {f : ObjContent → ObjContent}
    (hf : ∀ x, (f x).path = x.path) (hty : ∀ x, (f x).ty.isSome = true) : hasTy (c.modify p f) p := by
  have := find_modify c p p f hf
  simp only [if_true] at this
  refine ⟨_, List.mem_of_find?_eq_some this, ?_, hty _⟩
  have := List.find?_some this
  simpa using this

theorem hasTy_declareObjs : ∀ (act : List ActiveObj) (c : Content) (q : Bytes), hasTy c q →
    hasTy (declareObjs c act) q := by
  intro act
  induction act with
  | nil => intro c q h; exact h
  | cons a as ih =>
    intro c q h
    rw [declareObjs]
    apply ih
    refine hasTy_modify ?_ ?_ h
    · intro x; rfl
    · intro x hx
      cases hi : a.idx with
      | none => simpa using hx
      | some d => simp

theorem hasTy_declared : ∀ (act : List ActiveObj) (c : Content) (a : ActiveObj), a ∈ act →
    a.idx ≠ none → hasTy (declareObjs c act) a.path := by
  intro act
  induction act with
  | nil => intro _ a h; cases h
  | cons b bs ih =>
    intro c a ha hi
    rw [declareObjs]
    rcases List.mem_cons.1 ha with rfl | ha'
    · apply hasTy_declareObjs
      refine hasTy_modify_self ?_ ?_
      · intro x; rfl
      · intro x
        cases hd : a.idx with
        | none => exact absurd hd hi
        | some d => simp
    · exact ih _ a ha' hi

theorem hasTy_applyProps : ∀ (os : List ObjEnc) (c : Content) (q : Bytes), hasTy c q →
    hasTy (applyProps c os) q := by
  intro os
  induction os with
  | nil => intro c q h; exact h
  | cons o os ih =>
    intro c q h
    rw [applyProps]
    refine ih _ _ (hasTy_modify ?_ ?_ h)
    · intro x; rfl
    · intro x hx; exact hx

theorem hasTy_addStdChunk : ∀ (d : List ActiveObj) (ch : List (List Bytes)) (c : Content) (q : Bytes),
    hasTy c q → hasTy (addStdChunk c d ch) q := by
  intro d
  induction d with
  | nil => intro ch c q h; cases ch <;> exact h
  | cons a as ih =>
    intro ch c q h
    cases ch with
    | nil => exact h
    | cons v vs =>
      rw [addStdChunk]
      refine ih _ _ _ (hasTy_modify ?_ ?_ h)
      · intro x; rfl
      · intro x hx; exact hx

theorem hasTy_chunks (s : SegEnc) (a : List ActiveObj) (hnd : (dataObjs a).any isDaqmxObj = false) :
    ∀ (chs : List (List (List Bytes))) (c : Content) (q : Bytes), hasTy c q →
      hasTy (chs.foldl (addChunk s a) c) q := by
  intro chs
  induction chs with
  | nil => intro c q h; exact h
  | cons ch chs ih =>
    intro c q h
    rw [List.foldl_cons]
    apply ih
    rw [addChunk_std s a hnd]
    exact hasTy_addStdChunk _ _ _ _ h

theorem hasTy_denoteSeg (c : Content) (s : SegEnc) (a : List ActiveObj)
    (hnd : (dataObjs a).any isDaqmxObj = false) (q : Bytes) (h : hasTy c q) :
    hasTy (denoteSeg c s a) q := by
  unfold denoteSeg
  apply hasTy_chunks s a hnd
  split
  · exact hasTy_applyProps _ _ _ (hasTy_declareObjs _ _ _ h)
  · exact hasTy_declareObjs _ _ _ h

theorem hasTy_denoteSeg_active (c : Content) (s : SegEnc) (a : List ActiveObj)
    (hnd : (dataObjs a).any isDaqmxObj = false) (x : ActiveObj) (hx : x ∈ a) (hi : x.idx ≠ none) :
    hasTy (denoteSeg c s a) x.path := by
  unfold denoteSeg
  apply hasTy_chunks s a hnd
  split
  · exact hasTy_applyProps _ _ _ (hasTy_declared _ _ _ hx hi)
  · exact hasTy_declared _ _ _ hx hi

theorem goodDesc_ty_ne_raw {d : IdxDesc} (h : GoodDesc d) : d.ty ≠ tyDaqmxRaw := by
  cases d with
  | daq dg ty n sc w => exact absurd h (by simp [GoodDesc])
  | std ty n total =>
    simp only [GoodDesc] at h
    simp only [IdxDesc.ty]
    rcases h.1 with h1 | h1
    · rw [h1]; decide
    · intro e; rw [e] at h1; revert h1; decide

theorem tyOK_declareObjs : ∀ (act : List ActiveObj) (c : Content),
    (∀ x ∈ act, ∀ d, x.idx = some d → GoodDesc d) → TyOK c → TyOK (declareObjs c act) := by
  intro act
  induction act with
  | nil => intro c _ h; exact h
  | cons a as ih =>
    intro c hg h
    rw [declareObjs]
    apply ih _ (fun x hx => hg x (List.mem_cons_of_mem _ hx))
    have hstep : ∀ oc : ObjContent, (∀ ty, oc.ty = some ty → ty ≠ tyDaqmxRaw) →
        ∀ ty, ((a.idx.map (·.ty)).orElse fun _ => oc.ty) = some ty → ty ≠ tyDaqmxRaw := by
      intro oc hoc ty hty
      cases hi : a.idx with
      | none => rw [hi] at hty; exact hoc ty (by simpa using hty)
      | some d =>
        rw [hi] at hty
        simp only [Option.map_some, Option.orElse_some, Option.some.injEq] at hty
        rw [← hty]
        exact goodDesc_ty_ne_raw (hg a List.mem_cons_self d hi)
    apply modify_forall (fun oc => ∀ ty, oc.ty = some ty → ty ≠ tyDaqmxRaw) h
    · intro oc hoc; exact hstep oc hoc
    · exact hstep (dflt a.path) (by intro ty h; cases h)

theorem tyOK_applyProps : ∀ (os : List ObjEnc) (c : Content), TyOK c → TyOK (applyProps c os) := by
  intro os
  induction os with
  | nil => intro c h; exact h
  | cons o os ih =>
    intro c h
    rw [applyProps]
    apply ih
    exact modify_forall (fun oc => ∀ ty, oc.ty = some ty → ty ≠ tyDaqmxRaw) h (fun _ hoc => hoc)
      (by intro ty h; cases h)

theorem tyOK_addStdChunk : ∀ (d : List ActiveObj) (ch : List (List Bytes)) (c : Content), TyOK c →
    TyOK (addStdChunk c d ch) := by
  intro d
  induction d with
  | nil => intro ch c h; cases ch <;> exact h
  | cons a as ih =>
    intro ch c h
    cases ch with
    | nil => exact h
    | cons v vs =>
      rw [addStdChunk]
      apply ih
      exact modify_forall (fun oc => ∀ ty, oc.ty = some ty → ty ≠ tyDaqmxRaw) h (fun _ hoc => hoc)
        (by intro ty h; cases h)

theorem tyOK_chunks (s : SegEnc) (a : List ActiveObj) (hnd : (dataObjs a).any isDaqmxObj = false) :
    ∀ (chs : List (List (List Bytes))) (c : Content), TyOK c → TyOK (chs.foldl (addChunk s a) c) := by
  intro chs
  induction chs with
  | nil => intro c h; exact h
  | cons ch chs ih =>
    intro c h
    rw [List.foldl_cons]
    apply ih
    rw [addChunk_std s a hnd]
    exact tyOK_addStdChunk _ _ _ h

theorem tyOK_denoteSeg (c : Content) (s : SegEnc) (a : List ActiveObj)
    (hg : ∀ x ∈ a, ∀ d, x.idx = some d → GoodDesc d) (h : TyOK c) : TyOK (denoteSeg c s a) := by
  unfold denoteSeg
  apply tyOK_chunks s a (not_daq_of_good hg)
  split
  · exact tyOK_applyProps _ _ (tyOK_declareObjs _ _ hg h)
  · exact tyOK_declareObjs _ _ hg h

end Tdms.Proofs.C01Multi
