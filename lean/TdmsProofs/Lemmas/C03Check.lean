/-
  C03 — executable checkers for the invariants `SegsOk` and `ChanOk`, with soundness proofs, so
  that the hypotheses of the C03 theorems can be verified on concrete files by evaluation.
  Core Lean only.
-/
import TdmsProofs.Lemmas.C03Main
import TdmsProofs.Lemmas.C03Sized
import TdmsProofs.Lemmas.C03FileIterG
import TdmsProofs.Lemmas.C03MixedMain
import TdmsProofs.Lemmas.C01ComposeFile

namespace Tdms.Proofs.C03

open Tdms Tdms.Generated Tdms.Model Tdms.Proofs.Bytes Tdms.Proofs.C04

def contigOkB (file : Bytes) (s : Segment) : Bool :=
  (match dataReaderKind s with
    | .ok .contiguous => true
    | _ => false) &&
  (match chunkSize s.objects with
    | .ok _ => true
    | .error _ => false) &&
  (List.range s.numChunks).all fun ci =>
    (exactChunk file s ci (dataObjs s) (s.dataPosition + ci * segCsz s)).isSome

theorem contigOkB_sound {file : Bytes} {s : Segment} (h : contigOkB file s = true) : ContigOk file s (segCsz s) := by
  unfold contigOkB at h
  simp only [Bool.and_eq_true, List.all_eq_true, List.mem_range] at h
  obtain ⟨⟨h1, h2⟩, h3⟩ := h
  refine ⟨?_, ?_, h3⟩
  · cases hk : dataReaderKind s with
    | error e => rw [hk] at h1; cases h1
    | ok k => cases k <;> simp_all
  · unfold segCsz
    cases hc : chunkSize s.objects with
    | error e => rw [hc] at h2; cases h2
    | ok c => rfl

def segOkB (file : Bytes) (s : Segment) : Bool :=
  decide ((file.drop s.position).take 4 = tagData) &&
  decide ((s.objects.map (·.path)).Nodup) &&
  (hasFlag s.toc kTocRawData || decide (s.numChunks = 0)) &&
  contigOkB file s

theorem segOkB_sound {file : Bytes} {s : Segment} (h : segOkB file s = true) : SegOk file s := by
  unfold segOkB at h
  simp only [Bool.and_eq_true, Bool.or_eq_true, decide_eq_true_eq] at h
  obtain ⟨⟨⟨h1, h2⟩, h3⟩, h4⟩ := h
  refine ⟨h1, h2, ?_, contigOkB_sound h4⟩
  intro hr
  rcases h3 with h3 | h3
  · rw [hr] at h3; cases h3
  · exact h3

def segsOkB (file : Bytes) (segs : List Segment) : Bool := segs.all (segOkB file)

theorem segsOkB_sound {file : Bytes} {segs : List Segment} (h : segsOkB file segs = true) : SegsOk file segs := by
  intro s hs
  exact segOkB_sound (List.all_eq_true.mp h s hs)

def chanOkB (objects : ObjMetas) (segs : List Segment) (p : Bytes) : Bool :=
  match objects.get p with
  | some m => decide (WellFormed (segs.map (layoutOf p))) && decide (m.numValues = total (segs.map (layoutOf p)))
  | none => false

theorem chanOkB_sound {objects : ObjMetas} {segs : List Segment} {p : Bytes} (h : chanOkB objects segs p = true) :
    ∃ m, ChanOk objects segs p m := by
  unfold chanOkB at h
  cases hm : objects.get p with
  | none => rw [hm] at h; cases h
  | some m =>
    rw [hm] at h
    simp only [Bool.and_eq_true, decide_eq_true_eq] at h
    exact ⟨m, hm, h.1, h.2⟩

def segShapeB (s : Segment) : Bool :=
  decide ((s.objects.map (·.path)).Nodup) &&
  (match dataReaderKind s with
    | .ok .contiguous => true
    | _ => false) &&
  (hasFlag s.toc kTocRawData || decide (s.numChunks = 0))

theorem segShapeB_sound {s : Segment} (h : segShapeB s = true) : SegShape s := by
  unfold segShapeB at h
  simp only [Bool.and_eq_true, Bool.or_eq_true, decide_eq_true_eq] at h
  obtain ⟨⟨h1, h2⟩, h3⟩ := h
  refine ⟨h1, ?_, ?_⟩
  · cases hk : dataReaderKind s with
    | error e => rw [hk] at h2; cases h2
    | ok k => cases k <;> simp_all
  · intro hr
    rcases h3 with h3 | h3
    · rw [hr] at h3; cases h3
    · exact h3

def sizedOkB (s : Segment) : Bool :=
  (dataObjs s).all fun o =>
    match o.dataType.bind typeSize with
    | some sz => decide (o.dataSize = o.numberValues * sz)
    | none => false

theorem sizedOkB_sound {s : Segment} (h : sizedOkB s = true) : SizedOk s := by
  intro o ho
  unfold sizedOkB at h
  have := List.all_eq_true.mp h o ho
  cases hty : o.dataType with
  | none => simp [hty] at this
  | some ty =>
    cases hsz : typeSize ty with
    | none => simp [hty, hsz] at this
    | some sz =>
      simp only [hty, hsz, Option.bind_some, decide_eq_true_eq] at this
      exact ⟨ty, sz, rfl, hsz, this⟩

def segFOkB (file : Bytes) (s : Segment) : Bool :=
  decide ((file.drop s.position).take 4 = tagData) &&
  (contigOkB file s ||
    ((match dataReaderKind s with
      | .ok .interleaved => true
      | _ => false) &&
     (match chunkSize s.objects with
      | .ok _ => true
      | .error _ => false) &&
     (match interRead file s with
      | .ok _ => true
      | .error _ => false)))

theorem segFOkB_sound {file : Bytes} {s : Segment} (h : segFOkB file s = true) : SegFOk file s := by
  unfold segFOkB at h
  simp only [Bool.and_eq_true, Bool.or_eq_true, decide_eq_true_eq] at h
  obtain ⟨h1, h2⟩ := h
  refine ⟨h1, ?_⟩
  rcases h2 with h2 | ⟨⟨h2, h3⟩, h4⟩
  · exact Or.inl (contigOkB_sound h2)
  · right
    refine ⟨?_, ?_, ?_⟩
    · cases hk : dataReaderKind s with
      | error e => rw [hk] at h2; cases h2
      | ok k => cases k <;> simp_all
    · cases hc : chunkSize s.objects with
      | error e => rw [hc] at h3; cases h3
      | ok c => exact ⟨c, rfl⟩
    · cases hr : interRead file s with
      | error e => rw [hr] at h4; cases h4
      | ok r => exact ⟨r, rfl⟩

def segsFOkB (file : Bytes) (segs : List Segment) : Bool := segs.all (segFOkB file)

theorem segsFOkB_sound {file : Bytes} {segs : List Segment} (h : segsFOkB file segs = true) : SegsFOk file segs := by
  intro s hs
  exact segFOkB_sound (List.all_eq_true.mp h s hs)

def segMOkB (file : Bytes) (s : Segment) : Bool :=
  decide ((file.drop s.position).take 4 = tagData) &&
  decide ((s.objects.map (·.path)).Nodup) &&
  (hasFlag s.toc kTocRawData || decide (s.numChunks = 0)) &&
  (contigOkB file s ||
    ((match dataReaderKind s with
      | .ok .interleaved => true
      | _ => false) &&
     (match chunkSize s.objects with
      | .ok _ => true
      | .error _ => false) &&
     s.override.isNone &&
     (match interRead file s with
      | .ok _ => true
      | .error _ => false)))

theorem segMOkB_sound {file : Bytes} {s : Segment} (h : segMOkB file s = true) : SegMOk file s := by
  unfold segMOkB at h
  simp only [Bool.and_eq_true, Bool.or_eq_true, decide_eq_true_eq] at h
  obtain ⟨⟨⟨h1, h2⟩, h3⟩, h4⟩ := h
  refine ⟨h1, h2, ?_, ?_⟩
  · intro hr
    rcases h3 with h3 | h3
    · rw [hr] at h3; cases h3
    · exact h3
  · rcases h4 with h4 | ⟨⟨⟨h4, h5⟩, h6⟩, h7⟩
    · exact Or.inl (contigOkB_sound h4)
    · right
      refine ⟨?_, ?_, ?_, ?_⟩
      · cases hk : dataReaderKind s with
        | error e => rw [hk] at h4; cases h4
        | ok k => cases k <;> simp_all
      · unfold segCsz
        cases hc : chunkSize s.objects with
        | error e => rw [hc] at h5; cases h5
        | ok c => rfl
      · cases ho : s.override with
        | none => rfl
        | some ov => rw [ho] at h6; cases h6
      · cases hr : interRead file s with
        | error e => rw [hr] at h7; cases h7
        | ok r => exact ⟨r, rfl⟩

def segsMOkB (file : Bytes) (segs : List Segment) : Bool := segs.all (segMOkB file)

theorem segsMOkB_sound {file : Bytes} {segs : List Segment} (h : segsMOkB file segs = true) : SegsMOk file segs := by
  intro s hs
  exact segMOkB_sound (List.all_eq_true.mp h s hs)

/-- the eager read succeeds, the segments satisfy `SegsOk`, and every listed path satisfies `ChanOk` -/
def checkAll (file : Bytes) (ps : List Bytes) : Bool :=
  match readFile file with
  | .ok r => segsOkB file r.state.segments && ps.all fun p => chanOkB r.state.objects r.state.segments p
  | .error _ => false

theorem checkAll_sound {file : Bytes} {ps : List Bytes} (h : checkAll file ps = true) :
    ∃ r, readFile file = .ok r ∧ SegsOk file r.state.segments ∧
      ∀ p ∈ ps, ∃ m, ChanOk r.state.objects r.state.segments p m := by
  unfold checkAll at h
  cases hr : readFile file with
  | error e => rw [hr] at h; cases h
  | ok r =>
    rw [hr] at h
    simp only [Bool.and_eq_true, List.all_eq_true] at h
    exact ⟨r, rfl, segsOkB_sound h.1, fun p hp => chanOkB_sound (h.2 p hp)⟩

end Tdms.Proofs.C03
