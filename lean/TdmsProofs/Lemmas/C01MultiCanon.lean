/-
  C01 for multi-segment files: the `total` field of a fixed-width index is never written, so an encoding
  and its canonical form (`canonSeg`: `total := n * size` for fixed-width types) have the same bytes, the
  same meaning and the same well-formedness; their active lists differ only in that field.  Core Lean only.
-/
import TdmsProofs.Lemmas.C01MultiFile

namespace Tdms.Proofs.C01Multi

open Tdms Tdms.Generated Tdms.Model Tdms.Proofs.C02

def canonDesc : IdxDesc → IdxDesc
  | .std ty n total => .std ty n (if ty = tyString then total else n * (typeSize ty).getD 0)
  | d => d

def canonAct (a : ActiveObj) : ActiveObj := { a with idx := a.idx.map canonDesc }

def canonLast (l : LastIdx) : LastIdx := l.map fun pd => (pd.1, canonDesc pd.2)

@[simp] theorem canonDesc_ty (d : IdxDesc) : (canonDesc d).ty = d.ty := by cases d <;> rfl
@[simp] theorem canonDesc_n (d : IdxDesc) : (canonDesc d).n = d.n := by cases d <;> rfl
@[simp] theorem canonAct_path (a : ActiveObj) : (canonAct a).path = a.path := rfl
@[simp] theorem canonAct_hasData (a : ActiveObj) : (canonAct a).hasData = a.hasData := rfl
@[simp] theorem canonObj_path (o : ObjEnc) : (canonObj o).path = o.path := rfl
@[simp] theorem canonObj_props (o : ObjEnc) : (canonObj o).props = o.props := rfl

theorem canonAct_ty (a : ActiveObj) : (canonAct a).idx.map (·.ty) = a.idx.map (·.ty) := by
  simp [canonAct, Option.map_map, Function.comp_def]

theorem canonAct_n (a : ActiveObj) : (canonAct a).idx.map (·.n) = a.idx.map (·.n) := by
  simp [canonAct, Option.map_map, Function.comp_def]

theorem get_canonLast (l : LastIdx) (p : Bytes) : (canonLast l).get p = (l.get p).map canonDesc := by
  unfold LastIdx.get canonLast
  rw [List.find?_map]
  have : ((fun x : Bytes × IdxDesc => decide (x.1 = p)) ∘ fun pd : Bytes × IdxDesc => (pd.1, canonDesc pd.2)) =
      fun x => decide (x.1 = p) := by funext x; rfl
  rw [this]
  cases l.find? (fun x => decide (x.1 = p)) <;> rfl

theorem set_canonLast (l : LastIdx) (p : Bytes) (d : IdxDesc) :
    canonLast (l.set p d) = (canonLast l).set p (canonDesc d) := by
  unfold LastIdx.set canonLast
  simp only [List.map_cons, List.filter_map]
  congr 2

theorem placeObj_canon (act : List ActiveObj) (a : ActiveObj) :
    placeObj (act.map canonAct) (canonAct a) = (placeObj act a).map canonAct := by
  unfold placeObj
  have hany : (act.map canonAct).any (fun x => decide (x.path = (canonAct a).path)) =
      act.any (fun x => decide (x.path = a.path)) := by
    rw [List.any_map]; rfl
  rw [hany]
  split
  · simp only [List.map_map]
    apply List.map_congr_left
    intro x _
    simp only [Function.comp, canonAct_path]
    by_cases hx : x.path = a.path <;> simp [hx]
  · simp

theorem resolveObj_canon {last : LastIdx} {o : ObjEnc} {a : ActiveObj} {last' : LastIdx}
    (h : resolveObj last o = .ok (a, last')) :
    resolveObj (canonLast last) (canonObj o) = .ok (canonAct a, canonLast last') := by
  unfold resolveObj at h ⊢
  simp only [canonObj, get_canonLast]
  cases hi : o.idx with
  | noData =>
    rw [hi] at h
    simp only [canonIdx] at h ⊢
    cases h
    rfl
  | matchesPrev =>
    rw [hi] at h
    simp only [canonIdx] at h ⊢
    cases hg : last.get o.path with
    | none => rw [hg] at h; cases h
    | some d => rw [hg] at h; cases h; rfl
  | full ty n total =>
    rw [hi] at h
    simp only [canonIdx] at h ⊢
    cases hg : last.get o.path with
    | none =>
      rw [hg] at h
      cases h
      simp only [Option.map_none, set_canonLast]
      rfl
    | some d =>
      rw [hg] at h
      simp only [Option.map_some, canonDesc_ty] at h ⊢
      split at h
      · cases h
      · rename_i hne
        cases h
        simp only [hne, if_false, set_canonLast]
        rfl
  | daqmx dg ty n sc w =>
    rw [hi] at h
    simp only [canonIdx] at h ⊢
    cases hg : last.get o.path with
    | none =>
      rw [hg] at h
      cases h
      simp only [Option.map_none, set_canonLast]
      rfl
    | some d =>
      rw [hg] at h
      simp only [Option.map_some, canonDesc_ty] at h ⊢
      split at h
      · cases h
      · rename_i hne
        cases h
        simp only [hne, if_false, set_canonLast]
        rfl

theorem resolveObjs_canon : ∀ (os : List ObjEnc) (last : LastIdx) (act act' : List ActiveObj)
    (last' : LastIdx), resolveObjs last act os = .ok (act', last') →
    resolveObjs (canonLast last) (act.map canonAct) (os.map canonObj) = .ok (act'.map canonAct, canonLast last') := by
  intro os
  induction os with
  | nil => intro last act act' last' h; simp only [resolveObjs] at h; cases h; rfl
  | cons o os ih =>
    intro last act act' last' h
    unfold resolveObjs at h
    cases hr : resolveObj last o with
    | error e => rw [hr] at h; cases h
    | ok al =>
      obtain ⟨a, l1⟩ := al
      rw [hr] at h
      simp only [List.map_cons, resolveObjs, resolveObj_canon hr, placeObj_canon]
      exact ih _ _ _ _ h

theorem activeOfSeg_canon {prev : Option (List ActiveObj)} {last : LastIdx} {s : SegEnc}
    {a : List ActiveObj} {last' : LastIdx} (h : activeOfSeg prev last s = .ok (a, last')) :
    activeOfSeg (prev.map (·.map canonAct)) (canonLast last) (canonSeg s) =
      .ok (a.map canonAct, canonLast last') := by
  unfold activeOfSeg at h ⊢
  have e1 : (canonSeg s).hasMeta = s.hasMeta := rfl
  have e2 : (canonSeg s).newList = s.newList := rfl
  have e3 : (canonSeg s).objs = s.objs.map canonObj := rfl
  rw [e1, e2, e3]
  by_cases hm : s.hasMeta = true
  · simp only [hm, Bool.not_true, Bool.false_eq_true, if_false] at h ⊢
    have := resolveObjs_canon _ _ _ _ _ h
    have hb : (if s.newList = true then [] else (prev.map (·.map canonAct)).getD []) =
        (if s.newList = true then [] else prev.getD []).map canonAct := by
      split
      · rfl
      · cases prev <;> rfl
    rw [hb]
    exact this
  · have hm' : s.hasMeta = false := by simpa using hm
    simp only [hm', Bool.not_false, if_true] at h ⊢
    cases prev with
    | none => cases h
    | some p => cases h; rfl

theorem activeLists_canon : ∀ (ss : List SegEnc) (prev : Option (List ActiveObj)) (last : LastIdx)
    (as : List (List ActiveObj)), activeLists prev last ss = .ok as →
    activeLists (prev.map (·.map canonAct)) (canonLast last) (ss.map canonSeg) =
      .ok (as.map (·.map canonAct)) := by
  intro ss
  induction ss with
  | nil => intro prev last as h; rw [activeLists_nil h]; rfl
  | cons s ss ih =>
    intro prev last as h
    obtain ⟨a, last', as', hact, hrest, rfl⟩ := activeLists_cons h
    have h1 := activeOfSeg_canon hact
    have h2 := ih _ _ _ hrest
    simp only [List.map_cons, activeLists, h1]
    simp only [Option.map_some] at h2
    rw [h2]

/-! ## same bytes -/

theorem encIdx_canon (e : Endian) (i : IdxEnc) : encIdx e (canonIdx i) = encIdx e i := by
  cases i with
  | full ty n total =>
    by_cases h : ty = tyString <;> simp [canonIdx, encIdx, h]
  | _ => rfl

theorem encObj_canon (e : Endian) (o : ObjEnc) : encObj e (canonObj o) = encObj e o := by
  simp [encObj, canonObj, encIdx_canon]

theorem segMeta_canon (s : SegEnc) : segMeta (canonSeg s) = segMeta s := by
  unfold segMeta encMeta
  simp only [canonSeg, List.length_map, List.flatMap_map]
  have : (fun o => encObj (SegEnc.endian { s with objs := s.objs.map canonObj }) (canonObj o)) =
      fun o => encObj s.endian o := by
    funext o; exact encObj_canon _ o
  rw [this]
  rfl

theorem dataObjs_canon (a : List ActiveObj) : dataObjs (a.map canonAct) = (dataObjs a).map canonAct := by
  unfold dataObjs
  rw [List.filter_map]
  rfl

theorem isDaqmxObj_canon (a : ActiveObj) : isDaqmxObj (canonAct a) = isDaqmxObj a := by
  unfold isDaqmxObj canonAct
  cases a.idx with
  | none => rfl
  | some d => cases d <;> rfl

theorem any_daq_canon (d : List ActiveObj) : (d.map canonAct).any isDaqmxObj = d.any isDaqmxObj := by
  rw [List.any_map]
  congr 1
  funext x
  exact isDaqmxObj_canon x

theorem all_daq_canon (d : List ActiveObj) : (d.map canonAct).all isDaqmxObj = d.all isDaqmxObj := by
  rw [List.all_map]
  congr 1
  funext x
  exact isDaqmxObj_canon x

theorem encChunkContiguous_canon (e : Endian) : ∀ (d : List ActiveObj) (c : List (List Bytes)),
    encChunkContiguous e (d.map canonAct) c = encChunkContiguous e d c := by
  intro d
  induction d with
  | nil => intro c; rfl
  | cons a as ih =>
    intro c
    cases c with
    | nil => rfl
    | cons v vs => simp only [List.map_cons, encChunkContiguous, canonAct_ty, ih]

theorem encRow_canon (e : Endian) (j : Nat) : ∀ (d : List ActiveObj) (c : List (List Bytes)),
    encRow e j (d.map canonAct) c = encRow e j d c := by
  intro d
  induction d with
  | nil => intro c; rfl
  | cons a as ih =>
    intro c
    cases c with
    | nil => rfl
    | cons v vs => simp only [List.map_cons, encRow, canonAct_ty, ih]

theorem encChunk_canon (s : SegEnc) (a : List ActiveObj) (c : List (List Bytes)) :
    encChunk (canonSeg s) (a.map canonAct) c = encChunk s a c := by
  unfold encChunk
  simp only [dataObjs_canon, any_daq_canon, encChunkContiguous_canon]
  have : encChunkInterleaved (canonSeg s).endian ((dataObjs a).map canonAct) c =
      encChunkInterleaved s.endian (dataObjs a) c := by
    unfold encChunkInterleaved
    simp only [encRow_canon]
    rfl
  rw [this]
  rfl

theorem encRaw_canon (s : SegEnc) (a : List ActiveObj) : encRaw (canonSeg s) (a.map canonAct) = encRaw s a := by
  unfold encRaw
  show s.chunks.flatMap _ = _
  congr 1
  funext c
  exact encChunk_canon s a c

theorem encodeSeg_canon (s : SegEnc) (a : List ActiveObj) :
    encodeSeg (canonSeg s) (a.map canonAct) = encodeSeg s a := by
  unfold encodeSeg
  simp only [segMeta_canon, encRaw_canon]
  rfl

theorem zipEncode_canon : ∀ (ss : List SegEnc) (as : List (List ActiveObj)),
    zipEncode encodeSeg (ss.map canonSeg) (as.map (·.map canonAct)) = zipEncode encodeSeg ss as := by
  intro ss
  induction ss with
  | nil => intro as; cases as <;> rfl
  | cons s ss ih =>
    intro as
    cases as with
    | nil => rfl
    | cons a as => simp only [List.map_cons, zipEncode, encodeSeg_canon, ih]

/-! ## same meaning -/

theorem declareObjs_canon : ∀ (a : List ActiveObj) (c : Content),
    declareObjs c (a.map canonAct) = declareObjs c a := by
  intro a
  induction a with
  | nil => intro c; rfl
  | cons x xs ih =>
    intro c
    simp only [List.map_cons, declareObjs, ih, canonAct_path, canonAct_ty]
    congr 2
    funext o
    congr 1
    unfold canonAct
    cases x.idx with
    | none => rfl
    | some d => cases d <;> rfl

theorem applyProps_canon : ∀ (os : List ObjEnc) (c : Content),
    applyProps c (os.map canonObj) = applyProps c os := by
  intro os
  induction os with
  | nil => intro c; rfl
  | cons o os ih => intro c; simp only [List.map_cons, applyProps, ih, canonObj_path, canonObj_props]

theorem addStdChunk_canon : ∀ (d : List ActiveObj) (ch : List (List Bytes)) (c : Content),
    addStdChunk c (d.map canonAct) ch = addStdChunk c d ch := by
  intro d
  induction d with
  | nil => intro ch c; rfl
  | cons a as ih =>
    intro ch c
    cases ch with
    | nil => rfl
    | cons v vs => simp only [List.map_cons, addStdChunk, ih, canonAct_path]

theorem addDaqmxObj_canon (e : Endian) (bufs : List (List Bytes)) (c : Content) (a : ActiveObj) :
    addDaqmxObj e bufs c (canonAct a) = addDaqmxObj e bufs c a := by
  unfold addDaqmxObj canonAct
  cases a.idx with
  | none => rfl
  | some d => cases d <;> rfl

theorem addChunk_canon (s : SegEnc) (a : List ActiveObj) (c : Content) (ch : List (List Bytes)) :
    addChunk (canonSeg s) (a.map canonAct) c ch = addChunk s a c ch := by
  unfold addChunk
  have hf : (fun x y => addDaqmxObj (canonSeg s).endian ch x (canonAct y)) = addDaqmxObj s.endian ch := by
    funext x y; exact addDaqmxObj_canon _ _ _ _
  simp only [dataObjs_canon, any_daq_canon, addStdChunk_canon, List.foldl_map, hf]

theorem denoteSeg_canon (c : Content) (s : SegEnc) (a : List ActiveObj) :
    denoteSeg c (canonSeg s) (a.map canonAct) = denoteSeg c s a := by
  unfold denoteSeg
  simp only [declareObjs_canon]
  have h1 : (canonSeg s).hasMeta = s.hasMeta := rfl
  have h2 : (canonSeg s).objs = s.objs.map canonObj := rfl
  have h3 : (canonSeg s).chunks = s.chunks := rfl
  rw [h1, h2, h3, applyProps_canon]
  congr 1
  funext c' ch
  exact addChunk_canon s a c' ch

theorem denoteSegs_canon : ∀ (ss : List SegEnc) (as : List (List ActiveObj)) (c : Content),
    denoteSegs c (ss.map canonSeg) (as.map (·.map canonAct)) = denoteSegs c ss as := by
  intro ss
  induction ss with
  | nil => intro as c; cases as <;> rfl
  | cons s ss ih =>
    intro as c
    cases as with
    | nil => rfl
    | cons a as => simp only [List.map_cons, denoteSegs, denoteSeg_canon, ih]

/-! ## the canonical form of a file of the class satisfies the per-segment conditions -/

theorem canonIdx_idem (i : IdxEnc) : canonIdx (canonIdx i) = canonIdx i := by
  cases i with
  | full ty n total => by_cases h : ty = tyString <;> simp [canonIdx, h]
  | _ => rfl

theorem wfObj_canon (o : ObjEnc) : wfObj (canonObj o) = wfObj o := by
  unfold wfObj canonObj
  cases hi : o.idx <;> simp [canonIdx, wfIdx]

theorem noDupPaths_canon : ∀ os : List ObjEnc, noDupPaths (os.map canonObj) = noDupPaths os := by
  intro os
  induction os with
  | nil => rfl
  | cons o os ih =>
    simp only [List.map_cons, noDupPaths, ih, List.any_map, canonObj_path]
    rfl

theorem wfStdChunk_canon : ∀ (d : List ActiveObj) (ch : List (List Bytes)),
    wfStdChunk (d.map canonAct) ch = wfStdChunk d ch := by
  intro d
  induction d with
  | nil => intro ch; rfl
  | cons a as ih =>
    intro ch
    cases ch with
    | nil => rfl
    | cons v vs =>
      simp only [List.map_cons, wfStdChunk, ih]
      congr 1
      unfold canonAct
      cases a.idx with
      | none => rfl
      | some d =>
        cases d with
        | daq dg ty n sc w => rfl
        | std ty n total =>
          by_cases h : ty = tyString <;> simp [canonDesc, h]

theorem goodDesc_canon {d : IdxDesc} (h : GoodDesc0 d) : GoodDesc (canonDesc d) := by
  cases d with
  | daq dg ty n sc w => exact absurd h (by simp [GoodDesc0])
  | std ty n total =>
    simp only [GoodDesc0] at h
    obtain ⟨h1, h2, h3⟩ := h
    simp only [canonDesc, GoodDesc]
    refine ⟨h1, h2, ?_, ?_⟩
    · intro hs; simp only [hs, if_true]; exact h3 hs
    · intro hs; simp only [hs, if_false]

theorem segOK_canon {s : SegEnc} {a : List ActiveObj} (h : SegOK0 s a) :
    SegOK (canonSeg s) (a.map canonAct) := by
  have hobjs : (canonSeg s).objs = s.objs.map canonObj := rfl
  have hmemo : ∀ o' ∈ (canonSeg s).objs, ∃ o ∈ s.objs, o' = canonObj o := by
    intro o' ho'
    rw [hobjs, List.mem_map] at ho'
    obtain ⟨o, ho, rfl⟩ := ho'
    exact ⟨o, ho, rfl⟩
  refine ⟨⟨h.std.contiguous, h.std.lengthKnown, ?_, ?_⟩, ⟨?_, ?_⟩, h.version, ?_, ?_, ?_, ?_, ?_, ?_⟩
  · intro o' ho' dg ty n sc w hi
    obtain ⟨o, ho, rfl⟩ := hmemo o' ho'
    apply h.std.std o ho dg ty n sc w
    simp only [canonObj] at hi
    cases hoi : o.idx with
    | full ty' n' total' => rw [hoi] at hi; simp [canonIdx] at hi
    | noData => rw [hoi] at hi; simp [canonIdx] at hi
    | matchesPrev => rw [hoi] at hi; simp [canonIdx] at hi
    | daqmx dg' ty' n' sc' w' => rw [hoi] at hi; simpa [canonIdx] using hi
  · intro o' ho'
    obtain ⟨o, ho, rfl⟩ := hmemo o' ho'
    exact canonIdx_idem o.idx
  · rw [hobjs, List.length_map]; exact h.fits.nObjs
  · intro o' ho'
    obtain ⟨o, ho, rfl⟩ := hmemo o' ho'
    have hf := h.fits.objs o ho
    refine ⟨?_, hf.nProps, hf.props⟩
    intro n total hi
    simp only [canonObj] at hi
    cases hoi : o.idx with
    | full ty' n' total' =>
      rw [hoi] at hi
      simp only [canonIdx, IdxEnc.full.injEq] at hi
      obtain ⟨rfl, rfl, ht⟩ := hi
      simp only [if_true] at ht
      subst ht
      exact hf.strTotal _ _ hoi
    | noData => rw [hoi] at hi; simp [canonIdx] at hi
    | matchesPrev => rw [hoi] at hi; simp [canonIdx] at hi
    | daqmx dg' ty' n' sc' w' => rw [hoi] at hi; simp [canonIdx] at hi
  · intro hm
    rw [hobjs, h.noMeta hm]
    rfl
  · intro o' ho'
    obtain ⟨o, ho, rfl⟩ := hmemo o' ho'
    rw [wfObj_canon]
    exact h.objs o ho
  · rw [hobjs, noDupPaths_canon]; exact h.nodup
  · intro x hx d hd
    rw [List.mem_map] at hx
    obtain ⟨x0, hx0, rfl⟩ := hx
    simp only [canonAct] at hd
    cases hi : x0.idx with
    | none => rw [hi] at hd; cases hd
    | some d0 =>
      rw [hi] at hd
      cases hd
      exact goodDesc_canon (h.good x0 hx0 d0 hi)
  · intro c hc
    rw [encChunk_canon]
    exact h.nonZero c hc
  · intro c hc
    rw [dataObjs_canon, wfStdChunk_canon]
    exact h.chunks c hc

theorem segsOK_canon : ∀ (ss : List SegEnc) (as : List (List ActiveObj)), SegsOK0 ss as →
    SegsOK (ss.map canonSeg) (as.map (·.map canonAct)) := by
  intro ss
  induction ss with
  | nil => intro as h; cases as <;> simp [SegsOK0, SegsOK] at h ⊢
  | cons s ss ih =>
    intro as h
    cases as with
    | nil => cases h
    | cons a as => exact ⟨segOK_canon h.1, ih as h.2⟩

/-! ## the reader-side objects of the canonical form, in terms of the original -/

/-- the segment object the reader holds for an active object: as `concObj`, with the data size of a
    fixed-width channel computed (`n * size`) instead of taken from the never-written `total` field -/
def concObjC (a : ActiveObj) : SegObj := concObj (canonAct a)

/-- the `Segment` record the reader builds for segment `s` at position `pos` -/
def segRecC (pos : Nat) (s : SegEnc) (a : List ActiveObj) : Segment :=
  { position := pos, toc := tocMask s, nextSegmentPos := pos + (encodeSeg s a).length,
    dataPosition := pos + 28 + (segMeta s).length, incomplete := false,
    objects := a.map concObjC, numChunks := s.chunks.length, override := none }

theorem segRec_canon (pos : Nat) (s : SegEnc) (a : List ActiveObj) :
    segRec pos (canonSeg s) (a.map canonAct) = segRecC pos s a := by
  unfold segRec segRecC
  rw [encodeSeg_canon, segMeta_canon, List.map_map]
  rfl

def segRecsC : Nat → List SegEnc → List (List ActiveObj) → List Segment
  | pos, s :: ss, a :: as => segRecC pos s a :: segRecsC (pos + (encodeSeg s a).length) ss as
  | _, _, _ => []

theorem segRecs_canon : ∀ (ss : List SegEnc) (as : List (List ActiveObj)) (pos : Nat),
    segRecs pos (ss.map canonSeg) (as.map (·.map canonAct)) = segRecsC pos ss as := by
  intro ss
  induction ss with
  | nil => intro as pos; cases as <;> rfl
  | cons s ss ih =>
    intro as pos
    cases as with
    | nil => rfl
    | cons a as => simp only [List.map_cons, segRecs, segRecsC, segRec_canon, encodeSeg_canon, ih]

theorem rawChunksAll_canon : ∀ (ss : List SegEnc) (as : List (List ActiveObj)),
    rawChunksAll (ss.map canonSeg) (as.map (·.map canonAct)) = rawChunksAll ss as := by
  intro ss
  induction ss with
  | nil => intro as; cases as <;> rfl
  | cons s ss ih =>
    intro as
    cases as with
    | nil => rfl
    | cons a as =>
      simp only [List.map_cons, rawChunksAll, ih]
      congr 1
      unfold rawChunksOfSeg pairsOf
      simp only [dataObjs_canon, List.map_map]
      rfl

theorem actsNodup_canon {as : List (List ActiveObj)} (h : ActsNodup as) :
    ActsNodup (as.map (·.map canonAct)) := by
  intro a ha
  rw [List.mem_map] at ha
  obtain ⟨a0, ha0, rfl⟩ := ha
  have := h a0 ha0
  simpa [List.map_map, Function.comp_def] using this

theorem allPairs_canon : ∀ (ss : List SegEnc) (as : List (List ActiveObj)),
    allPairs (ss.map canonSeg) (as.map (·.map canonAct)) = allPairs ss as := by
  intro ss
  induction ss with
  | nil => intro as; cases as <;> rfl
  | cons s ss ih =>
    intro as
    cases as with
    | nil => rfl
    | cons a as =>
      simp only [List.map_cons, allPairs, ih]
      congr 1
      unfold segPairs pairsOf
      simp only [dataObjs_canon, List.map_map]
      rfl

end Tdms.Proofs.C01Multi
