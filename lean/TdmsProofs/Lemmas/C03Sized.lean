/-
  C03 — chunks of fixed-width values are exact as soon as the file is long enough, and for every
  segment `readMetadata` records it is: `ContigOk` for all contiguous segments whose data objects
  have fixed-width types, complete or truncated.  Core Lean only.
-/
import TdmsProofs.Lemmas.C03General

namespace Tdms.Proofs.C03

open Tdms Tdms.Generated Tdms.Model Tdms.Proofs.Bytes Tdms.Proofs.C04 Tdms.Proofs.C06

/-- every data object has a fixed-width type and its `data_size` is `number_values · size` (what
    `read_raw_data_index` computes for such a type) -/
def SizedOk (s : Segment) : Prop :=
  ∀ o ∈ dataObjs s, ∃ ty sz, o.dataType = some ty ∧ typeSize ty = some sz ∧ o.dataSize = o.numberValues * sz

theorem splitEvery_length (sz : Nat) (hsz : 0 < sz) : ∀ (n : Nat) (b : Bytes), b.length = n * sz →
    (splitEvery sz n b).length = n := by
  intro n
  induction n with
  | zero => intro b _; rfl
  | succ n ih =>
    intro b hb
    have hlen : sz ≤ b.length := by rw [hb, Nat.succ_mul]; omega
    unfold splitEvery
    rw [if_neg (by omega)]
    simp only [List.length_cons]
    rw [ih (b.drop sz) (by rw [List.length_drop, hb, Nat.succ_mul]; omega)]

/-- reading `n` fixed-width values that lie inside the file yields `n` values and ends `n·size` further -/
theorem valuesAt_sized (file : Bytes) (e : Endian) (o : SegObj) (ty sz n cur : Nat)
    (hty : o.dataType = some ty) (hsz : typeSize ty = some sz) (hfit : cur + n * sz ≤ file.length) :
    ∃ vs, runAt (readValues file e o n) cur = .ok (vs, cur + n * sz) ∧ vs.length = n := by
  obtain ⟨ti, hti, _, _, hs⟩ := typeSize_some hsz
  have hpos := Tdms.Proofs.C06.typeSize_pos hsz
  have hblen : ((file.drop cur).take (n * sz)).length = n * sz := by
    rw [List.length_take, List.length_drop]; omega
  refine ⟨(splitEvery sz n ((file.drop cur).take (n * sz))).map (canonValue e ty), ?_, ?_⟩
  · unfold runAt readValues
    simp only [hty, hti, hs]
    have hread : fRead file (n * sz) ⟨cur, []⟩ = .ok ((file.drop cur).take (n * sz), ⟨cur + n * sz, [(cur, n * sz)]⟩) := by
      simp [fRead, hblen]
    rw [F_bind_ok hread]
    have hmod : ¬ (ti.npKind.isNone = true ∧ ((file.drop cur).take (n * sz)).length % sz ≠ 0) := by
      rw [hblen, Nat.mul_mod_left]; simp
    simp only [if_neg hmod]
    rfl
  · rw [List.length_map, splitEvery_length sz hpos n _ hblen]

/-- bytes chunk `ci` occupies: per object, the number of values read times the value size -/
def chunkBytesAt (s : Segment) (ci : Nat) (d : List SegObj) : Nat :=
  (d.map fun o => channelNumberValues s o ci * objSz o).sum

theorem exactChunk_sized (file : Bytes) (s : Segment) (ci : Nat) :
    ∀ (d : List SegObj) (cur : Nat),
      (∀ o ∈ d, ∃ ty sz, o.dataType = some ty ∧ typeSize ty = some sz ∧ o.dataSize = o.numberValues * sz) →
      cur + chunkBytesAt s ci d ≤ file.length → (exactChunk file s ci d cur).isSome = true := by
  intro d
  induction d with
  | nil => intro cur _ _; rfl
  | cons o os ih =>
    intro cur hsz hfit
    obtain ⟨ty, sz, hty, hts, hds⟩ := hsz o List.mem_cons_self
    have hobj : objSz o = sz := by simp [objSz, hty, hts]
    simp only [chunkBytesAt, List.map_cons, List.sum_cons, hobj] at hfit
    obtain ⟨vs, hv, hlen⟩ := valuesAt_sized file s.endian o ty sz (channelNumberValues s o ci) cur hty hts
      (by have : 0 ≤ (os.map fun o => channelNumberValues s o ci * objSz o).sum := Nat.zero_le _
          omega)
    have hskip : skipSize s o ci = some (channelNumberValues s o ci * sz) := by
      unfold skipSize
      split
      · rename_i h; rw [hds, h]
      · simp [hty, hts, Nat.mul_comm]
    unfold exactChunk
    have hv' : valuesAt file s o ci cur = .ok (vs, cur + channelNumberValues s o ci * sz) := hv
    rw [hskip, hv']
    simp only [hlen, and_self, if_true]
    have := ih (cur + channelNumberValues s o ci * sz) (fun x hx => hsz x (List.mem_cons_of_mem _ hx))
      (by unfold chunkBytesAt; omega)
    cases hr : exactChunk file s ci os (cur + channelNumberValues s o ci * sz) with
    | none => rw [hr] at this; cases this
    | some r => rfl

/-! ## how many bytes the truncated final chunk needs -/

/-- segment interrupted while being written: whole objects, a partial one, then nothing -/
theorem cfl_bytes_le : ∀ (d : List SegObj) (r : Nat), (d.map (·.path)).Nodup →
    (d.map fun o => overrideGet (cfl d r) o.path * objSz o).sum ≤ r := by
  intro d
  induction d with
  | nil => intro r _; simp
  | cons o os ih =>
    intro r hnd
    simp only [List.map_cons, List.nodup_cons] at hnd
    have hne : ∀ x ∈ os, o.path ≠ x.path := fun x hx h => hnd.1 (by rw [h]; exact List.mem_map_of_mem hx)
    unfold cfl
    split
    · rename_i hgt
      simp only [List.map_cons, List.sum_cons, overrideGet_cons_eq]
      have hrest : (os.map fun x => overrideGet ((o.path, o.numberValues) :: cfl os (r - o.numberValues * objSz o)) x.path * objSz x)
          = os.map fun x => overrideGet (cfl os (r - o.numberValues * objSz o)) x.path * objSz x := by
        apply List.map_congr_left
        intro x hx
        rw [overrideGet_cons_ne _ _ _ _ (hne x hx)]
      rw [hrest]
      have := ih (r - o.numberValues * objSz o) hnd.2
      omega
    · simp only [List.map_cons, List.sum_cons, overrideGet_cons_eq]
      have hrest : (os.map fun x => overrideGet [(o.path, r / objSz o)] x.path * objSz x) = os.map fun _ => 0 := by
        apply List.map_congr_left
        intro x hx
        rw [overrideGet_cons_ne _ _ _ _ (hne x hx), overrideGet_nil, Nat.zero_mul]
      rw [hrest]
      have h0 : ∀ (l : List SegObj), (l.map fun _ => 0).sum = 0 := by
        intro l; induction l with
        | nil => rfl
        | cons _ _ ih => simp only [List.map_cons, List.sum_cons, ih]
      rw [h0, Nat.add_zero]
      exact Nat.div_mul_le_self r (objSz o)

/-- segment followed by another one: every object gets the same fraction of its values -/
theorem prop_bytes_le (r c : Nat) : ∀ (d : List SegObj),
    (d.map fun o => (o.numberValues * r / c) * objSz o).sum * c ≤ r * (d.map fun o => o.numberValues * objSz o).sum := by
  intro d
  induction d with
  | nil => simp
  | cons o os ih =>
    simp only [List.map_cons, List.sum_cons, Nat.add_mul, Nat.mul_add]
    have h1 : o.numberValues * r / c * objSz o * c ≤ r * (o.numberValues * objSz o) := by
      have := Nat.div_mul_le_self (o.numberValues * r) c
      calc o.numberValues * r / c * objSz o * c = (o.numberValues * r / c * c) * objSz o := by
            rw [Nat.mul_assoc, Nat.mul_comm (objSz o) c, ← Nat.mul_assoc]
        _ ≤ (o.numberValues * r) * objSz o := Nat.mul_le_mul_right _ this
        _ = r * (o.numberValues * objSz o) := by
            rw [Nat.mul_comm o.numberValues r, Nat.mul_assoc]
    omega

theorem sizedOk_allSized {s : Segment} (h : SizedOk s) : allSized s.objects := by
  intro o ho hd
  obtain ⟨ty, sz, h1, h2, _⟩ := h o (by simp [dataObjs, ho, hd])
  exact ⟨ty, sz, h1, h2⟩

theorem sized_sum_dataSize {s : Segment} (h : SizedOk s) :
    ((dataObjs s).map (·.dataSize)).sum = ((dataObjs s).map fun o => o.numberValues * objSz o).sum := by
  congr 1
  apply List.map_congr_left
  intro o ho
  obtain ⟨ty, sz, h1, h2, h3⟩ := h o ho
  simp [objSz, h1, h2, h3]

/-- **`ContigOk` for every contiguous segment with fixed-width data that `readMetadata` records**,
    complete or truncated -/
theorem contigOk_of_sized (file : Bytes) (s : Segment) (hin : SegInFile file s)
    (hk : dataReaderKind s = .ok .contiguous) (hsz : SizedOk s) (hnd : (s.objects.map (·.path)).Nodup) :
    ContigOk file s (segCsz s) := by
  obtain ⟨c, hc, hle, hcase⟩ := calcOut_cases s hin.calcOut
  have hcsz : segCsz s = c := by unfold segCsz; rw [hc]
  have hd := haveDaqmx_of_kind hk (by decide)
  have hcsum : c = ((dataObjs s).map (·.dataSize)).sum := by
    have h1 := chunkSize_std s.objects hd
    rw [hc] at h1; cases h1; rfl
  have hndd : ((dataObjs s).map (·.path)).Nodup := hnd.sublist (List.Sublist.map _ List.filter_sublist)
  have hinF := hin.inFile
  refine ⟨hk, by rw [hcsz]; exact hc, ?_⟩
  intro ci hci
  apply exactChunk_sized file s ci (dataObjs s) _ hsz
  rw [hcsz]
  -- a chunk that is not the truncated final one occupies `c` bytes
  have hfull : (ci + 1 ≠ s.numChunks ∨ s.override = none) → chunkBytesAt s ci (dataObjs s) = c := by
    intro h
    unfold chunkBytesAt
    rw [hcsum, sized_sum_dataSize hsz]
    congr 1
    apply List.map_congr_left
    intro o _
    rw [channelNumberValues_not_last s o ci h]
  rcases hcase with ⟨hov, htot⟩ | ⟨ov, hov, hcpos, hrem, hnk, hcf⟩
  · rw [hfull (Or.inr hov)]
    have : (ci + 1) * c ≤ s.numChunks * c := Nat.mul_le_mul_right _ (by omega)
    rw [Nat.succ_mul] at this
    omega
  · have hdm := Nat.div_add_mod (s.nextSegmentPos - s.dataPosition) c
    generalize hq : (s.nextSegmentPos - s.dataPosition) / c = q at *
    generalize hr : (s.nextSegmentPos - s.dataPosition) % c = r at *
    by_cases hlast : ci + 1 = s.numChunks
    · -- the truncated final chunk
      have hci' : ci = q := by omega
      have hbytes : chunkBytesAt s ci (dataObjs s) ≤ r := by
        have hcn : ∀ o, channelNumberValues s o ci = overrideGet ov o.path := by
          intro o; unfold channelNumberValues; rw [hov]; simp [hlast]
        unfold chunkBytesAt
        simp only [hcn]
        rw [computeFinalChunkLengths_std s c r hd (sizedOk_allSized hsz)] at hcf
        cases hcf
        split
        · -- proportional
          have hmap : ((dataObjs s).map fun o => overrideGet ((s.objects.filter (·.hasData)).map fun o => (o.path, o.numberValues * r / c)) o.path * objSz o)
              = (dataObjs s).map fun o => (o.numberValues * r / c) * objSz o := by
            apply List.map_congr_left
            intro o ho
            exact congrArg (· * objSz o) (overrideGet_map_le (dataObjs s) (fun o => o.numberValues * r / c) o hndd ho)
          rw [hmap]
          have hp := prop_bytes_le r c (dataObjs s)
          rw [← sized_sum_dataSize hsz, ← hcsum] at hp
          exact Nat.le_of_mul_le_mul_right hp hcpos
        · rw [cfl_eq]
          exact cfl_bytes_le (dataObjs s) r hndd
      subst hci'
      rw [Nat.mul_comm ci c]
      omega
    · rw [hfull (Or.inl hlast)]
      have : (ci + 1) * c ≤ q * c := Nat.mul_le_mul_right _ (by omega)
      rw [Nat.succ_mul] at this
      rw [Nat.mul_comm c q] at hdm
      omega

/-! ## the invariants for the reader state of ANY accepted file -/

/-- hypotheses on one segment record of the reader state (no reference to the file bytes): object
    paths pairwise distinct, contiguous reader, no chunks without the raw-data flag -/
structure SegShape (s : Segment) : Prop where
  nodup : (s.objects.map (·.path)).Nodup
  kind : dataReaderKind s = .ok .contiguous
  noRaw : hasFlag s.toc kTocRawData = false → s.numChunks = 0

/-- **general form**: for the reader state of any file `readMetadata` accepts, `SegsOk` and `ChanOk`
    (for every known object) follow from the shape hypotheses and the exactness of the chunks -/
theorem readMetadata_invariants (file : Bytes) (st : ReaderState) (h : readMetadata file = .ok st)
    (hshape : ∀ s ∈ st.segments, SegShape s)
    (hexact : ∀ s ∈ st.segments, ∀ ci, ci < s.numChunks →
      (exactChunk file s ci (dataObjs s) (s.dataPosition + ci * segCsz s)).isSome = true) :
    SegsOk file st.segments ∧ ∀ p m, st.objects.get p = some m → ChanOk st.objects st.segments p m := by
  have hin := readMetadata_segments_inFile file st h
  have hwf : ∀ s ∈ st.segments, ∀ p, (layoutOf p s).WF := fun s hs p =>
    layout_wf_of_calcOut s (hin s hs).calcOut (haveDaqmx_of_kind (hshape s hs).kind (by decide)) (hshape s hs).nodup p
  have hnum := readMetadata_numValues file st h (fun s hs => (hshape s hs).nodup) hwf
  constructor
  · intro s hs
    obtain ⟨c, hc, _, _⟩ := calcOut_cases s (hin s hs).calcOut
    have hcsz : chunkSize s.objects = .ok (segCsz s) := by unfold segCsz; rw [hc]
    exact ⟨(hin s hs).tag, (hshape s hs).nodup, (hshape s hs).noRaw, (hshape s hs).kind, hcsz, hexact s hs⟩
  · intro p m hm
    refine ⟨hm, ?_, ?_⟩
    · intro l hl
      obtain ⟨s, hs, rfl⟩ := List.mem_map.mp hl
      exact hwf s hs p
    · have := hnum p
      unfold nvGet at this
      rw [hm] at this
      exact this

/-- **fixed-width data**: for the reader state of any file `readMetadata` accepts whose segments
    are contiguous with fixed-width data objects, `SegsOk` and `ChanOk` hold — complete or
    truncated segments alike -/
theorem readMetadata_invariants_sized (file : Bytes) (st : ReaderState) (h : readMetadata file = .ok st)
    (hshape : ∀ s ∈ st.segments, SegShape s) (hsized : ∀ s ∈ st.segments, SizedOk s) :
    SegsOk file st.segments ∧ ∀ p m, st.objects.get p = some m → ChanOk st.objects st.segments p m := by
  have hin := readMetadata_segments_inFile file st h
  exact readMetadata_invariants file st h hshape fun s hs =>
    (contigOk_of_sized file s (hin s hs) (hshape s hs).kind (hsized s hs) (hshape s hs).nodup).exact

end Tdms.Proofs.C03
