/-
  C01 for multi-segment files: `readFile` (receivers, capacity check) on the encoding of a file of the
  class, and the comparison with `denote`.  Core Lean only.
-/
import TdmsProofs.Lemmas.C01MultiData

namespace Tdms.Proofs.C01Multi

open Tdms Tdms.Generated Tdms.Model Tdms.Proofs.C02
open Tdms.Proofs.Bytes (canonProp)
open Tdms.Proofs.C01Compose (pairsChunk bump rcvWith valuesIn ObjView content contentOfDenote)

/-! ## the content of the whole file -/

/-- all (path, values) pairs of the file, in file order -/
def allPairs : List SegEnc → List (List ActiveObj) → List (Bytes × List Bytes)
  | s :: ss, a :: as => segPairs s a ++ allPairs ss as
  | _, _ => []

theorem valsOf_denoteSegs : ∀ (ss : List SegEnc) (as : List (List ActiveObj)) (c : Content), SegsOK ss as →
    valsOf (denoteSegs c ss as) = (allPairs ss as).foldl bump (valsOf c) := by
  intro ss
  induction ss with
  | nil => intro as c _; cases as <;> rfl
  | cons s ss ih =>
    intro as c h
    cases as with
    | nil => cases h
    | cons a as =>
      rw [denoteSegs, ih as _ h.2, valsOf_denoteSeg c s a (not_daq_of_good h.1.good), allPairs, List.foldl_append]

theorem denoteSegs_nodup : ∀ (ss : List SegEnc) (as : List (List ActiveObj)) (c : Content), SegsOK ss as →
    (c.map (·.path)).Nodup → ((denoteSegs c ss as).map (·.path)).Nodup := by
  intro ss
  induction ss with
  | nil => intro as c _ h; cases as <;> exact h
  | cons s ss ih =>
    intro as c h hc
    cases as with
    | nil => cases h
    | cons a as => exact ih as _ h.2 (denoteSeg_nodup c s a (not_daq_of_good h.1.good) hc)

theorem tyOK_denoteSegs : ∀ (ss : List SegEnc) (as : List (List ActiveObj)) (c : Content), SegsOK ss as →
    TyOK c → TyOK (denoteSegs c ss as) := by
  intro ss
  induction ss with
  | nil => intro as c _ h; cases as <;> exact h
  | cons s ss ih =>
    intro as c h hc
    cases as with
    | nil => cases h
    | cons a as => exact ih as _ h.2 (tyOK_denoteSeg c s a h.1.good hc)

theorem hasTy_denoteSegs : ∀ (ss : List SegEnc) (as : List (List ActiveObj)) (c : Content) (q : Bytes),
    SegsOK ss as → hasTy c q → hasTy (denoteSegs c ss as) q := by
  intro ss
  induction ss with
  | nil => intro as c q _ h; cases as <;> exact h
  | cons s ss ih =>
    intro as c q h hc
    cases as with
    | nil => cases h
    | cons a as => exact ih as _ q h.2 (hasTy_denoteSeg c s a (not_daq_of_good h.1.good) q hc)

theorem wfStdChunk_idx : ∀ (d : List ActiveObj) (ch : List (List Bytes)), wfStdChunk d ch = true →
    ∀ x ∈ d, x.idx ≠ none := by
  intro d
  induction d with
  | nil => intro _ _ x hx; cases hx
  | cons a as ih =>
    intro ch h x hx
    cases ch with
    | nil => simp [wfStdChunk] at h
    | cons v vs =>
      obtain ⟨⟨ty, n, total, hi, _⟩, hrest⟩ := wfStdChunk_head h
      rcases List.mem_cons.1 hx with rfl | hx'
      · rw [hi]; simp
      · exact ih vs hrest x hx'

theorem mem_segPairs {s : SegEnc} {a : List ActiveObj} {p : Bytes} (h : p ∈ (segPairs s a).map (·.1)) :
    ∃ ch ∈ s.chunks, p ∈ (dataObjs a).map (·.path) := by
  rw [List.mem_map] at h
  obtain ⟨pv, hpv, rfl⟩ := h
  unfold segPairs at hpv
  rw [List.mem_flatMap] at hpv
  obtain ⟨ch, hch, hz⟩ := hpv
  obtain ⟨p1, p2⟩ := pv
  exact ⟨ch, hch, (List.of_mem_zip hz).1⟩

/-- every path that receives values has a data type in the final content, and carries data in some
    segment -/
theorem allPairs_hasTy : ∀ (ss : List SegEnc) (as : List (List ActiveObj)) (c : Content), SegsOK ss as →
    ∀ p ∈ (allPairs ss as).map (·.1), hasTy (denoteSegs c ss as) p ∧
      ∃ sa ∈ ss.zip as, sa.1.chunks ≠ [] ∧ ∃ x ∈ sa.2, x.hasData = true ∧ x.path = p := by
  intro ss
  induction ss with
  | nil => intro as c _ p hp; cases as <;> simp [allPairs] at hp
  | cons s ss ih =>
    intro as c h p hp
    cases as with
    | nil => cases h
    | cons a as =>
      rw [allPairs, List.map_append, List.mem_append] at hp
      rcases hp with hp | hp
      · obtain ⟨ch, hch, hmem⟩ := mem_segPairs hp
        rw [List.mem_map] at hmem
        obtain ⟨x, hx, rfl⟩ := hmem
        have hxa : x ∈ a ∧ x.hasData = true := by simpa [dataObjs] using hx
        have hidx := wfStdChunk_idx _ _ (h.1.chunks ch hch) x hx
        refine ⟨?_, (s, a), List.mem_cons_self, List.ne_nil_of_mem hch, x, hxa.1, hxa.2, rfl⟩
        rw [denoteSegs]
        exact hasTy_denoteSegs ss as _ _ h.2
          (hasTy_denoteSeg_active c s a (not_daq_of_good h.1.good) x hxa.1 hidx)
      · obtain ⟨h1, sa, hsa, h2⟩ := ih as (denoteSeg c s a) h.2 p hp
        exact ⟨h1, sa, List.mem_cons_of_mem _ hsa, h2⟩

/-! ## receivers -/

/-- paths that get a receiver: channels with a data type -/
def rcvPathsC (c : Content) : List Bytes :=
  (c.filter fun oc => decide (countComponents oc.path = 2) && oc.ty.isSome).map (·.path)

theorem receivers_of_content (c : Content) (h : TyOK c) :
    ((c.map (mOC fun _ => 0)).filter fun m => countComponents m.path = 2).filterMap newReceiver =
      rcvWith (rcvPathsC c) (fun _ => []) := by
  induction c with
  | nil => rfl
  | cons oc c ih =>
    have ih := ih (fun x hx => h x (List.mem_cons_of_mem _ hx))
    have hoc := h oc List.mem_cons_self
    simp only [List.map_cons, List.filter_cons, mOC_path, rcvPathsC] at ih ⊢
    by_cases hc : countComponents oc.path = 2
    · simp only [hc, decide_true, if_true, List.filterMap_cons, Bool.true_and]
      cases hty : oc.ty with
      | none =>
        have : newReceiver (mOC (fun _ => 0) oc) = none := by simp [newReceiver, mOC, hty]
        simpa [this] using ih
      | some ty =>
        have hne : ty ≠ tyDaqmxRaw := hoc ty hty
        have : newReceiver (mOC (fun _ => 0) oc) = some ⟨oc.path, some [], []⟩ := by
          simp [newReceiver, mOC, hty, hne]
        simp only [this, Option.isSome_some, if_true, List.map_cons, rcvWith, List.cons.injEq, true_and]
        exact ih
    · simp only [hc, decide_false, Bool.false_eq_true, if_false, Bool.false_and]
      exact ih

theorem mem_rcvPathsC {c : Content} {p : Bytes} (h : hasTy c p) (hch : countComponents p = 2) :
    p ∈ rcvPathsC c := by
  obtain ⟨oc, hoc, hp, hty⟩ := h
  exact List.mem_map.2 ⟨oc, List.mem_filter.2 ⟨hoc, by simp [hp, hch, hty]⟩, hp⟩

/-! ## the chunk loop of `readFile` -/

theorem bump_foldl_length_le (pairs : List (Bytes × List Bytes)) :
    ∀ (f : Bytes → List Bytes) (p : Bytes), (f p).length ≤ (pairs.foldl bump f p).length := by
  induction pairs with
  | nil => intro f p; exact Nat.le_refl _
  | cons pv pairs ih =>
    intro f p
    rw [List.foldl_cons]
    refine Nat.le_trans ?_ (ih _ p)
    unfold bump
    split
    · simp
    · exact Nat.le_refl _

theorem foldl_fileStep_chunks (st : ReaderState) (ps : List Bytes) :
    ∀ (L : List (List (Bytes × List Bytes))) (f : Bytes → List Bytes),
      (∀ pairs ∈ L, ∀ pv ∈ pairs, pv.1 ∈ ps) →
      (∀ p ∈ ps, (L.flatten.foldl bump f p).length ≤ ((st.objects.get p).map (·.numValues)).getD 0) →
      (L.map pairsChunk).foldl (C01Compose.fileStep st) (.ok (rcvWith ps f)) = .ok (rcvWith ps (L.flatten.foldl bump f)) := by
  intro L
  induction L with
  | nil => intro f _ _; rfl
  | cons pairs L ih =>
    intro f hmem hcap
    have hrecv := C01Compose.receiveChunk_rcvWith ps pairs f (hmem pairs List.mem_cons_self)
    have hcap' : ∀ p ∈ ps, (L.flatten.foldl bump (pairs.foldl bump f) p).length ≤
        ((st.objects.get p).map (·.numValues)).getD 0 := by
      intro p hp
      have := hcap p hp
      rwa [List.flatten_cons, List.foldl_append] at this
    have hchk := C01Compose.checkCapacity_rcvWith st ps (pairs.foldl bump f) (by
      intro p hp
      exact Nat.le_trans (bump_foldl_length_le _ _ p) (hcap' p hp))
    have hstep : C01Compose.fileStep st (.ok (rcvWith ps f)) (pairsChunk pairs) = .ok (rcvWith ps (pairs.foldl bump f)) := by
      simp only [C01Compose.fileStep, bind, Except.bind, hrecv, hchk, pure, Except.pure]
    simp only [List.map_cons, List.foldl_cons, hstep, List.flatten_cons, List.foldl_append]
    exact ih _ (fun q hq => hmem q (List.mem_cons_of_mem _ hq)) hcap'

/-- the chunks of a segment as lists of pairs (the empty chunk of a segment without raw-data flag first) -/
def pairLists (s : SegEnc) (a : List ActiveObj) : List (List (Bytes × List Bytes)) :=
  (if !s.rawFlag then [[]] else []) ++ s.chunks.map (pairsOf (dataObjs a))

def pairListsAll : List SegEnc → List (List ActiveObj) → List (List (Bytes × List Bytes))
  | s :: ss, a :: as => pairLists s a ++ pairListsAll ss as
  | _, _ => []

theorem rawChunksOfSeg_eq (s : SegEnc) (a : List ActiveObj) : rawChunksOfSeg s a = (pairLists s a).map pairsChunk := by
  unfold rawChunksOfSeg pairLists
  cases s.rawFlag <;> simp [pairsChunk]

theorem rawChunksAll_eq : ∀ (ss : List SegEnc) (as : List (List ActiveObj)),
    rawChunksAll ss as = (pairListsAll ss as).map pairsChunk := by
  intro ss
  induction ss with
  | nil => intro as; cases as <;> rfl
  | cons s ss ih =>
    intro as
    cases as with
    | nil => rfl
    | cons a as => rw [rawChunksAll, pairListsAll, List.map_append, rawChunksOfSeg_eq, ih]

theorem pairLists_flatten (s : SegEnc) (a : List ActiveObj) : (pairLists s a).flatten = segPairs s a := by
  unfold pairLists segPairs
  cases s.rawFlag <;> simp [List.flatMap_def]

theorem pairListsAll_flatten : ∀ (ss : List SegEnc) (as : List (List ActiveObj)),
    (pairListsAll ss as).flatten = allPairs ss as := by
  intro ss
  induction ss with
  | nil => intro as; cases as <;> rfl
  | cons s ss ih =>
    intro as
    cases as with
    | nil => rfl
    | cons a as => rw [pairListsAll, allPairs, List.flatten_append, pairLists_flatten, ih]

theorem mem_pairListsAll {ss : List SegEnc} {as : List (List ActiveObj)} {pairs : List (Bytes × List Bytes)}
    {pv : Bytes × List Bytes} (h1 : pairs ∈ pairListsAll ss as) (h2 : pv ∈ pairs) :
    pv.1 ∈ (allPairs ss as).map (·.1) := by
  rw [← pairListsAll_flatten]
  exact List.mem_map.2 ⟨pv, List.mem_flatten.2 ⟨pairs, h1, h2⟩, rfl⟩

/-! ## capacity = number of values in the final content -/

theorem cap_of_content (c : Content) (p : Bytes) :
    ((ObjMetas.get (c.map (mOC fun _ => 0)) p).map (·.numValues)).getD 0 = (valsOf c p).length := by
  unfold ObjMetas.get valsOf
  rw [List.find?_map]
  have hcomp : ((fun m : ObjMeta => decide (m.path = p)) ∘ mOC fun _ => 0) =
      fun x : ObjContent => decide (x.path = p) := by
    funext x; rfl
  rw [hcomp]
  cases c.find? (fun x => decide (x.path = p)) <;> simp [mOC]

/-- the condition on one segment and its active list: if the segment has a chunk, every object active
    with data is a channel (two path components) -/
def ChannelsOnly (sa : SegEnc × List ActiveObj) : Prop :=
  sa.1.chunks ≠ [] → ∀ x ∈ sa.2, x.hasData = true → countComponents x.path = 2

/-- only channels (two path components) ever receive raw data -/
def onlyChannelsHaveDataM (e : FileEnc) : Prop :=
  ∀ acts, activeLists none [] e = .ok acts → ∀ sa ∈ e.zip acts, ChannelsOnly sa

/-- executable form -/
def onlyChannelsHaveDataB (e : FileEnc) : Bool :=
  match activeLists none [] e with
  | .ok acts => (e.zip acts).all fun sa =>
      sa.1.chunks.isEmpty || sa.2.all fun x => !x.hasData || decide (countComponents x.path = 2)
  | .error _ => true

theorem onlyChannelsHaveDataB_sound {e : FileEnc} (h : onlyChannelsHaveDataB e = true) :
    onlyChannelsHaveDataM e := by
  intro acts ha sa hsa hne x hx hd
  unfold onlyChannelsHaveDataB at h
  rw [ha] at h
  simp only [List.all_eq_true, Bool.or_eq_true, Bool.not_eq_true', decide_eq_true_eq] at h
  rcases h sa hsa with h | h
  · exact absurd (List.isEmpty_iff.mp h) hne
  · rcases h x hx with h | h
    · rw [hd] at h; cases h
    · exact h

/-- the channel data the eager read ends with -/
def channelsOfContent (c : Content) : List ChannelData := rcvWith (rcvPathsC c) (valsOf c)

/-- **`readFile` on the encoding of a file of the class** -/
theorem readFile_multi (e : FileEnc) (acts : List (List ActiveObj)) (hacts : activeLists none [] e = .ok acts)
    (hok : SegsOK e acts) (hnd : ActsNodup acts) (hch : ∀ sa ∈ e.zip acts, ChannelsOnly sa)
    (hlen : (zipEncode encodeSeg e acts).length < 2 ^ 63) :
    ∃ st, readMetadata (zipEncode encodeSeg e acts) = .ok st ∧
      st.objects = (denoteSegs [] e acts).map (mOC fun _ => 0) ∧
      readFile (zipEncode encodeSeg e acts) = .ok ⟨st, channelsOfContent (denoteSegs [] e acts)⟩ := by
  obtain ⟨st, hmeta, hsegs, hobjs, _⟩ := readMetadata_multi e acts hacts hok hlen
  obtain ⟨fs, hdata⟩ := readRawDataAll_multi (zipEncode encodeSeg e acts) e acts 0 {} hok hnd rfl
  refine ⟨st, hmeta, hobjs, C01Compose.readFile_of_parts _ _ (rawChunksAll e acts) fs _ hmeta
    (by rw [hsegs]; exact hdata) ?_⟩
  have htyok : TyOK (denoteSegs [] e acts) := tyOK_denoteSegs e acts [] hok (fun _ h => by cases h)
  have hvals := valsOf_denoteSegs e acts [] hok
  have hv0 : valsOf [] = fun _ => [] := rfl
  rw [hv0] at hvals
  have hps : ∀ p ∈ (allPairs e acts).map (·.1), p ∈ rcvPathsC (denoteSegs [] e acts) := by
    intro p hp
    obtain ⟨h1, sa, hsa, hne, x, hx, hd, hxp⟩ := allPairs_hasTy e acts [] hok p hp
    exact mem_rcvPathsC h1 (hxp ▸ hch sa hsa hne x hx hd)
  rw [hobjs, receivers_of_content _ htyok, rawChunksAll_eq, channelsOfContent, hvals,
    ← pairListsAll_flatten e acts]
  apply foldl_fileStep_chunks st
  · intro pairs hpairs pv hpv
    exact hps _ (mem_pairListsAll hpairs hpv)
  · intro p _
    rw [hobjs, cap_of_content, hvals, pairListsAll_flatten]
    exact Nat.le_refl _

/-- **the reader's content is the spec's content** -/
theorem content_multi (e : FileEnc) (acts : List (List ActiveObj)) (hok : SegsOK e acts)
    (hch : ∀ sa ∈ e.zip acts, ChannelsOnly sa)
    (st : ReaderState) (hobjs : st.objects = (denoteSegs [] e acts).map (mOC fun _ => 0)) :
    content ⟨st, channelsOfContent (denoteSegs [] e acts)⟩ = contentOfDenote (denoteSegs [] e acts) := by
  have hnodup := denoteSegs_nodup e acts [] hok (by simp)
  have hvals := valsOf_denoteSegs e acts [] hok
  have hv0 : valsOf [] = fun _ => [] := rfl
  rw [hv0] at hvals
  simp only [content, contentOfDenote, hobjs, List.map_map]
  apply List.map_congr_left
  intro oc hoc
  have hvoc : valsOf (denoteSegs [] e acts) oc.path = oc.values := by
    unfold valsOf
    rw [find_of_nodup hnodup hoc]
    rfl
  have h2 : valuesIn (channelsOfContent (denoteSegs [] e acts)) oc.path = oc.values := by
    unfold channelsOfContent
    rw [C01Compose.valuesIn_rcvWith]
    by_cases hp : oc.path ∈ rcvPathsC (denoteSegs [] e acts)
    · rw [if_pos hp, hvoc]
    · rw [if_neg hp, ← hvoc, hvals]
      symm
      apply C01Compose.bump_foldl_not_mem
      intro hmem
      obtain ⟨h1, sa, hsa, hne, x, hx, hd, hxp⟩ := allPairs_hasTy e acts [] hok _ hmem
      exact hp (mem_rcvPathsC h1 (hxp ▸ hch sa hsa hne x hx hd))
  show (⟨oc.path, oc.ty, oc.props.map canonProp, valuesIn _ oc.path⟩ : ObjView) = ⟨oc.path, oc.ty, _, oc.values⟩
  rw [h2]

/-! ## the values of a path in closed form -/

theorem bump_foldl_closed (pairs : List (Bytes × List Bytes)) :
    ∀ (f : Bytes → List Bytes) (p : Bytes),
      pairs.foldl bump f p = f p ++ (pairs.filter fun pv => decide (pv.1 = p)).flatMap (·.2) := by
  induction pairs with
  | nil => intro f p; simp
  | cons pv pairs ih =>
    intro f p
    rw [List.foldl_cons, ih, List.filter_cons]
    by_cases h : pv.1 = p
    · subst h
      simp [bump]
    · have h' : ¬ p = pv.1 := fun e => h e.symm
      simp [bump, h, h']

end Tdms.Proofs.C01Multi
