import Tdms.Model.Defrag

/-!
# C10 lemmas: `f32ToF64` (IEEE-754 single → double on bit patterns) preserves the value

Both formats are interpreted explicitly: a finite number is `(-1)^neg · n · 2^(-1074)` for a natural
number `n` (every finite float32 and float64 is an integer multiple of `2^(-1074)`, the smallest
float64 subnormal), so "same value" is equality of `(neg, n)`; infinities keep their sign; NaN is NaN.

Core Lean only (`omega`, `Nat.pow_add`).
-/

namespace Tdms.Proofs.C10
open Tdms Tdms.Model

/-- the value of a floating-point bit pattern -/
inductive FVal
  | finite (neg : Bool) (scaled : Nat)     -- (-1)^neg · scaled · 2^(-1074)
  | inf (neg : Bool)
  | nan
deriving DecidableEq, Repr

/-- IEEE-754 binary32: sign, 8-bit exponent (bias 127), 23-bit fraction.
    normal: `(2^23 + m) · 2^(e - 150)`; subnormal: `m · 2^(-149)` — written as multiples of `2^(-1074)` -/
def f32Val (b : Nat) : FVal :=
  let s := b / 2 ^ 31
  let e := (b / 2 ^ 23) % 256
  let m := b % 2 ^ 23
  if e = 255 then (if m = 0 then .inf (s = 1) else .nan)
  else if e = 0 then .finite (s = 1) (m * 2 ^ 925)
  else .finite (s = 1) ((2 ^ 23 + m) * 2 ^ (e + 924))

/-- IEEE-754 binary64: sign, 11-bit exponent (bias 1023), 52-bit fraction.
    normal: `(2^52 + M) · 2^(E - 1075)`; subnormal: `M · 2^(-1074)` -/
def f64Val (x : Nat) : FVal :=
  let s := x / 2 ^ 63
  let E := (x / 2 ^ 52) % 2048
  let M := x % 2 ^ 52
  if E = 2047 then (if M = 0 then .inf (s = 1) else .nan)
  else if E = 0 then .finite (s = 1) M
  else .finite (s = 1) ((2 ^ 52 + M) * 2 ^ (E - 1))

/-- signalling NaN: exponent all ones, fraction non-zero with the top fraction bit clear -/
def IsSNaN32 (b : Nat) : Prop := (b / 2 ^ 23) % 256 = 255 ∧ b % 2 ^ 23 ≠ 0 ∧ b % 2 ^ 23 < 2 ^ 22

def IsNaN32 (b : Nat) : Prop := (b / 2 ^ 23) % 256 = 255 ∧ b % 2 ^ 23 ≠ 0

instance (b : Nat) : Decidable (IsSNaN32 b) := by unfold IsSNaN32; infer_instance
instance (b : Nat) : Decidable (IsNaN32 b) := by unfold IsNaN32; infer_instance

/-- exact float64 → float32 narrowing on the image of `f32ToF64` -/
def f64ToF32 (x : Nat) : Nat :=
  let s := x / 2 ^ 63
  let E := (x / 2 ^ 52) % 2048
  let M := x % 2 ^ 52
  if E = 2047 then s * 2 ^ 31 + 255 * 2 ^ 23 + M / 2 ^ 29
  else if E = 0 then s * 2 ^ 31
  else if 897 ≤ E then s * 2 ^ 31 + (E - 896) * 2 ^ 23 + M / 2 ^ 29
  else s * 2 ^ 31 + (2 ^ 23 + M / 2 ^ 29) / 2 ^ (897 - E)

theorem f32Val_eq (b : Nat) : f32Val b =
    if (b / 2 ^ 23) % 256 = 255 then (if b % 2 ^ 23 = 0 then .inf (b / 2 ^ 31 = 1) else .nan)
    else if (b / 2 ^ 23) % 256 = 0 then .finite (b / 2 ^ 31 = 1) (b % 2 ^ 23 * 2 ^ 925)
    else .finite (b / 2 ^ 31 = 1) ((2 ^ 23 + b % 2 ^ 23) * 2 ^ ((b / 2 ^ 23) % 256 + 924)) := rfl

/-! ## fields of an assembled double -/

theorem f64_fields (s E M : Nat) (hE : E < 2048) (hM : M < 2 ^ 52) :
    (s * 2 ^ 63 + E * 2 ^ 52 + M) / 2 ^ 63 = s ∧ ((s * 2 ^ 63 + E * 2 ^ 52 + M) / 2 ^ 52) % 2048 = E ∧
      (s * 2 ^ 63 + E * 2 ^ 52 + M) % 2 ^ 52 = M := by omega

theorem f64Val_mk (s E M : Nat) (hE : E < 2048) (hM : M < 2 ^ 52) :
    f64Val (s * 2 ^ 63 + E * 2 ^ 52 + M) =
      if E = 2047 then (if M = 0 then .inf (s = 1) else .nan)
      else if E = 0 then .finite (s = 1) M
      else .finite (s = 1) ((2 ^ 52 + M) * 2 ^ (E - 1)) := by
  obtain ⟨h1, h2, h3⟩ := f64_fields s E M hE hM
  simp only [f64Val, h1, h2, h3]

theorem f64ToF32_mk (s E M : Nat) (hE : E < 2048) (hM : M < 2 ^ 52) :
    f64ToF32 (s * 2 ^ 63 + E * 2 ^ 52 + M) =
      if E = 2047 then s * 2 ^ 31 + 255 * 2 ^ 23 + M / 2 ^ 29
      else if E = 0 then s * 2 ^ 31
      else if 897 ≤ E then s * 2 ^ 31 + (E - 896) * 2 ^ 23 + M / 2 ^ 29
      else s * 2 ^ 31 + (2 ^ 23 + M / 2 ^ 29) / 2 ^ (897 - E) := by
  obtain ⟨h1, h2, h3⟩ := f64_fields s E M hE hM
  simp only [f64ToF32, h1, h2, h3]

/-! ## `f32ToF64`, case by case -/

/-- the fields of a float32 pattern -/
theorem f32_fields (b : Nat) (hb : b < 2 ^ 32) :
    b / 2 ^ 31 ≤ 1 ∧ (b / 2 ^ 23) % 256 < 256 ∧ b % 2 ^ 23 < 2 ^ 23 ∧
      b = (b / 2 ^ 31) * 2 ^ 31 + ((b / 2 ^ 23) % 256) * 2 ^ 23 + b % 2 ^ 23 := by omega

theorem f32ToF64_special (b : Nat) (he : (b / 2 ^ 23) % 256 = 255) :
    f32ToF64 b = (b / 2 ^ 31) * 2 ^ 63 + 2047 * 2 ^ 52 +
      (if b % 2 ^ 23 ≠ 0 ∧ b % 2 ^ 23 < 2 ^ 22 then b % 2 ^ 23 + 2 ^ 22 else b % 2 ^ 23) * 2 ^ 29 := by
  simp only [f32ToF64, he, if_true]

theorem f32ToF64_zero (b : Nat) (he : (b / 2 ^ 23) % 256 = 0) (hm : b % 2 ^ 23 = 0) :
    f32ToF64 b = (b / 2 ^ 31) * 2 ^ 63 := by
  simp [f32ToF64, he, hm]

theorem f32ToF64_normal (b : Nat) (he0 : (b / 2 ^ 23) % 256 ≠ 0) (he1 : (b / 2 ^ 23) % 256 ≠ 255) :
    f32ToF64 b = (b / 2 ^ 31) * 2 ^ 63 + ((b / 2 ^ 23) % 256 + 896) * 2 ^ 52 + (b % 2 ^ 23) * 2 ^ 29 := by
  simp only [f32ToF64, if_neg he0, if_neg he1]
  omega

theorem f32ToF64_subnormal (b : Nat) (he : (b / 2 ^ 23) % 256 = 0) (hm : b % 2 ^ 23 ≠ 0) :
    f32ToF64 b = (b / 2 ^ 31) * 2 ^ 63 + (874 + Nat.log2 (b % 2 ^ 23)) * 2 ^ 52 +
      (((b % 2 ^ 23) * 2 ^ (23 - Nat.log2 (b % 2 ^ 23))) % 2 ^ 23) * 2 ^ 29 := by
  have hk : Nat.log2 (b % 2 ^ 23) < 23 := (Nat.log2_lt hm).mpr (by omega)
  simp only [f32ToF64, he, if_neg hm, if_true]
  have : 1023 - 126 - (23 - Nat.log2 (b % 2 ^ 23)) = 874 + Nat.log2 (b % 2 ^ 23) := by omega
  simp [this]

/-- normalising a subnormal fraction: `m · 2^(23-k)` has its leading one at bit 23 -/
theorem subnormal_shift (m : Nat) (hm0 : m ≠ 0) (hm : m < 2 ^ 23) :
    Nat.log2 m < 23 ∧ 2 ^ 23 ≤ m * 2 ^ (23 - Nat.log2 m) ∧ m * 2 ^ (23 - Nat.log2 m) < 2 ^ 24 := by
  have hk : Nat.log2 m < 23 := (Nat.log2_lt hm0).mpr hm
  have hlo := Nat.log2_self_le hm0
  have hhi := Nat.lt_log2_self (n := m)
  have hpos : 0 < 2 ^ (23 - Nat.log2 m) := Nat.pow_pos (by decide)
  refine ⟨hk, ?_, ?_⟩
  · calc 2 ^ 23 = 2 ^ (Nat.log2 m + (23 - Nat.log2 m)) := by congr 1; omega
      _ = 2 ^ Nat.log2 m * 2 ^ (23 - Nat.log2 m) := Nat.pow_add ..
      _ ≤ m * 2 ^ (23 - Nat.log2 m) := Nat.mul_le_mul_right _ hlo
  · calc m * 2 ^ (23 - Nat.log2 m) < 2 ^ (Nat.log2 m + 1) * 2 ^ (23 - Nat.log2 m) :=
          Nat.mul_lt_mul_of_pos_right hhi hpos
      _ = 2 ^ (Nat.log2 m + 1 + (23 - Nat.log2 m)) := (Nat.pow_add ..).symm
      _ = 2 ^ 24 := by congr 1; omega

/-- `(2^52 + (m·2^t − 2^23)·2^29) · 2^(873+k) = m · 2^925` with `t = 23 − k` -/
theorem subnormal_scaled (m k : Nat) (hk : k < 23) (hlo : 2 ^ 23 ≤ m * 2 ^ (23 - k)) (hhi : m * 2 ^ (23 - k) < 2 ^ 24) :
    (2 ^ 52 + m * 2 ^ (23 - k) % 2 ^ 23 * 2 ^ 29) * 2 ^ (874 + k - 1) = m * 2 ^ 925 := by
  have h1 : 2 ^ 52 + m * 2 ^ (23 - k) % 2 ^ 23 * 2 ^ 29 = m * 2 ^ (23 - k) * 2 ^ 29 := by omega
  have h2 : 23 - k + (29 + (874 + k - 1)) = 925 := by omega
  rw [h1, Nat.mul_assoc, Nat.mul_assoc, ← Nat.pow_add, ← Nat.pow_add, h2]

/-- `(2^52 + m·2^29) · 2^(e+895) = (2^23 + m) · 2^(e+924)` -/
theorem normal_scaled (m e : Nat) (he : 0 < e) :
    (2 ^ 52 + m * 2 ^ 29) * 2 ^ (e + 896 - 1) = (2 ^ 23 + m) * 2 ^ (e + 924) := by
  have h1 : 2 ^ 52 + m * 2 ^ 29 = (2 ^ 23 + m) * 2 ^ 29 := by omega
  have h2 : 29 + (e + 896 - 1) = e + 924 := by omega
  rw [h1, Nat.mul_assoc, ← Nat.pow_add, h2]

/-! ## value preservation -/

/-- **`f32ToF64` preserves the value** of every float32 bit pattern: ±0, subnormals, normals
    (the same `(-1)^s · n · 2^(-1074)`), ±∞ (same sign), NaN ↦ NaN -/
theorem f32ToF64_value (b : Nat) (hb : b < 2 ^ 32) : f64Val (f32ToF64 b) = f32Val b := by
  obtain ⟨hs, he, hm, _⟩ := f32_fields b hb
  by_cases he255 : (b / 2 ^ 23) % 256 = 255
  · rw [f32ToF64_special b he255]
    rw [f32Val_eq, if_pos he255]
    split
    · rename_i h
      rw [f64Val_mk _ _ _ (by decide) (by omega)]
      simp only [if_true]
      rw [if_neg (by omega), if_neg h.1]
    · rename_i h
      rw [f64Val_mk _ _ _ (by decide) (by omega)]
      simp only [if_true]
      by_cases hm0 : b % 2 ^ 23 = 0
      · rw [if_pos (by omega), if_pos hm0]
      · rw [if_neg (by omega), if_neg hm0]
  · by_cases he0 : (b / 2 ^ 23) % 256 = 0
    · by_cases hm0 : b % 2 ^ 23 = 0
      · rw [f32ToF64_zero b he0 hm0]
        have := f64Val_mk (b / 2 ^ 31) 0 0 (by decide) (by decide)
        simp only [Nat.zero_mul, Nat.add_zero] at this
        rw [this, f32Val_eq, if_neg he255, if_pos he0, hm0]
        generalize (2 : Nat) ^ 925 = P
        rw [Nat.zero_mul]
        rfl
      · rw [f32ToF64_subnormal b he0 hm0]
        obtain ⟨hk, hlo, hhi⟩ := subnormal_shift _ hm0 hm
        rw [f32Val_eq, if_neg he255, if_pos he0]
        generalize hkk : Nat.log2 (b % 2 ^ 23) = k at *
        generalize hmm : b % 2 ^ 23 = m at *
        rw [f64Val_mk _ _ _ (by omega) (by omega)]
        rw [if_neg (by omega), if_neg (by omega)]
        rw [subnormal_scaled m k hk hlo hhi]
    · rw [f32ToF64_normal b he0 he255, f32Val_eq, if_neg he255, if_neg he0]
      generalize hee : (b / 2 ^ 23) % 256 = e at *
      generalize hmm : b % 2 ^ 23 = m at *
      rw [f64Val_mk _ _ _ (by omega) (by omega)]
      rw [if_neg (by omega), if_neg (by omega)]
      rw [normal_scaled m e (by omega)]

/-- **`f32ToF64` has an exact left inverse** on everything but signalling NaNs (whose quiet bit the
    hardware conversion sets) -/
theorem f64ToF32_f32ToF64 (b : Nat) (hb : b < 2 ^ 32) (hn : ¬ IsSNaN32 b) : f64ToF32 (f32ToF64 b) = b := by
  obtain ⟨hs, he, hm, hbb⟩ := f32_fields b hb
  unfold IsSNaN32 at hn
  by_cases he255 : (b / 2 ^ 23) % 256 = 255
  · rw [f32ToF64_special b he255, if_neg (by omega)]
    rw [f64ToF32_mk _ _ _ (by decide) (by omega)]
    simp only [if_true]
    omega
  · by_cases he0 : (b / 2 ^ 23) % 256 = 0
    · by_cases hm0 : b % 2 ^ 23 = 0
      · rw [f32ToF64_zero b he0 hm0]
        have := f64ToF32_mk (b / 2 ^ 31) 0 0 (by decide) (by decide)
        simp only [Nat.zero_mul, Nat.add_zero] at this
        rw [this]
        simp only [if_neg (show ¬ (0 = 2047) by decide), if_true]
        omega
      · rw [f32ToF64_subnormal b he0 hm0]
        obtain ⟨hk, hlo, hhi⟩ := subnormal_shift _ hm0 hm
        generalize hkk : Nat.log2 (b % 2 ^ 23) = k at *
        generalize hmm : b % 2 ^ 23 = m at *
        rw [f64ToF32_mk _ _ _ (by omega) (by omega)]
        rw [if_neg (by omega), if_neg (by omega), if_neg (by omega)]
        have h1 : 2 ^ 23 + m * 2 ^ (23 - k) % 2 ^ 23 * 2 ^ 29 / 2 ^ 29 = m * 2 ^ (23 - k) := by omega
        rw [h1, show 897 - (874 + k) = 23 - k by omega, Nat.mul_div_cancel _ (Nat.pow_pos (by decide))]
        omega
    · rw [f32ToF64_normal b he0 he255]
      rw [f64ToF32_mk _ _ _ (by omega) (by omega)]
      rw [if_neg (by omega), if_neg (by omega), if_pos (by omega)]
      omega

/-- **injective** on all float32 patterns that are not signalling NaNs (in particular on non-NaNs) -/
theorem f32ToF64_injective (a b : Nat) (ha : a < 2 ^ 32) (hb : b < 2 ^ 32) (hna : ¬ IsSNaN32 a)
    (hnb : ¬ IsSNaN32 b) (h : f32ToF64 a = f32ToF64 b) : a = b := by
  rw [← f64ToF32_f32ToF64 a ha hna, ← f64ToF32_f32ToF64 b hb hnb, h]

theorem not_snan_of_not_nan {b : Nat} (h : ¬ IsNaN32 b) : ¬ IsSNaN32 b :=
  fun hs => h ⟨hs.1, hs.2.1⟩

theorem f32ToF64_injective_non_nan (a b : Nat) (ha : a < 2 ^ 32) (hb : b < 2 ^ 32) (hna : ¬ IsNaN32 a)
    (hnb : ¬ IsNaN32 b) (h : f32ToF64 a = f32ToF64 b) : a = b :=
  f32ToF64_injective a b ha hb (not_snan_of_not_nan hna) (not_snan_of_not_nan hnb) h

/-- the result is a float64 bit pattern -/
theorem f32ToF64_lt (b : Nat) (hb : b < 2 ^ 32) : f32ToF64 b < 2 ^ 64 := by
  obtain ⟨hs, he, hm, _⟩ := f32_fields b hb
  by_cases he255 : (b / 2 ^ 23) % 256 = 255
  · rw [f32ToF64_special b he255]; split <;> omega
  · by_cases he0 : (b / 2 ^ 23) % 256 = 0
    · by_cases hm0 : b % 2 ^ 23 = 0
      · rw [f32ToF64_zero b he0 hm0]; omega
      · rw [f32ToF64_subnormal b he0 hm0]
        obtain ⟨hk, _, _⟩ := subnormal_shift _ hm0 hm
        omega
    · rw [f32ToF64_normal b he0 he255]; omega

/-! ## the special values, exactly -/

theorem f32ToF64_specials :
    f32ToF64 0x00000000 = 0x0000000000000000 ∧       -- +0
    f32ToF64 0x80000000 = 0x8000000000000000 ∧       -- −0
    f32ToF64 0x7f800000 = 0x7ff0000000000000 ∧       -- +∞
    f32ToF64 0xff800000 = 0xfff0000000000000 ∧       -- −∞
    f32ToF64 0x3f800000 = 0x3ff0000000000000 ∧       -- 1.0
    f32ToF64 0xc0490fdb = 0xc00921fb60000000 ∧       -- −π (float32)
    f32ToF64 0x00000001 = 0x36a0000000000000 ∧       -- smallest subnormal 2^-149
    f32ToF64 0x007fffff = 0x380fffffc0000000 ∧       -- largest subnormal
    f32ToF64 0x00800000 = 0x3810000000000000 ∧       -- smallest normal 2^-126
    f32ToF64 0x7f7fffff = 0x47efffffe0000000 ∧       -- largest finite
    f32ToF64 0x7fc00000 = 0x7ff8000000000000 ∧       -- quiet NaN
    f32ToF64 0x7fa00000 = 0x7ffc000000000000 := by   -- signalling NaN comes out quiet
  decide

end Tdms.Proofs.C10
