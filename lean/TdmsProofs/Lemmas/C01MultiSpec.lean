/-
  C01 for multi-segment files: the class of files (`MultiStd`, `FileFits`), what `wellFormed` says
  segment by segment (`SegOK0`/`SegsOK0`; `SegOK`/`SegsOK` is the same for encodings whose fixed-width
  indexes carry the canonical `total`, the form the byte-level lemmas work with), and the divergence guard
  of C02 follows from `activeLists` succeeding (`noBareReuse_of_ok`).  Core Lean only.
-/
import TdmsProofs.Lemmas.C01MultiParse
import TdmsProofs.Lemmas.C01ComposeMain

namespace Tdms.Proofs.C01Multi

open Tdms Tdms.Generated Tdms.Model Tdms.Proofs.C02

/-! ## the class of files -/

/-- one segment of the class: contiguous layout, length known, no DAQmx index listed, and the
    (never written) `total` field of a fixed-width index is the canonical `n * size` -/
structure SegStdC (s : SegEnc) : Prop where
  contiguous : s.interleaved = false
  lengthKnown : s.lengthUnknown = false
  std : ∀ o ∈ s.objs, stdListed o
  canon : ∀ o ∈ s.objs, canonIdx o.idx = o.idx

/-- size side conditions of one segment -/
structure SegFitsM (s : SegEnc) : Prop where
  nObjs : s.objs.length < 2 ^ 32
  objs : ∀ o ∈ s.objs, ObjFitsM o

/-- descriptions the reader handles in this class: a standard index of string or fixed-width type,
    fewer than 2^64 values, string data of a chunk below 2^32 bytes, canonical `total` -/
def GoodDesc : IdxDesc → Prop
  | .std ty n total =>
    (ty = tyString ∨ (typeSize ty).isSome = true) ∧ n < 2 ^ 64 ∧ (ty = tyString → total < 2 ^ 32) ∧
    (ty ≠ tyString → total = n * (typeSize ty).getD 0)
  | .daq .. => False

/-- what `wellFormed` and the class say about one segment and its active list -/
structure SegOK (s : SegEnc) (a : List ActiveObj) : Prop where
  std : SegStdC s
  fits : SegFitsM s
  version : s.version = 4712 ∨ s.version = 4713
  noMeta : s.hasMeta = false → s.objs = []
  objs : ∀ o ∈ s.objs, wfObj o = true
  nodup : noDupPaths s.objs = true
  good : ∀ x ∈ a, ∀ d, x.idx = some d → GoodDesc d
  nonZero : ∀ c ∈ s.chunks, (encChunk s a c).length ≠ 0
  chunks : ∀ c ∈ s.chunks, wfStdChunk (dataObjs a) c = true

def SegsOK : List SegEnc → List (List ActiveObj) → Prop
  | [], [] => True
  | s :: ss, a :: as => SegOK s a ∧ SegsOK ss as
  | _, _ => False

theorem not_daq_of_good {a : List ActiveObj} (h : ∀ x ∈ a, ∀ d, x.idx = some d → GoodDesc d) :
    (dataObjs a).any isDaqmxObj = false := by
  simp only [List.any_eq_false, dataObjs, List.mem_filter]
  intro x hx
  have := h x hx.1
  unfold isDaqmxObj
  cases hi : x.idx with
  | none => simp
  | some d =>
    cases d with
    | std ty n total => simp
    | daq dg ty n sc w => exact absurd (this _ hi) (by simp [GoodDesc])

/-! ## from `wellFormed` to per-segment facts (no assumption on the `total` of fixed-width indexes) -/

/-- one segment of the class: contiguous layout, length known, no DAQmx index listed -/
structure SegStd (s : SegEnc) : Prop where
  contiguous : s.interleaved = false
  lengthKnown : s.lengthUnknown = false
  std : ∀ o ∈ s.objs, stdListed o

/-- `GoodDesc` without the requirement on `total` of fixed-width types -/
def GoodDesc0 : IdxDesc → Prop
  | .std ty n total =>
    (ty = tyString ∨ (typeSize ty).isSome = true) ∧ n < 2 ^ 64 ∧ (ty = tyString → total < 2 ^ 32)
  | .daq .. => False

theorem goodDesc0_of_listed {o : ObjEnc} (hwf : wfObj o = true) (hs : stdListed o) (hf : ObjFitsM o) :
    ∀ d, descOfIdx o.idx = some d → GoodDesc0 d := by
  intro d hd
  simp only [wfObj, Bool.and_eq_true] at hwf
  have hidx := hwf.1.1
  cases hi : o.idx with
  | noData => rw [hi] at hd; cases hd
  | matchesPrev => rw [hi] at hd; cases hd
  | daqmx dg ty n sc w => exact absurd hi (hs dg ty n sc w)
  | full ty n total =>
    rw [hi] at hd hidx
    cases hd
    simp only [wfIdx, Bool.and_eq_true, Bool.or_eq_true, decide_eq_true_eq] at hidx
    refine ⟨hidx.1, hidx.2, ?_⟩
    intro hty; subst hty; exact hf.strTotal n total hi

/-- what `wellFormed` and the class say about one segment and its active list -/
structure SegOK0 (s : SegEnc) (a : List ActiveObj) : Prop where
  std : SegStd s
  fits : SegFitsM s
  version : s.version = 4712 ∨ s.version = 4713
  noMeta : s.hasMeta = false → s.objs = []
  objs : ∀ o ∈ s.objs, wfObj o = true
  nodup : noDupPaths s.objs = true
  good : ∀ x ∈ a, ∀ d, x.idx = some d → GoodDesc0 d
  nonZero : ∀ c ∈ s.chunks, (encChunk s a c).length ≠ 0
  chunks : ∀ c ∈ s.chunks, wfStdChunk (dataObjs a) c = true

def SegsOK0 : List SegEnc → List (List ActiveObj) → Prop
  | [], [] => True
  | s :: ss, a :: as => SegOK0 s a ∧ SegsOK0 ss as
  | _, _ => False

theorem not_daq_of_good0 {a : List ActiveObj} (h : ∀ x ∈ a, ∀ d, x.idx = some d → GoodDesc0 d) :
    (dataObjs a).any isDaqmxObj = false := by
  simp only [List.any_eq_false, dataObjs, List.mem_filter]
  intro x hx
  have := h x hx.1
  unfold isDaqmxObj
  cases hi : x.idx with
  | none => simp
  | some d =>
    cases d with
    | std ty n total => simp
    | daq dg ty n sc w => exact absurd (this _ hi) (by simp [GoodDesc0])

theorem segOK0_of_wfSeg {s : SegEnc} {a : List ActiveObj} {isLast : Bool} (hstd : SegStd s)
    (hfit : SegFitsM s) (hgood : ∀ x ∈ a, ∀ d, x.idx = some d → GoodDesc0 d)
    (hwf : wfSeg s a isLast = true) : SegOK0 s a := by
  have hnd := not_daq_of_good0 hgood
  simp only [wfSeg, Bool.and_eq_true, Bool.or_eq_true, decide_eq_true_eq, List.all_eq_true, hnd,
    Bool.false_eq_true, if_false, chunkBytesNonZero, Bool.not_eq_true'] at hwf
  obtain ⟨⟨⟨⟨⟨⟨⟨hv, hnm⟩, hobjs⟩, hndp⟩, _⟩, _⟩, hnz⟩, hch, _⟩ := hwf
  refine ⟨hstd, hfit, hv, ?_, hobjs, hndp, hgood, ?_, hch⟩
  · intro hm
    have := hnm (by simp [hm])
    exact List.isEmpty_iff.mp this.1
  · intro c hc h0
    have := hnz c hc
    rw [List.isEmpty_eq_false_iff] at this
    exact this (List.eq_nil_of_length_eq_zero h0)

theorem segsOK0_of_wfSegs : ∀ (ss : List SegEnc) (as : List (List ActiveObj)),
    (∀ s ∈ ss, SegStd s) → (∀ s ∈ ss, SegFitsM s) →
    (∀ a ∈ as, ∀ x ∈ a, ∀ d, x.idx = some d → GoodDesc0 d) → wfSegs ss as = true → SegsOK0 ss as := by
  intro ss
  induction ss with
  | nil => intro as _ _ _ h; cases as <;> simp [wfSegs, SegsOK0] at h ⊢
  | cons s ss ih =>
    intro as hstd hfit hgood h
    cases as with
    | nil => simp [wfSegs] at h
    | cons a as =>
      simp only [wfSegs, Bool.and_eq_true] at h
      exact ⟨segOK0_of_wfSeg (hstd s List.mem_cons_self) (hfit s List.mem_cons_self)
          (hgood a List.mem_cons_self) h.1,
        ih as (fun s' hs' => hstd s' (List.mem_cons_of_mem _ hs'))
          (fun s' hs' => hfit s' (List.mem_cons_of_mem _ hs'))
          (fun a' ha' => hgood a' (List.mem_cons_of_mem _ ha')) h.2⟩

/-- **the class of multi-segment files**: every segment has contiguous layout, a known length and lists
    no DAQmx index; the file is well-formed -/
structure MultiStd (e : FileEnc) : Prop where
  segs : ∀ s ∈ e, SegStd s
  wf : wellFormed e = true

/-- size side conditions of the file -/
def FileFits (e : FileEnc) : Prop := ∀ s ∈ e, SegFitsM s

theorem MultiStd.acts {e : FileEnc} (h : MultiStd e) : ∃ acts, activeLists none [] e = .ok acts ∧
    wfSegs e acts = true := by
  have := h.wf
  unfold wellFormed at this
  cases ha : activeLists none [] e with
  | error r => rw [ha] at this; cases this
  | ok acts => rw [ha] at this; exact ⟨acts, rfl, this⟩

theorem wfSegs_objs : ∀ (e : List SegEnc) (acts : List (List ActiveObj)), wfSegs e acts = true →
    ∀ s ∈ e, ∀ o ∈ s.objs, wfObj o = true := by
  intro e
  induction e with
  | nil => intro _ _ s hs; cases hs
  | cons s ss ih =>
    intro acts h s' hs'
    cases acts with
    | nil => simp [wfSegs] at h
    | cons a as =>
      simp only [wfSegs, Bool.and_eq_true] at h
      rcases List.mem_cons.1 hs' with rfl | hs'
      · have := h.1
        simp only [wfSeg, Bool.and_eq_true, List.all_eq_true] at this
        exact this.1.1.1.1.1.2
      · exact ih as h.2 s' hs'

theorem segsOK0_of_multi {e : FileEnc} (h : MultiStd e) (fit : FileFits e) {acts : List (List ActiveObj)}
    (ha : activeLists none [] e = .ok acts) : SegsOK0 e acts := by
  obtain ⟨acts', ha', hwf⟩ := h.acts
  rw [ha] at ha'
  cases ha'
  have hobjs := wfSegs_objs e acts hwf
  refine segsOK0_of_wfSegs e acts h.segs fit ?_ hwf
  exact activeLists_W GoodDesc0 e none [] acts ha (fun p d hd => by simp [LastIdx.get] at hd)
    (fun a ha => by cases ha)
    (fun s hs o ho => goodDesc0_of_listed (hobjs s hs o ho) ((h.segs s hs).std o ho) ((fit s hs).objs o ho))

/-! ## the guard of C02 (`NoBareReuse`) holds whenever the spec accepts the file -/

theorem resolveObjs_matches_some : ∀ (os : List ObjEnc) (last : LastIdx) (act : List ActiveObj)
    (r : List ActiveObj × LastIdx), resolveObjs last act os = .ok r → (os.map (·.path)).Nodup →
    ∀ o ∈ os, o.idx = .matchesPrev → last.get o.path ≠ none := by
  intro os
  induction os with
  | nil => intro _ _ _ _ _ o ho; cases ho
  | cons o0 os ih =>
    intro last act r h hnd o ho hidx
    rw [List.map_cons, List.nodup_cons] at hnd
    unfold resolveObjs at h
    cases hr : resolveObj last o0 with
    | error e => rw [hr] at h; cases h
    | ok al =>
      obtain ⟨a, l1⟩ := al
      rw [hr] at h
      have hL := resolveObj_ok_L hr
      rcases List.mem_cons.1 ho with rfl | ho'
      · intro hn
        unfold resolveObjL at hL
        simp only [hidx, hn] at hL
        cases hL
      · have := ih _ _ _ h hnd.2 o ho' hidx
        have hne : o.path ≠ o0.path := fun e => hnd.1 (List.mem_map.2 ⟨o, ho', e⟩)
        rwa [(resolveObjL_ok hL).2.2 o.path hne] at this

theorem noBareReuseSeg_of_ok {prev : Option (List ActiveObj)} {last : LastIdx} {s : SegEnc}
    {r : List ActiveObj × LastIdx} (h : activeOfSeg prev last s = .ok r) (hnd : noDupPaths s.objs = true)
    (seen : List Bytes) : NoBareReuseSeg seen last s := by
  intro hm o ho hidx hlast
  unfold activeOfSeg at h
  simp only [hm, Bool.not_true, Bool.false_eq_true, if_false] at h
  exact absurd hlast (resolveObjs_matches_some _ _ _ _ h ((C02.noDupPaths_iff _).1 hnd) o ho hidx)

/-- **`NoBareReuse` (the hypothesis of C02 that excludes the one divergence between model and spec) holds
    along every run the spec accepts** -/
theorem noBareReuse_of_ok : ∀ (ss : List SegEnc) (seen : List Bytes) (prev : Option (List ActiveObj))
    (last : LastIdx) (as : List (List ActiveObj)), activeLists prev last ss = .ok as →
    (∀ s ∈ ss, noDupPaths s.objs = true) → NoBareReuse seen prev last ss := by
  intro ss
  induction ss with
  | nil => intro _ _ _ _ _ _; trivial
  | cons s ss ih =>
    intro seen prev last as h hnd
    unfold activeLists at h
    cases hseg : activeOfSeg prev last s with
    | error r => rw [hseg] at h; cases h
    | ok al =>
      obtain ⟨a, last'⟩ := al
      rw [hseg] at h
      simp only [] at h
      cases hrest : activeLists (some a) last' ss with
      | error r => rw [hrest] at h; cases h
      | ok as' =>
        refine ⟨noBareReuseSeg_of_ok hseg (hnd s List.mem_cons_self) seen, ?_⟩
        rw [hseg]
        exact ih _ _ _ _ hrest (fun s' hs' => hnd s' (List.mem_cons_of_mem _ hs'))

end Tdms.Proofs.C01Multi
