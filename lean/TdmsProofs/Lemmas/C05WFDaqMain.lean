import TdmsProofs.Lemmas.C05WFDaqLocal
import TdmsProofs.Lemmas.C05WFMain
import TdmsProofs.Properties.C06

/-!
# C05WF: `IndexWFD` for what `openFile` returns (DAQmx segments allowed)

Core Lean only.
-/

namespace Tdms.Proofs.C05WF

open Tdms Tdms.Model Tdms.Generated Tdms.Proofs.C02 Tdms.Proofs.C05 Tdms.Proofs.C19

/-- every DAQmx segment is uniform: its data objects all declare the same number of values per chunk -/
def DaqUniformFile (f : OpenFile) : Prop :=
  ∀ s ∈ f.segments, dataReaderKind s = .ok .daqmx → ∃ N, DaqUniform N (C19.dataObjs s)

theorem indexWFD_of_inv {f : OpenFile} {prev : PrevObjs} (hi : Inv f.segments prev f.objects)
    (hu : UniquePaths f) (hdq : DaqUniformFile f) (hil : InterleavedFull f) : IndexWFD f := by
  refine ⟨hdq, hil, ?_, ?_, ?_, ?_⟩
  · intro s hs o ho o' ho' hp
    obtain ⟨i, hi', rfl⟩ := List.getElem_of_mem ho
    obtain ⟨j, hj, rfl⟩ := List.getElem_of_mem ho'
    have h1 : (s.objects.map (·.path))[i]? = some s.objects[i].path := by simp [hi']
    have h2 : (s.objects.map (·.path))[j]? = some s.objects[i].path := by simp [hj, hp]
    have := (List.getElem?_inj (by simpa using hi') (hu s hs)).1 (h1.trans h2.symm)
    subst this; rfl
  · intro s hs ov hov o ho hdat
    by_cases hk : dataReaderKind s = .ok .daqmx
    · -- DAQmx segment: every final length is at most the common chunk size
      obtain ⟨N, hN⟩ := hdq s hs hk
      obtain ⟨s0, h0, hcalc⟩ := hi.calcd s hs
      obtain ⟨c, _, _, hcase⟩ := calculateChunks_inv h0 hcalc
      rcases hcase with ⟨hnone, _⟩ | ⟨ov', r, hov', _, _, _, _, hcomp⟩
      · rw [hnone] at hov; cases hov
      · rw [hov'] at hov; cases hov
        have hd : haveDaqmxObjects s.objects = .ok true := by
          rcases kind_cases s _ hk with h | h | h
          · exact h.2
          · cases h.1
          · cases h.1
        have hod : o ∈ C19.dataObjs s := List.mem_filter.2 ⟨ho, hdat⟩
        rw [(hN o hod).1]
        refine Tdms.Proofs.C06.final_length_le_daqmx s c r N _ hd ?_ hcomp o.path
        intro m hm
        unfold Tdms.Proofs.C11.daqMetas at hm
        rw [List.mem_filterMap] at hm
        obtain ⟨o', ho', hd'⟩ := hm
        exact (hN o' ho').2 m hd'
    · exact (segFacts_of_inv hi s hs hk (hu s hs)).override_le ov hov o ho
  · intro s hs ov hov
    obtain ⟨s0, h0, hcalc⟩ := hi.calcd s hs
    obtain ⟨c, _, _, hcase⟩ := calculateChunks_inv h0 hcalc
    rcases hcase with ⟨hnone, _⟩ | ⟨ov', r, _, _, _, hk, _, _⟩
    · rw [hnone] at hov; cases hov
    · exact hk
  · intro p
    rw [chanLen_eq_indexTotal hi hu p]
    exact Nat.le_refl _


/-! ## executable form of `DaqUniformFile` -/

def daqUniformSegB (s : Segment) : Bool :=
  (C19.dataObjs s).all fun o =>
    decide (o.numberValues = C19.nv0 (C19.dataObjs s)) &&
      (match o.daq with
       | some m => decide (m.chunkSize ≤ C19.nv0 (C19.dataObjs s))
       | none => true)

def daqUniformFileB (f : OpenFile) : Bool :=
  f.segments.all fun s => !(decide (dataReaderKind s = .ok .daqmx)) || daqUniformSegB s

theorem daqUniformFileB_sound {f : OpenFile} (h : daqUniformFileB f = true) : DaqUniformFile f := by
  intro s hs hk
  unfold daqUniformFileB at h
  rw [List.all_eq_true] at h
  have := h s hs
  simp only [hk, decide_true, Bool.not_true, Bool.false_or] at this
  refine ⟨C19.nv0 (C19.dataObjs s), ?_⟩
  intro o ho
  unfold daqUniformSegB at this
  rw [List.all_eq_true] at this
  have := this o ho
  simp only [Bool.and_eq_true, decide_eq_true_eq] at this
  refine ⟨this.1, ?_⟩
  intro m hm
  have h2 := this.2
  rw [hm] at h2
  simpa using h2

end Tdms.Proofs.C05WF
