/-
  Raw data, interleaved layout: `interleavedColumns` against `encChunkInterleaved`.  Core Lean only.
-/
import TdmsProofs.Lemmas.DataLemmas

namespace Tdms.Proofs.Bytes

open Tdms Tdms.Generated Tdms.Model

/-- type code the encoder uses for an active object -/
def aTy (a : ActiveObj) : Nat := (a.idx.map (·.ty)).getD 0

/-- the reader's objects, the encoder's objects and the values agree: same fixed-width type,
    `n` values per object, each of the type's size -/
def colsOK (n : Nat) : List SegObj → List ActiveObj → List (List Bytes) → Prop
  | [], [], [] => True
  | o :: os, a :: as, v :: vs =>
    (∃ sz, o.dataType = some (aTy a) ∧ typeSize (aTy a) = some sz ∧ v.length = n ∧
      ∀ x ∈ v, x.length = sz) ∧ colsOK n os as vs
  | _, _, _ => False

/-- the chunk dictionary after storing one column per object, in order -/
def setCols : RawChunk → List SegObj → List (List Bytes) → RawChunk
  | acc, o :: os, v :: vs => setCols (dictSet acc o.path { data := some v }) os vs
  | acc, _, _ => acc

/-- bytes per row -/
def rowWidth (aobjs : List ActiveObj) : Nat := (aobjs.map fun a => (typeSize (aTy a)).getD 0).sum

theorem encRow_cons (e : Endian) (j : Nat) (a : ActiveObj) (as : List ActiveObj) (v : List Bytes)
    (vs : List (List Bytes)) :
    encRow e j (a :: as) (v :: vs) = storeValue e (aTy a) (v.getD j []) ++ encRow e j as vs := rfl

theorem getD_eq_getElem' {v : List Bytes} {j : Nat} (hj : j < v.length) : v.getD j [] = v[j] := by
  simp [List.getD_eq_getElem?_getD, List.getElem?_eq_getElem hj]

theorem getD_mem_length {v : List Bytes} {sz j : Nat} (h : ∀ x ∈ v, x.length = sz) (hj : j < v.length) :
    (v.getD j []).length = sz := by
  rw [getD_eq_getElem' hj]
  exact h _ (List.getElem_mem hj)

theorem map_range_getD (v : List Bytes) : (List.range v.length).map (fun j => v.getD j []) = v := by
  apply List.ext_getElem
  · simp
  · intro i h1 h2
    simp at h1
    simp [List.getElem?_eq_getElem h1]

theorem encRow_length (e : Endian) {n : Nat} {objs : List SegObj} {aobjs : List ActiveObj}
    {vals : List (List Bytes)} (h : colsOK n objs aobjs vals) {j : Nat} (hj : j < n) :
    (encRow e j aobjs vals).length = rowWidth aobjs := by
  induction objs generalizing aobjs vals with
  | nil =>
    cases aobjs <;> cases vals <;> simp [colsOK] at h
    rfl
  | cons o os ih =>
    cases aobjs with
    | nil => cases vals <;> simp [colsOK] at h
    | cons a as =>
      cases vals with
      | nil => simp [colsOK] at h
      | cons v vs =>
        obtain ⟨⟨sz, _, hsz, hvn, hall⟩, hrest⟩ := h
        rw [encRow_cons, List.length_append, ih hrest,
          storeValue_length e hsz _ (getD_mem_length hall (hvn ▸ hj))]
        simp [rowWidth, hsz]

/-- column selection on rows that carry an arbitrary prefix of `col` bytes -/
theorem interleavedColumns_rows (e : Endian) (n : Nat) (objs : List SegObj) :
    ∀ (aobjs : List ActiveObj) (vals : List (List Bytes)) (col : Nat) (pre : Nat → Bytes)
      (acc : RawChunk), colsOK n objs aobjs vals → (∀ j, j < n → (pre j).length = col) →
      interleavedColumns e ((List.range n).map fun j => pre j ++ encRow e j aobjs vals) col objs acc =
        .ok (setCols acc objs vals) := by
  induction objs with
  | nil =>
    intro aobjs vals col pre acc h _
    cases aobjs <;> cases vals <;> simp [colsOK] at h
    rfl
  | cons o os ih =>
    intro aobjs vals col pre acc h hpre
    cases aobjs with
    | nil => cases vals <;> simp [colsOK] at h
    | cons a as =>
      cases vals with
      | nil => simp [colsOK] at h
      | cons v vs =>
        obtain ⟨⟨sz, hty, hsz, hvn, hall⟩, hrest⟩ := h
        have hos : objSize o = .ok sz := by simp [objSize, hty, hsz]
        have hcol : (List.range n).map (fun j => canonValue e (aTy a)
            (((pre j ++ encRow e j (a :: as) (v :: vs)).drop col).take sz)) = v := by
          conv => rhs; rw [← map_range_getD v, hvn]
          apply List.map_congr_left
          intro j hj
          have hj' : j < n := List.mem_range.mp hj
          have hl := getD_mem_length hall (hvn ▸ hj')
          rw [encRow_cons, List.drop_left' (hpre j hj'),
            List.take_left' (storeValue_length e hsz _ hl)]
          exact canonValue_storeValue e hsz _ hl
        have hrows : (List.range n).map (fun j => pre j ++ encRow e j (a :: as) (v :: vs)) =
            (List.range n).map (fun j => (pre j ++ storeValue e (aTy a) (v.getD j [])) ++
              encRow e j as vs) := by
          apply List.map_congr_left
          intro j _
          rw [encRow_cons, List.append_assoc]
        have hpre' : ∀ j, j < n → (pre j ++ storeValue e (aTy a) (v.getD j [])).length = col + sz := by
          intro j hj
          rw [List.length_append, hpre j hj,
            storeValue_length e hsz _ (getD_mem_length hall (hvn ▸ hj))]
        unfold interleavedColumns
        simp only [hos, hty, Option.getD_some, List.map_map, bind, Except.bind]
        have hcol' : List.map ((fun r => canonValue e (aTy a) ((r.drop col).take sz)) ∘
            fun j => pre j ++ encRow e j (a :: as) (v :: vs)) (List.range n) = v := hcol
        rw [hcol', hrows]
        exact ih as vs (col + sz) _ _ hrest hpre'

theorem colsOK_nil_left {n : Nat} {aobjs : List ActiveObj} {vals : List (List Bytes)}
    (h : colsOK n [] aobjs vals) : aobjs = [] ∧ vals = [] := by
  cases aobjs <;> cases vals <;> simp [colsOK] at h
  exact ⟨rfl, rfl⟩

/-- the rows of an interleaved chunk, recovered by cutting it every `rowWidth` bytes -/
theorem splitEvery_encChunkInterleaved (e : Endian) {n : Nat} {o : SegObj} {os : List SegObj}
    {aobjs : List ActiveObj} {vals : List (List Bytes)} (h : colsOK n (o :: os) aobjs vals) :
    splitEvery (rowWidth aobjs) n (encChunkInterleaved e aobjs vals) =
      (List.range n).map fun j => encRow e j aobjs vals := by
  have hrows : (vals.head?.map (·.length)).getD 0 = n := by
    cases aobjs with
    | nil => cases vals <;> simp [colsOK] at h
    | cons a as =>
      cases vals with
      | nil => simp [colsOK] at h
      | cons v vs => obtain ⟨⟨_, _, _, hvn, _⟩, _⟩ := h; simpa using hvn
  have hpos : 0 < rowWidth aobjs := by
    cases aobjs with
    | nil => cases vals <;> simp [colsOK] at h
    | cons a as =>
      cases vals with
      | nil => simp [colsOK] at h
      | cons v vs =>
        obtain ⟨⟨sz, _, hsz, _, _⟩, _⟩ := h
        have := typeSize_pos hsz
        simp only [rowWidth, List.map_cons, List.sum_cons, hsz, Option.getD_some]
        omega
  unfold encChunkInterleaved
  simp only [hrows, List.flatMap_def]
  apply splitEvery_flatten hpos
  · intro x hx
    obtain ⟨j, hj, rfl⟩ := List.mem_map.mp hx
    exact encRow_length e h (List.mem_range.mp hj)
  · simp

/-- C01 layer 7: every object gets back its column -/
theorem interleavedColumns_encChunk (e : Endian) (n : Nat) (objs : List SegObj)
    (aobjs : List ActiveObj) (vals : List (List Bytes)) (h : colsOK n objs aobjs vals) :
    interleavedColumns e (splitEvery (rowWidth aobjs) n (encChunkInterleaved e aobjs vals)) 0 objs [] =
      .ok (setCols [] objs vals) := by
  cases objs with
  | nil =>
    obtain ⟨rfl, rfl⟩ := colsOK_nil_left h
    rfl
  | cons o os =>
    rw [splitEvery_encChunkInterleaved e h]
    have := interleavedColumns_rows e n (o :: os) aobjs vals 0 (fun _ => []) [] h (fun _ _ => rfl)
    simpa using this

/-! ## the result dictionary when paths are distinct -/

theorem dictSet_fresh {β : Type} (d : List (Bytes × β)) (p : Bytes) (v : β)
    (h : ∀ x ∈ d, x.1 ≠ p) : dictSet d p v = d ++ [(p, v)] := by
  have : d.any (fun x => decide (x.1 = p)) = false := by
    simp only [List.any_eq_false, decide_eq_true_eq]; exact h
  simp [dictSet, this]

/-- with pairwise distinct paths the chunk is the list of `(path, column)` pairs in order -/
theorem setCols_distinct (objs : List SegObj) :
    ∀ (acc : RawChunk) (vals : List (List Bytes)),
      (objs.map (·.path)).Nodup → (∀ o ∈ objs, ∀ x ∈ acc, x.1 ≠ o.path) →
      setCols acc objs vals = acc ++
        (objs.zip vals).map fun ov => (ov.1.path, ({ data := some ov.2 } : ChanChunk)) := by
  induction objs with
  | nil => intro acc vals _ _; simp [setCols]
  | cons o os ih =>
    intro acc vals hnd hfresh
    cases vals with
    | nil => simp [setCols]
    | cons v vs =>
      simp only [List.map_cons, List.nodup_cons, List.mem_map, not_exists, not_and] at hnd
      obtain ⟨hno, hnd'⟩ := hnd
      simp only [setCols]
      rw [dictSet_fresh _ _ _ (fun x hx => hfresh o List.mem_cons_self x hx),
        ih _ vs hnd' (by
          intro q hq x hx
          rcases List.mem_append.mp hx with hx | hx
          · exact hfresh q (List.mem_cons_of_mem _ hq) x hx
          · simp only [List.mem_singleton] at hx
            subst hx
            exact fun h => hno q hq h.symm)]
      simp

/-! ## where a value sits in the chunk -/

theorem flatten_drop_row {W : Nat} (rows : List Bytes) (h : ∀ r ∈ rows, r.length = W) (j : Nat)
    (hj : j < rows.length) :
    rows.flatten.drop (j * W) = rows[j] ++ (rows.drop (j + 1)).flatten := by
  induction rows generalizing j with
  | nil => simp at hj
  | cons r rs ih =>
    cases j with
    | zero => simp
    | succ j =>
      have hr : r.length = W := h r List.mem_cons_self
      have : (j + 1) * W = W + j * W := by rw [Nat.succ_mul]; omega
      rw [this, List.flatten_cons, ← List.drop_drop, List.drop_left' hr,
        ih (fun x hx => h x (List.mem_cons_of_mem _ hx)) j (by simpa using hj)]
      simp

theorem encRow_drop_take (e : Endian) {n : Nat} {objs : List SegObj} {aobjs : List ActiveObj}
    {vals : List (List Bytes)} (h : colsOK n objs aobjs vals) {j : Nat} (hj : j < n) (i : Nat)
    (hi : i < aobjs.length) :
    ((encRow e j aobjs vals).drop (rowWidth (aobjs.take i))).take
        ((typeSize (aTy aobjs[i])).getD 0) =
      storeValue e (aTy aobjs[i]) ((vals.getD i []).getD j []) := by
  induction objs generalizing aobjs vals i with
  | nil =>
    obtain ⟨rfl, rfl⟩ := colsOK_nil_left h
    simp at hi
  | cons o os ih =>
    cases aobjs with
    | nil => simp at hi
    | cons a as =>
      cases vals with
      | nil => simp [colsOK] at h
      | cons v vs =>
        obtain ⟨⟨sz, _, hsz, hvn, hall⟩, hrest⟩ := h
        have hl := storeValue_length e hsz _ (getD_mem_length hall (hvn ▸ hj))
        cases i with
        | zero =>
          simp only [List.take_zero, rowWidth, List.map_nil, List.sum_nil, List.drop_zero,
            List.getElem_cons_zero, hsz, Option.getD_some, encRow_cons]
          rw [List.take_left' hl]
          simp
        | succ i =>
          have hi' : i < as.length := by simpa using hi
          have hw : rowWidth ((a :: as).take (i + 1)) = sz + rowWidth (as.take i) := by
            simp [rowWidth, hsz]
          rw [hw, encRow_cons, ← List.drop_drop, List.drop_left' hl]
          simpa using ih hrest i hi'

theorem colsOK_at (e : Endian) {n : Nat} {objs : List SegObj} {aobjs : List ActiveObj}
    {vals : List (List Bytes)} (h : colsOK n objs aobjs vals) {j : Nat} (hj : j < n) (i : Nat)
    (hi : i < aobjs.length) :
    0 < (typeSize (aTy aobjs[i])).getD 0 ∧
    (storeValue e (aTy aobjs[i]) ((vals.getD i []).getD j [])).length =
      (typeSize (aTy aobjs[i])).getD 0 := by
  induction objs generalizing aobjs vals i with
  | nil =>
    obtain ⟨rfl, rfl⟩ := colsOK_nil_left h
    simp at hi
  | cons o os ih =>
    cases aobjs with
    | nil => simp at hi
    | cons a as =>
      cases vals with
      | nil => simp [colsOK] at h
      | cons v vs =>
        obtain ⟨⟨sz, _, hsz, hvn, hall⟩, hrest⟩ := h
        cases i with
        | zero =>
          simp only [List.getElem_cons_zero, hsz, Option.getD_some]
          exact ⟨typeSize_pos hsz, by
            simpa using storeValue_length e hsz _ (getD_mem_length hall (hvn ▸ hj))⟩
        | succ i =>
          have hi' : i < as.length := by simpa using hi
          simpa using ih hrest i hi'

theorem encChunkInterleaved_eq_rows (e : Endian) {n : Nat} {o : SegObj} {os : List SegObj}
    {aobjs : List ActiveObj} {vals : List (List Bytes)} (h : colsOK n (o :: os) aobjs vals) :
    encChunkInterleaved e aobjs vals = ((List.range n).map fun j => encRow e j aobjs vals).flatten := by
  have hrows : (vals.head?.map (·.length)).getD 0 = n := by
    cases aobjs with
    | nil => cases vals <;> simp [colsOK] at h
    | cons a as =>
      cases vals with
      | nil => simp [colsOK] at h
      | cons v vs => obtain ⟨⟨_, _, _, hvn, _⟩, _⟩ := h; simpa using hvn
  unfold encChunkInterleaved
  simp only [hrows, List.flatMap_def]

/-- value `j` of object `i` sits at byte `j·W + Σ_{i' < i} size_{i'}` of the chunk -/
theorem interleaved_value_at (e : Endian) {n : Nat} {objs : List SegObj} {aobjs : List ActiveObj}
    {vals : List (List Bytes)} (h : colsOK n objs aobjs vals) (i j : Nat) (hi : i < aobjs.length)
    (hj : j < n) :
    ((encChunkInterleaved e aobjs vals).drop (j * rowWidth aobjs + rowWidth (aobjs.take i))).take
        ((typeSize (aTy aobjs[i])).getD 0) =
      storeValue e (aTy aobjs[i]) ((vals.getD i []).getD j []) := by
  cases objs with
  | nil =>
    obtain ⟨rfl, rfl⟩ := colsOK_nil_left h
    simp at hi
  | cons o os =>
    have hrow := encRow_drop_take e h hj i hi
    have hrl := encRow_length e h hj
    generalize hsz : (typeSize (aTy aobjs[i])).getD 0 = sz at hrow ⊢
    generalize hoff : rowWidth (aobjs.take i) = off at hrow ⊢
    -- the slice lies inside row `j`
    have hlen := congrArg List.length hrow
    have hpos : 0 < sz ∧ (storeValue e (aTy aobjs[i]) ((vals.getD i []).getD j [])).length = sz :=
      hsz ▸ colsOK_at e h hj i hi
    rw [hpos.2, List.length_take, List.length_drop, hrl] at hlen
    have hoffle : off + sz ≤ rowWidth aobjs := by omega
    rw [encChunkInterleaved_eq_rows e h, ← List.drop_drop,
      flatten_drop_row (W := rowWidth aobjs) _ (by
        intro r hr
        obtain ⟨k, hk, rfl⟩ := List.mem_map.mp hr
        exact encRow_length e h (List.mem_range.mp hk)) j (by simpa using hj)]
    simp only [List.getElem_map, List.getElem_range]
    rw [List.drop_append_of_le_length (by omega), List.take_append_of_le_length (by
      rw [List.length_drop, hrl]; omega)]
    exact hrow

/-! ## the interleaved reader on one chunk -/

theorem width_fold (objs : List SegObj) :
    ∀ (aobjs : List ActiveObj) (vals : List (List Bytes)) (n k : Nat), colsOK n objs aobjs vals →
      objs.foldl (fun acc o => do let a ← acc; let s ← objSize o; pure (a + s)) (Except.ok k) =
        (Except.ok (k + rowWidth aobjs) : Except Err Nat) := by
  induction objs with
  | nil =>
    intro aobjs vals n k h
    obtain ⟨rfl, rfl⟩ := colsOK_nil_left h
    simp [rowWidth]
  | cons o os ih =>
    intro aobjs vals n k h
    cases aobjs with
    | nil => cases vals <;> simp [colsOK] at h
    | cons a as =>
      cases vals with
      | nil => simp [colsOK] at h
      | cons v vs =>
        obtain ⟨⟨sz, hty, hsz, _, _⟩, hrest⟩ := h
        have hos : objSize o = .ok sz := by simp [objSize, hty, hsz]
        rw [List.foldl_cons, hos]
        show List.foldl _ (Except.ok (k + sz)) os = _
        rw [ih as vs n (k + sz) hrest]
        simp [rowWidth, hsz, Nat.add_assoc]

theorem encChunkInterleaved_length (e : Endian) {n : Nat} {o : SegObj} {os : List SegObj}
    {aobjs : List ActiveObj} {vals : List (List Bytes)} (h : colsOK n (o :: os) aobjs vals) :
    (encChunkInterleaved e aobjs vals).length = rowWidth aobjs * n := by
  rw [encChunkInterleaved_eq_rows e h, flatten_length_of_all (sz := rowWidth aobjs)]
  · simp [Nat.mul_comm]
  · intro r hr
    obtain ⟨k, hk, rfl⟩ := List.mem_map.mp hr
    exact encRow_length e h (List.mem_range.mp hk)

/-- `InterleavedDataReader.read_data_chunks` on one encoded chunk: one read of `W·n` bytes, and
    every object gets its column -/
theorem readInterleavedChunks_one (file : Bytes) (s : Segment) (o : SegObj) (os : List SegObj)
    (aobjs : List ActiveObj) (vals : List (List Bytes)) (n pos : Nat) (tr : List (Nat × Nat))
    (hcols : colsOK n (o :: os) aobjs vals) (hnv : ∀ x ∈ o :: os, x.numberValues = n)
    (hfile : (file.drop pos).take (rowWidth aobjs * n) = encChunkInterleaved s.endian aobjs vals) :
    (readInterleavedChunks file s (o :: os) 1).run ⟨pos, tr⟩ =
      .ok ([setCols [] (o :: os) vals],
        ⟨pos + rowWidth aobjs * n, tr ++ [(pos, rowWidth aobjs * n)]⟩) := by
  have hn0 : o.numberValues = n := hnv o List.mem_cons_self
  have hany : (o :: os).any (fun x => decide (x.numberValues ≠ o.numberValues)) = false := by
    simp only [List.any_eq_false, decide_eq_true_eq, Decidable.not_not]
    intro x hx; rw [hnv x hx, hn0]
  have hw := width_fold (o :: os) aobjs vals n 0 hcols
  rw [Nat.zero_add] at hw
  have hlen := encChunkInterleaved_length s.endian hcols
  have hread : fRead file (rowWidth aobjs * (o.numberValues * 1)) ⟨pos, tr⟩ =
      .ok (encChunkInterleaved s.endian aobjs vals,
        ⟨pos + rowWidth aobjs * n, tr ++ [(pos, rowWidth aobjs * n)]⟩) := by
    simp [fRead, hn0, hfile, hlen]
  have hpos : rowWidth aobjs ≠ 0 := by
    cases aobjs with
    | nil => cases vals <;> simp [colsOK] at hcols
    | cons a as =>
      cases vals with
      | nil => simp [colsOK] at hcols
      | cons v vs =>
        obtain ⟨⟨sz, _, hsz, _, _⟩, _⟩ := hcols
        have := typeSize_pos hsz
        simp only [rowWidth, List.map_cons, List.sum_cons, hsz, Option.getD_some]
        omega
  show readInterleavedChunks file s (o :: os) 1 ⟨pos, tr⟩ = _
  unfold readInterleavedChunks
  simp only [hany, Bool.false_eq_true, if_false, hw, readRows]
  simp only [pure_bind, bind_assoc]
  rw [F_bind_ok hread]
  simp only [hpos, if_false, pure_bind, hn0, Nat.mul_one,
    interleavedColumns_encChunk s.endian n (o :: os) aobjs vals hcols]
  rfl

end Tdms.Proofs.Bytes
