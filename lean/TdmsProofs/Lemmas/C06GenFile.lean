/-
  C06, the cut theorem for the general multi-segment class: `readMetadata`, `readRawDataAll`, `readFile` on complete
  segments `I` followed by `k` bytes of a segment `L` (cut at or after the start of its raw data), in closed form.
  Core Lean only.
-/
import TdmsProofs.Lemmas.C06GenData

namespace Tdms.Proofs.C06Gen

open Tdms Tdms.Generated Tdms.Model Tdms.Proofs.C02 Tdms.Proofs.LeadIn Tdms.Proofs.C01Multi Tdms.Proofs.C01Marker
open Tdms.Proofs.Bytes (canonProp)
open Tdms.Proofs.C01Compose (pairsChunk bump valuesIn rcvWith)
open Tdms.Proofs.C06Whole (dataPosOf)

/-! ## receivers and capacities for a view with extra counts -/

theorem receivers_of_contentG (c : Content) (ex : Bytes → Nat) (h : TyOK c) :
    ((c.map (mOC ex)).filter fun m => countComponents m.path = 2).filterMap newReceiver =
      rcvWith (rcvPathsC c) (fun _ => []) := by
  induction c with
  | nil => rfl
  | cons oc c ih =>
    have ih := ih (fun x hx => h x (List.mem_cons_of_mem _ hx))
    have hoc := h oc List.mem_cons_self
    simp only [List.map_cons, List.filter_cons, mOC_path, rcvPathsC] at ih ⊢
    by_cases hc : countComponents oc.path = 2
    · simp only [hc, decide_true, if_true, List.filterMap_cons, Bool.true_and]
      cases hty : oc.ty with
      | none =>
        have : newReceiver (mOC ex oc) = none := by simp [newReceiver, mOC, hty]
        simpa [this] using ih
      | some ty =>
        have hne : ty ≠ tyDaqmxRaw := hoc ty hty
        have : newReceiver (mOC ex oc) = some ⟨oc.path, some [], []⟩ := by
          simp [newReceiver, mOC, hty, hne]
        simp only [this, Option.isSome_some, if_true, List.map_cons, rcvWith, List.cons.injEq, true_and]
        exact ih
    · simp only [hc, decide_false, Bool.false_eq_true, if_false, Bool.false_and]
      exact ih

theorem cap_of_contentG (c : Content) (ex : Bytes → Nat) (p : Bytes) (hp : p ∈ c.map (·.path)) :
    ((ObjMetas.get (c.map (mOC ex)) p).map (·.numValues)).getD 0 = (valsOf c p).length + ex p := by
  unfold ObjMetas.get valsOf
  rw [List.find?_map]
  have hcomp : ((fun m : ObjMeta => decide (m.path = p)) ∘ mOC ex) =
      fun x : ObjContent => decide (x.path = p) := by
    funext x; rfl
  rw [hcomp]
  cases hf : c.find? (fun x => decide (x.path = p)) with
  | none =>
    exfalso
    obtain ⟨oc, hoc, hpe⟩ := List.mem_map.mp hp
    have := List.find?_eq_none.mp hf oc hoc
    simp [hpe] at this
  | some oc =>
    have hpe : oc.path = p := by simpa using List.find?_some hf
    simp [mOC, hpe]

/-! ## the first `q` chunks of a segment -/

theorem segOK_takeChunks {s : SegEnc} {a : List ActiveObj} (h : SegOK s a) (q : Nat) : SegOK (takeChunks s q) a :=
  ⟨⟨h.std.contiguous, h.std.lengthKnown, h.std.std, h.std.canon⟩, ⟨h.fits.nObjs, h.fits.objs⟩, h.version, h.noMeta,
    h.objs, h.nodup, h.good, fun c hc => h.nonZero c (List.mem_of_mem_take hc),
    fun c hc => h.chunks c (List.mem_of_mem_take hc)⟩

theorem segsOK_snoc {I : List SegEnc} {AI : List (List ActiveObj)} {L : SegEnc} {AL : List ActiveObj}
    (hl : I.length = AI.length) (h1 : SegsOK I AI) (h2 : SegOK L AL) : SegsOK (I ++ [L]) (AI ++ [AL]) := by
  induction I generalizing AI with
  | nil => cases AI with
    | nil => exact ⟨h2, trivial⟩
    | cons a as => simp at hl
  | cons s ss ih =>
    cases AI with
    | nil => simp at hl
    | cons a as => exact ⟨h1.1, ih (by simpa using hl) h1.2⟩

theorem allPairs_append : ∀ (ss : List SegEnc) (as : List (List ActiveObj)) (tl : List SegEnc)
    (atl : List (List ActiveObj)), ss.length = as.length →
    allPairs (ss ++ tl) (as ++ atl) = allPairs ss as ++ allPairs tl atl := by
  intro ss
  induction ss with
  | nil => intro as tl atl hl; cases as with
    | nil => rfl
    | cons a as => simp at hl
  | cons s ss ih =>
    intro as tl atl hl
    cases as with
    | nil => simp at hl
    | cons a as =>
      simp only [List.cons_append, allPairs, ih as tl atl (by simpa using hl), List.append_assoc]

/-! ## the pairs of the cut file -/

/-- the (path, values) pairs of the truncated chunk -/
def lastPairs (s : SegEnc) (a : List ActiveObj) (k : Nat) : List (Bytes × List Bytes) :=
  if cutRA s a k = 0 then [] else pairsOf (dataObjs a) (lastChunkA s a k)

/-- all (path, values) pairs the cut file delivers, in file order -/
def cutPairs (I : List SegEnc) (AI : List (List ActiveObj)) (L : SegEnc) (AL : List ActiveObj) (k : Nat) :
    List (Bytes × List Bytes) :=
  allPairs (I ++ [takeChunks L (cutQA L AL k)]) (AI ++ [AL]) ++ lastPairs L AL k

/-- … chunk by chunk -/
def cutPairLists (I : List SegEnc) (AI : List (List ActiveObj)) (L : SegEnc) (AL : List ActiveObj) (k : Nat) :
    List (List (Bytes × List Bytes)) :=
  pairListsAll (I ++ [takeChunks L (cutQA L AL k)]) (AI ++ [AL]) ++
    (if cutRA L AL k = 0 then [] else [pairsOf (dataObjs AL) (lastChunkA L AL k)])

theorem cutPairLists_flatten (I : List SegEnc) (AI : List (List ActiveObj)) (L : SegEnc) (AL : List ActiveObj)
    (k : Nat) : (cutPairLists I AI L AL k).flatten = cutPairs I AI L AL k := by
  unfold cutPairLists cutPairs lastPairs
  rw [List.flatten_append, pairListsAll_flatten]
  split <;> simp

theorem pairListsAll_append : ∀ (ss : List SegEnc) (as : List (List ActiveObj)) (tl : List SegEnc)
    (atl : List (List ActiveObj)), ss.length = as.length →
    pairListsAll (ss ++ tl) (as ++ atl) = pairListsAll ss as ++ pairListsAll tl atl := by
  intro ss
  induction ss with
  | nil => intro as tl atl hl; cases as with
    | nil => rfl
    | cons a as => simp at hl
  | cons s ss ih =>
    intro as tl atl hl
    cases as with
    | nil => simp at hl
    | cons a as =>
      simp only [List.cons_append, pairListsAll, ih as tl atl (by simpa using hl), List.append_assoc]

theorem rawChunks_cut_eq (I : List SegEnc) (AI : List (List ActiveObj)) (L : SegEnc) (AL : List ActiveObj)
    (k : Nat) (hl : I.length = AI.length) :
    rawChunksAll I AI ++ rawChunksCut L AL k = (cutPairLists I AI L AL k).map pairsChunk := by
  unfold cutPairLists
  rw [pairListsAll_append I AI _ _ hl, List.map_append, List.map_append, ← rawChunksAll_eq]
  simp only [pairListsAll, List.append_nil, List.append_assoc]
  congr 1
  unfold rawChunksCut cutChunksA pairLists
  have hr : (takeChunks L (cutQA L AL k)).rawFlag = L.rawFlag := rfl
  have hc : (takeChunks L (cutQA L AL k)).chunks = L.chunks.take (cutQA L AL k) := rfl
  rw [hr, hc]
  have hp0 : pairsChunk [] = [] := rfl
  cases L.rawFlag <;> by_cases h0 : cutRA L AL k = 0 <;> simp [h0, Function.comp_def, hp0]

/-! ## the truncated chunk: how many values it delivers under a path -/

theorem lensA_le (s : SegEnc) (a : List ActiveObj) (h : SegOK s a) (hnd : (a.map (·.path)).Nodup) (k : Nat)
    (hk : dataPosOf s ≤ k) (hkL : k ≤ (encodeSeg s a).length) (hr : cutRA s a k ≠ 0) (x : ActiveObj)
    (hx : x ∈ dataObjs a) : lensA s a k x.path ≤ (concObj x).numberValues := by
  obtain ⟨hc0, hrc, hlt, hq⟩ := cutRA_pos_imp s a h k hk hkL hr
  have hne : s.chunks ≠ [] := by intro h0; rw [h0] at hq; simp at hq
  let seg : Segment := ⟨0, tocMask s, k, dataPosOf s, true, a.map concObj, 0, none⟩
  have hov := computeFinal_conc s a h hne seg rfl
    (by show hasFlag (tocMask s) kTocInterleavedData = false
        rw [Tdms.Proofs.Bytes.hasFlag_tocMask_interleaved, h.std.contiguous]) rfl (chunkBytesA a) (cutRA s a k)
  have hxa : x ∈ a ∧ x.hasData = true := by simpa [dataObjs] using hx
  have := Tdms.Proofs.C06.final_length_le_std seg (chunkBytesA a) (cutRA s a k) _ (haveDaqmxObjects_conc a h.good)
    (by show (((a.map concObj).filter (·.hasData)).map (·.path)).Nodup
        rw [filter_hasData_conc, map_concObj_paths]; exact dataObjs_nodup hnd)
    (Nat.le_of_lt hrc) hov (concObj x) (List.mem_map.mpr ⟨x, hxa.1, rfl⟩) (by rw [concObj_hasData]; exact hxa.2)
  rw [concObj_path] at this
  exact this

theorem zipTake_count (lens : Bytes → Nat) (p : Bytes) : ∀ (d : List ActiveObj) (ch : List (List Bytes)),
    d.length = ch.length → (∀ xv ∈ d.zip ch, lens xv.1.path ≤ xv.2.length) →
    (((pairsOf d (List.zipWith (fun (x : ActiveObj) v => v.take (lens x.path)) d ch)).filter
        fun pv => decide (pv.1 = p)).flatMap (·.2)).length =
      (d.map fun x => if x.path = p then lens x.path else 0).sum := by
  intro d
  induction d with
  | nil => intro ch _ _; cases ch <;> simp [pairsOf]
  | cons x xs ih =>
    intro ch hl hle
    cases ch with
    | nil => simp at hl
    | cons v vs =>
      have ih' := ih vs (by simpa using hl) (fun xv hxv => hle xv (by simp [hxv]))
      have hv : lens x.path ≤ v.length := hle (x, v) (by simp)
      unfold pairsOf at ih' ⊢
      simp only [List.zipWith_cons_cons, List.map_cons, List.zip_cons_cons, List.filter_cons, List.sum_cons]
      by_cases hp : x.path = p
      · simp only [hp, decide_true, if_true, List.flatMap_cons, List.length_append, ih', List.length_take]
        rw [hp] at hv
        omega
      · simp only [hp, decide_false, Bool.false_eq_true, if_false, ih', Nat.zero_add]

theorem sum_data_filter (p : Bytes) (C : Prop) [Decidable C] (hC : C) (g : ActiveObj → Nat) :
    ∀ l : List ActiveObj,
      (l.map fun x => if x.path = p then (if x.hasData = true ∧ C then g x else 0) else 0).sum =
        ((l.filter (·.hasData)).map fun x => if x.path = p then g x else 0).sum := by
  intro l
  induction l with
  | nil => rfl
  | cons x xs ih =>
    simp only [List.map_cons, List.sum_cons, List.filter_cons, ih]
    cases hd : x.hasData with
    | false => simp
    | true => simp [hC]

theorem sum_data_zero (p : Bytes) (C : Prop) [Decidable C] (hC : ¬ C) (g : ActiveObj → Nat) :
    ∀ l : List ActiveObj,
      (l.map fun x => if x.path = p then (if x.hasData = true ∧ C then g x else 0) else 0).sum = 0 := by
  intro l
  induction l with
  | nil => rfl
  | cons x xs ih =>
    rw [List.map_cons, List.sum_cons, ih]
    simp [hC]

theorem exCut_dataObjs (a : List ActiveObj) (s : SegEnc) (k : Nat) (p : Bytes) (hr : cutRA s a k ≠ 0) :
    exCut a s k p = ((dataObjs a).map fun x => if x.path = p then lensA s a k x.path else 0).sum :=
  sum_data_filter p (cutRA s a k ≠ 0) hr (fun x => overrideGet (ovA a (cutRA s a k)) x.path) a

theorem exCut_zero (a : List ActiveObj) (s : SegEnc) (k : Nat) (p : Bytes) (hr : cutRA s a k = 0) :
    exCut a s k p = 0 :=
  sum_data_zero p (cutRA s a k ≠ 0) (by simp [hr]) (fun x => overrideGet (ovA a (cutRA s a k)) x.path) a

/-- **the truncated chunk delivers, under every path, as many values as the reader counted for it** -/
theorem lastPairs_count (s : SegEnc) (a : List ActiveObj) (h : SegOK s a) (hnd : (a.map (·.path)).Nodup) (k : Nat)
    (hk : dataPosOf s ≤ k) (hkL : k ≤ (encodeSeg s a).length) (p : Bytes) :
    ((((lastPairs s a k).filter fun pv => decide (pv.1 = p)).flatMap (·.2)).length) = exCut a s k p := by
  by_cases hr : cutRA s a k = 0
  · rw [exCut_zero a s k p hr]
    simp [lastPairs, hr]
  · obtain ⟨_, _, _, hq⟩ := cutRA_pos_imp s a h k hk hkL hr
    rw [exCut_dataObjs a s k p hr]
    unfold lastPairs lastChunkA
    rw [if_neg hr, Tdms.Proofs.C06Whole.getD_of_lt _ _ _ hq]
    have hmem : s.chunks[cutQA s a k] ∈ s.chunks := List.getElem_mem hq
    have hcont := (chunk_facts s.endian (dataObjs a) _ (good_dataObjs h.good) (h.chunks _ hmem)).1
    apply zipTake_count
    · clear hmem
      generalize s.chunks[cutQA s a k] = ch at hcont
      generalize dataObjs a = d at hcont
      induction d generalizing ch with
      | nil => cases ch <;> simp [Tdms.Proofs.Bytes.contOK] at hcont ⊢
      | cons x xs ih =>
        cases ch with
        | nil => simp [Tdms.Proofs.Bytes.contOK] at hcont
        | cons v vs =>
          simp only [List.map_cons, Tdms.Proofs.Bytes.contOK] at hcont
          simp [ih vs hcont.2]
    · intro xv hxv
      have hx : xv.1 ∈ dataObjs a := (List.of_mem_zip hxv).1
      have hle := lensA_le s a h hnd k hk hkL hr xv.1 hx
      have hnv : (concObj xv.1).numberValues = xv.2.length := by
        clear hle hx hmem
        generalize s.chunks[cutQA s a k] = ch at hcont hxv
        generalize dataObjs a = d at hcont hxv
        induction d generalizing ch with
        | nil => simp at hxv
        | cons x xs ih =>
          cases ch with
          | nil => simp at hxv
          | cons v vs =>
            simp only [List.map_cons, Tdms.Proofs.Bytes.contOK] at hcont
            simp only [List.zip_cons_cons, List.mem_cons] at hxv
            rcases hxv with rfl | hxv
            · exact hcont.1.2.1
            · exact ih vs hcont.2 hxv
      omega

/-! ## `readMetadata`, `readRawDataAll`, `readFile` on the cut file -/

/-- the content after the complete segments and the complete chunks of the cut segment -/
def cutContent (I : List SegEnc) (AI : List (List ActiveObj)) (L : SegEnc) (AL : List ActiveObj) (k : Nat) : Content :=
  denoteSegs [] (I ++ [takeChunks L (cutQA L AL k)]) (AI ++ [AL])

/-- the channel data the eager read of the cut file ends with -/
def cutChannelsG (I : List SegEnc) (AI : List (List ActiveObj)) (L : SegEnc) (AL : List ActiveObj) (k : Nat) :
    List ChannelData :=
  rcvWith (rcvPathsC (cutContent I AI L AL k)) ((cutPairs I AI L AL k).foldl bump fun _ => [])

/-- **`readMetadata` on complete segments followed by `k` bytes of a further segment** (`dataPosOf L ≤ k`) -/
theorem readMetadata_cutlast (I : List SegEnc) (AI : List (List ActiveObj)) (L : SegEnc) (AL : List ActiveObj)
    (b : Bool) (k : Nat) (hacts : activeLists none [] (I ++ [L]) = .ok (AI ++ [AL])) (hl : I.length = AI.length)
    (hok : SegsOK (I ++ [L]) (AI ++ [AL])) (hk1 : dataPosOf L ≤ k) (hkL : k ≤ (encodeSeg L AL).length)
    (hlen : (zipEncode encodeSeg I AI).length + (encodeSeg L AL).length < 2 ^ 63) :
    ∃ st, readMetadata (zipEncode encodeSeg I AI ++ (encodeSeg (setU b L) AL).take k) = .ok st ∧
      st.segments = segRecs 0 I AI ++ [cutRec (zipEncode encodeSeg I AI).length L b AL k] ∧
      st.objects = (cutContent I AI L AL k).map (mOC (exCut AL L k)) := by
  generalize hfile : zipEncode encodeSeg I AI ++ (encodeSeg (setU b L) AL).take k = file
  obtain ⟨hokI, hokL⟩ := segsOK_append I AI [L] [AL] hl hok
  have hokL' : SegOK L AL := hokL.1
  obtain ⟨as, atl, prev', last', hsplit, hfrom, htl⟩ := activeLists_append I [L] none [] _ hacts
  have hlas : I.length = as.length := hfrom.length
  have hasEq : as = AI ∧ atl = [AL] := by
    have := List.append_inj hsplit.symm (by omega)
    exact ⟨this.1, this.2⟩
  obtain ⟨rfl, rfl⟩ := hasEq
  obtain ⟨a', last'', as', hactL, hnil, hcons⟩ := activeLists_cons htl
  have : a' = AL := by
    have := congrArg List.head? hcons
    simpa using this.symm
  subst this
  have hP := segRecs_length_pos I as hokI
  have hk28 : 28 ≤ k := by unfold dataPosOf at hk1; omega
  have htk : ((encodeSeg (setU b L) a').take k).length = k := by
    rw [List.length_take, encodeSeg_setU_length]; omega
  have hflen : file.length = (zipEncode encodeSeg I as).length + k := by
    rw [← hfile, List.length_append, htk]
  have hlenF : file.length < 2 ^ 63 := by omega
  -- the prefix
  obtain ⟨st1, seen1, hloop, hsegs1, hobjs1, hnd1, hver1, _, hinv1, hspec1⟩ :=
    loop_prefix file hlenF I as ((encodeSeg (setU b L) a').take k) 0 (file.length + 1 - I.length) {} [] none [] []
      prev' last' hfrom hokI (by rw [List.drop_zero, hfile]) (by rw [mstateOf_init]; exact FileInv.init)
      SpecInv.init rfl (by simp)
  -- the cut segment
  have hdrop : file.drop (0 + (zipEncode encodeSeg I as).length) = (encodeSeg (setU b L) a').take k := by
    rw [Nat.zero_add, ← hfile, List.drop_left]
  obtain ⟨pv, hstep⟩ := loopStep_segment_cut file _ L b a' k hk1 hkL (by omega) hdrop (by omega) st1 seen1 prev'
    last' last'' (denoteSegs [] I as) hactL hokL' hinv1 hspec1 hobjs1 hnd1
  obtain ⟨f, hf⟩ : ∃ f, file.length + 1 - I.length = f + 2 := ⟨file.length + 1 - I.length - 2, by omega⟩
  refine ⟨stateCut st1 (0 + (zipEncode encodeSeg I as).length) L b a' k pv
    (denoteSeg (denoteSegs [] I as) (takeChunks L (cutQA L a' k)) a'), ?_, ?_, ?_⟩
  · unfold readMetadata
    have hfuel : file.length + 1 = (file.length + 1 - I.length) + I.length := by omega
    rw [hfuel, hloop, hf, readMetadataLoop_succ, hstep]
    simp only []
    rw [readMetadataLoop_succ, loopStep_past_end _ _ _ _ _ _ (by omega)]
  · simp only [stateCut, hsegs1, Nat.zero_add]
    rfl
  · simp only [stateCut, cutContent]
    rw [denoteSegs_append I as [takeChunks L (cutQA L a' k)] [a'] [] hlas]
    rfl

/-- `readRawDataAll` over the single record of the cut segment -/
theorem readRawDataAll_cutRec (file : Bytes) (pos : Nat) (s : SegEnc) (b : Bool) (a : List ActiveObj) (k : Nat)
    (hk : dataPosOf s ≤ k) (hkL : k ≤ (encodeSeg s a).length)
    (hfile : file.drop pos = (encodeSeg (setU b s) a).take k) (hok : SegOK s a) (hnd : (a.map (·.path)).Nodup)
    (st : FState) :
    ∃ st', (readRawDataAll file [cutRec pos s b a k]).run st = .ok (rawChunksCut s a k, st') := by
  obtain ⟨st1, h1⟩ := segment_data_cut file pos s b a k hk hkL hfile hok hnd st
  refine ⟨st1, ?_⟩
  show readRawDataAll file [cutRec pos s b a k] st = _
  unfold readRawDataAll
  obtain ⟨u, sv, hv, h1'⟩ : ∃ u sv, verifySegmentStart file (cutRec pos s b a k) st = .ok (u, sv) ∧
      segmentReadRawData file (cutRec pos s b a k) sv = .ok (rawChunksCut s a k, st1) := by
    cases hv : verifySegmentStart file (cutRec pos s b a k) st with
    | error err =>
      have : (do verifySegmentStart file (cutRec pos s b a k); segmentReadRawData file (cutRec pos s b a k) : F _) st =
          .error err := by
        show (StateT.bind _ _) st = _
        simp [StateT.bind, hv, bind, Except.bind]
      rw [this] at h1; cases h1
    | ok r =>
      obtain ⟨u, sv⟩ := r
      rw [Tdms.Proofs.Bytes.F_bind_ok hv] at h1
      exact ⟨u, sv, rfl, h1⟩
  rw [Tdms.Proofs.Bytes.F_bind_ok hv, Tdms.Proofs.Bytes.F_bind_ok h1']
  unfold readRawDataAll
  simp [bind, StateT.bind, Except.bind, pure, StateT.pure, Except.pure]

/-- **`readFile` on complete segments followed by `k` bytes of a further segment** (`dataPosOf L ≤ k`) -/
theorem readFile_cutlast (I : List SegEnc) (AI : List (List ActiveObj)) (L : SegEnc) (AL : List ActiveObj)
    (b : Bool) (k : Nat) (hacts : activeLists none [] (I ++ [L]) = .ok (AI ++ [AL])) (hl : I.length = AI.length)
    (hok : SegsOK (I ++ [L]) (AI ++ [AL])) (hnd : ActsNodup (AI ++ [AL]))
    (hch : ∀ sa ∈ (I ++ [L]).zip (AI ++ [AL]), ChannelsOnly sa)
    (hk1 : dataPosOf L ≤ k) (hkL : k ≤ (encodeSeg L AL).length)
    (hlen : (zipEncode encodeSeg I AI).length + (encodeSeg L AL).length < 2 ^ 63) :
    ∃ st, readMetadata (zipEncode encodeSeg I AI ++ (encodeSeg (setU b L) AL).take k) = .ok st ∧
      st.segments = segRecs 0 I AI ++ [cutRec (zipEncode encodeSeg I AI).length L b AL k] ∧
      st.objects = (cutContent I AI L AL k).map (mOC (exCut AL L k)) ∧
      readFile (zipEncode encodeSeg I AI ++ (encodeSeg (setU b L) AL).take k) =
        .ok ⟨st, cutChannelsG I AI L AL k⟩ := by
  obtain ⟨st, hmeta, hsegs, hobjs⟩ := readMetadata_cutlast I AI L AL b k hacts hl hok hk1 hkL hlen
  obtain ⟨hokI, hokL⟩ := segsOK_append I AI [L] [AL] hl hok
  have hokL' : SegOK L AL := hokL.1
  have hndL : (AL.map (·.path)).Nodup := hnd AL (by simp)
  -- raw data
  have hmore : ∀ st1, ∃ st2, (readRawDataAll (zipEncode encodeSeg I AI ++ (encodeSeg (setU b L) AL).take k)
      [cutRec (zipEncode encodeSeg I AI).length L b AL k]).run st1 = .ok (rawChunksCut L AL k, st2) := by
    intro st1
    exact readRawDataAll_cutRec _ _ L b AL k hk1 hkL (by rw [List.drop_left]) hokL' hndL st1
  obtain ⟨fs, hdata⟩ := readRawDataAll_prefix _ _ _ hmore I AI ((encodeSeg (setU b L) AL).take k) 0 {} hl hokI
    (fun a ha => hnd a (by simp [ha])) (by rw [List.drop_zero])
  refine ⟨st, hmeta, hsegs, hobjs, C01Compose.readFile_of_parts _ _ _ fs _ hmeta (by rw [hsegs]; exact hdata) ?_⟩
  -- receivers and the chunk loop
  have hokq : SegsOK (I ++ [takeChunks L (cutQA L AL k)]) (AI ++ [AL]) :=
    segsOK_snoc hl hokI (segOK_takeChunks hokL' _)
  have htyok : TyOK (cutContent I AI L AL k) := tyOK_denoteSegs _ _ [] hokq (fun _ h => by cases h)
  have hvals : valsOf (cutContent I AI L AL k) =
      (allPairs (I ++ [takeChunks L (cutQA L AL k)]) (AI ++ [AL])).foldl bump (fun _ => []) :=
    valsOf_denoteSegs _ _ [] hokq
  -- every path that receives values is a typed channel of the cut content
  have hzipq : ∀ sa ∈ (I ++ [takeChunks L (cutQA L AL k)]).zip (AI ++ [AL]), ChannelsOnly sa := by
    intro sa hsa
    rw [List.zip_append hl] at hsa
    rcases List.mem_append.mp hsa with h1 | h1
    · exact hch sa (by rw [List.zip_append hl]; exact List.mem_append_left _ h1)
    · simp only [List.zip_cons_cons, List.zip_nil_right, List.mem_singleton] at h1
      subst h1
      intro hne x hx hd
      have hLne : L.chunks ≠ [] := by
        intro h0
        apply hne
        show L.chunks.take _ = []
        rw [h0]; simp
      exact hch (L, AL) (by rw [List.zip_append hl]; simp) hLne x hx hd
  have hps : ∀ p ∈ (cutPairs I AI L AL k).map (·.1), p ∈ rcvPathsC (cutContent I AI L AL k) := by
    intro p hp
    unfold cutPairs at hp
    rw [List.map_append, List.mem_append] at hp
    rcases hp with hp | hp
    · obtain ⟨h1, sa, hsa, hne, x, hx, hd, hxp⟩ := allPairs_hasTy _ _ [] hokq p hp
      exact mem_rcvPathsC h1 (hxp ▸ hzipq sa hsa hne x hx hd)
    · unfold lastPairs at hp
      by_cases hr : cutRA L AL k = 0
      · simp [hr] at hp
      · rw [if_neg hr] at hp
        obtain ⟨pv, hpv, rfl⟩ := List.mem_map.mp hp
        have hpd : pv.1 ∈ (dataObjs AL).map (·.path) := by
          obtain ⟨p1, p2⟩ := pv
          exact (List.of_mem_zip hpv).1
        obtain ⟨x, hx, hxp⟩ := List.mem_map.mp hpd
        have hxa : x ∈ AL ∧ x.hasData = true := by simpa [dataObjs] using hx
        obtain ⟨_, _, _, hq⟩ := cutRA_pos_imp L AL hokL' k hk1 hkL hr
        have hLne : L.chunks ≠ [] := by intro h0; rw [h0] at hq; simp at hq
        obtain ⟨ty, n, total, hi⟩ := dataObjs_idx_of_chunk L AL hokL' hLne x hx
        have hty : hasTy (cutContent I AI L AL k) x.path := by
          unfold cutContent
          rw [denoteSegs_append I AI _ _ [] hl]
          exact hasTy_denoteSeg_active _ _ _ (not_daq_of_good hokL'.good) x hxa.1 (by rw [hi]; simp)
        rw [← hxp]
        exact mem_rcvPathsC hty (hch (L, AL) (by rw [List.zip_append hl]; simp) hLne x hxa.1 hxa.2)
  rw [hobjs, receivers_of_contentG _ _ htyok, rawChunks_cut_eq I AI L AL k hl, cutChannelsG,
    ← cutPairLists_flatten I AI L AL k]
  apply foldl_fileStep_chunks st
  · intro pairs hpairs pv hpv
    apply hps
    rw [← cutPairLists_flatten]
    exact List.mem_map.2 ⟨pv, List.mem_flatten.2 ⟨pairs, hpairs, hpv⟩, rfl⟩
  · intro p hp
    have hpc : p ∈ (cutContent I AI L AL k).map (·.path) := by
      obtain ⟨oc, hoc, rfl⟩ := List.mem_map.mp hp
      exact List.mem_map.mpr ⟨oc, (List.mem_filter.mp hoc).1, rfl⟩
    rw [hobjs, cap_of_contentG _ _ p hpc, cutPairLists_flatten, cutPairs, List.foldl_append, ← hvals,
      bump_foldl_closed, List.length_append, lastPairs_count L AL hokL' hndL k hk1 hkL p]
    exact Nat.le_refl _

end Tdms.Proofs.C06Gen
