/-
  Shared byte-level lemmas for C01 (layer theorems) and C15 (byte order).  Core Lean only.
-/
import Tdms.Spec.Format
import Tdms.Spec.Meaning
import Tdms.Model.Reader
import Tdms.Model.Data

namespace Tdms.Proofs.Bytes

open Tdms Tdms.Generated Tdms.Model

/-! ## integer encodings -/

@[simp] theorem encLE_length (w n : Nat) : (encLE w n).length = w := by
  induction w generalizing n with
  | zero => rfl
  | succ w ih => simp [encLE, ih]

@[simp] theorem encBE_length (w n : Nat) : (encBE w n).length = w := by
  simp [encBE]

@[simp] theorem enc_length (e : Endian) (w n : Nat) : (enc e w n).length = w := by
  cases e <;> simp [enc]

theorem decLE_encLE (w n : Nat) : decLE (encLE w n) = n % 2 ^ (8 * w) := by
  induction w generalizing n with
  | zero => simp [encLE, decLE, Nat.mod_one]
  | succ w ih =>
    have h256 : n % 256 < 256 := Nat.mod_lt _ (by decide)
    have hb : (UInt8.ofNat (n % 256)).toNat = n % 256 := by
      rw [UInt8.toNat_ofNat']; exact Nat.mod_eq_of_lt (by simpa using h256)
    have hp : 2 ^ (8 * (w + 1)) = 256 * 2 ^ (8 * w) := by
      rw [Nat.mul_add, Nat.pow_add, Nat.mul_comm]
    simp only [encLE, decLE, ih, hb, hp]
    exact (Nat.mod_mul (a := 256) (b := 2 ^ (8 * w)) (x := n)).symm

theorem decLE_encLE_of_lt {w n : Nat} (h : n < 2 ^ (8 * w)) : decLE (encLE w n) = n := by
  rw [decLE_encLE, Nat.mod_eq_of_lt h]

theorem decBE_encBE (w n : Nat) : decBE (encBE w n) = n % 2 ^ (8 * w) := by
  simp [decBE, encBE, decLE_encLE]

theorem decBE_encBE_of_lt {w n : Nat} (h : n < 2 ^ (8 * w)) : decBE (encBE w n) = n := by
  rw [decBE_encBE, Nat.mod_eq_of_lt h]

theorem dec_enc (e : Endian) (w n : Nat) : dec e (enc e w n) = n % 2 ^ (8 * w) := by
  cases e
  · exact decLE_encLE w n
  · exact decBE_encBE w n

theorem dec_enc_of_lt (e : Endian) {w n : Nat} (h : n < 2 ^ (8 * w)) : dec e (enc e w n) = n := by
  rw [dec_enc, Nat.mod_eq_of_lt h]

theorem enc_big_eq_reverse (w n : Nat) : enc .big w n = (enc .little w n).reverse := rfl

theorem decLE_lt (bs : Bytes) : decLE bs < 2 ^ (8 * bs.length) := by
  induction bs with
  | nil => simp [decLE]
  | cons b bs ih =>
    have hb : b.toNat < 256 := by simpa using UInt8.toNat_lt b
    have hp : 2 ^ (8 * (bs.length + 1)) = 256 * 2 ^ (8 * bs.length) := by
      rw [Nat.mul_add, Nat.pow_add, Nat.mul_comm]
    simp only [decLE, List.length_cons, hp]
    have : 256 * decLE bs + 256 ≤ 256 * 2 ^ (8 * bs.length) := by
      have := Nat.mul_le_mul_left 256 (Nat.succ_le_of_lt ih)
      simpa [Nat.mul_succ] using this
    omega

/-! ## the parser monad `P` -/

theorem P_bind_ok {α β : Type} {x : P α} {f : α → P β} {s s' : Bytes} {a : α}
    (h : x s = .ok (a, s')) : (x >>= f) s = f a s' := by
  show (StateT.bind x f) s = _
  simp [StateT.bind, h, bind, Except.bind]

theorem P_pure {α : Type} (a : α) (s : Bytes) : (pure a : P α) s = .ok (a, s) := rfl

theorem P_map_ok {α β : Type} {x : P α} {f : α → β} {s s' : Bytes} {a : α}
    (h : x s = .ok (a, s')) : (f <$> x) s = .ok (f a, s') := by
  show (StateT.map f x) s = _
  simp [StateT.map, h, bind, Except.bind, pure, Except.pure]

theorem takeN_append {n : Nat} (a rest : Bytes) (h : a.length = n) :
    takeN n (a ++ rest) = .ok (a, rest) := by
  simp [takeN, h, List.take_left' h, List.drop_left' h]

theorem readUpTo_append {n : Nat} (a rest : Bytes) (h : a.length = n) :
    readUpTo n (a ++ rest) = .ok (a, rest) := by
  simp [readUpTo, List.take_left' h, List.drop_left' h]

theorem uN_enc (e : Endian) (w n : Nat) (rest : Bytes) :
    uN e w (enc e w n ++ rest) = .ok (n % 2 ^ (8 * w), rest) := by
  unfold uN
  rw [P_bind_ok (takeN_append _ _ (enc_length e w n))]
  simp [P_pure, dec_enc]

theorem uN_enc_of_lt (e : Endian) {w n : Nat} (h : n < 2 ^ (8 * w)) (rest : Bytes) :
    uN e w (enc e w n ++ rest) = .ok (n, rest) := by
  rw [uN_enc, Nat.mod_eq_of_lt h]

theorem readString_encString (e : Endian) (s rest : Bytes) (h : s.length < 2 ^ 32) :
    readString e (encString e s ++ rest) = .ok (s, rest) := by
  unfold readString encString
  rw [List.append_assoc, P_bind_ok (uN_enc_of_lt e (by simpa using h) _)]
  exact readUpTo_append _ _ rfl

end Tdms.Proofs.Bytes
