/-
  C03 — the channel-level chunk iterator (`channel.data_chunks()` as the state machine `ChanIter`):
  one `next()` yields the next chunk of the planned per-segment reads, with the running count of
  values as its offset.  Core Lean only.
-/
import TdmsProofs.Lemmas.C03Main

namespace Tdms.Proofs.C03

open Tdms Tdms.Generated Tdms.Model Tdms.Proofs.Bytes Tdms.Proofs.C04

/-- first segment the iterator visits -/
def chanStart (f : OpenFile) (p : Bytes) : Nat :=
  (buildIndex f.segments p).firstSegment + searchRight (buildIndex f.segments p).offsets 0

/-- last segment the iterator visits -/
def chanEnd (f : OpenFile) (p : Bytes) (nv : Nat) : Nat :=
  (buildIndex f.segments p).firstSegment + searchLeft (buildIndex f.segments p).offsets (nv : Int)

/-- the plan of the iterator for segment `i` -/
def chanPlan (f : OpenFile) (p : Bytes) (nv : Nat) (i : Nat) (s : Segment) : Option (Int × Int × Int) :=
  segPlan p (buildIndex f.segments p) 0 (nv : Int) (chanStart f p) (chanEnd f p nv) i s

theorem windowParams_zero_none (f : OpenFile) (p : Bytes) (nv : Nat) :
    windowParams f.segments p nv 0 none =
      ⟨buildIndex f.segments p, (nv : Int), (nv : Int), chanStart f p, chanEnd f p nv⟩ := by
  unfold windowParams chanStart chanEnd
  simp

/-- chunks of the current segment not yet yielded -/
def chanSegRest (file : Bytes) (s : Segment) (p : Bytes) (plan : Option (Int × Int × Int))
    (inSeg : Option (Nat × Nat)) (ey : Bool) : List ChanChunk :=
  match plan with
  | none => []
  | some (_, _, nc) =>
    match inSeg with
    | none => (if !hasFlag s.toc kTocRawData ∧ !ey then [({} : ChanChunk)] else []) ++
        (List.range' 0 nc.toNat).map (lazyChunk file s (segCsz s) p)
    | some (i, _) => (List.range' i (nc.toNat - i)).map (lazyChunk file s (segCsz s) p)

/-- chunks of segments `j, j+1, …, j+cnt-1`, none of them started -/
def chanTail (f : OpenFile) (p : Bytes) (nv : Nat) : Nat → Nat → List ChanChunk
  | 0, _ => []
  | cnt + 1, j =>
    (match f.segments[j]? with
      | some s => chanSegRest f.file s p (chanPlan f p nv j s) none false
      | none => []) ++ chanTail f p nv cnt (j + 1)

theorem chanTail_past (f : OpenFile) (p : Bytes) (nv : Nat) : ∀ (cnt j : Nat), f.segments.length ≤ j →
    chanTail f p nv cnt j = [] := by
  intro cnt
  induction cnt with
  | zero => intro j _; rfl
  | succ cnt ih =>
    intro j hj
    unfold chanTail
    rw [List.getElem?_eq_none hj, ih (j + 1) (by omega)]
    rfl

/-- all chunks a suspended channel iterator has not yet yielded -/
def chanRest (f : OpenFile) (p : Bytes) (nv : Nat) (it : ChanIter) : List ChanChunk :=
  if it.seg > chanEnd f p nv then []
  else match f.segments[it.seg]? with
    | none => []
    | some s => chanSegRest f.file s p (chanPlan f p nv it.seg s) it.inSeg it.emptyYielded ++
        chanTail f p nv (chanEnd f p nv - it.seg) (it.seg + 1)

/-- what stays fixed during the life of the iterator -/
structure ChanInv (f : OpenFile) (p : Bytes) (nv : Nat) (it : ChanIter) : Prop where
  path : it.path = p
  startSeg : it.startSeg = chanStart f p
  endSeg : it.endSeg = chanEnd f p nv
  total : it.total = (nv : Int)
  seg : chanStart f p ≤ it.seg
  initial : ∀ i init s, it.inSeg = some (i, init) → f.segments[it.seg]? = some s → init = s.dataPosition

theorem chanRest_fresh (f : OpenFile) (p : Bytes) (nv : Nat) (j : Nat) (it : ChanIter)
    (h1 : it.seg = j) (h2 : it.inSeg = none) (h3 : it.emptyYielded = false) :
    chanRest f p nv it = chanTail f p nv (chanEnd f p nv + 1 - j) j := by
  unfold chanRest
  rw [h1, h2, h3]
  by_cases hj : j > chanEnd f p nv
  · rw [if_pos hj]
    have : chanEnd f p nv + 1 - j = 0 := by omega
    rw [this]; rfl
  · rw [if_neg hj]
    have : chanEnd f p nv + 1 - j = (chanEnd f p nv - j) + 1 := by omega
    rw [this]
    cases hs : f.segments[j]? with
    | none =>
      have hlen : f.segments.length ≤ j := by
        rcases Nat.lt_or_ge j f.segments.length with h | h
        · rw [List.getElem?_eq_getElem h] at hs; cases hs
        · exact h
      rw [chanTail_past f p nv _ j hlen]
    | some s =>
      simp only [chanTail, hs]

theorem chanRest_at (f : OpenFile) (p : Bytes) (nv : Nat) (it : ChanIter) (s : Segment) (j : Nat)
    (hj : it.seg = j) (hle : ¬ j > chanEnd f p nv) (hs : f.segments[j]? = some s) :
    chanRest f p nv it = chanSegRest f.file s p (chanPlan f p nv j s) it.inSeg it.emptyYielded ++
      chanTail f p nv (chanEnd f p nv - j) (j + 1) := by
  subst hj
  unfold chanRest; rw [if_neg hle, hs]

theorem chanRest_mk (f : OpenFile) (p : Bytes) (nv : Nat) (s : Segment) (path : Bytes) (j a b : Nat) (t : Int)
    (inSeg : Option (Nat × Nat)) (ey : Bool) (off : Nat)
    (hle : ¬ j > chanEnd f p nv) (hs : f.segments[j]? = some s) :
    chanRest f p nv ⟨path, j, a, b, t, inSeg, ey, off⟩ = chanSegRest f.file s p (chanPlan f p nv j s) inSeg ey ++
      chanTail f p nv (chanEnd f p nv - j) (j + 1) :=
  chanRest_at f p nv _ s j rfl hle hs

/-- the iterator moved to the start of the next segment -/
def nextSegIt (f : OpenFile) (p : Bytes) (nv : Nat) (it : ChanIter) : ChanIter :=
  { path := p, seg := it.seg + 1, startSeg := chanStart f p, endSeg := chanEnd f p nv, total := (nv : Int), offset := it.offset }

def ChanStepSpec (f : OpenFile) (p : Bytes) (nv : Nat) (it : ChanIter) (r : Option (ChanChunk × Nat)) (it' : ChanIter) : Prop :=
  match chanRest f p nv it with
  | [] => r = none ∧ chanRest f p nv it' = []
  | c :: rest => r = some (c, it.offset) ∧ chanRest f p nv it' = rest ∧ it'.offset = it.offset + c.len ∧
      ChanInv f p nv it'

theorem ChanStepSpec.cons {f : OpenFile} {p : Bytes} {nv : Nat} {it it' : ChanIter} {c : ChanChunk} {rest : List ChanChunk}
    (h : chanRest f p nv it = c :: rest) (h' : chanRest f p nv it' = rest)
    (ho : it'.offset = it.offset + c.len) (hinv : ChanInv f p nv it') :
    ChanStepSpec f p nv it (some (c, it.offset)) it' := by
  unfold ChanStepSpec
  rw [h]
  exact ⟨rfl, h', ho, hinv⟩

theorem ChanStepSpec.of_eq {f : OpenFile} {p : Bytes} {nv : Nat} {it it0 : ChanIter} {r : Option (ChanChunk × Nat)}
    {it' : ChanIter} (h : ChanStepSpec f p nv it0 r it') (hrest : chanRest f p nv it = chanRest f p nv it0)
    (hoffs : it.offset = it0.offset) : ChanStepSpec f p nv it r it' := by
  unfold ChanStepSpec at h ⊢
  rw [hrest, hoffs]
  exact h

theorem chanIterNext_spec (f : OpenFile) (p : Bytes) (m : ObjMeta) (hok : SegsOk f.file f.segments)
    (hc : ChanOk f.objects f.segments p m) :
    ∀ (fuel : Nat) (it : ChanIter) (st : FState), ChanInv f p m.numValues it →
      f.segments.length + 1 ≤ it.seg + fuel →
      ∃ r it' st', chanIterNext f fuel it st = .ok ((r, it'), st') ∧ ChanStepSpec f p m.numValues it r it' := by
  intro fuel
  induction fuel with
  | zero =>
    intro it st _ hfuel
    have hnone : f.segments[it.seg]? = none := List.getElem?_eq_none (by omega)
    refine ⟨none, it, st, rfl, ?_⟩
    have : chanRest f p m.numValues it = [] := by unfold chanRest; split <;> simp [hnone]
    simp [ChanStepSpec, this]
  | succ fuel ih =>
    intro it st hinv hfuel
    unfold chanIterNext
    by_cases hpast : it.seg > it.endSeg
    · rw [if_pos hpast]
      refine ⟨none, it, st, rfl, ?_⟩
      have : chanRest f p m.numValues it = [] := by
        unfold chanRest; rw [if_pos (by rw [← hinv.endSeg]; exact hpast)]
      simp [ChanStepSpec, this]
    · rw [if_neg hpast]
      have hle : ¬ it.seg > chanEnd f p m.numValues := by rw [← hinv.endSeg]; exact hpast
      cases hs : f.segments[it.seg]? with
      | none =>
        refine ⟨none, it, st, rfl, ?_⟩
        have : chanRest f p m.numValues it = [] := by unfold chanRest; rw [if_neg hle, hs]
        simp [ChanStepSpec, this]
      | some s =>
        have hso := hok s (List.mem_of_getElem? hs)
        have hkind := hso.contig.kind
        have hsize := hso.contig.size
        simp only []
        rw [hinv.path, hinv.total, hinv.startSeg, hinv.endSeg]
        have hplanEq : segPlan p (buildIndex f.segments p) 0 (m.numValues : Int) (chanStart f p)
            (chanEnd f p m.numValues) it.seg s = chanPlan f p m.numValues it.seg s := rfl
        rw [hplanEq]
        have hrestEq : chanRest f p m.numValues it =
            chanSegRest f.file s p (chanPlan f p m.numValues it.seg s) it.inSeg it.emptyYielded ++
              chanTail f p m.numValues (chanEnd f p m.numValues - it.seg) (it.seg + 1) := by
          unfold chanRest; rw [if_neg hle, hs]
        -- moving on to the next segment
        have hnext : chanSegRest f.file s p (chanPlan f p m.numValues it.seg s) it.inSeg it.emptyYielded = [] → ∀ st1,
            ∃ r it' st', chanIterNext f fuel (nextSegIt f p m.numValues it) st1
              = .ok ((r, it'), st') ∧ ChanStepSpec f p m.numValues it r it' := by
          intro hnil st1
          obtain ⟨r, it', st', hrun, hspec⟩ := ih (nextSegIt f p m.numValues it) st1
            ⟨rfl, rfl, rfl, rfl, by have := hinv.seg; simp only [nextSegIt]; omega, by intro i init s' h; cases h⟩
            (by simp only [nextSegIt]; omega)
          refine ⟨r, it', st', hrun, hspec.of_eq ?_ rfl⟩
          rw [hrestEq, hnil, List.nil_append, chanRest_fresh f p m.numValues (it.seg + 1) _ rfl rfl rfl]
          congr 1
          omega
        cases hplan : chanPlan f p m.numValues it.seg s with
        | none =>
          have hnil : chanSegRest f.file s p none it.inSeg it.emptyYielded = [] := rfl
          rw [hplan] at hnext
          cases hin : it.inSeg with
          | none =>
            simp only [Option.isNone_none, if_true]
            by_cases hey : (!it.emptyYielded) = true
            · rw [if_pos hey]
              obtain ⟨st1, h1⟩ := verifySegmentStart_ok hso st
              rw [F_bind_ok h1]
              exact hnext hnil st1
            · rw [if_neg hey]
              exact hnext hnil st
          | some ii =>
            obtain ⟨i, init⟩ := ii
            simp only []
            rw [hsize, F_bind_ok (liftE_ok _ _), F_bind_ok (fSeek_run _ _), hkind, F_bind_ok (liftE_ok _ _)]
            simp only []
            rw [if_neg (by omega)]
            exact hnext hnil _
        | some t =>
          obtain ⟨co, skip, nc⟩ := t
          rw [hplan] at hnext hrestEq
          have hpo : PlanOk s co skip nc := by
            have := plan_ok f.segments p m.numValues hc.wf hc.num 0 none (Int.le_refl 0)
            rw [windowParams_zero_none] at this
            exact this it.seg s hs hinv.seg (by show it.seg ≤ chanEnd f p m.numValues; omega) co skip nc hplan
          have hnck : nc.toNat ≤ s.numChunks := by have := hpo.inside; omega
          cases hin : it.inSeg with
          | none =>
            rw [hin] at hnext hrestEq
            simp only [Option.isNone_some, Bool.false_eq_true, if_false]
            have hver : ∀ (k : Unit → F (Option (ChanChunk × Nat) × ChanIter)),
                (∀ st1, ∃ r it' st', k () st1 = .ok ((r, it'), st') ∧ ChanStepSpec f p m.numValues it r it') →
                ∃ r it' st', (if (!it.emptyYielded) = true then do
                    let __r ← verifySegmentStart f.file s
                    k __r
                  else k ()) st = .ok ((r, it'), st') ∧ ChanStepSpec f p m.numValues it r it' := by
              intro k hk
              by_cases hey : (!it.emptyYielded) = true
              · rw [if_pos hey]
                obtain ⟨st1, h1⟩ := verifySegmentStart_ok hso st
                rw [F_bind_ok h1]
                exact hk st1
              · rw [if_neg hey]
                exact hk st
            apply hver
            intro st1
            by_cases hpre : (!hasFlag s.toc kTocRawData) = true ∧ (!it.emptyYielded) = true
            · rw [if_pos hpre]
              refine ⟨_, _, st1, rfl, ?_⟩
              have hk0 : s.numChunks = 0 := hso.noRaw (by simpa using hpre.1)
              have hnc0 : nc.toNat = 0 := by omega
              apply ChanStepSpec.cons (rest := chanTail f p m.numValues (chanEnd f p m.numValues - it.seg) (it.seg + 1))
              · rw [hrestEq]
                simp only [chanSegRest]
                rw [if_pos hpre, hnc0]
                rfl
              · rw [chanRest_mk f p m.numValues s _ _ _ _ _ _ _ _ hle hs]
                rw [hplan]
                simp [chanSegRest, hnc0]
              · show it.offset = it.offset + ({} : ChanChunk).len
                rfl
              · exact ⟨rfl, rfl, rfl, rfl, hinv.seg,
                  by intro i init s' h; cases h⟩
            · rw [if_neg hpre]
              rw [F_bind_ok (fSeek_run _ _), hsize, F_bind_ok (liftE_ok _ _), hkind, F_bind_ok (liftE_ok _ _),
                F_bind_ok (fTell_run _)]
              simp only []
              have hsegrest : chanSegRest f.file s p (some (co, skip, nc)) none it.emptyYielded =
                  (List.range' 0 nc.toNat).map (lazyChunk f.file s (segCsz s) p) := by
                simp only [chanSegRest]; rw [if_neg hpre]; rfl
              by_cases hk : 0 < nc
              · rw [if_pos hk]
                obtain ⟨st2, h2⟩ := readChannelChunkAt_exact f.file s (segCsz s) hso.contig p 0 (by omega) st1.trace
                simp only [Nat.zero_mul, Nat.add_zero] at h2
                have h2' : readChannelChunkAt f.file s ReaderKind.contiguous (List.filter (fun x => x.hasData) s.objects) p 0
                    ⟨s.dataPosition, st1.trace⟩ = .ok (lazyChunk f.file s (segCsz s) p 0, st2) := h2
                rw [F_bind_ok h2']
                refine ⟨_, _, st2, rfl, ?_⟩
                obtain ⟨k', hk'⟩ : ∃ k', nc.toNat = k' + 1 := ⟨nc.toNat - 1, by omega⟩
                apply ChanStepSpec.cons (rest := (List.range' 1 k').map (lazyChunk f.file s (segCsz s) p) ++
                  chanTail f p m.numValues (chanEnd f p m.numValues - it.seg) (it.seg + 1))
                · rw [hrestEq, hsegrest, hk', List.range'_succ, List.map_cons, List.cons_append]
                · rw [chanRest_mk f p m.numValues s _ _ _ _ _ _ _ _ hle hs]
                  rw [hplan]
                  simp [chanSegRest, hk']
                · rfl
                · refine ⟨rfl, rfl, rfl, rfl, hinv.seg, ?_⟩
                  intro i init s' h hs'
                  simp only [] at h hs'
                  rw [hs] at hs'
                  cases h; cases hs'; rfl
              · rw [if_neg hk]
                apply hnext
                rw [hsegrest]
                have : nc.toNat = 0 := by omega
                rw [this]; rfl
          | some ii =>
            obtain ⟨i, init⟩ := ii
            rw [hin] at hnext hrestEq
            have hinit : init = s.dataPosition := hinv.initial i init s hin hs
            subst hinit
            simp only []
            rw [hsize, F_bind_ok (liftE_ok _ _), F_bind_ok (fSeek_run _ _), hkind, F_bind_ok (liftE_ok _ _)]
            simp only []
            have hsegrest : chanSegRest f.file s p (some (co, skip, nc)) (some (i, s.dataPosition)) it.emptyYielded =
                (List.range' i (nc.toNat - i)).map (lazyChunk f.file s (segCsz s) p) := rfl
            by_cases hk : (i : Int) < nc
            · rw [if_pos hk]
              obtain ⟨st2, h2⟩ := readChannelChunkAt_exact f.file s (segCsz s) hso.contig p i (by omega) st.trace
              have h2' : readChannelChunkAt f.file s ReaderKind.contiguous (List.filter (fun x => x.hasData) s.objects) p i
                  ⟨s.dataPosition + i * segCsz s, st.trace⟩ = .ok (lazyChunk f.file s (segCsz s) p i, st2) := h2
              rw [F_bind_ok h2']
              refine ⟨_, _, st2, rfl, ?_⟩
              obtain ⟨k', hk'⟩ : ∃ k', nc.toNat - i = k' + 1 := ⟨nc.toNat - i - 1, by omega⟩
              have hk'' : nc.toNat - (i + 1) = k' := by omega
              apply ChanStepSpec.cons (rest := (List.range' (i + 1) k').map (lazyChunk f.file s (segCsz s) p) ++
                chanTail f p m.numValues (chanEnd f p m.numValues - it.seg) (it.seg + 1))
              · rw [hrestEq, hsegrest, hk', List.range'_succ, List.map_cons, List.cons_append]
              · rw [chanRest_mk f p m.numValues s _ _ _ _ _ _ _ _ hle hs]
                rw [hplan]
                simp [chanSegRest, hk'']
              · rfl
              · refine ⟨rfl, rfl, rfl, rfl, hinv.seg, ?_⟩
                intro i' init' s' h hs'
                simp only [] at h hs'
                rw [hs] at hs'
                cases h; cases hs'; rfl
            · rw [if_neg hk]
              apply hnext
              rw [hsegrest]
              have : nc.toNat - i = 0 := by omega
              rw [this]; rfl

end Tdms.Proofs.C03
