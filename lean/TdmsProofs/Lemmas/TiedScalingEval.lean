import TdmsProofs.Lemmas.TiedScalingRepr

/-!
# `MultiScaling._compute_scaled_data` / `scale` / `_compute_scale_dtype` (generated) against the model

The untranslated numpy calls are instantiated through the model: `np.polynomial.polynomial.polyval` by Horner's
rule (`pyPolyval`), `np.interp` by an arbitrary `interp` on the converted table (`pyInterp`).  The four sensor `scale`
methods are arbitrary total functions `Frtd`, `Fstrain`, `Fthm`, `Ftc` of the Python object; the model's `env k` is
the function of the object at index `k` (`envOf`).
-/

namespace Tdms.Proofs.Tied2

open Tdms.Model.Scaling Tdms.Generated Tdms.Generated.Code2

variable {R : Type} [CommRing R] [DecidableEq R]

/-- `np.polynomial.polynomial.polyval(x, coefficients)` -/
def pyPolyval (x : R) (cs : List (Py.Val R)) : Except Py.Exc R :=
  match absNums cs with
  | some cs' => .ok (horner cs' x)
  | none => .error "TypeError"

/-- `np.interp(x, input_values, output_values)` -/
def pyInterp (interp : List R → List R → R → R) (x : R) (xs ys : List (Py.Val R)) : Except Py.Exc R :=
  match absNums xs, absNums ys with
  | some a, some b => .ok (interp a b x)
  | _, _ => .error "TypeError"

/-- the model's `env k`: the sensor function of the Python object at index `k` -/
def envOf (Frtd : RtdScaling R → R → R) (Fstrain : StrainScaling R → R → R) (Fthm : ThermistorScaling R → R → R)
    (Ftc : ThermocoupleScaling R → R → R) (sc : List (Option (Code2.Scaling R))) (k : Nat) (x : R) : R :=
  match sc[k]? with
  | some (some (.RtdScaling o)) => Frtd o x
  | some (some (.StrainScaling o)) => Fstrain o x
  | some (some (.ThermistorScaling o)) => Fthm o x
  | some (some (.ThermocoupleScaling o)) => Ftc o x
  | _ => x

/-- a model result as a Python result -/
def liftErr {α : Type} (m : Except ScaleErr α) : Except Py.Exc α :=
  match m with
  | .ok v => .ok v
  | .error e => .error (errName e)

@[simp] theorem liftErr_ok {α : Type} (v : α) : liftErr (.ok v : Except ScaleErr α) = .ok v := rfl
@[simp] theorem liftErr_error {α : Type} (e : ScaleErr) : liftErr (.error e : Except ScaleErr α) = .error (errName e) := rfl

theorem liftErr_bind {α β : Type} (m : Except ScaleErr α) (f : α → Except ScaleErr β) :
    liftErr (m >>= f) = liftErr m >>= fun a => liftErr (f a) := by
  cases m <;> rfl

theorem absSrc_eq {v : Py.Val R} {n : Nat} (h : absSrc v = some n) : v = .int (n : Int) := by
  cases v with
  | int i =>
    simp only [absSrc] at h
    split at h
    · cases h; congr 1; omega
    · cases h
  | num x => cases h
  | str s => cases h

theorem absNum_toNum {v : Py.Val R} {x : R} (h : absNum v = some x) : Py.Val.toNum v = .ok x := by
  cases v with
  | int i => simp only [absNum] at h; cases h; rfl
  | num y => simp only [absNum] at h; cases h; rfl
  | str s => cases h

theorem index_natCast {α : Type} (xs : List α) (j : Nat) :
    Py.index xs (j : Int) = match xs[j]? with | some v => .ok v | none => .error "IndexError" := by
  unfold Py.index
  have h1 : ¬ ((j : Int) < 0) := by omega
  simp only [h1, if_false, Int.toNat_natCast]
  cases xs[j]? <;> rfl

theorem eq_raw (idx : Nat) :
    Py.Val.eq (Py.Val.int (idx : Int) : Py.Val R) (Py.Val.int RAW_DATA_INPUT_SOURCE) = decide (idx = rawSource) := by
  simp only [Py.Val.eq, RAW_DATA_INPUT_SOURCE, rawSource, rawDataInputSource]
  congr 1
  apply propext
  constructor <;> intro h <;> omega

theorem getE_scalers (sc : List (Nat × R)) (id : Int) (h : 0 ≤ id) :
    Py.Dict.getE (sc.map fun p => ((p.1 : Int), p.2)) id =
      match sc.find? (·.1 = id.toNat) with
      | some (_, v) => .ok v
      | none => .error "KeyError" := by
  unfold Py.Dict.getE
  rw [List.find?_map]
  have : ((fun kv : Int × R => decide (kv.1 = id)) ∘ fun p : Nat × R => ((p.1 : Int), p.2)) =
      (fun p => decide (p.1 = id.toNat)) := by
    funext p
    simp only [Function.comp]
    congr 1
    apply propext
    constructor <;> intro h' <;> omega
  rw [this]
  cases sc.find? (fun p => decide (p.1 = id.toNat)) with
  | none => rfl
  | some p => rfl

section Compute
variable (Frtd : RtdScaling R → R → R) (Fstrain : StrainScaling R → R → R) (Fthm : ThermistorScaling R → R → R)
  (Ftc : ThermocoupleScaling R → R → R) (interp : List R → List R → R → R)

/-- the generated recursion with the abstract calls instantiated -/
abbrev pyCompute (fuel : Nat) (ms : MultiScaling R) (idx : Py.Val R) (raw : RawChannelDataChunk R) : Except Py.Exc R :=
  MultiScaling._compute_scaled_data fuel (fun o x => .ok (Frtd o x)) (fun o x => .ok (Fstrain o x))
    (fun o x => .ok (Fthm o x)) (fun o x => .ok (Ftc o x)) pyPolyval (pyInterp interp) ms idx raw

theorem compute_scaled_data_tied (ms : MultiScaling R) (g : List (Tdms.Model.Scaling.Scaling R))
    (habs : AbsList ms.scalings g) (raw : RawElem R) :
    ∀ (fuel idx : Nat), pyCompute Frtd Fstrain Fthm Ftc interp fuel ms (.int (idx : Int)) (pyRaw raw) =
      liftErr (computeScaled interp (envOf Frtd Fstrain Fthm Ftc ms.scalings) g raw fuel idx) := by
  intro fuel
  induction fuel with
  | zero => intro idx; rfl
  | succ fuel ih =>
    intro idx
    unfold pyCompute at ih ⊢
    unfold MultiScaling._compute_scaled_data
    simp only [computeScaled, eq_raw]
    by_cases hraw : idx = rawSource
    · simp only [hraw, decide_true, if_true, pyRaw]
      cases raw.data <;> rfl
    · simp only [hraw, decide_false, Bool.false_eq_true, if_false, Py.Val.toIndex, ok_bind, index_natCast]
      by_cases hlt : idx < g.length
      · obtain ⟨s, hs, hab⟩ := habs.2 idx hlt
        have hg : g[idx]? = some g[idx] := List.getElem?_eq_getElem hlt
        generalize g[idx] = m at hab hg
        simp only [hs, hg, ok_bind]
        cases s with
        | DaqMxScalerScaling o =>
          simp only [absScaling] at hab
          split at hab
          · rename_i hpos
            cases hab
            simp only [pyRaw, Py.notNone, ok_bind, DaqMxScalerScaling.scale_daqmx, getE_scalers _ _ hpos]
            cases raw.scalers.find? (fun x => decide (x.1 = o.scale_id.toNat)) with
            | none => rfl
            | some p => rfl
          · cases hab
        | NoOpScaling o =>
          simp only [absScaling] at hab
          cases hsrc : absSrc o.input_source with
          | none => simp [hsrc] at hab
          | some src =>
            simp only [hsrc, Option.map_some, Option.some.injEq] at hab
            subst hab
            simp only [Scaling.input_source?, absSrc_eq hsrc, ih, Scaling_scale_1, NoOpScaling.scale]
            cases computeScaled interp (envOf Frtd Fstrain Fthm Ftc ms.scalings) g raw fuel src <;> rfl
        | LinearScaling o =>
          simp only [absScaling] at hab
          cases hb : absNum o.intercept with
          | none => simp [hb] at hab
          | some b =>
            cases hm : absNum o.slope with
            | none => simp [hb, hm] at hab
            | some m =>
              cases hsrc : absSrc o.input_source with
              | none => simp [hb, hm, hsrc] at hab
              | some src =>
                simp only [hb, hm, hsrc, Option.some.injEq] at hab
                subst hab
                simp only [Scaling.input_source?, absSrc_eq hsrc, ih, Scaling_scale_1, LinearScaling.scale,
                  absNum_toNum hb, absNum_toNum hm]
                cases computeScaled interp (envOf Frtd Fstrain Fthm Ftc ms.scalings) g raw fuel src <;> rfl
        | PolynomialScaling o =>
          simp only [absScaling] at hab
          cases hcs : absNums o.coefficients with
          | none => simp [hcs] at hab
          | some cs =>
            cases hsrc : absSrc o.input_source with
            | none => simp [hcs, hsrc] at hab
            | some src =>
              simp only [hcs, hsrc, Option.some.injEq] at hab
              subst hab
              simp only [Scaling.input_source?, absSrc_eq hsrc, ih, Scaling_scale_1, PolynomialScaling.scale,
                pyPolyval, hcs]
              cases computeScaled interp (envOf Frtd Fstrain Fthm Ftc ms.scalings) g raw fuel src with
              | error e => rfl
              | ok x =>
                simp only [liftErr_ok, ok_bind, pure_eq_ok, Py.len]
                cases hc : o.coefficients with
                | nil =>
                  rw [hc] at hcs; simp only [absNums, Option.some.injEq] at hcs; subst hcs
                  simp [horner]
                | cons c cs' => simp; intro h; omega
        | TableScaling o =>
          simp only [absScaling] at hab
          cases hx : absNums o.input_values with
          | none => simp [hx] at hab
          | some xs =>
            cases hy : absNums o.output_values with
            | none => simp [hx, hy] at hab
            | some ys =>
              cases hsrc : absSrc o.input_source with
              | none => simp [hx, hy, hsrc] at hab
              | some src =>
                simp only [hx, hy, hsrc, Option.some.injEq] at hab
                subst hab
                simp only [Scaling.input_source?, absSrc_eq hsrc, ih, Scaling_scale_1, TableScaling.scale,
                  pyInterp, hx, hy]
                cases computeScaled interp (envOf Frtd Fstrain Fthm Ftc ms.scalings) g raw fuel src <;> rfl
        | AddScaling o =>
          simp only [absScaling] at hab
          cases hl : absSrc o.left_input_source with
          | none => simp [hl] at hab
          | some l =>
            cases hr : absSrc o.right_input_source with
            | none => simp [hl, hr] at hab
            | some r =>
              simp only [hl, hr, Option.some.injEq] at hab
              subst hab
              simp only [Scaling.input_source?, Scaling.left_input_source?, Scaling.right_input_source?,
                absSrc_eq hl, absSrc_eq hr, ih, Scaling_scale_2, AddScaling.scale]
              cases computeScaled interp (envOf Frtd Fstrain Fthm Ftc ms.scalings) g raw fuel l with
              | error e => rfl
              | ok a =>
                cases computeScaled interp (envOf Frtd Fstrain Fthm Ftc ms.scalings) g raw fuel r <;> rfl
        | SubtractScaling o =>
          simp only [absScaling] at hab
          cases hl : absSrc o.left_input_source with
          | none => simp [hl] at hab
          | some l =>
            cases hr : absSrc o.right_input_source with
            | none => simp [hl, hr] at hab
            | some r =>
              simp only [hl, hr, Option.some.injEq] at hab
              subst hab
              simp only [Scaling.input_source?, Scaling.left_input_source?, Scaling.right_input_source?,
                absSrc_eq hl, absSrc_eq hr, ih, Scaling_scale_2, SubtractScaling.scale]
              cases computeScaled interp (envOf Frtd Fstrain Fthm Ftc ms.scalings) g raw fuel l with
              | error e => rfl
              | ok a =>
                cases computeScaled interp (envOf Frtd Fstrain Fthm Ftc ms.scalings) g raw fuel r <;> rfl
        | RtdScaling o =>
          simp only [absScaling] at hab
          cases hsrc : absSrc o.input_source with
          | none => simp [hsrc] at hab
          | some src =>
            simp only [hsrc, Option.map_some, Option.some.injEq] at hab
            subst hab
            simp only [Scaling.input_source?, absSrc_eq hsrc, ih, Scaling_scale_1, envOf, hs]
            cases computeScaled interp (envOf Frtd Fstrain Fthm Ftc ms.scalings) g raw fuel src <;> rfl
        | StrainScaling o =>
          simp only [absScaling] at hab
          cases hsrc : absSrc o.input_source with
          | none => simp [hsrc] at hab
          | some src =>
            simp only [hsrc, Option.map_some, Option.some.injEq] at hab
            subst hab
            simp only [Scaling.input_source?, absSrc_eq hsrc, ih, Scaling_scale_1, envOf, hs]
            cases computeScaled interp (envOf Frtd Fstrain Fthm Ftc ms.scalings) g raw fuel src <;> rfl
        | ThermistorScaling o =>
          simp only [absScaling] at hab
          cases hsrc : absSrc o.input_source with
          | none => simp [hsrc] at hab
          | some src =>
            simp only [hsrc, Option.map_some, Option.some.injEq] at hab
            subst hab
            simp only [Scaling.input_source?, absSrc_eq hsrc, ih, Scaling_scale_1, envOf, hs]
            cases computeScaled interp (envOf Frtd Fstrain Fthm Ftc ms.scalings) g raw fuel src <;> rfl
        | ThermocoupleScaling o =>
          simp only [absScaling] at hab
          cases hsrc : absSrc o.input_source with
          | none => simp [hsrc] at hab
          | some src =>
            simp only [hsrc, Option.map_some, Option.some.injEq] at hab
            subst hab
            simp only [Scaling.input_source?, absSrc_eq hsrc, ih, Scaling_scale_1, envOf, hs]
            cases computeScaled interp (envOf Frtd Fstrain Fthm Ftc ms.scalings) g raw fuel src <;> rfl
      · have h1 : g[idx]? = none := List.getElem?_eq_none (by omega)
        have h2 : ms.scalings[idx]? = none := List.getElem?_eq_none (by have := habs.1; omega)
        simp only [h1, h2, error_bind, liftErr_error, errName]

end Compute

section Scale
variable (Frtd : RtdScaling R → R → R) (Fstrain : StrainScaling R → R → R) (Fthm : ThermistorScaling R → R → R)
  (Ftc : ThermocoupleScaling R → R → R) (interp : List R → List R → R → R)

/-- `MultiScaling.scale`: the last scale is the output -/
theorem scale_tied (ms : MultiScaling R) (g : List (Tdms.Model.Scaling.Scaling R))
    (habs : AbsList ms.scalings g) (raw : RawElem R) :
    MultiScaling.scale (g.length + 1) (fun o x => .ok (Frtd o x)) (fun o x => .ok (Fstrain o x))
        (fun o x => .ok (Fthm o x)) (fun o x => .ok (Ftc o x)) pyPolyval (pyInterp interp) ms (pyRaw raw) =
      liftErr (scaleElem interp (envOf Frtd Fstrain Fthm Ftc ms.scalings) g raw) := by
  unfold MultiScaling.scale scaleElem
  have hlen := habs.1
  cases hg : g with
  | nil =>
    have hsc : ms.scalings = [] := by
      rw [hg] at hlen; exact List.eq_nil_of_length_eq_zero hlen
    simp [MultiScaling._compute_scaled_data, hsc, Py.Val.eq, RAW_DATA_INPUT_SOURCE, Py.Val.toIndex, Py.index,
      computeScaled, rawSource, rawDataInputSource, errName, Py.len]
  | cons x xs =>
    have h1 : ((Py.len ms.scalings) - 1 : Int) = (((x :: xs).length - 1 : Nat) : Int) := by
      simp only [Py.len, hlen, hg, List.length_cons]; omega
    have := compute_scaled_data_tied Frtd Fstrain Fthm Ftc interp ms g habs raw (g.length + 1) (g.length - 1)
    unfold pyCompute at this
    simp only [hg] at this
    simp only [h1, ok_bind]
    rw [this]

end Scale

section Dtype

/-- `np.dtype(name)`: the model writes `"f8"` for `float64` -/
def pyDtypeOf (name : List Char) : String := if String.ofList name = "float64" then "f8" else String.ofList name

/-- the `scaler_data_types` dict -/
def pyKinds (sk : List (Nat × String)) : Py.Dict Int (TdmsType String) := sk.map fun p => ((p.1 : Int), ⟨p.2⟩)

theorem getE_kinds (sk : List (Nat × String)) (id : Int) (h : 0 ≤ id) :
    Py.Dict.getE (pyKinds sk) id =
      match sk.find? (·.1 = id.toNat) with
      | some p => .ok ⟨p.2⟩
      | none => .error "KeyError" := by
  unfold Py.Dict.getE pyKinds
  rw [List.find?_map]
  have : ((fun kv : Int × TdmsType String => decide (kv.1 = id)) ∘ fun p : Nat × String => ((p.1 : Int), (⟨p.2⟩ : TdmsType String))) =
      (fun p => decide (p.1 = id.toNat)) := by
    funext p
    simp only [Function.comp]
    congr 1
    apply propext
    constructor <;> intro h' <;> omega
  rw [this]
  cases sk.find? (fun p => decide (p.1 = id.toNat)) with
  | none => rfl
  | some p => rfl

theorem compute_scale_dtype_tied (ms : MultiScaling R) (g : List (Tdms.Model.Scaling.Scaling R))
    (habs : AbsList ms.scalings g) (rawKind : String) (sk : List (Nat × String)) :
    ∀ (fuel idx : Nat),
      (MultiScaling._compute_scale_dtype fuel resultType pyDtypeOf ms (.int (idx : Int)) ⟨rawKind⟩ (pyKinds sk)).toOption =
        declaredKind g rawKind sk fuel idx := by
  intro fuel
  induction fuel with
  | zero => intro idx; rfl
  | succ fuel ih =>
    intro idx
    unfold MultiScaling._compute_scale_dtype
    simp only [declaredKind, eq_raw]
    by_cases hraw : idx = rawSource
    · simp [hraw, Except.toOption]
    · simp only [hraw, decide_false, Bool.false_eq_true, if_false, Py.Val.toIndex, ok_bind, index_natCast]
      by_cases hlt : idx < g.length
      · obtain ⟨s, hs, hab⟩ := habs.2 idx hlt
        have hg : g[idx]? = some g[idx] := List.getElem?_eq_getElem hlt
        generalize g[idx] = m at hab hg
        simp only [hs, hg, ok_bind]
        have f8 : pyDtypeOf ['f', 'l', 'o', 'a', 't', '6', '4'] = "f8" := by decide
        cases s with
        | DaqMxScalerScaling o =>
          simp only [absScaling] at hab
          split at hab
          · rename_i hpos
            cases hab
            simp only [getE_kinds _ _ hpos]
            cases sk.find? (fun x => decide (x.1 = o.scale_id.toNat)) with
            | none => rfl
            | some p => rfl
          · cases hab
        | NoOpScaling o =>
          simp only [absScaling] at hab
          cases hsrc : absSrc o.input_source with
          | none => simp [hsrc] at hab
          | some src =>
            simp only [hsrc, Option.map_some, Option.some.injEq] at hab
            subst hab
            simp only [absSrc_eq hsrc, ih]
        | AddScaling o =>
          simp only [absScaling] at hab
          cases hl : absSrc o.left_input_source with
          | none => simp [hl] at hab
          | some l =>
            cases hr : absSrc o.right_input_source with
            | none => simp [hl, hr] at hab
            | some r =>
              simp only [hl, hr, Option.some.injEq] at hab
              subst hab
              have i1 := ih l
              have i2 := ih r
              simp only [absSrc_eq hl, absSrc_eq hr]
              cases h1 : MultiScaling._compute_scale_dtype fuel resultType pyDtypeOf ms (Py.Val.int (l : Int)) ⟨rawKind⟩ (pyKinds sk) with
              | error e => rw [h1] at i1; simp [← i1, Except.toOption]
              | ok a =>
                rw [h1] at i1
                cases h2 : MultiScaling._compute_scale_dtype fuel resultType pyDtypeOf ms (Py.Val.int (r : Int)) ⟨rawKind⟩ (pyKinds sk) with
                | error e => rw [h2] at i2; simp [← i1, ← i2, Except.toOption]
                | ok b => rw [h2] at i2; simp [← i1, ← i2, Except.toOption]
        | SubtractScaling o =>
          simp only [absScaling] at hab
          cases hl : absSrc o.left_input_source with
          | none => simp [hl] at hab
          | some l =>
            cases hr : absSrc o.right_input_source with
            | none => simp [hl, hr] at hab
            | some r =>
              simp only [hl, hr, Option.some.injEq] at hab
              subst hab
              have i1 := ih l
              have i2 := ih r
              simp only [absSrc_eq hl, absSrc_eq hr]
              cases h1 : MultiScaling._compute_scale_dtype fuel resultType pyDtypeOf ms (Py.Val.int (l : Int)) ⟨rawKind⟩ (pyKinds sk) with
              | error e => rw [h1] at i1; simp [← i1, Except.toOption]
              | ok a =>
                rw [h1] at i1
                cases h2 : MultiScaling._compute_scale_dtype fuel resultType pyDtypeOf ms (Py.Val.int (r : Int)) ⟨rawKind⟩ (pyKinds sk) with
                | error e => rw [h2] at i2; simp [← i1, ← i2, Except.toOption]
                | ok b => rw [h2] at i2; simp [← i1, ← i2, Except.toOption]
        | LinearScaling o =>
          simp only [absScaling] at hab
          split at hab
          · cases hab; simp [f8, Except.toOption]
          · cases hab
        | PolynomialScaling o =>
          simp only [absScaling] at hab
          split at hab
          · cases hab; simp [f8, Except.toOption]
          · cases hab
        | TableScaling o =>
          simp only [absScaling] at hab
          split at hab
          · cases hab; simp [f8, Except.toOption]
          · cases hab
        | RtdScaling o =>
          simp only [absScaling] at hab
          cases hsrc : absSrc o.input_source with
          | none => simp [hsrc] at hab
          | some src => simp only [hsrc, Option.map_some, Option.some.injEq] at hab; subst hab; simp [f8, Except.toOption]
        | StrainScaling o =>
          simp only [absScaling] at hab
          cases hsrc : absSrc o.input_source with
          | none => simp [hsrc] at hab
          | some src => simp only [hsrc, Option.map_some, Option.some.injEq] at hab; subst hab; simp [f8, Except.toOption]
        | ThermistorScaling o =>
          simp only [absScaling] at hab
          cases hsrc : absSrc o.input_source with
          | none => simp [hsrc] at hab
          | some src => simp only [hsrc, Option.map_some, Option.some.injEq] at hab; subst hab; simp [f8, Except.toOption]
        | ThermocoupleScaling o =>
          simp only [absScaling] at hab
          cases hsrc : absSrc o.input_source with
          | none => simp [hsrc] at hab
          | some src => simp only [hsrc, Option.map_some, Option.some.injEq] at hab; subst hab; simp [f8, Except.toOption]
      · have h1 : g[idx]? = none := List.getElem?_eq_none (by omega)
        have h2 : ms.scalings[idx]? = none := List.getElem?_eq_none (by have := habs.1; omega)
        simp [h1, h2, Except.toOption]

theorem get_dtype_tied (ms : MultiScaling R) (g : List (Tdms.Model.Scaling.Scaling R))
    (habs : AbsList ms.scalings g) (hg : g ≠ []) (rawKind : String) (sk : List (Nat × String)) :
    (MultiScaling.get_dtype (g.length + 1) resultType pyDtypeOf ms ⟨rawKind⟩ (pyKinds sk)).toOption =
      declaredKind g rawKind sk (g.length + 1) (g.length - 1) := by
  unfold MultiScaling.get_dtype
  have hlen := habs.1
  have h1 : ((Py.len ms.scalings) - 1 : Int) = ((g.length - 1 : Nat) : Int) := by
    have : 0 < g.length := List.length_pos_iff.mpr hg
    simp only [Py.len, hlen]; omega
  simp only [h1]
  rw [← compute_scale_dtype_tied ms g habs rawKind sk (g.length + 1) (g.length - 1)]

end Dtype

end Tdms.Proofs.Tied2
