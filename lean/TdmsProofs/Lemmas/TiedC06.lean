import TdmsProofs.Lemmas.TiedRepr

/-!
# Lemmas for the C06 tied theorems (`_have_daqmx_objects`, `_get_chunk_size`,
`_compute_final_chunk_lengths`, `_calculate_chunks`)
-/

namespace Tdms.Proofs.Tied
open Tdms Tdms.Model Tdms.Generated Tdms.Generated.Code

/-- a counting loop: two counters, the second only counted when the first is -/
theorem forP_count2 {α : Type} (xs : List α) (f : α → Int × Int → Py.Step (Int × Int)) (p q : α → Bool)
    (hf : ∀ x a b, f x (a, b) = .next (a + (if p x then 1 else 0), b + (if p x && q x then 1 else 0)))
    (a b : Int) :
    Py.forP xs (a, b) f = (a + ((xs.filter p).length : Nat), b + (((xs.filter p).filter q).length : Nat)) := by
  induction xs generalizing a b with
  | nil => simp
  | cons x xs ih =>
    rw [Py.forP_cons, hf]
    simp only [ih]
    cases hp : p x <;> cases hq : q x <;> simp [hp, hq] <;> omega

theorem have_daqmx_fresh (self : TdmsSegment) (objs : List SegObj)
    (hobjs : self.ordered_objects = objs.map pyObj) (hc : self.has_daqmx_objects_cached = none) :
    TdmsSegment._have_daqmx_objects self =
      match haveDaqmxObjects objs with
      | .ok b => .ok (some b, { self with has_daqmx_objects_cached := some b })
      | .error _ => .error "Exception" := by
  unfold TdmsSegment._have_daqmx_objects
  rw [hc]
  simp only []
  rw [forP_count2 _ _ (·.has_data) (·.is_daqmx)]
  · rw [hobjs]
    have e1 : ((objs.map pyObj).filter (·.has_data)).length = (objs.filter (·.hasData)).length := by
      rw [List.filter_map, List.length_map]; rfl
    have e2 : (((objs.map pyObj).filter (·.has_data)).filter (·.is_daqmx)).length
        = ((objs.filter (·.hasData)).filter (·.daq.isSome)).length := by
      rw [List.filter_map, List.filter_map, List.length_map]; rfl
    rw [e1, e2]
    unfold haveDaqmxObjects
    simp only []
    generalize (List.filter (fun x => x.daq.isSome) (List.filter (fun x => x.hasData) objs)).length = q
    generalize (List.filter (fun x => x.hasData) objs).length = d
    by_cases h0 : q = 0
    · subst h0; simp; rfl
    · by_cases h1 : q = d
      · subst h1
        have : ¬ ((q : Int) = 0) := by omega
        simp [h0]; rfl
      · have a1 : ¬ ((q : Int) = 0) := by omega
        have a2 : ¬ ((q : Int) = (d : Int)) := by omega
        have a3 : (q : Int) > 0 := by omega
        have a4 : 0 < q := by omega
        simp [h0, h1, a2, a4]; rfl
  · intro x a b
    cases h1 : x.has_data <;> cases h2 : x.is_daqmx <;> simp

theorem have_daqmx_cached (self : TdmsSegment) (b : Bool) (hc : self.has_daqmx_objects_cached = some b) :
    TdmsSegment._have_daqmx_objects self = .ok (some b, self) := by
  unfold TdmsSegment._have_daqmx_objects
  rw [hc]
  rfl


/-- `_have_daqmx_objects` on the representation of a model segment whose DAQmx cache is empty or holds
    the right value: the value, and the cache is filled -/
theorem have_daqmx_repr (s : Segment) (cc : Option Int) (dc : Option Bool) (b : Bool)
    (hdc : dc = none ∨ dc = some b) (hd : haveDaqmxObjects s.objects = .ok b) :
    TdmsSegment._have_daqmx_objects (pySegC s cc dc) = .ok (some b, pySegC s cc (some b)) := by
  rcases hdc with h | h
  · subst h
    rw [have_daqmx_fresh _ s.objects rfl rfl, hd]; rfl
  · subst h
    rw [have_daqmx_cached _ b rfl]

/-- `_have_daqmx_objects` on a fresh cache when data objects are a mixture of DAQmx and other objects -/
theorem have_daqmx_mixed (s : Segment) (cc : Option Int) (e : Err) (hd : haveDaqmxObjects s.objects = .error e) :
    TdmsSegment._have_daqmx_objects (pySegC s cc none) = .error "Exception" := by
  rw [have_daqmx_fresh _ s.objects rfl rfl, hd]

theorem haveDaqmxObjects_error (objs : List SegObj) (e : Err) (h : haveDaqmxObjects objs = .error e) :
    e = .mixedDaqmx := by
  unfold haveDaqmxObjects at h
  simp only [] at h
  split at h
  · cases h
  · split at h
    · cases h
    · cases h; rfl
theorem typeTable_size_ne_zero : ∀ ti ∈ typeTable, ti.size ≠ some 0 := by decide

theorem typeSize_ne_zero (ty n : Nat) (h : typeSize ty = some n) : n ≠ 0 := by
  unfold typeSize typeInfo at h
  cases hf : typeTable.find? (·.code = ty) with
  | none => simp [hf] at h
  | some ti =>
    rw [hf] at h
    have hm := List.mem_of_find?_eq_some hf
    have := typeTable_size_ne_zero ti hm
    intro hn; subst hn; exact this h

theorem sum_data_sizes (objs : List SegObj) :
    Py.sum (List.map (fun o => o.data_size) (List.filter (fun o => o.has_data) (objs.map pyObj)))
      = ((((objs.filter (·.hasData)).map (·.dataSize)).sum : Nat) : Int) := by
  rw [← Py.sum_map_natCast, List.filter_map, List.map_map, List.map_map]
  rfl



theorem get_chunk_size_cached (self : TdmsSegment) (c : Int) (hc : self.chunk_size_cached = some c) :
    TdmsSegment._get_chunk_size self = .ok (c, self) := by
  unfold TdmsSegment._get_chunk_size
  rw [hc]
  rfl

theorem get_chunk_size_std (s : Segment) (dc : Option Bool) (hdc : dc = none ∨ dc = some false)
    (hd : haveDaqmxObjects s.objects = .ok false) :
    TdmsSegment._get_chunk_size (pySegC s none dc) =
      .ok (((((s.objects.filter (·.hasData)).map (·.dataSize)).sum : Nat) : Int),
           pySegC s (some ((((s.objects.filter (·.hasData)).map (·.dataSize)).sum : Nat) : Int)) (some false)) := by
  unfold TdmsSegment._get_chunk_size
  rw [show (pySegC s none dc).chunk_size_cached = none from rfl]
  simp only []
  rw [have_daqmx_repr s none dc false hdc hd]
  simp [bind, Except.bind, pure, Except.pure, sum_data_sizes, pySegC]

theorem chunkSize_std' (objs : List SegObj) (hd : haveDaqmxObjects objs = .ok false) :
    chunkSize objs = .ok ((objs.filter (·.hasData)).map (·.dataSize)).sum := by
  simp [chunkSize, hd, bind, Except.bind, pure, Except.pure]

/-! ## generic loop lemmas -/

/-- `any(...)` over the image of a list when the predicate never raises -/
theorem anyE_map_pure {α β : Type} (g : β → α) (xs : List β) (f : α → Except Py.Exc Bool) (q : β → Bool)
    (h : ∀ x ∈ xs, f (g x) = .ok (q x)) : Py.anyE (xs.map g) f = .ok (xs.any q) := by
  induction xs with
  | nil => rfl
  | cons x xs ih =>
    rw [List.map_cons, Py.anyE_cons, h x (by simp)]
    cases hq : q x with
    | true => simp [hq]
    | false =>
      simp only [List.any_cons, hq, Bool.false_or]
      exact ih (fun y hy => h y (by simp [hy]))

/-- a loop that stores one value per selected element in a dict, under distinct fresh keys:
    the dict grows by the selected elements' entries, in list order -/
theorem forE_dict_fill {α β κ ν : Type} [DecidableEq κ] (g : β → α) (xs : List β)
    (f : α → Py.Dict κ ν → Except Py.Exc (Py.Step (Py.Dict κ ν)))
    (p : β → Bool) (k : β → κ) (v : β → ν)
    (hf : ∀ x ∈ xs, ∀ d, f (g x) d = .ok (.next (if p x then Py.Dict.set d (k x) (v x) else d)))
    (d : Py.Dict κ ν)
    (hnd : ((xs.filter p).map k).Nodup)
    (hdis : ∀ kv ∈ d, kv.1 ∉ (xs.filter p).map k) :
    Py.forE (xs.map g) d f = .ok (d ++ (xs.filter p).map fun x => (k x, v x)) := by
  induction xs generalizing d with
  | nil => simp
  | cons x xs ih =>
    rw [List.map_cons, Py.forE_cons, hf x (by simp)]
    have hf' : ∀ y ∈ xs, ∀ d, f (g y) d = .ok (.next (if p y then Py.Dict.set d (k y) (v y) else d)) :=
      fun y hy => hf y (by simp [hy])
    cases hp : p x with
    | false =>
      simp only [hp, List.filter_cons] at hnd hdis ⊢
      exact ih hf' d hnd hdis
    | true =>
      simp only [hp, List.filter_cons, if_true, List.map_cons, List.nodup_cons] at hnd hdis ⊢
      rw [Py.Dict.set_append_of_not_mem d (k x) (v x) (fun kv hkv he => hdis kv hkv (by simp [he]))]
      rw [ih hf' _ hnd.2]
      · simp
      · intro kv hkv
        rw [List.mem_append] at hkv
        rcases hkv with hkv | hkv
        · intro hm; exact hdis kv hkv (List.mem_cons_of_mem _ hm)
        · simp only [List.mem_singleton] at hkv
          subst hkv; exact hnd.1


/-- the byte size the model uses for an object's values (`0` for an untyped / unsized object) -/
abbrev szOf (o : SegObj) : Nat := (o.dataType.bind typeSize).getD 0

/-- the value of the running `chunk_remainder` when the contiguous loop ends (not used afterwards) -/
def contiguousRemainder : List SegObj → Nat → Nat
  | [], r => r
  | o :: os, r =>
    if !o.hasData then contiguousRemainder os r
    else if r > o.numberValues * szOf o then contiguousRemainder os (r - o.numberValues * szOf o)
    else r

/-- the loop of the contiguous truncated branch, characterised by what one iteration does:
    skip objects without data; while more bytes remain than the object needs, record all its values and
    subtract its bytes; otherwise record the values that fit and `break` -/
theorem forE_contiguous (objs : List SegObj)
    (f : SegmentObject → Py.Dict Py.Path Int × Int → Except Py.Exc (Py.Step (Py.Dict Py.Path Int × Int)))
    (hf : ∀ o ∈ objs, ∀ (d : Py.Dict Py.Path Int) (r : Nat), f (pyObj o) (d, (r : Int)) = .ok (
      if o.hasData then
        if r > o.numberValues * szOf o then
          .next (Py.Dict.set d o.path (o.numberValues : Int), ((r - o.numberValues * szOf o : Nat) : Int))
        else .brk (Py.Dict.set d o.path ((r / szOf o : Nat) : Int), (r : Int))
      else .next (d, (r : Int))))
    (d : Py.Dict Py.Path Int) (r : Nat)
    (hnd : ((objs.filter (·.hasData)).map (·.path)).Nodup)
    (hdis : ∀ kv ∈ d, kv.1 ∉ (objs.filter (·.hasData)).map (·.path)) :
    Py.forE (objs.map pyObj) (d, (r : Int)) f
      = .ok (d ++ pyDict (contiguousFinalLengths objs r), ((contiguousRemainder objs r : Nat) : Int)) := by
  induction objs generalizing d r with
  | nil => simp [contiguousFinalLengths, contiguousRemainder, pyDict]
  | cons o os ih =>
    rw [List.map_cons, Py.forE_cons, hf o (by simp)]
    have hf' := fun y (hy : y ∈ os) => hf y (by simp [hy])
    cases hp : o.hasData with
    | false =>
      simp only [hp, List.filter_cons, Bool.false_eq_true, ↓reduceIte] at hnd hdis ⊢
      rw [ih hf' d r hnd hdis]; simp [contiguousFinalLengths, contiguousRemainder, hp]
    | true =>
      simp only [hp, List.filter_cons, ↓reduceIte, List.map_cons, List.nodup_cons] at hnd hdis ⊢
      rw [Py.Dict.set_append_of_not_mem d o.path _ (fun kv hkv he => hdis kv hkv (by simp [he])),
        Py.Dict.set_append_of_not_mem d o.path _ (fun kv hkv he => hdis kv hkv (by simp [he]))]
      by_cases hr : r > o.numberValues * szOf o
      · simp only [hr, if_true]
        rw [ih hf' (d ++ [(o.path, (o.numberValues : Int))]) (r - o.numberValues * szOf o) hnd.2 (by
          intro kv hkv
          rw [List.mem_append] at hkv
          rcases hkv with hkv | hkv
          · intro hm; exact hdis kv hkv (List.mem_cons_of_mem _ hm)
          · simp only [List.mem_singleton] at hkv
            subst hkv; exact hnd.1)]
        simp [contiguousFinalLengths, contiguousRemainder, hp, hr, pyDict, szOf]
      · simp only [hr, if_false]
        simp [contiguousFinalLengths, contiguousRemainder, hp, hr, pyDict, szOf]



/-- the generated interleaved test `toc_mask & (1 << 5)` is the model's `hasFlag toc kTocInterleavedData` -/
theorem interleaved_flag (toc : Nat) :
    (Py.band (toc : Int) toc_properties_kTocInterleavedData ≠ 0) ↔ hasFlag toc kTocInterleavedData = true := by
  have h : toc_properties_kTocInterleavedData = ((2 ^ 5 : Nat) : Int) := by decide
  rw [h, Py.band_two_pow_ne_zero]
  unfold hasFlag kTocInterleavedData
  rw [decide_eq_true_iff]

/-- "a data object of an unsized type (or of no type)" -/
abbrev unsizedData (o : SegObj) : Bool := o.hasData && (o.dataType.bind typeSize).isNone

/-- the model function in the non-DAQmx case -/
theorem computeFinal_std_model (s : Segment) (c r : Nat)
    (hd : haveDaqmxObjects s.objects = .ok false) :
    computeFinalChunkLengths s c r =
      if (s.objects.filter (·.hasData)).any (·.dataType.isNone) then .error .noneType
      else .ok (
        if s.objects.any unsizedData then []
        else if hasFlag s.toc kTocInterleavedData || !s.incomplete then
          (s.objects.filter (·.hasData)).map fun o => (o.path, (o.numberValues * r) / c)
        else contiguousFinalLengths s.objects r) := by
  have h2 : ((s.objects.filter (·.hasData)).any fun o => (o.dataType.bind typeSize).isNone)
      = s.objects.any unsizedData := by
    rw [List.any_filter]
  unfold computeFinalChunkLengths
  simp only [hd, bind, Except.bind, h2]
  cases (s.objects.filter (·.hasData)).any (·.dataType.isNone) <;>
    cases s.objects.any unsizedData <;> simp [pure, Except.pure, throw, throwThe, MonadExceptOf.throw]
  split <;> rfl

/-- `p` comes before `o`: if `o` is a data object without a type then `p` is not a data object of a
    type without a size -/
def TypedFirst (p o : SegObj) : Prop :=
  o.hasData = true → o.dataType = none → p.hasData = true → p.dataType.isSome = true →
    (p.dataType.bind typeSize).isSome = true

theorem anyE_unsized (objs : List SegObj) (f : SegmentObject → Except Py.Exc Bool)
    (hf : ∀ o ∈ objs, f (pyObj o) =
      if o.hasData then
        match o.dataType with
        | none => .error "AttributeError"
        | some ty => .ok (typeSize ty).isNone
      else .ok false)
    (hord : objs.Pairwise TypedFirst) :
    Py.anyE (objs.map pyObj) f =
      if (objs.filter (·.hasData)).any (·.dataType.isNone) then .error "AttributeError"
      else .ok (objs.any unsizedData) := by
  induction objs with
  | nil => rfl
  | cons x os ih =>
    rw [List.pairwise_cons] at hord
    rw [List.map_cons, Py.anyE_cons, hf x (by simp), ih (fun o ho => hf o (by simp [ho])) hord.2]
    cases h1 : x.hasData with
    | false => simp [h1, unsizedData]
    | true =>
      cases h2 : x.dataType with
      | none => simp [h1, h2]
      | some ty =>
        cases h3 : typeSize ty with
        | some n => simp [h1, h2, h3, unsizedData]
        | none =>
          have : (os.filter (·.hasData)).any (·.dataType.isNone) = false := by
            rw [List.any_eq_false]
            intro o ho
            rw [List.mem_filter] at ho
            cases h4 : o.dataType with
            | some _ => simp
            | none =>
              have := hord.1 o ho.1 ho.2 h4 h1 (by simp [h2])
              simp [h2, h3] at this
          simp [h1, h2, h3, unsizedData, this]

theorem compute_final_std (s : Segment) (c r : Nat) (cc : Option Int) (dc : Option Bool)
    (hdc : dc = none ∨ dc = some false)
    (hd : haveDaqmxObjects s.objects = .ok false)
    (hord : s.objects.Pairwise TypedFirst)
    (hnd : ((s.objects.filter (·.hasData)).map (·.path)).Nodup)
    (hc : c ≠ 0) :
    Agrees (fun ov => (pyDict ov, pySegC s cc (some false))) (computeFinalChunkLengths s c r)
      (TdmsSegment._compute_final_chunk_lengths (pySegC s cc dc) (c : Int) (r : Int)) := by
  rw [computeFinal_std_model s c r hd]
  unfold TdmsSegment._compute_final_chunk_lengths
  rw [have_daqmx_repr s cc dc false hdc hd]
  simp only [bind, Except.bind]
  rw [show (pySegC s cc (some false)).ordered_objects = s.objects.map pyObj from rfl,
    show (pySegC s cc (some false)).toc_mask = (s.toc : Int) from rfl,
    show (pySegC s cc (some false)).segment_incomplete = s.incomplete from rfl]
  rw [anyE_unsized s.objects _ _ hord]
  · cases hN : (s.objects.filter (·.hasData)).any (·.dataType.isNone) with
    | true =>
      simp [Agrees, errNames]
    | false =>
    have htyped : ∀ o ∈ s.objects, o.hasData = true → o.dataType.isSome = true := by
      intro o ho hdata
      rw [List.any_eq_false] at hN
      have := hN o (by rw [List.mem_filter]; exact ⟨ho, hdata⟩)
      cases hdt : o.dataType <;> simp [hdt] at this ⊢
    simp only [Agrees, Bool.false_eq_true, ↓reduceIte]
    cases hU : s.objects.any unsizedData with
    | true => simp [pure, Except.pure, pyDict]
    | false =>
      have hsz : ∀ o ∈ s.objects, o.hasData = true →
          ∃ ty n, o.dataType = some ty ∧ typeSize ty = some n ∧ n ≠ 0 := by
        intro o ho hdata
        rw [List.any_eq_false] at hU
        have h1 := hU o ho
        have h2 := htyped o ho hdata
        cases hdt : o.dataType with
        | none => simp [hdt] at h2
        | some ty =>
          cases hts : typeSize ty with
          | none => simp [unsizedData, hdata, hdt, hts] at h1
          | some n => exact ⟨ty, n, rfl, hts, typeSize_ne_zero ty n hts⟩
      rw [forE_dict_fill pyObj s.objects _ (·.hasData) (·.path)
          (fun o => ((o.numberValues * r / c : Nat) : Int)) _ [] hnd (by simp),
        forE_contiguous s.objects _ _ [] r hnd (by simp)]
      · rw [if_neg (by decide)]
        by_cases hI : hasFlag s.toc kTocInterleavedData = true ∨ s.incomplete = false
        · have hI' : Py.band (↑s.toc) toc_properties_kTocInterleavedData ≠ 0 ∨ ¬s.incomplete = true := by
            rw [interleaved_flag]; simpa using hI
          have hI'' : (hasFlag s.toc kTocInterleavedData || !s.incomplete) = true := by simpa using hI
          simp only [Bool.false_eq_true, ↓reduceIte]
          rw [if_pos hI', if_pos hI'']
          simp [pure, Except.pure, pyDict]
        · have hI' : ¬ (Py.band (↑s.toc) toc_properties_kTocInterleavedData ≠ 0 ∨ ¬s.incomplete = true) := by
            rw [interleaved_flag]; simpa using hI
          have hI'' : ¬ ((hasFlag s.toc kTocInterleavedData || !s.incomplete) = true) := by simpa using hI
          simp only [Bool.false_eq_true, ↓reduceIte]
          rw [if_neg hI', if_neg hI'']
          simp [pure, Except.pure, pyDict]
      · -- one iteration of the contiguous loop
        intro o ho d r
        cases h1 : o.hasData
        · simp [h1, pyObj, pure, Except.pure]
        · obtain ⟨ty, n, hty, hn, hn0⟩ := hsz o ho h1
          have e2 : szOf o = n := by simp [szOf, hty, hn]
          simp only [h1, pyObj, hty, Option.map, pyDataType, hn, Py.attr, Py.notNone, e2, pure, Except.pure]
          rw [Py.floordiv_natCast _ _ hn0]
          by_cases hr : r > o.numberValues * n
          · have hr' : (r : Int) > (o.numberValues : Int) * (n : Int) := by
              rw [← Int.natCast_mul]; omega
            have e3 : (r : Int) - (o.numberValues : Int) * (n : Int) = ((r - o.numberValues * n : Nat) : Int) := by
              rw [← Int.natCast_mul]; omega
            simp [hr, hr', e3]
          · have hr' : ¬ ((r : Int) > (o.numberValues : Int) * (n : Int)) := by
              rw [← Int.natCast_mul]; omega
            simp [hr, hr']
      · -- one iteration of the interleaved / complete loop
        intro o ho d
        cases h1 : o.hasData
        · simp [h1, pyObj, pure, Except.pure]
        · have e : ((o.numberValues : Int) * (r : Int)) = ((o.numberValues * r : Nat) : Int) := by
            rw [Int.natCast_mul]
          simp only [h1, pyObj, pure, Except.pure, e, Py.floordiv_natCast _ _ hc]
          simp
  · -- the predicate of `any(...)`
    intro o ho
    cases h1 : o.hasData <;> cases h2 : o.dataType <;>
      simp [h1, h2, pyObj, pyDataType, Py.attr, pure, Except.pure]


/-- `_calculate_chunks` from the agreement of its two callees (any value `b` of the DAQmx cache) -/
theorem calculate_chunks_core (s : Segment) (c : Nat) (b : Bool)
    (hcs : chunkSize s.objects = .ok c)
    (hB : TdmsSegment._get_chunk_size (pySeg s) = .ok ((c : Int), pySegC s (some (c : Int)) (some b)))
    (hC : ∀ (k r : Nat), c ≠ 0 → 0 < r →
      Agrees (fun ov => (pyDict ov, pySegC { s with numChunks := k } (some (c : Int)) (some b)))
        (computeFinalChunkLengths s c r)
        (TdmsSegment._compute_final_chunk_lengths (pySegC { s with numChunks := k } (some (c : Int)) (some b))
          (c : Int) (r : Int))) :
    Agrees (fun s' => pySegC s' (some (c : Int)) (some b)) (calculateChunks s)
      (TdmsSegment._calculate_chunks (pySeg s)) := by
  unfold TdmsSegment._calculate_chunks
  rw [hB]
  simp only [bind, Except.bind]
  rw [show (pySegC s (some (c : Int)) (some b)).next_segment_pos = (s.nextSegmentPos : Int) from rfl,
    show (pySegC s (some (c : Int)) (some b)).data_position = (s.dataPosition : Int) from rfl]
  unfold calculateChunks
  rw [hcs]
  simp only [bind, Except.bind]
  by_cases hlt : s.nextSegmentPos < s.dataPosition
  · have h2 : ((c : Int) < 0 ∨ (s.nextSegmentPos : Int) - (s.dataPosition : Int) < 0) := by omega
    rw [if_pos hlt, if_pos h2]
    exact ⟨"ValueError", rfl, by simp [errNames]⟩
  · have h2 : ¬ ((c : Int) < 0 ∨ (s.nextSegmentPos : Int) - (s.dataPosition : Int) < 0) := by omega
    rw [if_neg hlt, if_neg h2]
    rw [show (s.nextSegmentPos : Int) - (s.dataPosition : Int) = ((s.nextSegmentPos - s.dataPosition : Nat) : Int) by omega]
    generalize s.nextSegmentPos - s.dataPosition = total
    by_cases hc0 : c = 0
    · have hc0' : (c : Int) = 0 := by omega
      rw [if_pos hc0, if_pos hc0']
      by_cases ht : total = 0
      · have ht' : ¬ ((total : Int) ≠ (c : Int)) := by omega
        rw [if_neg (by simpa using ht), if_neg ht']
        simp [Agrees, pure, Except.pure, pySegC]
      · have ht' : ((total : Int) ≠ (c : Int)) := by omega
        rw [if_pos ht, if_pos ht']
        exact ⟨"ValueError", rfl, by simp [errNames]⟩
    · have hc0' : ¬ (c : Int) = 0 := by omega
      rw [if_neg hc0, if_neg hc0', Py.mod_natCast _ _ hc0, Py.floordiv_natCast _ _ hc0]
      simp only []
      by_cases hr : total % c = 0
      · have hr' : ((total % c : Nat) : Int) = 0 := by omega
        rw [if_pos hr, if_pos hr']
        simp [Agrees, pure, Except.pure, pySegC]
      · have hr' : ¬ ((total % c : Nat) : Int) = 0 := by omega
        rw [if_neg hr, if_neg hr']
        have h := hC (1 + total / c) (total % c) hc0 (by omega)
        have e : ((1 + total / c : Nat) : Int) = 1 + ((total / c : Nat) : Int) := by omega
        simp only [pySegC, e] at h ⊢
        cases hm : computeFinalChunkLengths s c (total % c) with
        | error x =>
          rw [hm] at h
          obtain ⟨y, hy, hy'⟩ := h
          exact ⟨y, by rw [hy], hy'⟩
        | ok ov =>
          rw [hm] at h
          simp only [Agrees] at h ⊢
          rw [h]
          rfl

/-- when every data object has a type (as after `read_raw_data_index`) the order condition holds -/
theorem pairwise_typedFirst_of_typed (objs : List SegObj)
    (htyped : ∀ o ∈ objs, o.hasData = true → o.dataType.isSome = true) : objs.Pairwise TypedFirst := by
  rw [List.pairwise_iff_forall_sublist]
  intro p o hsub hdata hnone
  have hmem : o ∈ objs := hsub.subset (by simp)
  have := htyped o hmem hdata
  simp [hnone] at this

/-- `_calculate_chunks` for a segment without DAQmx data -/
theorem calculate_chunks_std (s : Segment) (c : Nat)
    (hd : haveDaqmxObjects s.objects = .ok false)
    (hcs : chunkSize s.objects = .ok c)
    (hord : s.objects.Pairwise TypedFirst)
    (hnd : ((s.objects.filter (·.hasData)).map (·.path)).Nodup) :
    Agrees (fun s' => pySegC s' (some (c : Int)) (some false)) (calculateChunks s)
      (TdmsSegment._calculate_chunks (pySeg s)) := by
  have hc : c = ((s.objects.filter (·.hasData)).map (·.dataSize)).sum := by
    rw [chunkSize_std' s.objects hd] at hcs
    cases hcs; rfl
  apply calculate_chunks_core s c false hcs
  · rw [hc]; exact get_chunk_size_std s none (Or.inl rfl) hd
  · intro k r hc0 _
    exact compute_final_std { s with numChunks := k } c r (some (c : Int)) (some false) (Or.inr rfl) hd hord hnd hc0

/-! ## DAQmx segments and mixed segments: glue around the C11 functions -/

theorem chunkSize_daqmx (objs : List SegObj) (hd : haveDaqmxObjects objs = .ok true) :
    chunkSize objs = (bufferDimensions objs).map fun dims => (dims.map fun (n, w) => n * w).sum := by
  unfold chunkSize
  rw [hd]
  cases bufferDimensions objs <;> rfl

theorem chunkSize_mixed (objs : List SegObj) (e : Err) (hd : haveDaqmxObjects objs = .error e) :
    chunkSize objs = .error e := by
  unfold chunkSize
  rw [hd]; rfl

theorem computeFinal_daqmx_model (s : Segment) (c r : Nat) (hd : haveDaqmxObjects s.objects = .ok true) :
    computeFinalChunkLengths s c r = daqmxFinalChunkLengths s.objects r := by
  unfold computeFinalChunkLengths
  rw [hd]; rfl

theorem computeFinal_mixed_model (s : Segment) (c r : Nat) (e : Err) (hd : haveDaqmxObjects s.objects = .error e) :
    computeFinalChunkLengths s c r = .error e := by
  unfold computeFinalChunkLengths
  rw [hd]; rfl

/-- all data objects are DAQmx objects when `haveDaqmxObjects` says so -/
theorem allDaq_of_have (objs : List SegObj) (hd : haveDaqmxObjects objs = .ok true) :
    ∀ o ∈ objs, o.hasData = true → o.daq.isSome = true := by
  unfold haveDaqmxObjects at hd
  simp only [] at hd
  split at hd
  · cases hd
  · split at hd
    · rename_i h
      rw [List.length_filter_eq_length_iff] at h
      intro o ho hdata
      exact h o (by rw [List.mem_filter]; exact ⟨ho, hdata⟩)
    · cases hd

/-- `_get_chunk_size` on a DAQmx segment, from the agreement of `get_daqmx_chunk_size` (C11) -/
theorem get_chunk_size_daqmx (s : Segment) (dc : Option Bool) (hdc : dc = none ∨ dc = some true)
    (hd : haveDaqmxObjects s.objects = .ok true)
    (hG : Agrees (fun (c : Nat) => (c : Int)) (chunkSize s.objects) (get_daqmx_chunk_size (s.objects.map pyObj))) :
    Agrees (fun (c : Nat) => ((c : Int), pySegC s (some (c : Int)) (some true))) (chunkSize s.objects)
      (TdmsSegment._get_chunk_size (pySegC s none dc)) := by
  unfold TdmsSegment._get_chunk_size
  rw [show (pySegC s none dc).chunk_size_cached = none from rfl]
  simp only []
  rw [have_daqmx_repr s none dc true hdc hd]
  simp only [bind, Except.bind, ↓reduceIte]
  rw [show (pySegC s none (some true)).ordered_objects = s.objects.map pyObj from rfl]
  cases hm : chunkSize s.objects with
  | error e =>
    rw [hm] at hG
    obtain ⟨x, hx, hxe⟩ := hG
    exact ⟨x, by rw [hx], hxe⟩
  | ok c =>
    rw [hm] at hG
    simp only [Agrees] at hG ⊢
    rw [hG]
    rfl

/-- `_get_chunk_size` on a fresh segment that mixes DAQmx and other data objects -/
theorem get_chunk_size_mixed (s : Segment) (e : Err) (hd : haveDaqmxObjects s.objects = .error e) :
    chunkSize s.objects = .error .mixedDaqmx ∧ TdmsSegment._get_chunk_size (pySeg s) = .error "Exception" := by
  have he := haveDaqmxObjects_error _ _ hd
  subst he
  refine ⟨chunkSize_mixed _ _ hd, ?_⟩
  unfold TdmsSegment._get_chunk_size
  rw [show (pySeg s).chunk_size_cached = none from rfl]
  simp only []
  rw [show pySeg s = pySegC s none none from rfl, have_daqmx_mixed s none _ hd]
  rfl

/-- `_compute_final_chunk_lengths` on a DAQmx segment, from the agreement of
    `get_daqmx_final_chunk_lengths` (C11) -/
theorem compute_final_daqmx (s : Segment) (c r : Nat) (cc : Option Int) (dc : Option Bool)
    (hdc : dc = none ∨ dc = some true)
    (hd : haveDaqmxObjects s.objects = .ok true)
    (hG : Agrees pyDict (daqmxFinalChunkLengths s.objects r)
      (get_daqmx_final_chunk_lengths (s.objects.map pyObj) (r : Int))) :
    Agrees (fun ov => (pyDict ov, pySegC s cc (some true))) (computeFinalChunkLengths s c r)
      (TdmsSegment._compute_final_chunk_lengths (pySegC s cc dc) (c : Int) (r : Int)) := by
  rw [computeFinal_daqmx_model s c r hd]
  unfold TdmsSegment._compute_final_chunk_lengths
  rw [have_daqmx_repr s cc dc true hdc hd]
  simp only [bind, Except.bind, ↓reduceIte]
  rw [show (pySegC s cc (some true)).ordered_objects = s.objects.map pyObj from rfl]
  cases hm : daqmxFinalChunkLengths s.objects r with
  | error e =>
    rw [hm] at hG
    obtain ⟨x, hx, hxe⟩ := hG
    exact ⟨x, by rw [hx], hxe⟩
  | ok ov =>
    rw [hm] at hG
    simp only [Agrees] at hG ⊢
    rw [hG]
    rfl

/-- `_compute_final_chunk_lengths` on a fresh mixed segment -/
theorem compute_final_mixed (s : Segment) (c r : Nat) (cc : Option Int) (e : Err)
    (hd : haveDaqmxObjects s.objects = .error e) :
    computeFinalChunkLengths s c r = .error .mixedDaqmx ∧
      TdmsSegment._compute_final_chunk_lengths (pySegC s cc none) (c : Int) (r : Int) = .error "Exception" := by
  have he := haveDaqmxObjects_error _ _ hd
  subst he
  refine ⟨computeFinal_mixed_model s c r _ hd, ?_⟩
  unfold TdmsSegment._compute_final_chunk_lengths
  rw [have_daqmx_mixed s cc _ hd]
  rfl

/-- `_calculate_chunks` when `_get_chunk_size` fails -/
theorem calculate_chunks_error (s : Segment) (e : Err) (x : Py.Exc)
    (hcs : chunkSize s.objects = .error e)
    (hB : TdmsSegment._get_chunk_size (pySeg s) = .error x) :
    calculateChunks s = .error e ∧ TdmsSegment._calculate_chunks (pySeg s) = .error x := by
  constructor
  · unfold calculateChunks; rw [hcs]; rfl
  · unfold TdmsSegment._calculate_chunks; rw [hB]; rfl

/-- `_calculate_chunks` for a DAQmx segment, from the agreement of the two C11 functions -/
theorem calculate_chunks_daqmx (s : Segment) (c : Nat)
    (hd : haveDaqmxObjects s.objects = .ok true)
    (hcs : chunkSize s.objects = .ok c)
    (hG1 : Agrees (fun (c : Nat) => (c : Int)) (chunkSize s.objects) (get_daqmx_chunk_size (s.objects.map pyObj)))
    (hG2 : ∀ r : Nat, 0 < r → Agrees pyDict (daqmxFinalChunkLengths s.objects r)
      (get_daqmx_final_chunk_lengths (s.objects.map pyObj) (r : Int))) :
    Agrees (fun s' => pySegC s' (some (c : Int)) (some true)) (calculateChunks s)
      (TdmsSegment._calculate_chunks (pySeg s)) := by
  apply calculate_chunks_core s c true hcs
  · have := get_chunk_size_daqmx s none (Or.inl rfl) hd hG1
    rw [hcs] at this
    exact this
  · intro k r _ hr
    exact compute_final_daqmx { s with numChunks := k } c r (some (c : Int)) (some true) (Or.inr rfl) hd (hG2 r hr)

/-! ## every segment: the three cases (no DAQmx data, only DAQmx data, mixed) together

The DAQmx cache of the returned `self` is `(haveDaqmxObjects s.objects).toOption`: `some b` when the model
answers `b`; in the mixed case both sides fail. -/

theorem get_chunk_size_all (s : Segment)
    (hG1 : haveDaqmxObjects s.objects = .ok true →
      Agrees (fun (c : Nat) => (c : Int)) (chunkSize s.objects) (get_daqmx_chunk_size (s.objects.map pyObj))) :
    Agrees (fun (c : Nat) => ((c : Int), pySegC s (some (c : Int)) (haveDaqmxObjects s.objects).toOption))
      (chunkSize s.objects) (TdmsSegment._get_chunk_size (pySeg s)) := by
  cases hd : haveDaqmxObjects s.objects with
  | error e =>
    obtain ⟨h1, h2⟩ := get_chunk_size_mixed s e hd
    rw [h1, h2]
    exact ⟨"Exception", rfl, by simp [errNames]⟩
  | ok b =>
    cases b with
    | false =>
      rw [chunkSize_std' s.objects hd]
      exact get_chunk_size_std s none (Or.inl rfl) hd
    | true => exact get_chunk_size_daqmx s none (Or.inl rfl) hd (hG1 hd)

theorem compute_final_all (s : Segment) (c r : Nat) (cc : Option Int) (dc : Option Bool)
    (hdc : ∀ b, dc = some b → haveDaqmxObjects s.objects = .ok b)
    (hord : s.objects.Pairwise TypedFirst)
    (hnd : ((s.objects.filter (·.hasData)).map (·.path)).Nodup)
    (hc : haveDaqmxObjects s.objects = .ok false → c ≠ 0)
    (hG2 : haveDaqmxObjects s.objects = .ok true →
      Agrees pyDict (daqmxFinalChunkLengths s.objects r)
        (get_daqmx_final_chunk_lengths (s.objects.map pyObj) (r : Int))) :
    Agrees (fun ov => (pyDict ov, pySegC s cc (haveDaqmxObjects s.objects).toOption))
      (computeFinalChunkLengths s c r)
      (TdmsSegment._compute_final_chunk_lengths (pySegC s cc dc) (c : Int) (r : Int)) := by
  cases hd : haveDaqmxObjects s.objects with
  | error e =>
    have hnone : dc = none := by
      cases dc with
      | none => rfl
      | some b => have := hdc b rfl; rw [hd] at this; cases this
    subst hnone
    obtain ⟨h1, h2⟩ := compute_final_mixed s c r cc e hd
    rw [h1, h2]
    exact ⟨"Exception", rfl, by simp [errNames]⟩
  | ok b =>
    have hdc' : dc = none ∨ dc = some b := by
      cases dc with
      | none => exact Or.inl rfl
      | some b' => have := hdc b' rfl; rw [hd] at this; cases this; exact Or.inr rfl
    cases b with
    | false => exact compute_final_std s c r cc dc hdc' hd hord hnd (hc hd)
    | true => exact compute_final_daqmx s c r cc dc hdc' hd (hG2 hd)

theorem calculate_chunks_all (s : Segment)
    (hord : s.objects.Pairwise TypedFirst)
    (hnd : ((s.objects.filter (·.hasData)).map (·.path)).Nodup)
    (hG1 : haveDaqmxObjects s.objects = .ok true →
      Agrees (fun (c : Nat) => (c : Int)) (chunkSize s.objects) (get_daqmx_chunk_size (s.objects.map pyObj)))
    (hG2 : haveDaqmxObjects s.objects = .ok true → ∀ r : Nat, 0 < r →
      Agrees pyDict (daqmxFinalChunkLengths s.objects r)
        (get_daqmx_final_chunk_lengths (s.objects.map pyObj) (r : Int))) :
    Agrees (fun s' => pySegC s' ((chunkSize s.objects).toOption.map fun (c : Nat) => (c : Int))
        (haveDaqmxObjects s.objects).toOption)
      (calculateChunks s) (TdmsSegment._calculate_chunks (pySeg s)) := by
  have hB := get_chunk_size_all s hG1
  cases hcs : chunkSize s.objects with
  | error e =>
    rw [hcs] at hB
    obtain ⟨x, hx, hxe⟩ := hB
    obtain ⟨h1, h2⟩ := calculate_chunks_error s e x hcs hx
    rw [h1, h2]
    exact ⟨x, rfl, hxe⟩
  | ok c =>
    cases hd : haveDaqmxObjects s.objects with
    | error e => rw [chunkSize_mixed _ e hd] at hcs; cases hcs
    | ok b =>
      cases b with
      | false => exact calculate_chunks_std s c hd hcs hord hnd
      | true => exact calculate_chunks_daqmx s c hd hcs (hG1 hd) (hG2 hd)

end Tdms.Proofs.Tied
