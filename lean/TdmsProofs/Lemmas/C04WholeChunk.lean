import TdmsProofs.Lemmas.C01MultiCanon

/-!
# C04Whole: one channel, one chunk, one segment — the lazy readers on encoded bytes

`readChannelChunkContiguous` (seek over the other channels, read this one), `readChannelChunksFrom`
and `segReadChannel` of `Tdms/Model/Lazy.lean` on the spec's encoding of a segment of the class
`SegOK` (contiguous, fixed-width and string channels): every planned chunk read returns that
chunk's values of the channel, from any file state.  Core Lean only.
-/

namespace Tdms.Proofs.C04Whole

open Tdms Tdms.Generated Tdms.Model Tdms.Proofs.C02 Tdms.Proofs.C01Multi
open Tdms.Proofs.Bytes (contOK F_bind_ok F_pure drop_add_of_drop_eq fRead_of_drop aTy)

/-- the values chunk `ch` holds for path `p`: those of the first data object with that path -/
def chanVals : List ActiveObj → List (List Bytes) → Bytes → List Bytes
  | a :: as, v :: vs, p => if a.path = p then v else chanVals as vs p
  | _, _, _ => []

/-- one channel of one encoded chunk: the reader seeks over the preceding objects (by their declared
    sizes) and returns the channel's values -/
theorem readChannelChunk_enc (file : Bytes) (seg : Segment) (hov : seg.override = none) (ci : Nat) (p : Bytes) :
    ∀ (d : List ActiveObj) (ch : List (List Bytes)) (cur : Nat) (rest : Bytes) (st : FState),
      (∀ x ∈ d, ∀ i, x.idx = some i → GoodDesc i) → wfStdChunk d ch = true →
      file.drop cur = encChunkContiguous seg.endian d ch ++ rest → p ∈ d.map (·.path) →
      ∃ st', readChannelChunkContiguous file seg ci p (d.map concObj) cur st =
        .ok ({ data := some (chanVals d ch p) }, st') := by
  intro d
  induction d with
  | nil => intro ch cur rest st _ _ _ hp; cases hp
  | cons a as ih =>
    intro ch cur rest st hg hwf hfile hp
    cases ch with
    | nil => simp [wfStdChunk] at hwf
    | cons v vs =>
      obtain ⟨hc, hlen⟩ := chunk_facts seg.endian (a :: as) (v :: vs) hg hwf
      have hwf' : wfStdChunk as vs = true := by
        rw [wfStdChunk, Bool.and_eq_true] at hwf; exact hwf.2
      have hg' : ∀ x ∈ as, ∀ i, x.idx = some i → GoodDesc i := fun x hx => hg x (List.mem_cons_of_mem _ hx)
      obtain ⟨_, hlen'⟩ := chunk_facts seg.endian as vs hg' hwf'
      obtain ⟨⟨hty, hnv, hkind⟩, _⟩ := hc
      have hhead : (encObjValues seg.endian (aTy a) v).length = (concObj a).dataSize := by
        have h1 : encChunkContiguous seg.endian (a :: as) (v :: vs) =
            encObjValues seg.endian (aTy a) v ++ encChunkContiguous seg.endian as vs := rfl
        rw [h1, List.length_append, hlen'] at hlen
        simp only [List.map_cons, List.sum_cons] at hlen
        omega
      have h1 : encChunkContiguous seg.endian (a :: as) (v :: vs) =
          encObjValues seg.endian (aTy a) v ++ encChunkContiguous seg.endian as vs := rfl
      rw [h1, List.append_assoc] at hfile
      have hcn : channelNumberValues seg (concObj a) ci = v.length := by
        simp [channelNumberValues, hov, hnv]
      rw [List.map_cons]
      unfold readChannelChunkContiguous
      simp only [hcn, concObj_path]
      by_cases hpa : a.path = p
      · -- this is the channel: seek and read
        simp only [hpa, if_true, chanVals]
        have hstep : ∃ tr1 pos1, readValues file seg.endian (concObj a) v.length ⟨cur, st.trace⟩ =
            .ok (v, ⟨pos1, tr1⟩) := by
          rcases hkind with ⟨sz, hsz, hall⟩ | ⟨hstr, hl⟩
          · have hl := Tdms.Proofs.Bytes.encObjValues_fixed_length seg.endian hsz v hall
            have ht : (file.drop cur).take (v.length * sz) = encObjValues seg.endian (aTy a) v := by
              rw [hfile, List.take_left' hl]
            exact ⟨_, _, Tdms.Proofs.Bytes.readValues_fixed file seg.endian (concObj a) v cur st.trace hty hsz hall ht⟩
          · rw [hstr] at hty hfile
            obtain ⟨tr', h⟩ := Tdms.Proofs.Bytes.readValues_string file seg.endian (concObj a) v cur st.trace _ hty hl hfile
            exact ⟨_, _, h⟩
        obtain ⟨tr1, pos1, hstep⟩ := hstep
        have hseek : fSeek cur st = .ok ((), ⟨cur, st.trace⟩) := rfl
        refine ⟨⟨pos1, tr1⟩, ?_⟩
        rw [F_bind_ok hseek, F_bind_ok hstep]
        rfl
      · -- another channel: skip its declared size
        have hp' : p ∈ as.map (·.path) := by
          rcases List.mem_cons.1 hp with h | h
          · exact absurd h.symm hpa
          · exact h
        simp only [hpa, if_false, chanVals, hnv.symm, if_true]
        have hd : file.drop (cur + (concObj a).dataSize) = encChunkContiguous seg.endian as vs ++ rest := by
          rw [← hhead]; exact drop_add_of_drop_eq hfile
        exact ih vs (cur + (concObj a).dataSize) rest st hg' hwf' hd hp'

/-- `flatMap` over a list whose parts all have length `c`: dropping `j` parts -/
theorem drop_flatMap_const {α : Type} (f : α → Bytes) (c : Nat) :
    ∀ (l : List α) (j : Nat), (∀ x ∈ l, (f x).length = c) → j ≤ l.length →
      (l.flatMap f).drop (c * j) = (l.drop j).flatMap f := by
  intro l
  induction l with
  | nil => intro j _ hj; simp at hj; subst hj; simp
  | cons x xs ih =>
    intro j h hj
    cases j with
    | zero => simp
    | succ j =>
      have hx := h x List.mem_cons_self
      rw [List.flatMap_cons, Nat.mul_succ, Nat.add_comm, ← List.drop_drop, ← hx, List.drop_left, hx,
        List.drop_succ_cons]
      exact ih j (fun y hy => h y (List.mem_cons_of_mem _ hy)) (by simpa using hj)

/-- chunks `co + i, co + i + 1, …` of the channel, re-seeking after each chunk -/
theorem readChannelChunksFrom_enc (file : Bytes) (seg : Segment) (hov : seg.override = none) (p : Bytes)
    (d : List ActiveObj) (chunks : List (List (List Bytes))) (dataPos : Nat) (tail : Bytes) (c : Nat)
    (hg : ∀ x ∈ d, ∀ i, x.idx = some i → GoodDesc i) (hwf : ∀ ch ∈ chunks, wfStdChunk d ch = true)
    (hc : ∀ ch ∈ chunks, (encChunkContiguous seg.endian d ch).length = c)
    (hfile : file.drop dataPos = chunks.flatMap (encChunkContiguous seg.endian d) ++ tail)
    (hp : p ∈ d.map (·.path)) (co : Nat) (stop : Int) :
    ∀ (fuel i : Nat) (st : FState), st.pos = dataPos + c * co + i * c → ((co + i + fuel : Nat) : Int) = stop →
      co + i + fuel ≤ chunks.length →
      ∃ st', readChannelChunksFrom file seg .contiguous (d.map concObj) p c (dataPos + c * co) co stop fuel i st =
        .ok ((List.range' (co + i) fuel).map fun j =>
          ({ data := some (chanVals d (chunks.getD j []) p) } : ChanChunk), st') := by
  intro fuel
  induction fuel with
  | zero => intro i st _ _ _; exact ⟨st, rfl⟩
  | succ fuel ih =>
    intro i st hpos hstop hle
    have hlt : ((co + i : Nat) : Int) < stop := by omega
    have hj : co + i < chunks.length := by omega
    -- the bytes of chunk `co + i`
    have hdrop : file.drop (dataPos + c * (co + i)) =
        encChunkContiguous seg.endian d chunks[co + i] ++
          ((chunks.drop (co + i + 1)).flatMap (encChunkContiguous seg.endian d) ++ tail) := by
      rw [← List.drop_drop, hfile, List.drop_append_of_le_length, drop_flatMap_const _ c chunks (co + i) hc (by omega),
        List.drop_eq_getElem_cons hj, List.flatMap_cons, List.append_assoc]
      rw [Tdms.Proofs.C01Compose.flatMap_length_const _ _ c hc, Nat.mul_comm c]
      exact Nat.mul_le_mul_right c (by omega)
    have hcur : st.pos = dataPos + c * (co + i) := by
      rw [hpos, Nat.mul_add, Nat.mul_comm i c]; omega
    obtain ⟨st1, h1⟩ := readChannelChunk_enc file seg hov (co + i) p d chunks[co + i] (dataPos + c * (co + i)) _ st
      hg (hwf _ (List.getElem_mem hj)) hdrop hp
    have hat : readChannelChunkAt file seg .contiguous (d.map concObj) p (co + i) st =
        .ok ({ data := some (chanVals d chunks[co + i] p) }, st1) := by
      unfold readChannelChunkAt
      have htell : fTell st = .ok (st.pos, st) := rfl
      simp only []
      rw [F_bind_ok htell, hcur]
      exact h1
    have hseek : fSeek (dataPos + c * co + (i + 1) * c) st1 =
        .ok ((), ⟨dataPos + c * co + (i + 1) * c, st1.trace⟩) := rfl
    obtain ⟨st2, h2⟩ := ih (i + 1) ⟨dataPos + c * co + (i + 1) * c, st1.trace⟩ rfl (by omega) (by omega)
    refine ⟨st2, ?_⟩
    unfold readChannelChunksFrom
    rw [if_pos hlt, F_bind_ok hat, F_bind_ok hseek, F_bind_ok h2]
    simp only [F_pure, List.range'_succ, List.map_cons]
    rw [show chunks.getD (co + i) [] = chunks[co + i] by simp [List.getD_eq_getElem?_getD, hj]]
    rfl

/-- the chunks the supplier of C04 names for segment data `chunks` with data objects `d` -/
def chunkRun (d : List ActiveObj) (chunks : List (List (List Bytes))) (p : Bytes) (co : Nat) (nc : Int) :
    List ChanChunk :=
  (List.range' co nc.toNat).map fun j => ({ data := some (chanVals d (chunks.getD j []) p) } : ChanChunk)

/-- **one planned segment read of the lazy window**: on the encoding of a segment of the class,
    `segReadChannel` with a chunk run inside the segment returns (after the empty chunk of a segment
    without the raw-data flag) exactly that run of the channel's chunks — from any file state -/
theorem segReadChannel_enc (file : Bytes) (pos : Nat) (s : SegEnc) (a : List ActiveObj) (rest : Bytes)
    (hfile : file.drop pos = encodeSeg s a ++ rest) (hok : SegOK s a) (p : Bytes)
    (hp : p ∈ (dataObjs a).map (·.path)) (co : Nat) (nc : Int) (hin : co + nc.toNat ≤ s.chunks.length)
    (st : FState) :
    ∃ st', segReadChannel file (segRec pos s a) p co (some nc) st =
      .ok ((if !s.rawFlag then [({} : ChanChunk)] else []) ++ chunkRun (dataObjs a) s.chunks p co nc, st') := by
  have hsplit := encodeSeg_split s a
  have hli28 := encLeadIn_length tagData s (segMeta s).length (encRaw s a).length rfl
  have hnoq := not_daq_of_good hok.good
  have hend : (segRec pos s a).endian = s.endian := Tdms.Proofs.Bytes.segEndian_of_tocMask s
  have hdrop : file.drop (pos + 28 + (segMeta s).length) =
      s.chunks.flatMap (encChunkContiguous (segRec pos s a).endian (dataObjs a)) ++ rest := by
    have h28 : file.drop (pos + 28) = segMeta s ++ (encRaw s a ++ rest) := by
      rw [← List.drop_drop, hfile, hsplit, List.append_assoc, List.drop_left' hli28, List.append_assoc]
    rw [← List.drop_drop, h28, List.drop_left, encRaw_contig s a hok.std.contiguous hnoq, hend]
  have hgd := good_dataObjs hok.good
  have hc : ∀ ch ∈ s.chunks,
      (encChunkContiguous (segRec pos s a).endian (dataObjs a) ch).length = chunkBytesA a := fun ch hch =>
    (chunk_facts _ (dataObjs a) ch hgd (hok.chunks ch hch)).2
  have hkind : dataReaderKind (segRec pos s a) = .ok .contiguous :=
    dataReaderKind_conc _ a hok.good rfl (by
      show hasFlag (tocMask s) kTocInterleavedData = false
      rw [Tdms.Proofs.Bytes.hasFlag_tocMask_interleaved, hok.std.contiguous])
  have hcs : chunkSize (segRec pos s a).objects = .ok (chunkBytesA a) := chunkSize_conc a hok.good
  have hd : (segRec pos s a).objects.filter (·.hasData) = (dataObjs a).map concObj := filter_hasData_conc a
  have hflagraw : hasFlag (segRec pos s a).toc kTocRawData = s.rawFlag := Tdms.Proofs.Bytes.hasFlag_tocMask_raw s
  -- the chunk loop, from the position reached after the seeks
  have hloop : ∀ tr, ∃ st', readChannelChunksFrom file (segRec pos s a) .contiguous ((dataObjs a).map concObj) p
      (chunkBytesA a) (pos + 28 + (segMeta s).length + chunkBytesA a * co) co (nc + (co : Int))
      ((nc + (co : Int)) - (co : Int)).toNat 0 ⟨pos + 28 + (segMeta s).length + chunkBytesA a * co, tr⟩ =
        .ok (chunkRun (dataObjs a) s.chunks p co nc, st') := by
    intro tr
    have hfuel : ((nc + (co : Int)) - (co : Int)).toNat = nc.toNat := by congr 1; omega
    rw [hfuel]
    by_cases hnc : 0 ≤ nc
    · obtain ⟨st', h⟩ := readChannelChunksFrom_enc file (segRec pos s a) rfl p (dataObjs a) s.chunks
        (pos + 28 + (segMeta s).length) rest (chunkBytesA a) hgd hok.chunks hc hdrop hp co (nc + (co : Int))
        nc.toNat 0 ⟨pos + 28 + (segMeta s).length + chunkBytesA a * co, tr⟩ (by simp) (by omega) (by omega)
      exact ⟨st', by simpa [chunkRun] using h⟩
    · have : nc.toNat = 0 := by omega
      refine ⟨⟨pos + 28 + (segMeta s).length + chunkBytesA a * co, tr⟩, ?_⟩
      unfold chunkRun
      rw [this]
      rfl
  unfold segReadChannel
  simp only [hflagraw]
  have hseek : fSeek (segRec pos s a).dataPosition st = .ok ((), ⟨pos + 28 + (segMeta s).length, st.trace⟩) := rfl
  have hlift1 : ∀ st0 : FState, Tdms.Model.liftE (chunkSize (segRec pos s a).objects) st0 = .ok (chunkBytesA a, st0) := by
    intro st0; rw [hcs]; rfl
  have hlift2 : ∀ st0 : FState, Tdms.Model.liftE (dataReaderKind (segRec pos s a)) st0 = .ok (.contiguous, st0) := by
    intro st0; rw [hkind]; rfl
  rw [F_bind_ok hseek, F_bind_ok (hlift1 _)]
  by_cases hco : co > 0
  · obtain ⟨st', hl⟩ := hloop st.trace
    refine ⟨st', ?_⟩
    simp only [hco, if_true]
    have htell : fTell (⟨pos + 28 + (segMeta s).length, st.trace⟩ : FState) =
        .ok (pos + 28 + (segMeta s).length, ⟨pos + 28 + (segMeta s).length, st.trace⟩) := rfl
    have hseek2 : fSeek (pos + 28 + (segMeta s).length + chunkBytesA a * co)
        (⟨pos + 28 + (segMeta s).length, st.trace⟩ : FState) =
        .ok ((), ⟨pos + 28 + (segMeta s).length + chunkBytesA a * co, st.trace⟩) := rfl
    rw [F_bind_ok htell, F_bind_ok hseek2, hd, F_bind_ok (hlift2 _)]
    have htell2 : fTell (⟨pos + 28 + (segMeta s).length + chunkBytesA a * co, st.trace⟩ : FState) =
        .ok (pos + 28 + (segMeta s).length + chunkBytesA a * co,
          ⟨pos + 28 + (segMeta s).length + chunkBytesA a * co, st.trace⟩) := rfl
    rw [F_bind_ok htell2]
    simp only []
    rw [F_bind_ok hl]
    rfl
  · have hco0 : co = 0 := by omega
    subst hco0
    obtain ⟨st', hl⟩ := hloop st.trace
    refine ⟨st', ?_⟩
    simp only [Nat.lt_irrefl, if_false, gt_iff_lt]
    have hunit : (pure PUnit.unit : F PUnit) (⟨pos + 28 + (segMeta s).length, st.trace⟩ : FState) =
        .ok (PUnit.unit, ⟨pos + 28 + (segMeta s).length, st.trace⟩) := rfl
    rw [hd, F_bind_ok (hlift2 _)]
    have htell2 : fTell (⟨pos + 28 + (segMeta s).length, st.trace⟩ : FState) =
        .ok (pos + 28 + (segMeta s).length, ⟨pos + 28 + (segMeta s).length, st.trace⟩) := rfl
    rw [F_bind_ok htell2]
    simp only [Nat.mul_zero, Nat.add_zero] at hl
    simp only []
    rw [F_bind_ok hl]
    rfl

/-- the tag check at the start of an encoded segment succeeds from any file state -/
theorem verifySegmentStart_enc (file : Bytes) (pos : Nat) (s : SegEnc) (a : List ActiveObj) (rest : Bytes)
    (hfile : file.drop pos = encodeSeg s a ++ rest) (st : FState) :
    ∃ st', verifySegmentStart file (segRec pos s a) st = .ok ((), st') := by
  have hsplit := encodeSeg_split s a
  have htag : file.drop (⟨pos, st.trace⟩ : FState).pos = tagData ++ (encLE 4 (tocMask s) ++ enc s.endian 4 s.version ++
      enc s.endian 8 (if s.lengthUnknown then 2 ^ 64 - 1 else (segMeta s).length + (encRaw s a).length) ++
      enc s.endian 8 (segMeta s).length ++ (segMeta s ++ encRaw s a) ++ rest) := by
    show file.drop pos = _
    rw [hfile, hsplit]; simp [encLeadIn]
  have hread : fRead file 4 ⟨pos, st.trace⟩ = .ok (tagData, ⟨pos + 4, st.trace ++ [(pos, 4)]⟩) :=
    fRead_of_drop htag
  unfold verifySegmentStart
  have hseek : fSeek (segRec pos s a).position st = .ok ((), ⟨pos, st.trace⟩) := rfl
  rw [F_bind_ok hseek, F_bind_ok hread]
  refine ⟨⟨pos + 4, st.trace ++ [(pos, 4)]⟩, ?_⟩
  simp [F_pure]

end Tdms.Proofs.C04Whole
