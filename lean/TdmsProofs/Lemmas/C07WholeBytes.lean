/-
  C07 whole: the bytes of the spec encoding of a written segment are the bytes the writer model emits.
  Core Lean only.
-/
import TdmsProofs.Lemmas.C07WholeDefs

namespace Tdms.Proofs.C07Whole

open Tdms Tdms.Generated Tdms.Model Tdms.Model.Writer Tdms.Proofs.C08

/-! ## metadata -/

theorem encString_little (s : Bytes) : encString .little s = encStringLE s := rfl

theorem encProp_toPropEnc (p : WProp) : encProp .little (toPropEnc p) = encWProp p := by
  unfold encProp encWProp toPropEnc encPropValue
  cases toTdmsValue p.val with
  | mk ty v =>
    simp only [encString_little, enc, storeValue]

theorem encProps_toPropEnc (ps : List WProp) :
    (ps.map toPropEnc).flatMap (encProp .little) = ps.flatMap encWProp := by
  induction ps with
  | nil => rfl
  | cons p ps ih => simp only [List.map_cons, List.flatMap_cons, ih, encProp_toPropEnc]

theorem encIdx_idxOfW (o : WObj) : encIdx .little (idxOfW o) = rawDataIndex o := by
  cases o with
  | root ps => exact noData_bytes.symm
  | group g ps => exact noData_bytes.symm
  | channel g c d ps =>
    unfold idxOfW dataOf rawDataIndex
    by_cases hv : d.ty = tyVoid
    · simp only [if_pos hv]; exact noData_bytes.symm
    · simp only [if_neg hv, encIdx, enc]
      by_cases hs : d.ty = tyString
      · simp only [if_pos hs, List.append_assoc]
      · simp only [if_neg hs, List.append_assoc]

theorem encObj_toObjEnc (o : WObj) : encObj .little (toObjEnc o) = encObjMeta o := by
  unfold encObj encObjMeta toObjEnc
  simp only [encString_little, encIdx_idxOfW, encProps_toPropEnc, List.length_map, enc]

theorem encMeta_toObjEnc (objs : List WObj) : encMeta .little (objs.map toObjEnc) = metadata objs := by
  unfold encMeta metadata
  simp only [List.length_map, enc]
  congr 1
  induction objs with
  | nil => rfl
  | cons o os ih => simp only [List.map_cons, List.flatMap_cons, ih, encObj_toObjEnc]

/-! ## raw data -/

theorem cumOffsets_eq (acc : Nat) (vals : List Bytes) : cumOffsets acc vals = cumOffsetsW acc vals := by
  induction vals generalizing acc with
  | nil => rfl
  | cons v vs ih => simp only [cumOffsets, cumOffsetsW, ih]

theorem flatMap_storeValue_little (ty : Nat) (vals : List Bytes) :
    vals.flatMap (storeValue .little ty) = vals.flatten := by
  induction vals with
  | nil => rfl
  | cons v vs ih => simp only [List.flatMap_cons, List.flatten_cons, ih, storeValue]

/-- the values of one channel, laid out by the spec = `write_data` of the channel object -/
theorem encObjValues_channel (g c : Bytes) (d : WData) (ps : List WProp) :
    encObjValues .little d.ty d.vals = objData (.channel g c d ps) := by
  unfold encObjValues objData
  by_cases hs : d.ty = tyString
  · simp only [if_pos hs, cumOffsets_eq]; rfl
  · simp only [if_neg hs, flatMap_storeValue_little]

/-- an active list that lists the written objects, with a standard index exactly on the objects that
    carry one -/
def ActFor (o : WObj) (a : ActiveObj) : Prop :=
  a.path = o.path ∧
  match dataOf o with
  | some d => a.hasData = true ∧ a.idx = some (.std d.ty d.vals.length (objectDataSize d))
  | none => a.hasData = false

def ActsFor : List WObj → List ActiveObj → Prop
  | [], [] => True
  | o :: os, a :: as => ActFor o a ∧ ActsFor os as
  | _, _ => False

theorem dataOf_some_channel {o : WObj} {d : WData} (h : dataOf o = some d) :
    ∃ g c ps, o = .channel g c d ps ∧ d.ty ≠ tyVoid := by
  cases o with
  | root ps => cases h
  | group g ps => cases h
  | channel g c d' ps =>
    simp only [dataOf] at h
    by_cases hv : d'.ty = tyVoid
    · rw [if_pos hv] at h; cases h
    · rw [if_neg hv] at h; cases h; exact ⟨g, c, ps, rfl, hv⟩

theorem objData_of_dataOf_none {o : WObj} (h : dataOf o = none) (hw : WritableObj o) : objData o = [] := by
  cases o with
  | root ps => rfl
  | group g ps => rfl
  | channel g c d ps =>
    simp only [dataOf] at h
    by_cases hv : d.ty = tyVoid
    · have hd : WritableData d := hw.2.2.2
      unfold WritableData at hd
      rw [if_pos hv] at hd
      have hns : d.ty ≠ tyString := by rw [hv]; decide
      simp [objData, hns, hd]
    · rw [if_neg hv] at h; cases h

theorem dataObjs_cons (a : ActiveObj) (as : List ActiveObj) :
    dataObjs (a :: as) = if a.hasData then a :: dataObjs as else dataObjs as := by
  unfold dataObjs
  rw [List.filter_cons]

theorem chunkOf_cons (o : WObj) (os : List WObj) :
    chunkOf (o :: os) = match dataOf o with
      | some d => d.vals :: chunkOf os
      | none => chunkOf os := by
  unfold chunkOf
  rw [List.filterMap_cons]
  cases dataOf o <;> rfl

/-- the one chunk of a written segment, laid out by the spec = `write_data` over the objects -/
theorem encChunkContiguous_written : ∀ (objs : List WObj) (act : List ActiveObj),
    ActsFor objs act → (∀ o ∈ objs, WritableObj o) →
    encChunkContiguous .little (dataObjs act) (chunkOf objs) = objs.flatMap objData := by
  intro objs
  induction objs with
  | nil => intro act h _; cases act with
    | nil => rfl
    | cons a as => exact h.elim
  | cons o os ih =>
    intro act h hw
    cases act with
    | nil => exact h.elim
    | cons a as =>
      obtain ⟨hoa, hrest⟩ := h
      have ih' := ih as hrest (fun q hq => hw q (List.mem_cons_of_mem _ hq))
      rw [dataObjs_cons, chunkOf_cons, List.flatMap_cons]
      obtain ⟨_, hm⟩ := hoa
      cases hd : dataOf o with
      | none =>
        rw [hd] at hm
        simp only at hm
        simp only [hm, Bool.false_eq_true, if_false]
        rw [ih', objData_of_dataOf_none hd (hw o List.mem_cons_self)]
        rfl
      | some d =>
        rw [hd] at hm
        simp only at hm
        obtain ⟨g, c, ps, rfl, _⟩ := dataOf_some_channel hd
        simp only [hm.1, if_true, encChunkContiguous, hm.2, Option.map_some, IdxDesc.ty, Option.getD_some]
        rw [ih', encObjValues_channel g c d ps]

theorem not_daq_of_actFor : ∀ (objs : List WObj) (act : List ActiveObj), ActsFor objs act →
    (dataObjs act).any isDaqmxObj = false := by
  intro objs
  induction objs with
  | nil => intro act h; cases act with
    | nil => rfl
    | cons a as => exact h.elim
  | cons o os ih =>
    intro act h
    cases act with
    | nil => exact h.elim
    | cons a as =>
      obtain ⟨hoa, hrest⟩ := h
      rw [dataObjs_cons]
      obtain ⟨_, hm⟩ := hoa
      cases hd : dataOf o with
      | none =>
        rw [hd] at hm
        simp only at hm
        simp only [hm, Bool.false_eq_true, if_false]
        exact ih as hrest
      | some d =>
        rw [hd] at hm
        simp only at hm
        simp only [hm.1, if_true, List.any_cons, ih as hrest, Bool.or_false]
        simp [isDaqmxObj, hm.2]

/-! ## the whole segment -/

theorem tocMask_segOfW (v : Nat) (objs : List WObj) : tocMask (segOfW v objs) = tocWritten := by
  simp [tocMask, segOfW, tocWritten]
  omega

theorem segMeta_segOfW (v : Nat) (objs : List WObj) : segMeta (segOfW v objs) = metadata objs := by
  simp [segMeta, segOfW, SegEnc.endian, encMeta_toObjEnc]

theorem encRaw_segOfW (v : Nat) (objs : List WObj) (act : List ActiveObj)
    (hact : ActsFor objs act) (hw : ∀ o ∈ objs, WritableObj o) :
    encRaw (segOfW v objs) act = objs.flatMap objData := by
  have hlen := flatMap_objData_length hw
  unfold encRaw
  by_cases h0 : dataSize objs = 0
  · have : (segOfW v objs).chunks = [] := by simp [segOfW, h0]
    rw [this]
    rw [h0] at hlen
    exact (List.eq_nil_of_length_eq_zero hlen).symm
  · have : (segOfW v objs).chunks = [chunkOf objs] := by simp [segOfW, h0]
    rw [this]
    simp only [List.flatMap_cons, List.flatMap_nil, List.append_nil]
    unfold encChunk
    simp only [not_daq_of_actFor objs act hact, Bool.false_eq_true, if_false]
    have hi : (segOfW v objs).interleaved = false := rfl
    have he : (segOfW v objs).endian = .little := rfl
    simp only [hi, Bool.false_eq_true, if_false, he]
    exact encChunkContiguous_written objs act hact hw

/-- **one segment**: the spec encoding of the written segment is, byte for byte, `TdmsSegment.write` -/
theorem encodeSeg_segOfW (v : Nat) (objs : List WObj) (act : List ActiveObj)
    (hact : ActsFor objs act) (hw : ∀ o ∈ objs, WritableObj o) :
    encodeSeg (segOfW v objs) act = writeSegment false v objs := by
  unfold encodeSeg
  simp only [segMeta_segOfW, encRaw_segOfW v objs act hact hw, flatMap_objData_length hw]
  rw [writeSegment_data]
  unfold encLeadIn leadin
  have he : (segOfW v objs).endian = .little := rfl
  have hl : (segOfW v objs).lengthUnknown = false := rfl
  have hv : (segOfW v objs).version = v := rfl
  simp only [tocMask_segOfW, he, hl, hv, enc, Bool.false_eq_true, if_false, List.append_assoc]

end Tdms.Proofs.C07Whole
