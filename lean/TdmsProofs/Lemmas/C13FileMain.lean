/-
  C13 / C14 at file level: composition with C01Multi (`read_encode_multi`, `read_metadata_multi`,
  `denote_multi_values`) and C04Whole (`lazy_window_eq_denote_slice`).
-/
import TdmsProofs.Lemmas.C13FileLemmas

namespace Tdms.Proofs.C13File

open Tdms Tdms.Generated Tdms.Model Tdms.Model.Scaling Tdms.Proofs.C13 Tdms.Proofs.C14 Tdms.Proofs.C01Multi
open Tdms.Proofs.C01Compose (content contentOfDenote ObjView valuesIn)
open Tdms.Proofs.Bytes (canonProp)

/-! ## everything the earlier theorems say about one encoded file, in one place -/

/-- the facts about `encodeFile e` the scaling theorems need -/
structure FileFacts (e : FileEnc) (bytes : Bytes) (f : OpenFile) (r : EagerResult) (c : Content) : Prop where
  opened : openFile bytes = .ok f
  read : readFile bytes = .ok r
  meaning : denote e = .ok c
  same : content r = contentOfDenote c
  nodup : (c.map (·.path)).Nodup
  objsLazy : f.objects = r.state.objects
  objs : r.state.objects = c.map objMetaOfContent
  window : ∀ oc ∈ c, oc.ty.isSome = true → ∀ (offset : Int) (length : Option Int), 0 ≤ offset →
    (∀ l, length = some l → 0 ≤ l) → ∀ st : FState,
      ∃ st' out, (channelReadData f oc.path offset length).run st = .ok (some out, st') ∧
        out.data.getD [] = C04.takeOpt length (oc.values.drop offset.toNat)

theorem fileFacts (e : FileEnc) (h : MultiStd e) (fit : FileFits e) (hch : onlyChannelsHaveDataM e)
    (bytes : Bytes) (hb : encodeFile e = .ok bytes) (hlen : bytes.length < 2 ^ 63) :
    ∃ f r c, FileFacts e bytes f r c := by
  obtain ⟨r, c, hr, hc, hcont⟩ := read_encode_multi e h fit hch bytes hb hlen
  obtain ⟨f, c', hf, hc', hwin⟩ := C04Whole.lazy_window_eq_denote_slice e h fit bytes hb hlen
  rw [hc] at hc'; cases hc'
  obtain ⟨_, c', _, hc', hnd, _⟩ := denote_multi_values e h fit
  rw [hc] at hc'; cases hc'
  obtain ⟨st, _, c', hst, _, hc', _, hobjs, _⟩ := read_metadata_multi e h fit bytes hb hlen
  rw [hc] at hc'; cases hc'
  have hrs := readFile_state hr
  rw [hst] at hrs; cases hrs
  exact ⟨f, r, c, hf, hr, hc, hcont, hnd, openFile_objects hf hst, hobjs, hwin⟩

/-! ## `scaledIn` / `kindIn` on the content of `denote` -/

theorem find_view_denote {c : Content} (hnd : (c.map (·.path)).Nodup) {oc : ObjContent} (hoc : oc ∈ c) :
    (contentOfDenote c).find? (·.path = oc.path) = some ⟨oc.path, oc.ty, oc.props.map canonProp, oc.values⟩ := by
  rw [find_contentOfDenote, find_of_mem_nodup hnd hoc]
  rfl

theorem rawValues_denote {r : EagerResult} {c : Content} (hsame : content r = contentOfDenote c)
    (hnd : (c.map (·.path)).Nodup) {oc : ObjContent} (hoc : oc ∈ c) : rawValues r oc.path = oc.values := by
  unfold rawValues
  rw [hsame, find_view_denote hnd hoc]
  rfl

theorem numericTy_kind {ty : Nat} (h : numericTy ty = true) : ∃ rk, kindOf ty = some rk ∧ rk ∈ numericKinds := by
  unfold numericTy at h
  cases hk : kindOf ty with
  | none => rw [hk] at h; cases h
  | some rk => rw [hk] at h; exact ⟨rk, rfl, of_decide_eq_true h⟩

section
variable {R : Type} (D : Dec R) [NatCast R] [LT R] [DecidableRel (α := R) (· < ·)]

theorem scalingIn_denote (c : Content) (p g ch : Bytes) (hp : channelParts p = some (g, ch)) :
    scalingIn D (contentOfDenote c) p = some (specScaling D c p g) := by
  unfold scalingIn specScaling
  rw [hp]
  simp only [Option.map_some, propsIn_contentOfDenote, lookup_order]

theorem kindIn_denote (k : List (Scaling R) → String → List (Nat × String) → Nat → Nat → Option String)
    (c : Content) (hnd : (c.map (·.path)).Nodup) (oc : ObjContent) (hoc : oc ∈ c)
    (ty : Nat) (hty : oc.ty = some ty) (hnum : numericTy ty = true) (g ch : Bytes)
    (hp : channelParts oc.path = some (g, ch)) :
    kindIn D k (contentOfDenote c) oc.path =
      match specScaling D c oc.path g, kindOf ty with
      | .ok none, rk => rk
      | .ok (some gr), some rk => k gr rk [] (gr.length + 1) (gr.length - 1)
      | _, _ => none := by
  unfold kindIn
  rw [find_view_denote hnd hoc]
  simp only [hty, hnum, if_true, scalingIn_denote D c oc.path g ch hp]
  cases specScaling D c oc.path g with
  | error e => rfl
  | ok sc => cases sc <;> cases kindOf ty <;> rfl

end

section
variable {R : Type} [Add R] [Sub R] [Mul R] [OfNat R 0] (D : Dec R)
variable (interp : List R → List R → R → R) (env : Nat → R → R)
variable [NatCast R] [LT R] [DecidableRel (α := R) (· < ·)]

theorem scaledIn_denote (c : Content) (hnd : (c.map (·.path)).Nodup) (oc : ObjContent) (hoc : oc ∈ c)
    (ty : Nat) (hty : oc.ty = some ty) (hnum : numericTy ty = true) (g ch : Bytes)
    (hp : channelParts oc.path = some (g, ch)) (vals : List Bytes) :
    scaledIn D interp env (contentOfDenote c) oc.path vals =
      match specScaling D c oc.path g with
      | .ok sc => some (scaleValues D interp env sc ty vals)
      | .error _ => none := by
  unfold scaledIn
  rw [find_view_denote hnd hoc]
  simp only [hty, hnum, if_true, scalingIn_denote D c oc.path g ch hp]
  cases specScaling D c oc.path g <;> rfl

/-- objects that are not numeric channels have no scaled data in the model -/
theorem scaledIn_denote_none (c : Content) (hnd : (c.map (·.path)).Nodup) (oc : ObjContent) (hoc : oc ∈ c)
    (h : oc.ty = none ∨ (∃ ty, oc.ty = some ty ∧ numericTy ty = false) ∨ channelParts oc.path = none)
    (vals : List Bytes) : scaledIn D interp env (contentOfDenote c) oc.path vals = none := by
  unfold scaledIn
  rw [find_view_denote hnd hoc]
  rcases h with h | ⟨ty, h, hn⟩ | h
  · simp only [h]
  · simp only [h, hn]; rfl
  · cases hty : oc.ty with
    | none => rfl
    | some ty =>
      simp only [scalingIn, h, Option.map_none]
      split <;> rfl

/-- the scaled eager data of a numeric channel of an encoded file, in terms of what the file encodes -/
theorem scaledChannel_of_facts {e : FileEnc} {bytes : Bytes} {f : OpenFile} {r : EagerResult} {c : Content}
    (hf : FileFacts e bytes f r c) (oc : ObjContent) (hoc : oc ∈ c) (ty : Nat) (hty : oc.ty = some ty)
    (hnum : numericTy ty = true) (g ch : Bytes) (hp : channelParts oc.path = some (g, ch)) :
    scaledChannel D interp env r oc.path =
      match specScaling D c oc.path g with
      | .ok sc => some (scaleValues D interp env sc ty oc.values)
      | .error _ => none := by
  unfold scaledChannel
  rw [rawValues_denote hf.same hf.nodup hoc, hf.same]
  exact scaledIn_denote D interp env c hf.nodup oc hoc ty hty hnum g ch hp oc.values

end

/-! ## the lazy window, scaled -/

section
variable {R : Type} [Add R] [Sub R] [Mul R] [OfNat R 0] (D : Dec R)
variable (interp : List R → List R → R → R) (env : Nat → R → R)
variable [NatCast R] [LT R] [DecidableRel (α := R) (· < ·)]

/-- the scaled data of the open file and of the eager result are the same function of the raw values -/
theorem scaledIn_metaView (f : OpenFile) (r : EagerResult) (h : f.objects = r.state.objects) (p : Bytes)
    (vals : List Bytes) :
    scaledIn D interp env (metaView f) p vals = scaledIn D interp env (content r) p vals := by
  rw [scaledIn_eq_pure, scaledIn_eq_pure, (meta_same D f r h p).1, (meta_same D f r h p).2,
    (meta_same D f r h (groupOf p)).2, (meta_same D f r h rootPath).2]

theorem scaledReadData_run (f : OpenFile) (p : Bytes) (offset : Int) (length : Option Int) (st st' : FState)
    (out : Option ReadOut) (h : (channelReadData f p offset length).run st = .ok (out, st')) :
    (scaledReadData D interp env f p offset length).run st =
      .ok (out.bind fun ro => scaledIn D interp env (metaView f) p (ro.data.getD []), st') := by
  unfold scaledReadData
  simp only [StateT.run, bind, StateT.bind] at h ⊢
  rw [h]
  rfl

theorem scaled_window_of_facts {e : FileEnc} {bytes : Bytes} {f : OpenFile} {r : EagerResult} {c : Content}
    (hf : FileFacts e bytes f r c) (oc : ObjContent) (hoc : oc ∈ c) (hty : oc.ty.isSome = true)
    (offset : Int) (length : Option Int) (h0 : 0 ≤ offset) (hl : ∀ l, length = some l → 0 ≤ l) (st : FState) :
    ∃ st', (scaledReadData D interp env f oc.path offset length).run st =
      .ok ((scaledChannel D interp env r oc.path).map fun xs => takeOptG length (xs.drop offset.toNat), st') := by
  obtain ⟨st', out, hrun, hout⟩ := hf.window oc hoc hty offset length h0 hl st
  refine ⟨st', ?_⟩
  rw [scaledReadData_run D interp env f oc.path offset length st st' (some out) hrun]
  simp only [Option.bind_some]
  rw [hout, scaledIn_metaView D interp env f r hf.objsLazy, takeOpt_eq_G]
  unfold scaledChannel
  rw [rawValues_denote hf.same hf.nodup hoc, scaledIn_eq_pure, scaledIn_eq_pure, scaledPure_window]

end

/-! ## the number of values -/

theorem find_objMeta (c : Content) (p : Bytes) :
    ObjMetas.get (c.map objMetaOfContent) p = (c.find? (·.path = p)).map objMetaOfContent := by
  unfold ObjMetas.get
  induction c with
  | nil => rfl
  | cons a c ih =>
    simp only [List.map_cons, List.find?_cons]
    have : (objMetaOfContent a).path = a.path := rfl
    rw [this]
    by_cases hp : a.path = p
    · simp [hp]
    · simp [hp, ih]

theorem numValuesOf_facts {e : FileEnc} {bytes : Bytes} {f : OpenFile} {r : EagerResult} {c : Content}
    (hf : FileFacts e bytes f r c) (oc : ObjContent) (hoc : oc ∈ c) :
    numValuesOf r oc.path = oc.values.length := by
  unfold numValuesOf
  rw [hf.objs, find_objMeta, find_of_mem_nodup hf.nodup hoc]
  rfl

end Tdms.Proofs.C13File
