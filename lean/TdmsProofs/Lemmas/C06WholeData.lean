/-
  C06, whole-file truncation theorem for one-segment files: `readRawDataAll` on the file cut after `k` bytes.
  Core Lean only.
-/
import TdmsProofs.Lemmas.C06WholeMeta

namespace Tdms.Proofs.C06Whole

open Tdms Tdms.Generated Tdms.Model Tdms.Proofs.Bytes Tdms.Proofs.C01Compose
open Tdms.Proofs.C06 (objSz totalBytes)

/-! ## a chunk read depends on the segment only through the byte order and the value counts -/

theorem readContiguousChunk_congr (file : Bytes) (s s' : Segment) (i i' : Nat) (he : s.endian = s'.endian) :
    ∀ (os : List SegObj) (acc : RawChunk),
      (∀ o ∈ os, channelNumberValues s o i = channelNumberValues s' o i') →
      readContiguousChunk file s i os acc = readContiguousChunk file s' i' os acc := by
  intro os
  induction os with
  | nil => intro acc _; rfl
  | cons o os ih =>
    intro acc h
    unfold readContiguousChunk
    rw [he, h o List.mem_cons_self]
    congr 1
    funext vals
    exact ih _ (fun q hq => h q (List.mem_cons_of_mem _ hq))

theorem channelNumberValues_none (seg : Segment) (o : SegObj) (j : Nat) (h : seg.override = none) :
    channelNumberValues seg o j = o.numberValues := by
  unfold channelNumberValues; rw [h]

theorem channelNumberValues_not_last (seg : Segment) (o : SegObj) (j : Nat) (h : j + 1 ≠ seg.numChunks) :
    channelNumberValues seg o j = o.numberValues := by
  unfold channelNumberValues
  cases seg.override <;> simp [h]

theorem channelNumberValues_last (seg : Segment) (o : SegObj) (j : Nat) (ov : List (Bytes × Nat))
    (h1 : seg.override = some ov) (h2 : j + 1 = seg.numChunks) :
    channelNumberValues seg o j = overrideGet ov o.path := by
  unfold channelNumberValues
  rw [h1]
  simp [h2]

/-- one complete chunk, whatever the override of the segment, as long as it does not apply to this chunk -/
theorem readContiguousChunk_complete (file : Bytes) (seg : Segment) (ci : Nat) (objs : List SegObj)
    (aobjs : List ActiveObj) (vals : List (List Bytes)) (acc : RawChunk) (pos : Nat) (tr : List (Nat × Nat))
    (rest : Bytes) (hnv : ∀ o, channelNumberValues seg o ci = o.numberValues)
    (h : contOK objs aobjs vals)
    (hfile : file.drop pos = encChunkContiguous seg.endian aobjs vals ++ rest) :
    ∃ tr', (readContiguousChunk file seg ci objs acc).run ⟨pos, tr⟩ =
      .ok (setCols acc objs vals, ⟨pos + (encChunkContiguous seg.endian aobjs vals).length, tr'⟩) := by
  have hc := readContiguousChunk_congr file seg { seg with override := none } ci ci rfl objs acc
    (fun o _ => by rw [hnv o, channelNumberValues_none _ _ _ rfl])
  rw [hc]
  exact Tdms.Proofs.C01.readContiguousChunk_encChunkContiguous file { seg with override := none } ci rfl
    objs aobjs vals acc pos tr rest h hfile

/-- `q` complete chunks, then whatever the reader does with the remaining `m` chunks -/
theorem readChunksSeq_then (file : Bytes) (seg : Segment) (ds : List ObjEnc) (m : Nat) (cs : List RawChunk) :
    ∀ (chs : List (List (List Bytes))) (i pos : Nat) (tr : List (Nat × Nat)) (rest : Bytes),
      (∀ ch ∈ chs, contOK (ds.map segObjOf) (ds.map actOf) ch) →
      (∀ j, i ≤ j → j < i + chs.length → ∀ o, channelNumberValues seg o j = o.numberValues) →
      file.drop pos = chs.flatMap (encChunkContiguous seg.endian (ds.map actOf)) ++ rest →
      (∀ tr1, ∃ st', (readChunksSeq file seg .contiguous (ds.map segObjOf) (i + chs.length) m).run
          ⟨pos + (chs.flatMap (encChunkContiguous seg.endian (ds.map actOf))).length, tr1⟩ = .ok (cs, st')) →
      ∃ st', (readChunksSeq file seg .contiguous (ds.map segObjOf) i (chs.length + m)).run ⟨pos, tr⟩ =
        .ok (chs.map (setCols [] (ds.map segObjOf)) ++ cs, st') := by
  intro chs
  induction chs with
  | nil =>
    intro i pos tr rest _ _ _ htail
    obtain ⟨st', h⟩ := htail tr
    refine ⟨st', ?_⟩
    simpa using h
  | cons ch chs ih =>
    intro i pos tr rest hok hnv hfile htail
    simp only [List.flatMap_cons, List.append_assoc] at hfile
    obtain ⟨tr1, h1⟩ := readContiguousChunk_complete file seg i (ds.map segObjOf) (ds.map actOf) ch [] pos tr _
      (hnv i (Nat.le_refl _) (by simp)) (hok ch List.mem_cons_self) hfile
    obtain ⟨st2, h2⟩ := ih (i + 1) (pos + (encChunkContiguous seg.endian (ds.map actOf) ch).length) tr1 rest
      (fun c hc => hok c (List.mem_cons_of_mem _ hc))
      (fun j hj1 hj2 => hnv j (by omega) (by simp only [List.length_cons]; omega))
      (drop_add_of_drop_eq hfile)
      (by
        intro tr2
        obtain ⟨st', h⟩ := htail tr2
        refine ⟨st', ?_⟩
        simp only [List.flatMap_cons, List.length_append, List.length_cons] at h
        have e1 : i + 1 + chs.length = i + (chs.length + 1) := by omega
        rw [e1, Nat.add_assoc]
        exact h)
    refine ⟨st2, ?_⟩
    have hlen : (ch :: chs).length + m = (chs.length + m) + 1 := by simp only [List.length_cons]; omega
    rw [hlen]
    show readChunksSeq file seg .contiguous (ds.map segObjOf) i (chs.length + m + 1) ⟨pos, tr⟩ = _
    unfold readChunksSeq
    simp only
    have h1' : readContiguousChunk file seg i (ds.map segObjOf) [] ⟨pos, tr⟩ = _ := h1
    have h2' : readChunksSeq file seg .contiguous (ds.map segObjOf) (i + 1) (chs.length + m)
      ⟨pos + (encChunkContiguous seg.endian (ds.map actOf) ch).length, tr1⟩ = _ := h2
    rw [F_bind_ok h1', F_bind_ok h2']
    simp only [F_pure, List.map_cons, List.cons_append]

/-! ## the truncated chunk: fixed-width objects -/

/-- the first `m` values of a run of fixed-width values are its first `m * sz` bytes -/
theorem encObjValues_fixed_take (e : Endian) {ty sz : Nat} (hsz : typeSize ty = some sz) :
    ∀ (v : List Bytes) (m : Nat), (∀ x ∈ v, x.length = sz) →
      encObjValues e ty (v.take m) = (encObjValues e ty v).take (m * sz) := by
  intro v
  induction v with
  | nil => intro m _; simp [encObjValues_fixed e hsz]
  | cons x xs ih =>
    intro m hall
    cases m with
    | zero => simp [encObjValues_fixed e hsz]
    | succ m =>
      have hx : (storeValue e ty x).length = sz := storeValue_length e hsz x (hall x List.mem_cons_self)
      have ih' := ih m (fun y hy => hall y (List.mem_cons_of_mem _ hy))
      rw [encObjValues_fixed e hsz] at ih' ⊢
      rw [encObjValues_fixed e hsz] at ih'
      rw [encObjValues_fixed e hsz]
      simp only [List.take_succ_cons, List.map_cons, List.flatten_cons]
      have h1 : (storeValue e ty x).take ((m + 1) * sz) = storeValue e ty x :=
        List.take_of_length_le (by rw [hx, Nat.succ_mul]; omega)
      have h2 : (m + 1) * sz - sz = m * sz := by rw [Nat.succ_mul]; omega
      rw [ih', List.take_append, hx, h1, h2]

/-- value counts that are the contiguous fit of `rem` bytes: `min n ⌊rem / sz⌋` for the first object, the fit
    of what is left for the others -/
def FitOK (lens : Bytes → Nat) : List SegObj → Nat → Prop
  | [], _ => True
  | o :: os, rem => lens o.path = min o.numberValues (rem / objSz o) ∧ FitOK lens os (rem - o.numberValues * objSz o)

/-- **the truncated chunk of fixed-width objects**: when the first `rem` bytes at the file position are the first
    `rem` bytes of the encoded chunk and the value counts are the contiguous fit of `rem` bytes, every object gets
    the prefix of its values of that length -/
theorem readContiguousChunk_fit (file : Bytes) (seg : Segment) (ci : Nat) (lens : Bytes → Nat) :
    ∀ (objs : List SegObj) (aobjs : List ActiveObj) (vals : List (List Bytes)) (acc : RawChunk) (pos : Nat)
      (tr : List (Nat × Nat)) (rem : Nat) (rest : Bytes),
      contOK objs aobjs vals → (∀ a ∈ aobjs, aTy a ≠ tyString) →
      (∀ o ∈ objs, channelNumberValues seg o ci = lens o.path) →
      FitOK lens objs rem →
      (file.drop pos).take rem = (encChunkContiguous seg.endian aobjs vals ++ rest).take rem →
      ∃ st', (readContiguousChunk file seg ci objs acc).run ⟨pos, tr⟩ =
        .ok (setCols acc objs (List.zipWith (fun o v => v.take (lens o.path)) objs vals), st') := by
  intro objs
  induction objs with
  | nil =>
    intro aobjs vals acc pos tr rem rest h _ _ _ _
    exact ⟨⟨pos, tr⟩, rfl⟩
  | cons o os ih =>
    intro aobjs vals acc pos tr rem rest h hns hcn hfit hfile
    cases aobjs with
    | nil => cases vals <;> simp [contOK] at h
    | cons a as =>
      cases vals with
      | nil => simp [contOK] at h
      | cons v vs =>
        obtain ⟨⟨hty, hnv, hkind⟩, hrest⟩ := h
        obtain ⟨hl, hfit'⟩ := hfit
        rcases hkind with ⟨sz, hsz, hall⟩ | ⟨hstr, _⟩
        · have hpos : 0 < sz := typeSize_pos hsz
          have hosz : objSz o = sz := by simp [objSz, hty, hsz]
          rw [hosz, hnv] at hl hfit'
          have hm1 : lens o.path ≤ v.length := by rw [hl]; exact Nat.min_le_left _ _
          have hm2 : lens o.path * sz ≤ rem := by
            calc lens o.path * sz ≤ (rem / sz) * sz := Nat.mul_le_mul_right _ (by rw [hl]; exact Nat.min_le_right _ _)
              _ ≤ rem := Nat.div_mul_le_self _ _
          have hel : (encObjValues seg.endian (aTy a) v).length = v.length * sz :=
            encObjValues_fixed_length seg.endian hsz v hall
          have htl : (v.take (lens o.path)).length = lens o.path := by
            rw [List.length_take]; omega
          rw [encChunkContiguous_cons, List.append_assoc] at hfile
          have hf1 : (file.drop pos).take ((v.take (lens o.path)).length * sz) =
              encObjValues seg.endian (aTy a) (v.take (lens o.path)) := by
            rw [htl, encObjValues_fixed_take seg.endian hsz v _ hall]
            have : (file.drop pos).take (lens o.path * sz) = ((file.drop pos).take rem).take (lens o.path * sz) := by
              rw [List.take_take, Nat.min_eq_left hm2]
            rw [this, hfile, List.take_take, Nat.min_eq_left hm2,
              List.take_append_of_le_length (by rw [hel]; exact Nat.mul_le_mul_right _ hm1)]
          have hstep := readValues_fixed file seg.endian o (v.take (lens o.path)) pos tr hty hsz
            (fun x hx => hall x (List.mem_of_mem_take hx)) hf1
          rw [htl] at hstep
          have hstep' : readValues file seg.endian o (lens o.path) ⟨pos, tr⟩ = _ := hstep
          have hfile2 : (file.drop (pos + lens o.path * sz)).take (rem - v.length * sz) =
              (encChunkContiguous seg.endian as vs ++ rest).take (rem - v.length * sz) := by
            by_cases h0 : rem - v.length * sz = 0
            · rw [h0]; simp
            · have hgt : v.length * sz < rem := by omega
              have hle : v.length ≤ rem / sz := by
                rw [Nat.le_div_iff_mul_le hpos]; omega
              have hfull : lens o.path = v.length := by rw [hl]; omega
              rw [hfull, ← List.drop_drop, ← List.drop_take, hfile, List.drop_take, List.drop_left' hel]
          obtain ⟨st', h2⟩ := ih as vs (dictSet acc o.path { data := some (v.take (lens o.path)) })
            (pos + lens o.path * sz) (tr ++ [(pos, lens o.path * sz)]) (rem - v.length * sz) rest hrest
            (fun b hb => hns b (List.mem_cons_of_mem _ hb)) (fun q hq => hcn q (List.mem_cons_of_mem _ hq))
            hfit' hfile2
          refine ⟨st', ?_⟩
          show readContiguousChunk file seg ci (o :: os) acc ⟨pos, tr⟩ = _
          unfold readContiguousChunk
          rw [hcn o List.mem_cons_self, F_bind_ok hstep']
          rw [show readContiguousChunk file seg ci os (dictSet acc o.path { data := some (v.take (lens o.path)) })
              ⟨pos + lens o.path * sz, tr ++ [(pos, lens o.path * sz)]⟩ = _ from h2]
          simp only [List.zipWith_cons_cons, setCols]
        · exact absurd hstr (hns a List.mem_cons_self)

/-! ## the truncated chunk when no value of it is read (a string channel is present) -/

theorem readContiguousChunk_zero (file : Bytes) (seg : Segment) (ci : Nat) (lens : Bytes → Nat) :
    ∀ (objs : List SegObj) (aobjs : List ActiveObj) (vals : List (List Bytes)) (acc : RawChunk) (pos : Nat)
      (tr : List (Nat × Nat)),
      contOK objs aobjs vals →
      (∀ o ∈ objs, channelNumberValues seg o ci = lens o.path) → (∀ o ∈ objs, lens o.path = 0) →
      ∃ st', (readContiguousChunk file seg ci objs acc).run ⟨pos, tr⟩ =
        .ok (setCols acc objs (List.zipWith (fun o v => v.take (lens o.path)) objs vals), st') := by
  intro objs
  induction objs with
  | nil =>
    intro aobjs vals acc pos tr h _ _
    exact ⟨⟨pos, tr⟩, rfl⟩
  | cons o os ih =>
    intro aobjs vals acc pos tr h hcn hz
    cases aobjs with
    | nil => cases vals <;> simp [contOK] at h
    | cons a as =>
      cases vals with
      | nil => simp [contOK] at h
      | cons v vs =>
        obtain ⟨⟨hty, hnv, hkind⟩, hrest⟩ := h
        have h0 := hz o List.mem_cons_self
        have hstep : ∃ st1, readValues file seg.endian o 0 ⟨pos, tr⟩ = .ok ([], st1) := by
          rcases hkind with ⟨sz, hsz, hall⟩ | ⟨hstr, _⟩
          · exact ⟨_, readValues_fixed file seg.endian o [] pos tr hty hsz (fun x hx => by simp at hx)
              (by simp [encObjValues_fixed seg.endian hsz])⟩
          · rw [hstr] at hty
            obtain ⟨tr', h⟩ := readValues_string file seg.endian o [] pos tr (file.drop pos) hty (by simp)
              (by simp [encObjValues, cumOffsets])
            exact ⟨_, h⟩
        obtain ⟨⟨p1, t1⟩, hstep⟩ := hstep
        obtain ⟨st', h2⟩ := ih as vs (dictSet acc o.path { data := some [] }) p1 t1 hrest
          (fun q hq => hcn q (List.mem_cons_of_mem _ hq)) (fun q hq => hz q (List.mem_cons_of_mem _ hq))
        refine ⟨st', ?_⟩
        show readContiguousChunk file seg ci (o :: os) acc ⟨pos, tr⟩ = _
        unfold readContiguousChunk
        rw [hcn o List.mem_cons_self, h0, F_bind_ok hstep]
        rw [show readContiguousChunk file seg ci os (dictSet acc o.path { data := some [] }) ⟨p1, t1⟩ = _ from h2]
        simp only [List.zipWith_cons_cons, setCols, h0, List.take_zero]

/-! ## the override is the contiguous fit -/

theorem totalBytes_append_single (pre : List SegObj) (o : SegObj) :
    totalBytes (pre ++ [o]) = totalBytes pre + o.numberValues * objSz o := by
  simp [totalBytes]

theorem fitOK_of_cfl (objs : List SegObj) (r : Nat)
    (hsz : ∀ x ∈ objs.filter (·.hasData), 0 < objSz x)
    (hnd : ((objs.filter (·.hasData)).map (·.path)).Nodup) :
    ∀ (post pre : List SegObj), objs.filter (·.hasData) = pre ++ post →
      FitOK (overrideGet (contiguousFinalLengths objs r)) post (r - totalBytes pre) := by
  intro post
  induction post with
  | nil => intro pre _; trivial
  | cons o post ih =>
    intro pre hsplit
    refine ⟨Tdms.Proofs.C06.contiguous_final_length_of_object objs r pre o post hsplit hsz hnd, ?_⟩
    have := ih (pre ++ [o]) (by rw [hsplit]; simp)
    rw [totalBytes_append_single, Nat.sub_add_eq] at this
    exact this

/-! ## the raw data of the cut file -/

/-- the encoder of one chunk of the segment -/
abbrev encCh (s : SegEnc) : List (List Bytes) → Bytes :=
  encChunkContiguous s.endian ((dataOs s.objs).map actOf)

theorem encCh_length (s : SegEnc) (w : WfSingle s) (ch : List (List Bytes)) (hc : ch ∈ s.chunks) :
    (encCh s ch).length = chunkBytes s.objs :=
  encChunkContiguous_length s.endian (dataOs s.objs) ch (fun d hd => w.objs d (dataOs_sub hd).1) (w.chunks ch hc)

/-- the raw data region of the cut file: the complete chunks, then `cutR` bytes of the rest -/
theorem drop_data_cut (s : SegEnc) (hi : s.interleaved = false) (w : WfSingle s) (k : Nat)
    (hk : dataPosOf s ≤ k) (hkL : k ≤ (encodeSeg s (s.objs.map actOf)).length) :
    ((encodeSeg s (s.objs.map actOf)).take k).drop (dataPosOf s) =
      (s.chunks.take (cutQ s k)).flatMap (encCh s) ++ ((s.chunks.drop (cutQ s k)).flatMap (encCh s)).take (cutR s k) := by
  have hq := cutQ_le s w hi k hk hkL
  have hlenA : ((s.chunks.take (cutQ s k)).flatMap (encCh s)).length = cutQ s k * chunkBytes s.objs := by
    rw [flatMap_length_const _ _ (chunkBytes s.objs) (fun ch hc => encCh_length s w ch (List.mem_of_mem_take hc)),
      List.length_take, Nat.min_eq_left hq]
  rw [take_file_data s k hk, ← List.append_assoc,
    List.drop_left' (by rw [List.length_append, leadIn_length]; rfl), encRaw_std s hi]
  conv => lhs; rw [← List.take_append_drop (cutQ s k) s.chunks, List.flatMap_append]
  have hkk : k - dataPosOf s = ((s.chunks.take (cutQ s k)).flatMap (encCh s)).length + cutR s k := by
    rw [hlenA]; have := cut_div_mod s k hk; omega
  rw [hkk, List.take_length_add_append]

theorem getD_of_lt {α : Type} (l : List α) (i : Nat) (d : α) (h : i < l.length) : l.getD i d = l[i] := by
  simp [List.getD_eq_getElem?_getD, List.getElem?_eq_getElem h]

theorem aTy_actOf (o : ObjEnc) : aTy (actOf o) = (tyOf o).getD 0 := by
  unfold aTy; rw [actOf_ty]

theorem finLen_eq (s : SegEnc) (k : Nat) (hr : cutR s k ≠ 0) :
    finLen s k = overrideGet (ovOf s (cutR s k)) := by
  funext p; simp [finLen, hr]

/-- the truncated chunk -/
theorem readContiguousChunk_last (s : SegEnc) (hstd : ∀ o ∈ s.objs, stdIdx o)
    (w : WfSingle s) (fit : SegFits s) (k : Nat) (seg : Segment) (file rest : Bytes) (pos : Nat)
    (tr : List (Nat × Nat)) (hr : cutR s k ≠ 0) (hq : cutQ s k < s.chunks.length)
    (hend : seg.endian = s.endian) (hov : seg.override = some (ovOf s (cutR s k)))
    (hnum : cutQ s k + 1 = seg.numChunks)
    (hfile : (file.drop pos).take (cutR s k) = (encCh s s.chunks[cutQ s k] ++ rest).take (cutR s k)) :
    ∃ st', (readContiguousChunk file seg (cutQ s k) ((dataOs s.objs).map segObjOf) []).run ⟨pos, tr⟩ =
      .ok (setCols [] ((dataOs s.objs).map segObjOf) (lastChunk s k), st') := by
  have hmem : s.chunks[cutQ s k] ∈ s.chunks := List.getElem_mem hq
  have hok : contOK ((dataOs s.objs).map segObjOf) ((dataOs s.objs).map actOf) s.chunks[cutQ s k] :=
    contOK_std (dataOs s.objs) _ (fun d hd => w.objs d (dataOs_sub hd).1)
      (fun d hd => fit.strData d (dataOs_sub hd).1) (w.chunks _ hmem)
  have hcn : ∀ o ∈ (dataOs s.objs).map segObjOf,
      channelNumberValues seg o (cutQ s k) = finLen s k o.path := by
    intro o _
    rw [channelNumberValues_last seg o (cutQ s k) (ovOf s (cutR s k)) hov hnum, finLen_eq s k hr]
  have hlast : List.zipWith (fun (o : SegObj) v => v.take (finLen s k o.path)) ((dataOs s.objs).map segObjOf)
      s.chunks[cutQ s k] = lastChunk s k := by
    unfold lastChunk
    rw [List.zipWith_map_left, getD_of_lt _ _ _ hq]
    simp only [segObjOf_path]
  rw [← hlast]
  cases hs : hasStr s with
  | true =>
    exact readContiguousChunk_zero file seg (cutQ s k) (finLen s k) _ _ _ [] pos tr hok hcn
      (fun o _ => by simp [finLen, hr, ovOf, hs, Tdms.Proofs.C06.overrideGet_nil])
  | false =>
    have hall := allSized_of_noStr s hstd w hs
    have hfil := filter_hasData_map_segObjOf s.objs hstd
    have hnd : (((s.objs.map segObjOf).filter (·.hasData)).map (·.path)).Nodup := by
      rw [hfil, List.map_map]
      rw [show ((fun x : SegObj => x.path) ∘ segObjOf) = fun o : ObjEnc => o.path from
        funext fun o => segObjOf_path o]
      exact dataOs_nodup s.objs w.nodup
    have hfit := fitOK_of_cfl (s.objs.map segObjOf) (cutR s k) (Tdms.Proofs.C06.allSized_objSz_pos hall) hnd
      ((dataOs s.objs).map segObjOf) [] (by rw [hfil]; rfl)
    have hfl : finLen s k = overrideGet (contiguousFinalLengths (s.objs.map segObjOf) (cutR s k)) := by
      rw [finLen_eq s k hr]; simp [ovOf, hs]
    rw [← hfl] at hfit
    simp only [Tdms.Proofs.C06.totalBytes, List.map_nil, List.sum_nil, Nat.sub_zero] at hfit
    refine readContiguousChunk_fit file seg (cutQ s k) (finLen s k) _ _ _ [] pos tr (cutR s k) rest hok
      ?_ hcn hfit (by rw [hend]; exact hfile)
    intro a ha
    obtain ⟨o, ho, rfl⟩ := List.mem_map.mp ha
    obtain ⟨ty, hty, hcase⟩ := tyOf_cases s w o ho
    rw [aTy_actOf, hty]
    rcases hcase with h | ⟨sz, h⟩
    · exfalso
      unfold hasStr at hs
      rw [List.any_eq_false] at hs
      apply hs o ho
      rw [hty, h]; simp
    · intro e
      simp only [Option.getD_some] at e
      rw [e, typeSize_tyString] at h
      cases h

/-- all chunks of the cut segment: the complete ones, then (when the cut is inside a chunk) the truncated one -/
theorem readChunksSeq_cut (s : SegEnc) (hi : s.interleaved = false) (hstd : ∀ o ∈ s.objs, stdIdx o)
    (w : WfSingle s) (fit : SegFits s) (k : Nat) (hk : dataPosOf s ≤ k)
    (hkL : k ≤ (encodeSeg s (s.objs.map actOf)).length) (tr : List (Nat × Nat)) :
    ∃ st', (readChunksSeq ((encodeSeg s (s.objs.map actOf)).take k)
        (cutSeg s (encodeSeg s (s.objs.map actOf)).length k) .contiguous ((dataOs s.objs).map segObjOf) 0
        (cutSeg s (encodeSeg s (s.objs.map actOf)).length k).numChunks).run ⟨dataPosOf s, tr⟩ =
      .ok ((cutChunks s k).map (setCols [] ((dataOs s.objs).map segObjOf)), st') := by
  have hfile := drop_data_cut s hi w k hk hkL
  have hqle := cutQ_le s w hi k hk hkL
  have hrpos := cutR_pos_imp s w hi k hk hkL
  generalize (encodeSeg s (s.objs.map actOf)).length = L at *
  generalize (encodeSeg s (s.objs.map actOf)).take k = file at *
  have hend : (cutSeg s L k).endian = s.endian := segEndian_of_tocMask s
  have hok : ∀ ch ∈ s.chunks.take (cutQ s k),
      contOK ((dataOs s.objs).map segObjOf) ((dataOs s.objs).map actOf) ch :=
    fun ch hch => contOK_std (dataOs s.objs) ch (fun d hd => w.objs d (dataOs_sub hd).1)
      (fun d hd => fit.strData d (dataOs_sub hd).1) (w.chunks ch (List.mem_of_mem_take hch))
  have hlt : (s.chunks.take (cutQ s k)).length = cutQ s k := by
    rw [List.length_take, Nat.min_eq_left hqle]
  by_cases hr : cutR s k = 0
  · have hnum : (cutSeg s L k).numChunks = (s.chunks.take (cutQ s k)).length + 0 := by
      simp [cutSeg, hr, hlt]
    have hcc : cutChunks s k = s.chunks.take (cutQ s k) := by simp [cutChunks, hr]
    rw [hnum, hcc]
    have := readChunksSeq_then file (cutSeg s L k) (dataOs s.objs) 0 [] (s.chunks.take (cutQ s k)) 0
      (dataPosOf s) tr _ hok
      (fun j _ _ o => channelNumberValues_none _ o j (by simp [cutSeg, hr]))
      (by rw [hend]; exact hfile) (fun tr1 => ⟨_, rfl⟩)
    simpa using this
  · obtain ⟨_, _, _, hq⟩ := hrpos hr
    have hnum : (cutSeg s L k).numChunks = (s.chunks.take (cutQ s k)).length + 1 := by
      simp [cutSeg, hr, hlt]
    have hcc : cutChunks s k = s.chunks.take (cutQ s k) ++ [lastChunk s k] := by simp [cutChunks, hr]
    rw [hnum, hcc, List.map_append]
    refine readChunksSeq_then file (cutSeg s L k) (dataOs s.objs) 1
      [setCols [] ((dataOs s.objs).map segObjOf) (lastChunk s k)] (s.chunks.take (cutQ s k)) 0
      (dataPosOf s) tr _ hok
      (fun j _ hj o => channelNumberValues_not_last _ o j (by rw [hnum]; omega))
      (by rw [hend]; exact hfile) ?_
    intro tr1
    rw [hend, hlt, Nat.zero_add]
    have hd := drop_add_of_drop_eq hfile
    have hdq : s.chunks.drop (cutQ s k) = s.chunks[cutQ s k] :: s.chunks.drop (cutQ s k + 1) :=
      List.drop_eq_getElem_cons hq
    rw [hdq, List.flatMap_cons] at hd
    obtain ⟨st1, h1⟩ := readContiguousChunk_last s hstd w fit k (cutSeg s L k) file _
      (dataPosOf s + ((s.chunks.take (cutQ s k)).flatMap (encCh s)).length) tr1 hr hq hend
      (by simp [cutSeg, hr]) (by simp [cutSeg, hr])
      (by rw [hd, List.take_take, Nat.min_self])
    refine ⟨st1, ?_⟩
    show readChunksSeq file (cutSeg s L k) .contiguous ((dataOs s.objs).map segObjOf) (cutQ s k) (0 + 1) _ = _
    unfold readChunksSeq
    simp only
    have h1' : readContiguousChunk file (cutSeg s L k) (cutQ s k) ((dataOs s.objs).map segObjOf) []
      ⟨dataPosOf s + ((s.chunks.take (cutQ s k)).flatMap (encCh s)).length, tr1⟩ = _ := h1
    rw [F_bind_ok h1']
    simp only [readChunksSeq]
    rw [F_bind_ok (F_pure _ _)]
    rfl

/-- the chunks the reader yields for the cut file -/
def cutRawChunks (s : SegEnc) (k : Nat) : List RawChunk :=
  (if !s.rawFlag then [[]] else []) ++ (cutChunks s k).map (setCols [] ((dataOs s.objs).map segObjOf))

/-- **`readRawDataAll` on the cut file**, from any file state -/
theorem readRawDataAll_cut (s : SegEnc) (hi : s.interleaved = false) (hstd : ∀ o ∈ s.objs, stdIdx o)
    (w : WfSingle s) (fit : SegFits s) (k : Nat) (hk : dataPosOf s ≤ k)
    (hkL : k ≤ (encodeSeg s (s.objs.map actOf)).length) (st : FState) :
    ∃ st', (readRawDataAll ((encodeSeg s (s.objs.map actOf)).take k)
        [cutSeg s (encodeSeg s (s.objs.map actOf)).length k]).run st = .ok (cutRawChunks s k, st') := by
  obtain ⟨st1, hseq⟩ := readChunksSeq_cut s hi hstd w fit k hk hkL (st.trace ++ [(0, 4)])
  have htake := take_file_data s k hk
  generalize (encodeSeg s (s.objs.map actOf)).length = L at *
  generalize (encodeSeg s (s.objs.map actOf)).take k = file at *
  have htag : file.drop (⟨0, st.trace⟩ : FState).pos = tagData ++ (encLE 4 (tocMask s) ++ enc s.endian 4 s.version ++
      enc s.endian 8 (if s.lengthUnknown then 2 ^ 64 - 1 else (segMeta s).length + (encRaw s (s.objs.map actOf)).length) ++
      enc s.endian 8 (segMeta s).length ++
      (segMeta s ++ (encRaw s (s.objs.map actOf)).take (k - dataPosOf s))) := by
    rw [htake]; simp [encLeadIn]
  have hkind : dataReaderKind (cutSeg s L k) = .ok .contiguous :=
    dataReaderKind_std _ s.objs hstd rfl (by
      show hasFlag (tocMask s) kTocInterleavedData = false
      rw [hasFlag_tocMask_interleaved, hi])
  have hverify : verifySegmentStart file (cutSeg s L k) st = .ok ((), ⟨4, st.trace ++ [(0, 4)]⟩) := by
    have hread : fRead file 4 ⟨0, st.trace⟩ = .ok (tagData, ⟨4, st.trace ++ [(0, 4)]⟩) :=
      fRead_of_drop htag
    unfold verifySegmentStart
    have hseek : fSeek (cutSeg s L k).position st = .ok ((), ⟨0, st.trace⟩) := rfl
    rw [F_bind_ok hseek, F_bind_ok hread]
    simp [F_pure]
  have hsegread : segmentReadRawData file (cutSeg s L k) ⟨4, st.trace ++ [(0, 4)]⟩ =
      .ok (cutRawChunks s k, st1) := by
    unfold segmentReadRawData
    have hseek : fSeek (cutSeg s L k).dataPosition ⟨4, st.trace ++ [(0, 4)]⟩ =
        .ok ((), ⟨dataPosOf s, st.trace ++ [(0, 4)]⟩) := rfl
    have hlift : liftE (dataReaderKind (cutSeg s L k)) ⟨dataPosOf s, st.trace ++ [(0, 4)]⟩ =
        .ok (.contiguous, ⟨dataPosOf s, st.trace ++ [(0, 4)]⟩) := by
      rw [hkind]; rfl
    have hd : (cutSeg s L k).objects.filter (·.hasData) = (dataOs s.objs).map segObjOf :=
      filter_hasData_map_segObjOf s.objs hstd
    have hflagraw : hasFlag (cutSeg s L k).toc kTocRawData = s.rawFlag := hasFlag_tocMask_raw s
    simp only []
    rw [F_bind_ok hseek, F_bind_ok hlift]
    simp only [hd]
    have hseq' : readChunksSeq file (cutSeg s L k) .contiguous ((dataOs s.objs).map segObjOf) 0
      (cutSeg s L k).numChunks ⟨dataPosOf s, st.trace ++ [(0, 4)]⟩ = _ := hseq
    rw [F_bind_ok hseq']
    simp only [F_pure, cutRawChunks, hflagraw]
  refine ⟨st1, ?_⟩
  show readRawDataAll file [cutSeg s L k] st = _
  unfold readRawDataAll
  rw [F_bind_ok hverify, F_bind_ok hsegread]
  simp only [readRawDataAll]
  rw [F_bind_ok (F_pure _ _)]
  simp [F_pure]

end Tdms.Proofs.C06Whole
