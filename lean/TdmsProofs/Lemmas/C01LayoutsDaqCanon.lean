/-
  C01 with DAQmx segments: the class of files (`MultiStdDF`), the per-segment facts from `wellFormed`, and the
  transport to the canonical form of the (never written) `total` of fixed-width indexes.  Core Lean only.
-/
import TdmsProofs.Lemmas.C01LayoutsDaqMain

namespace Tdms.Proofs.C01Layouts

open Tdms Tdms.Generated Tdms.Model Tdms.Proofs.C02 Tdms.Proofs.C01Multi

/-- **the class**: every segment has a known length; a listed DAQmx index has the raw data type, pairwise
    distinct scale ids, positive buffer widths, and the scaler types `F` records for its path; the file is well-formed;
    the data objects of a segment agree on the buffer widths -/
structure MultiStdDF (F : ScF) (e : FileEnc) : Prop where
  segs : ∀ s ∈ e, s.lengthUnknown = false ∧ ∀ o ∈ s.objs, DaqListedOK F o
  wf : wellFormed e = true
  widths : ∀ acts, activeLists none [] e = .ok acts → ∀ a ∈ acts, WidthsAgree a

theorem MultiStdDF.acts {F : ScF} {e : FileEnc} (h : MultiStdDF F e) : ∃ acts, activeLists none [] e = .ok acts ∧
    wfSegs e acts = true := by
  have := h.wf
  unfold wellFormed at this
  cases ha : activeLists none [] e with
  | error r => rw [ha] at this; cases this
  | ok acts => rw [ha] at this; exact ⟨acts, rfl, this⟩

theorem segsOKD_of_wfSegs {F : ScF} : ∀ (ss : List SegEnc) (as : List (List ActiveObj)),
    (∀ s ∈ ss, s.lengthUnknown = false) → (∀ s ∈ ss, SegFitsD s) →
    (∀ a ∈ as, ∀ x ∈ a, ∀ d, x.idx = some d → GoodDescD GoodDesc0 F x.path d) → (∀ a ∈ as, WidthsAgree a) →
    wfSegs ss as = true → SegsOKD GoodDesc0 F ss as := by
  intro ss
  induction ss with
  | nil => intro as _ _ _ _ h; cases as <;> simp [wfSegs, SegsOKD] at h ⊢
  | cons s ss ih =>
    intro as hlk hfit hgood hw h
    cases as with
    | nil => simp [wfSegs] at h
    | cons a as =>
      simp only [wfSegs, Bool.and_eq_true] at h
      exact ⟨segOKD_of_wfSeg (hlk s List.mem_cons_self) (hfit s List.mem_cons_self)
          (hgood a List.mem_cons_self) (hw a List.mem_cons_self) h.1,
        ih as (fun s' hs' => hlk s' (List.mem_cons_of_mem _ hs'))
          (fun s' hs' => hfit s' (List.mem_cons_of_mem _ hs'))
          (fun a' ha' => hgood a' (List.mem_cons_of_mem _ ha'))
          (fun a' ha' => hw a' (List.mem_cons_of_mem _ ha')) h.2⟩

theorem segsOKD_of_multi {F : ScF} {e : FileEnc} (h : MultiStdDF F e) (fit : FileFitsD e)
    {acts : List (List ActiveObj)} (ha : activeLists none [] e = .ok acts) : SegsOKD GoodDesc0 F e acts := by
  obtain ⟨acts', ha', hwf⟩ := h.acts
  rw [ha] at ha'
  cases ha'
  have hobjs := wfSegs_objs e acts hwf
  refine segsOKD_of_wfSegs e acts (fun s hs => (h.segs s hs).1) fit ?_ (h.widths acts ha) hwf
  exact activeLists_WP (GoodDescD GoodDesc0 F) e none [] acts ha (fun p d hd => by simp [LastIdx.get] at hd)
    (fun a ha => by cases ha)
    (fun s hs o ho => goodDescD_of_listed (hobjs s hs o ho) ((h.segs s hs).2 o ho) ((fit s hs).objs o ho))

/-! ## canonical form -/

theorem idxFits_canon {i : IdxEnc} (h : C02.idxFits i) : C02.idxFits (canonIdx i) := by
  cases i with
  | full ty n total =>
    intro hty
    simp only [hty, if_true]
    exact h hty
  | noData => trivial
  | matchesPrev => trivial
  | daqmx dg ty n sc w => exact h

theorem daqScalers_canon (x : ActiveObj) : daqScalers (canonAct x) = daqScalers x := by
  unfold daqScalers canonAct
  cases x.idx with
  | none => rfl
  | some d => cases d <;> rfl

theorem dgOf_canon (x : ActiveObj) : dgOf (canonAct x) = dgOf x := by
  unfold dgOf canonAct
  cases x.idx with
  | none => rfl
  | some d => cases d <;> rfl

theorem daqObj_canon {F : ScF} {W : List Nat} {x : ActiveObj} (h : DaqObj F W x) : DaqObj F W (canonAct x) := by
  obtain ⟨dg, n, sc, hi, hd⟩ := h
  exact ⟨dg, n, sc, by simp [canonAct, hi, canonDesc], hd⟩

theorem segOKD_canon {F : ScF} {s : SegEnc} {a : List ActiveObj} (h : SegOKD GoodDesc0 F s a) :
    SegOKD GoodDesc F (canonSeg s) (a.map canonAct) := by
  have hobjs : (canonSeg s).objs = s.objs.map canonObj := rfl
  have hmemo : ∀ o' ∈ (canonSeg s).objs, ∃ o ∈ s.objs, o' = canonObj o := by
    intro o' ho'
    rw [hobjs, List.mem_map] at ho'
    obtain ⟨o, ho, rfl⟩ := ho'
    exact ⟨o, ho, rfl⟩
  refine ⟨h.lengthKnown, ⟨?_, ?_⟩, h.version, ?_, ?_, ?_, ?_, ?_, ?_⟩
  · rw [hobjs, List.length_map]; exact h.fits.nObjs
  · intro o' ho'
    obtain ⟨o, ho, rfl⟩ := hmemo o' ho'
    have hf := h.fits.objs o ho
    refine ⟨idxFits_canon hf.idx, ?_, hf.nProps, hf.props⟩
    intro n total hi
    simp only [canonObj] at hi
    cases hoi : o.idx with
    | full ty' n' total' =>
      rw [hoi] at hi
      simp only [canonIdx, IdxEnc.full.injEq] at hi
      obtain ⟨rfl, rfl, ht⟩ := hi
      simp only [if_true] at ht
      subst ht
      exact hf.strTotal _ _ hoi
    | noData => rw [hoi] at hi; simp [canonIdx] at hi
    | matchesPrev => rw [hoi] at hi; simp [canonIdx] at hi
    | daqmx dg' ty' n' sc' w' => rw [hoi] at hi; simp [canonIdx] at hi
  · intro hm
    rw [hobjs, h.noMeta hm]
    rfl
  · intro o' ho'
    obtain ⟨o, ho, rfl⟩ := hmemo o' ho'
    rw [wfObj_canon]
    exact h.objs o ho
  · rw [hobjs, noDupPaths_canon]; exact h.nodup
  · intro x hx d hd
    rw [List.mem_map] at hx
    obtain ⟨x0, hx0, rfl⟩ := hx
    simp only [canonAct] at hd
    cases hi : x0.idx with
    | none => rw [hi] at hd; cases hd
    | some d0 =>
      rw [hi] at hd
      cases hd
      have hg := h.good x0 hx0 d0 hi
      cases d0 with
      | std ty n total => exact goodDesc_canon (d := .std ty n total) hg
      | daq dg ty n sc w => exact hg
  · intro c hc
    rw [encChunk_canon]
    exact h.nonZero c hc
  · rw [dataObjs_canon]
    rcases h.layout with hl | hl
    · left
      refine ⟨by rw [any_daq_canon]; exact hl.noDaq, ?_, ?_⟩
      · intro c hc
        rw [wfStdChunk_canon]
        exact hl.chunks c hc
      · intro hi
        exact interOK_canon (hl.inter hi)
    · right
      refine ⟨by simpa using hl.nonempty, hl.contiguous, ?_⟩
      obtain ⟨W, hobj, hch⟩ := hl.width
      refine ⟨W, ?_, ?_⟩
      · intro x hx
        obtain ⟨x0, hx0, rfl⟩ := List.mem_map.mp hx
        exact daqObj_canon (hobj x0 hx0)
      · intro c hc
        have hck := hch c hc
        refine ⟨hck.len, hck.rows, ?_, ?_⟩
        · intro b hb
          rcases hck.used b hb with h0 | ⟨x, hx, s0, hs0, hsb⟩
          · exact Or.inl h0
          · exact Or.inr ⟨canonAct x, List.mem_map.2 ⟨x, hx, rfl⟩, s0, by rw [daqScalers_canon]; exact hs0, hsb⟩
        · intro x hx dsc hd s0 hs0
          obtain ⟨x0, hx0, rfl⟩ := List.mem_map.mp hx
          rw [daqScalers_canon] at hs0
          simp only [canonAct] at hd
          cases hi : x0.idx with
          | none => rw [hi] at hd; cases hd
          | some d0 =>
            rw [hi] at hd
            cases hd
            rw [canonDesc_n]
            exact hck.count x0 hx0 d0 hi s0 hs0

theorem segsOKD_canon {F : ScF} : ∀ (ss : List SegEnc) (as : List (List ActiveObj)), SegsOKD GoodDesc0 F ss as →
    SegsOKD GoodDesc F (ss.map canonSeg) (as.map (·.map canonAct)) := by
  intro ss
  induction ss with
  | nil => intro as h; cases as <;> simp [SegsOKD] at h ⊢
  | cons s ss ih =>
    intro as h
    cases as with
    | nil => cases h
    | cons a as => exact ⟨segOKD_canon h.1, ih as h.2⟩

theorem canonListed_canon (e : FileEnc) : CanonListed (e.map canonSeg) := by
  intro s hs o ho
  obtain ⟨s0, _, rfl⟩ := List.mem_map.mp hs
  have : o ∈ s0.objs.map canonObj := ho
  obtain ⟨o0, _, rfl⟩ := List.mem_map.mp this
  exact canonIdx_idem o0.idx

theorem isDaqmxObj_canonAct (x : ActiveObj) : isDaqmxObj (canonAct x) = isDaqmxObj x := isDaqmxObj_canon x

theorem channelsOnlyD_canon {e : FileEnc} {acts : List (List ActiveObj)}
    (hch : ∀ sa ∈ e.zip acts, ChannelsOnlyD sa) :
    ∀ sa ∈ (e.map canonSeg).zip (acts.map (·.map canonAct)), ChannelsOnlyD sa := by
  intro sa hsa
  rw [List.zip_map, List.mem_map] at hsa
  obtain ⟨sa0, hsa0, rfl⟩ := hsa
  obtain ⟨h1, h2⟩ := hch sa0 hsa0
  refine ⟨?_, ?_⟩
  · intro hne x hx hd
    simp only [Prod.map_snd, List.mem_map] at hx
    obtain ⟨x0, hx0, rfl⟩ := hx
    exact h1 hne x0 hx0 hd
  · intro x hx hq
    simp only [Prod.map_snd, List.mem_map] at hx
    obtain ⟨x0, hx0, rfl⟩ := hx
    rw [isDaqmxObj_canonAct] at hq
    exact h2 x0 hx0 hq

theorem cntOf_canon (a : List ActiveObj) (p : Bytes) : cntOf (a.map canonAct) p = cntOf a p := by
  induction a with
  | nil => rfl
  | cons x xs ih =>
    rw [List.map_cons, cntOf_cons, cntOf_cons, ih]
    congr 1
    simp only [canonAct_path, perObj, canonAct_hasData, canonAct_n]

theorem countsOf_canon : ∀ (ss : List SegEnc) (as : List (List ActiveObj)),
    countsOf (ss.map canonSeg) (as.map (·.map canonAct)) = countsOf ss as := by
  intro ss
  induction ss with
  | nil => intro as; cases as <;> rfl
  | cons s ss ih =>
    intro as
    cases as with
    | nil => rfl
    | cons a as =>
      funext p
      simp only [List.map_cons, countsOf, cntOf_canon, ih]
      rfl

theorem classItems_canon (e : Endian) (x : ActiveObj) (b : Nat) (rows : List Bytes) :
    classItems e (canonAct x) b rows = classItems e x b rows := by
  unfold classItems
  rw [daqScalers_canon, dgOf_canon]

theorem objBuf_canon (e : Endian) (b : Nat) (rows : List Bytes) (scal : RawChunk) (x : ActiveObj) :
    objBuf e b rows scal (canonAct x) = objBuf e b rows scal x := by
  unfold objBuf
  rw [classItems_canon]
  rfl

theorem bufPass_canon (e : Endian) (b : Nat) (rows : List Bytes) : ∀ (d : List ActiveObj) (scal : RawChunk),
    bufPass e b rows (d.map canonAct) scal = bufPass e b rows d scal := by
  intro d
  induction d with
  | nil => intro _; rfl
  | cons x xs ih =>
    intro scal
    show bufPass e b rows (xs.map canonAct) (objBuf e b rows scal (canonAct x)) = _
    rw [objBuf_canon, ih]
    rfl

theorem bmChunk_canon (e : Endian) (d : List ActiveObj) : ∀ (bufs : List (List Bytes)) (b : Nat) (scal : RawChunk),
    bmChunk e (d.map canonAct) b bufs scal = bmChunk e d b bufs scal := by
  intro bufs
  induction bufs with
  | nil => intro _ _; rfl
  | cons rows rest ih =>
    intro b scal
    simp only [bmChunk, bufPass_canon, ih]

theorem mergeCols_map {α : Type} (f : α → ActiveObj) (d : List α) (chs : List (List (List Bytes))) :
    mergeCols (d.map f) chs = mergeCols (d.map fun _ => (default : ActiveObj)) chs := by
  induction chs with
  | nil => simp [mergeCols]
  | cons ch chs ih => simp only [mergeCols, ih]

theorem rawChunksOfSegI_canon (s : SegEnc) (a : List ActiveObj) :
    rawChunksOfSegI (canonSeg s) (a.map canonAct) = rawChunksOfSegI s a := by
  unfold rawChunksOfSegI pairsOf
  simp only [dataObjs_canon, List.map_map, List.isEmpty_map]
  rw [mergeCols_map canonAct (dataObjs a), ← List.map_id (dataObjs a), mergeCols_map id (dataObjs a),
    List.map_id]
  rfl

theorem rawChunksAllD_canon : ∀ (ss : List SegEnc) (as : List (List ActiveObj)),
    rawChunksAllD (ss.map canonSeg) (as.map (·.map canonAct)) = rawChunksAllD ss as := by
  intro ss
  induction ss with
  | nil => intro as; cases as <;> rfl
  | cons s ss ih =>
    intro as
    cases as with
    | nil => rfl
    | cons a as =>
      simp only [List.map_cons, rawChunksAllD, ih]
      congr 1
      unfold rawChunksOfSegD
      rw [dataObjs_canon, any_daq_canon]
      split
      · congr 2
        funext c
        exact bmChunk_canon _ _ c 0 []
      · exact rawChunksOfSegI_canon s a

theorem scalItemsG_canon (e : Endian) (x : ActiveObj) (bufs : List (List Bytes)) :
    scalItemsG e (canonAct x) bufs = scalItemsG e x bufs := by
  unfold scalItemsG canonAct
  cases x.idx with
  | none => rfl
  | some d => cases d <;> rfl

theorem allStdPairs_canon : ∀ (ss : List SegEnc) (as : List (List ActiveObj)),
    allStdPairs (ss.map canonSeg) (as.map (·.map canonAct)) = allStdPairs ss as := by
  intro ss
  induction ss with
  | nil => intro as; cases as <;> rfl
  | cons s ss ih =>
    intro as
    cases as with
    | nil => rfl
    | cons a as =>
      simp only [List.map_cons, allStdPairs, ih]
      congr 1
      unfold stdPairs segPairs pairsOf
      simp only [dataObjs_canon, any_daq_canon, List.map_map]
      rfl

theorem allDaqEnts_canon : ∀ (ss : List SegEnc) (as : List (List ActiveObj)),
    allDaqEnts (ss.map canonSeg) (as.map (·.map canonAct)) = allDaqEnts ss as := by
  intro ss
  induction ss with
  | nil => intro as; cases as <;> rfl
  | cons s ss ih =>
    intro as
    cases as with
    | nil => rfl
    | cons a as =>
      simp only [List.map_cons, allDaqEnts, ih]
      congr 1
      unfold daqEnts
      rw [dataObjs_canon, any_daq_canon]
      split
      · congr 1
        funext c
        unfold daqEntsOfChunk
        rw [List.map_map]
        apply List.map_congr_left
        intro x _
        simp only [Function.comp, canonAct_path, scalItemsG_canon]
        rfl
      · rfl

end Tdms.Proofs.C01Layouts
