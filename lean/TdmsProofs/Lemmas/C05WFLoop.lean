import TdmsProofs.Lemmas.C05WFInv

/-!
# C05WF / C19WF: the invariant of the metadata loop, and what `openFile` returns on ARBITRARY bytes

Core Lean only.
-/

namespace Tdms.Proofs.C05WF

open Tdms Tdms.Model Tdms.Generated Tdms.Proofs.C02 Tdms.Proofs.LeadIn Tdms.Proofs.C01Multi

/-- `object_metadata[p].num_values` (0 for an unknown path) -/
def nvAt (ms : ObjMetas) (p : Bytes) : Nat := ((ms.get p).map (·.numValues)).getD 0

/-- what segment `s` adds to `num_values` of path `p`: `_number_of_segment_values` of EVERY object of the
    segment with that path -/
def segContrib (s : Segment) (p : Bytes) : Nat :=
  ((s.objects.filter (·.path = p)).map fun o => numberOfSegmentValues o s).sum

theorem nvAt_eq_getD (ms : ObjMetas) (p : Bytes) : nvAt ms p = ((ms.get p).getD { path := p }).numValues := by
  unfold nvAt
  cases ms.get p <;> rfl

theorem nvAt_modify_self (ms : ObjMetas) (p : Bytes) (f : ObjMeta → ObjMeta) (hf : ∀ m, (f m).path = m.path) :
    nvAt (ms.modify p f) p = (f ((ms.get p).getD { path := p })).numValues := by
  rw [nvAt, ObjMetas.get_modify_self ms p f hf]
  rfl

theorem nvAt_modify_ne (ms : ObjMetas) (p q : Bytes) (f : ObjMeta → ObjMeta) (hf : ∀ m, (f m).path = m.path)
    (hq : q ≠ p) : nvAt (ms.modify p f) q = nvAt ms q := by
  rw [nvAt, ObjMetas.get_modify_ne ms p q f hf hq]
  rfl

theorem nvAt_stepMetas (s : Segment) (ms : ObjMetas) (o : SegObj) (p : Bytes) :
    nvAt (stepMetas s ms o) p = nvAt ms p + (if o.path = p then numberOfSegmentValues o s else 0) := by
  by_cases hp : o.path = p
  · subst hp
    simp only [if_true]
    unfold stepMetas
    rw [nvAt_modify_self, nvAt_eq_getD]
    intro m; rfl
  · simp only [hp, if_false, Nat.add_zero]
    unfold stepMetas
    rw [nvAt_modify_ne]
    · intro m; rfl
    · exact fun h => hp h.symm

theorem nvAt_fold (s : Segment) (p : Bytes) : ∀ (objs : List SegObj) (ms : ObjMetas),
    nvAt (objs.foldl (stepMetas s) ms) p =
      nvAt ms p + ((objs.filter (·.path = p)).map fun o => numberOfSegmentValues o s).sum := by
  intro objs
  induction objs with
  | nil => intro ms; simp
  | cons o os ih =>
    intro ms
    rw [List.foldl_cons, ih, nvAt_stepMetas, List.filter_cons]
    by_cases hp : o.path = p
    · simp only [hp, decide_true, if_true, List.map_cons, List.sum_cons]; omega
    · simp only [hp, decide_false, if_false, Bool.false_eq_true]; omega

theorem nvAt_updateObjectProperties (p : Bytes) : ∀ (props : List (Bytes × List PropVal)) (ms : ObjMetas),
    nvAt (updateObjectProperties ms props) p = nvAt ms p := by
  intro props
  induction props with
  | nil => intro ms; rfl
  | cons x xs ih =>
    intro ms
    obtain ⟨q, ps⟩ := x
    rw [updateObjectProperties, ih]
    by_cases hp : q = p
    · subst hp
      rw [nvAt_modify_self, nvAt_eq_getD]
      intro m; rfl
    · rw [nvAt_modify_ne]
      · intro m; rfl
      · exact fun h => hp h.symm

theorem prevOK_set {m : PrevObjs} (h : PrevOK m) {o : SegObj} (ho : ObjOK o) : PrevOK (m.set o.path o) := by
  intro p x hx
  rw [PrevObjs.get_set] at hx
  by_cases hp : p = o.path
  · simp [hp] at hx; subst hx; exact ho
  · simp [hp] at hx; exact h p x hx

theorem uom_prevOK (s : Segment) :
    ∀ (objs : List SegObj) (prev : PrevObjs) (ms : ObjMetas) (prev' : PrevObjs) (ms' : ObjMetas),
      updateObjectMetadata s objs prev ms = .ok (prev', ms') → PrevOK prev → AllOK objs → PrevOK prev' := by
  intro objs
  induction objs with
  | nil =>
    intro prev ms prev' ms' h hk _
    simp only [updateObjectMetadata] at h
    injection h with h; injection h with h1 h2; subst h1; exact hk
  | cons o os ih =>
    intro prev ms prev' ms' h hk hall
    simp only [updateObjectMetadata] at h
    split at h
    · cases h
    · split at h
      · cases h
      · exact ih _ _ _ _ h (prevOK_set hk (hall o List.mem_cons_self))
          (fun x hx => hall x (List.mem_cons_of_mem _ hx))

/-- the invariant of `readMetadataLoop` (on the three components of the reader state that matter) -/
structure Inv (segs : List Segment) (prev : PrevObjs) (ms : ObjMetas) : Prop where
  keyed : Keyed prev
  prevOK : PrevOK prev
  segOK : ∀ s ∈ segs, AllOK s.objects
  calcd : ∀ s ∈ segs, ∃ s0, s0.override = none ∧ calculateChunks s0 = .ok s
  counts : ∀ p, nvAt ms p = (segs.map fun s => segContrib s p).sum

theorem Inv.init : Inv [] [] [] :=
  ⟨keyed_nil, fun p o h => (by simp [PrevObjs.get] at h), fun s h => (by cases h), fun s h => (by cases h),
    fun p => rfl⟩

theorem loopStep_next_inv (file : Bytes) (isIndex : Bool) (dfs : Option Nat) (fp sp fp' sp' : Nat)
    (st st' : ReaderState) (h : loopStep file isIndex dfs fp sp st = .ok (.next fp' sp' st'))
    (hi : Inv st.segments st.prevObjs st.objects) : Inv st'.segments st'.prevObjs st'.objects := by
  unfold loopStep at h
  split at h
  · cases h
  · split at h <;> cases h
  · rename_i li _
    split at h
    · cases h
    · rename_i seg props hrs
      split at h
      · cases h
      · rename_i prev' objs' hu
        injection h with h; injection h with _ _ h3
        subst h3
        have hlast : ∀ p, st.segments.getLast? = some p → AllOK p.objects := fun p hp =>
          hi.segOK p (List.mem_of_getLast? hp)
        obtain ⟨hok, hcalc⟩ := readSegmentObjects_ok _ _ _ _ _ _ hi.keyed hi.prevOK hlast rfl hrs
        refine ⟨Tdms.Proofs.C09Content.updateObjectMetadata_keyed _ _ _ _ _ _ hu hi.keyed, uom_prevOK _ _ _ _ _ _ hu hi.prevOK hok, ?_, ?_, ?_⟩
        · intro s hs
          rcases List.mem_append.1 hs with h1 | h1
          · exact hi.segOK s h1
          · simp at h1; rw [h1]; exact hok
        · intro s hs
          rcases List.mem_append.1 hs with h1 | h1
          · exact hi.calcd s h1
          · simp at h1; rw [h1]; exact hcalc
        · intro p
          show nvAt (updateObjectProperties objs' props) p = _
          rw [nvAt_updateObjectProperties, uom_ok_fold _ _ _ _ _ _ hu, nvAt_fold, hi.counts p, List.map_append,
            List.sum_append]
          simp [segContrib]

theorem loopStep_done_fields (file : Bytes) (isIndex : Bool) (dfs : Option Nat) (fp sp : Nat)
    (st st' : ReaderState) (h : loopStep file isIndex dfs fp sp st = .ok (.done st')) :
    st'.segments = st.segments ∧ st'.prevObjs = st.prevObjs ∧ st'.objects = st.objects := by
  unfold loopStep at h
  split at h
  · cases h
  · split at h
    · injection h with h; injection h with h; subst h; exact ⟨rfl, rfl, rfl⟩
    · injection h with h; injection h with h; subst h; exact ⟨rfl, rfl, rfl⟩
  · split at h
    · cases h
    · split at h <;> cases h

theorem readMetadataLoop_inv (file : Bytes) (isIndex : Bool) (dfs : Option Nat) :
    ∀ (fuel fp sp : Nat) (st st' : ReaderState), Inv st.segments st.prevObjs st.objects →
      readMetadataLoop file isIndex dfs fuel fp sp st = .ok st' → Inv st'.segments st'.prevObjs st'.objects := by
  intro fuel
  induction fuel with
  | zero =>
    intro fp sp st st' hi h
    simp only [readMetadataLoop] at h
    cases h
    exact hi
  | succ fuel ih =>
    intro fp sp st st' hi h
    rw [readMetadataLoop_succ] at h
    cases hstep : loopStep file isIndex dfs fp sp st with
    | error e => rw [hstep] at h; cases h
    | ok r =>
      rw [hstep] at h
      cases r with
      | done st1 =>
        simp only [Except.ok.injEq] at h
        subst h
        obtain ⟨h1, h2, h3⟩ := loopStep_done_fields _ _ _ _ _ _ _ hstep
        rw [h1, h2, h3]; exact hi
      | next fp1 sp1 st1 =>
        exact ih fp1 sp1 st1 st' (loopStep_next_inv _ _ _ _ _ _ _ _ _ hstep hi) h

/-- **the invariant holds for what `readMetadata` returns, whatever the bytes** -/
theorem readMetadata_inv (file : Bytes) (st : ReaderState) (h : readMetadata file = .ok st) :
    Inv st.segments st.prevObjs st.objects :=
  readMetadataLoop_inv file false (some file.length) _ 0 0 {} st Inv.init h

theorem openFile_inv (file : Bytes) (f : OpenFile) (h : openFile file = .ok f) :
    f.file = file ∧ ∃ prev, Inv f.segments prev f.objects := by
  unfold openFile at h
  cases hr : readMetadata file with
  | error e => rw [hr] at h; cases h
  | ok st =>
    rw [hr] at h
    simp only [bind, Except.bind, pure, Except.pure, Except.ok.injEq] at h
    subst h
    exact ⟨rfl, st.prevObjs, readMetadata_inv file st hr⟩

end Tdms.Proofs.C05WF
