/-
  C12 at file level, part 4: an invariant of EVERY successful eager read — every property of every object is one
  `read_property` can produce (`ReadableProp`); in particular a property of type `TimeStamp` holds exactly 16 bytes.
  Through `readOneObject` / `readObjects` / `readSegmentObjects`, `_update_object_properties`, the metadata loop
  and `readFile`.  Core Lean only.
-/
import TdmsProofs.Lemmas.C10WholeInv
import TdmsProofs.Lemmas.C10PropLemmas

namespace Tdms.Proofs.C12File

open Tdms Tdms.Generated Tdms.Model Tdms.Proofs.LeadIn Tdms.Proofs.C10

/-- every property in the metadata table is readable -/
def PropsReadable (ms : ObjMetas) : Prop := ∀ m ∈ ms, ∀ p ∈ m.props, ReadableProp p

/-- every property in a segment's property list is readable -/
def ListReadable (props : List (Bytes × List PropVal)) : Prop := ∀ x ∈ props, ∀ p ∈ x.2, ReadableProp p

theorem pure_inv {α : Type} {a : α} {s : Bytes} {r : α × Bytes} (h : (pure a : P α) s = .ok r) : r = (a, s) := by
  have : (Except.ok (a, s) : Except Err (α × Bytes)) = .ok r := h
  injection this with this
  exact this.symm

/-- the common tail of every branch of `readOneObject`: property count, properties, result -/
theorem tail_readable {e : Endian} {path : Bytes} {x : P (List SegObj)} {s : Bytes}
    {r : (List SegObj × Bytes × List PropVal) × Bytes}
    (h : (x >>= fun ordered' => uN e 4 >>= fun nProps => readProperties e nProps >>= fun props =>
      (pure (ordered', path, props) : P (List SegObj × Bytes × List PropVal))) s = .ok r) :
    ∀ p ∈ r.1.2.2, ReadableProp p := by
  obtain ⟨ordered', s3, _, h⟩ := P_bind_inv h
  obtain ⟨nProps, s4, _, h⟩ := P_bind_inv h
  obtain ⟨props, s5, hp, h⟩ := P_bind_inv h
  have := pure_inv h
  subst this
  exact readProperties_readable e nProps s4 s5 props hp

theorem readOneObject_readable {e : Endian} {existing : Option (List SegObj)} {prevObjs : PrevObjs}
    {ordered : List SegObj} {bs : Bytes} {r : (List SegObj × Bytes × List PropVal) × Bytes}
    (h : readOneObject e existing prevObjs ordered bs = .ok r) : ∀ p ∈ r.1.2.2, ReadableProp p := by
  unfold readOneObject at h
  obtain ⟨path, s1, _, h⟩ := P_bind_inv h
  obtain ⟨header, s2, _, h⟩ := P_bind_inv h
  extract_lets exIdx jp at h
  clear_value exIdx
  have hjp : jp = fun ordered' => uN e 4 >>= fun nProps => readProperties e nProps >>= fun props =>
      (pure (ordered', path, props) : P (List SegObj × Bytes × List PropVal)) := rfl
  clear_value jp
  subst hjp
  cases exIdx with
  | some ie =>
    obtain ⟨i, ex⟩ := ie
    exact tail_readable h
  | none =>
    simp only at h
    cases hg : prevObjs.get path with
    | some prev =>
      rw [hg] at h
      exact tail_readable h
    | none =>
      rw [hg] at h
      simp only at h
      by_cases h1 : header = rawDataIndexMatchesPrevious
      · rw [if_pos h1] at h
        exact tail_readable h
      · rw [if_neg h1] at h
        by_cases h2 : header = rawDataIndexNoData
        · rw [if_pos h2] at h
          exact tail_readable h
        · rw [if_neg h2] at h
          obtain ⟨o, s3, _, h⟩ := P_bind_inv h
          exact tail_readable h

theorem readObjects_readable {e : Endian} {existing : Option (List SegObj)} {prevObjs : PrevObjs} :
    ∀ (k : Nat) (ordered : List SegObj) (props : List (Bytes × List PropVal)) (bs : Bytes)
      (r : (List SegObj × List (Bytes × List PropVal)) × Bytes), ListReadable props →
      readObjects e existing prevObjs k ordered props bs = .ok r → ListReadable r.1.2 := by
  intro k
  induction k with
  | zero =>
    intro ordered props bs r hprops h
    unfold readObjects at h
    have := pure_inv h
    subst this
    exact hprops
  | succ k ih =>
    intro ordered props bs r hprops h
    unfold readObjects at h
    obtain ⟨one, s1, hone, h⟩ := P_bind_inv h
    obtain ⟨ordered', path, ps⟩ := one
    simp only at h
    have hps : ∀ p ∈ ps, ReadableProp p := readOneObject_readable hone
    refine ih _ _ _ _ ?_ h
    split
    · exact hprops
    · split
      · intro x hx
        obtain ⟨y, hy, rfl⟩ := List.mem_map.1 hx
        split
        · exact hps
        · exact hprops y hy
      · intro x hx
        rcases List.mem_append.1 hx with hx | hx
        · exact hprops x hx
        · simp only [List.mem_singleton] at hx
          subst hx
          exact hps

theorem readSegmentObjects_readable {seg s : Segment} {prevSeg : Option Segment} {prevObjs : PrevObjs} {bytes : Bytes}
    {props : List (Bytes × List PropVal)}
    (h : readSegmentObjects seg prevSeg prevObjs bytes = .ok (s, props)) : ListReadable props := by
  unfold readSegmentObjects at h
  split at h
  · split at h
    · cases h
    · simp only [bind, Except.bind] at h
      split at h
      · cases h
      · simp only [pure, Except.pure] at h
        cases h
        intro x hx; cases hx
  · simp only [bind, Except.bind] at h
    split at h
    · cases h
    · rename_i v hv
      obtain ⟨⟨objs, props'⟩, rest⟩ := v
      simp only at h
      split at h
      · cases h
      · simp only [pure, Except.pure] at h
        cases h
        change (StateT.run _ bytes) = _ at hv
        have hv' : ((uN seg.endian 4 >>= fun n => readObjects seg.endian _ prevObjs n _ []) : P _) bytes =
            .ok ((objs, props), rest) := hv
        obtain ⟨n, s1, _, h2⟩ := P_bind_inv hv'
        exact readObjects_readable n _ [] s1 _ (by intro x hx; cases hx) h2

/-! ## the metadata table -/

theorem modify_readable {ms : ObjMetas} (p : Bytes) (f : ObjMeta → ObjMeta) (h : PropsReadable ms)
    (hf : ∀ m, (∀ q ∈ m.props, ReadableProp q) → ∀ q ∈ (f m).props, ReadableProp q) :
    PropsReadable (ms.modify p f) := by
  unfold ObjMetas.modify
  split
  · intro m hm
    obtain ⟨m0, hm0, rfl⟩ := List.mem_map.1 hm
    split
    · exact hf m0 (h m0 hm0)
    · exact h m0 hm0
  · intro m hm
    rcases List.mem_append.1 hm with hm | hm
    · exact h m hm
    · simp only [List.mem_singleton] at hm
      subst hm
      exact hf _ (by intro q hq; cases hq)

theorem updateObjectMetadata_readable (s : Segment) : ∀ (os : List SegObj) (prev : PrevObjs) (ms : ObjMetas)
    (prev' : PrevObjs) (ms' : ObjMetas), PropsReadable ms → updateObjectMetadata s os prev ms = .ok (prev', ms') →
    PropsReadable ms' := by
  intro os
  induction os with
  | nil => intro prev ms prev' ms' h e; simp only [updateObjectMetadata] at e; cases e; exact h
  | cons o os ih =>
    intro prev ms prev' ms' h e
    simp only [updateObjectMetadata] at e
    split at e
    · cases e
    · split at e
      · cases e
      · refine ih _ _ _ _ ?_ e
        exact modify_readable _ _ h (fun m hm => hm)

theorem setPropVal_readable (ps : List PropVal) (q : PropVal) (h : ∀ p ∈ ps, ReadableProp p) (hq : ReadableProp q) :
    ∀ p ∈ setPropVal ps q, ReadableProp p := by
  unfold setPropVal
  split
  · intro p hp
    obtain ⟨x, hx, rfl⟩ := List.mem_map.1 hp
    split
    · exact hq
    · exact h x hx
  · intro p hp
    rcases List.mem_append.1 hp with hp | hp
    · exact h p hp
    · simp only [List.mem_singleton] at hp
      subst hp
      exact hq

theorem foldl_setPropVal_readable (qs ps : List PropVal) (h : ∀ p ∈ ps, ReadableProp p)
    (hq : ∀ q ∈ qs, ReadableProp q) : ∀ p ∈ qs.foldl setPropVal ps, ReadableProp p := by
  induction qs generalizing ps with
  | nil => exact h
  | cons q qs ih =>
    exact ih _ (setPropVal_readable ps q h (hq q (by simp))) (fun x hx => hq x (by simp [hx]))

theorem updateObjectProperties_readable : ∀ (props : List (Bytes × List PropVal)) (ms : ObjMetas),
    PropsReadable ms → ListReadable props → PropsReadable (updateObjectProperties ms props) := by
  intro props
  induction props with
  | nil => intro ms h _; exact h
  | cons pp rest ih =>
    intro ms h hp
    obtain ⟨p, ps⟩ := pp
    simp only [updateObjectProperties]
    refine ih _ (modify_readable _ _ h (fun m hm => ?_)) (fun x hx => hp x (by simp [hx]))
    exact foldl_setPropVal_readable ps m.props hm (hp (p, ps) (by simp))

theorem loopStep_readable {file : Bytes} {isIndex : Bool} {dfs : Option Nat} {filePos segPos : Nat} {st : ReaderState}
    (h : PropsReadable st.objects) :
    (∀ st', loopStep file isIndex dfs filePos segPos st = .ok (.done st') → PropsReadable st'.objects) ∧
    (∀ fp sp st', loopStep file isIndex dfs filePos segPos st = .ok (.next fp sp st') → PropsReadable st'.objects) := by
  unfold loopStep
  split
  · exact ⟨fun _ e => (by cases e), fun _ _ _ e => (by cases e)⟩
  · split
    · exact ⟨fun _ e => (by cases e; exact h), fun _ _ _ e => (by cases e)⟩
    · exact ⟨fun _ e => (by cases e; exact h), fun _ _ _ e => (by cases e)⟩
  · split
    · exact ⟨fun _ e => (by cases e), fun _ _ _ e => (by cases e)⟩
    · rename_i hso
      split
      · exact ⟨fun _ e => (by cases e), fun _ _ _ e => (by cases e)⟩
      · rename_i hup
        refine ⟨fun _ e => (by cases e), fun _ _ _ e => ?_⟩
        cases e
        exact updateObjectProperties_readable _ _ (updateObjectMetadata_readable _ _ _ _ _ _ h hup)
          (readSegmentObjects_readable hso)

theorem readMetadataLoop_readable (file : Bytes) (isIndex : Bool) (dfs : Option Nat) :
    ∀ (fuel filePos segPos : Nat) (st st' : ReaderState), PropsReadable st.objects →
      readMetadataLoop file isIndex dfs fuel filePos segPos st = .ok st' → PropsReadable st'.objects := by
  intro fuel
  induction fuel with
  | zero => intro _ _ st st' h e; simp only [readMetadataLoop] at e; cases e; exact h
  | succ n ih =>
    intro filePos segPos st st' h e
    rw [readMetadataLoop_succ] at e
    have hs := loopStep_readable (file := file) (isIndex := isIndex) (dfs := dfs) (filePos := filePos)
      (segPos := segPos) h
    cases hl : loopStep file isIndex dfs filePos segPos st with
    | error err => rw [hl] at e; cases e
    | ok res =>
      rw [hl] at e
      cases res with
      | done s2 => simp only at e; cases e; exact hs.1 _ hl
      | next fp sp s2 => exact ih fp sp s2 st' (hs.2 _ _ _ hl) e

theorem readMetadata_readable {file : Bytes} {st : ReaderState} (h : readMetadata file = .ok st) :
    PropsReadable st.objects :=
  readMetadataLoop_readable file false _ _ _ _ _ _ (by intro m hm; cases hm) h

/-- the metadata of a successful eager read is what `read_metadata` returned -/
theorem readFile_state {file : Bytes} {r : EagerResult} (h : readFile file = .ok r) :
    readMetadata file = .ok r.state := by
  unfold readFile at h
  simp only [bind, Except.bind] at h
  split at h
  · cases h
  · rename_i st hst
    split at h
    · cases h
    · rename_i v hv
      obtain ⟨chunks, fst⟩ := v
      simp only at h
      split at h
      · cases h
      · simp only [pure, Except.pure] at h
        cases h
        exact hst

/-- **every property of every object of a successful eager read is readable**: a string, a 16-byte timestamp, or a
    fixed-width value of exactly the width of its type -/
theorem readFile_readable {file : Bytes} {r : EagerResult} (h : readFile file = .ok r) :
    PropsReadable r.state.objects :=
  readMetadata_readable (readFile_state h)

/-- in particular: a property of type `TimeStamp` read from ANY file holds exactly 16 bytes -/
theorem readFile_timestamp_length {file : Bytes} {r : EagerResult} (h : readFile file = .ok r)
    {m : ObjMeta} (hm : m ∈ r.state.objects) {p : PropVal} (hp : p ∈ m.props) (hty : p.ty = tyTimeStamp) :
    p.val.length = 16 := by
  rcases readFile_readable h m hm p hp with h1 | ⟨_, h2⟩ | ⟨_, h4⟩
  · rw [hty] at h1; cases h1
  · exact h2
  · rw [hty] at h4
    have : typeSize tyTimeStamp = some 16 := by decide
    rw [this] at h4
    exact (Option.some.inj h4).symm

end Tdms.Proofs.C12File
