/-
  C01 for multi-segment files: `readRawDataAll` over the `Segment` records of the file yields, segment by
  segment, the chunks of the encoding.  Core Lean only.
-/
import TdmsProofs.Lemmas.C01MultiLoop

namespace Tdms.Proofs.C01Multi

open Tdms Tdms.Generated Tdms.Model Tdms.Proofs.C02
open Tdms.Proofs.Bytes (contOK setCols F_bind_ok F_pure drop_add_of_drop_eq fRead_of_drop)
open Tdms.Proofs.C01Compose (pairsChunk)

/-! ## all chunks of a segment -/

theorem readChunksSeq_conc (file : Bytes) (seg : Segment) (hov : seg.override = none) (objs : List SegObj)
    (d : List ActiveObj) :
    ∀ (chs : List (List (List Bytes))) (i pos : Nat) (tr : List (Nat × Nat)) (rest : Bytes),
      (∀ ch ∈ chs, contOK objs d ch) →
      file.drop pos = chs.flatMap (encChunkContiguous seg.endian d) ++ rest →
      ∃ tr', (readChunksSeq file seg .contiguous objs i chs.length).run ⟨pos, tr⟩ =
        .ok (chs.map (setCols [] objs),
          ⟨pos + (chs.flatMap (encChunkContiguous seg.endian d)).length, tr'⟩) := by
  intro chs
  induction chs with
  | nil => intro i pos tr rest _ _; exact ⟨tr, rfl⟩
  | cons ch chs ih =>
    intro i pos tr rest hok hfile
    simp only [List.flatMap_cons, List.append_assoc] at hfile
    obtain ⟨tr1, h1⟩ := Tdms.Proofs.C01.readContiguousChunk_encChunkContiguous file seg i hov
      objs d ch [] pos tr _ (hok ch List.mem_cons_self) hfile
    obtain ⟨tr2, h2⟩ := ih (i + 1) (pos + (encChunkContiguous seg.endian d ch).length) tr1 rest
      (fun c hc => hok c (List.mem_cons_of_mem _ hc)) (drop_add_of_drop_eq hfile)
    refine ⟨tr2, ?_⟩
    show readChunksSeq file seg .contiguous objs i (chs.length + 1) ⟨pos, tr⟩ = _
    unfold readChunksSeq
    simp only
    have h1' : readContiguousChunk file seg i objs [] ⟨pos, tr⟩ = _ := h1
    have h2' : readChunksSeq file seg .contiguous objs (i + 1) chs.length
      ⟨pos + (encChunkContiguous seg.endian d ch).length, tr1⟩ = _ := h2
    rw [F_bind_ok h1', F_bind_ok h2']
    simp only [F_pure, List.map_cons, List.flatMap_cons, List.length_append, Nat.add_assoc]

theorem dataReaderKind_conc (seg : Segment) (a : List ActiveObj)
    (hg : ∀ x ∈ a, ∀ d, x.idx = some d → GoodDesc d) (hobjs : seg.objects = a.map concObj)
    (hint : hasFlag seg.toc kTocInterleavedData = false) : dataReaderKind seg = .ok .contiguous := by
  simp [dataReaderKind, hobjs, haveDaqmxObjects_conc a hg, haveInterleavedData, hint, bind,
    Except.bind, pure, Except.pure]

/-- the chunks the reader yields for a segment -/
def rawChunksOfSeg (s : SegEnc) (a : List ActiveObj) : List RawChunk :=
  (if !s.rawFlag then [[]] else []) ++ s.chunks.map fun ch => pairsChunk (pairsOf (dataObjs a) ch)

theorem dataObjs_nodup {a : List ActiveObj} (h : (a.map (·.path)).Nodup) : ((dataObjs a).map (·.path)).Nodup :=
  h.sublist (List.Sublist.map _ List.filter_sublist)

theorem setCols_conc (d : List ActiveObj) (ch : List (List Bytes)) (hnd : (d.map (·.path)).Nodup) :
    setCols [] (d.map concObj) ch = pairsChunk (pairsOf d ch) := by
  rw [Tdms.Proofs.C01.setCols_of_distinct_paths]
  · simp only [pairsChunk, pairsOf, List.zip_map_left, List.map_map]
    apply List.map_congr_left
    intro x _
    simp [Prod.map]
  · rw [map_concObj_paths]; exact hnd

/-- **the raw data of one segment**, from any file state -/
theorem segment_data (file : Bytes) (pos : Nat) (s : SegEnc) (a : List ActiveObj) (rest : Bytes)
    (hfile : file.drop pos = encodeSeg s a ++ rest) (hok : SegOK s a) (hnd : (a.map (·.path)).Nodup)
    (st : FState) :
    ∃ st', (do verifySegmentStart file (segRec pos s a); segmentReadRawData file (segRec pos s a) : F _) st =
      .ok (rawChunksOfSeg s a, st') := by
  have hsplit := encodeSeg_split s a
  have hli28 := encLeadIn_length tagData s (segMeta s).length (encRaw s a).length rfl
  have hnoq := not_daq_of_good hok.good
  -- the tag
  have htag : file.drop (⟨pos, st.trace⟩ : FState).pos = tagData ++ (encLE 4 (tocMask s) ++ enc s.endian 4 s.version ++
      enc s.endian 8 (if s.lengthUnknown then 2 ^ 64 - 1 else (segMeta s).length + (encRaw s a).length) ++
      enc s.endian 8 (segMeta s).length ++ (segMeta s ++ encRaw s a) ++ rest) := by
    show file.drop pos = _
    rw [hfile, hsplit]; simp [encLeadIn]
  -- the raw data
  have hdrop : file.drop (pos + 28 + (segMeta s).length) =
      s.chunks.flatMap (encChunkContiguous s.endian (dataObjs a)) ++ rest := by
    have h28 : file.drop (pos + 28) = segMeta s ++ (encRaw s a ++ rest) := by
      rw [← List.drop_drop, hfile, hsplit, List.append_assoc, List.drop_left' hli28, List.append_assoc]
    rw [← List.drop_drop, h28, List.drop_left, encRaw_contig s a hok.std.contiguous hnoq]
  have hend : (segRec pos s a).endian = s.endian := Tdms.Proofs.Bytes.segEndian_of_tocMask s
  have hcont : ∀ ch ∈ s.chunks, contOK ((dataObjs a).map concObj) (dataObjs a) ch :=
    fun ch hch => (chunk_facts s.endian (dataObjs a) ch (good_dataObjs hok.good) (hok.chunks ch hch)).1
  obtain ⟨tr', hseq⟩ := readChunksSeq_conc file (segRec pos s a) rfl ((dataObjs a).map concObj) (dataObjs a)
    s.chunks 0 (pos + 28 + (segMeta s).length) (st.trace ++ [(pos, 4)]) rest hcont (by rw [hend]; exact hdrop)
  have hkind : dataReaderKind (segRec pos s a) = .ok .contiguous :=
    dataReaderKind_conc _ a hok.good rfl (by
      show hasFlag (tocMask s) kTocInterleavedData = false
      rw [Tdms.Proofs.Bytes.hasFlag_tocMask_interleaved, hok.std.contiguous])
  have hverify : verifySegmentStart file (segRec pos s a) st = .ok ((), ⟨pos + 4, st.trace ++ [(pos, 4)]⟩) := by
    have hread : fRead file 4 ⟨pos, st.trace⟩ = .ok (tagData, ⟨pos + 4, st.trace ++ [(pos, 4)]⟩) :=
      fRead_of_drop htag
    unfold verifySegmentStart
    have hseek : fSeek (segRec pos s a).position st = .ok ((), ⟨pos, st.trace⟩) := rfl
    rw [F_bind_ok hseek, F_bind_ok hread]
    simp [F_pure]
  have hsegread : ∃ st1, segmentReadRawData file (segRec pos s a) ⟨pos + 4, st.trace ++ [(pos, 4)]⟩ =
      .ok (rawChunksOfSeg s a, st1) := by
    refine ⟨⟨pos + 28 + (segMeta s).length +
      (s.chunks.flatMap (encChunkContiguous (segRec pos s a).endian (dataObjs a))).length, tr'⟩, ?_⟩
    unfold segmentReadRawData
    have hseek : fSeek (segRec pos s a).dataPosition ⟨pos + 4, st.trace ++ [(pos, 4)]⟩ =
        .ok ((), ⟨pos + 28 + (segMeta s).length, st.trace ++ [(pos, 4)]⟩) := rfl
    have hlift : Tdms.Model.liftE (dataReaderKind (segRec pos s a))
        ⟨pos + 28 + (segMeta s).length, st.trace ++ [(pos, 4)]⟩ =
        .ok (.contiguous, ⟨pos + 28 + (segMeta s).length, st.trace ++ [(pos, 4)]⟩) := by
      rw [hkind]; rfl
    have hd : (segRec pos s a).objects.filter (·.hasData) = (dataObjs a).map concObj := filter_hasData_conc a
    have hflagraw : hasFlag (segRec pos s a).toc kTocRawData = s.rawFlag :=
      Tdms.Proofs.Bytes.hasFlag_tocMask_raw s
    simp only []
    rw [F_bind_ok hseek, F_bind_ok hlift]
    simp only [hd]
    have hk : (segRec pos s a).numChunks = s.chunks.length := rfl
    have hseq' : readChunksSeq file (segRec pos s a) .contiguous ((dataObjs a).map concObj) 0
      s.chunks.length ⟨pos + 28 + (segMeta s).length, st.trace ++ [(pos, 4)]⟩ = _ := hseq
    rw [hk, F_bind_ok hseq']
    simp only [F_pure, rawChunksOfSeg, hflagraw]
    congr 2
    congr 1
    apply List.map_congr_left
    intro ch _
    exact setCols_conc (dataObjs a) ch (dataObjs_nodup hnd)
  obtain ⟨st1, hsegread⟩ := hsegread
  exact ⟨st1, by rw [F_bind_ok hverify, hsegread]⟩

/-! ## all segments -/

def rawChunksAll : List SegEnc → List (List ActiveObj) → List RawChunk
  | s :: ss, a :: as => rawChunksOfSeg s a ++ rawChunksAll ss as
  | _, _ => []

def ActsNodup (as : List (List ActiveObj)) : Prop := ∀ a ∈ as, (a.map (·.path)).Nodup

theorem readRawDataAll_multi (file : Bytes) :
    ∀ (ss : List SegEnc) (as : List (List ActiveObj)) (pos : Nat) (st : FState),
      SegsOK ss as → ActsNodup as → file.drop pos = zipEncode encodeSeg ss as →
      ∃ st', (readRawDataAll file (segRecs pos ss as)).run st = .ok (rawChunksAll ss as, st') := by
  intro ss
  induction ss with
  | nil => intro as pos st _ _ _; cases as <;> exact ⟨st, rfl⟩
  | cons s ss ih =>
    intro as pos st hok hnd hfile
    cases as with
    | nil => cases hok
    | cons a as =>
      have hfile' : file.drop pos = encodeSeg s a ++ zipEncode encodeSeg ss as := hfile
      obtain ⟨st1, h1⟩ := segment_data file pos s a _ hfile' hok.1 (hnd a List.mem_cons_self) st
      obtain ⟨st2, h2⟩ := ih as (pos + (encodeSeg s a).length) st1 hok.2
        (fun a' ha' => hnd a' (List.mem_cons_of_mem _ ha')) (drop_add_of_drop_eq hfile')
      refine ⟨st2, ?_⟩
      show readRawDataAll file (segRec pos s a :: segRecs (pos + (encodeSeg s a).length) ss as) st = _
      unfold readRawDataAll
      obtain ⟨u, sv, hv, h1'⟩ : ∃ u sv, verifySegmentStart file (segRec pos s a) st = .ok (u, sv) ∧
          segmentReadRawData file (segRec pos s a) sv = .ok (rawChunksOfSeg s a, st1) := by
        cases hv : verifySegmentStart file (segRec pos s a) st with
        | error err =>
          have : (do verifySegmentStart file (segRec pos s a); segmentReadRawData file (segRec pos s a) : F _) st =
              .error err := by
            show (StateT.bind _ _) st = _
            simp [StateT.bind, hv, bind, Except.bind]
          rw [this] at h1; cases h1
        | ok r =>
          obtain ⟨u, sv⟩ := r
          rw [F_bind_ok hv] at h1
          exact ⟨u, sv, rfl, h1⟩
      have h2' : readRawDataAll file (segRecs (pos + (encodeSeg s a).length) ss as) st1 = _ := h2
      rw [F_bind_ok hv, F_bind_ok h1', F_bind_ok h2']
      rfl

/-- the active lists of an accepted file have pairwise distinct paths -/
theorem activeLists_nodup : ∀ (ss : List SegEnc) (prev : Option (List ActiveObj)) (last : LastIdx)
    (as : List (List ActiveObj)), activeLists prev last ss = .ok as → SpecInv prev last →
    (∀ s ∈ ss, noDupPaths s.objs = true) → ActsNodup as := by
  intro ss
  induction ss with
  | nil => intro prev last as h _ _; rw [activeLists_nil h]; intro a ha; cases ha
  | cons s ss ih =>
    intro prev last as h hspec hnd
    obtain ⟨a, last', as', hact, hrest, rfl⟩ := activeLists_cons h
    have hpost := activeOfSeg_post hspec (hnd s List.mem_cons_self) hact
    intro x hx
    rcases List.mem_cons.1 hx with rfl | hx'
    · exact hpost.nodup
    · exact ih _ _ _ hrest hpost.specInv (fun s' hs' => hnd s' (List.mem_cons_of_mem _ hs')) x hx'

end Tdms.Proofs.C01Multi
