/-
  C03 (mixed files) — the channel-level chunk iterator (`channel.data_chunks()` as the state machine
  `ChanIter`) on files mixing contiguous and interleaved segments: one `next()` yields the next chunk of
  the planned per-segment reads (an interleaved segment contributes ONE chunk), with the running count
  of values as its offset.  Follows `Lemmas/C03ChanIter.lean`.  Core Lean only.
-/
import TdmsProofs.Lemmas.C03MixedWin
import TdmsProofs.Lemmas.C03ChanAll

namespace Tdms.Proofs.C03

open Tdms Tdms.Generated Tdms.Model Tdms.Proofs.Bytes Tdms.Proofs.C04

/-- the chunks the iterator yields for a segment planned with `nc` chunks, after the optional empty one -/
def lazyW (file : Bytes) (s : Segment) (p : Bytes) (nc : Int) : List ChanChunk :=
  match dataReaderKind s with
  | .ok .interleaved =>
    [({ data := some (((segE file s p).drop ((layoutOf p s).cs * 0)).take ((layoutOf p s).cs * nc.toNat)) } : ChanChunk)]
  | _ => (List.range' 0 nc.toNat).map (lazyChunk file s (segCsz s) p)

/-- the extra empty chunk of a segment without the raw-data flag, unless already yielded -/
def preW (s : Segment) (ey : Bool) : List ChanChunk :=
  if !hasFlag s.toc kTocRawData ∧ !ey then [({} : ChanChunk)] else []

/-- chunks of the current segment not yet yielded -/
def chanSegRestW (file : Bytes) (s : Segment) (p : Bytes) (plan : Option (Int × Int × Int))
    (inSeg : Option (Nat × Nat)) (ey : Bool) : List ChanChunk :=
  match plan with
  | none => []
  | some (_, _, nc) =>
    match inSeg with
    | none => preW s ey ++ lazyW file s p nc
    | some (i, _) => (lazyW file s p nc).drop i

/-- chunks of segments `j, j+1, …, j+cnt-1`, none of them started -/
def chanTailW (f : OpenFile) (p : Bytes) (nv : Nat) : Nat → Nat → List ChanChunk
  | 0, _ => []
  | cnt + 1, j =>
    (match f.segments[j]? with
      | some s => chanSegRestW f.file s p (chanPlan f p nv j s) none false
      | none => []) ++ chanTailW f p nv cnt (j + 1)

theorem chanTailW_past (f : OpenFile) (p : Bytes) (nv : Nat) : ∀ (cnt j : Nat), f.segments.length ≤ j →
    chanTailW f p nv cnt j = [] := by
  intro cnt
  induction cnt with
  | zero => intro j _; rfl
  | succ cnt ih =>
    intro j hj
    unfold chanTailW
    rw [List.getElem?_eq_none hj, ih (j + 1) (by omega)]
    rfl

/-- all chunks a suspended channel iterator has not yet yielded -/
def chanRestW (f : OpenFile) (p : Bytes) (nv : Nat) (it : ChanIter) : List ChanChunk :=
  if it.seg > chanEnd f p nv then []
  else match f.segments[it.seg]? with
    | none => []
    | some s => chanSegRestW f.file s p (chanPlan f p nv it.seg s) it.inSeg it.emptyYielded ++
        chanTailW f p nv (chanEnd f p nv - it.seg) (it.seg + 1)

/-- what stays fixed during the life of the iterator; inside a segment at least one chunk was yielded -/
def ChanInvW (f : OpenFile) (p : Bytes) (nv : Nat) (it : ChanIter) : Prop :=
  ChanInv f p nv it ∧ ∀ i init, it.inSeg = some (i, init) → 1 ≤ i

theorem chanRestW_fresh (f : OpenFile) (p : Bytes) (nv : Nat) (j : Nat) (it : ChanIter)
    (h1 : it.seg = j) (h2 : it.inSeg = none) (h3 : it.emptyYielded = false) :
    chanRestW f p nv it = chanTailW f p nv (chanEnd f p nv + 1 - j) j := by
  unfold chanRestW
  rw [h1, h2, h3]
  by_cases hj : j > chanEnd f p nv
  · rw [if_pos hj]
    have : chanEnd f p nv + 1 - j = 0 := by omega
    rw [this]; rfl
  · rw [if_neg hj]
    have : chanEnd f p nv + 1 - j = (chanEnd f p nv - j) + 1 := by omega
    rw [this]
    cases hs : f.segments[j]? with
    | none =>
      have hlen : f.segments.length ≤ j := by
        rcases Nat.lt_or_ge j f.segments.length with h | h
        · rw [List.getElem?_eq_getElem h] at hs; cases hs
        · exact h
      rw [chanTailW_past f p nv _ j hlen]
    | some s =>
      simp only [chanTailW, hs]

theorem chanRestW_mk (f : OpenFile) (p : Bytes) (nv : Nat) (s : Segment) (path : Bytes) (j a b : Nat) (t : Int)
    (inSeg : Option (Nat × Nat)) (ey : Bool) (off : Nat)
    (hle : ¬ j > chanEnd f p nv) (hs : f.segments[j]? = some s) :
    chanRestW f p nv ⟨path, j, a, b, t, inSeg, ey, off⟩ = chanSegRestW f.file s p (chanPlan f p nv j s) inSeg ey ++
      chanTailW f p nv (chanEnd f p nv - j) (j + 1) := by
  unfold chanRestW; rw [if_neg hle, hs]

def ChanStepSpecW (f : OpenFile) (p : Bytes) (nv : Nat) (it : ChanIter) (r : Option (ChanChunk × Nat)) (it' : ChanIter) : Prop :=
  match chanRestW f p nv it with
  | [] => r = none ∧ chanRestW f p nv it' = []
  | c :: rest => r = some (c, it.offset) ∧ chanRestW f p nv it' = rest ∧ it'.offset = it.offset + c.len ∧
      ChanInvW f p nv it'

theorem ChanStepSpecW.cons {f : OpenFile} {p : Bytes} {nv : Nat} {it it' : ChanIter} {c : ChanChunk} {rest : List ChanChunk}
    (h : chanRestW f p nv it = c :: rest) (h' : chanRestW f p nv it' = rest)
    (ho : it'.offset = it.offset + c.len) (hinv : ChanInvW f p nv it') :
    ChanStepSpecW f p nv it (some (c, it.offset)) it' := by
  unfold ChanStepSpecW
  rw [h]
  exact ⟨rfl, h', ho, hinv⟩

theorem ChanStepSpecW.of_eq {f : OpenFile} {p : Bytes} {nv : Nat} {it it0 : ChanIter} {r : Option (ChanChunk × Nat)}
    {it' : ChanIter} (h : ChanStepSpecW f p nv it0 r it') (hrest : chanRestW f p nv it = chanRestW f p nv it0)
    (hoffs : it.offset = it0.offset) : ChanStepSpecW f p nv it r it' := by
  unfold ChanStepSpecW at h ⊢
  rw [hrest, hoffs]
  exact h

theorem drop_map_range' {α : Type} (g : Nat → α) (n i : Nat) :
    ((List.range' 0 n).map g).drop i = (List.range' i (n - i)).map g := by
  rw [← List.map_drop]
  congr 1
  rcases Nat.lt_or_ge n i with h | h
  · rw [List.drop_eq_nil_of_le (by simp; omega)]
    have : n - i = 0 := by omega
    rw [this]; rfl
  · obtain ⟨r, rfl⟩ : ∃ r, n = i + r := ⟨n - i, by omega⟩
    rw [← List.range'_append_1 (s := 0) (m := i) (n := r), List.drop_left' (by simp)]
    simp

theorem chanIterNext_specW (f : OpenFile) (p : Bytes) (m : ObjMeta) (hok : SegsWOk f.file f.segments)
    (hc : ChanOk f.objects f.segments p m) :
    ∀ (fuel : Nat) (it : ChanIter) (st : FState), ChanInvW f p m.numValues it →
      f.segments.length + 1 ≤ it.seg + fuel →
      ∃ r it' st', chanIterNext f fuel it st = .ok ((r, it'), st') ∧ ChanStepSpecW f p m.numValues it r it' := by
  intro fuel
  induction fuel with
  | zero =>
    intro it st _ hfuel
    have hnone : f.segments[it.seg]? = none := List.getElem?_eq_none (by omega)
    refine ⟨none, it, st, rfl, ?_⟩
    have : chanRestW f p m.numValues it = [] := by unfold chanRestW; split <;> simp [hnone]
    simp [ChanStepSpecW, this]
  | succ fuel ih =>
    intro it st hinvW hfuel
    obtain ⟨hinv, hipos⟩ := hinvW
    unfold chanIterNext
    by_cases hpast : it.seg > it.endSeg
    · rw [if_pos hpast]
      refine ⟨none, it, st, rfl, ?_⟩
      have : chanRestW f p m.numValues it = [] := by
        unfold chanRestW; rw [if_pos (by rw [← hinv.endSeg]; exact hpast)]
      simp [ChanStepSpecW, this]
    · rw [if_neg hpast]
      have hle : ¬ it.seg > chanEnd f p m.numValues := by rw [← hinv.endSeg]; exact hpast
      cases hs : f.segments[it.seg]? with
      | none =>
        refine ⟨none, it, st, rfl, ?_⟩
        have : chanRestW f p m.numValues it = [] := by unfold chanRestW; rw [if_neg hle, hs]
        simp [ChanStepSpecW, this]
      | some s =>
        have hso := hok s (List.mem_of_getElem? hs)
        have hsize : chunkSize s.objects = .ok (segCsz s) := by
          rcases hso.data with hcg | hi
          · exact hcg.size
          · exact hi.size
        simp only []
        rw [hinv.path, hinv.total, hinv.startSeg, hinv.endSeg]
        have hplanEq : segPlan p (buildIndex f.segments p) 0 (m.numValues : Int) (chanStart f p)
            (chanEnd f p m.numValues) it.seg s = chanPlan f p m.numValues it.seg s := rfl
        rw [hplanEq]
        have hrestEq : chanRestW f p m.numValues it =
            chanSegRestW f.file s p (chanPlan f p m.numValues it.seg s) it.inSeg it.emptyYielded ++
              chanTailW f p m.numValues (chanEnd f p m.numValues - it.seg) (it.seg + 1) := by
          unfold chanRestW; rw [if_neg hle, hs]
        -- moving on to the next segment
        have hnext : chanSegRestW f.file s p (chanPlan f p m.numValues it.seg s) it.inSeg it.emptyYielded = [] → ∀ st1,
            ∃ r it' st', chanIterNext f fuel (nextSegIt f p m.numValues it) st1
              = .ok ((r, it'), st') ∧ ChanStepSpecW f p m.numValues it r it' := by
          intro hnil st1
          obtain ⟨r, it', st', hrun, hspec⟩ := ih (nextSegIt f p m.numValues it) st1
            ⟨⟨rfl, rfl, rfl, rfl, by have := hinv.seg; simp only [nextSegIt]; omega, by intro i init s' h; cases h⟩,
              by intro i init h; cases h⟩
            (by simp only [nextSegIt]; omega)
          refine ⟨r, it', st', hrun, hspec.of_eq ?_ rfl⟩
          rw [hrestEq, hnil, List.nil_append, chanRestW_fresh f p m.numValues (it.seg + 1) _ rfl rfl rfl]
          congr 1
          omega
        cases hplan : chanPlan f p m.numValues it.seg s with
        | none =>
          have hnil : chanSegRestW f.file s p none it.inSeg it.emptyYielded = [] := rfl
          rw [hplan] at hnext
          cases hin : it.inSeg with
          | none =>
            simp only [Option.isNone_none, if_true]
            by_cases hey : (!it.emptyYielded) = true
            · rw [if_pos hey]
              obtain ⟨st1, h1⟩ := verifySegmentStart_okF hso.toF st
              rw [F_bind_ok h1]
              exact hnext hnil st1
            · rw [if_neg hey]
              exact hnext hnil st
          | some ii =>
            obtain ⟨i, init⟩ := ii
            simp only []
            rw [hsize, F_bind_ok (liftE_ok _ _), F_bind_ok (fSeek_run _ _)]
            rcases hso.data with hcg | hi
            · rw [hcg.kind, F_bind_ok (liftE_ok _ _)]
              simp only []
              rw [if_neg (by omega)]
              exact hnext hnil _
            · rw [hi.kind, F_bind_ok (liftE_ok _ _)]
              exact hnext hnil _
        | some t =>
          obtain ⟨co, skip, nc⟩ := t
          rw [hplan] at hnext hrestEq
          have hcs : (layoutOf p s).cs ≠ 0 := segPlan_cs hplan
          obtain ⟨hco, _, hnck, _⟩ := chanPlan_facts f p m hc it.seg s hs hinv.seg
            (by show it.seg ≤ chanEnd f p m.numValues; omega) co skip nc hplan
          have hnc0 : 0 ≤ nc := by
            have := plan_nonneg f.segments p m.numValues hc.wf hc.num 0 none (Int.le_refl 0) (by intro l h; cases h)
            rw [windowParams_zero_none] at this
            exact (this it.seg s hs hinv.seg (by show it.seg ≤ chanEnd f p m.numValues; omega) co skip nc hplan).2.1
          cases hin : it.inSeg with
          | none =>
            rw [hin] at hnext hrestEq
            simp only [Option.isNone_some, Bool.false_eq_true, if_false]
            have hver : ∀ (k : Unit → F (Option (ChanChunk × Nat) × ChanIter)),
                (∀ st1, ∃ r it' st', k () st1 = .ok ((r, it'), st') ∧ ChanStepSpecW f p m.numValues it r it') →
                ∃ r it' st', (if (!it.emptyYielded) = true then do
                    let __r ← verifySegmentStart f.file s
                    k __r
                  else k ()) st = .ok ((r, it'), st') ∧ ChanStepSpecW f p m.numValues it r it' := by
              intro k hk
              by_cases hey : (!it.emptyYielded) = true
              · rw [if_pos hey]
                obtain ⟨st1, h1⟩ := verifySegmentStart_okF hso.toF st
                rw [F_bind_ok h1]
                exact hk st1
              · rw [if_neg hey]
                exact hk st
            apply hver
            intro st1
            by_cases hpre : (!hasFlag s.toc kTocRawData) = true ∧ (!it.emptyYielded) = true
            · rw [if_pos hpre]
              refine ⟨_, _, st1, rfl, ?_⟩
              apply ChanStepSpecW.cons (rest := lazyW f.file s p nc ++
                chanTailW f p m.numValues (chanEnd f p m.numValues - it.seg) (it.seg + 1))
              · rw [hrestEq]
                simp only [chanSegRestW, preW]
                rw [if_pos hpre]
                rfl
              · rw [chanRestW_mk f p m.numValues s _ _ _ _ _ _ _ _ hle hs]
                rw [hplan]
                simp [chanSegRestW, preW]
              · show it.offset = it.offset + ({} : ChanChunk).len
                rfl
              · exact ⟨⟨rfl, rfl, rfl, rfl, hinv.seg, by intro i init s' h; cases h⟩, by intro i init h; cases h⟩
            · rw [if_neg hpre]
              rw [F_bind_ok (fSeek_run _ _), hsize, F_bind_ok (liftE_ok _ _)]
              have hsegrest : chanSegRestW f.file s p (some (co, skip, nc)) none it.emptyYielded = lazyW f.file s p nc := by
                simp only [chanSegRestW, preW]; rw [if_neg hpre]; rfl
              rcases hso.data with hcg | hi
              · rw [hcg.kind, F_bind_ok (liftE_ok _ _), F_bind_ok (fTell_run _)]
                simp only []
                have hlw : lazyW f.file s p nc = (List.range' 0 nc.toNat).map (lazyChunk f.file s (segCsz s) p) := by
                  unfold lazyW; rw [hcg.kind]
                by_cases hk : 0 < nc
                · rw [if_pos hk]
                  obtain ⟨st2, h2⟩ := readChannelChunkAt_exact f.file s (segCsz s) hcg p 0 (by omega) st1.trace
                  simp only [Nat.zero_mul, Nat.add_zero] at h2
                  have h2' : readChannelChunkAt f.file s ReaderKind.contiguous (List.filter (fun x => x.hasData) s.objects) p 0
                      ⟨s.dataPosition, st1.trace⟩ = .ok (lazyChunk f.file s (segCsz s) p 0, st2) := h2
                  rw [F_bind_ok h2']
                  refine ⟨_, _, st2, rfl, ?_⟩
                  obtain ⟨k', hk'⟩ : ∃ k', nc.toNat = k' + 1 := ⟨nc.toNat - 1, by omega⟩
                  apply ChanStepSpecW.cons (rest := (lazyW f.file s p nc).drop 1 ++
                    chanTailW f p m.numValues (chanEnd f p m.numValues - it.seg) (it.seg + 1))
                  · rw [hrestEq, hsegrest, hlw, hk', List.range'_succ, List.map_cons, List.cons_append]
                    rfl
                  · rw [chanRestW_mk f p m.numValues s _ _ _ _ _ _ _ _ hle hs]
                    rw [hplan]
                    rfl
                  · rfl
                  · refine ⟨⟨rfl, rfl, rfl, rfl, hinv.seg, ?_⟩, ?_⟩
                    · intro i init s' h hs'
                      simp only [] at h hs'
                      rw [hs] at hs'
                      cases h; cases hs'; rfl
                    · intro i init h
                      simp only [] at h
                      cases h; exact Nat.le_refl _
                · rw [if_neg hk]
                  apply hnext
                  rw [hsegrest, hlw]
                  have : nc.toNat = 0 := by omega
                  rw [this]; rfl
              · rw [hi.kind, F_bind_ok (liftE_ok _ _), F_bind_ok (fTell_run _)]
                simp only []
                rw [if_neg (by omega)]
                obtain ⟨c, st2, h2, hget⟩ := interW_read hso hi.toInterBase p hcs 0 nc.toNat (by omega) st1.trace
                have hp0 : s.dataPosition + segCsz s * 0 = s.dataPosition := by simp
                rw [hp0] at h2
                rw [F_bind_ok h2]
                simp only [List.head?_cons]
                refine ⟨_, _, st2, rfl, ?_⟩
                have hlw : lazyW f.file s p nc = [RawChunk.get c p] := by
                  unfold lazyW; rw [hi.kind, hget]
                apply ChanStepSpecW.cons (rest := (lazyW f.file s p nc).drop 1 ++
                  chanTailW f p m.numValues (chanEnd f p m.numValues - it.seg) (it.seg + 1))
                · rw [hrestEq, hsegrest, hlw]
                  rfl
                · rw [chanRestW_mk f p m.numValues s _ _ _ _ _ _ _ _ hle hs]
                  rw [hplan]
                  rfl
                · rfl
                · refine ⟨⟨rfl, rfl, rfl, rfl, hinv.seg, ?_⟩, ?_⟩
                  · intro i init s' h hs'
                    simp only [] at h hs'
                    rw [hs] at hs'
                    cases h; cases hs'; rfl
                  · intro i init h
                    simp only [] at h
                    cases h; exact Nat.le_refl _
          | some ii =>
            obtain ⟨i, init⟩ := ii
            rw [hin] at hnext hrestEq
            have hinit : init = s.dataPosition := hinv.initial i init s hin hs
            have hi1 : 1 ≤ i := hipos i init hin
            subst hinit
            simp only []
            rw [hsize, F_bind_ok (liftE_ok _ _), F_bind_ok (fSeek_run _ _)]
            have hsegrest : chanSegRestW f.file s p (some (co, skip, nc)) (some (i, s.dataPosition)) it.emptyYielded =
                (lazyW f.file s p nc).drop i := rfl
            rcases hso.data with hcg | hi
            · rw [hcg.kind, F_bind_ok (liftE_ok _ _)]
              simp only []
              have hlw : lazyW f.file s p nc = (List.range' 0 nc.toNat).map (lazyChunk f.file s (segCsz s) p) := by
                unfold lazyW; rw [hcg.kind]
              by_cases hk : (i : Int) < nc
              · rw [if_pos hk]
                obtain ⟨st2, h2⟩ := readChannelChunkAt_exact f.file s (segCsz s) hcg p i (by omega) st.trace
                have h2' : readChannelChunkAt f.file s ReaderKind.contiguous (List.filter (fun x => x.hasData) s.objects) p i
                    ⟨s.dataPosition + i * segCsz s, st.trace⟩ = .ok (lazyChunk f.file s (segCsz s) p i, st2) := h2
                rw [F_bind_ok h2']
                refine ⟨_, _, st2, rfl, ?_⟩
                obtain ⟨k', hk'⟩ : ∃ k', nc.toNat - i = k' + 1 := ⟨nc.toNat - i - 1, by omega⟩
                have hk'' : nc.toNat - (i + 1) = k' := by omega
                apply ChanStepSpecW.cons (rest := (lazyW f.file s p nc).drop (i + 1) ++
                  chanTailW f p m.numValues (chanEnd f p m.numValues - it.seg) (it.seg + 1))
                · rw [hrestEq, hsegrest, hlw, drop_map_range', drop_map_range', hk', hk'', List.range'_succ,
                    List.map_cons, List.cons_append]
                · rw [chanRestW_mk f p m.numValues s _ _ _ _ _ _ _ _ hle hs]
                  rw [hplan]
                  rfl
                · rfl
                · refine ⟨⟨rfl, rfl, rfl, rfl, hinv.seg, ?_⟩, ?_⟩
                  · intro i' init' s' h hs'
                    simp only [] at h hs'
                    rw [hs] at hs'
                    cases h; cases hs'; rfl
                  · intro i' init' h
                    simp only [] at h
                    cases h; omega
              · rw [if_neg hk]
                apply hnext
                rw [hsegrest, hlw, drop_map_range']
                have : nc.toNat - i = 0 := by omega
                rw [this]; rfl
            · rw [hi.kind, F_bind_ok (liftE_ok _ _)]
              apply hnext
              rw [hsegrest]
              unfold lazyW
              rw [hi.kind]
              exact List.drop_eq_nil_of_le (by simpa using hi1)

end Tdms.Proofs.C03
