import TdmsProofs.Lemmas.C05WFDaqmx
import TdmsProofs.Lemmas.C05ChunkLocal

/-!
# C05WF: chunk locality for files WITH DAQmx segments

C05 proved `ChunkLocal f` (hence history independence of index reads) for files without DAQmx segments
and named the missing lemma.  Here it is proved for files whose DAQmx segments are uniform: all data
objects of a DAQmx segment declare the same number of values per chunk `N`, and DAQmx chunk sizes `≤ N`
(`IndexWFD`).  The proof of `chunkLocal_of_wfd` is C05's `chunkLocal_of_wf` with the chunk-capacity
lemma extended to the DAQmx reader (`post_readChannelChunkAt_daqmx`).  Core Lean only.
-/

namespace Tdms.Proofs.C05WF

open Tdms Tdms.Model Tdms.Generated Tdms.Proofs.C05 Tdms.Proofs.C19

theorem post_readChannelChunkAt_any (file : Bytes) (s : Segment) (kind : ReaderKind) (d : List SegObj) (p : Bytes)
    (j : Nat) (hk : kind = .daqmx → ∃ N, DaqUniform N d) :
    Post (readChannelChunkAt file s kind d p j) (fun c => dataLen c ≤ chanCap s j p d) := by
  cases kind with
  | daqmx =>
    obtain ⟨N, hN⟩ := hk rfl
    exact post_readChannelChunkAt_daqmx N file s d p j hN
  | interleaved => exact post_readChannelChunkAt file s .interleaved d p j (by intro h; cases h)
  | contiguous => exact post_readChannelChunkAt file s .contiguous d p j (by intro h; cases h)

theorem post_readChannelChunksFrom_any (file : Bytes) (s : Segment) (kind : ReaderKind) (d : List SegObj) (p : Bytes)
    (hk : kind = .daqmx → ∃ N, DaqUniform N d) (cs initial co : Nat) (stop : Int) (fuel i : Nat) :
    Post (readChannelChunksFrom file s kind d p cs initial co stop fuel i)
      (fun l => ∀ c, l.head? = some c → dataLen c ≤ chanCap s (co + i) p d) := by
  cases fuel with
  | zero => unfold readChannelChunksFrom; exact Post.pure _ (fun c h => by cases h)
  | succ fuel =>
    unfold readChannelChunksFrom
    refine Post.ite (fun _ => ?_) (fun _ => Post.pure _ (fun c h => by cases h))
    refine Post.bind (post_readChannelChunkAt_any file s kind d p (co + i) hk) (fun c hc => ?_)
    refine Post.bind (Post.true _) (fun _ _ => ?_)
    refine Post.bind (Post.true _) (fun rest _ => Post.pure _ ?_)
    intro c' h
    simp only [List.head?_cons, Option.some.injEq] at h
    rw [← h]; exact hc

/-- C05's `post_segReadChannel` with the DAQmx reader included -/
theorem post_segReadChannel_d (file : Bytes) (s : Segment) (p : Bytes) (ci : Nat)
    (hd : dataReaderKind s = .ok .daqmx → ∃ N, DaqUniform N (C19.dataObjs s))
    (hov : dataReaderKind s = .ok .interleaved → s.override = none) :
    Post (segReadChannel file s p ci (some 1))
      (fun chunks => ∀ c, chunks.head? = some c → dataLen c ≤ chanCap s ci p (C19.dataObjs s)) := by
  by_cases hk : dataReaderKind s = .ok .daqmx
  · -- the DAQmx reader
    rw [segReadChannel_eq]
    refine Post.bind (Post.true _) (fun _ _ => ?_)
    refine Post.bind (Post.true _) (fun cs _ => ?_)
    refine Post.bind (Post.true _) (fun _ _ => ?_)
    unfold segReadBody
    dsimp only
    refine Post.bind (Q := fun kind => dataReaderKind s = .ok kind) (Post.liftE _ (fun a h => h)) (fun kind hkind => ?_)
    refine Post.bind (Post.true _) (fun initial _ => ?_)
    have hkd : kind = .daqmx := by
      rw [hk] at hkind; injection hkind with h; exact h.symm
    subst hkd
    dsimp only
    refine Post.bind (post_readChannelChunksFrom_any file s .daqmx (C19.dataObjs s) p (fun _ => hd hk) cs initial ci
      _ _ 0) (fun l hl => Post.pure _ ?_)
    intro c hc
    by_cases hraw : (!hasFlag s.toc kTocRawData) = true
    · rw [if_pos hraw] at hc
      simp only [List.cons_append, List.nil_append, List.head?_cons, Option.some.injEq] at hc
      rw [← hc]; simp [dataLen]
    · rw [if_neg hraw] at hc
      exact hl c (by simpa using hc)
  · exact post_segReadChannel file s p ci hk hov

theorem post_chunkForPlan_d (f : OpenFile) (p : Bytes) (k : Nat) (ci : Segment → Nat)
    (hnd : ∀ s ∈ f.segments, dataReaderKind s = .ok .daqmx → ∃ N, DaqUniform N (C19.dataObjs s))
    (hov : ∀ s ∈ f.segments, dataReaderKind s = .ok .interleaved → s.override = none) :
    Post (chunkForPlan f p k ci) (fun r => ∃ s, f.segments[k]? = some s ∧ segCs s p ≠ 0 ∧
      r.2 = segStartOf f p k + ci s * segCs s p ∧ dataLen r.1 ≤ chanCap s (ci s) p (C19.dataObjs s)) := by
  unfold chunkForPlan
  cases hs : f.segments[k]? with
  | none => exact Post.throw _
  | some s =>
    dsimp only
    have hmem : s ∈ f.segments := List.mem_of_getElem? hs
    refine Post.ite (fun _ => ?_) (fun h0 => ?_)
    · rw [throw_bind_F]; exact Post.throw _
    · refine Post.bind (Post.true _) (fun _ _ => ?_)
      refine Post.bind (post_segReadChannel_d f.file s p (ci s) (hnd s hmem) (hov s hmem)) (fun chunks hch => ?_)
      split
      · rename_i c hc
        exact Post.pure _ ⟨s, rfl, h0, rfl, hch c hc⟩
      · exact Post.throw _

/-- well-formedness for chunk locality, DAQmx segments allowed when uniform -/
structure IndexWFD (f : OpenFile) : Prop where
  daqUniform : ∀ s ∈ f.segments, dataReaderKind s = .ok .daqmx → ∃ N, DaqUniform N (C19.dataObjs s)
  interleavedFull : ∀ s ∈ f.segments, dataReaderKind s = .ok .interleaved → s.override = none
  uniquePaths : ∀ s ∈ f.segments, ∀ o ∈ s.objects, ∀ o' ∈ s.objects, o.path = o'.path → o = o'
  override_le : ∀ s ∈ f.segments, ∀ ov, s.override = some ov → ∀ o ∈ s.objects, o.hasData = true →
    overrideGet ov o.path ≤ o.numberValues
  override_chunks : ∀ s ∈ f.segments, ∀ ov, s.override = some ov → 1 ≤ s.numChunks
  numValues_le : ∀ p, chanLen f p ≤ indexTotal f p

/-- `IndexWF` is the special case without DAQmx segments -/
theorem IndexWFD.of_indexWF {f : OpenFile} (h : IndexWF f) : IndexWFD f :=
  ⟨fun s hs hk => absurd hk (h.noDaqmx s hs), h.interleavedFull, h.uniquePaths,
    fun s hs ov hov o ho _ => h.override_le s hs ov hov o ho, h.override_chunks,
    h.numValues_le⟩

/-- **Chunk locality** for well-formed files, DAQmx segments included (when uniform). -/
theorem chunkLocal_of_wfd (f : OpenFile) (hwf : IndexWFD f) : ChunkLocal f := by
  intro p j₀ chunk off hj₀ hat j hlo hhi
  have hj₀' : j₀ < indexTotal f p := Nat.lt_of_lt_of_le hj₀ (hwf.numValues_le p)
  -- what the successful read at `j₀` tells us
  obtain ⟨io', hrun⟩ := hat {}
  rw [readChannelChunkForIndex_eq] at hrun
  obtain ⟨s, hs, hcs, hoff, hL⟩ :=
    post_chunkForPlan_d f p _ _ hwf.daqUniform hwf.interleavedFull _ _ _ hrun
  have hmem : s ∈ f.segments := List.mem_of_getElem? hs
  dsimp only at hoff hL
  obtain ⟨hk, hlo₀, hhi₀, hoffs⟩ := index_facts f p j₀ hj₀'
  -- the values of the segment
  have hnv : (f.segments.map (nvOf p)).getD (indexSegIdx f p j₀) 0 = nvOf p s := by
    rw [List.getD_eq_getElem?_getD, List.getElem?_map, hs]; rfl
  rw [hnv] at hoffs
  have hpos : 0 < nvOf p s := by omega
  -- the data object
  cases hobj : getSegmentObject s p with
  | none => unfold nvOf at hpos; rw [hobj] at hpos; exact absurd hpos (Nat.lt_irrefl _)
  | some o =>
    obtain ⟨homem, hopath⟩ := getSegmentObject_some hobj
    have hnsv : nvOf p s = numberOfSegmentValues o s := by unfold nvOf; rw [hobj]
    have hcsv : segCs s p = o.numberValues := by unfold segCs; rw [hobj]
    have hdata : o.hasData = true := by
      cases hd : o.hasData with
      | true => rfl
      | false =>
        rw [hnsv] at hpos
        unfold numberOfSegmentValues at hpos
        rw [hd] at hpos
        exact absurd hpos (Nat.lt_irrefl _)
    have hod : o ∈ C19.dataObjs s := by
      unfold C19.dataObjs; rw [List.mem_filter]; exact ⟨homem, hdata⟩
    -- the capacity of the chunk
    have hcap : chanCap s (indexChunkIdx f p j₀ s) p (C19.dataObjs s) = channelNumberValues s o (indexChunkIdx f p j₀ s) := by
      obtain ⟨o', hfind, ho', hp'⟩ := find?_path_some ⟨o, hod, hopath⟩
      have ho's : o' ∈ s.objects := (List.mem_filter.1 ho').1
      have : o' = o := hwf.uniquePaths s hmem o' ho's o homem (hp'.trans hopath.symm)
      unfold chanCap
      rw [hfind, this]
    rw [hcap] at hL
    -- arithmetic
    have hcs0 : 0 < o.numberValues := by rw [← hcsv]; omega
    have hfit := chunk_fits o.numberValues s.numChunks (j₀ - segStartOf f p (indexSegIdx f p j₀))
      (numberOfSegmentValues o s) (channelNumberValues s o (indexChunkIdx f p j₀ s))
      (s.override.map fun ov => overrideGet ov o.path) hcs0 (by omega)
      (by unfold numberOfSegmentValues
          rw [hdata]
          cases s.override <;> rfl)
      (by intro v hv
          cases hov : s.override with
          | none => rw [hov] at hv; cases hv
          | some ov =>
            rw [hov] at hv
            injection hv with hv
            rw [← hv]
            exact ⟨hwf.override_le s hmem ov hov o homem hdata, hwf.override_chunks s hmem ov hov⟩)
      (by unfold channelNumberValues
          rw [indexChunkIdx_eq, hcsv]
          cases s.override <;> rfl)
    obtain ⟨hcaple, hfits⟩ := hfit
    have hci₀ : indexChunkIdx f p j₀ s = (j₀ - segStartOf f p (indexSegIdx f p j₀)) / o.numberValues := by
      rw [indexChunkIdx_eq, hcsv]
    rw [← hci₀] at hfits
    rw [hcsv] at hoff
    have hLlen : (chunk.data.getD []).length = dataLen chunk := rfl
    rw [hLlen] at hhi
    -- same segment
    have hseg : indexSegIdx f p j = indexSegIdx f p j₀ := by
      show (buildIndex f.segments p).firstSegment + searchRight (buildIndex f.segments p).offsets j =
        (buildIndex f.segments p).firstSegment + searchRight (buildIndex f.segments p).offsets j₀
      congr 1
      refine searchRight_eq _ j _ hk (fun i hi => ?_) (by omega)
      have hm := buildIndex_mono f.segments p i (searchRight (buildIndex f.segments p).offsets j₀ - 1) (by omega) (by omega)
      have hst : segStartOf f p (indexSegIdx f p j₀) =
          (buildIndex f.segments p).offsets.getD (searchRight (buildIndex f.segments p).offsets j₀ - 1) 0 := by
        show segStartOf f p ((buildIndex f.segments p).firstSegment + _) = _
        rw [segStartOf_add, if_neg (by omega)]
      omega
    -- same chunk
    have hci : indexChunkIdx f p j s = indexChunkIdx f p j₀ s := by
      rw [indexChunkIdx_eq, hseg, hcsv]
      exact Nat.div_eq_of_lt_le (by omega) (by rw [Nat.add_mul]; omega)
    have hact : readChannelChunkForIndex f p j = readChannelChunkForIndex f p j₀ := by
      apply readChannelChunkForIndex_congr f p j j₀ hseg
      intro s' hs'
      rw [hseg, hs] at hs'
      injection hs' with hs'
      rw [← hs']; exact hci
    intro io
    rw [hact]
    exact hat io


end Tdms.Proofs.C05WF
