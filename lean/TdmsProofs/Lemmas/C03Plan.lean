/-
  C03 — what `segPlan` asks of a segment: for every segment the window loop visits, the planned
  chunk offset and chunk count stay inside the segment, and values are skipped only in a segment
  that has chunks.  Built on the C04 index / frame lemmas.  Core Lean only.
-/
import TdmsProofs.Lemmas.C04WindowMain

namespace Tdms.Proofs.C03

open Tdms Tdms.Model Tdms.Proofs.C04

theorem nvals_le (l : SegL) (hwf : l.WF) (hcs : 0 < l.cs) : l.nvals ≤ l.cs * l.k ∧ (0 < l.nvals → 0 < l.k) := by
  have h := nvals_eq l hwf hcs
  have hfs := fs_le l hwf
  by_cases hk : l.k = 0
  · rw [if_pos hk] at h; rw [h]; simp
  · rw [if_neg hk] at h
    obtain ⟨k', hk'⟩ : ∃ k', l.k = k' + 1 := ⟨l.k - 1, by omega⟩
    rw [hk'] at h ⊢
    simp only [Nat.add_sub_cancel] at h
    rw [Nat.mul_succ]
    constructor <;> omega

theorem endAdj_le (cs fs : Nat) (t nc0 : Int) (hcs : 0 < cs) (ht : 0 ≤ t) : endAdj cs fs t nc0 ≤ nc0 := by
  unfold endAdj
  have hc : (0 : Int) ≤ cs := by omega
  split
  · have := Int.ediv_nonneg (show 0 ≤ t - (fs : Int) by omega) hc
    omega
  · have := Int.ediv_nonneg ht hc
    omega

/-- the facts about one planned segment read -/
structure PlanOk (s : Segment) (co skip nc : Int) : Prop where
  co_nonneg : 0 ≤ co
  inside : co.toNat + nc.toNat ≤ s.numChunks
  skip_chunks : skip ≠ 0 → 0 < s.numChunks

theorem planA_ok (l : SegL) (hwf : l.WF) (isStart isEnd : Bool) (a t : Int) (co skip nc : Int)
    (hs : isStart = true → 0 ≤ a ∧ a < l.nvals) (he : isEnd = true → 0 ≤ t)
    (h : planA l isStart isEnd a t = some (co, skip, nc)) :
    0 ≤ co ∧ co.toNat + nc.toNat ≤ l.k ∧ (skip ≠ 0 → 0 < l.k) := by
  have hcs : l.cs ≠ 0 := by
    intro hz; unfold planA at h; rw [if_pos hz] at h; cases h
  have hcs' : 0 < l.cs := by omega
  rw [planA_eq l hcs] at h
  simp only [Option.some.injEq, Prod.mk.injEq] at h
  obtain ⟨hco, hskip, hnc⟩ := h
  obtain ⟨hnv, hnk⟩ := nvals_le l hwf hcs'
  cases isStart with
  | false =>
    simp only [Bool.false_eq_true, if_false] at hco hskip hnc
    subst hco; subst hskip
    refine ⟨by omega, ?_, by intro h; exact absurd rfl h⟩
    cases isEnd with
    | false =>
      simp only [Bool.false_eq_true, if_false] at hnc
      subst hnc; simp
    | true =>
      simp only [if_true] at hnc
      have := endAdj_le l.cs l.fs t l.k hcs' (he rfl)
      rw [hnc] at this
      omega
  | true =>
    obtain ⟨ha0, haN⟩ := hs rfl
    simp only [if_true] at hco hskip hnc
    have hc : (0 : Int) < l.cs := by omega
    have hq0 : 0 ≤ a / (l.cs : Int) := Int.ediv_nonneg ha0 (by omega)
    have hqk : a / (l.cs : Int) < l.k := by
      apply Int.ediv_lt_of_lt_mul hc
      have : ((l.nvals : Nat) : Int) ≤ ((l.cs * l.k : Nat) : Int) := by exact_mod_cast hnv
      simp only [Int.natCast_mul] at this
      rw [Int.mul_comm]
      omega
    have hk0 : 0 < l.k := by omega
    refine ⟨by omega, ?_, fun _ => hk0⟩
    cases isEnd with
    | false =>
      simp only [Bool.false_eq_true, if_false] at hnc
      omega
    | true =>
      simp only [if_true] at hnc
      have := endAdj_le l.cs l.fs t ((l.k : Int) - a / (l.cs : Int)) hcs' (he rfl)
      rw [hnc] at this
      omega

/-- **plan facts**: every segment read planned by `readRawDataForChannel` stays inside its segment -/
theorem plan_ok (segs : List Segment) (p : Bytes) (numValues : Nat)
    (hwf : WellFormed (segs.map (layoutOf p))) (hnum : numValues = total (segs.map (layoutOf p)))
    (offset : Int) (length : Option Int) (h0 : 0 ≤ offset) :
    let w := windowParams segs p numValues offset length
    ∀ i s, segs[i]? = some s → w.startSeg ≤ i → i ≤ w.endSeg → ∀ co skip nc,
      segPlan p w.ix offset w.endIndex w.startSeg w.endSeg i s = some (co, skip, nc) → PlanOk s co skip nc := by
  intro w i s hs h1 h2 co skip nc hplan
  have spec := buildIndex_spec segs p
  rw [nvOf_eq segs p hwf] at spec
  have htot : numValues = ((segs.map (layoutOf p)).map SegL.nvals).sum := by rw [hnum]; rfl
  have hend : w.endIndex ≤ ((((segs.map (layoutOf p)).map SegL.nvals).sum : Nat) : Int) := by
    rw [← htot]
    show offset + _ ≤ _
    cases length with
    | none => simp only []; omega
    | some l => simp only []; omega
  have fr : Frame _ w.ix offset w.endIndex w.startSeg w.endSeg := frame_of_spec _ w.ix spec offset w.endIndex h0 hend
  have hi : i < segs.length := by
    rcases Nat.lt_or_ge i segs.length with h | h
    · exact h
    · rw [List.getElem?_eq_none h] at hs; cases hs
  have hsi : segs[i] = s := by
    rw [List.getElem?_eq_getElem hi] at hs; exact Option.some.inj hs
  have hinv : i < ((segs.map (layoutOf p)).map SegL.nvals).length := by simpa using hi
  obtain ⟨hE1, hE2⟩ := fr.hE i h1 h2 hinv
  have hps := psum_succ _ i hinv
  have hnvi : ((segs.map (layoutOf p)).map SegL.nvals)[i] = (layoutOf p s).nvals := by simp [hsi]
  rw [hnvi] at hps
  rw [segPlan_eq_planA, hE1, hE2] at hplan
  have hl : (layoutOf p s).WF := hwf _ (List.mem_map_of_mem (by rw [← hsi]; exact List.getElem_mem hi))
  have := planA_ok (layoutOf p s) hl _ _ _ _ co skip nc
    (by intro h
        have h : i = w.startSeg := by simpa using h
        have hA := fr.hA
        have hB := fr.hB (by omega) (by rw [← h]; exact hinv)
        rw [← h] at hA hB
        rw [hps] at hB
        simp only [Int.natCast_add] at hB
        omega)
    (by intro h
        have h : i = w.endSeg := by simpa using h
        have hC := fr.hC
        rw [← h] at hC
        omega)
    hplan
  exact ⟨this.1, this.2.1, this.2.2⟩

/-- a window starting at offset 0 never skips chunks or values -/
theorem plan_zero (segs : List Segment) (p : Bytes) (numValues : Nat)
    (hwf : WellFormed (segs.map (layoutOf p))) (hnum : numValues = total (segs.map (layoutOf p)))
    (length : Option Int) :
    let w := windowParams segs p numValues 0 length
    ∀ i s, segs[i]? = some s → w.startSeg ≤ i → i ≤ w.endSeg → ∀ co skip nc,
      segPlan p w.ix 0 w.endIndex w.startSeg w.endSeg i s = some (co, skip, nc) → co = 0 ∧ skip = 0 := by
  intro w i s hs h1 h2 co skip nc hplan
  have spec := buildIndex_spec segs p
  rw [nvOf_eq segs p hwf] at spec
  have htot : numValues = ((segs.map (layoutOf p)).map SegL.nvals).sum := by rw [hnum]; rfl
  have hend : w.endIndex ≤ ((((segs.map (layoutOf p)).map SegL.nvals).sum : Nat) : Int) := by
    rw [← htot]
    show (0 : Int) + _ ≤ _
    cases length with
    | none => simp only []; omega
    | some l => simp only []; omega
  have fr : Frame _ w.ix 0 w.endIndex w.startSeg w.endSeg := frame_of_spec _ w.ix spec 0 w.endIndex (by omega) hend
  have hi : i < segs.length := by
    rcases Nat.lt_or_ge i segs.length with h | h
    · exact h
    · rw [List.getElem?_eq_none h] at hs; cases hs
  have hinv : i < ((segs.map (layoutOf p)).map SegL.nvals).length := by simpa using hi
  obtain ⟨hE1, hE2⟩ := fr.hE i h1 h2 hinv
  rw [segPlan_eq_planA, hE1, hE2] at hplan
  have hcs : (layoutOf p s).cs ≠ 0 := by
    intro hz; unfold planA at hplan; rw [if_pos hz] at hplan; cases hplan
  rw [planA_eq _ hcs] at hplan
  simp only [Option.some.injEq, Prod.mk.injEq] at hplan
  obtain ⟨hco, hskip, _⟩ := hplan
  by_cases hst : i = w.startSeg
  · have hA := fr.hA
    rw [← hst] at hA
    have h0 : (0 : Int) - ((psum ((segs.map (layoutOf p)).map SegL.nvals) i : Nat) : Int) = 0 := by omega
    simp only [hst, decide_true, if_true] at hco hskip
    rw [← hst, h0] at hco hskip
    simp at hco hskip
    exact ⟨hco.symm, hskip.symm⟩
  · simp only [hst, decide_false, Bool.false_eq_true, if_false] at hco hskip
    exact ⟨hco.symm, hskip.symm⟩

theorem endAdj_zero (cs fs : Nat) (nc0 : Int) (_hcs : 0 < cs) :
    endAdj cs fs 0 nc0 = if fs = 0 then nc0 - 1 else nc0 := by
  unfold endAdj
  by_cases hfs : fs = 0
  · subst hfs; simp
  · rw [if_neg (by omega), if_neg hfs]; simp

/-- **the whole-channel window reads every chunk**: for the window `(0, None)` the planned number of
    chunks of a segment is `numChunks`, except that a truncated final chunk holding no value of the
    channel (in the last segment with data) is left out -/
theorem plan_full (segs : List Segment) (p : Bytes) (numValues : Nat)
    (hwf : WellFormed (segs.map (layoutOf p))) (hnum : numValues = total (segs.map (layoutOf p))) :
    let w := windowParams segs p numValues 0 none
    ∀ i s, segs[i]? = some s → w.startSeg ≤ i → i ≤ w.endSeg → ∀ co skip nc,
      segPlan p w.ix 0 w.endIndex w.startSeg w.endSeg i s = some (co, skip, nc) →
      nc = s.numChunks ∨ (nc = (s.numChunks : Int) - 1 ∧ 0 < s.numChunks ∧ (layoutOf p s).fs = 0) := by
  intro w i s hs h1 h2 co skip nc hplan
  have spec := buildIndex_spec segs p
  rw [nvOf_eq segs p hwf] at spec
  have htot : numValues = ((segs.map (layoutOf p)).map SegL.nvals).sum := by rw [hnum]; rfl
  have hendIdx : w.endIndex = (numValues : Int) := by
    show (0 : Int) + ((numValues : Int) - 0) = _
    omega
  have hend : w.endIndex ≤ ((((segs.map (layoutOf p)).map SegL.nvals).sum : Nat) : Int) := by
    rw [hendIdx, ← htot]; exact Int.le_refl _
  have fr : Frame _ w.ix 0 w.endIndex w.startSeg w.endSeg := frame_of_spec _ w.ix spec 0 w.endIndex (by omega) hend
  have hi : i < segs.length := by
    rcases Nat.lt_or_ge i segs.length with h | h
    · exact h
    · rw [List.getElem?_eq_none h] at hs; cases hs
  have hsi : segs[i] = s := by rw [List.getElem?_eq_getElem hi] at hs; exact Option.some.inj hs
  have hinv : i < ((segs.map (layoutOf p)).map SegL.nvals).length := by simpa using hi
  obtain ⟨hE1, hE2⟩ := fr.hE i h1 h2 hinv
  have hz := plan_zero segs p numValues hwf hnum none i s hs h1 h2 co skip nc hplan
  rw [segPlan_eq_planA, hE1, hE2] at hplan
  have hcs : (layoutOf p s).cs ≠ 0 := by
    intro hz; unfold planA at hplan; rw [if_pos hz] at hplan; cases hplan
  rw [planA_eq _ hcs] at hplan
  simp only [Option.some.injEq, Prod.mk.injEq] at hplan
  obtain ⟨hco, _, hnc⟩ := hplan
  have hk : ((layoutOf p s).k : Int) = s.numChunks := rfl
  -- the number of chunks before the end adjustment is `k`
  have hnc0 : (if decide (i = w.startSeg) = true then
      ((layoutOf p s).k : Int) - (0 - ((psum ((segs.map (layoutOf p)).map SegL.nvals) i : Nat) : Int)) / ((layoutOf p s).cs : Int)
      else ((layoutOf p s).k : Int)) = s.numChunks := by
    split
    · rename_i hst
      rw [if_pos hst] at hco
      rw [hco, hz.1, hk]; omega
    · exact hk
  rw [hnc0] at hnc
  by_cases hen : i = w.endSeg
  · simp only [hen, decide_true, if_true] at hnc
    have hC := fr.hC
    have hle := psum_le_sum ((segs.map (layoutOf p)).map SegL.nvals) (w.endSeg + 1)
    rw [← htot] at hle
    have ht : ((psum ((segs.map (layoutOf p)).map SegL.nvals) (w.endSeg + 1) : Nat) : Int) - w.endIndex = 0 := by
      rw [hendIdx] at hC ⊢; omega
    rw [ht, endAdj_zero _ _ _ (by omega)] at hnc
    by_cases hfs : (layoutOf p s).fs = 0
    · rw [if_pos hfs] at hnc
      right
      refine ⟨hnc.symm, ?_, hfs⟩
      -- a final chunk of size 0 is a truncated one, so the segment has a chunk
      have hl : (layoutOf p s).WF := hwf _ (List.mem_map_of_mem (by rw [← hsi]; exact List.getElem_mem hi))
      unfold SegL.fs at hfs
      unfold SegL.WF at hl
      cases hf : (layoutOf p s).f with
      | none => rw [hf] at hfs; simp only [] at hfs; omega
      | some n => rw [hf] at hl; exact hl.2
    · rw [if_neg hfs] at hnc
      exact Or.inl hnc.symm
  · simp only [hen, decide_false, Bool.false_eq_true, if_false] at hnc
    exact Or.inl hnc.symm

end Tdms.Proofs.C03
