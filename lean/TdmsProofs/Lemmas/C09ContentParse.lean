/-
  C09 (content): the state-free metadata parser `parseObjs` (C02) on the spec's `encMeta`, every kind of
  raw-data index (no data / matches previous / standard / DAQmx), both byte orders; hence the metadata block of
  a spec-encoded segment is read independently of what follows it.  Core Lean only.
-/
import TdmsProofs.Lemmas.C09ContentStep
import TdmsProofs.Lemmas.C02Parse
import TdmsProofs.Lemmas.ObjectLemmas
import TdmsProofs.Lemmas.LeadInLemmas

namespace Tdms.Proofs.C09Content

open Tdms Tdms.Model Tdms.Generated Tdms.Proofs.Bytes

/-! ## size side conditions, as executable predicates -/

def scalerFitsB (dg : Bool) (s : ScalerEnc) : Bool :=
  decide (s.daqType < 2 ^ 32) && decide (s.buffer < 2 ^ 32) && decide (s.offset < 2 ^ 32) &&
  decide (s.bitmap < (if dg then 2 ^ 8 else 2 ^ 32)) && decide (s.scaleId < 2 ^ 32) &&
  (daqmxTypes.find? (·.1 = s.daqType)).isSome

/-- every number of a raw-data index fits the field `encIdx` writes it into -/
def idxFitsB : IdxEnc → Bool
  | .full ty _ total => decide (ty ≠ tyString) || decide (total < 2 ^ 64)
  | .daqmx dg _ _ sc w =>
    sc.all (scalerFitsB dg) && w.all (fun x => decide (x < 2 ^ 32)) && decide (sc.length < 2 ^ 32) &&
    decide (w.length < 2 ^ 32)
  | _ => true

def propFitsB (p : PropEnc) : Bool :=
  decide (p.name.length < 2 ^ 32) && (decide (p.ty ≠ tyString) || decide (p.val.length < 2 ^ 32))

/-- an object whose lengths and counts fit their 4-byte fields -/
def objFitsB (o : ObjEnc) : Bool :=
  idxFitsB o.idx && decide (o.props.length < 2 ^ 32) && o.props.all propFitsB

theorem idxFitsB_sound {i : IdxEnc} (h : idxFitsB i = true) : C02.idxFits i := by
  cases i with
  | noData => trivial
  | matchesPrev => trivial
  | full ty n total =>
    simp only [idxFitsB, Bool.or_eq_true, decide_eq_true_eq] at h
    intro hty
    rcases h with h | h
    · exact absurd hty h
    · exact h
  | daqmx dg ty n sc w =>
    simp only [idxFitsB, Bool.and_eq_true, List.all_eq_true, decide_eq_true_eq] at h
    obtain ⟨⟨⟨h1, h2⟩, h3⟩, h4⟩ := h
    refine ⟨?_, h2, h3, h4⟩
    intro s hs
    have := h1 s hs
    simp only [scalerFitsB, Bool.and_eq_true, decide_eq_true_eq] at this
    obtain ⟨⟨⟨⟨⟨a, b⟩, c⟩, d⟩, e⟩, f⟩ := this
    exact ⟨a, b, c, d, e, f⟩

theorem propFitsB_sound {p : PropEnc} (h : propFitsB p = true) : propFits p := by
  simp only [propFitsB, Bool.and_eq_true, Bool.or_eq_true, decide_eq_true_eq] at h
  refine ⟨h.1, fun hty => ?_⟩
  rcases h.2 with h2 | h2
  · exact absurd hty h2
  · exact h2

/-! ## the parser on encoded objects -/

/-- what the state-free parser returns for a listed object -/
def itemOf (o : ObjEnc) : C02.Item := ⟨o.path, C02.hdrOf o.path o.idx, o.props.map canonProp⟩

theorem P_bind_bind_ok {α β γ : Type} {x : P α} {g : α → P β} {k : β → P γ} {s s' : Bytes} {b : β}
    (h : (x >>= g) s = .ok (b, s')) : (x >>= fun a => g a >>= k) s = k b s' := by
  rw [← bind_assoc]; exact P_bind_ok h

theorem parseOne_encObj (e : Endian) (o : ObjEnc) (rest : Bytes) (hwf : wfObj o = true)
    (hfit : objFitsB o = true) :
    C02.parseOne e (encObj e o ++ rest) = .ok (itemOf o, rest) := by
  simp only [wfObj, Bool.and_eq_true, decide_eq_true_eq, List.all_eq_true] at hwf
  obtain ⟨⟨hidx, hprops⟩, hpath⟩ := hwf
  simp only [objFitsB, Bool.and_eq_true, decide_eq_true_eq, List.all_eq_true] at hfit
  obtain ⟨⟨hif, hpl⟩, hpf⟩ := hfit
  unfold C02.parseOne encObj
  simp only [List.append_assoc]
  rw [P_bind_ok (readString_encString e _ _ hpath),
    P_bind_bind_ok (C02.readHdr_encIdx e o.path _ o.idx hidx (idxFitsB_sound hif)),
    P_bind_ok (uN_enc_of_lt e (w := 4) hpl _),
    P_bind_ok (readProperties_encProps e o.props rest hprops (fun p hp => propFitsB_sound (hpf p hp)))]
  rfl

theorem parseObjs_encObjs (e : Endian) : ∀ (objs : List ObjEnc) (rest : Bytes),
    (∀ o ∈ objs, wfObj o = true ∧ objFitsB o = true) →
    C02.parseObjs e objs.length (objs.flatMap (encObj e) ++ rest) = .ok (objs.map itemOf, rest)
  | [], rest, _ => rfl
  | o :: os, rest, h => by
    have ho := h o List.mem_cons_self
    simp only [List.length_cons, List.flatMap_cons, List.append_assoc, C02.parseObjs]
    rw [P_bind_ok (parseOne_encObj e o _ ho.1 ho.2),
      P_bind_ok (parseObjs_encObjs e os rest fun x hx => h x (List.mem_cons_of_mem _ hx))]
    rfl

/-- **the metadata block of a segment parses to its listed objects, and exactly the block is consumed** -/
theorem parseMeta_encMeta (e : Endian) (objs : List ObjEnc) (rest : Bytes) (hlen : objs.length < 2 ^ 32)
    (h : ∀ o ∈ objs, wfObj o = true ∧ objFitsB o = true) :
    (do let n ← uN e 4; C02.parseObjs e n : P (List C02.Item)) (encMeta e objs ++ rest) =
      .ok (objs.map itemOf, rest) := by
  unfold encMeta
  rw [List.append_assoc, P_bind_ok (uN_enc_of_lt e (w := 4) hlen _)]
  exact parseObjs_encObjs e objs rest h

/-- the metadata part of the class: listed objects are well-formed one by one and their numbers fit -/
def metaFitsB (s : SegEnc) : Bool :=
  !s.hasMeta || (s.objs.all (fun o => wfObj o && objFitsB o) && decide (s.objs.length < 2 ^ 32))

/-- **a spec-encoded metadata block (with its padding) is read independently of what follows it** -/
theorem metaIndep_segMeta (s : SegEnc) (h : metaFitsB s = true) : MetaIndep (tocMask s) (segMeta s) := by
  by_cases hm : s.hasMeta = true
  · simp only [metaFitsB, hm, Bool.not_true, Bool.false_or, Bool.and_eq_true, List.all_eq_true,
      decide_eq_true_eq] at h
    obtain ⟨hobjs, hlen⟩ := h
    apply metaIndep_of_parse (tocMask s) (segMeta s) (s.objs.map itemOf)
    intro r
    refine ⟨List.replicate s.padding 0 ++ r, ?_⟩
    rw [segEndian_of_tocMask]
    simp only [segMeta, hm, if_true, List.append_assoc]
    exact parseMeta_encMeta s.endian s.objs _ hlen hobjs
  · exact metaIndep_noMeta _ _ (by rw [hasFlag_tocMask_meta]; simpa using hm)

end Tdms.Proofs.C09Content
