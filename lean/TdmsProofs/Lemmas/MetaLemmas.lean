/-
  Metadata: properties and raw-data indexes.  Core Lean only.
-/
import TdmsProofs.Lemmas.ValueLemmas

namespace Tdms.Proofs.Bytes

open Tdms Tdms.Generated Tdms.Model

/-! ## properties -/

/-- what the reader returns for a property: the value itself, except that a Boolean is
    normalised to `0`/`1` (`struct.unpack` then `bool(...)`) -/
def canonPropVal (p : PropEnc) : Bytes :=
  if p.ty = tyBoolean then [if decLE p.val = 0 then 0 else 1] else p.val

def canonProp (p : PropEnc) : PropVal := ⟨p.name, p.ty, canonPropVal p⟩

/-- size side conditions that `wfProp` does not state: the lengths fit their 4-byte fields -/
def propFits (p : PropEnc) : Prop :=
  p.name.length < 2 ^ 32 ∧ (p.ty = tyString → p.val.length < 2 ^ 32)

theorem storeValue_little (ty : Nat) (v : Bytes) : storeValue .little ty v = v := rfl

theorem storeValue_big_reverse {ty s : Nat} (ha : typeAtoms ty = [s]) (v : Bytes)
    (hv : v.length = s) : (storeValue .big ty v).reverse = v := by
  subst hv
  simp [storeValue, ha, swapAtoms_single]

theorem storeValue_single_length (e : Endian) {ty s : Nat} (ha : typeAtoms ty = [s]) (v : Bytes)
    (hv : v.length = s) : (storeValue e ty v).length = s := by
  cases e
  · exact hv
  · subst hv
    simp [storeValue, ha, swapAtoms_single]

theorem tyTimeStamp_ne_tyString : tyTimeStamp ≠ tyString := by decide
theorem tyTimeStamp_ne_tyBoolean : tyTimeStamp ≠ tyBoolean := by decide
theorem tyString_ne_tyBoolean : tyString ≠ tyBoolean := by decide
theorem typeSize_tyTimeStamp : typeSize tyTimeStamp = some 16 := by decide
theorem typeInfo_tyString' :
    typeInfo tyString = some ⟨32, "String", none, none, none, false, true, false⟩ := by decide

theorem readProperty_encProp (e : Endian) (p : PropEnc) (rest : Bytes) (hwf : wfProp p = true)
    (hfit : propFits p) :
    readProperty e (encProp e p ++ rest) = .ok (canonProp p, rest) := by
  obtain ⟨hname, hval⟩ := hfit
  simp only [wfProp, readablePropType, Bool.and_eq_true, Bool.or_eq_true, decide_eq_true_eq,
    Bool.decide_or] at hwf
  obtain ⟨hread, hsize⟩ := hwf
  -- the type is in the table
  have hex : ∃ ti, typeInfo p.ty = some ti := by
    rcases hread with h | h | h
    · exact ⟨_, h ▸ typeInfo_tyString'⟩
    · exact ⟨_, h ▸ table_timestamp.1⟩
    · cases hti : typeInfo p.ty with
      | none => simp [hti] at h
      | some ti => exact ⟨ti, rfl⟩
  obtain ⟨ti, hti⟩ := hex
  have hcode : p.ty < 2 ^ (8 * 4) := typeInfo_code_lt hti
  unfold readProperty encProp
  rw [List.append_assoc, List.append_assoc, P_bind_ok (readString_encString e _ _ hname),
    P_bind_ok (uN_enc_of_lt e hcode _)]
  simp only [hti]
  by_cases hs : p.ty = tyString
  · -- strings
    simp only [hs, if_true, encPropValue]
    rw [P_bind_ok (readString_encString e _ _ (hval hs))]
    simp [P_pure, canonProp, canonPropVal, hs, tyString_ne_tyBoolean]
  · have hlen : some p.val.length = typeSize p.ty := by
      rcases hsize with h | h
      · exact absurd h hs
      · exact h
    simp only [hs, if_false, encPropValue]
    by_cases ht : p.ty = tyTimeStamp
    · -- timestamps: one 16-byte atom
      have h16 : p.val.length = 16 := by
        rw [ht, typeSize_tyTimeStamp] at hlen; exact Option.some.inj hlen
      have ha : typeAtoms p.ty = [16] := ht ▸ table_timestamp.2
      simp only [ht, if_true]
      rw [← ht, P_bind_ok (takeN_append _ _ (storeValue_single_length e ha _ h16))]
      have hnb : p.ty ≠ tyBoolean := by rw [ht]; exact tyTimeStamp_ne_tyBoolean
      cases e <;>
        simp only [P_pure, storeValue_little, storeValue_big_reverse ha _ h16, canonProp,
          canonPropVal, if_neg hnb]
    · -- `struct`-format types: one atom
      have hfmt : ti.structFmt.isSome = true := by
        rcases hread with h | h | h
        · exact absurd h hs
        · exact absurd h ht
        · simpa [hti] using h
      obtain ⟨hm, hc⟩ := typeInfo_some hti
      obtain ⟨s, hsz, ha⟩ := table_struct_single ti hm hfmt
      rw [hc] at ha
      have hvs : p.val.length = s := by
        simp only [typeSize, hti, Option.bind_some, hsz] at hlen; exact Option.some.inj hlen
      simp only [ht, if_false, hfmt, if_true, hsz, Option.getD_some]
      rw [P_bind_ok (takeN_append _ _ (storeValue_single_length e ha _ hvs))]
      cases e <;>
        simp only [storeValue_little, storeValue_big_reverse ha _ hvs, canonProp, canonPropVal] <;>
        by_cases hb : p.ty = tyBoolean <;> simp [hb, P_pure] <;> rfl

theorem readProperties_encProps (e : Endian) (props : List PropEnc) (rest : Bytes)
    (hwf : ∀ p ∈ props, wfProp p = true) (hfit : ∀ p ∈ props, propFits p) :
    readProperties e props.length (props.flatMap (encProp e) ++ rest) =
      .ok (props.map canonProp, rest) := by
  induction props with
  | nil => rfl
  | cons p ps ih =>
    simp only [List.length_cons, List.flatMap_cons, List.append_assoc, readProperties, List.map_cons]
    rw [P_bind_ok (readProperty_encProp e p _ (hwf p List.mem_cons_self) (hfit p List.mem_cons_self)),
      P_bind_ok (ih (fun q hq => hwf q (List.mem_cons_of_mem _ hq))
        (fun q hq => hfit q (List.mem_cons_of_mem _ hq)))]
    rfl

end Tdms.Proofs.Bytes
