/-
  C15 for whole files, spec side: `withEndian` keeps the active lists and the meaning.  Core Lean only.
-/
import TdmsProofs.Lemmas.C15WholeRow

namespace Tdms.Proofs.C15Whole

open Tdms Tdms.Generated Tdms.Model Tdms.Proofs.C01Layouts Tdms.Proofs.C01Multi Tdms.Proofs.C02

/-! ## shape of `weSeg` -/

theorem weSeg_self (s : SegEnc) (a : List ActiveObj) : weSeg s.big s a = s := by simp [weSeg]

@[simp] theorem weSeg_big (b : Bool) (s : SegEnc) (a : List ActiveObj) : (weSeg b s a).big = b := by
  unfold weSeg; split
  · rename_i h; exact h.symm
  · rfl

@[simp] theorem weSeg_hasMeta (b : Bool) (s : SegEnc) (a : List ActiveObj) : (weSeg b s a).hasMeta = s.hasMeta := by
  unfold weSeg; split <;> rfl
@[simp] theorem weSeg_newList (b : Bool) (s : SegEnc) (a : List ActiveObj) : (weSeg b s a).newList = s.newList := by
  unfold weSeg; split <;> rfl
@[simp] theorem weSeg_interleaved (b : Bool) (s : SegEnc) (a : List ActiveObj) :
    (weSeg b s a).interleaved = s.interleaved := by unfold weSeg; split <;> rfl
@[simp] theorem weSeg_rawFlag (b : Bool) (s : SegEnc) (a : List ActiveObj) : (weSeg b s a).rawFlag = s.rawFlag := by
  unfold weSeg; split <;> rfl
@[simp] theorem weSeg_daqmxFlag (b : Bool) (s : SegEnc) (a : List ActiveObj) :
    (weSeg b s a).daqmxFlag = s.daqmxFlag := by unfold weSeg; split <;> rfl
@[simp] theorem weSeg_version (b : Bool) (s : SegEnc) (a : List ActiveObj) : (weSeg b s a).version = s.version := by
  unfold weSeg; split <;> rfl
@[simp] theorem weSeg_objs (b : Bool) (s : SegEnc) (a : List ActiveObj) : (weSeg b s a).objs = s.objs := by
  unfold weSeg; split <;> rfl
@[simp] theorem weSeg_padding (b : Bool) (s : SegEnc) (a : List ActiveObj) : (weSeg b s a).padding = s.padding := by
  unfold weSeg; split <;> rfl
@[simp] theorem weSeg_lengthUnknown (b : Bool) (s : SegEnc) (a : List ActiveObj) :
    (weSeg b s a).lengthUnknown = s.lengthUnknown := by unfold weSeg; split <;> rfl

/-- the chunks: re-encoded exactly when the flag changes in a DAQmx segment -/
theorem weSeg_chunks (b : Bool) (s : SegEnc) (a : List ActiveObj) :
    (weSeg b s a).chunks =
      if b ≠ s.big ∧ (dataObjs a).any isDaqmxObj = true then s.chunks.map (reencChunk (dataObjs a)) else s.chunks := by
  unfold weSeg
  by_cases h : b = s.big
  · simp [h]
  · by_cases hq : (dataObjs a).any isDaqmxObj = true
    · simp [h, hq]
    · simp [h, hq]

theorem weSeg_chunks_length (b : Bool) (s : SegEnc) (a : List ActiveObj) :
    (weSeg b s a).chunks.length = s.chunks.length := by
  rw [weSeg_chunks]; split <;> simp

theorem weSeg_std (b : Bool) (s : SegEnc) (a : List ActiveObj) (h : (dataObjs a).any isDaqmxObj = false) :
    weSeg b s a = { s with big := b } := by
  unfold weSeg
  by_cases hb : b = s.big
  · simp [hb]
  · simp [hb, h]

theorem weSeg_endian (b : Bool) (s : SegEnc) (a : List ActiveObj) (h : b ≠ s.big) :
    (weSeg b s a).endian = flipE s.endian := by
  simp only [SegEnc.endian, weSeg_big]
  cases b <;> cases hs : s.big <;> simp_all [flipE]

/-! ## active lists -/

theorem activeLists_len : ∀ (e : List SegEnc) (prev : Option (List ActiveObj)) (last : LastIdx)
    (acts : List (List ActiveObj)), activeLists prev last e = .ok acts → acts.length = e.length := by
  intro e
  induction e with
  | nil => intro prev last acts h; rw [activeLists_nil h]; rfl
  | cons s ss ih =>
    intro prev last acts h
    obtain ⟨a, last', as, _, hrest, rfl⟩ := activeLists_cons h
    simp [ih _ _ _ hrest]

theorem activeOfSeg_weSeg (prev : Option (List ActiveObj)) (last : LastIdx) (b : Bool) (s : SegEnc)
    (a : List ActiveObj) : activeOfSeg prev last (weSeg b s a) = activeOfSeg prev last s := by
  simp [activeOfSeg]

theorem weSegs_length (f : Nat → Bool) : ∀ (ss : List SegEnc) (as : List (List ActiveObj)) (i : Nat),
    as.length = ss.length → (weSegs f i ss as).length = ss.length := by
  intro ss
  induction ss with
  | nil => intro as i _; cases as <;> rfl
  | cons s ss ih =>
    intro as i h
    cases as with
    | nil => cases h
    | cons a as => simp only [weSegs, List.length_cons, ih as (i + 1) (by simpa using h)]

theorem activeLists_weSegs (f : Nat → Bool) : ∀ (ss : List SegEnc) (as : List (List ActiveObj)) (i : Nat)
    (prev : Option (List ActiveObj)) (last : LastIdx), as.length = ss.length →
    activeLists prev last (weSegs f i ss as) = activeLists prev last ss := by
  intro ss
  induction ss with
  | nil => intro as i prev last _; cases as <;> rfl
  | cons s ss ih =>
    intro as i prev last h
    cases as with
    | nil => cases h
    | cons a as =>
      simp only [weSegs, activeLists, activeOfSeg_weSeg]
      cases activeOfSeg prev last s with
      | error r => rfl
      | ok al => simp only [ih as (i + 1) (some al.1) al.2 (by simpa using h)]

theorem withEndian_eq {e : FileEnc} {acts : List (List ActiveObj)} (ha : activeLists none [] e = .ok acts)
    (f : Nat → Bool) : withEndian f e = weSegs f 0 e acts := by
  simp [withEndian, ha]

/-- **the active lists do not depend on the byte order** -/
theorem activeLists_withEndian (f : Nat → Bool) (e : FileEnc) :
    activeLists none [] (withEndian f e) = activeLists none [] e := by
  cases ha : activeLists none [] e with
  | error r => simp [withEndian, ha]
  | ok acts =>
    rw [withEndian_eq ha, activeLists_weSegs f e acts 0 none [] (activeLists_len e none [] acts ha), ha]

theorem withEndian_length (f : Nat → Bool) (e : FileEnc) : (withEndian f e).length = e.length := by
  cases ha : activeLists none [] e with
  | error r => simp [withEndian, ha]
  | ok acts => rw [withEndian_eq ha, weSegs_length f e acts 0 (activeLists_len e none [] acts ha)]

/-- the flags are those asked for -/
theorem weSegs_big (f : Nat → Bool) : ∀ (ss : List SegEnc) (as : List (List ActiveObj)) (i : Nat),
    as.length = ss.length → (weSegs f i ss as).map (·.big) = (List.range' i ss.length).map f := by
  intro ss
  induction ss with
  | nil => intro as i _; cases as <;> rfl
  | cons s ss ih =>
    intro as i h
    cases as with
    | nil => cases h
    | cons a as =>
      simp only [weSegs, List.map_cons, weSeg_big, List.length_cons, List.range'_succ,
        ih as (i + 1) (by simpa using h)]

theorem withEndian_big (f : Nat → Bool) (e : FileEnc) (h : (activeLists none [] e).toOption.isSome = true) :
    (withEndian f e).map (·.big) = (List.range e.length).map f := by
  cases ha : activeLists none [] e with
  | error r => rw [ha] at h; cases h
  | ok acts =>
    rw [withEndian_eq ha, weSegs_big f e acts 0 (activeLists_len e none [] acts ha),
      List.range_eq_range']

/-- asking for the flags the file has changes nothing -/
theorem weSegs_self (f : Nat → Bool) : ∀ (ss : List SegEnc) (as : List (List ActiveObj)) (i : Nat),
    as.length = ss.length → (∀ j (h : j < ss.length), f (i + j) = ss[j].big) → weSegs f i ss as = ss := by
  intro ss
  induction ss with
  | nil => intro as i _ _; cases as <;> rfl
  | cons s ss ih =>
    intro as i h hf
    cases as with
    | nil => cases h
    | cons a as =>
      have h0 := hf 0 (by simp)
      simp only [Nat.add_zero, List.getElem_cons_zero] at h0
      simp only [weSegs, h0, weSeg_self]
      rw [ih as (i + 1) (by simpa using h)]
      intro j hj
      have := hf (j + 1) (by simpa using hj)
      simpa [Nat.add_assoc, Nat.add_comm 1 j] using this

theorem withEndian_self (e : FileEnc) : withEndian (fun i => (e[i]?.map (·.big)).getD false) e = e := by
  cases ha : activeLists none [] e with
  | error r => simp [withEndian, ha]
  | ok acts =>
    rw [withEndian_eq ha]
    apply weSegs_self _ e acts 0 (activeLists_len e none [] acts ha)
    intro j hj
    simp [hj]

end Tdms.Proofs.C15Whole
