import TdmsProofs.Lemmas.TiedRepr

/-!
# C02 tied lemmas: `_number_of_segment_values`, `_reuse_previous_object`, `_update_existing_object`

The two methods decide, from the raw data index header of an object and the state of the previous /
existing object, which object ends up in `ordered_objects`.  The calls `_new_segment_object` and
`read_raw_data_index` are parameters of the generated definitions; they are instantiated with the model's
index reader run on the remaining input bytes (`rdOf`), so the theorems compare the generated decision
structure with `reusePreviousObject` / `updateExistingObject` of the model.
-/
namespace Tdms.Proofs.Tied
open Tdms Tdms.Model Tdms.Generated Tdms.Generated.Code

theorem dict_getD_pyDict (ov : List (Bytes × Nat)) (p : Bytes) :
    Py.Dict.getD (pyDict ov) p (0 : Int) = ((overrideGet ov p : Nat) : Int) := by
  induction ov with
  | nil => rfl
  | cons x xs ih =>
    unfold Py.Dict.getD overrideGet pyDict at *
    simp only [List.map_cons, List.find?_cons]
    by_cases h : x.1 = p
    · simp [h]
    · simp only [h, decide_false]; exact ih

theorem number_of_segment_values_tied (o : SegObj) (s : Segment) (cc : Option Int) (dc : Option Bool)
    (hk : s.override.isSome = true → 0 < s.numChunks) :
    _number_of_segment_values (pyObj o) (pySegC s cc dc) = ((numberOfSegmentValues o s : Nat) : Int) := by
  unfold _number_of_segment_values numberOfSegmentValues
  cases hd : o.hasData <;> simp [pyObj, pySegC, hd]
  cases hov : s.override with
  | none => simp
  | some ov =>
    have := hk (by simp [hov])
    simp [dict_getD_pyDict]
    have h1 : ((s.numChunks - 1 : Nat) : Int) = (s.numChunks : Int) - 1 := by omega
    rw [h1]


/-- name used for a model error raised inside the (untranslated) `read_raw_data_index` -/
def reprErr (e : Err) : Py.Exc := (repr e).pretty

/-- `read_raw_data_index` of the model on an object given by its path and `has_data` flag -/
def indexObject (e : Endian) (o : SegObj) (header : Nat) : P SegObj :=
  if isDaqmxHeader header then readDaqmxIndex e header o else readStdIndex e o

theorem newIndexedObject_eq (e : Endian) (path : Bytes) (header : Nat) :
    newIndexedObject e path header = indexObject e { path := path, hasData := true } header := rfl

/-- the `read_raw_data_index` parameter of the generated code: the model's index reader run on the
    bytes `bs`; only `path` and `has_data` of the object it is applied to are observed -/
def rdOf (e : Endian) (bs : Bytes) : SegmentObject → Int → Except Py.Exc SegmentObject :=
  fun po h =>
    match (indexObject e { path := po.path, hasData := po.has_data } h.toNat).run bs with
    | .ok (o, _) => .ok (pyObj o)
    | .error er => .error (reprErr er)

/-- `_new_segment_object`: a fresh object with only its path set -/
def newOf : Py.Path → Int → SegmentObject := fun p _ => pyObj { path := p }

theorem reuse_previous_object_tied {File Endian' : Type} (e : Endian) (self : TdmsSegment) (ordered : List SegObj)
    (prev : SegObj) (header : Nat) (bs : Bytes) (file : File) (en : Endian')
    (hself : self.ordered_objects = ordered.map pyObj) :
    TdmsSegment._reuse_previous_object newOf (rdOf e bs) self (pyObj prev) (header : Int) file en =
      match (reusePreviousObject e ordered prev header).run bs with
      | .ok (l, _) => .ok { self with ordered_objects := l.map pyObj }
      | .error er => .error (reprErr er) := by
  cases self
  simp only at hself
  subst hself
  unfold TdmsSegment._reuse_previous_object reusePreviousObject
  by_cases h1 : header = rawDataIndexNoData
  · subst h1
    cases hd : prev.hasData <;>
      simp [RAW_DATA_INDEX_NO_DATA, rawDataIndexNoData, pyObj, hd, StateT.run, pure, StateT.pure, Except.pure, bind, Except.bind]
  · have h1' : ¬ ((header : Int) = RAW_DATA_INDEX_NO_DATA) := by
      simp only [RAW_DATA_INDEX_NO_DATA, rawDataIndexNoData] at *; omega
    by_cases h2 : header = rawDataIndexMatchesPrevious
    · subst h2
      cases hd : prev.hasData <;>
        simp [RAW_DATA_INDEX_NO_DATA, RAW_DATA_INDEX_MATCHES_PREVIOUS, rawDataIndexNoData, rawDataIndexMatchesPrevious,
          pyObj, hd, StateT.run, pure, StateT.pure, Except.pure, bind, Except.bind]
    · have h2' : ¬ ((header : Int) = RAW_DATA_INDEX_MATCHES_PREVIOUS) := by
        simp only [RAW_DATA_INDEX_MATCHES_PREVIOUS, rawDataIndexMatchesPrevious] at *; omega
      simp only [h1, h2, h1', h2', if_false, newIndexedObject_eq]
      simp only [rdOf, newOf, pyObj, Int.toNat_natCast]
      cases hr : (indexObject e { path := prev.path, hasData := true } header).run bs with
      | error er =>
        simp [StateT.run, bind, StateT.bind, Except.bind] at *
        rw [hr]
      | ok r => 
        obtain ⟨o, rest⟩ := r
        simp [StateT.run, bind, StateT.bind, Except.bind, pure, StateT.pure, Except.pure] at *
        rw [hr]; simp [pyObj]

theorem setItem_natCast {α : Type} (xs : List α) (i : Nat) (v : α) (h : i < xs.length) :
    Py.setItem xs (i : Int) v = .ok (xs.set i v) := by
  unfold Py.setItem
  have h0 : ¬ ((i : Int) < 0) := by omega
  simp [h0, h]

theorem update_existing_object_tied {File Endian' : Type} (e : Endian) (self : TdmsSegment) (ordered : List SegObj)
    (i : Nat) (ex : SegObj) (header : Nat) (bs : Bytes) (file : File) (en : Endian')
    (hself : self.ordered_objects = ordered.map pyObj) (hi : i < ordered.length) :
    TdmsSegment._update_existing_object newOf (rdOf e bs) self (i : Int) (pyObj ex) (header : Int) file en =
      match (updateExistingObject e ordered i ex header).run bs with
      | .ok (l, _) => .ok { self with ordered_objects := l.map pyObj }
      | .error er => .error (reprErr er) := by
  have hi' : i < (List.map pyObj ordered).length := by simpa using hi
  cases self
  simp only at hself
  subst hself
  unfold TdmsSegment._update_existing_object updateExistingObject
  by_cases h1 : header = rawDataIndexNoData
  · subst h1
    cases hd : ex.hasData <;>
      simp [RAW_DATA_INDEX_NO_DATA, rawDataIndexNoData, pyObj, hd, StateT.run, pure, StateT.pure, Except.pure,
        bind, Except.bind, setItem_natCast _ _ _ hi', List.map_set]
  · have h1' : ¬ ((header : Int) = RAW_DATA_INDEX_NO_DATA) := by
      simp only [RAW_DATA_INDEX_NO_DATA, rawDataIndexNoData] at *; omega
    by_cases h2 : header = rawDataIndexMatchesPrevious
    · subst h2
      cases hd : ex.hasData <;>
        simp [RAW_DATA_INDEX_NO_DATA, RAW_DATA_INDEX_MATCHES_PREVIOUS, rawDataIndexNoData, rawDataIndexMatchesPrevious,
          pyObj, hd, StateT.run, pure, StateT.pure, Except.pure, bind, Except.bind, setItem_natCast _ _ _ hi',
          List.map_set]
    · have h2' : ¬ ((header : Int) = RAW_DATA_INDEX_MATCHES_PREVIOUS) := by
        simp only [RAW_DATA_INDEX_MATCHES_PREVIOUS, rawDataIndexMatchesPrevious] at *; omega
      simp only [h1, h2, h1', h2', if_false, newIndexedObject_eq]
      simp only [rdOf, newOf, pyObj, Int.toNat_natCast]
      cases hr : (indexObject e { path := ex.path, hasData := true } header).run bs with
      | error er =>
        simp [StateT.run, bind, StateT.bind, Except.bind] at *
        rw [hr]
      | ok r =>
        obtain ⟨o, rest⟩ := r
        simp [StateT.run, bind, StateT.bind, Except.bind, pure, StateT.pure, Except.pure] at *
        rw [hr]; simp only [pyObj]; rw [setItem_natCast _ _ _ (by simpa using hi)]; simp [List.map_set, pyObj]

end Tdms.Proofs.Tied
