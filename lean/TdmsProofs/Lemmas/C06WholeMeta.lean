/-
  C06, whole-file truncation theorem for one-segment files: `readMetadata` on the file cut after `k` bytes.
  Core Lean only.
-/
import TdmsProofs.Lemmas.C06WholeDefs

namespace Tdms.Proofs.C06Whole

open Tdms Tdms.Generated Tdms.Model Tdms.Proofs.Bytes Tdms.Proofs.C01Compose Tdms.Proofs.LeadIn

/-! ## the cut file -/

theorem leadIn_length (s : SegEnc) (m r : Nat) : (encLeadIn tagData s m r).length = 28 := by
  simp [encLeadIn, tagData]

/-- the bytes of the file, split -/
theorem file_split (s : SegEnc) :
    encodeSeg s (s.objs.map actOf) =
      encLeadIn tagData s (segMeta s).length (encRaw s (s.objs.map actOf)).length ++
        (segMeta s ++ encRaw s (s.objs.map actOf)) := by
  simp [encodeSeg]

/-- a cut after the lead-in keeps the lead-in -/
theorem take_file (s : SegEnc) (k : Nat) (hk : 28 ≤ k) :
    (encodeSeg s (s.objs.map actOf)).take k =
      encLeadIn tagData s (segMeta s).length (encRaw s (s.objs.map actOf)).length ++
        (segMeta s ++ encRaw s (s.objs.map actOf)).take (k - 28) := by
  rw [file_split, List.take_append, leadIn_length, List.take_of_length_le (by rw [leadIn_length]; exact hk)]

/-- a cut after the metadata keeps the metadata -/
theorem take_file_data (s : SegEnc) (k : Nat) (hk : dataPosOf s ≤ k) :
    (encodeSeg s (s.objs.map actOf)).take k =
      encLeadIn tagData s (segMeta s).length (encRaw s (s.objs.map actOf)).length ++
        (segMeta s ++ (encRaw s (s.objs.map actOf)).take (k - dataPosOf s)) := by
  unfold dataPosOf at hk ⊢
  rw [take_file s k (by omega), List.take_append, List.take_of_length_le (by omega)]
  congr 3
  omega

theorem file_length (s : SegEnc) (w : WfSingle s) (hi : s.interleaved = false) :
    (encodeSeg s (s.objs.map actOf)).length = dataPosOf s + s.chunks.length * chunkBytes s.objs := by
  rw [encodeSeg_length, encRaw_length s hi w]
  rfl

/-! ## arithmetic of the cut -/

theorem cut_div_mod (s : SegEnc) (k : Nat) (hk : dataPosOf s ≤ k) :
    k = dataPosOf s + (cutQ s k * chunkBytes s.objs + cutR s k) := by
  have := Nat.div_add_mod (k - dataPosOf s) (chunkBytes s.objs)
  unfold cutQ cutR
  rw [Nat.mul_comm] at this
  omega

theorem cutR_pos_imp (s : SegEnc) (w : WfSingle s) (hi : s.interleaved = false) (k : Nat)
    (hk : dataPosOf s ≤ k) (hkL : k ≤ (encodeSeg s (s.objs.map actOf)).length) (hr : cutR s k ≠ 0) :
    0 < chunkBytes s.objs ∧ cutR s k < chunkBytes s.objs ∧ k < (encodeSeg s (s.objs.map actOf)).length ∧
      cutQ s k < s.chunks.length := by
  have hL := file_length s w hi
  have hc : 0 < chunkBytes s.objs := by
    apply Nat.pos_of_ne_zero
    intro h0
    have hK := chunkBytes_zero_no_chunks s hi w h0
    apply hr
    unfold cutR
    rw [h0, Nat.mod_zero]
    rw [hK] at hL
    omega
  have hrc : cutR s k < chunkBytes s.objs := Nat.mod_lt _ hc
  have hdm := cut_div_mod s k hk
  have hq : cutQ s k < s.chunks.length := by
    apply Nat.lt_of_mul_lt_mul_right (a := chunkBytes s.objs)
    have : cutQ s k * chunkBytes s.objs + cutR s k ≤ s.chunks.length * chunkBytes s.objs := by omega
    omega
  refine ⟨hc, hrc, ?_, hq⟩
  have : (cutQ s k + 1) * chunkBytes s.objs ≤ s.chunks.length * chunkBytes s.objs :=
    Nat.mul_le_mul_right _ hq
  rw [Nat.add_mul] at this
  omega

theorem cutQ_le (s : SegEnc) (w : WfSingle s) (hi : s.interleaved = false) (k : Nat)
    (hk : dataPosOf s ≤ k) (hkL : k ≤ (encodeSeg s (s.objs.map actOf)).length) :
    cutQ s k ≤ s.chunks.length := by
  have hL := file_length s w hi
  by_cases h0 : chunkBytes s.objs = 0
  · unfold cutQ; rw [h0, Nat.div_zero]; omega
  · have hdm := cut_div_mod s k hk
    apply Nat.le_of_mul_le_mul_right (c := chunkBytes s.objs) _ (Nat.pos_of_ne_zero h0)
    omega

/-! ## the lead-in of the cut file -/

theorem leadInVersion_encLeadIn (s : SegEnc) (m r : Nat) (rest : Bytes) (hver : s.version < 2 ^ 31) :
    leadInVersion (encLeadIn tagData s m r ++ rest) = some (s.version : Int) := by
  unfold encLeadIn
  obtain ⟨_, h2, h3, _, _, h6⟩ := leadIn_slices tagData (encLE 4 (tocMask s))
    (enc s.endian 4 s.version) (enc s.endian 8 (if s.lengthUnknown then 2 ^ 64 - 1 else m + r))
    (enc s.endian 8 m) rest rfl (by simp) (by simp) (by simp) (by simp)
  have htoc : decLE (encLE 4 (tocMask s)) = tocMask s :=
    decLE_encLE_of_lt (Nat.lt_trans (tocMask_lt s) (by decide))
  have hv : dec s.endian (enc s.endian 4 s.version) = s.version :=
    dec_enc_of_lt _ (Nat.lt_trans hver (by decide))
  unfold leadInVersion
  simp only [h2, h3, h6, htoc, segEndian_of_tocMask, hv, toSigned4_of_lt hver, if_false]

/-- the lead-in of the cut file: the segment is dropped when the cut is before the raw data, otherwise it
    runs to the end of the cut file and is incomplete exactly when something is missing or the lead-in carries
    the length-unknown marker -/
theorem readLeadIn_cut (s : SegEnc) (hver : s.version < 2 ^ 31)
    (m r k : Nat) (rest : Bytes) (hm : m < 2 ^ 63) (hr : r < 2 ^ 63) (hk : k ≤ 28 + m + r) :
    readLeadIn (encLeadIn tagData s m r ++ rest) 0 false (some k) =
      if k < 28 + m then .ok none
      else .ok (some ⟨tocMask s, s.version, 28 + m, k, s.lengthUnknown || decide (k < 28 + m + r)⟩) := by
  unfold encLeadIn
  cases hu : s.lengthUnknown with
  | true =>
    simp only [if_true]
    rw [readLeadIn_fields s (2 ^ 64 - 1) m 0 (some k) rest hver (by omega) (by omega)]
    simp only [if_true, Nat.zero_add, Bool.true_or]
  | false =>
    simp only [Bool.false_eq_true, if_false, Bool.false_or]
    rw [readLeadIn_fields s (m + r) m 0 (some k) rest hver (by omega) (by omega)]
    have h1 : ¬ m + r = 2 ^ 64 - 1 := by omega
    simp only [if_neg h1, Nat.zero_add]
    by_cases h2 : m + r + 28 > k
    · have h3 : k < 28 + m + r := by omega
      simp only [if_pos h2, h3, decide_true]
    · have h3 : ¬ k < 28 + m + r := by omega
      have h4 : ¬ k < 28 + m := by omega
      have h5 : m + r + 28 = k := by omega
      rw [if_neg h2, if_neg h4]
      simp only [h3, decide_false, h5]

/-! ## the metadata block -/

/-- the `properties` dictionary the object loop returns -/
def propsOf (s : SegEnc) : List (Bytes × List PropVal) :=
  (s.objs.filter fun o => !o.props.isEmpty).map fun o => (o.path, o.props.map canonProp)

/-- `readSegmentObjects` on the metadata of the segment, whatever follows it and whatever the frame of the
    segment: the objects are read and `calculateChunks` decides -/
theorem readSegmentObjects_meta (s : SegEnc) (hm : s.hasMeta = true) (w : WfSingle s) (fit : SegFits s)
    (raw : Bytes) (n dp : Nat) (inc : Bool) :
    readSegmentObjects ⟨0, tocMask s, n, dp, inc, [], 0, none⟩ none [] (segMeta s ++ raw) =
      (calculateChunks ⟨0, tocMask s, n, dp, inc, s.objs.map segObjOf, 0, none⟩).map
        fun sg => (sg, propsOf s) := by
  have hflag : hasFlag (tocMask s) kTocMetaData = true := by rw [hasFlag_tocMask_meta, hm]
  have he : (⟨0, tocMask s, n, dp, inc, [], 0, none⟩ : Segment).endian = s.endian :=
    segEndian_of_tocMask s
  have hread := Tdms.Proofs.C01.readObjects_encObjs_noDup s.endian s.objs (List.replicate s.padding 0 ++ raw)
    w.objs fit.objs ((noDupPaths_iff _).mpr w.nodup)
  have hmeta : (do let n ← uN s.endian 4; readObjects s.endian none [] n [] [])
      (segMeta s ++ raw) = .ok ((s.objs.map segObjOf, propsOf s),
        List.replicate s.padding 0 ++ raw) := by
    simp only [segMeta, hm, if_true, encMeta, List.append_assoc]
    rw [P_bind_ok (uN_enc_of_lt s.endian (w := 4) fit.nObjs _)]
    exact hread
  unfold readSegmentObjects
  simp only [hflag, Bool.not_true, Bool.false_eq_true, if_false, he]
  have hrun : StateT.run (do let n ← uN s.endian 4; readObjects s.endian none [] n [] [])
      (segMeta s ++ raw) = .ok ((s.objs.map segObjOf, propsOf s),
        List.replicate s.padding 0 ++ raw) := hmeta
  rw [hrun]
  simp only [bind, Except.bind]
  cases calculateChunks ⟨0, tocMask s, n, dp, inc, s.objs.map segObjOf, 0, none⟩ <;> rfl

/-! ## the final chunk lengths -/

/-- type of a data object: string or fixed width -/
theorem tyOf_cases (s : SegEnc) (w : WfSingle s) (o : ObjEnc) (ho : o ∈ dataOs s.objs) :
    ∃ ty, tyOf o = some ty ∧ (ty = tyString ∨ ∃ sz, typeSize ty = some sz) := by
  obtain ⟨hmem, hfull⟩ := dataOs_sub ho
  have hwf := w.objs o hmem
  obtain ⟨p, idx, ps⟩ := o
  cases idx with
  | noData => simp [isFull] at hfull
  | matchesPrev => simp [isFull] at hfull
  | daqmx dg ty n sc wd => simp [isFull] at hfull
  | full ty n total =>
    refine ⟨ty, rfl, ?_⟩
    simp only [wfObj, wfIdx, Bool.and_eq_true, Bool.or_eq_true, decide_eq_true_eq] at hwf
    rcases hwf.1.1.1 with h | h
    · exact .inl h
    · exact .inr (Option.isSome_iff_exists.mp h)

theorem allSized_of_noStr (s : SegEnc) (hstd : ∀ o ∈ s.objs, stdIdx o) (w : WfSingle s)
    (hns : hasStr s = false) : Tdms.Proofs.C06.allSized (s.objs.map segObjOf) := by
  intro o' ho' hdat
  obtain ⟨o, ho, rfl⟩ := List.mem_map.mp ho'
  have hso := hstd o ho
  rw [segObjOf_hasData o hso] at hdat
  have hd : o ∈ dataOs s.objs := by simp [dataOs, ho, hdat]
  obtain ⟨ty, hty, hcase⟩ := tyOf_cases s w o hd
  rw [segObjOf_dataType o hso, hty]
  rcases hcase with h | ⟨sz, h⟩
  · exfalso
    unfold hasStr at hns
    rw [List.any_eq_false] at hns
    apply hns o hd
    rw [hty, h]
    simp
  · exact ⟨ty, sz, rfl, h⟩

/-- **`_compute_final_chunk_lengths` on the cut segment**: the contiguous fit, or nothing when a string channel
    is present -/
theorem computeFinal_cut (s : SegEnc) (hstd : ∀ o ∈ s.objs, stdIdx o) (w : WfSingle s) (seg : Segment)
    (hobjs : seg.objects = s.objs.map segObjOf) (hint : hasFlag seg.toc kTocInterleavedData = false)
    (hinc : seg.incomplete = true) (c r : Nat) :
    computeFinalChunkLengths seg c r = .ok (ovOf s r) := by
  have hd : haveDaqmxObjects seg.objects = .ok false := by rw [hobjs]; exact haveDaqmxObjects_std s.objs hstd
  cases hs : hasStr s with
  | false =>
    have hall : Tdms.Proofs.C06.allSized seg.objects := by rw [hobjs]; exact allSized_of_noStr s hstd w hs
    rw [Tdms.Proofs.C06.contiguous_final_lengths_eq seg c r hd hall (by simp [hint, hinc])]
    simp [ovOf, hs, hobjs]
  | true =>
    have hfil : seg.objects.filter (·.hasData) = (dataOs s.objs).map segObjOf := by
      rw [hobjs]; exact filter_hasData_map_segObjOf s.objs hstd
    have h1 : ((seg.objects.filter (·.hasData)).any (·.dataType.isNone)) = false := by
      rw [hfil, List.any_eq_false]
      intro o' ho'
      obtain ⟨o, ho, rfl⟩ := List.mem_map.mp ho'
      obtain ⟨ty, hty, _⟩ := tyOf_cases s w o ho
      rw [segObjOf_dataType o (hstd o (dataOs_sub ho).1), hty]
      simp
    have h2 : ((seg.objects.filter (·.hasData)).any fun o => (o.dataType.bind typeSize).isNone) = true := by
      rw [hfil, List.any_eq_true]
      unfold hasStr at hs
      rw [List.any_eq_true] at hs
      obtain ⟨o, ho, hty⟩ := hs
      refine ⟨segObjOf o, List.mem_map.mpr ⟨o, ho, rfl⟩, ?_⟩
      rw [segObjOf_dataType o (hstd o (dataOs_sub ho).1)]
      have : tyOf o = some tyString := by simpa using hty
      rw [this]
      simp [typeSize_tyString]
    unfold computeFinalChunkLengths
    simp only [hd, bind, Except.bind, h1, h2]
    simp [ovOf, hs, pure, Except.pure]

/-! ## `calculateChunks` on the cut segment -/

/-- the segment before `calculateChunks` -/
def preSeg (s : SegEnc) (L k : Nat) : Segment :=
  ⟨0, tocMask s, k, dataPosOf s, s.lengthUnknown || decide (k < L), s.objs.map segObjOf, 0, none⟩

theorem calculateChunks_cut (s : SegEnc) (hi : s.interleaved = false) (hstd : ∀ o ∈ s.objs, stdIdx o)
    (w : WfSingle s) (k : Nat) (hk : dataPosOf s ≤ k)
    (hkL : k ≤ (encodeSeg s (s.objs.map actOf)).length) :
    calculateChunks (preSeg s (encodeSeg s (s.objs.map actOf)).length k) =
      .ok (cutSeg s (encodeSeg s (s.objs.map actOf)).length k) := by
  generalize hLdef : (encodeSeg s (s.objs.map actOf)).length = L at *
  have hc : chunkSize (preSeg s L k).objects = .ok (chunkBytes s.objs) := chunkSize_std' s.objs hstd
  have hdm := cut_div_mod s k hk
  by_cases hr : cutR s k = 0
  · rw [calculateChunks_whole (preSeg s L k) (chunkBytes s.objs) (cutQ s k) hc
      (by show k = dataPosOf s + cutQ s k * chunkBytes s.objs; omega)
      (by intro h0; unfold cutQ; rw [h0, Nat.div_zero])]
    simp [preSeg, cutSeg, hr]
  · obtain ⟨hc0, hrc, hlt, _⟩ := cutR_pos_imp s w hi k hk (by rw [hLdef]; exact hkL) hr
    rw [hLdef] at hlt
    have hov := computeFinal_cut s hstd w (preSeg s L k) rfl
      (by show hasFlag (tocMask s) kTocInterleavedData = false; rw [hasFlag_tocMask_interleaved, hi])
      (by show (s.lengthUnknown || decide (k < L)) = true; simp [hlt]) (chunkBytes s.objs) (cutR s k)
    rw [Tdms.Proofs.C06.calculateChunks_truncated_ok (preSeg s L k) (chunkBytes s.objs) (cutQ s k) (cutR s k)
      (ovOf s (cutR s k)) hc (by omega) hrc (by show k = _; exact hdm) hov]
    simp [preSeg, cutSeg, hr]

/-! ## object metadata, with an arbitrary value count -/

theorem updateObjectMetadata_gen (seg : Segment) (os : List ObjEnc) :
    ∀ (prev : PrevObjs) (ms : ObjMetas), (∀ o ∈ os, stdIdx o) → (os.map (·.path)).Nodup →
      (∀ o ∈ os, ∀ m ∈ ms, m.path ≠ o.path) →
      ∃ prev', updateObjectMetadata seg (os.map segObjOf) prev ms =
        .ok (prev', ms ++ os.map (meta0N fun o => numberOfSegmentValues (segObjOf o) seg)) := by
  induction os with
  | nil => intro prev ms _ _ _; exact ⟨prev, by simp [updateObjectMetadata]⟩
  | cons o os ih =>
    intro prev ms hstd hnd hfresh
    simp only [List.map_cons, List.nodup_cons, List.mem_map, not_exists, not_and] at hnd
    obtain ⟨hno, hnd'⟩ := hnd
    have hso := hstd o List.mem_cons_self
    have hget : ms.get o.path = none := by
      simp only [ObjMetas.get, List.find?_eq_none, decide_eq_true_eq]
      exact fun m hm => hfresh o List.mem_cons_self m hm
    have hany : ms.any (fun m => decide (m.path = o.path)) = false := by
      simp only [List.any_eq_false, decide_eq_true_eq]
      exact fun m hm => hfresh o List.mem_cons_self m hm
    have hsc : (segObjOf o).scalerTypes = none := by
      simp [SegObj.scalerTypes, segObjOf_daq o hso]
    obtain ⟨prev', hr⟩ := ih (prev.set (segObjOf o).path (segObjOf o))
      (ms ++ [meta0N (fun o => numberOfSegmentValues (segObjOf o) seg) o])
      (fun q hq => hstd q (List.mem_cons_of_mem _ hq)) hnd' (by
        intro q hq m hm
        rcases List.mem_append.mp hm with hm | hm
        · exact hfresh q (List.mem_cons_of_mem _ hq) m hm
        · simp only [List.mem_singleton] at hm
          subst hm
          exact fun h => hno q hq h.symm)
    refine ⟨prev', ?_⟩
    simp only [segObjOf_path] at hr
    simp only [List.map_cons, updateObjectMetadata, segObjOf_path, hget, Option.getD_none, Option.isSome_none,
      Bool.false_and, Bool.false_eq_true, if_false, hsc, Bool.and_false, ObjMetas.modify, hany,
      segObjOf_dataType o hso, Nat.zero_add]
    have hm0 : ({ path := o.path, dataType := tyOf o, numValues := numberOfSegmentValues (segObjOf o) seg } : ObjMeta)
        = meta0N (fun o => numberOfSegmentValues (segObjOf o) seg) o := rfl
    rw [hm0, hr]
    simp

theorem updateObjectProperties_gen (nv : ObjEnc → Nat) (os : List ObjEnc) :
    ∀ (done : ObjMetas), (os.map (·.path)).Nodup → (∀ o ∈ os, ∀ m ∈ done, m.path ≠ o.path) →
      updateObjectProperties (done ++ os.map (meta0N nv))
        ((os.filter fun o => !o.props.isEmpty).map fun o => (o.path, o.props.map canonProp)) =
      done ++ os.map (metaN nv) := by
  induction os with
  | nil => intro done _ _; simp [updateObjectProperties]
  | cons o os ih =>
    intro done hnd hfresh
    simp only [List.map_cons, List.nodup_cons, List.mem_map, not_exists, not_and] at hnd
    obtain ⟨hno, hnd'⟩ := hnd
    have hih := ih (done ++ [metaN nv o]) hnd' (by
      intro q hq m hm
      rcases List.mem_append.mp hm with hm | hm
      · exact hfresh q (List.mem_cons_of_mem _ hq) m hm
      · simp only [List.mem_singleton] at hm
        subst hm
        exact fun h => hno q hq h.symm)
    simp only [List.append_assoc, List.singleton_append] at hih
    by_cases hp : o.props = []
    · have h01 : meta0N nv o = metaN nv o := by simp [meta0N, metaN, hp]
      simp only [List.filter_cons, hp, List.isEmpty_nil, Bool.not_true, Bool.false_eq_true, if_false,
        List.map_cons, h01]
      exact hih
    · have hemp : o.props.isEmpty = false := by
        cases h : o.props with
        | nil => exact absurd h hp
        | cons a as => rfl
      have hany : (done ++ meta0N nv o :: os.map (meta0N nv)).any (fun m => decide (m.path = o.path)) = true := by
        simp [meta0N]
      simp only [List.filter_cons, hemp, Bool.not_false, if_true, List.map_cons, updateObjectProperties,
        ObjMetas.modify, hany]
      rw [map_ite_unique (fun m : ObjMeta => m.path) o.path _ done (os.map (meta0N nv)) (meta0N nv o) rfl
        (fun y hy => hfresh o List.mem_cons_self y hy)
        (fun y hy => by
          obtain ⟨q, hq, rfl⟩ := List.mem_map.mp hy
          exact fun h => hno q hq h)]
      exact hih

/-- `_number_of_segment_values` on the cut segment -/
theorem numberOfSegmentValues_cut (s : SegEnc) (L k : Nat) (o : ObjEnc) (h : stdIdx o) :
    numberOfSegmentValues (segObjOf o) (cutSeg s L k) = cutNum s k o := by
  unfold numberOfSegmentValues cutNum
  rw [segObjOf_hasData o h, segObjOf_numberValues o h, segObjOf_path]
  cases hf : isFull o
  · rfl
  · by_cases hr : cutR s k = 0
    · simp [cutSeg, hr, finLen]
    · simp [cutSeg, hr, finLen]

/-! ## `readMetadata` on the cut file -/

theorem readMetadata_two_steps (file : Bytes) (st1 : ReaderState) (hlen : 28 ≤ file.length)
    (h1 : loopStep file false (some file.length) 0 0 {} = .ok (.next file.length file.length st1)) :
    readMetadata file = .ok st1 := by
  have h2 : loopStep file false (some file.length) file.length file.length st1 = .ok (.done st1) :=
    loopStep_past_end _ _ _ _ _ _ (by omega)
  unfold readMetadata
  have hfuel : file.length + 1 = (file.length - 1) + 1 + 1 := by omega
  rw [hfuel, readMetadataLoop_succ, h1]
  simp only
  rw [readMetadataLoop_succ, h2]

theorem readMetadata_one_step (file : Bytes) (st1 : ReaderState)
    (h1 : loopStep file false (some file.length) 0 0 {} = .ok (.done st1)) :
    readMetadata file = .ok st1 := by
  unfold readMetadata
  rw [readMetadataLoop_succ, h1]

/-- **cut before the raw data** (inside the lead-in, the metadata or the padding): the segment is dropped -/
theorem readMetadata_dropped (s : SegEnc) (w : WfSingle s)
    (hlen : (encodeSeg s (s.objs.map actOf)).length < 2 ^ 63) (k : Nat) (hk : k < dataPosOf s) :
    readMetadata ((encodeSeg s (s.objs.map actOf)).take k) = .ok (droppedState s k) := by
  have hL := encodeSeg_length s (s.objs.map actOf)
  have hkL : k ≤ (encodeSeg s (s.objs.map actOf)).length := by unfold dataPosOf at hk; omega
  have hlk : ((encodeSeg s (s.objs.map actOf)).take k).length = k := by
    rw [List.length_take]; omega
  apply readMetadata_one_step
  by_cases h28 : k < 28
  · rw [loopStep_past_end _ _ _ _ _ _ (by rw [hlk]; omega)]
    simp [droppedState, h28]
  · have hk28 : 28 ≤ k := by omega
    unfold dataPosOf at hk
    unfold loopStep
    rw [List.drop_zero, hlk, take_file s k hk28,
      readLeadIn_cut s (version_lt s w) _ _ k _ (by omega) (by omega) (by omega), if_pos hk,
      leadInVersion_encLeadIn s _ _ _ (version_lt s w)]
    simp [droppedState, h28]

/-- **cut inside or after the raw data**: one segment, ending at the cut -/
theorem readMetadata_cut (s : SegEnc) (hm : s.hasMeta = true) (hi : s.interleaved = false)
    (hstd : ∀ o ∈ s.objs, stdIdx o) (w : WfSingle s) (fit : SegFits s)
    (hlen : (encodeSeg s (s.objs.map actOf)).length < 2 ^ 63) (k : Nat) (hk : dataPosOf s ≤ k)
    (hkL : k ≤ (encodeSeg s (s.objs.map actOf)).length) :
    ∃ prev, readMetadata ((encodeSeg s (s.objs.map actOf)).take k) =
      .ok (cutState s (encodeSeg s (s.objs.map actOf)).length k prev) := by
  have hL := encodeSeg_length s (s.objs.map actOf)
  have hlk : ((encodeSeg s (s.objs.map actOf)).take k).length = k := by
    rw [List.length_take]; omega
  have hcalc := calculateChunks_cut s hi hstd w k hk hkL
  have htake := take_file_data s k hk
  generalize hLdef : (encodeSeg s (s.objs.map actOf)).length = L at *
  generalize hfile : (encodeSeg s (s.objs.map actOf)).take k = file at *
  have hk' : ¬ k < 28 + (segMeta s).length := by unfold dataPosOf at hk; omega
  have hli : readLeadIn (file.drop 0) 0 false (some file.length) =
      .ok (some ⟨tocMask s, s.version, dataPosOf s, k, s.lengthUnknown || decide (k < L)⟩) := by
    rw [List.drop_zero, hlk, htake,
      readLeadIn_cut s (version_lt s w) _ _ k _ (by omega) (by omega) (by omega), if_neg hk', ← hL]
    rfl
  have hdrop : file.drop (0 + 28) = segMeta s ++ (encRaw s (s.objs.map actOf)).take (k - dataPosOf s) := by
    rw [htake]
    exact List.drop_left' (leadIn_length s _ _)
  have hseg : readSegmentObjects ⟨0, tocMask s, k, dataPosOf s, s.lengthUnknown || decide (k < L), [], 0, none⟩ none []
      (segMeta s ++ (encRaw s (s.objs.map actOf)).take (k - dataPosOf s)) = .ok (cutSeg s L k, propsOf s) := by
    rw [readSegmentObjects_meta s hm w fit]
    have : calculateChunks ⟨0, tocMask s, k, dataPosOf s, s.lengthUnknown || decide (k < L), s.objs.map segObjOf, 0, none⟩ =
        .ok (cutSeg s L k) := hcalc
    rw [this]
    rfl
  obtain ⟨prev, hupd⟩ := updateObjectMetadata_gen (cutSeg s L k) s.objs [] [] hstd w.nodup
    (fun _ _ m hm => by simp at hm)
  refine ⟨prev, ?_⟩
  have hnv : s.objs.map (meta0N fun o => numberOfSegmentValues (segObjOf o) (cutSeg s L k)) =
      s.objs.map (meta0N (cutNum s k)) := by
    apply List.map_congr_left
    intro o ho
    simp only [meta0N, numberOfSegmentValues_cut s L k o (hstd o ho)]
  have hprops := updateObjectProperties_gen (cutNum s k) s.objs [] w.nodup (fun _ _ m hm => by simp at hm)
  simp only [List.nil_append] at hupd hprops
  rw [hnv] at hupd
  apply readMetadata_two_steps file _ (by rw [hlk]; unfold dataPosOf at hk; omega)
  unfold loopStep
  rw [hli]
  simp only [hdrop, List.getLast?_nil]
  rw [hseg]
  simp only
  have hobj : (cutSeg s L k).objects = s.objs.map segObjOf := rfl
  rw [hobj, hupd]
  simp only
  have hp : propsOf s = (s.objs.filter fun o => !o.props.isEmpty).map fun o => (o.path, o.props.map canonProp) := rfl
  rw [hp, hprops, hlk]
  rfl

end Tdms.Proofs.C06Whole
