import TdmsProofs.Lemmas.C05Local
import TdmsProofs.Lemmas.C11Lemmas

/-!
# C05WF: how many values a DAQmx chunk holds for one channel

For a DAQmx segment whose data objects all declare the same chunk size `N`
(`DaqUniform`): the chunk `readDaqmxChunk` returns for channel `p` holds at most
`channelNumberValues` values (`N`, or the truncated final length).  This is the ingredient C05
lacked for chunk locality of files with DAQmx segments.  Core Lean only.
-/

namespace Tdms.Proofs.C05WF

open Tdms Tdms.Model Tdms.Generated Tdms.Proofs.C05 Tdms.Proofs.C19

/-- all data objects of the list declare `N` values per chunk, and DAQmx metadata with chunk size `≤ N` -/
def DaqUniform (N : Nat) (d : List SegObj) : Prop :=
  ∀ o ∈ d, o.numberValues = N ∧ ∀ m, o.daq = some m → m.chunkSize ≤ N

/-- what every entry of a DAQmx chunk under construction satisfies -/
def EntryOK (N : Nat) (crop : Bytes → Option Nat) (d : List SegObj) (x : Bytes × ChanChunk) : Prop :=
  dataLen x.2 ≤ N ∧ (∀ k, crop x.1 = some k → dataLen x.2 ≤ k) ∧ (dataLen x.2 ≠ 0 → ∃ o ∈ d, o.path = x.1)

theorem mapExcept_length {α β : Type} (f : α → Except Err β) : ∀ (l : List α) (ys : List β),
    mapExcept f l = .ok ys → ys.length = l.length := by
  intro l
  induction l with
  | nil => intro ys h; simp only [mapExcept] at h; cases h; rfl
  | cons x xs ih =>
    intro ys h
    simp only [mapExcept, bind, Except.bind] at h
    split at h
    · cases h
    · rename_i y hy
      split at h
      · cases h
      · rename_i ys' hys
        simp only [pure, Except.pure, Except.ok.injEq] at h
        rw [← h]
        simp [ih ys' hys]

theorem entryOK_scal (N : Nat) (crop : Bytes → Option Nat) (d : List SegObj) (p : Bytes)
    (sc : Option (List (Nat × List Bytes))) : EntryOK N crop d (p, { scalers := sc }) :=
  ⟨Nat.zero_le _, fun _ _ => Nat.zero_le _, fun h => absurd rfl h⟩

theorem allOK_dictSet {N : Nat} {crop : Bytes → Option Nat} {d : List SegObj} {c : RawChunk} {p : Bytes}
    {v : ChanChunk} (hc : ∀ x ∈ c, EntryOK N crop d x) (hv : EntryOK N crop d (p, v)) :
    ∀ x ∈ dictSet c p v, EntryOK N crop d x := by
  intro x hx
  rcases mem_dictSet _ _ _ _ hx with h | h
  · exact hc x h
  · rw [h]; exact hv

/-- one scaler of one object (the body of the inner loop of `daqBufferScalers`) -/
def daqStep (e : Endian) (rows : List Bytes) (crop : Bytes → Option Nat) (o : SegObj)
    (acc : Except Err (RawChunk × RawChunk)) (sc : DaqScaler) : Except Err (RawChunk × RawChunk) := do
  let (data, scal) ← acc
  let vals ← mapExcept (daqScalerValue e sc) rows
  let vals := match crop o.path with
    | some k => vals.take k
    | none => vals
  if o.dataType = some tyDaqmxRaw then
    let cur := ((scal.find? (·.1 = o.path)).bind (·.2.scalers)).getD []
    let cur' := if cur.any (·.1 = sc.scaleId) then cur.map (fun x => if x.1 = sc.scaleId then (x.1, vals) else x)
                else cur ++ [(sc.scaleId, vals)]
    pure (data, dictSet scal o.path { scalers := some cur' })
  else pure (dictSet data o.path { data := some vals }, scal)

theorem daqBufferScalers_cons (e : Endian) (b : Nat) (rows : List Bytes) (crop : Bytes → Option Nat)
    (o : SegObj) (os : List SegObj) (data scal : RawChunk) :
    daqBufferScalers e b rows crop (o :: os) data scal =
      match (((o.daq.map (·.scalers)).getD []).filter (·.buffer = b)).foldl (daqStep e rows crop o) (.ok (data, scal)) with
      | .ok (data, scal) => daqBufferScalers e b rows crop os data scal
      | .error x => .error x := by
  rw [daqBufferScalers]
  show (do
    let (data, scal) ← (((o.daq.map (·.scalers)).getD []).filter (·.buffer = b)).foldl (daqStep e rows crop o)
      (.ok (data, scal))
    daqBufferScalers e b rows crop os data scal : Except Err (RawChunk × RawChunk)) = _
  cases (((o.daq.map (·.scalers)).getD []).filter (·.buffer = b)).foldl (daqStep e rows crop o) (.ok (data, scal)) with
  | error x => rfl
  | ok r => rfl

theorem daqStep_error (e : Endian) (rows : List Bytes) (crop : Bytes → Option Nat) (o : SegObj) :
    ∀ (l : List DaqScaler) (x : Err), l.foldl (daqStep e rows crop o) (.error x) = .error x := by
  intro l
  induction l with
  | nil => intro x; rfl
  | cons y ys ih => intro x; rw [List.foldl_cons]; exact ih x

/-- the inner loop over the scalers of one object -/
theorem scalerFold_ok (N : Nat) (e : Endian) (rows : List Bytes) (crop : Bytes → Option Nat) (d : List SegObj)
    (o : SegObj) (ho : o ∈ d) (hrows : rows.length ≤ N) :
    ∀ (scs : List DaqScaler) (data scal data' scal' : RawChunk),
      (∀ x ∈ data, EntryOK N crop d x) → (∀ x ∈ scal, EntryOK N crop d x) →
      scs.foldl (daqStep e rows crop o) (.ok (data, scal)) = .ok (data', scal') →
      (∀ x ∈ data', EntryOK N crop d x) ∧ (∀ x ∈ scal', EntryOK N crop d x) := by
  intro scs
  induction scs with
  | nil =>
    intro data scal data' scal' hd hs h
    simp only [List.foldl_nil, Except.ok.injEq, Prod.mk.injEq] at h
    rw [← h.1, ← h.2]; exact ⟨hd, hs⟩
  | cons sc scs ih =>
    intro data scal data' scal' hd hs h
    rw [List.foldl_cons] at h
    cases hm : mapExcept (daqScalerValue e sc) rows with
    | error err =>
      exfalso
      have : daqStep e rows crop o (.ok (data, scal)) sc = .error err := by
        simp only [daqStep, bind, Except.bind, hm]
      rw [this, daqStep_error] at h
      cases h
    | ok vals =>
      have hlen := mapExcept_length _ _ _ hm
      by_cases hraw : o.dataType = some tyDaqmxRaw
      · have : ∃ sc', daqStep e rows crop o (.ok (data, scal)) sc = .ok (data, dictSet scal o.path { scalers := sc' }) := by
          simp only [daqStep, bind, Except.bind, hm, hraw, if_true, pure, Except.pure]
          exact ⟨_, rfl⟩
        obtain ⟨sc', hstep⟩ := this
        rw [hstep] at h
        exact ih _ _ _ _ hd (allOK_dictSet hs (entryOK_scal N crop d _ _)) h
      · have hstep : daqStep e rows crop o (.ok (data, scal)) sc =
            .ok (dictSet data o.path { data := some (match crop o.path with
              | some k => vals.take k
              | none => vals) }, scal) := by
          simp only [daqStep, bind, Except.bind, hm, hraw, if_false, pure, Except.pure]
        rw [hstep] at h
        refine ih _ _ _ _ (allOK_dictSet hd ?_) hs h
        refine ⟨?_, ?_, fun _ => ⟨o, ho, rfl⟩⟩
        · show ((match crop o.path with | some k => vals.take k | none => vals) : List Bytes).length ≤ N
          cases crop o.path with
          | none => simp only; omega
          | some k => simp only [List.length_take]; omega
        · intro k hk
          show ((match crop o.path with | some k => vals.take k | none => vals) : List Bytes).length ≤ k
          simp only at hk
          rw [hk]
          simp only [List.length_take]
          omega


theorem daqBufferScalers_ok (N : Nat) (e : Endian) (b : Nat) (rows : List Bytes) (crop : Bytes → Option Nat)
    (d : List SegObj) (hrows : rows.length ≤ N) :
    ∀ (os : List SegObj), (∀ o ∈ os, o ∈ d) → ∀ (data scal data' scal' : RawChunk),
      (∀ x ∈ data, EntryOK N crop d x) → (∀ x ∈ scal, EntryOK N crop d x) →
      daqBufferScalers e b rows crop os data scal = .ok (data', scal') →
      (∀ x ∈ data', EntryOK N crop d x) ∧ (∀ x ∈ scal', EntryOK N crop d x) := by
  intro os
  induction os with
  | nil =>
    intro _ data scal data' scal' hd hs h
    simp only [daqBufferScalers, Except.ok.injEq, Prod.mk.injEq] at h
    rw [← h.1, ← h.2]; exact ⟨hd, hs⟩
  | cons o os ih =>
    intro hsub data scal data' scal' hd hs h
    rw [daqBufferScalers_cons] at h
    cases hf : (((o.daq.map (·.scalers)).getD []).filter (·.buffer = b)).foldl (daqStep e rows crop o)
        (.ok (data, scal)) with
    | error x => rw [hf] at h; cases h
    | ok r =>
      obtain ⟨d1, s1⟩ := r
      rw [hf] at h
      obtain ⟨hd1, hs1⟩ := scalerFold_ok N e rows crop d o (hsub o List.mem_cons_self) hrows _ _ _ _ _ hd hs hf
      exact ih (fun x hx => hsub x (List.mem_cons_of_mem _ hx)) _ _ _ _ hd1 hs1 h

theorem bufs_ok (N : Nat) (file : Bytes) (s : Segment) (d : List SegObj) (crop : Bytes → Option Nat) :
    ∀ (dims : List (Nat × Nat)) (b : Nat) (data scal : RawChunk) (st st' : FState) (r : RawChunk × RawChunk),
      (∀ x ∈ dims, x.1 ≤ N) → (∀ x ∈ data, EntryOK N crop d x) → (∀ x ∈ scal, EntryOK N crop d x) →
      readDaqmxChunk.bufs file s d crop b dims data scal st = .ok (r, st') →
      (∀ x ∈ r.1, EntryOK N crop d x) ∧ (∀ x ∈ r.2, EntryOK N crop d x) := by
  intro dims
  induction dims with
  | nil =>
    intro b data scal st st' r _ hd hs h
    rw [Tdms.Proofs.C11.bufs_nil] at h
    simp only [Except.ok.injEq, Prod.mk.injEq] at h
    rw [← h.1]; exact ⟨hd, hs⟩
  | cons x xs ih =>
    intro b data scal st st' r hN hd hs h
    obtain ⟨n, w⟩ := x
    rw [Tdms.Proofs.C11.bufs_cons] at h
    cases hr : readRows file w n st with
    | error e => rw [hr] at h; cases h
    | ok v =>
      obtain ⟨rows, st1⟩ := v
      rw [hr] at h
      simp only at h
      have hrows : rows.length ≤ N := Nat.le_trans (post_readRows file w n st rows st1 hr) (hN (n, w) List.mem_cons_self)
      cases hdb : daqBufferScalers s.endian b rows crop d data scal with
      | error e => rw [hdb] at h; cases h
      | ok r1 =>
        obtain ⟨d1, s1⟩ := r1
        rw [hdb] at h
        obtain ⟨hd1, hs1⟩ := daqBufferScalers_ok N s.endian b rows crop d hrows d (fun _ h => h) _ _ _ _ hd hs hdb
        exact ih (b + 1) d1 s1 st1 st' r (fun y hy => hN y (List.mem_cons_of_mem _ hy)) hd1 hs1 h

/-- the crop function `readDaqmxChunk` applies in the truncated final chunk -/
def cropOf (s : Segment) (ci : Nat) : Bytes → Option Nat := fun p =>
  match s.override with
  | some ov => if ci + 1 = s.numChunks then some (overrideGet ov p) else none
  | none => none

theorem daqMetas_bound {N : Nat} {d : List SegObj} (hu : DaqUniform N d) :
    ∀ m ∈ Tdms.Proofs.C11.daqMetas d, m.chunkSize ≤ N := by
  intro m hm
  unfold Tdms.Proofs.C11.daqMetas at hm
  rw [List.mem_filterMap] at hm
  obtain ⟨o, ho, hd⟩ := hm
  exact (hu o (List.mem_filter.1 ho).1).2 m hd

theorem post_readDaqmxChunk (N : Nat) (file : Bytes) (s : Segment) (d : List SegObj) (ci : Nat)
    (hu : DaqUniform N d) :
    Post (readDaqmxChunk file s d ci) (fun c => ∀ x ∈ c, EntryOK N (cropOf s ci) d x) := by
  intro st c st' hrun
  unfold readDaqmxChunk at hrun
  cases hb : bufferDimensions d with
  | error e =>
    simp only [hb] at hrun
    have : (Except.error e : Except Err (RawChunk × FState)) = .ok (c, st') := hrun
    cases this
  | ok dims =>
    simp only [hb] at hrun
    have hN := Tdms.Proofs.C11.bufferDimensions_bound N d dims hb (daqMetas_bound hu)
    have hrun' : (do
        let __x ← readDaqmxChunk.bufs file s d (cropOf s ci) 0 dims [] []
        match __x with
          | (data, scal) => pure (data ++ scal) : F RawChunk) st = .ok (c, st') := hrun
    cases hbufs : readDaqmxChunk.bufs file s d (cropOf s ci) 0 dims [] [] st with
    | error e => rw [bind_run_error hbufs] at hrun'; cases hrun'
    | ok v =>
      obtain ⟨r, st1⟩ := v
      rw [bind_run_ok hbufs] at hrun'
      obtain ⟨hd1, hs1⟩ := bufs_ok N file s d (cropOf s ci) dims 0 [] [] st st1 r hN
        (fun x hx => by cases hx) (fun x hx => by cases hx) hbufs
      obtain ⟨data, scal⟩ := r
      have : (Except.ok (data ++ scal, st1) : Except Err (RawChunk × FState)) = .ok (c, st') := hrun'
      injection this with this
      simp only [Prod.mk.injEq] at this
      rw [← this.1]
      intro x hx
      rcases List.mem_append.1 hx with h | h
      · exact hd1 x h
      · exact hs1 x h

/-- **the DAQmx chunk of one channel holds at most `channelNumberValues` values** -/
theorem post_readChannelChunkAt_daqmx (N : Nat) (file : Bytes) (s : Segment) (d : List SegObj) (p : Bytes) (j : Nat)
    (hu : DaqUniform N d) :
    Post (readChannelChunkAt file s .daqmx d p j) (fun c => dataLen c ≤ chanCap s j p d) := by
  unfold readChannelChunkAt
  dsimp only
  refine Post.bind (post_readDaqmxChunk N file s d j hu) (fun c hc => Post.pure _ ?_)
  unfold RawChunk.get
  cases hf : c.find? (·.1 = p) with
  | none => simp [dataLen]
  | some x =>
    have hx := List.mem_of_find?_eq_some hf
    have hp : x.1 = p := by simpa using List.find?_some hf
    obtain ⟨h1, h2, h3⟩ := hc x hx
    show dataLen x.2 ≤ _
    by_cases hz : dataLen x.2 = 0
    · rw [hz]; exact Nat.zero_le _
    · obtain ⟨o, ho, hop⟩ := h3 hz
      obtain ⟨o', hfind, ho', hp'⟩ := find?_path_some ⟨o, ho, hop.trans hp⟩
      unfold chanCap
      rw [hfind]
      dsimp only
      unfold channelNumberValues
      cases hov : s.override with
      | none => dsimp only; rw [(hu o' ho').1]; exact h1
      | some ov =>
        dsimp only
        split
        · rename_i hlast
          apply h2
          unfold cropOf
          rw [hov]
          simp only [hlast, if_true, hp, hp']
        · rw [(hu o' ho').1]; exact h1

end Tdms.Proofs.C05WF
