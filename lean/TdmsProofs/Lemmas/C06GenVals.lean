/-
  C06, the cut theorem for the general multi-segment class: what a user sees of the cut file — the values of every
  path are a prefix of the values the complete file holds for it, `len(channel)` is their number.  Core Lean only.
-/
import TdmsProofs.Lemmas.C06GenDrop

namespace Tdms.Proofs.C06Gen

open Tdms Tdms.Generated Tdms.Model Tdms.Proofs.C02 Tdms.Proofs.C01Multi Tdms.Proofs.C01Marker
open Tdms.Proofs.Bytes (canonProp)
open Tdms.Proofs.C01Compose (pairsChunk bump valuesIn rcvWith)
open Tdms.Proofs.C06Whole (dataPosOf)

/-- the values a list of (path, values) pairs holds for a path, in order -/
def ff (p : Bytes) (l : List (Bytes × List Bytes)) : List Bytes :=
  (l.filter fun pv => decide (pv.1 = p)).flatMap (·.2)

theorem ff_append (p : Bytes) (l1 l2 : List (Bytes × List Bytes)) : ff p (l1 ++ l2) = ff p l1 ++ ff p l2 := by
  simp [ff]

theorem ff_nil_of_not_mem (p : Bytes) (l : List (Bytes × List Bytes)) (h : p ∉ l.map (·.1)) : ff p l = [] := by
  unfold ff
  have : l.filter (fun pv => decide (pv.1 = p)) = [] := by
    rw [List.filter_eq_nil_iff]
    intro pv hpv
    simp only [decide_eq_true_eq]
    intro e
    exact h (List.mem_map.mpr ⟨pv, hpv, e⟩)
  rw [this]; rfl

theorem foldl_bump_eq_ff (l : List (Bytes × List Bytes)) (p : Bytes) :
    l.foldl bump (fun _ => []) p = ff p l := by
  rw [bump_foldl_closed]; rfl

/-- the truncated chunk holds, under every path, a prefix of what the complete chunk holds -/
theorem zipTake_prefix (lens : Bytes → Nat) (p : Bytes) : ∀ (d : List ActiveObj) (ch : List (List Bytes)),
    (d.map (·.path)).Nodup →
    ff p (pairsOf d (List.zipWith (fun (x : ActiveObj) v => v.take (lens x.path)) d ch)) <+: ff p (pairsOf d ch) := by
  intro d
  induction d with
  | nil => intro ch _; cases ch <;> exact List.prefix_refl _
  | cons x xs ih =>
    intro ch hnd
    cases ch with
    | nil => exact List.prefix_refl _
    | cons v vs =>
      simp only [List.map_cons, List.nodup_cons] at hnd
      have ih' := ih vs hnd.2
      unfold pairsOf ff at ih' ⊢
      simp only [List.zipWith_cons_cons, List.map_cons, List.zip_cons_cons, List.filter_cons]
      by_cases hp : x.path = p
      · have hnot : p ∉ xs.map (·.path) := hp ▸ hnd.1
        have h1 : ∀ (w : List (List Bytes)), ((xs.map (·.path)).zip w).filter (fun pv => decide (pv.1 = p)) = [] := by
          intro w
          rw [List.filter_eq_nil_iff]
          intro pv hpv
          simp only [decide_eq_true_eq]
          intro e
          obtain ⟨p1, p2⟩ := pv
          exact hnot (e ▸ (List.of_mem_zip hpv).1)
        simp only [hp, decide_true, if_true, List.flatMap_cons, h1, List.flatMap_nil, List.append_nil]
        exact List.take_prefix _ _
      · simp only [hp, decide_false, Bool.false_eq_true, if_false]
        exact ih'

/-- **the pairs of the cut file hold, under every path, a prefix of what the pairs of the complete file hold** -/
theorem cutPairs_prefix (I : List SegEnc) (AI : List (List ActiveObj)) (L : SegEnc) (AL : List ActiveObj)
    (post : List SegEnc) (apost : List (List ActiveObj)) (k : Nat) (hl : I.length = AI.length)
    (hokL : SegOK L AL) (hndL : (AL.map (·.path)).Nodup) (hk1 : dataPosOf L ≤ k)
    (hkL : k ≤ (encodeSeg L AL).length) (p : Bytes) :
    ff p (cutPairs I AI L AL k) <+: ff p (allPairs (I ++ L :: post) (AI ++ AL :: apost)) := by
  unfold cutPairs
  rw [allPairs_append I AI _ _ hl, allPairs_append I AI _ _ hl, ff_append, ff_append, ff_append, List.append_assoc]
  apply List.prefix_append_right_inj _ |>.mpr
  simp only [allPairs, List.append_nil, ff_append]
  have hsplit : segPairs L AL = segPairs (takeChunks L (cutQA L AL k)) AL ++
      (L.chunks.drop (cutQA L AL k)).flatMap (pairsOf (dataObjs AL)) := by
    unfold segPairs
    show _ = (L.chunks.take (cutQA L AL k)).flatMap _ ++ _
    rw [← List.flatMap_append, List.take_append_drop]
  rw [hsplit, ff_append, List.append_assoc]
  apply List.prefix_append_right_inj _ |>.mpr
  unfold lastPairs
  by_cases hr : cutRA L AL k = 0
  · rw [if_pos hr]; exact List.nil_prefix
  · rw [if_neg hr]
    obtain ⟨_, _, _, hq⟩ := cutRA_pos_imp L AL hokL k hk1 hkL hr
    rw [List.drop_eq_getElem_cons hq, List.flatMap_cons, ff_append, List.append_assoc]
    refine List.IsPrefix.trans ?_ (List.prefix_append _ _)
    unfold lastChunkA
    rw [Tdms.Proofs.C06Whole.getD_of_lt _ _ _ hq]
    exact zipTake_prefix _ p _ _ (dataObjs_nodup hndL)

/-! ## the paths of the cut file's pairs get receivers -/

theorem cutPairs_rcv (I : List SegEnc) (AI : List (List ActiveObj)) (L : SegEnc) (AL : List ActiveObj)
    (k : Nat) (hl : I.length = AI.length) (hok : SegsOK (I ++ [L]) (AI ++ [AL]))
    (hch : ∀ sa ∈ (I ++ [L]).zip (AI ++ [AL]), ChannelsOnly sa)
    (hk1 : dataPosOf L ≤ k) (hkL : k ≤ (encodeSeg L AL).length) :
    ∀ p ∈ (cutPairs I AI L AL k).map (·.1), p ∈ rcvPathsC (cutContent I AI L AL k) := by
  obtain ⟨hokI, hokL⟩ := segsOK_append I AI [L] [AL] hl hok
  have hokL' : SegOK L AL := hokL.1
  have hokq : SegsOK (I ++ [takeChunks L (cutQA L AL k)]) (AI ++ [AL]) :=
    segsOK_snoc hl hokI (segOK_takeChunks hokL' _)
  have hzipq : ∀ sa ∈ (I ++ [takeChunks L (cutQA L AL k)]).zip (AI ++ [AL]), ChannelsOnly sa := by
    intro sa hsa
    rw [List.zip_append hl] at hsa
    rcases List.mem_append.mp hsa with h1 | h1
    · exact hch sa (by rw [List.zip_append hl]; exact List.mem_append_left _ h1)
    · simp only [List.zip_cons_cons, List.zip_nil_right, List.mem_singleton] at h1
      subst h1
      intro hne x hx hd
      have hLne : L.chunks ≠ [] := by
        intro h0
        apply hne
        show L.chunks.take _ = []
        rw [h0]; simp
      exact hch (L, AL) (by rw [List.zip_append hl]; simp) hLne x hx hd
  intro p hp
  unfold cutPairs at hp
  rw [List.map_append, List.mem_append] at hp
  rcases hp with hp | hp
  · obtain ⟨h1, sa, hsa, hne, x, hx, hd, hxp⟩ := allPairs_hasTy _ _ [] hokq p hp
    exact mem_rcvPathsC h1 (hxp ▸ hzipq sa hsa hne x hx hd)
  · unfold lastPairs at hp
    by_cases hr : cutRA L AL k = 0
    · simp [hr] at hp
    · rw [if_neg hr] at hp
      obtain ⟨pv, hpv, rfl⟩ := List.mem_map.mp hp
      have hpd : pv.1 ∈ (dataObjs AL).map (·.path) := by
        obtain ⟨p1, p2⟩ := pv
        exact (List.of_mem_zip hpv).1
      obtain ⟨x, hx, hxp⟩ := List.mem_map.mp hpd
      have hxa : x ∈ AL ∧ x.hasData = true := by simpa [dataObjs] using hx
      obtain ⟨_, _, _, hq⟩ := cutRA_pos_imp L AL hokL' k hk1 hkL hr
      have hLne : L.chunks ≠ [] := by intro h0; rw [h0] at hq; simp at hq
      obtain ⟨ty, n, total, hi⟩ := dataObjs_idx_of_chunk L AL hokL' hLne x hx
      have hty : hasTy (cutContent I AI L AL k) x.path := by
        unfold cutContent
        rw [denoteSegs_append I AI _ _ [] hl]
        exact hasTy_denoteSeg_active _ _ _ (not_daq_of_good hokL'.good) x hxa.1 (by rw [hi]; simp)
      rw [← hxp]
      exact mem_rcvPathsC hty (hch (L, AL) (by rw [List.zip_append hl]; simp) hLne x hxa.1 hxa.2)

/-! ## what the cut file holds -/

/-- the values the cut file holds for a path are a prefix of the pairs it delivers -/
theorem cut_values_prefix (I : List SegEnc) (AI : List (List ActiveObj)) (L : SegEnc) (AL : List ActiveObj)
    (k : Nat) (p : Bytes) : valuesIn (cutChannelsG I AI L AL k) p <+: ff p (cutPairs I AI L AL k) := by
  unfold cutChannelsG
  rw [C01Compose.valuesIn_rcvWith]
  split
  · rw [foldl_bump_eq_ff]; exact List.prefix_refl _
  · exact List.nil_prefix

/-- **`len(channel)` is the number of values the cut file holds** -/
theorem cut_numValues (I : List SegEnc) (AI : List (List ActiveObj)) (L : SegEnc) (AL : List ActiveObj)
    (k : Nat) (hl : I.length = AI.length) (hok : SegsOK (I ++ [L]) (AI ++ [AL])) (hnd : ActsNodup (AI ++ [AL]))
    (hch : ∀ sa ∈ (I ++ [L]).zip (AI ++ [AL]), ChannelsOnly sa)
    (hk1 : dataPosOf L ≤ k) (hkL : k ≤ (encodeSeg L AL).length) :
    ∀ m ∈ (cutContent I AI L AL k).map (mOC (exCut AL L k)),
      m.numValues = (valuesIn (cutChannelsG I AI L AL k) m.path).length := by
  obtain ⟨hokI, hokL⟩ := segsOK_append I AI [L] [AL] hl hok
  have hokL' : SegOK L AL := hokL.1
  have hndL : (AL.map (·.path)).Nodup := hnd AL (by simp)
  have hokq : SegsOK (I ++ [takeChunks L (cutQA L AL k)]) (AI ++ [AL]) :=
    segsOK_snoc hl hokI (segOK_takeChunks hokL' _)
  have hnodup : ((cutContent I AI L AL k).map (·.path)).Nodup := denoteSegs_nodup _ _ [] hokq (by simp)
  have hvals : valsOf (cutContent I AI L AL k) =
      (allPairs (I ++ [takeChunks L (cutQA L AL k)]) (AI ++ [AL])).foldl bump (fun _ => []) :=
    valsOf_denoteSegs _ _ [] hokq
  have hps := cutPairs_rcv I AI L AL k hl hok hch hk1 hkL
  intro m hm
  obtain ⟨oc, hoc, rfl⟩ := List.mem_map.mp hm
  have hvoc : valsOf (cutContent I AI L AL k) oc.path = oc.values := by
    unfold valsOf
    rw [find_of_nodup hnodup hoc]
    rfl
  have hff : ff oc.path (cutPairs I AI L AL k) =
      valsOf (cutContent I AI L AL k) oc.path ++ ff oc.path (lastPairs L AL k) := by
    unfold cutPairs
    rw [ff_append, hvals, foldl_bump_eq_ff]
  have hcount := lastPairs_count L AL hokL' hndL k hk1 hkL oc.path
  show oc.values.length + exCut AL L k oc.path = (valuesIn (cutChannelsG I AI L AL k) oc.path).length
  unfold cutChannelsG
  rw [C01Compose.valuesIn_rcvWith]
  by_cases hp : oc.path ∈ rcvPathsC (cutContent I AI L AL k)
  · rw [if_pos hp, foldl_bump_eq_ff, hff, List.length_append, hvoc, ← hcount]
    rfl
  · rw [if_neg hp]
    have hnot : oc.path ∉ (cutPairs I AI L AL k).map (·.1) := fun h => hp (hps _ h)
    have h0 := ff_nil_of_not_mem _ _ hnot
    rw [hff, hvoc] at h0
    have h1 : oc.values = [] := (List.append_eq_nil_iff.mp h0).1
    have h2 : ff oc.path (lastPairs L AL k) = [] := (List.append_eq_nil_iff.mp h0).2
    have h3 : exCut AL L k oc.path = 0 := by
      rw [← hcount]
      show (ff oc.path (lastPairs L AL k)).length = 0
      rw [h2]; rfl
    rw [h1, h3]; rfl

end Tdms.Proofs.C06Gen
