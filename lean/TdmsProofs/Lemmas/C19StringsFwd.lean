import TdmsProofs.Lemmas.C19StringsRead

/-!
# C19Strings: what is true of `read_values` on ARBITRARY bytes

`Fwd file m`: a successful run of `m` only reads forward from where it starts — every read lies in
`[start, final position]`, the final position is at most `max start (length of the file)`, and the bytes
returned add up to `final − start`.  This holds for `readValues` of every type, strings included, whatever
the file contains; it is the only bound that holds for a string channel with a corrupt offset table
(`file.read(offset[i] − offset[i−1])` with a huge or negative argument reads up to the end of the file).
Core Lean only.
-/

namespace Tdms.Proofs.C19S

open Tdms Tdms.Model Tdms.Generated Tdms.Proofs.C05 Tdms.Proofs.C19

def Fwd {α : Type} (file : Bytes) (m : F α) : Prop :=
  ∀ s a s', m s = .ok (a, s') → s.pos ≤ s'.pos ∧ s'.pos ≤ max s.pos file.length ∧
    ∃ l, s'.trace = s.trace ++ l ∧ (∀ x ∈ l, s.pos ≤ x.1 ∧ x.1 + x.2 ≤ s'.pos) ∧
      traceBytes l = s'.pos - s.pos

variable {α β : Type} {file : Bytes}

theorem Fwd.pure (a : α) : Fwd file (pure a : F α) := by
  intro s a' s' hrun
  have : (Except.ok (a, s) : Except Err (α × FState)) = .ok (a', s') := hrun
  injection this with this
  simp only [Prod.mk.injEq] at this
  obtain ⟨_, rfl⟩ := this
  exact ⟨Nat.le_refl _, by omega, [], by simp, by simp, by simp⟩

theorem Fwd.throw (e : Err) : Fwd file (throw e : F α) := by
  intro s a' s' hrun
  have : (Except.error e : Except Err (α × FState)) = .ok (a', s') := hrun
  cases this

theorem Fwd.bind {m : F α} {k : α → F β} (hm : Fwd file m) (hk : ∀ a, Fwd file (k a)) : Fwd file (m >>= k) := by
  intro s b s'' hrun
  cases h1 : m s with
  | error e => rw [bind_run_error h1] at hrun; cases hrun
  | ok x =>
    obtain ⟨a, s'⟩ := x
    rw [bind_run_ok h1] at hrun
    obtain ⟨p1, p2, l1, hl1, ha1, hb1⟩ := hm s a s' h1
    obtain ⟨q1, q2, l2, hl2, ha2, hb2⟩ := hk a s' b s'' hrun
    refine ⟨by omega, by omega, l1 ++ l2, by rw [hl2, hl1, List.append_assoc], ?_, ?_⟩
    · intro x hx
      rcases List.mem_append.1 hx with h | h
      · have := ha1 x h; omega
      · have := ha2 x h; omega
    · rw [traceBytes_append]; omega

theorem Fwd.ite {c : Prop} [Decidable c] {a b : F α} (ha : Fwd file a) (hb : Fwd file b) :
    Fwd file (if c then a else b) := by
  split <;> assumption

theorem Fwd.fRead (n : Nat) : Fwd file (fRead file n) := by
  intro s a' s' hrun
  have : (Except.ok ((file.drop s.pos).take n,
      { pos := s.pos + ((file.drop s.pos).take n).length,
        trace := s.trace ++ [(s.pos, ((file.drop s.pos).take n).length)] }) : Except Err (Bytes × FState)) =
      .ok (a', s') := hrun
  injection this with this
  simp only [Prod.mk.injEq] at this
  obtain ⟨_, rfl⟩ := this
  have hlen : ((file.drop s.pos).take n).length ≤ file.length - s.pos := by
    simp only [List.length_take, List.length_drop]; omega
  refine ⟨by simp, by simp only; omega, [_], rfl, ?_, by simp⟩
  intro x hx
  simp only [List.mem_singleton] at hx
  subst hx
  simp

theorem Fwd.fReadAll : Fwd file (fReadAll file) := by
  intro s a' s' hrun
  have : (Except.ok (file.drop s.pos,
      { pos := s.pos + (file.drop s.pos).length,
        trace := s.trace ++ [(s.pos, (file.drop s.pos).length)] }) : Except Err (Bytes × FState)) =
      .ok (a', s') := hrun
  injection this with this
  simp only [Prod.mk.injEq] at this
  obtain ⟨_, rfl⟩ := this
  have hlen : (file.drop s.pos).length = file.length - s.pos := by simp
  refine ⟨by simp, by simp only; omega, [_], rfl, ?_, by simp⟩
  intro x hx
  simp only [List.mem_singleton] at hx
  subst hx
  simp

theorem fwd_offsets (file : Bytes) (e : Endian) (n : Nat) : Fwd file (readStringValues.offsets file e n) := by
  induction n with
  | zero => unfold readStringValues.offsets; exact Fwd.pure _
  | succ k ih =>
    unfold readStringValues.offsets
    refine Fwd.bind (Fwd.fRead 4) (fun b => ?_)
    refine Fwd.ite ?_ ?_
    · rw [throw_bind_F]; exact Fwd.throw _
    · exact Fwd.bind ih (fun _ => Fwd.pure _)

theorem fwd_strings (file : Bytes) (prev : Nat) (os : List Nat) : Fwd file (readStringValues.strings file prev os) := by
  induction os generalizing prev with
  | nil => unfold readStringValues.strings; exact Fwd.pure _
  | cons o os ih =>
    unfold readStringValues.strings
    dsimp only
    have hjp : ∀ s : Bytes, Fwd file (do let rest ← readStringValues.strings file o os; pure (s :: rest)) :=
      fun s => Fwd.bind (ih o) (fun _ => Fwd.pure _)
    exact Fwd.ite (Fwd.bind Fwd.fReadAll hjp) (Fwd.bind (Fwd.fRead _) hjp)

theorem fwd_readStringValues (file : Bytes) (e : Endian) (n : Nat) : Fwd file (readStringValues file e n) := by
  unfold readStringValues
  exact Fwd.bind (fwd_offsets file e n) (fun offs => fwd_strings file 0 offs)

/-- **arbitrary bytes, every type**: `read_values` only reads forward, never past the end of the file -/
theorem fwd_readValues (file : Bytes) (e : Endian) (o : SegObj) (n : Nat) : Fwd file (readValues file e o n) := by
  unfold readValues
  split
  · exact Fwd.throw _
  · split
    · exact Fwd.throw _
    · split
      · refine Fwd.bind (Fwd.fRead _) (fun b => ?_)
        refine Fwd.ite ?_ (Fwd.pure _)
        rw [throw_bind_F]; exact Fwd.throw _
      · exact Fwd.ite (fwd_readStringValues file e n) (Fwd.throw _)

end Tdms.Proofs.C19S
