/-
  C07 (checked writer): the per-session type guard `sessionTypesOk` of `TdmsWriter.write_segment`
  (`Tdms/Model/Writer.lean`) characterised as pairwise consistency of the typed channel objects handed to the
  writer in one session.  Core Lean only.
-/
import TdmsProofs.Properties.C07Whole

namespace Tdms.Proofs.C07Checked

open Tdms Tdms.Generated Tdms.Model Tdms.Model.Writer Tdms.Proofs.C08 Tdms.Proofs.C07Whole

/-! ## definitions -/

/-- one session is consistent: `Consistent` (C07Whole) on the objects HANDED to `write_segment` during the
    session.  Only channel objects with a typed array have `tyOfW ≠ none`, so this is `Consistent` restricted to
    the session's typed channel objects (`sessionConsistent_iff_typed`). -/
def SessionConsistent (session : List (List WObj)) : Prop := Consistent session.flatten

instance (session : List (List WObj)) : Decidable (SessionConsistent session) := by
  unfold SessionConsistent; infer_instance

/-- no typed write in `a` disagrees with a typed write of the same path in `b` -/
def Cross (a b : List WObj) : Prop :=
  ∀ o₁ ∈ a, ∀ o₂ ∈ b, o₁.path = o₂.path → tyOfW o₁ = none ∨ tyOfW o₂ = none ∨ tyOfW o₁ = tyOfW o₂

instance (a b : List WObj) : Decidable (Cross a b) := by unfold Cross; infer_instance

/-- no channel is typed differently in two DIFFERENT sessions -/
def CrossConsistent (prog : Program) : Prop := prog.Pairwise fun s₁ s₂ => Cross s₁.flatten s₂.flatten

instance (prog : Program) : Decidable (CrossConsistent prog) := by unfold CrossConsistent; infer_instance

/-- every single `write_segment` call is consistent in itself (implied by the writer's duplicate-path check) -/
def SegmentsConsistent (prog : Program) : Prop := ∀ session ∈ prog, ∀ seg ∈ session, Consistent seg

instance (prog : Program) : Decidable (SegmentsConsistent prog) := by unfold SegmentsConsistent; infer_instance

/-- a table of `(path, type)` entries assigns one type per path -/
def PairsConsistent (l : List (Bytes × Nat)) : Prop := ∀ a ∈ l, ∀ b ∈ l, a.1 = b.1 → a.2 = b.2

def CrossP (a b : List (Bytes × Nat)) : Prop := ∀ x ∈ a, ∀ y ∈ b, y.1 = x.1 → y.2 = x.2

/-! ## `Consistent` is a property of the set of typed members -/

theorem cross_symm {a b : List WObj} (h : Cross a b) : Cross b a := by
  intro o₁ h₁ o₂ h₂ hp
  rcases h o₂ h₂ o₁ h₁ hp.symm with h | h | h
  · exact .inr (.inl h)
  · exact .inl h
  · exact .inr (.inr h.symm)

theorem consistent_append (a b : List WObj) :
    Consistent (a ++ b) ↔ Consistent a ∧ Consistent b ∧ Cross a b := by
  constructor
  · intro h
    refine ⟨?_, ?_, ?_⟩
    · intro o₁ h₁ o₂ h₂; exact h o₁ (List.mem_append_left _ h₁) o₂ (List.mem_append_left _ h₂)
    · intro o₁ h₁ o₂ h₂; exact h o₁ (List.mem_append_right _ h₁) o₂ (List.mem_append_right _ h₂)
    · intro o₁ h₁ o₂ h₂; exact h o₁ (List.mem_append_left _ h₁) o₂ (List.mem_append_right _ h₂)
  · rintro ⟨ha, hb, hx⟩ o₁ h₁ o₂ h₂ hp
    rcases List.mem_append.1 h₁ with h₁ | h₁ <;> rcases List.mem_append.1 h₂ with h₂ | h₂
    · exact ha o₁ h₁ o₂ h₂ hp
    · exact hx o₁ h₁ o₂ h₂ hp
    · exact cross_symm hx o₁ h₁ o₂ h₂ hp
    · exact hb o₁ h₁ o₂ h₂ hp

theorem cross_flatten_right (a : List WObj) (l : List (List WObj)) :
    Cross a l.flatten ↔ ∀ b ∈ l, Cross a b := by
  constructor
  · intro h b hb o₁ h₁ o₂ h₂; exact h o₁ h₁ o₂ (List.mem_flatten.2 ⟨b, hb, h₂⟩)
  · intro h o₁ h₁ o₂ h₂
    obtain ⟨b, hb, h₂⟩ := List.mem_flatten.1 h₂
    exact h b hb o₁ h₁ o₂ h₂

/-- `Consistent` of a concatenation of blocks: every block consistent, and every two different blocks agree -/
theorem consistent_flatten (l : List (List WObj)) :
    Consistent l.flatten ↔ (∀ x ∈ l, Consistent x) ∧ l.Pairwise Cross := by
  induction l with
  | nil =>
    simp only [List.flatten_nil, List.not_mem_nil, false_imp_iff, implies_true, List.Pairwise.nil, and_self, iff_true]
    intro o h; cases h
  | cons x xs ih =>
    rw [List.flatten_cons, consistent_append, ih, List.pairwise_cons, cross_flatten_right]
    constructor
    · rintro ⟨hx, ⟨hxs, hp⟩, hc⟩
      exact ⟨fun y hy => by rcases List.mem_cons.1 hy with rfl | hy; exact hx; exact hxs y hy, hc, hp⟩
    · rintro ⟨hall, hc, hp⟩
      exact ⟨hall x List.mem_cons_self, ⟨fun y hy => hall y (List.mem_cons_of_mem _ hy), hp⟩, hc⟩

theorem consistent_of_typed_subset {a b : List WObj} (hsub : ∀ o ∈ a, o ∈ b ∨ tyOfW o = none)
    (h : Consistent b) : Consistent a := by
  intro o₁ h₁ o₂ h₂ hp
  rcases hsub o₁ h₁ with h₁ | h₁
  · rcases hsub o₂ h₂ with h₂ | h₂
    · exact h o₁ h₁ o₂ h₂ hp
    · exact .inr (.inl h₂)
  · exact .inl h₁

theorem cross_of_typed_subset {a a' b b' : List WObj} (ha : ∀ o ∈ a, o ∈ a' ∨ tyOfW o = none)
    (hb : ∀ o ∈ b, o ∈ b' ∨ tyOfW o = none) (h : Cross a' b') : Cross a b := by
  intro o₁ h₁ o₂ h₂ hp
  rcases ha o₁ h₁ with h₁ | h₁
  · rcases hb o₂ h₂ with h₂ | h₂
    · exact h o₁ h₁ o₂ h₂ hp
    · exact .inr (.inl h₂)
  · exact .inl h₁

theorem eq_of_nodup_map_path : ∀ {l : List WObj}, (l.map (·.path)).Nodup → ∀ {a b : WObj}, a ∈ l → b ∈ l →
    a.path = b.path → a = b := by
  intro l
  induction l with
  | nil => intro _ a b ha; cases ha
  | cons x xs ih =>
    intro h a b ha hb hp
    rw [List.map_cons, List.nodup_cons] at h
    rcases List.mem_cons.1 ha with hax | hax
    · rcases List.mem_cons.1 hb with hbx | hbx
      · rw [hax, hbx]
      · exact (h.1 (List.mem_map.2 ⟨b, hbx, by rw [← hp, hax]⟩)).elim
    · rcases List.mem_cons.1 hb with hbx | hbx
      · exact (h.1 (List.mem_map.2 ⟨a, hax, by rw [hp, hbx]⟩)).elim
      · exact ih h.2 hax hbx hp

/-- distinct paths: trivially consistent -/
theorem consistent_of_nodup {l : List WObj} (h : (l.map (·.path)).Nodup) : Consistent l := by
  intro o₁ h₁ o₂ h₂ hp
  have : o₁ = o₂ := eq_of_nodup_map_path h h₁ h₂ hp
  exact .inr (.inr (this ▸ rfl))

/-! ## the typed channel table -/

theorem tyOfW_channel (g c : Bytes) (d : WData) (p : List WProp) :
    tyOfW (.channel g c d p) = if d.ty = tyVoid then none else some d.ty := by
  simp only [tyOfW, dataOf]
  split <;> rfl

theorem mem_typedChannels (objs : List WObj) (pt : Bytes × Nat) :
    pt ∈ typedChannels objs ↔ ∃ o ∈ objs, o.path = pt.1 ∧ tyOfW o = some pt.2 := by
  obtain ⟨pp, pty⟩ := pt
  unfold typedChannels
  rw [List.mem_filterMap]
  constructor
  · rintro ⟨o, ho, h⟩
    refine ⟨o, ho, ?_⟩
    cases o with
    | root p => cases h
    | group g p => cases h
    | channel g c d p =>
      simp only at h
      rw [tyOfW_channel]
      split at h
      · cases h
      · cases h; rename_i hv; simp [hv]
  · rintro ⟨o, ho, hp, ht⟩
    refine ⟨o, ho, ?_⟩
    cases o with
    | root p => cases ht
    | group g p => cases ht
    | channel g c d p =>
      rw [tyOfW_channel] at ht
      simp only
      split at ht
      · cases ht
      · rename_i hv
        rw [if_neg hv]
        simp only at hp ht
        rw [hp, Option.some.inj ht]

theorem typedChannels_append (a b : List WObj) : typedChannels (a ++ b) = typedChannels a ++ typedChannels b := by
  unfold typedChannels; rw [List.filterMap_append]

theorem typedChannels_flatten (l : List (List WObj)) : typedChannels l.flatten = l.flatMap typedChannels := by
  induction l with
  | nil => rfl
  | cons x xs ih => rw [List.flatten_cons, typedChannels_append, ih, List.flatMap_cons]

/-- `Consistent` = the table of typed channel entries assigns one type per path -/
theorem consistent_iff_pairs (ws : List WObj) : Consistent ws ↔ PairsConsistent (typedChannels ws) := by
  constructor
  · intro h a ha b hb hab
    obtain ⟨o₁, h₁, hp₁, ht₁⟩ := (mem_typedChannels ws a).1 ha
    obtain ⟨o₂, h₂, hp₂, ht₂⟩ := (mem_typedChannels ws b).1 hb
    rcases h o₁ h₁ o₂ h₂ (by rw [hp₁, hp₂, hab]) with h | h | h
    · rw [ht₁] at h; cases h
    · rw [ht₂] at h; cases h
    · rw [ht₁, ht₂] at h; exact Option.some.inj h
  · intro h o₁ h₁ o₂ h₂ hp
    cases ht₁ : tyOfW o₁ with
    | none => exact .inl rfl
    | some t₁ =>
      cases ht₂ : tyOfW o₂ with
      | none => exact .inr (.inl rfl)
      | some t₂ =>
        have := h (o₁.path, t₁) ((mem_typedChannels ws _).2 ⟨o₁, h₁, rfl, ht₁⟩)
          (o₂.path, t₂) ((mem_typedChannels ws _).2 ⟨o₂, h₂, rfl, ht₂⟩) hp
        simp only at this
        exact .inr (.inr (by rw [this]))

theorem pairs_congr {a b : List (Bytes × Nat)} (h : ∀ x, x ∈ a ↔ x ∈ b) :
    PairsConsistent a ↔ PairsConsistent b := by
  constructor
  · intro hc x hx y hy; exact hc x ((h x).2 hx) y ((h y).2 hy)
  · intro hc x hx y hy; exact hc x ((h x).1 hx) y ((h y).1 hy)

theorem pairs_append (a b : List (Bytes × Nat)) :
    PairsConsistent (a ++ b) ↔ PairsConsistent a ∧ PairsConsistent b ∧ CrossP a b := by
  constructor
  · intro h
    refine ⟨?_, ?_, ?_⟩
    · intro x hx y hy; exact h x (List.mem_append_left _ hx) y (List.mem_append_left _ hy)
    · intro x hx y hy; exact h x (List.mem_append_right _ hx) y (List.mem_append_right _ hy)
    · intro x hx y hy; exact h y (List.mem_append_right _ hy) x (List.mem_append_left _ hx)
  · rintro ⟨ha, hb, hx⟩ x h₁ y h₂ hp
    rcases List.mem_append.1 h₁ with h₁ | h₁ <;> rcases List.mem_append.1 h₂ with h₂ | h₂
    · exact ha x h₁ y h₂ hp
    · exact (hx x h₁ y h₂ hp.symm).symm
    · exact hx y h₂ x h₁ hp
    · exact hb x h₁ y h₂ hp

/-! ## one step of the guard -/

theorem lookupType_some {seen : List (Bytes × Nat)} {p : Bytes} {t : Nat} (h : lookupType seen p = some t) :
    (p, t) ∈ seen := by
  unfold lookupType at h
  cases hf : seen.find? (·.1 = p) with
  | none => rw [hf] at h; cases h
  | some x =>
    rw [hf] at h
    have hm := List.mem_of_find?_eq_some hf
    have hp := List.find?_some hf
    simp only [decide_eq_true_eq] at hp
    simp only [Option.map_some, Option.some.injEq] at h
    obtain ⟨x1, x2⟩ := x
    simp only at hp h
    subst hp; subst h
    exact hm

theorem lookupType_of_mem {seen : List (Bytes × Nat)} {p : Bytes} {t : Nat} (h : (p, t) ∈ seen) :
    ∃ t', lookupType seen p = some t' := by
  unfold lookupType
  cases hf : seen.find? (·.1 = p) with
  | none =>
    rw [List.find?_eq_none] at hf
    exact (hf _ h (by simp)).elim
  | some x => exact ⟨x.2, rfl⟩

/-- the check `write_segment` makes against the table, as a relation (the table being consistent) -/
theorem typesStep_check_iff (seen cts : List (Bytes × Nat)) (f : Bytes × Nat → Bool) (hs : PairsConsistent seen)
    (hf : ∀ pt, f pt = true ↔ ∀ t, lookupType seen pt.1 = some t → t = pt.2) :
    cts.all f = true ↔ CrossP cts seen := by
  rw [List.all_eq_true]
  constructor
  · intro h x hx y hy hyx
    have hx' := (hf x).1 (h x hx)
    obtain ⟨t', ht'⟩ := lookupType_of_mem (p := x.1) (t := y.2) (by rw [← hyx]; exact hy)
    have e := hx' t' ht'
    have hm := lookupType_some ht'
    have := hs _ hm y hy (by simp [hyx])
    simp only at this
    rw [← this, e]
  · intro h x hx
    rw [hf]
    intro t hl
    have hm := lookupType_some hl
    exact h x hx _ hm rfl

theorem typesStep_eq (seen : List (Bytes × Nat)) (objs : List WObj) (hs : PairsConsistent seen) :
    (CrossP (typedChannels objs) seen → typesStep seen objs = some (typedChannels objs ++ seen)) ∧
    (¬ CrossP (typedChannels objs) seen → typesStep seen objs = none) := by
  unfold typesStep
  simp only
  have hf : ∀ (pt : Bytes × Nat) (b : Bool),
      (b = match lookupType seen pt.1 with | some t => t == pt.2 | none => true) →
      (b = true ↔ ∀ t, lookupType seen pt.1 = some t → t = pt.2) := by
    intro pt b hb
    cases hl : lookupType seen pt.1 with
    | none => rw [hl] at hb; simp [hb]
    | some t => rw [hl] at hb; simp [hb]
  constructor
  · intro h
    split
    · rfl
    · rename_i hn
      exact (hn ((typesStep_check_iff seen _ _ hs (fun pt => hf pt _ rfl)).2 h)).elim
  · intro h
    split
    · rename_i hy
      exact (h ((typesStep_check_iff seen _ _ hs (fun pt => hf pt _ rfl)).1 hy)).elim
    · rfl

/-! ## the guard over a session -/

theorem sessionTypesOk_iff_pairs : ∀ (segs : List (List WObj)) (seen : List (Bytes × Nat)),
    PairsConsistent seen → (∀ seg ∈ segs, PairsConsistent (typedChannels seg)) →
    (sessionTypesOk seen segs = true ↔ PairsConsistent (segs.flatMap typedChannels ++ seen)) := by
  intro segs
  induction segs with
  | nil => intro seen hs _; simp [sessionTypesOk, hs]
  | cons seg rest ih =>
    intro seen hs hseg
    have hcts := hseg seg List.mem_cons_self
    have hrest : ∀ s ∈ rest, PairsConsistent (typedChannels s) := fun s h => hseg s (List.mem_cons_of_mem _ h)
    have hperm : PairsConsistent ((seg :: rest).flatMap typedChannels ++ seen) ↔
        PairsConsistent (rest.flatMap typedChannels ++ (typedChannels seg ++ seen)) := by
      apply pairs_congr
      intro x
      simp only [List.flatMap_cons, List.mem_append]
      constructor
      · rintro ((h | h) | h)
        · exact .inr (.inl h)
        · exact .inl h
        · exact .inr (.inr h)
      · rintro (h | h | h)
        · exact .inl (.inr h)
        · exact .inl (.inl h)
        · exact .inr h
    rw [hperm]
    unfold sessionTypesOk
    by_cases hc : CrossP (typedChannels seg) seen
    · rw [(typesStep_eq seen seg hs).1 hc]
      simp only
      exact ih _ ((pairs_append _ _).2 ⟨hcts, hs, hc⟩) hrest
    · rw [(typesStep_eq seen seg hs).2 hc]
      simp only [Bool.false_eq_true, false_iff]
      intro h
      exact hc ((pairs_append _ _).1 ((pairs_append _ _).1 h).2.1).2.2

/-- **the guard of one session, exactly**: a session whose single `write_segment` calls are consistent in
    themselves passes the type guard iff its typed channel objects are pairwise consistent -/
theorem sessionTypesOk_iff (session : List (List WObj)) (hseg : ∀ seg ∈ session, Consistent seg) :
    sessionTypesOk [] session = true ↔ SessionConsistent session := by
  rw [sessionTypesOk_iff_pairs session [] (by intro a ha; cases ha)
    (fun seg h => (consistent_iff_pairs seg).1 (hseg seg h)), List.append_nil]
  unfold SessionConsistent
  rw [consistent_iff_pairs, typedChannels_flatten]

/-- a consistent session always passes (no side condition) -/
theorem sessionTypesOk_of_consistent (session : List (List WObj)) (h : SessionConsistent session) :
    sessionTypesOk [] session = true :=
  (sessionTypesOk_iff session (fun seg hs =>
    consistent_of_typed_subset (fun _ ho => .inl (List.mem_flatten.2 ⟨seg, hs, ho⟩)) h)).2 h

theorem sessionConsistent_iff_typed (session : List (List WObj)) :
    SessionConsistent session ↔ PairsConsistent (typedChannels session.flatten) :=
  consistent_iff_pairs _

end Tdms.Proofs.C07Checked
