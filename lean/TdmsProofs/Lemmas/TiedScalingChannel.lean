import TdmsProofs.Lemmas.TiedScalingAgree

/-!
# `_get_number_of_scalings`, `_get_channel_scaling`, `get_scaling` (generated) against the model
-/

namespace Tdms.Proofs.Tied2

open Tdms.Model.Scaling Tdms.Generated Tdms.Generated.Code2

variable {R : Type}

/-- the regular expression `NI_Scale\[(\d+)\]_Scale_Type` of `scaling.py` is NOT translated: the generated
    `_get_number_of_scalings` takes "key ↦ int(group 1) of the match, or None" as a parameter, instantiated here
    with the model's `scaleTypeIndex` -/
def regexIndex (k : List Char) : Option Int := (scaleTypeIndex (String.ofList k)).map fun (n : Nat) => (n : Int)

theorem foldl_max_cast (is : List Nat) (i : Nat) :
    (is.map fun (n : Nat) => (n : Int)).foldl max (i : Int) = ((is.foldl max i : Nat) : Int) := by
  induction is generalizing i with
  | nil => rfl
  | cons j js ih =>
    simp only [List.map_cons, List.foldl_cons]
    have : max (i : Int) (j : Int) = ((max i j : Nat) : Int) := by omega
    rw [this, ih]

theorem regex_keys (ps : Props R) :
    List.filterMap (fun m => m) (List.map (fun key => regexIndex key) (Py.Dict.keys (pyProps ps))) =
      (ps.filterMap fun kv => scaleTypeIndex kv.1).map fun (n : Nat) => (n : Int) := by
  rw [keys_pyProps]
  induction ps with
  | nil => rfl
  | cons kv rest ih =>
    simp only [List.map_cons, List.filterMap_cons, regexIndex, String.ofList_toList]
    cases h : scaleTypeIndex kv.1 with
    | none => simpa [regexIndex] using ih
    | some n => simp only [Option.map_some, List.map_cons]; congr 1

theorem number_of_scalings_tied (ps : Props R) (h : IsNat ps "NI_Number_Of_Scales") :
    _get_number_of_scalings regexIndex (pyProps ps) =
      .ok ((numberOfScalings ps).map fun (n : Nat) => (n : Int)) := by
  unfold _get_number_of_scalings numberOfScalings
  keys_simp
  have hk : String.ofList ['N', 'I', '_', 'N', 'u', 'm', 'b', 'e', 'r', '_', 'O', 'f', '_', 'S', 'c', 'a', 'l', 'e', 's']
      = "NI_Number_Of_Scales" := by decide
  simp only [hk]
  cases hg : ps.get "NI_Number_Of_Scales" with
  | some v =>
    obtain ⟨n, rfl⟩ := h v hg
    simp [getM, hg, pyPV, Py.Val.toIntConv]
  | none =>
    simp only [Option.isSome_none, Bool.false_eq_true, if_false, regex_keys]
    cases hf : ps.filterMap (fun kv => scaleTypeIndex kv.1) with
    | nil => simp [Py.maxE, Py.tryCatch]
    | cons i is =>
      simp only [List.map_cons, Py.maxE, foldl_max_cast, Py.tryCatch, ok_bind, pure_eq_ok, Option.map_some]
      congr 2

section Loop
variable [NatCast R] [Neg R] [LT R] [DecidableRel (α := R) (· < ·)]

abbrev PyScalings (R : Type) := List (Option (Code2.Scaling R))

/-- one iteration of the loop of `_get_channel_scaling` (result `r`) against `buildOne` -/
def BodyAgrees (ps : Props R) (j : Nat) (sc : PyScalings R)
    (r : Except Py.Exc (Py.Ctl (PyScalings R) (Option (MultiScaling R)))) : Prop :=
  match buildOne ps j with
  | .error e => r = .error (errName e)
  | .ok none => r = .ok (.ret none)
  | .ok (some m) => ∃ s, absScaling j s = some m ∧ r = .ok (.next (sc.set j (some s)))

theorem loop_tied (ps : Props R) (n : Nat)
    (body : Int → PyScalings R → Except Py.Exc (Py.Ctl (PyScalings R) (Option (MultiScaling R))))
    (hbody : ∀ j, j < n → ∀ sc, sc.length = n → BodyAgrees ps j sc (body (j : Int) sc)) :
    ∀ (k a : Nat) (sc : PyScalings R) (gpre : List (MScaling R)), a + k = n → sc.length = n → gpre.length = a →
      (∀ j (hj : j < gpre.length), ∃ s, sc[j]? = some (some s) ∧ absScaling j s = some gpre[j]) →
      match buildAll ps a k with
      | .error e => Py.forC ((List.range' a k).map fun (j : Nat) => (j : Int)) sc body = .error (errName e)
      | .ok none => Py.forC ((List.range' a k).map fun (j : Nat) => (j : Int)) sc body = .ok (.returned none)
      | .ok (some rest) => ∃ sc', Py.forC ((List.range' a k).map fun (j : Nat) => (j : Int)) sc body = .ok (.fell sc') ∧
          AbsList sc' (gpre ++ rest) := by
  intro k
  induction k with
  | zero =>
    intro a sc gpre hak hlen hg hpre
    simp only [buildAll, List.range'_zero, List.map_nil, Py.forC]
    refine ⟨sc, rfl, ?_, ?_⟩
    · simp only [List.append_nil]; omega
    · intro j hj
      simp only [List.append_nil] at hj ⊢
      exact hpre j hj
  | succ k ih =>
    intro a sc gpre hak hlen hg hpre
    have hb := hbody a (by omega) sc hlen
    unfold BodyAgrees at hb
    simp only [buildAll, List.range'_succ, List.map_cons, Py.forC]
    cases h1 : buildOne ps a with
    | error e =>
      simp only [h1] at hb
      simp only [hb, error_bind]
    | ok o =>
      cases o with
      | none =>
        simp only [h1] at hb
        simp only [hb, ok_bind, pure_eq_ok]
      | some m =>
        simp only [h1] at hb
        obtain ⟨s, hs, hr⟩ := hb
        simp only [hr, ok_bind]
        have := ih (a + 1) (sc.set a (some s)) (gpre ++ [m]) (by omega) (by simp [hlen]) (by simp [hg]) (by
          intro j hj
          simp only [List.length_append, List.length_singleton] at hj
          by_cases hja : j = a
          · subst hja
            refine ⟨s, by simp [List.getElem?_set, hlen, hak ▸ (by omega : j < j + (k + 1))], ?_⟩
            rw [hs]; simp [List.getElem_append_right, hg]
          · have hj' : j < gpre.length := by omega
            obtain ⟨s', h1', h2'⟩ := hpre j hj'
            refine ⟨s', ?_, ?_⟩
            · rw [List.getElem?_set_ne (by omega)]; exact h1'
            · rw [h2']; simp [List.getElem_append_left, hj'])
        cases h2 : buildAll ps (a + 1) k with
        | error e => simp only [h2] at this; simp only [this, error_bind]
        | ok o2 =>
          cases o2 with
          | none => simp only [h2] at this; simp only [this, ok_bind, pure_eq_ok]
          | some rest =>
            simp only [h2] at this
            obtain ⟨sc', hf, habs⟩ := this
            simp only [hf, ok_bind, pure_eq_ok]
            refine ⟨sc', rfl, ?_⟩
            simpa [List.append_assoc] using habs

end Loop

section Body
variable [NatCast R] [Neg R] [LT R] [DecidableRel (α := R) (· < ·)]

/-- what the model's getters assume about the properties of scale `i` (types of the values; for the sensor scalings:
    that all the properties the Python constructor reads are there — the model only reads the input source) -/
structure ScaleTyped (ps : Props R) (i : Nat) : Prop where
  adv_src : IsNat ps (pfx i ++ "_AdvancedAPI_Input_Source")
  lin_src : IsNat ps (pfx i ++ "_Linear_Input_Source")
  lin_b : NotStr ps (pfx i ++ "_Linear_Y_Intercept")
  lin_m : NotStr ps (pfx i ++ "_Linear_Slope")
  poly_size : IsNat ps (pfx i ++ "_Polynomial_Coefficients_Size")
  poly_src : IsNat ps (pfx i ++ "_Polynomial_Input_Source")
  poly_cs : ∀ j : Nat, NotStr ps ((pfx i ++ "_Polynomial_Coefficients") ++ "[" ++ toString j ++ "]")
  tab_src : IsNat ps (pfx i ++ "_Table_Input_Source")
  tab_np : IsNat ps (pfx i ++ "_Table_Pre_Scaled_Values_Size")
  tab_ns : IsNat ps (pfx i ++ "_Table_Scaled_Values_Size")
  tab_pre : ∀ j : Nat, NotStr ps ((pfx i ++ "_Table_Pre_Scaled_Values") ++ "[" ++ toString j ++ "]")
  tab_sc : ∀ j : Nat, NotStr ps ((pfx i ++ "_Table_Scaled_Values") ++ "[" ++ toString j ++ "]")
  add_l : IsNat ps (pfx i ++ "_Add_Left_Operand_Input_Source")
  add_r : IsNat ps (pfx i ++ "_Add_Right_Operand_Input_Source")
  sub_l : IsNat ps (pfx i ++ "_Subtract_Left_Operand_Input_Source")
  sub_r : IsNat ps (pfx i ++ "_Subtract_Right_Operand_Input_Source")
  rtd_src : IsNat ps (pfx i ++ "_RTD_Input_Source")
  rtd_all : ps.get (pfx i ++ "_Scale_Type") = some (.str "RTD") → ∀ k ∈ ["_RTD_Current_Excitation",
    "_RTD_R0_Nominal_Resistance", "_RTD_A", "_RTD_B", "_RTD_C", "_RTD_Lead_Wire_Resistance",
    "_RTD_Resistance_Configuration"], Present ps (pfx i ++ k)
  strain_src : IsNat ps (pfx i ++ "_Strain_Input_Source")
  strain_all : ps.get (pfx i ++ "_Scale_Type") = some (.str "Strain") → ∀ k ∈ ["_Strain_Configuration",
    "_Strain_Poisson_Ratio", "_Strain_Gage_Resistance", "_Strain_Lead_Wire_Resistance",
    "_Strain_Initial_Bridge_Voltage", "_Strain_Gage_Factor", "_Strain_Bridge_Shunt_Calibration_Gain_Adjustment",
    "_Strain_Voltage_Excitation"], Present ps (pfx i ++ k)
  thm_src : IsNat ps (pfx i ++ "_Thermistor_Input_Source")
  thm_all : ps.get (pfx i ++ "_Scale_Type") = some (.str "Thermistor") → ∀ k ∈ ["_Thermistor_Excitation_Type",
    "_Thermistor_Excitation_Value", "_Thermistor_Resistance_Configuration", "_Thermistor_R1_Reference_Resistance",
    "_Thermistor_Lead_Wire_Resistance", "_Thermistor_A", "_Thermistor_B", "_Thermistor_C",
    "_Thermistor_Temperature_Offset"], Present ps (pfx i ++ k)
  tc_src : IsNat ps (pfx i ++ "_Thermocouple_Input_Source")
  tc_code : ∀ v, ps.get (pfx i ++ "_Thermocouple_Thermocouple_Type") = some v → ∃ n, n ∈ tcCodes ∧ v = .nat n

theorem setItem_natCast {α : Type} (xs : List α) (j : Nat) (v : α) (h : j < xs.length) :
    Py.setItem xs (j : Int) v = .ok (xs.set j v) := by
  unfold Py.setItem
  have h1 : ¬ ((j : Int) < 0) := by omega
  simp [h1, h]

theorem body_of_agrees {T : Type} (ps : Props R) (j : Nat) (sc : PyScalings R) (wrap : T → Code2.Scaling R)
    (p : Except Py.Exc T) (hj : j < sc.length) (h : AgreesC j wrap (buildOne ps j) p) :
    BodyAgrees ps j sc (do
      let t ← p
      let sc' ← Py.setItem sc (j : Int) (some (wrap t))
      pure (Py.Ctl.next sc')) := by
  unfold BodyAgrees
  unfold AgreesC at h
  cases hb : buildOne ps j with
  | error e => simp only [hb] at h; simp only [h, error_bind]
  | ok o =>
    cases o with
    | none => simp only [hb] at h
    | some m =>
      simp only [hb] at h
      obtain ⟨t, ht, habs⟩ := h
      simp only [ht, ok_bind, setItem_natCast _ _ _ hj, pure_eq_ok]
      exact ⟨_, habs, rfl⟩

theorem type_key (j : Nat) :
    String.ofList (['N', 'I', '_', 'S', 'c', 'a', 'l', 'e', '['] ++ Py.fmtD (j : Int) ++
      [']', '_', 'S', 'c', 'a', 'l', 'e', '_', 'T', 'y', 'p', 'e']) = pfx j ++ "_Scale_Type" := by
  apply String.toList_inj.mp
  simp [pfx, String.toList_append, fmtD_natCast]

theorem tryOpt_getM (ps : Props R) (k : String) :
    Py.tryOpt (do let x ← getM ps k; pure x) "KeyError" = .ok ((ps.get k).map pyPV) := by
  unfold getM Py.tryOpt
  cases ps.get k <;> rfl

theorem val_eq_str [DecidableEq R] (s : String) (l : List Char) :
    Py.Val.eq (Py.Val.str s.toList : Py.Val R) (Py.Val.str l) = decide (s = String.ofList l) := by
  simp only [Py.Val.eq]
  congr 1
  apply propext
  constructor
  · intro h; rw [← h, String.ofList_toList]
  · intro h; rw [h, String.toList_ofList]

end Body

section Channel
variable [NatCast R] [Neg R] [LT R] [DecidableRel (α := R) (· < ·)] [DecidableEq R]

theorem replicate_natCast {α : Type} (n : Nat) (v : α) : Py.replicate (n : Int) v = List.replicate n v := by
  simp [Py.replicate]

theorem build_of (ps : Props R) (j : Nat) (s : String) (hty : ps.get (pfx j ++ "_Scale_Type") = some (.str s))
    {m : Except ScaleErr (Option (MScaling R))} {T : Type} {wrap : T → Code2.Scaling R} {p : Except Py.Exc T}
    (hb : buildOne ps j = m) (h : AgreesC j wrap m p) : AgreesC j wrap (buildOne ps j) p := hb ▸ h

/-- the result of `_get_channel_scaling` (generated) against the model's `channelScaling` -/
def ChannelAgrees (m : Except ScaleErr (Option (List (MScaling R)))) (p : Except Py.Exc (Option (MultiScaling R))) : Prop :=
  match m with
  | .error e => p = .error (errName e)
  | .ok none => p = .ok none
  | .ok (some g) => ∃ ms, p = .ok (some ms) ∧ AbsList ms.scalings g

theorem buildAll_length (ps : Props R) : ∀ (k a : Nat) (g : List (MScaling R)),
    buildAll ps a k = .ok (some g) → g.length = k := by
  intro k
  induction k with
  | zero => intro a g h; simp only [buildAll] at h; cases h; rfl
  | succ k ih =>
    intro a g h
    simp only [buildAll] at h
    cases h1 : buildOne ps a with
    | error e => simp only [h1, error_bind] at h; cases h
    | ok o =>
      cases o with
      | none => simp only [h1, ok_bind, pure_eq_ok] at h; cases h
      | some m =>
        simp only [h1, ok_bind] at h
        cases h2 : buildAll ps (a + 1) k with
        | error e => simp only [h2, error_bind] at h; cases h
        | ok o2 =>
          cases o2 with
          | none => simp only [h2, ok_bind, pure_eq_ok] at h; cases h
          | some rest =>
            simp only [h2, ok_bind, pure_eq_ok] at h
            cases h
            simp [ih (a + 1) rest h2]

theorem channel_finish (ps : Props R) (n' : Nat)
    (body : Int → PyScalings R → Except Py.Exc (Py.Ctl (PyScalings R) (Option (MultiScaling R))))
    (k : Py.LoopOut (PyScalings R) (Option (MultiScaling R)) → Except Py.Exc (Option (MultiScaling R)))
    (M : Except ScaleErr (Option (List (MScaling R))))
    (hk1 : ∀ v, k (.returned v) = .ok v)
    (hk2 : ∀ sc, sc ≠ [] → k (.fell sc) = .ok (some ⟨sc⟩))
    (hM1 : ∀ e, buildAll ps 0 (n' + 1) = .error e → M = .error e)
    (hM2 : buildAll ps 0 (n' + 1) = .ok none → M = .ok none)
    (hM3 : ∀ g, buildAll ps 0 (n' + 1) = .ok (some g) → g ≠ [] → M = .ok (some g))
    (hbody : ∀ j, j < n' + 1 → ∀ sc, sc.length = n' + 1 → BodyAgrees ps j sc (body (j : Int) sc)) :
    ChannelAgrees M
      (Py.forC ((List.range' 0 (n' + 1)).map fun (j : Nat) => (j : Int)) (List.replicate (n' + 1) none) body >>= k) := by
  have hloop := loop_tied ps (n' + 1) body hbody (n' + 1) 0 (List.replicate (n' + 1) none) [] (by omega) (by simp) rfl
    (by intro j hj; simp at hj)
  cases hB : buildAll ps 0 (n' + 1) with
  | error e =>
    simp only [hB] at hloop
    simp only [hloop, error_bind, ChannelAgrees, hM1 e hB]
  | ok o =>
    cases o with
    | none =>
      simp only [hB] at hloop
      simp only [hloop, ok_bind, hk1, ChannelAgrees, hM2 hB]
    | some g =>
      simp only [hB, List.nil_append] at hloop
      obtain ⟨sc', hf, habs⟩ := hloop
      have hlen : g.length = n' + 1 := buildAll_length ps _ _ _ hB
      have hne : sc' ≠ [] := by
        intro h; have := habs.1; rw [h] at this; simp at this; omega
      have hg : g ≠ [] := by intro h; rw [h] at hlen; simp at hlen
      simp only [hf, ok_bind, hk2 sc' hne, ChannelAgrees, hM3 g hB hg]
      exact ⟨_, rfl, habs⟩

theorem get_channel_scaling_agrees (ps : Props R) (hn : IsNat ps "NI_Number_Of_Scales") (hT : ∀ i, ScaleTyped ps i) :
    ChannelAgrees (channelScaling ps) (_get_channel_scaling regexIndex incOf List.reverse (pyProps ps)) := by
  unfold _get_channel_scaling channelScaling
  rw [number_of_scalings_tied ps hn]
  simp only [ok_bind]
  cases hN : numberOfScalings ps with
  | none => simp only [Option.map_none, ChannelAgrees, pure_eq_ok]
  | some n =>
    simp only [Option.map_some]
    cases n with
    | zero => simp [ChannelAgrees]
    | succ n' =>
      have hne : ¬ (((n' + 1 : Nat) : Int) = 0) := by omega
      simp only [hne, if_false, getD_ofList]
      have hk : String.ofList ['N', 'I', '_', 'S', 'c', 'a', 'l', 'i', 'n', 'g', '_', 'S', 't', 'a', 't', 'u', 's']
          = "NI_Scaling_Status" := by decide
      have hsc : String.ofList ['s', 'c', 'a', 'l', 'e', 'd'] = "scaled" := by decide
      have hun : (['u', 'n', 's', 'c', 'a', 'l', 'e', 'd'] : List Char) = "unscaled".toList := by decide
      simp only [hk]
      by_cases hst : ps.get "NI_Scaling_Status" = some (.str "scaled")
      · have hstatus : Py.Val.eq (getMD ps "NI_Scaling_Status" (Py.Val.str ['u', 'n', 's', 'c', 'a', 'l', 'e', 'd'] : Py.Val R))
            (Py.Val.str ['s', 'c', 'a', 'l', 'e', 'd']) = true := by
          unfold getMD
          rw [hst]
          simp [pyPV, Py.Val.eq]
        simp [hstatus, hst, ChannelAgrees]
      · have hmodel : (match ps.get "NI_Scaling_Status" with
            | some (PV.str "scaled") => (Except.ok none : Except ScaleErr (Option (List (MScaling R))))
            | _ => match buildAll ps 0 (n' + 1) with
              | .ok (some []) => .ok none
              | r => r) = (match buildAll ps 0 (n' + 1) with
              | .ok (some []) => .ok none
              | r => r) := by
          split
          · rename_i h; exact absurd h hst
          · rfl
        have hstatus : Py.Val.eq (getMD ps "NI_Scaling_Status" (Py.Val.str ['u', 'n', 's', 'c', 'a', 'l', 'e', 'd'] : Py.Val R))
            (Py.Val.str ['s', 'c', 'a', 'l', 'e', 'd']) = false := by
          unfold getMD
          cases hg : ps.get "NI_Scaling_Status" with
          | none => simp [Py.Val.eq]
          | some v =>
            cases v with
            | num x => simp [pyPV, Py.Val.eq]
            | nat k => simp [pyPV, Py.Val.eq]
            | str s =>
              simp only [Option.map_some, Option.getD_some, pyPV, val_eq_str, hsc, decide_eq_false_iff_not]
              intro h; apply hst; rw [hg, h]
        simp only [hstatus, Bool.false_eq_true, if_false, hmodel, range_natCast, replicate_natCast]
        refine channel_finish ps n' _ _ _ ?_ ?_ ?_ ?_ ?_ ?hbody
        · intro v; rfl
        · intro sc hsc
          cases sc with
          | nil => exact absurd rfl hsc
          | cons x xs => rfl
        · intro e h; simp only [h]
        · intro h; simp only [h]
        · intro g h hg
          cases g with
          | nil => exact absurd rfl hg
          | cons x xs => simp only [h]
        case hbody =>
          intro j hj sc hlen
          have hjs : j < sc.length := by omega
          have hTj := hT j
          simp only [getE_ofList, type_key, tryOpt_getM, ok_bind]
          cases hty : ps.get (pfx j ++ "_Scale_Type") with
          | none =>
            simp only [Option.map_none, setItem_natCast _ _ _ hjs, ok_bind, pure_eq_ok]
            unfold BodyAgrees buildOne
            simp only [hty]
            exact ⟨_, by simp [absScaling, DaqMxScalerScaling.__init__], rfl⟩
          | some v =>
            cases v with
            | num x =>
              simp only [Option.map_some, pyPV, Py.Val.eq]
              unfold BodyAgrees buildOne
              simp [hty]
            | nat k =>
              simp only [Option.map_some, pyPV, Py.Val.eq]
              unfold BodyAgrees buildOne
              simp [hty]
            | str s =>
              have l1 : String.ofList ['P', 'o', 'l', 'y', 'n', 'o', 'm', 'i', 'a', 'l'] = "Polynomial" := by decide
              have l2 : String.ofList ['L', 'i', 'n', 'e', 'a', 'r'] = "Linear" := by decide
              have l3 : String.ofList ['R', 'T', 'D'] = "RTD" := by decide
              have l4 : String.ofList ['S', 't', 'r', 'a', 'i', 'n'] = "Strain" := by decide
              have l5 : String.ofList ['T', 'a', 'b', 'l', 'e'] = "Table" := by decide
              have l6 : String.ofList ['T', 'h', 'e', 'r', 'm', 'i', 's', 't', 'o', 'r'] = "Thermistor" := by decide
              have l7 : String.ofList ['T', 'h', 'e', 'r', 'm', 'o', 'c', 'o', 'u', 'p', 'l', 'e'] = "Thermocouple" := by decide
              have l8 : String.ofList ['A', 'd', 'd'] = "Add" := by decide
              have l9 : String.ofList ['S', 'u', 'b', 't', 'r', 'a', 'c', 't'] = "Subtract" := by decide
              have l10 : String.ofList ['A', 'd', 'v', 'a', 'n', 'c', 'e', 'd', 'A', 'P', 'I'] = "AdvancedAPI" := by decide
              have la : (['A', 'd', 'v', 'a', 'n', 'c', 'e', 'd', 'A', 'P', 'I'] : List Char) = "AdvancedAPI".toList := by decide
              simp only [Option.map_some, pyPV, val_eq_str, l1, l2, l3, l4, l5, l6, l7, l8, l9, l10, decide_eq_true_eq]
              by_cases c1 : s = "Polynomial"
              · subst c1
                simp only [if_true]
                refine body_of_agrees ps j sc _ _ hjs (build_of ps j _ hty ?_ (polynomial_agrees ps j hTj.poly_size hTj.poly_src hTj.poly_cs))
                unfold buildOne; simp only [hty]
              by_cases c2 : s = "Linear"
              · subst c2
                simp only [if_true, String.reduceEq, if_false]
                refine body_of_agrees ps j sc _ _ hjs (build_of ps j _ hty ?_ (linear_agrees ps j hTj.lin_src hTj.lin_b hTj.lin_m))
                unfold buildOne; simp only [hty]
              by_cases c3 : s = "RTD"
              · subst c3
                simp only [if_true, String.reduceEq, if_false]
                have ha := hTj.rtd_all hty
                refine body_of_agrees ps j sc _ _ hjs (build_of ps j _ hty ?_ (rtd_agrees ps j hTj.rtd_src
                  (ha _ (by simp)) (ha _ (by simp)) (ha _ (by simp)) (ha _ (by simp)) (ha _ (by simp)) (ha _ (by simp))
                  (ha _ (by simp))))
                unfold buildOne; simp only [hty]
              by_cases c4 : s = "Strain"
              · subst c4
                simp only [if_true, String.reduceEq, if_false]
                have ha := hTj.strain_all hty
                refine body_of_agrees ps j sc _ _ hjs (build_of ps j _ hty ?_ (strain_agrees ps j hTj.strain_src
                  (ha _ (by simp)) (ha _ (by simp)) (ha _ (by simp)) (ha _ (by simp)) (ha _ (by simp)) (ha _ (by simp))
                  (ha _ (by simp)) (ha _ (by simp))))
                unfold buildOne; simp only [hty]
              by_cases c5 : s = "Table"
              · subst c5
                simp only [if_true, String.reduceEq, if_false]
                exact body_of_agrees ps j sc _ _ hjs (table_agrees ps j hty hTj.tab_src hTj.tab_np hTj.tab_ns
                  hTj.tab_pre hTj.tab_sc)
              by_cases c6 : s = "Thermistor"
              · subst c6
                simp only [if_true, String.reduceEq, if_false]
                have ha := hTj.thm_all hty
                refine body_of_agrees ps j sc _ _ hjs (build_of ps j _ hty ?_ (thermistor_agrees ps j hTj.thm_src
                  (ha _ (by simp)) (ha _ (by simp)) (ha _ (by simp)) (ha _ (by simp)) (ha _ (by simp)) (ha _ (by simp))
                  (ha _ (by simp)) (ha _ (by simp)) (ha _ (by simp))))
                unfold buildOne; simp only [hty]
              by_cases c7 : s = "Thermocouple"
              · subst c7
                simp only [if_true, String.reduceEq, if_false]
                refine body_of_agrees ps j sc _ _ hjs (build_of ps j _ hty ?_ (thermocouple_agrees ps j hTj.tc_src hTj.tc_code))
                unfold buildOne; simp only [hty]
              by_cases c8 : s = "Add"
              · subst c8
                simp only [if_true, String.reduceEq, if_false]
                refine body_of_agrees ps j sc _ _ hjs (build_of ps j _ hty ?_ (add_agrees ps j hTj.add_l hTj.add_r))
                unfold buildOne; simp only [hty]
              by_cases c9 : s = "Subtract"
              · subst c9
                simp only [if_true, String.reduceEq, if_false]
                refine body_of_agrees ps j sc _ _ hjs (build_of ps j _ hty ?_ (subtract_agrees ps j hTj.sub_l hTj.sub_r))
                unfold buildOne; simp only [hty]
              by_cases c10 : s = "AdvancedAPI"
              · subst c10
                simp only [if_true, String.reduceEq, if_false, la]
                refine body_of_agrees ps j sc _ _ hjs (build_of ps j _ hty ?_ (noop_agrees ps j hTj.adv_src))
                unfold buildOne; simp only [hty]
              simp only [c1, c2, c3, c4, c5, c6, c7, c8, c9, c10, if_false, pure_eq_ok]
              unfold BodyAgrees buildOne
              simp only [hty]
              split <;> simp_all

theorem errName_ne_stop (e : ScaleErr) : errName e ≠ "StopIteration" := by
  cases e <;> decide

/-- the typing assumptions of `get_channel_scaling_agrees` for one property set -/
def PropsTyped (ps : Props R) : Prop := IsNat ps "NI_Number_Of_Scales" ∧ ∀ i, ScaleTyped ps i

theorem get_scaling_agrees (chan group file : Props R) (hc : PropsTyped chan) (hg : PropsTyped group)
    (hf : PropsTyped file) :
    ChannelAgrees (getScaling chan group file)
      (get_scaling regexIndex incOf List.reverse (pyProps chan) (pyProps group) (pyProps file)) := by
  have h1 := get_channel_scaling_agrees chan hc.1 hc.2
  have h2 := get_channel_scaling_agrees group hg.1 hg.2
  have h3 := get_channel_scaling_agrees file hf.1 hf.2
  unfold get_scaling getScaling
  unfold ChannelAgrees at h1 h2 h3 ⊢
  simp only [Py.firstE]
  cases m1 : channelScaling chan with
  | error e =>
    simp only [m1] at h1
    simp [h1, Py.tryCatch, errName_ne_stop]
  | ok o1 =>
    cases o1 with
    | some g1 =>
      simp only [m1] at h1
      obtain ⟨ms, hms, habs⟩ := h1
      simp only [hms, ok_bind, pure_eq_ok, Py.tryCatch]
      exact ⟨ms, rfl, habs⟩
    | none =>
      simp only [m1] at h1
      simp only [h1, ok_bind, pure_eq_ok]
      cases m2 : channelScaling group with
      | error e =>
        simp only [m2] at h2
        simp [h2, Py.tryCatch, errName_ne_stop]
      | ok o2 =>
        cases o2 with
        | some g2 =>
          simp only [m2] at h2
          obtain ⟨ms, hms, habs⟩ := h2
          simp only [hms, ok_bind, pure_eq_ok, Py.tryCatch]
          exact ⟨ms, rfl, habs⟩
        | none =>
          simp only [m2] at h2
          simp only [h2, ok_bind, pure_eq_ok]
          cases m3 : channelScaling file with
          | error e =>
            simp only [m3] at h3
            simp [h3, Py.tryCatch, errName_ne_stop]
          | ok o3 =>
            cases o3 with
            | some g3 =>
              simp only [m3] at h3
              obtain ⟨ms, hms, habs⟩ := h3
              simp only [hms, ok_bind, pure_eq_ok, Py.tryCatch]
              exact ⟨ms, rfl, habs⟩
            | none =>
              simp only [m3] at h3
              simp [h3, Py.tryCatch]

end Channel

end Tdms.Proofs.Tied2
