/-
  C03 (mixed files) — consuming `channel.data_chunks()` on a file mixing contiguous and interleaved
  segments: the chunks are the planned per-segment reads, their concatenation is the channel's eager
  data, and every reported offset is the number of values delivered before.  Follows
  `Lemmas/C03ChanAll.lean`.  Core Lean only.
-/
import TdmsProofs.Lemmas.C03MixedIter

namespace Tdms.Proofs.C03

open Tdms Tdms.Generated Tdms.Model Tdms.Proofs.Bytes Tdms.Proofs.C04

theorem chanIterAll_specW (f : OpenFile) (p : Bytes) (m : ObjMeta) (hok : SegsWOk f.file f.segments)
    (hc : ChanOk f.objects f.segments p m) :
    ∀ (n : Nat) (it : ChanIter) (st : FState), ChanInvW f p m.numValues it →
      (chanRestW f p m.numValues it).length ≤ n →
      ∃ st', chanIterAll f n it st = .ok (withCount it.offset (chanRestW f p m.numValues it), st') := by
  intro n
  induction n with
  | zero =>
    intro it st _ h
    have : chanRestW f p m.numValues it = [] := List.eq_nil_of_length_eq_zero (by omega)
    rw [this]
    exact ⟨st, rfl⟩
  | succ n ih =>
    intro it st hinv h
    obtain ⟨r, it', st1, hrun, hspec⟩ := chanIterNext_specW f p m hok hc (fuelFor f) it st hinv (by unfold fuelFor; omega)
    unfold chanIterAll
    rw [F_bind_ok hrun]
    unfold ChanStepSpecW at hspec
    cases hrest : chanRestW f p m.numValues it with
    | nil =>
      rw [hrest] at hspec
      obtain ⟨rfl, _⟩ := hspec
      exact ⟨st1, rfl⟩
    | cons c rest =>
      rw [hrest] at hspec h
      obtain ⟨rfl, hr', ho, hinv'⟩ := hspec
      obtain ⟨st2, h2⟩ := ih it' st1 hinv' (by rw [hr']; simpa using h)
      refine ⟨st2, ?_⟩
      simp only []
      rw [F_bind_ok h2, hr', ho]
      rfl


/-- the planned chunks of one segment (with the optional empty chunk) hold at most the segment's values
    of the channel, and every chunk carries plain data of the length `len` reports — both layouts -/
theorem segRestW_facts {file : Bytes} {s : Segment} (hso : SegWOk file s) (p : Bytes) (hwf : (layoutOf p s).WF)
    (co skip nc : Int) (hin : nc.toNat ≤ s.numChunks) (hcs : (layoutOf p s).cs ≠ 0) :
    lenSum (chanSegRestW file s p (some (co, skip, nc)) none false) ≤ (layoutOf p s).nvals ∧
    AllPlain (chanSegRestW file s p (some (co, skip, nc)) none false) := by
  rcases hso.data with hcg | hi
  · have heq : chanSegRestW file s p (some (co, skip, nc)) none false =
        chanSegRest file s p (some (co, skip, nc)) none false := by
      simp only [chanSegRestW, chanSegRest, preW, lazyW, hcg.kind]
    rw [heq]
    exact ⟨(chanSegRest_len ⟨file, [], []⟩ p s (hso.toOk hcg) hwf co skip nc hin hcs).1,
      allPlain_chanSegRest ⟨file, [], []⟩ p s (hso.toOk hcg) co skip nc hin hcs⟩
  · obtain ⟨o, hod, hop, _⟩ := layout_cs_obj hcs
    have hrows := hi.rows o hod
    rw [hop] at hrows
    simp only [chanSegRestW, preW, lazyW, hi.kind]
    constructor
    · rw [lenSum_append]
      have h1 : lenSum (if (!hasFlag s.toc kTocRawData) = true ∧ (!false) = true then [({} : ChanChunk)] else []) = 0 := by
        split <;> simp [lenSum, ChanChunk.len]
      rw [h1]
      simp only [lenSum, List.map_cons, List.map_nil, List.sum_cons, List.sum_nil, ChanChunk.len, List.length_take,
        List.length_drop, hrows]
      omega
    · intro c hcm
      rcases List.mem_append.mp hcm with hcm | hcm
      · split at hcm
        · simp only [List.mem_singleton] at hcm; subst hcm; rfl
        · cases hcm
      · simp only [List.mem_singleton] at hcm
        subst hcm
        rfl

theorem supW_eq_chanSegRestW (f : OpenFile) (p : Bytes) (i : Nat) (s : Segment) (hs : f.segments[i]? = some s)
    (co skip nc : Int) :
    supW f.file f.segments p i 0 nc = chanSegRestW f.file s p (some (co, skip, nc)) none false := by
  unfold supW supWSeg chanSegRestW preW lazyW lazySegChunks
  rw [hs]
  simp only []
  cases dataReaderKind s with
  | error e => simp
  | ok k => cases k <;> simp

section
variable (f : OpenFile) (p : Bytes) (m : ObjMeta) (hok : SegsWOk f.file f.segments)
  (hc : ChanOk f.objects f.segments p m)
include hok hc

theorem allPlain_chanTailW : ∀ (cnt i : Nat), chanStart f p ≤ i → i + cnt = chanEnd f p m.numValues + 1 →
    AllPlain (chanTailW f p m.numValues cnt i) := by
  intro cnt
  induction cnt with
  | zero => intro i _ _ c hc; cases hc
  | succ cnt ih =>
    intro i h1 h2 c hcm
    unfold chanTailW at hcm
    rcases List.mem_append.mp hcm with hcm | hcm
    · cases hs : f.segments[i]? with
      | none => rw [hs] at hcm; cases hcm
      | some s =>
        rw [hs] at hcm
        simp only [] at hcm
        cases hplan : chanPlan f p m.numValues i s with
        | none => rw [hplan] at hcm; cases hcm
        | some t =>
          obtain ⟨co, skip, nc⟩ := t
          rw [hplan] at hcm
          obtain ⟨_, _, hin, hcs⟩ := chanPlan_facts f p m hc i s hs h1 (by omega) co skip nc hplan
          exact (segRestW_facts (hok s (List.mem_of_getElem? hs)) p (hc.wf _ (List.mem_map_of_mem (List.mem_of_getElem? hs))) co skip nc hin hcs).2 c hcm
    · exact ih (i + 1) (by omega) (by omega) c hcm

theorem lenSum_chanTailW_le : ∀ (cnt i : Nat), chanStart f p ≤ i → i + cnt = chanEnd f p m.numValues + 1 →
    lenSum (chanTailW f p m.numValues cnt i) ≤
      ((((f.segments.map (layoutOf p)).map SegL.nvals).drop i).take cnt).sum := by
  intro cnt
  induction cnt with
  | zero => intro i _ _; simp [chanTailW, lenSum]
  | succ cnt ih =>
    intro i h1 h2
    unfold chanTailW
    rw [lenSum_append]
    have ih' := ih (i + 1) (by omega) (by omega)
    cases hs : f.segments[i]? with
    | none =>
      have hlen : f.segments.length ≤ i := by
        rcases Nat.lt_or_ge i f.segments.length with h | h
        · rw [List.getElem?_eq_getElem h] at hs; cases hs
        · exact h
      rw [chanTailW_past f p m.numValues cnt (i + 1) (by omega)]
      simp [lenSum]
    | some s =>
      have hi : i < f.segments.length := by
        rcases Nat.lt_or_ge i f.segments.length with h | h
        · exact h
        · rw [List.getElem?_eq_none h] at hs; cases hs
      have hsi : f.segments[i] = s := by rw [List.getElem?_eq_getElem hi] at hs; exact Option.some.inj hs
      have hi' : i < ((f.segments.map (layoutOf p)).map SegL.nvals).length := by simpa using hi
      rw [List.drop_eq_getElem_cons hi', List.take_succ_cons, List.sum_cons]
      have hnvi : ((f.segments.map (layoutOf p)).map SegL.nvals)[i] = (layoutOf p s).nvals := by simp [hsi]
      rw [hnvi]
      simp only []
      have hseg : lenSum (chanSegRestW f.file s p (chanPlan f p m.numValues i s) none false) ≤ (layoutOf p s).nvals := by
        cases hplan : chanPlan f p m.numValues i s with
        | none => simp [chanSegRestW, lenSum]
        | some t =>
          obtain ⟨co, skip, nc⟩ := t
          obtain ⟨_, _, hin, hcs⟩ := chanPlan_facts f p m hc i s hs h1 (by omega) co skip nc hplan
          exact (segRestW_facts (hok s (List.mem_of_getElem? hs)) p
            (hc.wf _ (List.mem_map_of_mem (List.mem_of_getElem? hs))) co skip nc hin hcs).1
      omega

omit hok in
/-- the window loop for `(0, None)` trims nothing: it returns the planned chunks as they are -/
theorem windowLoopPure_eq_chanTailW : ∀ (cnt i : Nat) (vr : Int), chanStart f p ≤ i →
    i + cnt = chanEnd f p m.numValues + 1 →
    vr + (lenSum (chanTailW f p m.numValues cnt i) : Int) ≤ (m.numValues : Int) →
    windowLoopPure (supW f.file f.segments p) p (buildIndex f.segments p) 0 (m.numValues : Int) (m.numValues : Int)
      (chanStart f p) (chanEnd f p m.numValues) ((f.segments.drop i).take cnt) i vr
      = chanTailW f p m.numValues cnt i := by
  intro cnt
  induction cnt with
  | zero => intro i vr _ _ _; simp [windowLoopPure, chanTailW]
  | succ cnt ih =>
    intro i vr h1 h2 hb
    rcases Nat.lt_or_ge i f.segments.length with hi | hi
    · have hs : f.segments[i]? = some f.segments[i] := List.getElem?_eq_getElem hi
      rw [List.drop_eq_getElem_cons hi, List.take_succ_cons]
      generalize f.segments[i] = s at hs
      unfold chanTailW at hb ⊢
      rw [hs] at hb ⊢
      simp only [] at hb ⊢
      unfold windowLoopPure
      have hplanEq : segPlan p (buildIndex f.segments p) 0 (m.numValues : Int) (chanStart f p)
          (chanEnd f p m.numValues) i s = chanPlan f p m.numValues i s := rfl
      rw [hplanEq]
      rw [lenSum_append] at hb
      cases hplan : chanPlan f p m.numValues i s with
      | none =>
        rw [hplan] at hb
        simp only [chanSegRestW, List.nil_append]
        exact ih (i + 1) vr (by omega) (by omega) (by simpa [chanSegRestW, lenSum] using hb)
      | some t =>
        obtain ⟨co, skip, nc⟩ := t
        rw [hplan] at hb
        obtain ⟨hco, hskip, _, _⟩ := chanPlan_facts f p m hc i s hs h1 (by omega) co skip nc hplan
        subst hco; subst hskip
        simp only [Int.toNat_zero]
        rw [supW_eq_chanSegRestW f p i s hs 0 0 nc]
        have hn0 : (0 : Int) ≤ (lenSum (chanTailW f p m.numValues cnt (i + 1)) : Int) := Int.natCast_nonneg _
        rw [trimStream_id _ _ vr (by simp only [Int.natCast_add] at hb; omega)]
        simp only []
        rw [ih (i + 1) _ (by omega) (by omega) (by simp only [Int.natCast_add] at hb; omega)]
    · rw [List.drop_eq_nil_of_le hi, chanTailW_past f p m.numValues _ i hi]
      simp [windowLoopPure]

/-- **the chunks of a fresh `channel.data_chunks()` concatenate to the channel's eager data** -/
theorem dataOf_chanTailW_all :
    dataOf (chanTailW f p m.numValues (chanEnd f p m.numValues + 1 - chanStart f p) (chanStart f p))
      = eagerW f.file f.segments p := by
  have hw := windowPureG_supW f p m hok hc 0 none (Int.le_refl 0) (by intro l h; cases h)
  simp only [takeOpt, Int.toNat_zero, List.drop_zero] at hw
  rw [← hw]
  unfold windowPureG
  rw [windowParams_zero_none]
  simp only []
  rcases Nat.lt_or_ge (chanEnd f p m.numValues) (chanStart f p) with hlt | hge
  · have : chanEnd f p m.numValues + 1 - chanStart f p = 0 := by omega
    rw [this]
    simp [chanTailW, windowLoopPure]
  · rw [windowLoopPure_eq_chanTailW f p m hc _ (chanStart f p) 0 (Nat.le_refl _) (by omega)]
    have h1 := lenSum_chanTailW_le f p m hok hc (chanEnd f p m.numValues + 1 - chanStart f p) (chanStart f p)
      (Nat.le_refl _) (by omega)
    have h2 := psum_add ((f.segments.map (layoutOf p)).map SegL.nvals) (chanStart f p)
      (chanEnd f p m.numValues + 1 - chanStart f p)
    have h3 := psum_le_sum ((f.segments.map (layoutOf p)).map SegL.nvals)
      (chanStart f p + (chanEnd f p m.numValues + 1 - chanStart f p))
    have h4 : m.numValues = ((f.segments.map (layoutOf p)).map SegL.nvals).sum := by rw [hc.num]; rfl
    omega

omit hok in
theorem newChanIter_invW : ChanInvW f p m.numValues (newChanIter f p) ∧ (newChanIter f p).offset = 0 ∧
    chanRestW f p m.numValues (newChanIter f p)
      = chanTailW f p m.numValues (chanEnd f p m.numValues + 1 - chanStart f p) (chanStart f p) := by
  have hnum : (((f.objects.get p).map (·.numValues)).getD 0 : Nat) = m.numValues := by rw [hc.get]; rfl
  have hinv : ChanInvW f p m.numValues (newChanIter f p) := by
    refine ⟨⟨rfl, rfl, ?_, ?_, Nat.le_refl _, by intro i init s h; cases h⟩, by intro i init h; cases h⟩
    · show _ + searchLeft _ ((((f.objects.get p).map (·.numValues)).getD 0 : Nat) : Int) = _
      rw [hnum]; rfl
    · show ((((f.objects.get p).map (·.numValues)).getD 0 : Nat) : Int) = _
      rw [hnum]
  exact ⟨hinv, rfl, chanRestW_fresh f p m.numValues (chanStart f p) _ rfl rfl rfl⟩

/-- **`channel.data_chunks()` consumed to the end**: the chunks concatenate to the channel's eager
    data, and each chunk's offset is the number of values delivered before it -/
theorem chanIterAll_eagerW (n : Nat)
    (hn : (chanTailW f p m.numValues (chanEnd f p m.numValues + 1 - chanStart f p) (chanStart f p)).length ≤ n)
    (st : FState) :
    ∃ out st', (chanIterAll f n (newChanIter f p)).run st = .ok (out, st') ∧
      dataOf (out.map (·.1)) = eagerW f.file f.segments p ∧
      ∀ j x, out[j]? = some x → x.2 = (dataOf ((out.take j).map (·.1))).length := by
  obtain ⟨hinv, hoff, hrest⟩ := newChanIter_invW f p m hc
  obtain ⟨st', hrun⟩ := chanIterAll_specW f p m hok hc n (newChanIter f p) st hinv (by rw [hrest]; exact hn)
  rw [hrest, hoff] at hrun
  refine ⟨_, st', hrun, ?_, ?_⟩
  · rw [withCount_fst]
    exact dataOf_chanTailW_all f p m hok hc
  · intro j x hx
    rw [withCount_get _ 0 j x hx, Nat.zero_add, List.map_take, withCount_fst]
    symm
    apply dataOf_length_of_plain
    rcases Nat.lt_or_ge (chanEnd f p m.numValues) (chanStart f p) with hlt | hge
    · have : chanEnd f p m.numValues + 1 - chanStart f p = 0 := by omega
      rw [this]
      intro c hcm
      simp [chanTailW] at hcm
    · intro c hcm
      exact allPlain_chanTailW f p m hok hc _ (chanStart f p) (Nat.le_refl _) (by omega) c (List.mem_of_mem_take hcm)

end

end Tdms.Proofs.C03
