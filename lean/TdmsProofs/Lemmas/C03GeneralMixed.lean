/-
  C03 — the invariants for mixed files, for the reader state of ANY file `readMetadata` accepts.
  Core Lean only.
-/
import TdmsProofs.Lemmas.C03Sized
import TdmsProofs.Lemmas.C03MixedMain

namespace Tdms.Proofs.C03

open Tdms Tdms.Generated Tdms.Model Tdms.Proofs.Bytes Tdms.Proofs.C04 Tdms.Proofs.C06

/-- hypotheses on one segment of a mixed file: distinct paths, no chunks without the raw-data flag,
    and either the contiguous reader with exact chunks, or the interleaved reader, not truncated, with a
    successful read -/
structure SegShapeM (file : Bytes) (s : Segment) : Prop where
  nodup : (s.objects.map (·.path)).Nodup
  noRaw : hasFlag s.toc kTocRawData = false → s.numChunks = 0
  data : (dataReaderKind s = .ok .contiguous ∧ ∀ ci, ci < s.numChunks →
        (exactChunk file s ci (dataObjs s) (s.dataPosition + ci * segCsz s)).isSome = true) ∨
    (dataReaderKind s = .ok .interleaved ∧ s.override = none ∧ ∃ r, interRead file s = .ok r)

theorem readMetadata_invariants_mixed (file : Bytes) (st : ReaderState) (h : readMetadata file = .ok st)
    (hshape : ∀ s ∈ st.segments, SegShapeM file s) :
    SegsMOk file st.segments ∧ ∀ p m, st.objects.get p = some m → ChanOk st.objects st.segments p m := by
  have hin := readMetadata_segments_inFile file st h
  have hkind : ∀ s ∈ st.segments, haveDaqmxObjects s.objects = .ok false := by
    intro s hs
    rcases (hshape s hs).data with ⟨hk, _⟩ | ⟨hk, _⟩
    · exact haveDaqmx_of_kind hk (by decide)
    · exact haveDaqmx_of_kind hk (by decide)
  have hwf : ∀ s ∈ st.segments, ∀ p, (layoutOf p s).WF := fun s hs p =>
    layout_wf_of_calcOut s (hin s hs).calcOut (hkind s hs) (hshape s hs).nodup p
  have hnum := readMetadata_numValues file st h (fun s hs => (hshape s hs).nodup) hwf
  constructor
  · intro s hs
    obtain ⟨c, hc, _, _⟩ := calcOut_cases s (hin s hs).calcOut
    have hcsz : chunkSize s.objects = .ok (segCsz s) := by unfold segCsz; rw [hc]
    refine ⟨(hin s hs).tag, (hshape s hs).nodup, (hshape s hs).noRaw, ?_⟩
    rcases (hshape s hs).data with ⟨hk, hex⟩ | ⟨hk, hov, hr⟩
    · exact Or.inl ⟨hk, hcsz, hex⟩
    · exact Or.inr ⟨hk, hcsz, hov, hr⟩
  · intro p m hm
    refine ⟨hm, ?_, ?_⟩
    · intro l hl
      obtain ⟨s, hs, rfl⟩ := List.mem_map.mp hl
      exact hwf s hs p
    · have := hnum p
      unfold nvGet at this
      rw [hm] at this
      exact this

end Tdms.Proofs.C03
