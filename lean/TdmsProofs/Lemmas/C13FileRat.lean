/-
  C13 / C14 at file level: the exact decoder over ℚ (`decQ`) — two's complement integers and IEEE-754
  binary32 / binary64 (every finite float is a rational; NaN and ±∞ are mapped to 0, they are outside ℚ).
-/
import Mathlib.Algebra.Ring.Rat
import TdmsProofs.Lemmas.C13FileDefs

namespace Tdms.Proofs.C13File

open Tdms Tdms.Model.Scaling

/-- IEEE-754 binary float with `eb` exponent bits and `mb` mantissa bits, from its bit pattern -/
def ieeeToRat (eb mb : Nat) (n : Nat) : ℚ :=
  let sign := n / 2 ^ (eb + mb) % 2
  let ex := n / 2 ^ mb % 2 ^ eb
  let m := n % 2 ^ mb
  let bias := 2 ^ (eb - 1) - 1
  let mag : ℚ :=
    if ex = 2 ^ eb - 1 then 0                                         -- NaN, ±∞
    else if ex = 0 then mkRat m (2 ^ (bias - 1 + mb))                 -- subnormal: m · 2^(1 - bias - mb)
    else if bias + mb ≤ ex then (((2 ^ mb + m) * 2 ^ (ex - (bias + mb)) : Nat) : ℚ)
    else mkRat (2 ^ mb + m : Nat) (2 ^ (bias + mb - ex))
  if sign = 1 then -mag else mag

/-- `struct.unpack('<d')` as a rational -/
def f64ToRat (bs : Bytes) : ℚ := ieeeToRat 11 52 (decLE bs)

/-- `struct.unpack('<f')` as a rational -/
def f32ToRat (bs : Bytes) : ℚ := ieeeToRat 8 23 (decLE bs)

/-- the exact value of a canonical little-endian number of TDMS type `ty` -/
def decQnum (ty : Nat) (bs : Bytes) : ℚ :=
  match ty with
  | 1 => toSigned 1 (decLE bs)
  | 2 => toSigned 2 (decLE bs)
  | 3 => toSigned 4 (decLE bs)
  | 4 => toSigned 8 (decLE bs)
  | 5 | 6 | 7 | 8 => (decLE bs : Nat)
  | 9 | 25 => f32ToRat bs
  | 10 | 26 => f64ToRat bs
  | 33 => (decLE bs : Nat)
  | _ => 0

def decQ : Dec ℚ := ⟨decQnum⟩

/-- no sensor scalings in the examples -/
def envId : Nat → ℚ → ℚ := fun _ x => x

deriving instance DecidableEq for Tdms.Model.Scaling.Scaling

end Tdms.Proofs.C13File
