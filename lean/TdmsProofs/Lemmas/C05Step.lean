import TdmsProofs.Lemmas.C05Ops

/-! # C05: operations on an open file (`step`) -/

namespace Tdms.Proofs.C05

open Tdms Tdms.Model Tdms.Generated

/-- the state after a history -/
def run (f : OpenFile) : OpenState → List Op → OpenState
  | st, [] => st
  | st, op :: ops => run f (step f st op).1 ops

/-- two open-file states that differ at most in the file position and the I/O trace -/
def SameIO (s₁ s₂ : OpenState) : Prop := s₁.caches = s₂.caches ∧ s₁.iters = s₂.iters

theorem SameIO.rfl' (s : OpenState) : SameIO s s := ⟨rfl, rfl⟩
theorem SameIO.withIO (s : OpenState) (io : FState) : SameIO { s with io := io } s := ⟨rfl, rfl⟩

theorem runF_rel {α : Type} {m : F α} (h : PosIndep m) {s₁ s₂ : OpenState} (hs : SameIO s₁ s₂) :
    ExRel (fun x y => x.1 = y.1 ∧ SameIO x.2 y.2) (runF s₁ m) (runF s₂ m) := by
  have := h.run s₁.io s₂.io trivial
  unfold runF
  show ExRel _ (match m s₁.io with | .ok (a, io) => _ | .error e => _) (match m s₂.io with | .ok (a, io) => _ | .error e => _)
  revert this
  cases m s₁.io <;> cases m s₂.io <;> simp [ExRel]
  intro h1
  exact ⟨h1, hs⟩

/-! ## `step` factored into "run the I/O action" and "post-process" -/

def cacheLookup (caches : List (Bytes × ChunkCache)) (p : Bytes) : Option ChunkCache :=
  (caches.find? (·.1 = p)).map (·.2)

def indexPost (p : Bytes) (st : OpenState) : Except Err ((Bytes × Option ChunkCache) × OpenState) → OpenState × Out
  | .ok ((v, cache), st') =>
    ({ st' with caches := match cache with
        | some c => (p, c) :: st'.caches.filter (·.1 ≠ p)
        | none => st'.caches }, .value v)
  | .error e => (st, .error e)

def slicePost (st : OpenState) : Except Err (List Bytes × OpenState) → OpenState × Out
  | .ok (vs, st') => (st', .values vs)
  | .error e => (st, .error e)

def readPost (st : OpenState) : Except Err (Option ReadOut × OpenState) → OpenState × Out
  | .ok (r, st') => (st', .readOut r)
  | .error e => (st, .error e)

def chanNextPost (id : Nat) (st : OpenState) :
    Except Err ((Option (ChanChunk × Nat) × ChanIter) × OpenState) → OpenState × Out
  | .ok ((some (c, off), it'), st') => ({ st' with iters := st'.iters.set id (.chan it') }, .chanChunk c off)
  | .ok ((none, _), st') => ({ st' with iters := st'.iters.set id .finished }, .stop)
  | .error e => ({ st with iters := st.iters.set id .finished }, .error e)

def fileNextPost (id : Nat) (st : OpenState) :
    Except Err ((Option (RawChunk × List (Bytes × Nat)) × FileIter) × OpenState) → OpenState × Out
  | .ok ((some (c, offs), it'), st') => ({ st' with iters := st'.iters.set id (.file it') }, .fileChunk c offs)
  | .ok ((none, _), st') => ({ st' with iters := st'.iters.set id .finished }, .stop)
  | .error e => ({ st with iters := st.iters.set id .finished }, .error e)

theorem step_index (f : OpenFile) (st : OpenState) (p : Bytes) (i : Int) :
    step f st (.index p i) = indexPost p st (runF st (channelReadAtIndex f p (cacheLookup st.caches p) i)) := by
  rfl

theorem step_slice (f : OpenFile) (st : OpenState) (p : Bytes) (a b c : Option Int) :
    step f st (.slice p a b c) = slicePost st (runF st (channelReadSlice f p a b c)) := by
  rfl

theorem step_read (f : OpenFile) (st : OpenState) (p : Bytes) (off : Int) (len : Option Int) :
    step f st (.read p off len) = readPost st (runF st (channelReadData f p off len)) := by
  rfl

theorem step_newChanIter (f : OpenFile) (st : OpenState) (p : Bytes) :
    step f st (.newChanIter p) =
      ({ st with iters := st.iters ++ [.chan (newChanIter f p)] }, .iterId st.iters.length) := rfl

theorem step_newFileIter (f : OpenFile) (st : OpenState) :
    step f st .newFileIter = ({ st with iters := st.iters ++ [.file {}] }, .iterId st.iters.length) := rfl

theorem step_next (f : OpenFile) (st : OpenState) (id : Nat) :
    step f st (.next id) =
      match st.iters[id]? with
      | none => (st, .badIter)
      | some .finished => (st, .stop)
      | some (.chan it) => chanNextPost id st (runF st (chanIterNext f (fuelFor f) it))
      | some (.file it) => fileNextPost id st (runF st (fileIterNext f (fuelFor f) it)) := by
  rfl

/-! ## one step from two states that differ only in `io` -/

theorem indexPost_rel (p : Bytes) {s₁ s₂ : OpenState} (hs : SameIO s₁ s₂)
    {r₁ r₂ : Except Err ((Bytes × Option ChunkCache) × OpenState)}
    (h : ExRel (fun x y => x.1 = y.1 ∧ SameIO x.2 y.2) r₁ r₂) :
    (indexPost p s₁ r₁).2 = (indexPost p s₂ r₂).2 ∧ SameIO (indexPost p s₁ r₁).1 (indexPost p s₂ r₂).1 := by
  match r₁, r₂, h with
  | .ok ((v, cache), st'), .ok ((v', cache'), st''), h =>
    obtain ⟨h1, h2, h3⟩ := h
    dsimp only at h1 h2 h3
    simp only [Prod.mk.injEq] at h1
    obtain ⟨rfl, rfl⟩ := h1
    simp [indexPost, SameIO, h2, h3]
  | .error e, .error e', h =>
    have : e = e' := h
    subst this
    exact ⟨rfl, hs⟩

theorem slicePost_rel {s₁ s₂ : OpenState} (hs : SameIO s₁ s₂)
    {r₁ r₂ : Except Err (List Bytes × OpenState)}
    (h : ExRel (fun x y => x.1 = y.1 ∧ SameIO x.2 y.2) r₁ r₂) :
    (slicePost s₁ r₁).2 = (slicePost s₂ r₂).2 ∧ SameIO (slicePost s₁ r₁).1 (slicePost s₂ r₂).1 := by
  match r₁, r₂, h with
  | .ok (v, st'), .ok (v', st''), h =>
    obtain ⟨h1, h2⟩ := h
    simp only at h1
    subst h1
    exact ⟨rfl, h2⟩
  | .error e, .error e', h =>
    have : e = e' := h
    subst this
    exact ⟨rfl, hs⟩

theorem readPost_rel {s₁ s₂ : OpenState} (hs : SameIO s₁ s₂)
    {r₁ r₂ : Except Err (Option ReadOut × OpenState)}
    (h : ExRel (fun x y => x.1 = y.1 ∧ SameIO x.2 y.2) r₁ r₂) :
    (readPost s₁ r₁).2 = (readPost s₂ r₂).2 ∧ SameIO (readPost s₁ r₁).1 (readPost s₂ r₂).1 := by
  match r₁, r₂, h with
  | .ok (v, st'), .ok (v', st''), h =>
    obtain ⟨h1, h2⟩ := h
    simp only at h1
    subst h1
    exact ⟨rfl, h2⟩
  | .error e, .error e', h =>
    have : e = e' := h
    subst this
    exact ⟨rfl, hs⟩

theorem chanNextPost_rel (id : Nat) {s₁ s₂ : OpenState} (hs : SameIO s₁ s₂)
    {r₁ r₂ : Except Err ((Option (ChanChunk × Nat) × ChanIter) × OpenState)}
    (h : ExRel (fun x y => x.1 = y.1 ∧ SameIO x.2 y.2) r₁ r₂) :
    (chanNextPost id s₁ r₁).2 = (chanNextPost id s₂ r₂).2 ∧
      SameIO (chanNextPost id s₁ r₁).1 (chanNextPost id s₂ r₂).1 := by
  match r₁, r₂, h with
  | .ok ((o, it'), st'), .ok ((o', it''), st''), h =>
    obtain ⟨h1, h2, h3⟩ := h
    dsimp only at h1 h2 h3
    simp only [Prod.mk.injEq] at h1
    obtain ⟨rfl, rfl⟩ := h1
    cases o with
    | none => simp [chanNextPost, SameIO, h2, h3]
    | some x => obtain ⟨c, off⟩ := x; simp [chanNextPost, SameIO, h2, h3]
  | .error e, .error e', h =>
    have : e = e' := h
    subst this
    simp only [chanNextPost, SameIO, hs.1, hs.2, and_self]

theorem fileNextPost_rel (id : Nat) {s₁ s₂ : OpenState} (hs : SameIO s₁ s₂)
    {r₁ r₂ : Except Err ((Option (RawChunk × List (Bytes × Nat)) × FileIter) × OpenState)}
    (h : ExRel (fun x y => x.1 = y.1 ∧ SameIO x.2 y.2) r₁ r₂) :
    (fileNextPost id s₁ r₁).2 = (fileNextPost id s₂ r₂).2 ∧
      SameIO (fileNextPost id s₁ r₁).1 (fileNextPost id s₂ r₂).1 := by
  match r₁, r₂, h with
  | .ok ((o, it'), st'), .ok ((o', it''), st''), h =>
    obtain ⟨h1, h2, h3⟩ := h
    dsimp only at h1 h2 h3
    simp only [Prod.mk.injEq] at h1
    obtain ⟨rfl, rfl⟩ := h1
    cases o with
    | none => simp [fileNextPost, SameIO, h2, h3]
    | some x => obtain ⟨c, off⟩ := x; simp [fileNextPost, SameIO, h2, h3]
  | .error e, .error e', h =>
    have : e = e' := h
    subst this
    simp only [fileNextPost, SameIO, hs.1, hs.2, and_self]

/-- one operation from two states with the same caches and iterators: same output, and again the
    same caches and iterators -/
theorem step_sameIO (f : OpenFile) {s₁ s₂ : OpenState} (hs : SameIO s₁ s₂) (op : Op) :
    (step f s₁ op).2 = (step f s₂ op).2 ∧ SameIO (step f s₁ op).1 (step f s₂ op).1 := by
  cases op with
  | index p i =>
    rw [step_index, step_index, ← hs.1]
    exact indexPost_rel p hs (runF_rel (posIndep_channelReadAtIndex f p _ i) hs)
  | slice p a b c =>
    rw [step_slice, step_slice]
    exact slicePost_rel hs (runF_rel (posIndep_channelReadSlice f p a b c) hs)
  | read p off len =>
    rw [step_read, step_read]
    exact readPost_rel hs (runF_rel (posIndep_channelReadData f p off len) hs)
  | newChanIter p =>
    rw [step_newChanIter, step_newChanIter]
    simp only [SameIO, hs.1, hs.2, and_self]
  | newFileIter =>
    rw [step_newFileIter, step_newFileIter]
    simp only [SameIO, hs.1, hs.2, and_self]
  | next id =>
    rw [step_next, step_next, ← hs.2]
    split
    · exact ⟨rfl, hs⟩
    · exact ⟨rfl, hs⟩
    · exact chanNextPost_rel id hs (runF_rel (posIndep_chanIterNext f _ _) hs)
    · exact fileNextPost_rel id hs (runF_rel (posIndep_fileIterNext f _ _) hs)

theorem runOps_sameIO (f : OpenFile) (ops : List Op) {s₁ s₂ : OpenState} (hs : SameIO s₁ s₂) :
    runOps f s₁ ops = runOps f s₂ ops := by
  induction ops generalizing s₁ s₂ with
  | nil => rfl
  | cons op ops ih =>
    have h := step_sameIO f hs op
    simp only [runOps, h.1, ih h.2]

theorem run_sameIO (f : OpenFile) (ops : List Op) {s₁ s₂ : OpenState} (hs : SameIO s₁ s₂) :
    SameIO (run f s₁ ops) (run f s₂ ops) := by
  induction ops generalizing s₁ s₂ with
  | nil => exact hs
  | cons op ops ih => exact ih (step_sameIO f hs op).2

end Tdms.Proofs.C05
