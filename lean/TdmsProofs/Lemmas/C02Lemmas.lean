/-
  Lemmas for C02: the refinement between the spec's active object lists (`resolveObjs`,
  `activeLists`) and the pure state machine of `TdmsProofs/Model/MetaMachine.lean`.
  Core Lean only.
-/
import TdmsProofs.Model.MetaMachine

namespace Tdms.Proofs.C02

open Tdms Tdms.Model Tdms.Generated

/-! ## `concObj` -/

@[simp] theorem concObj_path (a : ActiveObj) : (concObj a).path = a.path := by
  unfold concObj; split <;> rfl

@[simp] theorem concObj_hasData (a : ActiveObj) : (concObj a).hasData = a.hasData := by
  unfold concObj; split <;> rfl

theorem concObj_dataType (a : ActiveObj) : (concObj a).dataType = a.idx.map (·.ty) := by
  unfold concObj; split <;> simp_all [IdxDesc.ty]

theorem concObj_setHasData (a : ActiveObj) (b : Bool) :
    { concObj a with hasData := b } = concObj ⟨a.path, b, a.idx⟩ := by
  unfold concObj; split <;> simp_all

theorem concObj_mk_none (p : Bytes) (b : Bool) : concObj ⟨p, b, none⟩ = { path := p, hasData := b } := rfl

theorem map_concObj_paths (l : List ActiveObj) :
    (l.map concObj).map (·.path) = l.map (·.path) := by
  simp [Function.comp_def]

/-! ## `placeObj` -/

theorem placeObj_of_not_mem {act : List ActiveObj} {o : ActiveObj}
    (h : ∀ a ∈ act, a.path ≠ o.path) : placeObj act o = act ++ [o] := by
  unfold placeObj
  have : act.any (·.path = o.path) = false := by
    simp only [List.any_eq_false, decide_eq_true_eq]
    exact h
  simp [this]

theorem map_replace_eq_set {α : Type} (key : α → Bytes) :
    ∀ (l : List α) (i : Nat) (x y : α), (l.map key).Nodup → l[i]? = some y → key y = key x →
      l.map (fun a => if key a = key x then x else a) = l.set i x := by
  intro l
  induction l with
  | nil => intro i x y _ h; simp at h
  | cons b bs ih =>
    intro i x y hnd h hk
    rw [List.map_cons, List.nodup_cons] at hnd
    cases i with
    | zero =>
      simp only [List.getElem?_cons_zero, Option.some.injEq] at h
      subst h
      simp only [List.map_cons, hk, if_true, List.set_cons_zero, List.cons.injEq, true_and]
      have : ∀ a ∈ bs, key a ≠ key x := by
        intro a ha h'
        exact hnd.1 (List.mem_map.2 ⟨a, ha, h'.trans hk.symm⟩)
      calc bs.map (fun a => if key a = key x then x else a) = bs.map id := by
            apply List.map_congr_left
            intro a ha; simp [this a ha]
        _ = bs := by simp
    | succ j =>
      simp only [List.getElem?_cons_succ] at h
      have hb : key b ≠ key x := by
        intro h'
        have : y ∈ bs := List.mem_of_getElem? h
        exact hnd.1 (List.mem_map.2 ⟨y, this, hk.trans h'.symm⟩)
      simp only [List.map_cons, hb, if_false, List.set_cons_succ, List.cons.injEq, true_and]
      exact ih j x y hnd.2 h hk

theorem placeObj_of_getElem {act : List ActiveObj} {o b : ActiveObj} {i : Nat}
    (hnd : (act.map (·.path)).Nodup) (hi : act[i]? = some b) (hp : b.path = o.path) :
    placeObj act o = act.set i o := by
  unfold placeObj
  have : act.any (·.path = o.path) = true := by
    simp only [List.any_eq_true, decide_eq_true_eq]
    exact ⟨b, List.mem_of_getElem? hi, hp⟩
  simp only [this, if_true]
  exact map_replace_eq_set (·.path) act i o b hnd hi hp

theorem placeObj_paths (act : List ActiveObj) (o : ActiveObj) :
    (placeObj act o).map (·.path) =
      if act.any (·.path = o.path) then act.map (·.path) else act.map (·.path) ++ [o.path] := by
  unfold placeObj
  split
  · simp only [List.map_map]
    apply List.map_congr_left
    intro a _
    simp only [Function.comp]
    split <;> simp_all
  · simp

theorem mem_placeObj {act : List ActiveObj} {o b : ActiveObj} (h : b ∈ placeObj act o) :
    b = o ∨ (b ∈ act ∧ b.path ≠ o.path) := by
  unfold placeObj at h
  split at h
  · rw [List.mem_map] at h
    obtain ⟨a, ha, rfl⟩ := h
    by_cases hp : a.path = o.path
    · simp [hp]
    · simp [hp, ha]
  · rename_i hany
    rw [List.mem_append] at h
    rcases h with h | h
    · right
      refine ⟨h, ?_⟩
      intro hp
      apply hany
      simp only [List.any_eq_true, decide_eq_true_eq]
      exact ⟨b, h, hp⟩
    · left; simpa using h

theorem path_mem_placeObj (act : List ActiveObj) (o : ActiveObj) :
    o.path ∈ (placeObj act o).map (·.path) := by
  rw [placeObj_paths]
  split
  · rename_i h
    simp only [List.any_eq_true, decide_eq_true_eq] at h
    obtain ⟨a, ha, hp⟩ := h
    exact List.mem_map.2 ⟨a, ha, hp⟩
  · simp

theorem paths_subset_placeObj (act : List ActiveObj) (o : ActiveObj) {q : Bytes}
    (h : q ∈ act.map (·.path)) : q ∈ (placeObj act o).map (·.path) := by
  rw [placeObj_paths]
  split
  · exact h
  · exact List.mem_append_left _ h

/-! ## the spec without its data-type check

`updateObjectMetadata` checks the data type only after the whole object list has been read, so the
object loop is compared with `resolveObjL`; `resolveObjs` adds the check (see `strict_*`). -/

def resolveObjL (last : LastIdx) (o : ObjEnc) : Except Reject (ActiveObj × LastIdx) :=
  match o.idx with
  | .noData => .ok (⟨o.path, false, last.get o.path⟩, last)
  | .matchesPrev =>
    match last.get o.path with
    | some d => .ok (⟨o.path, true, some d⟩, last)
    | none => .error .reuseOfUndefinedIndex
  | .full ty n total => .ok (⟨o.path, true, some (.std ty n total)⟩, last.set o.path (.std ty n total))
  | .daqmx dg ty n sc w => .ok (⟨o.path, true, some (.daq dg ty n sc w)⟩, last.set o.path (.daq dg ty n sc w))

def resolveObjsL (last : LastIdx) (act : List ActiveObj) : List ObjEnc → Except Reject (List ActiveObj × LastIdx)
  | [] => .ok (act, last)
  | o :: os =>
    match resolveObjL last o with
    | .error r => .error r
    | .ok (a, last') => resolveObjsL last' (placeObj act a) os

/-- what `resolveObjL` returns, uniformly -/
theorem resolveObjL_ok {last : LastIdx} {o : ObjEnc} {a : ActiveObj} {last' : LastIdx}
    (h : resolveObjL last o = .ok (a, last')) :
    a.path = o.path ∧ a.idx = last'.get o.path ∧ (∀ q, q ≠ o.path → last'.get q = last.get q) := by
  unfold resolveObjL at h
  split at h
  · cases h; exact ⟨rfl, rfl, fun _ _ => rfl⟩
  · split at h
    · rename_i d hd; cases h; exact ⟨rfl, hd.symm, fun _ _ => rfl⟩
    · cases h
  · cases h
    exact ⟨rfl, by simp, fun q hq => LastIdx.get_set_ne _ _ _ _ hq⟩
  · cases h
    exact ⟨rfl, by simp, fun q hq => LastIdx.get_set_ne _ _ _ _ hq⟩

theorem resolveObjL_err {last : LastIdx} {o : ObjEnc} {r : Reject}
    (h : resolveObjL last o = .error r) :
    r = .reuseOfUndefinedIndex ∧ o.idx = .matchesPrev ∧ last.get o.path = none := by
  unfold resolveObjL at h
  split at h
  · cases h
  · rename_i hidx
    split at h
    · cases h
    · rename_i hn; cases h; exact ⟨rfl, hidx, hn⟩
  · cases h
  · cases h

/-! ## the loop invariant of one segment -/

/-- state of the spec's loop (`act`, `last`) against the lists the segment started from (`act0`,
    `last0`) and the objects still to be processed (`rem`) -/
structure LoopInv (act0 : List ActiveObj) (last0 : LastIdx) (rem : List ObjEnc)
    (act : List ActiveObj) (last : LastIdx) : Prop where
  pref : ∃ extra, act.map (·.path) = act0.map (·.path) ++ extra
  nodup : (act.map (·.path)).Nodup
  idx : ∀ a ∈ act, a.idx = last.get a.path
  lastRem : ∀ o ∈ rem, last.get o.path = last0.get o.path
  actRem : ∀ a ∈ act, (∃ o ∈ rem, o.path = a.path) → a ∈ act0
  lastOut : ∀ q, (∀ a ∈ act, a.path ≠ q) → last.get q = last0.get q

theorem LoopInv.init {act0 : List ActiveObj} {last0 : LastIdx} (rem : List ObjEnc)
    (hnd : (act0.map (·.path)).Nodup) (hidx : ∀ a ∈ act0, a.idx = last0.get a.path) :
    LoopInv act0 last0 rem act0 last0 :=
  ⟨⟨[], by simp⟩, hnd, hidx, fun _ _ => rfl, fun _ h _ => h, fun _ _ => rfl⟩

theorem LoopInv.step {act0 : List ActiveObj} {last0 : LastIdx} {o : ObjEnc} {os : List ObjEnc}
    {act : List ActiveObj} {last last' : LastIdx} {a : ActiveObj}
    (hinv : LoopInv act0 last0 (o :: os) act last)
    (hnd : ∀ o' ∈ os, o'.path ≠ o.path)
    (hap : a.path = o.path) (hai : a.idx = last'.get o.path)
    (hl : ∀ q, q ≠ o.path → last'.get q = last.get q) :
    LoopInv act0 last0 os (placeObj act a) last' := by
  refine ⟨?_, ?_, ?_, ?_, ?_, ?_⟩
  · obtain ⟨extra, he⟩ := hinv.pref
    rw [placeObj_paths]
    split
    · exact ⟨extra, he⟩
    · exact ⟨extra ++ [a.path], by rw [he, List.append_assoc]⟩
  · rw [placeObj_paths]
    split
    · exact hinv.nodup
    · rename_i hany
      rw [List.nodup_append]
      refine ⟨hinv.nodup, by simp, ?_⟩
      intro x hx y hy
      simp only [List.mem_singleton] at hy
      subst hy
      intro hxy
      subst hxy
      apply hany
      rw [List.mem_map] at hx
      obtain ⟨b, hb, hbp⟩ := hx
      simp only [List.any_eq_true, decide_eq_true_eq]
      exact ⟨b, hb, hbp⟩
  · intro b hb
    rcases mem_placeObj hb with rfl | ⟨hb, hbp⟩
    · rw [hap]; exact hai
    · rw [hinv.idx b hb, hl b.path (by rw [← hap]; exact hbp)]
  · intro o' ho'
    rw [hl _ (hnd o' ho')]
    exact hinv.lastRem o' (List.mem_cons_of_mem _ ho')
  · intro b hb ⟨o', ho', hp⟩
    rcases mem_placeObj hb with rfl | ⟨hb, _⟩
    · exact absurd (hp.trans hap) (hnd o' ho')
    · exact hinv.actRem b hb ⟨o', List.mem_cons_of_mem _ ho', hp⟩
  · intro q hq
    have hqa : q ≠ o.path := by
      intro h
      have := path_mem_placeObj act a
      rw [List.mem_map] at this
      obtain ⟨b, hb, hbp⟩ := this
      exact hq b hb (by rw [hbp, hap, h])
    rw [hl q hqa]
    apply hinv.lastOut
    intro b hb hbq
    have := paths_subset_placeObj act a (List.mem_map.2 ⟨b, hb, hbq⟩)
    rw [List.mem_map] at this
    obtain ⟨c, hc, hcq⟩ := this
    exact hq c hc hcq

/-! ## one step of the model against one step of the spec -/

theorem eq_of_nodup_paths {α : Type} (key : α → Bytes) :
    ∀ (l : List α), (l.map key).Nodup → ∀ a ∈ l, ∀ b ∈ l, key a = key b → a = b := by
  intro l
  induction l with
  | nil => intro _ a ha; cases ha
  | cons x xs ih =>
    intro hnd a ha b hb hk
    rw [List.map_cons, List.nodup_cons] at hnd
    rcases List.mem_cons.1 ha with rfl | ha' <;> rcases List.mem_cons.1 hb with rfl | hb'
    · rfl
    · exact absurd (List.mem_map.2 ⟨b, hb', hk.symm⟩) hnd.1
    · exact absurd (List.mem_map.2 ⟨a, ha', hk⟩) hnd.1
    · exact ih hnd.2 a ha' b hb' hk

theorem set_self_of_getElem? {α : Type} : ∀ (l : List α) (i : Nat) (a : α), l[i]? = some a → l.set i a = l := by
  intro l
  induction l with
  | nil => intro i a h; simp at h
  | cons x xs ih =>
    intro i a h
    cases i with
    | zero => simp at h; simp [h]
    | succ j => simp at h; simp [ih j a h]

/-- facts about the reader's state that hold throughout a segment: `prevObjs` agrees with the
    spec's `LastIdx` at the start of the segment, everything in the base list has been seen, and
    `existing` is the base list -/
structure SegPre (act0 : List ActiveObj) (last0 : LastIdx) (prevObjs : PrevObjs)
    (existing : Option (List SegObj)) : Prop where
  prevSome : ∀ p so, prevObjs.get p = some so → ∃ hd, so = concObj ⟨p, hd, last0.get p⟩
  prevNone : ∀ p, prevObjs.get p = none → last0.get p = none
  seen : ∀ a ∈ act0, prevObjs.get a.path ≠ none
  ex : (existing = none ∧ act0 = []) ∨ existing = some (act0.map concObj)

theorem lookup_mem {act0 : List ActiveObj} {existing : Option (List SegObj)}
    (hex : (existing = none ∧ act0 = []) ∨ existing = some (act0.map concObj))
    (hnd : (act0.map (·.path)).Nodup) {i : Nat} {a0 : ActiveObj} (hi : act0[i]? = some a0) :
    lookupExisting existing a0.path = some (i, concObj a0) := by
  rcases hex with ⟨_, h0⟩ | hex
  · subst h0; simp at hi
  · subst hex
    unfold lookupExisting
    have hnd' : ((act0.map concObj).map (·.path)).Nodup := by rw [map_concObj_paths]; exact hnd
    have : existingIndex (act0.map concObj) a0.path = some i := by
      rw [existingIndex_unique hnd']
      simp [hi]
    simp [this, hi]

theorem lookup_not_mem {act0 : List ActiveObj} {existing : Option (List SegObj)}
    (hex : (existing = none ∧ act0 = []) ∨ existing = some (act0.map concObj))
    {p : Bytes} (h : ∀ a ∈ act0, a.path ≠ p) : lookupExisting existing p = none := by
  rcases hex with ⟨h0, _⟩ | hex
  · subst h0; rfl
  · subst hex
    unfold lookupExisting
    have : existingIndex (act0.map concObj) p = none := by
      rw [existingIndex_none]
      intro o ho
      rw [List.mem_map] at ho
      obtain ⟨a, ha, rfl⟩ := ho
      simpa using h a ha
    simp [this]

theorem LoopInv.nodup0 {act0 : List ActiveObj} {last0 : LastIdx} {rem : List ObjEnc}
    {act : List ActiveObj} {last : LastIdx} (h : LoopInv act0 last0 rem act last) :
    (act0.map (·.path)).Nodup := by
  obtain ⟨extra, he⟩ := h.pref
  have := h.nodup
  rw [he, List.nodup_append] at this
  exact this.1

/-- what the MODEL does with one listed object, in the spec's vocabulary: the lenient spec, except
    that "matches previous" is also accepted for a path that has been seen (`seenP`) but has no index
    — the one divergence.  The object then has `hasData = true` and no description. -/
def resolveObjM (seenP : Bool) (last : LastIdx) (o : ObjEnc) : Except Reject (ActiveObj × LastIdx) :=
  match o.idx with
  | .matchesPrev =>
    if (last.get o.path).isSome || seenP then .ok (⟨o.path, true, last.get o.path⟩, last)
    else .error .reuseOfUndefinedIndex
  | _ => resolveObjL last o

theorem resolveObjM_eq_L {seenP : Bool} {last : LastIdx} {o : ObjEnc}
    (h : o.idx = .matchesPrev → last.get o.path = none → seenP = false) :
    resolveObjM seenP last o = resolveObjL last o := by
  unfold resolveObjM resolveObjL
  cases hidx : o.idx with
  | matchesPrev =>
    simp only []
    cases hg : last.get o.path with
    | none => simp [h hidx hg]
    | some d => simp
  | noData => rfl
  | full ty n total => rfl
  | daqmx dg ty n sc w => rfl

/-- **The step lemma (no hypothesis on the input).** One application of `applyHeader` is one
    `resolveObjM` + `placeObj`. -/
theorem step_refinesM {act0 : List ActiveObj} {last0 : LastIdx} {prevObjs : PrevObjs}
    {existing : Option (List SegObj)} (hpre : SegPre act0 last0 prevObjs existing)
    {o : ObjEnc} {os : List ObjEnc} {act : List ActiveObj} {last : LastIdx}
    (hinv : LoopInv act0 last0 (o :: os) act last) :
    match resolveObjM (prevObjs.get o.path).isSome last o with
    | .ok (a, _) =>
      applyHeader existing prevObjs (act.map concObj) o.path (hdrRaw o.path o.idx) =
        .ok ((placeObj act a).map concObj)
    | .error _ =>
      applyHeader existing prevObjs (act.map concObj) o.path (hdrRaw o.path o.idx) = .error .reuseUnseen := by
  have hl : last.get o.path = last0.get o.path := hinv.lastRem o (List.mem_cons_self ..)
  have hnd0 := hinv.nodup0
  by_cases hmem : ∃ a0 ∈ act0, a0.path = o.path
  · obtain ⟨a0, ha0, hp0⟩ := hmem
    obtain ⟨i, hi⟩ := List.mem_iff_getElem?.1 ha0
    have hlook : lookupExisting existing o.path = some (i, concObj a0) := hp0 ▸ lookup_mem hpre.ex hnd0 hi
    have hacti : act[i]? = some a0 := by
      obtain ⟨extra, he⟩ := hinv.pref
      have hil : i < act0.length := (List.getElem?_eq_some_iff.1 hi).1
      have h1 : (act.map (·.path))[i]? = some a0.path := by
        rw [he, List.getElem?_append_left (by simpa using hil)]
        simp [hi]
      rw [List.getElem?_map] at h1
      cases hai : act[i]? with
      | none => simp [hai] at h1
      | some a1 =>
        simp only [hai, Option.map_some, Option.some.injEq] at h1
        have hm1 : a1 ∈ act := List.mem_of_getElem? hai
        have h10 : a1 ∈ act0 := hinv.actRem a1 hm1 ⟨o, List.mem_cons_self .., (h1.trans hp0).symm⟩
        rw [eq_of_nodup_paths (·.path) act0 hnd0 a1 h10 a0 ha0 h1]
    have hidx0 : a0.idx = last.get o.path := by
      rw [← hp0]; exact hinv.idx a0 (List.mem_of_getElem? hacti)
    have hplace : ∀ a : ActiveObj, a.path = o.path → placeObj act a = act.set i a :=
      fun a hap => placeObj_of_getElem hinv.nodup hacti (hp0.trans hap.symm)
    have hseen := hpre.seen a0 ha0
    have heta : a0 = ⟨o.path, a0.hasData, last.get o.path⟩ := by
      cases a0
      simp only [ActiveObj.mk.injEq]
      exact ⟨hp0, trivial, hidx0⟩
    have hsb : (prevObjs.get o.path).isSome = true := by
      rw [hp0] at hseen
      cases hq : prevObjs.get o.path with
      | none => exact absurd hq hseen
      | some _ => rfl
    unfold resolveObjM resolveObjL applyHeader
    rw [hlook]
    cases hidx : o.idx with
    | noData =>
      simp only [hdrRaw, concObj_hasData]
      rw [hplace _ rfl, List.map_set, concObj_setHasData, hp0, hidx0]
      by_cases hd : a0.hasData = true
      · simp [hd]
      · have hd' : a0.hasData = false := by simpa using hd
        simp only [hd', Bool.false_eq_true, if_false]
        have : act.set i ⟨o.path, false, last.get o.path⟩ = act := by
          apply set_self_of_getElem?
          rw [hacti, heta, hd']
        rw [← List.map_set, this]
    | matchesPrev =>
      simp only [hdrRaw, concObj_hasData, hsb, Bool.or_true, if_true]
      rw [hplace _ rfl, List.map_set, concObj_setHasData, hp0, hidx0]
      by_cases hd : a0.hasData = true
      · have : act.set i ⟨o.path, true, last.get o.path⟩ = act := by
          apply set_self_of_getElem?
          rw [hacti, heta, hd]
        simp only [hd, Bool.not_true, Bool.false_eq_true, if_false]
        rw [← List.map_set, this]
      · have hd' : a0.hasData = false := by simpa using hd
        simp [hd']
    | full ty n total =>
      simp only [hdrRaw]
      rw [hplace _ rfl, List.map_set]
    | daqmx dg ty n sc w =>
      simp only [hdrRaw]
      rw [hplace _ rfl, List.map_set]
  · have hno0 : ∀ a ∈ act0, a.path ≠ o.path := fun a ha hp => hmem ⟨a, ha, hp⟩
    have hlook : lookupExisting existing o.path = none := lookup_not_mem hpre.ex hno0
    have hno : ∀ a ∈ act, a.path ≠ o.path := by
      intro a ha hp
      exact hno0 a (hinv.actRem a ha ⟨o, List.mem_cons_self .., hp.symm⟩) hp
    have hplace : ∀ a : ActiveObj, a.path = o.path → placeObj act a = act ++ [a] :=
      fun a hap => placeObj_of_not_mem (by rw [hap]; exact hno)
    unfold resolveObjM resolveObjL applyHeader
    rw [hlook]
    simp only []
    cases hq : prevObjs.get o.path with
    | some so =>
      obtain ⟨hd, rfl⟩ := hpre.prevSome _ _ hq
      rw [← hl]
      simp only []
      cases hidx : o.idx with
      | noData =>
        simp only [hdrRaw]
        rw [hplace _ rfl, List.map_append, concObj_setHasData]; rfl
      | matchesPrev =>
        simp only [hdrRaw, Option.isSome_some, Bool.or_true, if_true]
        rw [hplace _ rfl, List.map_append, concObj_setHasData]; rfl
      | full ty n total =>
        simp only [hdrRaw]
        rw [hplace _ rfl, List.map_append]; rfl
      | daqmx dg ty n sc w =>
        simp only [hdrRaw]
        rw [hplace _ rfl, List.map_append]; rfl
    | none =>
      have hg : last.get o.path = none := hl ▸ hpre.prevNone _ hq
      simp only []
      cases hidx : o.idx with
      | noData =>
        simp only [hdrRaw, hg]
        rw [hplace _ rfl, List.map_append]; rfl
      | matchesPrev =>
        simp only [hdrRaw, hg, Option.isSome_none, Bool.or_false, Bool.false_eq_true, if_false]
      | full ty n total =>
        simp only [hdrRaw]
        rw [hplace _ rfl, List.map_append]; rfl
      | daqmx dg ty n sc w =>
        simp only [hdrRaw]
        rw [hplace _ rfl, List.map_append]; rfl

/-- **The step lemma.** When the divergence is excluded, one application of `applyHeader` is one
    `resolveObjL` + `placeObj`. -/
theorem step_refines {act0 : List ActiveObj} {last0 : LastIdx} {prevObjs : PrevObjs}
    {existing : Option (List SegObj)} (hpre : SegPre act0 last0 prevObjs existing)
    {o : ObjEnc} {os : List ObjEnc} {act : List ActiveObj} {last : LastIdx}
    (hinv : LoopInv act0 last0 (o :: os) act last)
    (hdiv : o.idx = .matchesPrev → last0.get o.path = none → prevObjs.get o.path = none) :
    match resolveObjL last o with
    | .ok (a, _) =>
      applyHeader existing prevObjs (act.map concObj) o.path (hdrRaw o.path o.idx) =
        .ok ((placeObj act a).map concObj)
    | .error _ =>
      applyHeader existing prevObjs (act.map concObj) o.path (hdrRaw o.path o.idx) = .error .reuseUnseen := by
  have hl : last.get o.path = last0.get o.path := hinv.lastRem o (List.mem_cons_self ..)
  have := step_refinesM hpre hinv
  rwa [resolveObjM_eq_L] at this
  intro h1 h2
  rw [hdiv h1 (hl ▸ h2)]
  rfl

/-- **The one divergence, one step.**  A path that has been seen before (`prevObjs` knows it) but has
    never had an index (`LastIdx` does not know it), listed as "matches previous": the spec rejects,
    the model accepts and produces an object with `hasData = true`, `numberValues = 0`,
    `dataType = none`. -/
theorem divergence_step {act0 : List ActiveObj} {last0 : LastIdx} {prevObjs : PrevObjs}
    {existing : Option (List SegObj)} (hpre : SegPre act0 last0 prevObjs existing)
    {o : ObjEnc} {os : List ObjEnc} {act : List ActiveObj} {last : LastIdx}
    (hinv : LoopInv act0 last0 (o :: os) act last)
    (hidx : o.idx = .matchesPrev) (hlast : last0.get o.path = none)
    (hseen : prevObjs.get o.path ≠ none) :
    resolveObj last o = .error .reuseOfUndefinedIndex ∧
    applyHeader existing prevObjs (act.map concObj) o.path .matchesPrev =
      .ok ((placeObj act ⟨o.path, true, none⟩).map concObj) ∧
    concObj ⟨o.path, true, none⟩ =
      { path := o.path, hasData := true, numberValues := 0, dataSize := 0, dataType := none, daq := none } := by
  have hl : last.get o.path = none := (hinv.lastRem o (List.mem_cons_self ..)).trans hlast
  have hsb : (prevObjs.get o.path).isSome = true := by
    cases hq : prevObjs.get o.path with
    | none => exact absurd hq hseen
    | some _ => rfl
  refine ⟨?_, ?_, rfl⟩
  · unfold resolveObj
    rw [hidx]
    simp only [hl]
  · have := step_refinesM hpre hinv
    unfold resolveObjM at this
    rw [hidx] at this
    simp only [hsb, Bool.or_true, if_true, hl, hdrRaw] at this
    exact this

/-! ## one segment -/

theorem noDupPaths_cons {o : ObjEnc} {os : List ObjEnc} :
    noDupPaths (o :: os) = true ↔ (∀ o' ∈ os, o'.path ≠ o.path) ∧ noDupPaths os = true := by
  simp [noDupPaths]

theorem noDupPaths_iff (objs : List ObjEnc) : noDupPaths objs = true ↔ (objs.map (·.path)).Nodup := by
  induction objs with
  | nil => simp [noDupPaths]
  | cons o os ih =>
    rw [noDupPaths_cons, ih, List.map_cons, List.nodup_cons]
    constructor
    · rintro ⟨h1, h2⟩
      refine ⟨?_, h2⟩
      intro hm
      rw [List.mem_map] at hm
      obtain ⟨o', ho', hp⟩ := hm
      exact h1 o' ho' hp
    · rintro ⟨h1, h2⟩
      exact ⟨fun o' ho' hp => h1 (List.mem_map.2 ⟨o', ho', hp⟩), h2⟩

/-- **Refinement, one segment, against the spec without its type check.** -/
theorem run_refines {act0 : List ActiveObj} {last0 : LastIdx} {prevObjs : PrevObjs}
    {existing : Option (List SegObj)} (hpre : SegPre act0 last0 prevObjs existing) :
    ∀ (objs : List ObjEnc) (act : List ActiveObj) (last : LastIdx),
      LoopInv act0 last0 objs act last → noDupPaths objs = true →
      (∀ o ∈ objs, o.idx = .matchesPrev → last0.get o.path = none → prevObjs.get o.path = none) →
      match resolveObjsL last act objs with
      | .ok (act', last') =>
        runHeaders existing prevObjs (act.map concObj) (hdrsRaw objs) = .ok (act'.map concObj) ∧
          LoopInv act0 last0 [] act' last'
      | .error _ =>
        runHeaders existing prevObjs (act.map concObj) (hdrsRaw objs) = .error .reuseUnseen := by
  intro objs
  induction objs with
  | nil =>
    intro act last hinv _ _
    exact ⟨rfl, hinv⟩
  | cons o os ih =>
    intro act last hinv hnd hdiv
    rw [noDupPaths_cons] at hnd
    have hstep := step_refines hpre hinv (hdiv o (List.mem_cons_self ..))
    unfold resolveObjsL
    simp only [hdrsRaw, List.map_cons, runHeaders]
    cases hr : resolveObjL last o with
    | error r =>
      rw [hr] at hstep
      simp only [] at hstep ⊢
      rw [hstep]
    | ok al =>
      obtain ⟨a, last'⟩ := al
      rw [hr] at hstep
      simp only [] at hstep ⊢
      rw [hstep]
      simp only []
      obtain ⟨hap, hai, hlq⟩ := resolveObjL_ok hr
      exact ih (placeObj act a) last' (hinv.step hnd.1 hap hai hlq) hnd.2
        (fun o' ho' => hdiv o' (List.mem_cons_of_mem _ ho'))

/-! ## the spec's type check, separated -/

theorem resolveObj_ok_L {last : LastIdx} {o : ObjEnc} {r : ActiveObj × LastIdx}
    (h : resolveObj last o = .ok r) : resolveObjL last o = .ok r := by
  unfold resolveObj at h
  unfold resolveObjL
  cases hidx : o.idx with
  | noData => simpa only [hidx] using h
  | matchesPrev =>
    simp only [hidx] at h ⊢
    cases hg : last.get o.path with
    | none => simp only [hg] at h; cases h
    | some d => simpa only [hg] using h
  | full ty n total =>
    simp only [hidx] at h ⊢
    split at h
    · split at h
      · cases h
      · exact h
    · exact h
  | daqmx dg ty n sc w =>
    simp only [hidx] at h ⊢
    split at h
    · split at h
      · cases h
      · exact h
    · exact h

/-- `resolveObj` errs in exactly two ways -/
theorem resolveObj_err {last : LastIdx} {o : ObjEnc} {r : Reject} (h : resolveObj last o = .error r) :
    (r = .reuseOfUndefinedIndex ∧ resolveObjL last o = .error .reuseOfUndefinedIndex) ∨
    (r = .typeChanged ∧ ∃ d d', descOfIdx o.idx = some d' ∧ last.get o.path = some d ∧ d.ty ≠ d'.ty ∧
        resolveObjL last o = .ok (⟨o.path, true, some d'⟩, last.set o.path d')) := by
  unfold resolveObj at h
  unfold resolveObjL
  cases hidx : o.idx with
  | noData => simp only [hidx] at h; cases h
  | matchesPrev =>
    simp only [hidx] at h ⊢
    cases hg : last.get o.path with
    | some d => simp only [hg] at h; cases h
    | none =>
      simp only [hg] at h
      cases h
      left
      exact ⟨rfl, rfl⟩
  | full ty n total =>
    simp only [hidx] at h ⊢
    split at h
    · rename_i d hd
      split at h
      · rename_i hne
        cases h
        right
        exact ⟨rfl, d, .std ty n total, by simp [descOfIdx], hd, by simpa [IdxDesc.ty] using hne, rfl⟩
      · cases h
    · cases h
  | daqmx dg ty n sc w =>
    simp only [hidx] at h ⊢
    split at h
    · rename_i d hd
      split at h
      · rename_i hne
        cases h
        right
        exact ⟨rfl, d, .daq dg ty n sc w, by simp [descOfIdx], hd, by simpa [IdxDesc.ty] using hne, rfl⟩
      · cases h
    · cases h

/-- a successful strict resolution is a successful lenient one -/
theorem resolveObjs_ok_L : ∀ (objs : List ObjEnc) (last : LastIdx) (act : List ActiveObj)
    (r : List ActiveObj × LastIdx), resolveObjs last act objs = .ok r → resolveObjsL last act objs = .ok r := by
  intro objs
  induction objs with
  | nil => intro last act r h; exact h
  | cons o os ih =>
    intro last act r h
    unfold resolveObjs at h
    unfold resolveObjsL
    cases hr : resolveObj last o with
    | error e => rw [hr] at h; cases h
    | ok al =>
      rw [hr] at h
      rw [resolveObj_ok_L hr]
      exact ih _ _ _ h

/-- types never change along a successful strict resolution -/
theorem resolveObj_ty_mono {last : LastIdx} {o : ObjEnc} {a : ActiveObj} {last' : LastIdx}
    (h : resolveObj last o = .ok (a, last')) :
    ∀ p d, last.get p = some d → ∃ d', last'.get p = some d' ∧ d'.ty = d.ty := by
  intro p d hp
  unfold resolveObj at h
  split at h
  · cases h; exact ⟨d, hp, rfl⟩
  · split at h
    · cases h; exact ⟨d, hp, rfl⟩
    · cases h
  · rename_i ty n total _
    split at h
    · rename_i d0 hd0
      split at h
      · cases h
      · rename_i hty
        cases h
        rw [LastIdx.get_set]
        by_cases hpo : p = o.path
        · subst hpo
          rw [hp] at hd0
          cases hd0
          simp only [if_true]
          exact ⟨_, rfl, (Decidable.not_not.1 hty).symm⟩
        · simp only [hpo, if_false]; exact ⟨d, hp, rfl⟩
    · rename_i hn
      cases h
      rw [LastIdx.get_set]
      by_cases hpo : p = o.path
      · subst hpo; rw [hp] at hn; cases hn
      · simp only [hpo, if_false]; exact ⟨d, hp, rfl⟩
  · rename_i dg ty n sc w _
    split at h
    · rename_i d0 hd0
      split at h
      · cases h
      · rename_i hty
        cases h
        rw [LastIdx.get_set]
        by_cases hpo : p = o.path
        · subst hpo
          rw [hp] at hd0
          cases hd0
          simp only [if_true]
          exact ⟨_, rfl, (Decidable.not_not.1 hty).symm⟩
        · simp only [hpo, if_false]; exact ⟨d, hp, rfl⟩
    · rename_i hn
      cases h
      rw [LastIdx.get_set]
      by_cases hpo : p = o.path
      · subst hpo; rw [hp] at hn; cases hn
      · simp only [hpo, if_false]; exact ⟨d, hp, rfl⟩

theorem resolveObjs_ty_mono : ∀ (objs : List ObjEnc) (last : LastIdx) (act act' : List ActiveObj)
    (last' : LastIdx), resolveObjs last act objs = .ok (act', last') →
    ∀ p d, last.get p = some d → ∃ d', last'.get p = some d' ∧ d'.ty = d.ty := by
  intro objs
  induction objs with
  | nil => intro last act act' last' h p d hp; cases h; exact ⟨d, hp, rfl⟩
  | cons o os ih =>
    intro last act act' last' h p d hp
    unfold resolveObjs at h
    cases hr : resolveObj last o with
    | error e => rw [hr] at h; cases h
    | ok al =>
      obtain ⟨a, l1⟩ := al
      rw [hr] at h
      obtain ⟨d1, hd1, ht1⟩ := resolveObj_ty_mono hr p d hp
      obtain ⟨d2, hd2, ht2⟩ := ih _ _ _ _ h p d1 hd1
      exact ⟨d2, hd2, ht2.trans ht1⟩

theorem resolveObjsL_unlisted : ∀ (os : List ObjEnc) (last : LastIdx) (act act' : List ActiveObj)
    (last' : LastIdx) (q : Bytes), resolveObjsL last act os = .ok (act', last') →
    (∀ o ∈ os, o.path ≠ q) → last'.get q = last.get q := by
  intro os
  induction os with
  | nil => intro last act act' last' q h _; cases h; rfl
  | cons o os ih =>
    intro last act act' last' q h hq
    unfold resolveObjsL at h
    cases hr : resolveObjL last o with
    | error e => rw [hr] at h; cases h
    | ok al =>
      obtain ⟨a, l1⟩ := al
      rw [hr] at h
      rw [ih _ _ _ _ q h (fun o' ho' => hq o' (List.mem_cons_of_mem _ ho'))]
      exact (resolveObjL_ok hr).2.2 q (fun h' => hq o (List.mem_cons_self ..) h'.symm)

theorem resolveObjsL_paths_mono : ∀ (os : List ObjEnc) (last : LastIdx) (act act' : List ActiveObj)
    (last' : LastIdx) (q : Bytes), resolveObjsL last act os = .ok (act', last') →
    q ∈ act.map (·.path) → q ∈ act'.map (·.path) := by
  intro os
  induction os with
  | nil => intro last act act' last' q h hq; cases h; exact hq
  | cons o os ih =>
    intro last act act' last' q h hq
    unfold resolveObjsL at h
    cases hr : resolveObjL last o with
    | error e => rw [hr] at h; cases h
    | ok al =>
      obtain ⟨a, l1⟩ := al
      rw [hr] at h
      exact ih _ _ _ _ q h (paths_subset_placeObj act a hq)

theorem resolveObjsL_err : ∀ (os : List ObjEnc) (last : LastIdx) (act : List ActiveObj) (r : Reject),
    resolveObjsL last act os = .error r → r = .reuseOfUndefinedIndex := by
  intro os
  induction os with
  | nil => intro last act r h; cases h
  | cons o os ih =>
    intro last act r h
    unfold resolveObjsL at h
    cases hr : resolveObjL last o with
    | error e => rw [hr] at h; cases h; exact (resolveObjL_err hr).1
    | ok al =>
      rw [hr] at h
      exact ih _ _ _ h

/-- what the object loop sees when the spec rejects -/
theorem resolveObjs_err : ∀ (os : List ObjEnc) (last : LastIdx) (act : List ActiveObj) (r : Reject),
    resolveObjs last act os = .error r → noDupPaths os = true →
    (r = .reuseOfUndefinedIndex ∧ resolveObjsL last act os = .error .reuseOfUndefinedIndex) ∨
    (r = .typeChanged ∧
      (resolveObjsL last act os = .error .reuseOfUndefinedIndex ∨
        ∃ act' last' p d d', resolveObjsL last act os = .ok (act', last') ∧ last.get p = some d ∧
          last'.get p = some d' ∧ d.ty ≠ d'.ty ∧ p ∈ act'.map (·.path))) := by
  intro os
  induction os with
  | nil => intro last act r h; cases h
  | cons o os ih =>
    intro last act r h hnd
    rw [noDupPaths_cons] at hnd
    unfold resolveObjs at h
    unfold resolveObjsL
    cases hr : resolveObj last o with
    | ok al =>
      obtain ⟨a, l1⟩ := al
      rw [hr] at h
      have hL := resolveObj_ok_L hr
      rw [hL]
      simp only [] at h ⊢
      rcases ih _ _ _ h hnd.2 with h1 | ⟨h1, h2⟩
      · exact Or.inl h1
      · right
        refine ⟨h1, ?_⟩
        rcases h2 with h2 | ⟨act', last', p, d, d', hres, hd, hd', hne, hmem⟩
        · exact Or.inl h2
        · right
          refine ⟨act', last', p, d, d', hres, ?_, hd', hne, hmem⟩
          by_cases hp : p = o.path
          · exfalso
            have := resolveObjsL_unlisted os _ _ _ _ p hres (fun o' ho' => hp ▸ hnd.1 o' ho')
            rw [hd, hd'] at this
            cases this
            exact hne rfl
          · rw [← (resolveObjL_ok hL).2.2 p hp]; exact hd
    | error e =>
      rw [hr] at h
      cases h
      rcases resolveObj_err hr with ⟨h1, h2⟩ | ⟨h1, d, d', _, hd, hne, hL⟩
      · left
        rw [h2]
        exact ⟨h1, rfl⟩
      · right
        refine ⟨h1, ?_⟩
        rw [hL]
        simp only []
        cases hrest : resolveObjsL (last.set o.path d') (placeObj act ⟨o.path, true, some d'⟩) os with
        | error r' => left; rw [resolveObjsL_err _ _ _ _ hrest]
        | ok al =>
          obtain ⟨act', last'⟩ := al
          right
          refine ⟨act', last', o.path, d, d', rfl, hd, ?_, hne, ?_⟩
          · rw [resolveObjsL_unlisted os _ _ _ _ o.path hrest hnd.1]; simp
          · exact resolveObjsL_paths_mono os _ _ _ _ o.path hrest (path_mem_placeObj act ⟨o.path, true, some d'⟩)

/-! ## `updateObjectMetadata` -/

/-- the data type `object_metadata` records for a path -/
def dtOf (ms : ObjMetas) (p : Bytes) : Option Nat := (ms.get p).bind (·.dataType)

/-- the condition under which `_update_object_metadata` raises "data type changed" -/
def typeClash (ms : ObjMetas) (o : SegObj) : Prop :=
  (dtOf ms o.path).isSome = true ∧ dtOf ms o.path ≠ o.dataType

theorem find_map_replace_ne (ms : ObjMetas) (p q : Bytes) (f : ObjMeta → ObjMeta)
    (hf : ∀ m, (f m).path = m.path) (hq : q ≠ p) :
    (ms.map (fun m => if m.path = p then f m else m)).find? (·.path = q) = ms.find? (·.path = q) := by
  induction ms with
  | nil => rfl
  | cons m ms ih =>
    simp only [List.map_cons, List.find?_cons]
    grind

theorem find_map_replace_self (ms : ObjMetas) (p : Bytes) (f : ObjMeta → ObjMeta)
    (hf : ∀ m, (f m).path = m.path) :
    (ms.map (fun m => if m.path = p then f m else m)).find? (·.path = p) =
      (ms.find? (·.path = p)).map f := by
  induction ms with
  | nil => rfl
  | cons m ms ih =>
    simp only [List.map_cons, List.find?_cons]
    grind

theorem ObjMetas.get_modify_ne (ms : ObjMetas) (p q : Bytes) (f : ObjMeta → ObjMeta)
    (hf : ∀ m, (f m).path = m.path) (hq : q ≠ p) : (ms.modify p f).get q = ms.get q := by
  unfold ObjMetas.modify ObjMetas.get
  split
  · exact find_map_replace_ne ms p q f hf hq
  · rw [List.find?_append]
    have : ¬ (f { path := p }).path = q := by rw [hf]; exact fun h => hq h.symm
    simp [this]

theorem ObjMetas.get_modify_self (ms : ObjMetas) (p : Bytes) (f : ObjMeta → ObjMeta)
    (hf : ∀ m, (f m).path = m.path) :
    (ms.modify p f).get p = some (f ((ms.get p).getD { path := p })) := by
  unfold ObjMetas.modify ObjMetas.get
  split
  · rename_i hany
    rw [find_map_replace_self ms p f hf]
    simp only [List.any_eq_true, decide_eq_true_eq] at hany
    obtain ⟨x, hx, hxp⟩ := hany
    cases hfind : ms.find? (·.path = p) with
    | none =>
      rw [List.find?_eq_none] at hfind
      exact absurd (by simpa using hxp) (hfind x hx)
    | some y => rfl
  · rename_i hany
    rw [List.find?_append]
    have h0 : ms.find? (fun x => decide (x.path = p)) = none := by
      rw [List.find?_eq_none]
      intro x hx
      simp only [decide_eq_true_eq]
      intro hxp
      apply hany
      simp only [List.any_eq_true, decide_eq_true_eq]
      exact ⟨x, hx, hxp⟩
    have h1 : (f { path := p }).path = p := by rw [hf]
    rw [h0, Option.none_or, List.find?_cons]
    simp only [h1, decide_true]
    rfl

theorem foldl_set_get : ∀ (objs : List SegObj) (prev : PrevObjs), (objs.map (·.path)).Nodup →
    ∀ p, (objs.foldl (fun m o => m.set o.path o) prev).get p =
      match objs.find? (·.path = p) with
      | some o => some o
      | none => prev.get p := by
  intro objs
  induction objs with
  | nil => intro prev _ p; rfl
  | cons o os ih =>
    intro prev hnd p
    rw [List.map_cons, List.nodup_cons] at hnd
    rw [List.foldl_cons, ih _ hnd.2, List.find?_cons]
    by_cases hp : o.path = p
    · subst hp
      have : os.find? (·.path = o.path) = none := by
        rw [List.find?_eq_none]
        intro x hx
        simp only [decide_eq_true_eq]
        intro hxp
        exact hnd.1 (List.mem_map.2 ⟨x, hx, hxp⟩)
      simp [this]
    · have hp' : p ≠ o.path := fun h => hp h.symm
      simp only [hp, decide_false]
      rw [PrevObjs.get_set_ne _ _ _ _ hp']

/-- the condition under which `_update_object_metadata` raises "scaler types changed" -/
def scalerClash (ms : ObjMetas) (o : SegObj) : Bool :=
  o.scalerTypes.isSome && ((ms.get o.path).getD { path := o.path }).scalerTypes.isSome &&
    decide (((ms.get o.path).getD { path := o.path }).scalerTypes ≠ o.scalerTypes)

/-- the update of `object_metadata` for one segment object -/
def stepMetas (s : Segment) (ms : ObjMetas) (o : SegObj) : ObjMetas :=
  ms.modify o.path fun m =>
    { m with numValues := m.numValues + numberOfSegmentValues o s,
             dataType := o.dataType,
             scalerTypes := if o.scalerTypes.isSome then o.scalerTypes else m.scalerTypes }

theorem dtOf_old (ms : ObjMetas) (p : Bytes) :
    ((ms.get p).getD { path := p }).dataType = dtOf ms p := by
  unfold dtOf
  cases ms.get p <;> rfl

theorem uom_cons (s : Segment) (o : SegObj) (os : List SegObj) (prev : PrevObjs) (ms : ObjMetas) :
    updateObjectMetadata s (o :: os) prev ms =
      if (dtOf ms o.path).isSome && decide (dtOf ms o.path ≠ o.dataType) then .error .typeChanged
      else if scalerClash ms o then .error .scalerTypesChanged
      else updateObjectMetadata s os (prev.set o.path o) (stepMetas s ms o) := by
  rw [updateObjectMetadata]
  simp only [dtOf_old]
  rfl

theorem dtOf_stepMetas_ne (s : Segment) (ms : ObjMetas) (o : SegObj) (q : Bytes) (hq : q ≠ o.path) :
    dtOf (stepMetas s ms o) q = dtOf ms q := by
  unfold dtOf stepMetas
  refine congrArg (fun x => Option.bind x _) (ObjMetas.get_modify_ne ms o.path q _ ?_ hq)
  intro m; rfl

theorem dtOf_stepMetas_self (s : Segment) (ms : ObjMetas) (o : SegObj) :
    dtOf (stepMetas s ms o) o.path = o.dataType := by
  unfold dtOf stepMetas
  have := ObjMetas.get_modify_self ms o.path (fun m =>
    { m with numValues := m.numValues + numberOfSegmentValues o s,
             dataType := o.dataType,
             scalerTypes := if o.scalerTypes.isSome then o.scalerTypes else m.scalerTypes }) (fun _ => rfl)
  rw [this]
  rfl

/-- `updateObjectMetadata`, as far as object lists are concerned: it fails with `typeChanged` only on
    a type clash, succeeds only without one, records the objects in `prevObjs` and their types in
    `object_metadata` -/
theorem uom_spec (s : Segment) : ∀ (objs : List SegObj) (prev : PrevObjs) (ms : ObjMetas),
    (objs.map (·.path)).Nodup →
    match updateObjectMetadata s objs prev ms with
    | .ok (prev', ms') =>
      (∀ o ∈ objs, ¬ typeClash ms o) ∧
      prev' = objs.foldl (fun m o => m.set o.path o) prev ∧
      (∀ p, dtOf ms' p = match objs.find? (·.path = p) with
                          | some o => o.dataType
                          | none => dtOf ms p)
    | .error e => (e = .typeChanged ∧ ∃ o ∈ objs, typeClash ms o) ∨ e = .scalerTypesChanged := by
  intro objs
  induction objs with
  | nil =>
    intro prev ms _
    simp only [updateObjectMetadata]
    refine ⟨?_, rfl, fun _ => rfl⟩
    intro o h; cases h
  | cons o os ih =>
    intro prev ms hnd
    rw [List.map_cons, List.nodup_cons] at hnd
    rw [uom_cons]
    by_cases hc : ((dtOf ms o.path).isSome && decide (dtOf ms o.path ≠ o.dataType)) = true
    · simp only [hc, if_true]
      left
      refine ⟨by trivial, o, List.mem_cons_self .., ?_⟩
      simpa [typeClash] using hc
    · simp only [hc, Bool.false_eq_true, if_false]
      have hnc : ¬ typeClash ms o := by
        intro h
        apply hc
        simpa [typeClash] using h
      by_cases hs : scalerClash ms o = true
      · simp only [hs, if_true]
        right; trivial
      · simp only [hs, Bool.false_eq_true, if_false]
        have := ih (prev.set o.path o) (stepMetas s ms o) hnd.2
        revert this
        cases updateObjectMetadata s os (prev.set o.path o) (stepMetas s ms o) with
        | error e =>
          intro this
          simp only [] at this ⊢
          rcases this with ⟨h1, o', ho', hcl⟩ | h
          · left
            refine ⟨h1, o', List.mem_cons_of_mem _ ho', ?_⟩
            have hne : o'.path ≠ o.path := fun h => hnd.1 (List.mem_map.2 ⟨o', ho', h⟩)
            unfold typeClash at hcl ⊢
            rwa [dtOf_stepMetas_ne _ _ _ _ hne] at hcl
          · right; exact h
        | ok r =>
          obtain ⟨prev', ms'⟩ := r
          intro this
          simp only [] at this ⊢
          obtain ⟨h1, h2, h3⟩ := this
          refine ⟨?_, h2, ?_⟩
          · intro o' ho'
            rcases List.mem_cons.1 ho' with rfl | ho'
            · exact hnc
            · have hne : o'.path ≠ o.path := fun h => hnd.1 (List.mem_map.2 ⟨o', ho', h⟩)
              have := h1 o' ho'
              unfold typeClash at this ⊢
              rwa [dtOf_stepMetas_ne _ _ _ _ hne] at this
          · intro p
            rw [h3 p, List.find?_cons]
            by_cases hp : o.path = p
            · have : os.find? (·.path = p) = none := by
                rw [List.find?_eq_none]
                intro x hx
                simp only [decide_eq_true_eq]
                intro hxp
                exact hnd.1 (List.mem_map.2 ⟨x, hx, hxp.trans hp.symm⟩)
              simp only [this, hp, decide_true]
              rw [← hp, dtOf_stepMetas_self]
            · simp only [hp, decide_false]
              have hp' : p ≠ o.path := fun h => hp h.symm
              rw [dtOf_stepMetas_ne _ _ _ _ hp']

end Tdms.Proofs.C02
