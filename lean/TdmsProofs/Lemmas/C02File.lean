/-
  C02 — whole-file refinement: `activeLists` (spec) against `fileMachine` (pure form of the model's
  `readMetadataLoop`).  Core Lean only.
-/
import TdmsProofs.Lemmas.C02Lemmas

namespace Tdms.Proofs.C02

open Tdms Tdms.Model Tdms.Generated

/-! ## `updateObjectProperties` does not touch data types -/

theorem dtOf_updateObjectProperties : ∀ (props : List (Bytes × List PropVal)) (ms : ObjMetas) (p : Bytes),
    dtOf (updateObjectProperties ms props) p = dtOf ms p := by
  intro props
  induction props with
  | nil => intro ms p; rfl
  | cons x rest ih =>
    intro ms p
    obtain ⟨q, ps⟩ := x
    rw [updateObjectProperties, ih]
    by_cases hq : p = q
    · subst hq
      unfold dtOf
      have := ObjMetas.get_modify_self ms p (fun m => { m with props := ps.foldl setPropVal m.props })
        (fun _ => rfl)
      rw [this]
      exact dtOf_old ms p
    · unfold dtOf
      refine congrArg (fun x => Option.bind x _) (ObjMetas.get_modify_ne ms q p _ ?_ hq)
      intro m; rfl

/-! ## the representation invariant between segments (item 2) -/

/-- `seen` = every path that has been in an active list so far; `prev`, `last` = the spec's state
    after the segments read so far; `st` = the model's. -/
structure FileInv (seen : List Bytes) (prev : Option (List ActiveObj)) (last : LastIdx) (st : MState) :
    Prop where
  /-- the previous segment's object list is the concretisation of the previous active list -/
  seg : st.prevSeg = prev.map (·.map concObj)
  /-- no duplicate paths in the active list -/
  nodup : ∀ a, prev = some a → (a.map (·.path)).Nodup
  /-- every active object carries the most recent index of its path -/
  idx : ∀ a, prev = some a → ∀ x ∈ a, x.idx = last.get x.path
  /-- `prevObjs p` is an object for path `p` carrying `LastIdx p` … -/
  prevSome : ∀ p so, st.prevObjs.get p = some so → ∃ hd, so = concObj ⟨p, hd, last.get p⟩
  /-- … and a path unknown to `prevObjs` has no index -/
  prevNone : ∀ p, st.prevObjs.get p = none → last.get p = none
  /-- `prevObjs` knows exactly the paths seen so far -/
  seenIff : ∀ p, p ∈ seen ↔ st.prevObjs.get p ≠ none
  prevSeen : ∀ a, prev = some a → ∀ x ∈ a, x.path ∈ seen
  /-- the data type recorded in `object_metadata` is the type of `LastIdx p` -/
  types : ∀ p, dtOf st.metas p = (last.get p).map (·.ty)

theorem FileInv.init : FileInv [] none [] {} := by
  refine ⟨rfl, ?_, ?_, ?_, ?_, ?_, ?_, ?_⟩
  · intro a h; cases h
  · intro a h; cases h
  · intro p so h; simp [PrevObjs.get] at h
  · intro p _; rfl
  · intro p; simp [PrevObjs.get]
  · intro a h; cases h
  · intro p; rfl

theorem FileInv.keyed {seen : List Bytes} {prev : Option (List ActiveObj)} {last : LastIdx} {st : MState}
    (h : FileInv seen prev last st) : Keyed st.prevObjs := by
  intro p so hso
  obtain ⟨hd, rfl⟩ := h.prevSome p so hso
  simp

/-! ## one segment -/

/-- `activeOfSeg` without the data-type check -/
def activeOfSegL (prev : Option (List ActiveObj)) (last : LastIdx) (s : SegEnc) :
    Except Reject (List ActiveObj × LastIdx) :=
  if !s.hasMeta then
    match prev with
    | none => .error .firstSegmentWithoutMetadata
    | some a => .ok (a, last)
  else
    let base := if s.newList then [] else prev.getD []
    resolveObjsL last base s.objs

/-- what the next segment may rely on -/
structure PostSeg (last : LastIdx) (a : List ActiveObj) (last' : LastIdx) : Prop where
  nodup : (a.map (·.path)).Nodup
  idx : ∀ x ∈ a, x.idx = last'.get x.path
  out : ∀ q, (∀ x ∈ a, x.path ≠ q) → last'.get q = last.get q

/-- the hypothesis that excludes the one divergence, for one segment: an object listed as "matches
    previous" either has an index or has never been seen -/
def NoBareReuseSeg (seen : List Bytes) (last : LastIdx) (s : SegEnc) : Prop :=
  s.hasMeta = true → ∀ o ∈ s.objs, o.idx = .matchesPrev → last.get o.path = none → o.path ∉ seen

theorem segObjects_refines {seen : List Bytes} {prev : Option (List ActiveObj)} {last : LastIdx}
    {st : MState} (hinv : FileInv seen prev last st) (s : SegEnc)
    (hnd : noDupPaths s.objs = true) (hdiv : NoBareReuseSeg seen last s) :
    match activeOfSegL prev last s with
    | .ok (a, last') =>
      segObjects st.prevSeg st.prevObjs (descOfSegRaw s) = .ok (a.map concObj) ∧ PostSeg last a last'
    | .error r =>
      (r = .firstSegmentWithoutMetadata ∧ prev = none ∧ s.hasMeta = false ∧
        segObjects st.prevSeg st.prevObjs (descOfSegRaw s) = .error .noPrevSegment) ∨
      (r = .reuseOfUndefinedIndex ∧ s.hasMeta = true ∧
        segObjects st.prevSeg st.prevObjs (descOfSegRaw s) = .error .reuseUnseen) := by
  unfold activeOfSegL segObjects descOfSegRaw
  rw [hinv.seg]
  by_cases hm : s.hasMeta = true
  · simp only [hm, Bool.not_true, Bool.false_eq_true, if_false]
    have hdiv' : ∀ o ∈ s.objs, o.idx = .matchesPrev → last.get o.path = none →
        st.prevObjs.get o.path = none := by
      intro o ho h1 h2
      have := hdiv hm o ho h1 h2
      rw [hinv.seenIff] at this
      exact Classical.not_not.1 this
    -- the base list
    have key : ∀ (act0 : List ActiveObj) (existing : Option (List SegObj)),
        (act0.map (·.path)).Nodup → (∀ x ∈ act0, x.idx = last.get x.path) →
        (∀ x ∈ act0, x.path ∈ seen) →
        ((existing = none ∧ act0 = []) ∨ existing = some (act0.map concObj)) →
        match resolveObjsL last act0 s.objs with
        | .ok (a, last') =>
          runHeaders existing st.prevObjs (act0.map concObj) (hdrsRaw s.objs) = .ok (a.map concObj) ∧
            PostSeg last a last'
        | .error r =>
          r = .reuseOfUndefinedIndex ∧
          runHeaders existing st.prevObjs (act0.map concObj) (hdrsRaw s.objs) = .error .reuseUnseen := by
      intro act0 existing h1 h2 h3 h4
      have hpre : SegPre act0 last st.prevObjs existing :=
        ⟨hinv.prevSome, hinv.prevNone, fun x hx => (hinv.seenIff _).1 (h3 x hx), h4⟩
      have := run_refines hpre s.objs act0 last (LoopInv.init s.objs h1 h2) hnd hdiv'
      revert this
      cases hres : resolveObjsL last act0 s.objs with
      | error r =>
        intro this
        exact ⟨resolveObjsL_err _ _ _ _ hres, this⟩
      | ok al =>
        obtain ⟨a, last'⟩ := al
        intro this
        exact ⟨this.1, ⟨this.2.nodup, this.2.idx, this.2.lastOut⟩⟩
    have conv : ∀ {x : Except Reject (List ActiveObj × LastIdx)} {y : Except Err (List SegObj)},
        (match x with
          | .ok (a, last') => y = .ok (a.map concObj) ∧ PostSeg last a last'
          | .error r => r = .reuseOfUndefinedIndex ∧ y = .error .reuseUnseen) →
        (match x with
          | .ok (a, last') => y = .ok (a.map concObj) ∧ PostSeg last a last'
          | .error r =>
            (r = .firstSegmentWithoutMetadata ∧ prev = none ∧ true = false ∧ y = .error .noPrevSegment) ∨
            (r = .reuseOfUndefinedIndex ∧ True ∧ y = .error .reuseUnseen)) := by
      intro x y h
      cases x with
      | error r => exact Or.inr ⟨h.1, trivial, h.2⟩
      | ok al => exact h
    cases hprev : prev with
    | none =>
      simp only [Option.map_none, Option.getD_none, ite_self]
      have := key [] none (by simp) (by simp) (by simp) (Or.inl ⟨rfl, rfl⟩)
      simpa using conv this
    | some a0 =>
      simp only [Option.map_some, Option.getD_some]
      by_cases hn : s.newList = true
      · simp only [hn, if_true]
        have := key [] none (by simp) (by simp) (by simp) (Or.inl ⟨rfl, rfl⟩)
        simpa using conv this
      · have hn' : s.newList = false := by simpa using hn
        simp only [hn', Bool.false_eq_true, if_false]
        have := key a0 (some (a0.map concObj)) (hinv.nodup a0 hprev) (hinv.idx a0 hprev)
          (hinv.prevSeen a0 hprev) (Or.inr rfl)
        simpa using conv this
  · have hm' : s.hasMeta = false := by simpa using hm
    simp only [hm', Bool.not_false, if_true]
    cases hprev : prev with
    | none =>
      simp only [Option.map_none]
      exact Or.inl ⟨by trivial, by trivial, by trivial, by trivial⟩
    | some a0 =>
      simp only [Option.map_some]
      exact ⟨by trivial, hinv.nodup a0 hprev, hinv.idx a0 hprev, fun _ _ => rfl⟩

/-! ## `updateObjectMetadata` after a segment -/

theorem find_concObj (a : List ActiveObj) (p : Bytes) :
    (a.map concObj).find? (·.path = p) = (a.find? (·.path = p)).map concObj := by
  rw [List.find?_map]
  congr 2
  funext x
  simp

theorem activeObj_eta (x : ActiveObj) : x = ⟨x.path, x.hasData, x.idx⟩ := by cases x; rfl

/-- no type clash when the types of `LastIdx` did not change during the segment -/
theorem no_clash_of_mono {last last' : LastIdx} {ms : ObjMetas} {a : List ActiveObj}
    (htypes : ∀ p, dtOf ms p = (last.get p).map (·.ty))
    (hidx : ∀ x ∈ a, x.idx = last'.get x.path)
    (hmono : ∀ p d, last.get p = some d → ∃ d', last'.get p = some d' ∧ d'.ty = d.ty) :
    ∀ o ∈ a.map concObj, ¬ typeClash ms o := by
  intro o ho
  rw [List.mem_map] at ho
  obtain ⟨x, hx, rfl⟩ := ho
  rintro ⟨h1, h2⟩
  rw [concObj_path, htypes] at h1 h2
  cases hg : last.get x.path with
  | none => rw [hg] at h1; simp at h1
  | some d =>
    obtain ⟨d', hd', hty⟩ := hmono _ _ hg
    apply h2
    rw [hg, concObj_dataType, hidx x hx, hd']
    simp [hty]

/-- a type clash when some path's type did change -/
theorem clash_of_change {last last' : LastIdx} {ms : ObjMetas} {a : List ActiveObj}
    (htypes : ∀ p, dtOf ms p = (last.get p).map (·.ty))
    (hidx : ∀ x ∈ a, x.idx = last'.get x.path)
    {p : Bytes} {d d' : IdxDesc} (hd : last.get p = some d) (hd' : last'.get p = some d')
    (hne : d.ty ≠ d'.ty) (hmem : p ∈ a.map (·.path)) :
    ∃ o ∈ a.map concObj, typeClash ms o := by
  rw [List.mem_map] at hmem
  obtain ⟨x, hx, rfl⟩ := hmem
  refine ⟨concObj x, List.mem_map.2 ⟨x, hx, rfl⟩, ?_⟩
  unfold typeClash
  rw [concObj_path, htypes, hd, concObj_dataType, hidx x hx, hd']
  simp [hne]

/-- **After a segment.**  `updateObjectMetadata` on the concretised active list either succeeds and
    re-establishes the invariant, or fails with `scalerTypesChanged` (a check the spec does not have). -/
theorem fileStep_post {seen : List Bytes} {prev : Option (List ActiveObj)} {last : LastIdx} {st : MState}
    (hinv : FileInv seen prev last st) {a : List ActiveObj} {last' : LastIdx}
    (hpost : PostSeg last a last')
    (hmono : ∀ p d, last.get p = some d → ∃ d', last'.get p = some d' ∧ d'.ty = d.ty)
    (chunk : Segment) (props : List (Bytes × List PropVal)) :
    match updateObjectMetadata chunk (a.map concObj) st.prevObjs st.metas with
    | .ok (prev', ms') =>
      FileInv (seen ++ a.map (·.path)) (some a) last'
        ⟨some (a.map concObj), prev', updateObjectProperties ms' props⟩
    | .error e => e = .scalerTypesChanged := by
  have hnd : ((a.map concObj).map (·.path)).Nodup := by rw [map_concObj_paths]; exact hpost.nodup
  have hspec := uom_spec chunk (a.map concObj) st.prevObjs st.metas hnd
  have hnc := no_clash_of_mono hinv.types hpost.idx hmono
  revert hspec
  cases updateObjectMetadata chunk (a.map concObj) st.prevObjs st.metas with
  | error e =>
    intro hspec
    rcases hspec with ⟨_, o, ho, hcl⟩ | h
    · exact absurd hcl (hnc o ho)
    · exact h
  | ok r =>
    obtain ⟨prev', ms'⟩ := r
    intro hspec
    obtain ⟨_, hprev, hdt⟩ := hspec
    simp only []
    have hget : ∀ p, prev'.get p = match a.find? (·.path = p) with
        | some x => some (concObj x)
        | none => st.prevObjs.get p := by
      intro p
      rw [hprev, foldl_set_get _ _ hnd, find_concObj]
      cases a.find? (·.path = p) <;> rfl
    have hfind_some : ∀ p x, a.find? (·.path = p) = some x → x ∈ a ∧ x.path = p := by
      intro p x h
      exact ⟨List.mem_of_find?_eq_some h, by simpa using List.find?_some h⟩
    have hfind_none : ∀ p, a.find? (·.path = p) = none → ∀ x ∈ a, x.path ≠ p := by
      intro p h x hx
      have := List.find?_eq_none.1 h x hx
      simpa using this
    refine ⟨rfl, ?_, ?_, ?_, ?_, ?_, ?_, ?_⟩
    · intro a' h; cases h; exact hpost.nodup
    · intro a' h; cases h; exact hpost.idx
    · intro p so hso
      simp only [] at hso
      rw [hget] at hso
      cases hf : a.find? (·.path = p) with
      | some x =>
        rw [hf] at hso
        simp only [Option.some.injEq] at hso
        obtain ⟨hx, hxp⟩ := hfind_some p x hf
        refine ⟨x.hasData, ?_⟩
        rw [← hso, ← hxp, ← hpost.idx x hx]
      | none =>
        rw [hf] at hso
        simp only [] at hso
        rw [hpost.out p (hfind_none p hf)]
        exact hinv.prevSome p so hso
    · intro p hp
      simp only [] at hp
      rw [hget] at hp
      cases hf : a.find? (·.path = p) with
      | some x => rw [hf] at hp; cases hp
      | none =>
        rw [hf] at hp
        rw [hpost.out p (hfind_none p hf)]
        exact hinv.prevNone p hp
    · intro p
      simp only []
      rw [hget, List.mem_append]
      cases hf : a.find? (·.path = p) with
      | some x =>
        obtain ⟨hx, hxp⟩ := hfind_some p x hf
        simp only [ne_eq, reduceCtorEq, not_false_eq_true, iff_true]
        exact Or.inr (List.mem_map.2 ⟨x, hx, hxp⟩)
      | none =>
        simp only []
        rw [← hinv.seenIff]
        constructor
        · rintro (h | h)
          · exact h
          · rw [List.mem_map] at h
            obtain ⟨x, hx, hxp⟩ := h
            exact absurd hxp (hfind_none p hf x hx)
        · exact Or.inl
    · intro a' h; cases h
      intro x hx
      exact List.mem_append_right _ (List.mem_map.2 ⟨x, hx, rfl⟩)
    · intro p
      simp only []
      rw [dtOf_updateObjectProperties, hdt, find_concObj]
      cases hf : a.find? (·.path = p) with
      | some x =>
        obtain ⟨hx, hxp⟩ := hfind_some p x hf
        simp only [Option.map_some]
        rw [concObj_dataType, hpost.idx x hx, hxp]
      | none =>
        simp only [Option.map_none]
        rw [hinv.types, hpost.out p (hfind_none p hf)]

/-! ## strict against lenient, one segment -/

theorem activeOfSeg_ok_L {prev : Option (List ActiveObj)} {last : LastIdx} {s : SegEnc}
    {r : List ActiveObj × LastIdx} (h : activeOfSeg prev last s = .ok r) :
    activeOfSegL prev last s = .ok r := by
  unfold activeOfSeg at h
  unfold activeOfSegL
  split
  · rename_i hm
    simp only [hm, if_true] at h
    cases prev with
    | none => cases h
    | some a0 => exact h
  · rename_i hm
    simp only [hm] at h
    exact resolveObjs_ok_L _ _ _ _ h

theorem activeOfSeg_ty_mono {prev : Option (List ActiveObj)} {last : LastIdx} {s : SegEnc}
    {a : List ActiveObj} {last' : LastIdx} (h : activeOfSeg prev last s = .ok (a, last')) :
    ∀ p d, last.get p = some d → ∃ d', last'.get p = some d' ∧ d'.ty = d.ty := by
  unfold activeOfSeg at h
  split at h
  · cases prev with
    | none => cases h
    | some a0 => cases h; intro p d hd; exact ⟨d, hd, rfl⟩
  · exact resolveObjs_ty_mono _ _ _ _ _ h

theorem activeOfSeg_err {prev : Option (List ActiveObj)} {last : LastIdx} {s : SegEnc} {r : Reject}
    (h : activeOfSeg prev last s = .error r) (hnd : noDupPaths s.objs = true) :
    (r = .firstSegmentWithoutMetadata ∧ activeOfSegL prev last s = .error .firstSegmentWithoutMetadata) ∨
    (r = .reuseOfUndefinedIndex ∧ activeOfSegL prev last s = .error .reuseOfUndefinedIndex) ∨
    (r = .typeChanged ∧
      (activeOfSegL prev last s = .error .reuseOfUndefinedIndex ∨
        ∃ act' last' p d d', activeOfSegL prev last s = .ok (act', last') ∧ last.get p = some d ∧
          last'.get p = some d' ∧ d.ty ≠ d'.ty ∧ p ∈ act'.map (·.path))) := by
  unfold activeOfSeg at h
  unfold activeOfSegL
  split
  · rename_i hm
    simp only [hm, if_true] at h
    cases prev with
    | none => cases h; exact Or.inl ⟨rfl, rfl⟩
    | some a0 => cases h
  · rename_i hm
    simp only [hm] at h
    exact Or.inr (resolveObjs_err _ _ _ _ h hnd)

/-! ## the whole file -/

/-- the model's inputs describe the same segments as the encoding (headers as written) -/
def InputsFor (hdrs : SegEnc → SegDesc) : List SegEnc → List SegInput → Prop
  | [], [] => True
  | s :: ss, i :: is => i.desc = hdrs s ∧ InputsFor hdrs ss is
  | _, _ => False

/-- the hypothesis excluding the one divergence, along the spec's run over the file -/
def NoBareReuse : List Bytes → Option (List ActiveObj) → LastIdx → List SegEnc → Prop
  | _, _, _, [] => True
  | seen, prev, last, s :: ss =>
    NoBareReuseSeg seen last s ∧
    match activeOfSeg prev last s with
    | .error _ => True
    | .ok (a, last') => NoBareReuse (seen ++ a.map (·.path)) (some a) last' ss

/-- executable form of `NoBareReuse` (for examples and tests) -/
def noBareReuseB : List Bytes → Option (List ActiveObj) → LastIdx → List SegEnc → Bool
  | _, _, _, [] => true
  | seen, prev, last, s :: ss =>
    (!s.hasMeta || s.objs.all fun o =>
      !(o.idx = .matchesPrev) || (last.get o.path).isSome || !seen.contains o.path) &&
    match activeOfSeg prev last s with
    | .error _ => true
    | .ok (a, last') => noBareReuseB (seen ++ a.map (·.path)) (some a) last' ss

theorem noBareReuseB_sound : ∀ (e : List SegEnc) (seen : List Bytes) (prev : Option (List ActiveObj))
    (last : LastIdx), noBareReuseB seen prev last e = true → NoBareReuse seen prev last e := by
  intro e
  induction e with
  | nil => intro _ _ _ _; trivial
  | cons s ss ih =>
    intro seen prev last h
    simp only [noBareReuseB, Bool.and_eq_true] at h
    refine ⟨?_, ?_⟩
    · intro hm o ho hidx hlast hseen
      have h1 := h.1
      simp only [hm, Bool.not_true, Bool.false_or, List.all_eq_true] at h1
      have := h1 o ho
      simp [hidx, hlast, hseen] at this
    · have h2 := h.2
      revert h2
      cases activeOfSeg prev last s with
      | error r => intro _; trivial
      | ok al =>
        obtain ⟨a, last'⟩ := al
        intro h2
        exact ih _ _ _ h2

theorem noBareReuseB_complete : ∀ (e : List SegEnc) (seen : List Bytes) (prev : Option (List ActiveObj))
    (last : LastIdx), NoBareReuse seen prev last e → noBareReuseB seen prev last e = true := by
  intro e
  induction e with
  | nil => intro _ _ _ _; rfl
  | cons s ss ih =>
    intro seen prev last h
    obtain ⟨h1, h2⟩ := h
    simp only [noBareReuseB, Bool.and_eq_true]
    refine ⟨?_, ?_⟩
    · by_cases hm : s.hasMeta = true
      · simp only [hm, Bool.not_true, Bool.false_or, List.all_eq_true]
        intro o ho
        by_cases hidx : o.idx = .matchesPrev
        · cases hl : last.get o.path with
          | some d => simp
          | none =>
            have := h1 hm o ho hidx hl
            simp [hidx, this]
        · simp [hidx]
      · have : s.hasMeta = false := by simpa using hm
        simp [this]
    · revert h2
      cases activeOfSeg prev last s with
      | error r => intro _; rfl
      | ok al =>
        obtain ⟨a, last'⟩ := al
        intro h2
        exact ih _ _ _ h2

/-- how the model's failure relates to the spec's rejection -/
def ErrRel (r : Reject) (res : Except Err (List (List SegObj))) : Prop :=
  res = .error .scalerTypesChanged ∨
  (r = .firstSegmentWithoutMetadata ∧ res = .error .noPrevSegment) ∨
  (r = .reuseOfUndefinedIndex ∧ res = .error .reuseUnseen) ∨
  (r = .typeChanged ∧ (res = .error .typeChanged ∨ res = .error .reuseUnseen))

theorem fileMachine_cons_err {st : MState} {i : SegInput} {is : List SegInput} {err : Err}
    (h : fileStep st i = .error err) : fileMachine st (i :: is) = .error err := by
  unfold fileMachine; rw [h]

theorem fileStep_err_seg {st : MState} {i : SegInput} {err : Err}
    (h : segObjects st.prevSeg st.prevObjs i.desc = .error err) : fileStep st i = .error err := by
  unfold fileStep; rw [h]

theorem fileStep_ok {st : MState} {i : SegInput} {objs : List SegObj} {prev' : PrevObjs} {ms' : ObjMetas}
    (h : segObjects st.prevSeg st.prevObjs i.desc = .ok objs)
    (h2 : updateObjectMetadata i.chunkInfo objs st.prevObjs st.metas = .ok (prev', ms')) :
    fileStep st i = .ok (objs, ⟨some objs, prev', updateObjectProperties ms' i.props⟩) := by
  unfold fileStep; rw [h]; simp only []; rw [h2]

theorem fileStep_err_uom {st : MState} {i : SegInput} {objs : List SegObj} {err : Err}
    (h : segObjects st.prevSeg st.prevObjs i.desc = .ok objs)
    (h2 : updateObjectMetadata i.chunkInfo objs st.prevObjs st.metas = .error err) :
    fileStep st i = .error err := by
  unfold fileStep; rw [h]; simp only []; rw [h2]

theorem file_refines : ∀ (e : List SegEnc) (inputs : List SegInput) (seen : List Bytes)
    (prev : Option (List ActiveObj)) (last : LastIdx) (st : MState),
    InputsFor descOfSegRaw e inputs → FileInv seen prev last st →
    (∀ s ∈ e, noDupPaths s.objs = true) → NoBareReuse seen prev last e →
    match activeLists prev last e with
    | .ok acts =>
      fileMachine st inputs = .ok (acts.map (·.map concObj)) ∨
        fileMachine st inputs = .error .scalerTypesChanged
    | .error r => ErrRel r (fileMachine st inputs) := by
  intro e
  induction e with
  | nil =>
    intro inputs seen prev last st hin _ _ _
    cases inputs with
    | nil => exact Or.inl rfl
    | cons i is => cases hin
  | cons s ss ih =>
    intro inputs seen prev last st hin hinv hnd hdiv
    cases inputs with
    | nil => cases hin
    | cons i is =>
      obtain ⟨hi, his⟩ := hin
      have hnds := hnd s (List.mem_cons_self ..)
      have hseg := segObjects_refines hinv s hnds hdiv.1
      unfold activeLists
      cases hspec : activeOfSeg prev last s with
      | ok al =>
        obtain ⟨a, last'⟩ := al
        simp only []
        rw [activeOfSeg_ok_L hspec] at hseg
        obtain ⟨hobj, hpost⟩ := hseg
        have hp := fileStep_post hinv hpost (activeOfSeg_ty_mono hspec) i.chunkInfo i.props
        have hdiv' := hdiv.2
        rw [hspec] at hdiv'
        simp only [] at hdiv'
        rw [← hi] at hobj
        cases hu : updateObjectMetadata i.chunkInfo (a.map concObj) st.prevObjs st.metas with
        | error err =>
          rw [hu] at hp
          simp only [] at hp
          subst hp
          have := fileMachine_cons_err (is := is) (fileStep_err_uom hobj hu)
          cases activeLists (some a) last' ss with
          | error r => exact Or.inl this
          | ok acts => exact Or.inr this
        | ok pm =>
          obtain ⟨prev', ms'⟩ := pm
          rw [hu] at hp
          simp only [] at hp
          have hstep := fileStep_ok hobj hu
          have hrec := ih is _ _ _ _ his hp (fun s' hs' => hnd s' (List.mem_cons_of_mem _ hs')) hdiv'
          unfold fileMachine
          rw [hstep]
          simp only []
          revert hrec
          cases activeLists (some a) last' ss with
          | error r =>
            intro hrec
            simp only [] at hrec ⊢
            rcases hrec with h | ⟨h1, h⟩ | ⟨h1, h⟩ | ⟨h1, h | h⟩
            · rw [h]; exact Or.inl rfl
            · rw [h]; exact Or.inr (Or.inl ⟨h1, rfl⟩)
            · rw [h]; exact Or.inr (Or.inr (Or.inl ⟨h1, rfl⟩))
            · rw [h]; exact Or.inr (Or.inr (Or.inr ⟨h1, Or.inl rfl⟩))
            · rw [h]; exact Or.inr (Or.inr (Or.inr ⟨h1, Or.inr rfl⟩))
          | ok acts =>
            intro hrec
            simp only [] at hrec ⊢
            rcases hrec with h | h
            · rw [h]; exact Or.inl rfl
            · rw [h]; exact Or.inr rfl
      | error r =>
        simp only []
        rcases activeOfSeg_err hspec hnds with ⟨h1, hL⟩ | ⟨h1, hL⟩ | ⟨h1, hL | ⟨act', last', p, d, d', hL, hd, hd', hne, hmem⟩⟩
        · rw [hL] at hseg
          simp only [] at hseg
          rcases hseg with ⟨_, _, _, h⟩ | ⟨h, _⟩
          · rw [← hi] at h
            exact Or.inr (Or.inl ⟨h1, fileMachine_cons_err (fileStep_err_seg h)⟩)
          · cases h
        · rw [hL] at hseg
          simp only [] at hseg
          rcases hseg with ⟨h, _⟩ | ⟨_, _, h⟩
          · cases h
          · rw [← hi] at h
            exact Or.inr (Or.inr (Or.inl ⟨h1, fileMachine_cons_err (fileStep_err_seg h)⟩))
        · rw [hL] at hseg
          simp only [] at hseg
          rcases hseg with ⟨h, _⟩ | ⟨_, _, h⟩
          · cases h
          · rw [← hi] at h
            exact Or.inr (Or.inr (Or.inr ⟨h1, Or.inr (fileMachine_cons_err (fileStep_err_seg h))⟩))
        · rw [hL] at hseg
          simp only [] at hseg
          obtain ⟨hobj, hpost⟩ := hseg
          obtain ⟨o, ho, hcl⟩ := clash_of_change hinv.types hpost.idx hd hd' hne hmem
          have hndc : ((act'.map concObj).map (·.path)).Nodup := by
            rw [map_concObj_paths]; exact hpost.nodup
          have hu := uom_spec i.chunkInfo (act'.map concObj) st.prevObjs st.metas hndc
          rw [← hi] at hobj
          cases huu : updateObjectMetadata i.chunkInfo (act'.map concObj) st.prevObjs st.metas with
          | ok pm =>
            rw [huu] at hu
            exact absurd hcl (hu.1 o ho)
          | error err =>
            rw [huu] at hu
            simp only [] at hu
            have := fileMachine_cons_err (is := is) (fileStep_err_uom hobj huu)
            rcases hu with ⟨h, _⟩ | h
            · subst h
              exact Or.inr (Or.inr (Or.inr ⟨h1, Or.inl this⟩))
            · subst h
              exact Or.inl this

/-! ## abstraction: `absObj` is a left inverse of `concObj` -/

theorem absObj_idx_none_iff (o : SegObj) : (absObj o).idx = none ↔ o.dataType = none := by
  unfold absObj absIdx
  cases o.dataType with
  | none => simp
  | some ty => cases o.daq <;> simp

/-- descriptions `absObj` can recover: a digital DAQmx description needs at least one scaler (the
    reader stores `digital` per scaler) and every scaler type must be in `daqmxTypes` (as `wfIdx`
    demands) -/
def wfDesc : IdxDesc → Prop
  | .std _ _ _ => True
  | .daq dg _ _ sc _ =>
    (dg = true → sc ≠ []) ∧ ∀ s ∈ sc, (daqmxTypes.find? (·.1 = s.daqType)).isSome = true

private theorem daqmxTypes_inj :
    (daqmxTypes.all fun ct => daqmxTypes.find? (·.2 = ct.2) = some ct) = true := by decide

theorem absScaler_convScaler (dg : Bool) (s : ScalerEnc)
    (h : (daqmxTypes.find? (·.1 = s.daqType)).isSome = true) : absScaler (convScaler dg s) = s := by
  cases hf : daqmxTypes.find? (·.1 = s.daqType) with
  | none => rw [hf] at h; cases h
  | some ct =>
    have hmem := List.mem_of_find?_eq_some hf
    have hc : ct.1 = s.daqType := by simpa using List.find?_some hf
    have hinj := List.all_eq_true.1 daqmxTypes_inj ct hmem
    simp only [decide_eq_true_eq] at hinj
    unfold absScaler convScaler
    simp only [hf, Option.map_some, Option.getD_some, hinj, hc]

theorem absObj_concObj (a : ActiveObj) (h : ∀ d, a.idx = some d → wfDesc d) : absObj (concObj a) = a := by
  obtain ⟨p, hd, i⟩ := a
  cases i with
  | none => rfl
  | some d =>
    cases d with
    | std ty n total => rfl
    | daq dg ty n sc w =>
      obtain ⟨h1, h2⟩ := h _ rfl
      unfold absObj concObj absIdx
      simp only [List.map_map, List.any_map]
      have hmap : sc.map (absScaler ∘ convScaler dg) = sc := by
        calc sc.map (absScaler ∘ convScaler dg) = sc.map id := by
              apply List.map_congr_left
              intro s hs
              exact absScaler_convScaler dg s (h2 s hs)
          _ = sc := by simp
      have hany : sc.any ((fun x => x.digital) ∘ convScaler dg) = dg := by
        cases dg with
        | false => simp [Function.comp_def, convScaler]
        | true =>
          have := h1 rfl
          cases sc with
          | nil => exact absurd rfl this
          | cons x xs => simp [Function.comp_def, convScaler]
      rw [hmap, hany]

theorem map_absObj_concObj (act : List ActiveObj) (h : ∀ a ∈ act, ∀ d, a.idx = some d → wfDesc d) :
    (act.map concObj).map absObj = act := by
  rw [List.map_map]
  calc act.map (absObj ∘ concObj) = act.map id := by
        apply List.map_congr_left
        intro a ha
        exact absObj_concObj a (h a ha)
    _ = act := by simp

/-! ## canonical `total` fields -/

def canonSeg (s : SegEnc) : SegEnc := { s with objs := s.objs.map canonObj }

theorem descOfSeg_eq (s : SegEnc) : descOfSeg s = descOfSegRaw (canonSeg s) := by
  simp [descOfSeg, descOfSegRaw, canonSeg, hdrsOf_eq]

theorem inputsFor_canon : ∀ (e : List SegEnc) (inputs : List SegInput),
    InputsFor descOfSeg e inputs → InputsFor descOfSegRaw (e.map canonSeg) inputs := by
  intro e
  induction e with
  | nil => intro inputs h; cases inputs <;> exact h
  | cons s ss ih =>
    intro inputs h
    cases inputs with
    | nil => exact h
    | cons i is => exact ⟨h.1.trans (descOfSeg_eq s), ih is h.2⟩

/-! ## the model's start state, and where the lenient spec fails -/

/-- `(ordered, existing)` at the start of the object loop of a segment with metadata -/
def modelStart (prevSeg : Option (List SegObj)) (newList : Bool) : List SegObj × Option (List SegObj) :=
  match prevSeg with
  | some p => if newList then ([], none) else (p, some p)
  | none => ([], none)

theorem segObjects_meta (prevSeg : Option (List SegObj)) (prevObjs : PrevObjs) (d : SegDesc)
    (h : d.hasMeta = true) :
    segObjects prevSeg prevObjs d =
      runHeaders (modelStart prevSeg d.newList).2 prevObjs (modelStart prevSeg d.newList).1 d.hdrs := by
  unfold segObjects modelStart
  simp only [h, Bool.not_true, Bool.false_eq_true, if_false]
  cases prevSeg with
  | none => rfl
  | some p => cases d.newList <;> rfl

/-- the lenient resolution fails exactly at a "matches previous" whose path has no index -/
theorem resolveObjsL_err_split : ∀ (os : List ObjEnc) (last : LastIdx) (act : List ActiveObj) (r : Reject),
    resolveObjsL last act os = .error r →
    ∃ pre o post act1 last1, os = pre ++ o :: post ∧ resolveObjsL last act pre = .ok (act1, last1) ∧
      o.idx = .matchesPrev ∧ last1.get o.path = none := by
  intro os
  induction os with
  | nil => intro last act r h; cases h
  | cons o os ih =>
    intro last act r h
    unfold resolveObjsL at h
    cases hr : resolveObjL last o with
    | error e =>
      obtain ⟨_, h2, h3⟩ := resolveObjL_err hr
      exact ⟨[], o, os, act, last, rfl, rfl, h2, h3⟩
    | ok al =>
      obtain ⟨a, l1⟩ := al
      rw [hr] at h
      obtain ⟨pre, o', post, act1, last1, h1, h2, h3, h4⟩ := ih _ _ _ h
      refine ⟨o :: pre, o', post, act1, last1, by rw [h1]; rfl, ?_, h3, h4⟩
      unfold resolveObjsL
      rw [hr]
      exact h2

end Tdms.Proofs.C02
