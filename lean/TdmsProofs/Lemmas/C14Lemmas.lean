/-
  Helper definitions and lemmas for C14 (dtype part): `channel.dtype` of a scaled channel
  (`declaredKind`, `MultiScaling._compute_scale_dtype`) against the dtype the arithmetic really
  produces (`actualKind`), over the NumPy promotion tables extracted into `Tdms/Generated/Dtype.lean`.

  The table facts are checked by kernel evaluation (`decide +kernel`, no axioms).
-/
import TdmsProofs.Spec.ScaleGraph

namespace Tdms.Proofs.C14

open Tdms.Model.Scaling Tdms.Generated Tdms.Proofs.C13

/-- the ten integer / floating-point kinds TDMS raw types map to -/
def numericKinds : List String := ["i1", "i2", "i4", "i8", "u1", "u2", "u4", "u8", "f4", "f8"]

/-- all kinds of the generated tables -/
def allKinds : List String := numericKinds ++ ["c8", "c16", "b1"]

theorem tables_agree_numeric : ∀ a ∈ numericKinds, ∀ b ∈ numericKinds,
    addResult a b = resultType a b ∧ subResult a b = resultType a b := by decide +kernel

theorem resultType_closed_numeric : ∀ a ∈ numericKinds, ∀ b ∈ numericKinds,
    resultType a b ∈ numericKinds := by decide +kernel

theorem f8_numeric : "f8" ∈ numericKinds := by decide

/-- every DAQmx scaler id used by the graph has a declared data type -/
def scalersResolved {R : Type} (g : List (Scaling R)) (scalerKinds : List (Nat × String)) : Prop :=
  ∀ s ∈ g, ∀ id, s = .daqmx id → (scalerKinds.find? (·.1 = id)).isSome = true

/-- scalings that compute a new value from their input: Linear, Polynomial, Table, sensors -/
def isValueScale {R : Type} : Scaling R → Bool
  | .linear .. | .polynomial .. | .table .. | .sensor .. => true
  | _ => false

section
variable {R : Type} {g : List (Scaling R)} {rawKind : String} {scalerKinds : List (Nat × String)}

theorem declared_of_actual_aux (hwf : wf g) (hraw : rawKind ∈ numericKinds)
    (hsc : ∀ id k, (id, k) ∈ scalerKinds → k ∈ numericKinds) :
    ∀ idx, idx < g.length → ∀ fuel, idx + 2 ≤ fuel → ∀ k,
      actualKind g rawKind scalerKinds fuel idx = some k →
        declaredKind g rawKind scalerKinds fuel idx = some k ∧ k ∈ numericKinds := by
  intro idx
  induction idx using Nat.strong_induction_on with
  | _ idx ih =>
    intro hidx fuel hfuel k hk
    obtain ⟨f, rfl⟩ : ∃ f, fuel = f + 1 := ⟨fuel - 1, by omega⟩
    have hne : idx ≠ rawSource := by have := hwf.2.1; omega
    have hin : ∀ s ∈ sources g[idx], ∀ k, actualKind g rawKind scalerKinds f s = some k →
        declaredKind g rawKind scalerKinds f s = some k ∧ k ∈ numericKinds := by
      intro s hs k hk
      obtain ⟨f', rfl⟩ : ∃ f', f = f' + 1 := ⟨f - 1, by omega⟩
      rcases wf_source hwf hidx hs with h | h
      · subst h
        simp only [actualKind, if_true, Option.some.injEq] at hk
        subst hk
        simp [declaredKind, hraw]
      · exact ih s h (by omega) (f' + 1) (by omega) k hk
    rw [actualKind] at hk
    rw [declaredKind]
    simp only [hne, if_false, List.getElem?_eq_getElem hidx] at hk ⊢
    generalize hnode : g[idx] = node at hin hk
    cases node with
    | daqmx id =>
      simp only at hk ⊢
      refine ⟨hk, ?_⟩
      cases hf : scalerKinds.find? (·.1 = id) with
      | none => simp [hf] at hk
      | some p =>
        simp [hf] at hk
        have := List.mem_of_find?_eq_some hf
        exact hsc p.1 k (hk ▸ this)
    | add l r =>
      simp only [sources, List.mem_cons, List.not_mem_nil, or_false, forall_eq_or_imp, forall_eq] at hin
      obtain ⟨hl, hr⟩ := hin
      simp only [bind, pure] at hk ⊢
      cases ha : actualKind g rawKind scalerKinds f l with
      | none => simp [ha] at hk
      | some a =>
        cases hb : actualKind g rawKind scalerKinds f r with
        | none => simp [ha, hb] at hk
        | some b =>
          obtain ⟨hda, hna⟩ := hl a ha
          obtain ⟨hdb, hnb⟩ := hr b hb
          simp only [ha, hb, Option.bind_some, Option.some.injEq] at hk
          subst hk
          simp only [hda, hdb, Option.bind_some, (tables_agree_numeric a hna b hnb).1]
          exact ⟨trivial, resultType_closed_numeric a hna b hnb⟩
    | subtract l r =>
      simp only [sources, List.mem_cons, List.not_mem_nil, or_false, forall_eq_or_imp, forall_eq] at hin
      obtain ⟨hl, hr⟩ := hin
      simp only [bind, pure] at hk ⊢
      cases ha : actualKind g rawKind scalerKinds f l with
      | none => simp [ha] at hk
      | some a =>
        cases hb : actualKind g rawKind scalerKinds f r with
        | none => simp [ha, hb] at hk
        | some b =>
          obtain ⟨hda, hna⟩ := hl a ha
          obtain ⟨hdb, hnb⟩ := hr b hb
          simp only [ha, hb, Option.bind_some, Option.some.injEq] at hk
          subst hk
          simp only [hda, hdb, Option.bind_some, (tables_agree_numeric a hna b hnb).2]
          exact ⟨trivial, resultType_closed_numeric a hna b hnb⟩
    | noop src => exact hin src (by simp [sources]) k hk
    | linear b m src =>
      simp only [Option.map_eq_some_iff] at hk
      obtain ⟨_, _, rfl⟩ := hk
      exact ⟨rfl, f8_numeric⟩
    | polynomial cs src =>
      simp only [Option.map_eq_some_iff] at hk
      obtain ⟨_, _, rfl⟩ := hk
      exact ⟨rfl, f8_numeric⟩
    | table xs ys src =>
      simp only [Option.map_eq_some_iff] at hk
      obtain ⟨_, _, rfl⟩ := hk
      exact ⟨rfl, f8_numeric⟩
    | sensor n src =>
      simp only [Option.map_eq_some_iff] at hk
      obtain ⟨_, _, rfl⟩ := hk
      exact ⟨rfl, f8_numeric⟩

theorem actual_isSome (hwf : wf g) (hres : scalersResolved g scalerKinds) :
    ∀ idx, idx < g.length → ∀ fuel, idx + 2 ≤ fuel →
      (actualKind g rawKind scalerKinds fuel idx).isSome = true := by
  intro idx
  induction idx using Nat.strong_induction_on with
  | _ idx ih =>
    intro hidx fuel hfuel
    obtain ⟨f, rfl⟩ : ∃ f, fuel = f + 1 := ⟨fuel - 1, by omega⟩
    have hne : idx ≠ rawSource := by have := hwf.2.1; omega
    have hin : ∀ s ∈ sources g[idx], ∃ k, actualKind g rawKind scalerKinds f s = some k := by
      intro s hs
      obtain ⟨f', rfl⟩ : ∃ f', f = f' + 1 := ⟨f - 1, by omega⟩
      rcases wf_source hwf hidx hs with h | h
      · subst h; exact ⟨rawKind, by simp [actualKind]⟩
      · exact Option.isSome_iff_exists.1 (ih s h (by omega) (f' + 1) (by omega))
    rw [actualKind]
    simp only [hne, if_false, List.getElem?_eq_getElem hidx]
    have hmem : g[idx] ∈ g := List.getElem_mem hidx
    generalize g[idx] = node at hin hmem
    cases node with
    | daqmx id => simpa using hres _ hmem id rfl
    | add l r =>
      obtain ⟨a, ha⟩ := hin l (by simp [sources])
      obtain ⟨b, hb⟩ := hin r (by simp [sources])
      simp [ha, hb]
    | subtract l r =>
      obtain ⟨a, ha⟩ := hin l (by simp [sources])
      obtain ⟨b, hb⟩ := hin r (by simp [sources])
      simp [ha, hb]
    | noop src => obtain ⟨a, ha⟩ := hin src (by simp [sources]); simp [ha]
    | linear b m src => obtain ⟨a, ha⟩ := hin src (by simp [sources]); simp [ha]
    | polynomial cs src => obtain ⟨a, ha⟩ := hin src (by simp [sources]); simp [ha]
    | table xs ys src => obtain ⟨a, ha⟩ := hin src (by simp [sources]); simp [ha]
    | sensor n src => obtain ⟨a, ha⟩ := hin src (by simp [sources]); simp [ha]

end

end Tdms.Proofs.C14
