/-
  C03 — the file monad `F`: results depend on the file position only, never on the I/O trace.

  `PosDet m`: running `m` from `⟨pos, tr⟩` is running it from `⟨pos, []⟩` with the trace `tr`
  put in front.  `runAt m pos` is the pure content of `m`: the value and the final position.
  Core Lean only.
-/
import TdmsProofs.Lemmas.DataLemmas

namespace Tdms.Proofs.C03

open Tdms Tdms.Generated Tdms.Model Tdms.Proofs.Bytes

/-- put a trace in front of the trace of a result -/
def rebase {α : Type} (tr : List (Nat × Nat)) : Except Err (α × FState) → Except Err (α × FState)
  | .ok (a, st) => .ok (a, ⟨st.pos, tr ++ st.trace⟩)
  | .error e => .error e

theorem rebase_rebase {α : Type} (t1 t2 : List (Nat × Nat)) (x : Except Err (α × FState)) :
    rebase t1 (rebase t2 x) = rebase (t1 ++ t2) x := by
  cases x with
  | error e => rfl
  | ok r => obtain ⟨a, st⟩ := r; simp [rebase]

theorem rebase_nil {α : Type} (x : Except Err (α × FState)) : rebase [] x = x := by
  cases x with
  | error e => rfl
  | ok r => obtain ⟨a, st⟩ := r; simp [rebase]

/-- the result of `m` is a function of the position only -/
structure PosDet {α : Type} (m : F α) : Prop where
  eq : ∀ pos tr, m ⟨pos, tr⟩ = rebase tr (m ⟨pos, []⟩)

/-- value and final position of `m` started at `pos` -/
def runAt {α : Type} (m : F α) (pos : Nat) : Except Err (α × Nat) :=
  match m ⟨pos, []⟩ with
  | .ok (a, st) => .ok (a, st.pos)
  | .error e => .error e

theorem PosDet.pure {α : Type} (a : α) : PosDet (pure a : F α) := by
  constructor; intro pos tr; simp [F_pure, rebase]

theorem PosDet.throw {α : Type} (e : Err) : PosDet (throw e : F α) := by
  constructor; intro pos tr; rfl

theorem PosDet.bind {α β : Type} {m : F α} {f : α → F β} (hm : PosDet m) (hf : ∀ a, PosDet (f a)) :
    PosDet (m >>= f) := by
  constructor; intro pos tr
  show StateT.bind m f ⟨pos, tr⟩ = rebase tr (StateT.bind m f ⟨pos, []⟩)
  simp only [StateT.bind]
  rw [hm.eq pos tr]
  cases hx : m ⟨pos, []⟩ with
  | error e => rfl
  | ok r =>
    obtain ⟨a, st1⟩ := r
    obtain ⟨p1, t1⟩ := st1
    show f a ⟨p1, tr ++ t1⟩ = rebase tr (f a ⟨p1, t1⟩)
    rw [(hf a).eq p1 (tr ++ t1), (hf a).eq p1 t1, rebase_rebase]

theorem PosDet.ite {α : Type} {c : Prop} [Decidable c] {x y : F α} (hx : PosDet x) (hy : PosDet y) :
    PosDet (if c then x else y) := by
  split <;> assumption

theorem PosDet.fRead (file : Bytes) (n : Nat) : PosDet (fRead file n) := by
  constructor; intro pos tr; simp [Tdms.Model.fRead, rebase]

theorem PosDet.fReadAll (file : Bytes) : PosDet (fReadAll file) := by
  constructor; intro pos tr; simp [Tdms.Model.fReadAll, rebase]

theorem PosDet.fSeek (p : Nat) : PosDet (fSeek p) := by
  constructor; intro pos tr; simp [Tdms.Model.fSeek, rebase]

theorem PosDet.fTell : PosDet fTell := by
  constructor; intro pos tr; simp [Tdms.Model.fTell, rebase]

theorem PosDet.liftE {α : Type} (x : Except Err α) : PosDet (liftE x) := by
  constructor; intro pos tr
  cases x <;> simp [Tdms.Model.liftE, rebase]

/-! ## from `runAt` to runs with an arbitrary trace and back -/

theorem PosDet.run_ok {α : Type} {m : F α} (h : PosDet m) {pos pos' : Nat} {a : α}
    (hr : runAt m pos = .ok (a, pos')) (tr : List (Nat × Nat)) :
    ∃ tr', m ⟨pos, tr⟩ = .ok (a, ⟨pos', tr'⟩) := by
  rw [h.eq pos tr]
  unfold runAt at hr
  cases hx : m ⟨pos, []⟩ with
  | error e => rw [hx] at hr; cases hr
  | ok r =>
    obtain ⟨b, st⟩ := r
    rw [hx] at hr
    simp only [Except.ok.injEq, Prod.mk.injEq] at hr
    obtain ⟨rfl, rfl⟩ := hr
    exact ⟨_, rfl⟩

theorem PosDet.run_err {α : Type} {m : F α} (h : PosDet m) {pos : Nat} {e : Err}
    (hr : runAt m pos = .error e) (tr : List (Nat × Nat)) : m ⟨pos, tr⟩ = .error e := by
  rw [h.eq pos tr]
  unfold runAt at hr
  cases hx : m ⟨pos, []⟩ with
  | error e' => rw [hx] at hr; cases hr; rfl
  | ok r => obtain ⟨b, st⟩ := r; rw [hx] at hr; cases hr

theorem PosDet.runAt_of_run {α : Type} {m : F α} (h : PosDet m) {pos : Nat} {tr : List (Nat × Nat)}
    {a : α} {st' : FState} (hr : m ⟨pos, tr⟩ = .ok (a, st')) : runAt m pos = .ok (a, st'.pos) := by
  rw [h.eq pos tr] at hr
  unfold runAt
  cases hx : m ⟨pos, []⟩ with
  | error e => rw [hx] at hr; cases hr
  | ok r =>
    obtain ⟨b, st⟩ := r
    rw [hx] at hr
    simp only [rebase, Except.ok.injEq, Prod.mk.injEq] at hr
    obtain ⟨rfl, rfl⟩ := hr
    rfl

/-! ## the leaf readers -/

/-- structural proof of `PosDet` for `do` blocks built from the primitives -/
macro "posdet" : tactic => `(tactic| repeat' (first
  | assumption
  | exact PosDet.pure _
  | exact PosDet.throw _
  | exact PosDet.fRead _ _
  | exact PosDet.fReadAll _
  | exact PosDet.fSeek _
  | exact PosDet.fTell
  | exact PosDet.liftE _
  | apply PosDet.bind
  | apply PosDet.ite
  | intro _
  | split))

theorem posDet_offsets (file : Bytes) (e : Endian) : ∀ n, PosDet (readStringValues.offsets file e n) := by
  intro n
  induction n with
  | zero => exact PosDet.pure _
  | succ k ih =>
    unfold readStringValues.offsets
    posdet

theorem posDet_strings (file : Bytes) : ∀ (os : List Nat) (prev : Nat), PosDet (readStringValues.strings file prev os) := by
  intro os
  induction os with
  | nil => intro prev; exact PosDet.pure _
  | cons o os ih =>
    intro prev
    unfold readStringValues.strings
    have := ih o
    posdet

theorem posDet_readStringValues (file : Bytes) (e : Endian) (n : Nat) : PosDet (readStringValues file e n) := by
  unfold readStringValues
  exact PosDet.bind (posDet_offsets file e n) fun offs => posDet_strings file offs 0

theorem posDet_readValues (file : Bytes) (e : Endian) (o : SegObj) (n : Nat) : PosDet (readValues file e o n) := by
  unfold readValues
  have := posDet_readStringValues file e n
  posdet

theorem posDet_readRows (file : Bytes) (w n : Nat) : PosDet (readRows file w n) := by
  unfold readRows
  posdet

theorem posDet_readInterleavedChunks (file : Bytes) (s : Segment) (d : List SegObj) (n : Nat) :
    PosDet (readInterleavedChunks file s d n) := by
  unfold readInterleavedChunks
  have := fun w k => posDet_readRows file w k
  posdet

theorem posDet_verifySegmentStart (file : Bytes) (s : Segment) : PosDet (verifySegmentStart file s) := by
  unfold verifySegmentStart
  posdet

end Tdms.Proofs.C03
