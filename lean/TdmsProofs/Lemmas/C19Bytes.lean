import TdmsProofs.Lemmas.C19WF

/-! # C19: byte ranges of chunks and channels, and what `SegDataAllowed` means for each reader -/

namespace Tdms.Proofs.C19

open Tdms Tdms.Model Tdms.Generated Tdms.Proofs.C05

/-- the bytes `[start, end)` of chunk `j` of segment `s` whose chunks are `cs` bytes long -/
def chunkBytes (s : Segment) (cs j : Nat) : Nat × Nat :=
  (s.dataPosition + j * cs, s.dataPosition + j * cs + cs)

/-- the bytes `(start, length)` of channel `p` inside chunk `j` of a contiguous segment: the preceding
    data objects are skipped exactly as `readChannelChunkContiguous` skips them (`none`: the channel
    has no data in this segment, or an unsized object in front of it cannot be skipped) -/
def channelBytes (s : Segment) (cs j : Nat) (p : Bytes) : Option (Nat × Nat) :=
  channelSpan s j p (dataObjs s) (s.dataPosition + j * cs)

/-- `x = (pos, n)` lies inside `[lo, hi)` -/
def Inside (x : Nat × Nat) (r : Nat × Nat) : Prop := r.1 ≤ x.1 ∧ x.1 + x.2 ≤ r.2

theorem chunk_start_eq (s : Segment) (cs co i : Nat) :
    s.dataPosition + cs * co + i * cs = s.dataPosition + (co + i) * cs := by
  rw [Nat.add_mul, Nat.mul_comm cs co]; omega

/-- contiguous segments: every data read lies inside the bytes of channel `p` in ONE planned chunk -/
theorem segDataAllowed_contiguous (s : Segment) (p : Bytes) (co : Nat) (nc : Int) (x : Nat × Nat)
    (hk : dataReaderKind s = .ok .contiguous) (h : SegDataAllowed s p co nc x) :
    ∃ cs j a len, chunkSize s.objects = .ok cs ∧ co ≤ j ∧ j < co + nc.toNat ∧
      channelBytes s cs j p = some (a, len) ∧ Inside x (a, a + len) := by
  obtain ⟨cs, kind, hcs, hkind, h⟩ := h
  rw [hk] at hkind
  injection hkind with hkind
  subst hkind
  obtain ⟨i, hi, a, len, hspan, h1, h2⟩ := h
  rw [chunk_start_eq] at hspan
  exact ⟨cs, co + i, a, len, hcs, by omega, by omega, hspan, h1, h2⟩

/-- DAQmx segments: every data read lies inside ONE planned chunk -/
theorem segDataAllowed_daqmx (s : Segment) (p : Bytes) (co : Nat) (nc : Int) (x : Nat × Nat)
    (hk : dataReaderKind s = .ok .daqmx) (h : SegDataAllowed s p co nc x) :
    ∃ cs j, chunkSize s.objects = .ok cs ∧ co ≤ j ∧ j < co + nc.toNat ∧ Inside x (chunkBytes s cs j) := by
  obtain ⟨cs, kind, hcs, hkind, h⟩ := h
  have hk' := hk
  rw [hkind] at hk
  injection hk with hk
  subst hk
  obtain ⟨i, hi, h1, h2⟩ := h
  rcases kind_cases s _ hk' with ⟨_, hd⟩ | ⟨h, _⟩ | ⟨h, _⟩
  · rw [← chunkSize_daqmx s cs hcs hd, chunk_start_eq] at h2
    rw [chunk_start_eq] at h1
    exact ⟨cs, co + i, hcs, by omega, by omega, h1, h2⟩
  · cases h
  · cases h

/-- interleaved segments (sizes consistent): all planned chunks are fetched by one read that lies inside
    the union of the planned chunks -/
theorem segDataAllowed_interleaved (s : Segment) (hwf : SegWF s) (p : Bytes) (co : Nat) (nc : Int) (x : Nat × Nat)
    (h : SegDataAllowed s p co nc x) :
    ∃ cs, chunkSize s.objects = .ok cs ∧
      Inside x ((chunkBytes s cs co).1, (chunkBytes s cs co).1 + nc.toNat * cs) := by
  obtain ⟨cs, hcs, h1, h2⟩ := segDataAllowed_in_planned s hwf p co nc x h
  refine ⟨cs, hcs, ?_, ?_⟩
  · show s.dataPosition + co * cs ≤ x.1
    rw [Nat.mul_comm]; exact h1
  · show x.1 + x.2 ≤ s.dataPosition + co * cs + nc.toNat * cs
    rw [Nat.mul_add, Nat.mul_comm cs co, Nat.mul_comm cs nc.toNat] at h2
    omega

/-- with consistent sizes the bytes of a channel lie inside its chunk -/
theorem channelBytes_inside_chunkBytes (s : Segment) (hwf : SegWF s) (cs : Nat) (hcs : chunkSize s.objects = .ok cs)
    (hk : dataReaderKind s = .ok .contiguous) (j : Nat) (p : Bytes) (a len : Nat)
    (h : channelBytes s cs j p = some (a, len)) : Inside (a, len) (chunkBytes s cs j) := by
  rcases kind_cases s _ hk with ⟨h, _⟩ | ⟨h, _⟩ | ⟨_, hd⟩
  · cases h
  · cases h
  · have hb := chunkSize_not_daqmx s cs hcs hd
    have := channelSpan_within s j p (dataObjs s) (fun o ho => hwf.dataSize_eq o ho)
      (fun o ho => channelNumberValues_le s hwf o ho _) _ a len h
    rw [← hb] at this
    exact this

end Tdms.Proofs.C19
