/-
  C03 — consuming `channel.data_chunks()`: the chunks are the planned per-segment reads, their
  concatenation is the channel's eager data, and every reported offset is the number of values
  delivered before.  Core Lean only.
-/
import TdmsProofs.Lemmas.C03ChanIter

namespace Tdms.Proofs.C03

open Tdms Tdms.Generated Tdms.Model Tdms.Proofs.Bytes Tdms.Proofs.C04

/-- `list(channel.data_chunks())`, at most `n` chunks -/
def chanIterAll (f : OpenFile) : Nat → ChanIter → F (List (ChanChunk × Nat))
  | 0, _ => pure []
  | n + 1, it => do
    let (r, it') ← chanIterNext f (fuelFor f) it
    match r with
    | none => pure []
    | some x => do
      let rest ← chanIterAll f n it'
      pure (x :: rest)

/-- chunks paired with the number of values delivered before each of them -/
def withCount : Nat → List ChanChunk → List (ChanChunk × Nat)
  | _, [] => []
  | off, c :: cs => (c, off) :: withCount (off + c.len) cs

theorem chanIterAll_spec (f : OpenFile) (p : Bytes) (m : ObjMeta) (hok : SegsOk f.file f.segments)
    (hc : ChanOk f.objects f.segments p m) :
    ∀ (n : Nat) (it : ChanIter) (st : FState), ChanInv f p m.numValues it →
      (chanRest f p m.numValues it).length ≤ n →
      ∃ st', chanIterAll f n it st = .ok (withCount it.offset (chanRest f p m.numValues it), st') := by
  intro n
  induction n with
  | zero =>
    intro it st _ h
    have : chanRest f p m.numValues it = [] := List.eq_nil_of_length_eq_zero (by omega)
    rw [this]
    exact ⟨st, rfl⟩
  | succ n ih =>
    intro it st hinv h
    obtain ⟨r, it', st1, hrun, hspec⟩ := chanIterNext_spec f p m hok hc (fuelFor f) it st hinv (by unfold fuelFor; omega)
    unfold chanIterAll
    rw [F_bind_ok hrun]
    unfold ChanStepSpec at hspec
    cases hrest : chanRest f p m.numValues it with
    | nil =>
      rw [hrest] at hspec
      obtain ⟨rfl, _⟩ := hspec
      exact ⟨st1, rfl⟩
    | cons c rest =>
      rw [hrest] at hspec h
      obtain ⟨rfl, hr', ho, hinv'⟩ := hspec
      obtain ⟨st2, h2⟩ := ih it' st1 hinv' (by rw [hr']; simpa using h)
      refine ⟨st2, ?_⟩
      simp only []
      rw [F_bind_ok h2, hr', ho]
      rfl

theorem withCount_fst (off : Nat) (cs : List ChanChunk) : (withCount off cs).map (·.1) = cs := by
  induction cs generalizing off with
  | nil => rfl
  | cons c cs ih => simp [withCount, ih]

/-- total number of values in a list of chunks -/
def lenSum (cs : List ChanChunk) : Nat := (cs.map (·.len)).sum

theorem withCount_get : ∀ (cs : List ChanChunk) (off j : Nat) (x : ChanChunk × Nat),
    (withCount off cs)[j]? = some x → x.2 = off + lenSum (cs.take j) := by
  intro cs
  induction cs with
  | nil => intro off j x h; simp [withCount] at h
  | cons c cs ih =>
    intro off j x h
    cases j with
    | zero =>
      simp only [withCount, List.getElem?_cons_zero, Option.some.injEq] at h
      subst h; simp [lenSum]
    | succ j =>
      simp only [withCount, List.getElem?_cons_succ] at h
      rw [ih _ j x h]
      simp [lenSum, Nat.add_assoc]

/-! ## the planned reads, untrimmed, are the window `(0, None)` -/

theorem trimStream_id (len : Int) : ∀ (cs : List ChanChunk) (vr : Int), vr + (lenSum cs : Int) ≤ len →
    trimStream len cs 0 vr = (cs, vr + (lenSum cs : Int)) := by
  intro cs
  induction cs with
  | nil => intro vr _; simp [trimStream, lenSum]
  | cons c cs ih =>
    intro vr h
    simp only [lenSum, List.map_cons, List.sum_cons, Int.natCast_add] at h
    have hcs : (lenSum cs : Int) = ((cs.map (·.len)).sum : Nat) := rfl
    have h0 : (0 : Int) ≤ (lenSum cs : Int) := Int.natCast_nonneg _
    unfold trimStream
    simp only [Int.natCast_zero, Int.sub_zero]
    rw [ih (vr + c.len) (by rw [hcs]; omega)]
    have htrim : (if vr + (c.len : Int) < len then (0 : Int) else vr + c.len - len) = 0 := by
      split
      · rfl
      · rw [hcs] at h0; omega
    rw [htrim]
    simp only [trimChannelChunk, and_self, if_true, lenSum, List.map_cons, List.sum_cons, Int.natCast_add]
    rw [Int.add_assoc]

theorem lenSum_append (a b : List ChanChunk) : lenSum (a ++ b) = lenSum a + lenSum b := by
  simp [lenSum]

theorem dataOf_length_le (cs : List ChanChunk) : (dataOf cs).length ≤ lenSum cs := by
  induction cs with
  | nil => simp [dataOf, lenSum]
  | cons c cs ih =>
    rw [dataOf_cons, List.length_append]
    simp only [lenSum, List.map_cons, List.sum_cons] at ih ⊢
    have : (c.data.getD []).length ≤ c.len := by
      unfold ChanChunk.len
      cases hd : c.data with
      | some d => simp
      | none => simp
    omega

/-- the planned chunks of one segment (with the optional empty chunk) hold at most the segment's
    values of the channel, and every chunk carries plain data of the length `len` reports -/
theorem chanSegRest_len (f : OpenFile) (p : Bytes) (s : Segment) (hso : SegOk f.file s) (hwf : (layoutOf p s).WF)
    (co skip nc : Int) (hin : nc.toNat ≤ s.numChunks) (hcs : (layoutOf p s).cs ≠ 0) :
    lenSum (chanSegRest f.file s p (some (co, skip, nc)) none false) ≤ (layoutOf p s).nvals ∧
    (dataOf (chanSegRest f.file s p (some (co, skip, nc)) none false)).length
      = lenSum (chanSegRest f.file s p (some (co, skip, nc)) none false) := by
  have hch : ChunksOk (layoutOf p s) (segChanVals f.file s p) := by
    intro j hj
    exact (lazyChunk_vals hso p hcs j hj).2
  have hseg := segVals_length (layoutOf p s) (segChanVals f.file s p) hwf hch
  have hmap : (List.range' 0 nc.toNat).map (lazyChunk f.file s (segCsz s) p)
      = wrap ((List.range' 0 nc.toNat).map (segChanVals f.file s p)) := by
    unfold wrap
    rw [List.map_map]
    apply List.map_congr_left
    intro j hj
    rw [List.mem_range'_1] at hj
    exact (lazyChunk_vals hso p hcs j (by omega)).1
  have hwrap : ∀ (ds : List (List Bytes)), lenSum (wrap ds) = ds.flatten.length ∧ dataOf (wrap ds) = ds.flatten := by
    intro ds
    induction ds with
    | nil => simp [wrap, lenSum, dataOf]
    | cons d ds ih =>
      simp only [wrap, List.map_cons, lenSum, List.sum_cons, List.flatten_cons, List.length_append] at ih ⊢
      rw [dataOf_cons]
      refine ⟨by rw [ih.1]; rfl, by rw [ih.2]; rfl⟩
  have hpre : ∀ (rest : List ChanChunk),
      lenSum ((if (!hasFlag s.toc kTocRawData) = true ∧ (!false) = true then [({} : ChanChunk)] else []) ++ rest) = lenSum rest ∧
      dataOf ((if (!hasFlag s.toc kTocRawData) = true ∧ (!false) = true then [({} : ChanChunk)] else []) ++ rest) = dataOf rest := by
    intro rest
    split
    · simp [lenSum, dataOf, ChanChunk.len]
    · simp
  unfold chanSegRest
  simp only []
  rw [hmap, (hpre _).1, (hpre _).2, (hwrap _).1, (hwrap _).2]
  refine ⟨?_, rfl⟩
  rw [← hseg]
  unfold segVals
  rw [if_neg hcs]
  have hk : (layoutOf p s).k = s.numChunks := rfl
  rw [hk]
  obtain ⟨r, hr⟩ : ∃ r, s.numChunks = nc.toNat + r := ⟨s.numChunks - nc.toNat, by omega⟩
  rw [List.range_eq_range', hr, ← List.range'_append_1 (s := 0) (m := nc.toNat) (n := r), List.map_append,
    List.flatten_append, List.length_append]
  omega

/-- every chunk reports as its length the number of values it carries -/
def AllPlain (cs : List ChanChunk) : Prop := ∀ c ∈ cs, (c.data.getD []).length = c.len

theorem dataOf_length_of_plain (cs : List ChanChunk) (h : AllPlain cs) : (dataOf cs).length = lenSum cs := by
  induction cs with
  | nil => rfl
  | cons c cs ih =>
    rw [dataOf_cons, List.length_append, h c List.mem_cons_self, ih (fun x hx => h x (List.mem_cons_of_mem _ hx))]
    simp [lenSum]

theorem allPlain_chanSegRest (f : OpenFile) (p : Bytes) (s : Segment) (hso : SegOk f.file s)
    (co skip nc : Int) (hin : nc.toNat ≤ s.numChunks) (hcs : (layoutOf p s).cs ≠ 0) :
    AllPlain (chanSegRest f.file s p (some (co, skip, nc)) none false) := by
  intro c hc
  unfold chanSegRest at hc
  simp only [] at hc
  rcases List.mem_append.mp hc with hc | hc
  · split at hc
    · simp only [List.mem_singleton] at hc; subst hc; rfl
    · cases hc
  · obtain ⟨j, hj, rfl⟩ := List.mem_map.mp hc
    rw [List.mem_range'_1] at hj
    rw [(lazyChunk_vals hso p hcs j (by omega)).1]
    rfl

section
variable (f : OpenFile) (p : Bytes) (m : ObjMeta) (hok : SegsOk f.file f.segments)
  (hc : ChanOk f.objects f.segments p m)
include hok hc

omit hok in
/-- the facts about the plan of segment `i` of the window `(0, None)` -/
theorem chanPlan_facts (i : Nat) (s : Segment) (hs : f.segments[i]? = some s) (h1 : chanStart f p ≤ i)
    (h2 : i ≤ chanEnd f p m.numValues) (co skip nc : Int) (hplan : chanPlan f p m.numValues i s = some (co, skip, nc)) :
    co = 0 ∧ skip = 0 ∧ nc.toNat ≤ s.numChunks ∧ (layoutOf p s).cs ≠ 0 := by
  have hpo := plan_ok f.segments p m.numValues hc.wf hc.num 0 none (Int.le_refl 0)
  have hpz := plan_zero f.segments p m.numValues hc.wf hc.num none
  rw [windowParams_zero_none] at hpo hpz
  have a := hpo i s hs h1 h2 co skip nc hplan
  have b := hpz i s hs h1 h2 co skip nc hplan
  refine ⟨b.1, b.2, ?_, segPlan_cs hplan⟩
  have := a.inside
  rw [b.1] at this
  simpa using this

omit hok hc in
theorem supActual_eq_chanSegRest (i : Nat) (s : Segment) (hs : f.segments[i]? = some s) (co skip nc : Int) :
    supActual f.file f.segments p i 0 nc = chanSegRest f.file s p (some (co, skip, nc)) none false := by
  unfold supActual chanSegRest lazySegChunks
  rw [hs]
  simp

theorem allPlain_chanTail : ∀ (cnt i : Nat), chanStart f p ≤ i → i + cnt = chanEnd f p m.numValues + 1 →
    AllPlain (chanTail f p m.numValues cnt i) := by
  intro cnt
  induction cnt with
  | zero => intro i _ _ c hc; cases hc
  | succ cnt ih =>
    intro i h1 h2 c hcm
    unfold chanTail at hcm
    rcases List.mem_append.mp hcm with hcm | hcm
    · cases hs : f.segments[i]? with
      | none => rw [hs] at hcm; cases hcm
      | some s =>
        rw [hs] at hcm
        simp only [] at hcm
        cases hplan : chanPlan f p m.numValues i s with
        | none => rw [hplan] at hcm; cases hcm
        | some t =>
          obtain ⟨co, skip, nc⟩ := t
          rw [hplan] at hcm
          obtain ⟨_, _, hin, hcs⟩ := chanPlan_facts f p m hc i s hs h1 (by omega) co skip nc hplan
          exact allPlain_chanSegRest f p s (hok s (List.mem_of_getElem? hs)) co skip nc hin hcs c hcm
    · exact ih (i + 1) (by omega) (by omega) c hcm

theorem lenSum_chanTail_le : ∀ (cnt i : Nat), chanStart f p ≤ i → i + cnt = chanEnd f p m.numValues + 1 →
    lenSum (chanTail f p m.numValues cnt i) ≤
      ((((f.segments.map (layoutOf p)).map SegL.nvals).drop i).take cnt).sum := by
  intro cnt
  induction cnt with
  | zero => intro i _ _; simp [chanTail, lenSum]
  | succ cnt ih =>
    intro i h1 h2
    unfold chanTail
    rw [lenSum_append]
    have ih' := ih (i + 1) (by omega) (by omega)
    cases hs : f.segments[i]? with
    | none =>
      have hlen : f.segments.length ≤ i := by
        rcases Nat.lt_or_ge i f.segments.length with h | h
        · rw [List.getElem?_eq_getElem h] at hs; cases hs
        · exact h
      rw [chanTail_past f p m.numValues cnt (i + 1) (by omega)]
      simp [lenSum]
    | some s =>
      have hi : i < f.segments.length := by
        rcases Nat.lt_or_ge i f.segments.length with h | h
        · exact h
        · rw [List.getElem?_eq_none h] at hs; cases hs
      have hsi : f.segments[i] = s := by rw [List.getElem?_eq_getElem hi] at hs; exact Option.some.inj hs
      have hi' : i < ((f.segments.map (layoutOf p)).map SegL.nvals).length := by simpa using hi
      rw [List.drop_eq_getElem_cons hi', List.take_succ_cons, List.sum_cons]
      have hnvi : ((f.segments.map (layoutOf p)).map SegL.nvals)[i] = (layoutOf p s).nvals := by simp [hsi]
      rw [hnvi]
      simp only []
      have hseg : lenSum (chanSegRest f.file s p (chanPlan f p m.numValues i s) none false) ≤ (layoutOf p s).nvals := by
        cases hplan : chanPlan f p m.numValues i s with
        | none => simp [chanSegRest, lenSum]
        | some t =>
          obtain ⟨co, skip, nc⟩ := t
          obtain ⟨_, _, hin, hcs⟩ := chanPlan_facts f p m hc i s hs h1 (by omega) co skip nc hplan
          exact (chanSegRest_len f p s (hok s (List.mem_of_getElem? hs))
            (hc.wf _ (List.mem_map_of_mem (List.mem_of_getElem? hs))) co skip nc hin hcs).1
      omega

omit hok in
/-- the window loop for `(0, None)` trims nothing: it returns the planned chunks as they are -/
theorem windowLoopPure_eq_chanTail : ∀ (cnt i : Nat) (vr : Int), chanStart f p ≤ i →
    i + cnt = chanEnd f p m.numValues + 1 →
    vr + (lenSum (chanTail f p m.numValues cnt i) : Int) ≤ (m.numValues : Int) →
    windowLoopPure (supActual f.file f.segments p) p (buildIndex f.segments p) 0 (m.numValues : Int) (m.numValues : Int)
      (chanStart f p) (chanEnd f p m.numValues) ((f.segments.drop i).take cnt) i vr
      = chanTail f p m.numValues cnt i := by
  intro cnt
  induction cnt with
  | zero => intro i vr _ _ _; simp [windowLoopPure, chanTail]
  | succ cnt ih =>
    intro i vr h1 h2 hb
    rcases Nat.lt_or_ge i f.segments.length with hi | hi
    · have hs : f.segments[i]? = some f.segments[i] := List.getElem?_eq_getElem hi
      rw [List.drop_eq_getElem_cons hi, List.take_succ_cons]
      generalize f.segments[i] = s at hs
      unfold chanTail at hb ⊢
      rw [hs] at hb ⊢
      simp only [] at hb ⊢
      unfold windowLoopPure
      have hplanEq : segPlan p (buildIndex f.segments p) 0 (m.numValues : Int) (chanStart f p)
          (chanEnd f p m.numValues) i s = chanPlan f p m.numValues i s := rfl
      rw [hplanEq]
      rw [lenSum_append] at hb
      cases hplan : chanPlan f p m.numValues i s with
      | none =>
        rw [hplan] at hb
        simp only [chanSegRest, List.nil_append]
        exact ih (i + 1) vr (by omega) (by omega) (by simpa [chanSegRest, lenSum] using hb)
      | some t =>
        obtain ⟨co, skip, nc⟩ := t
        rw [hplan] at hb
        obtain ⟨hco, hskip, _, _⟩ := chanPlan_facts f p m hc i s hs h1 (by omega) co skip nc hplan
        subst hco; subst hskip
        simp only [Int.toNat_zero]
        rw [supActual_eq_chanSegRest f p i s hs 0 0 nc]
        have hn0 : (0 : Int) ≤ (lenSum (chanTail f p m.numValues cnt (i + 1)) : Int) := Int.natCast_nonneg _
        rw [trimStream_id _ _ vr (by simp only [Int.natCast_add] at hb; omega)]
        simp only []
        rw [ih (i + 1) _ (by omega) (by omega) (by simp only [Int.natCast_add] at hb; omega)]
    · rw [List.drop_eq_nil_of_le hi, chanTail_past f p m.numValues _ i hi]
      simp [windowLoopPure]

/-- **the chunks of a fresh `channel.data_chunks()` concatenate to the channel's eager data** -/
theorem dataOf_chanTail_all :
    dataOf (chanTail f p m.numValues (chanEnd f p m.numValues + 1 - chanStart f p) (chanStart f p))
      = eagerVals f.file f.segments p := by
  have hw := windowPureG_actual_eager f p m hok hc 0 none (Int.le_refl 0) (by intro l h; cases h)
  simp only [takeOpt, Int.toNat_zero, List.drop_zero] at hw
  rw [← hw]
  unfold windowPureG
  rw [windowParams_zero_none]
  simp only []
  rcases Nat.lt_or_ge (chanEnd f p m.numValues) (chanStart f p) with hlt | hge
  · have : chanEnd f p m.numValues + 1 - chanStart f p = 0 := by omega
    rw [this]
    simp [chanTail, windowLoopPure]
  · rw [windowLoopPure_eq_chanTail f p m hc _ (chanStart f p) 0 (Nat.le_refl _) (by omega)]
    have h1 := lenSum_chanTail_le f p m hok hc (chanEnd f p m.numValues + 1 - chanStart f p) (chanStart f p)
      (Nat.le_refl _) (by omega)
    have h2 := psum_add ((f.segments.map (layoutOf p)).map SegL.nvals) (chanStart f p)
      (chanEnd f p m.numValues + 1 - chanStart f p)
    have h3 := psum_le_sum ((f.segments.map (layoutOf p)).map SegL.nvals)
      (chanStart f p + (chanEnd f p m.numValues + 1 - chanStart f p))
    have h4 : m.numValues = ((f.segments.map (layoutOf p)).map SegL.nvals).sum := by rw [hc.num]; rfl
    omega

omit hok in
theorem newChanIter_inv : ChanInv f p m.numValues (newChanIter f p) ∧ (newChanIter f p).offset = 0 ∧
    chanRest f p m.numValues (newChanIter f p)
      = chanTail f p m.numValues (chanEnd f p m.numValues + 1 - chanStart f p) (chanStart f p) := by
  have hnum : (((f.objects.get p).map (·.numValues)).getD 0 : Nat) = m.numValues := by rw [hc.get]; rfl
  have hinv : ChanInv f p m.numValues (newChanIter f p) := by
    refine ⟨rfl, rfl, ?_, ?_, Nat.le_refl _, by intro i init s h; cases h⟩
    · show _ + searchLeft _ ((((f.objects.get p).map (·.numValues)).getD 0 : Nat) : Int) = _
      rw [hnum]; rfl
    · show ((((f.objects.get p).map (·.numValues)).getD 0 : Nat) : Int) = _
      rw [hnum]
  exact ⟨hinv, rfl, chanRest_fresh f p m.numValues (chanStart f p) _ rfl rfl rfl⟩

/-- **`channel.data_chunks()` consumed to the end**: the chunks concatenate to the channel's eager
    data, and each chunk's offset is the number of values delivered before it -/
theorem chanIterAll_eager (n : Nat)
    (hn : (chanTail f p m.numValues (chanEnd f p m.numValues + 1 - chanStart f p) (chanStart f p)).length ≤ n)
    (st : FState) :
    ∃ out st', (chanIterAll f n (newChanIter f p)).run st = .ok (out, st') ∧
      dataOf (out.map (·.1)) = eagerVals f.file f.segments p ∧
      ∀ j x, out[j]? = some x → x.2 = (dataOf ((out.take j).map (·.1))).length := by
  obtain ⟨hinv, hoff, hrest⟩ := newChanIter_inv f p m hc
  obtain ⟨st', hrun⟩ := chanIterAll_spec f p m hok hc n (newChanIter f p) st hinv (by rw [hrest]; exact hn)
  rw [hrest, hoff] at hrun
  refine ⟨_, st', hrun, ?_, ?_⟩
  · rw [withCount_fst]
    exact dataOf_chanTail_all f p m hok hc
  · intro j x hx
    rw [withCount_get _ 0 j x hx, Nat.zero_add, List.map_take, withCount_fst]
    symm
    apply dataOf_length_of_plain
    rcases Nat.lt_or_ge (chanEnd f p m.numValues) (chanStart f p) with hlt | hge
    · have : chanEnd f p m.numValues + 1 - chanStart f p = 0 := by omega
      rw [this]
      intro c hcm
      simp [chanTail] at hcm
    · intro c hcm
      exact allPlain_chanTail f p m hok hc _ (chanStart f p) (Nat.le_refl _) (by omega) c (List.mem_of_mem_take hcm)

end

end Tdms.Proofs.C03
