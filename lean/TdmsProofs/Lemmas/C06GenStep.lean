/-
  C06, the cut theorem for the general multi-segment class: one iteration of the metadata loop on the LAST segment
  present in the file, of which `k` bytes (at least up to the start of its raw data) are there — and the iteration
  on a segment whose raw data are not reached (it is dropped).  Core Lean only.
-/
import TdmsProofs.Lemmas.C06GenMeta

namespace Tdms.Proofs.C06Gen

open Tdms Tdms.Generated Tdms.Model Tdms.Proofs.C02 Tdms.Proofs.LeadIn Tdms.Proofs.C01Multi Tdms.Proofs.C01Marker
open Tdms.Proofs.Bytes (canonProp contOK aTy)
open Tdms.Proofs.C06Whole (dataPosOf)

/-- the reader state after the cut segment -/
def stateCut (st : ReaderState) (pos : Nat) (s : SegEnc) (b : Bool) (a : List ActiveObj) (k : Nat)
    (prev' : PrevObjs) (c' : Content) : ReaderState :=
  { version := some (st.version.getD (s.version : Int)), versions := st.versions ++ [(s.version : Int)],
    prevObjs := prev', objects := c'.map (mOC (exCut a s k)), segments := st.segments ++ [cutRec pos s b a k] }

theorem encodeSeg_setU (b : Bool) (s : SegEnc) (a : List ActiveObj) :
    encodeSeg (setU b s) a =
      encLeadIn tagData (setU b s) (segMeta s).length (encRaw s a).length ++ (segMeta s ++ encRaw s a) :=
  encodeSeg_split (setU b s) a

theorem encodeSeg_setU_length (b : Bool) (s : SegEnc) (a : List ActiveObj) :
    (encodeSeg (setU b s) a).length = (encodeSeg s a).length := by
  rw [encodeSeg_setU, encodeSeg_split s a]
  simp only [List.length_append, encLeadIn_length tagData (setU b s) _ _ rfl, encLeadIn_length tagData s _ _ rfl]

/-- **one iteration of the metadata loop on a segment cut at or after the start of its raw data** (the file ends
    `k` bytes into the segment): the segment is kept, ends at the cut, is flagged incomplete when bytes are missing
    or the lead-in carries the marker; `object_metadata` becomes the view of the content after the complete chunks,
    plus the values of the truncated chunk counted -/
theorem loopStep_segment_cut (file : Bytes) (pos : Nat) (s : SegEnc) (b : Bool)
    (a : List ActiveObj) (k : Nat) (hk1 : dataPosOf s ≤ k) (hkL : k ≤ (encodeSeg s a).length)
    (hsegL : (encodeSeg s a).length < 2 ^ 63)
    (hfile : file.drop pos = (encodeSeg (setU b s) a).take k) (hend : file.length = pos + k)
    (st : ReaderState) (seen : List Bytes) (prev : Option (List ActiveObj)) (last last' : LastIdx)
    (c : Content) (hact : activeOfSeg prev last s = .ok (a, last')) (hok : SegOK s a)
    (hinv : FileInv seen prev last (mstateOf st)) (hspec : SpecInv prev last)
    (hobjs : st.objects = c.map (mOC fun _ => 0)) (hnodup : (c.map (·.path)).Nodup) :
    ∃ prev', loopStep file false (some file.length) pos pos st =
        .ok (.next (pos + k) (pos + k)
          (stateCut st pos s b a k prev' (denoteSeg c (takeChunks s (cutQA s a k)) a))) := by
  have hpost := activeOfSeg_post hspec hok.nodup hact
  have hL := activeOfSeg_ok_L hact
  have hdiv := noBareReuseSeg_of_ok hact hok.nodup seen
  have hsplit := encodeSeg_setU b s a
  have hli28 := encLeadIn_length tagData (setU b s) (segMeta s).length (encRaw s a).length rfl
  have hseglen : (encodeSeg s a).length = 28 + (segMeta s).length + (encRaw s a).length := by
    rw [encodeSeg_split s a]; simp [encLeadIn_length tagData s _ _ rfl]; omega
  have hdp : dataPosOf s = 28 + (segMeta s).length := rfl
  -- the bytes
  have hfile' : file.drop pos = encLeadIn tagData (setU b s) (segMeta s).length (encRaw s a).length ++
      (segMeta s ++ (encRaw s a).take (k - dataPosOf s)) := by
    rw [hfile, hsplit, List.take_append, hli28, List.take_of_length_le (by rw [hli28]; omega),
      List.take_append, List.take_of_length_le (by omega)]
    congr 3
    omega
  -- the lead-in
  have hlead : readLeadIn (file.drop pos) pos false (some file.length) =
      .ok (some { toc := tocMask s, version := s.version, dataPosition := pos + 28 + (segMeta s).length,
                  nextSegmentPos := pos + k,
                  incomplete := b || decide (k < (encodeSeg s a).length) }) := by
    rw [hfile']
    have := Tdms.Proofs.C06Whole.readLeadIn_at (setU b s) (version_lt' hok.version) (segMeta s).length
      (encRaw s a).length pos k file.length (segMeta s ++ (encRaw s a).take (k - dataPosOf s))
      (by omega) (by omega) (by omega) (fun _ => hend) (fun _ => ⟨by omega, fun _ => hend⟩)
    rw [this, if_neg (by omega), hseglen]
    rfl
  have hdrop : file.drop (pos + 28) = segMeta s ++ ((encRaw s a).take (k - dataPosOf s) ++ []) := by
    rw [← List.drop_drop, hfile', List.drop_left' hli28, List.append_nil]
  -- the metadata block
  have hflagM : hasFlag (tocMask s) kTocMetaData = s.hasMeta := Tdms.Proofs.Bytes.hasFlag_tocMask_meta s
  have hflagN : hasFlag (tocMask s) kTocNewObjList = s.newList := Tdms.Proofs.Bytes.hasFlag_tocMask_newList s
  let seg0 : Segment := ⟨pos, tocMask s, pos + k, pos + 28 + (segMeta s).length,
    b || decide (k < (encodeSeg s a).length), [], 0, none⟩
  have he : seg0.endian = s.endian := Tdms.Proofs.Bytes.segEndian_of_tocMask s
  have hparse : hasFlag seg0.toc kTocMetaData = true →
      (do let n ← uN seg0.endian 4; parseObjs seg0.endian n : P (List Item)) (file.drop (pos + 28)) =
        .ok (s.objs.map itemOf, List.replicate s.padding 0 ++ ((encRaw s a).take (k - dataPosOf s) ++ [])) := by
    intro hm
    have hm' : s.hasMeta = true := by rw [← hflagM]; exact hm
    rw [he, hdrop, segMeta_of_meta s hm', List.append_assoc]
    exact parseMeta_encMeta s.endian s.objs _ hok.fits.nObjs hok.objs hok.std.std hok.fits.objs
  have hseg := readSegmentObjects_eq seg0 st.segments.getLast? st.prevObjs hinv.keyed
    (file.drop (pos + 28)) _ (s.objs.map itemOf) hparse
  -- the object list
  have hdesc : (⟨hasFlag seg0.toc kTocMetaData, hasFlag seg0.toc kTocNewObjList,
      (s.objs.map itemOf).map fun it => (it.path, it.hdr)⟩ : SegDesc) = descOfSegRaw s := by
    show (⟨hasFlag (tocMask s) kTocMetaData, hasFlag (tocMask s) kTocNewObjList, _⟩ : SegDesc) = _
    rw [hflagM, hflagN, items_hdrs, hdrsOf_canon s.objs hok.std.canon]
    rfl
  have href := segObjects_refines hinv s hok.nodup hdiv
  rw [hL] at href
  obtain ⟨hsegobjs, hpostseg⟩ := href
  have hsegobjs' : segObjects (st.segments.getLast?.map (·.objects)) st.prevObjs (descOfSegRaw s) =
      .ok (a.map concObj) := hsegobjs
  -- the chunks
  have hcalc : calculateChunks { seg0 with objects := a.map concObj } = .ok (cutRec pos s b a k) := by
    have := calculateChunks_cutA pos s b a hok k hk1 hkL
    rw [hdp, ← Nat.add_assoc] at this
    exact this
  have hprops : (if hasFlag seg0.toc kTocMetaData then foldProps [] (s.objs.map itemOf) else []) = propsDict s := by
    show (if hasFlag (tocMask s) kTocMetaData then _ else _) = _
    rw [hflagM]
    by_cases hm : s.hasMeta = true
    · simp only [hm, if_true]
      rw [foldProps_items s.objs [] hok.nodup (fun _ _ x hx => by cases hx)]
      rfl
    · have hm' : s.hasMeta = false := by simpa using hm
      simp only [hm', Bool.false_eq_true, if_false]
      exact (propsDict_nil (hok.noMeta hm')).symm
  have hreadseg : readSegmentObjects seg0 st.segments.getLast? st.prevObjs (file.drop (pos + 28)) =
      .ok (cutRec pos s b a k, propsDict s) := by
    rw [hseg, hdesc, hsegobjs']
    simp only [bind, Except.bind]
    rw [hcalc, hprops]
    rfl
  -- object metadata
  have hfs := fileStep_post hinv hpostseg hpost.mono (cutRec pos s b a k) (propsDict s)
  have hnodaq := uom_noDaq (cutRec pos s b a k) (a.map concObj) st.prevObjs st.objects (by
    intro o ho
    obtain ⟨x, hx, rfl⟩ := List.mem_map.mp ho
    exact concObj_daq_none (hok.good x hx))
  cases hu : updateObjectMetadata (cutRec pos s b a k) (a.map concObj) st.prevObjs st.objects with
  | error err =>
    rw [show (mstateOf st).prevObjs = st.prevObjs from rfl, show (mstateOf st).metas = st.objects from rfl,
      hu] at hfs
    rw [hu] at hnodaq
    exact absurd hfs hnodaq
  | ok pm =>
    obtain ⟨prev', ms'⟩ := pm
    have hms' := uom_ok_fold _ _ _ _ _ _ hu
    have hty : ∀ oc ∈ c, last'.get oc.path = none → oc.ty = none := by
      intro oc hoc hl
      have hlast : last.get oc.path = none := by
        cases hg : last.get oc.path with
        | none => rfl
        | some d =>
          obtain ⟨d', hd', _⟩ := hpost.mono _ _ hg
          rw [hl] at hd'; cases hd'
      have ht := hinv.types oc.path
      rw [hlast] at ht
      have hfind : st.objects.find? (·.path = oc.path) = some (mOC (fun _ => 0) oc) := by
        rw [hobjs, List.find?_map]
        have := find_of_nodup hnodup hoc
        have hcomp : ((fun m : ObjMeta => decide (m.path = oc.path)) ∘ mOC fun _ => 0) =
            fun x : ObjContent => decide (x.path = oc.path) := by
          funext x; rfl
        rw [hcomp, this]
        rfl
      simpa [dtOf, ObjMetas.get, mstateOf, hfind, mOC] using ht
    have hmetas : updateObjectProperties ms' (propsDict s) =
        (denoteSeg c (takeChunks s (cutQA s a k)) a).map (mOC (exCut a s k)) := by
      rw [hms', hobjs]
      exact segment_metas_cut (cutRec pos s b a k) s a last' c (cutQA s a k) (exCut a s k)
        (cutQA_le s a hok k hk1 hkL) (cntG_cutRec pos s b a k) hpost.idx hok.good hty hpost.listed hok.noMeta
        hok.chunks
    refine ⟨prev', ?_⟩
    unfold loopStep
    rw [hlead]
    simp only []
    rw [hreadseg]
    simp only []
    rw [show (cutRec pos s b a k).objects = a.map concObj from rfl, hu]
    simp only [Bool.false_eq_true, if_false, hmetas]
    rfl

/-- **one iteration on a segment whose raw data are not reached** (the file ends `k < dataPosOf s` bytes into the
    segment): the loop ends; the version number is recorded when the 28 bytes of the lead-in are there -/
theorem loopStep_segment_dropped (file : Bytes) (pos : Nat) (s : SegEnc) (b : Bool) (a : List ActiveObj) (k : Nat)
    (hk1 : k < dataPosOf s) (hver : s.version < 2 ^ 31) (hm : (segMeta s).length < 2 ^ 63)
    (hr : (encRaw s a).length < 2 ^ 63)
    (hfile : file.drop pos = (encodeSeg (setU b s) a).take k) (hend : file.length = pos + k)
    (st : ReaderState) :
    loopStep file false (some file.length) pos pos st = .ok (.done
      (if k < 28 then st else
        { st with version := some (st.version.getD (s.version : Int)), versions := st.versions ++ [(s.version : Int)] })) := by
  have hsplit := encodeSeg_setU b s a
  have hli28 := encLeadIn_length tagData (setU b s) (segMeta s).length (encRaw s a).length rfl
  have hdp : dataPosOf s = 28 + (segMeta s).length := rfl
  by_cases h28 : k < 28
  · rw [if_pos h28]
    exact loopStep_past_end _ _ _ _ _ _ (by omega)
  · rw [if_neg h28]
    have hfile' : file.drop pos = encLeadIn tagData (setU b s) (segMeta s).length (encRaw s a).length ++
        ((segMeta s ++ encRaw s a).take (k - 28)) := by
      rw [hfile, hsplit, List.take_append, hli28, List.take_of_length_le (by rw [hli28]; omega)]
    have hlead : readLeadIn (file.drop pos) pos false (some file.length) = .ok none := by
      rw [hfile']
      have := Tdms.Proofs.C06Whole.readLeadIn_at (setU b s) hver (segMeta s).length
        (encRaw s a).length pos k file.length ((segMeta s ++ encRaw s a).take (k - 28))
        hm hr (by omega) (fun _ => hend) (fun h => by omega)
      rw [this, if_pos (by omega)]
    have hv : leadInVersion (file.drop pos) = some (s.version : Int) := by
      rw [hfile']
      exact Tdms.Proofs.C06Whole.leadInVersion_encLeadIn (setU b s) _ _ _ hver
    unfold loopStep
    rw [hlead]
    simp only [hv]

end Tdms.Proofs.C06Gen
