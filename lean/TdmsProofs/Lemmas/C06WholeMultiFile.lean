/-
  C06, whole-file truncation theorem for files of several self-describing segments: `readFile` (receivers,
  capacity check) and the values.  Core Lean only.
-/
import TdmsProofs.Lemmas.C06WholeMultiData

namespace Tdms.Proofs.C06Whole

open Tdms Tdms.Generated Tdms.Model Tdms.Proofs.Bytes Tdms.Proofs.C01Compose

/-! ## data objects of segments with the same signature -/

theorem dataOs_sig (os os' : List ObjEnc) (h : os'.map sigOf = os.map sigOf) :
    (dataOs os').map sigOf = (dataOs os).map sigOf := by
  have e : ∀ l : List ObjEnc, (dataOs l).map sigOf = (l.map sigOf).filter (fun x => x.2.isSome) := by
    intro l
    induction l with
    | nil => rfl
    | cons o l ih =>
      simp only [dataOs, List.filter_cons, List.map_cons] at ih ⊢
      rw [isFull_eq_tyOf]
      have : (sigOf o).2 = tyOf o := rfl
      rw [this]
      cases (tyOf o).isSome <;> simp [ih]
  rw [e, e, h]

theorem dataOs_paths_sig (os os' : List ObjEnc) (h : os'.map sigOf = os.map sigOf) :
    (dataOs os').map (·.path) = (dataOs os).map (·.path) :=
  sig_paths _ _ (dataOs_sig os os' h)

theorem chunkPairs_paths (ds ds' : List ObjEnc) (h : ds'.map (·.path) = ds.map (·.path)) (ch : List (List Bytes)) :
    chunkPairs ds' ch = chunkPairs ds ch := by
  unfold chunkPairs; rw [h]

theorem getElem_path_sig (ds ds' : List ObjEnc) (h : ds'.map (·.path) = ds.map (·.path)) (i : Nat)
    (hi : i < ds.length) : ∃ hi' : i < ds'.length, ds'[i].path = ds[i].path := by
  have hl : ds'.length = ds.length := by
    have := congrArg List.length h; simpa using this
  refine ⟨by omega, ?_⟩
  have h1 : (ds'.map (·.path))[i]'(by simp; omega) = (ds.map (·.path))[i]'(by simp; omega) := by
    simp only [h]
  simpa using h1

/-! ## receivers and capacities -/

theorem receivers_eq_mk (pf : Bytes → List PropVal) (nf : Bytes → Nat) (os : List ObjEnc)
    (hwf : ∀ o ∈ os, wfObj o = true) :
    ((os.map (mkMeta pf nf)).filter fun m => countComponents m.path = 2).filterMap newReceiver =
      rcvWith (rcvPaths os) (fun _ => []) := by
  rw [← receivers_eq 0 os hwf]
  induction os with
  | nil => rfl
  | cons o os ih =>
    have ih := ih (fun q hq => hwf q (List.mem_cons_of_mem _ hq))
    have hp : (mkMeta pf nf o).path = o.path := rfl
    have hp' : (metaOf 0 o).path = o.path := rfl
    have hr : newReceiver (mkMeta pf nf o) = newReceiver (metaOf 0 o) := by
      unfold newReceiver mkMeta metaOf
      rfl
    simp only [List.map_cons, List.filter_cons, hp, hp']
    by_cases hc : countComponents o.path = 2
    · simp only [hc, decide_true, if_true, List.filterMap_cons, hr]
      rw [ih]
    · simp only [hc, decide_false, Bool.false_eq_true, if_false]
      exact ih

theorem get_mkMeta (pf : Bytes → List PropVal) (nf : Bytes → Nat) (os : List ObjEnc) (o : ObjEnc) (ho : o ∈ os) :
    ((ObjMetas.get (os.map (mkMeta pf nf)) o.path).map (·.numValues)).getD 0 = nf o.path := by
  induction os with
  | nil => simp at ho
  | cons a as ih =>
    have hp : (mkMeta pf nf a).path = a.path := rfl
    by_cases h : a.path = o.path
    · simp [ObjMetas.get, mkMeta, h]
    · rcases List.mem_cons.mp ho with rfl | ho'
      · exact absurd rfl h
      · rw [← ih ho']
        simp only [ObjMetas.get, List.map_cons, List.find?_cons, hp, h, decide_false]

/-! ## the chunks of a file of several segments -/

/-- the chunks of one segment as value lists: the empty chunk npTDMS emits for a segment without the raw-data
    flag, then its chunks up to the cut -/
def segChunks (x : SegEnc) (k : Nat) : List (List (List Bytes)) :=
  (if !x.rawFlag then [[]] else []) ++ cutChunks x k

/-- all chunks of the file `s₀ :: mid` followed by `k` bytes of `s` -/
def multiChunks (s₀ : SegEnc) (mid : List SegEnc) (s : SegEnc) (k : Nat) : List (List (List Bytes)) :=
  (s₀ :: mid).flatMap (fun x => segChunks x (encLen x)) ++ (if dataPosOf s ≤ k then segChunks s k else [])

theorem cutRawChunks_sig (os₀ : List ObjEnc) (x : SegEnc) (w : WfSingle x) (hsig : x.objs.map sigOf = os₀.map sigOf)
    (k : Nat) :
    cutRawChunks x k = (segChunks x k).map fun ch => pairsChunk (chunkPairs (dataOs os₀) ch) := by
  rw [cutRawChunks_eq x w]
  unfold segChunks
  rw [List.map_append]
  congr 1
  · cases x.rawFlag <;> simp [pairsChunk, chunkPairs]
  · apply List.map_congr_left
    intro ch _
    rw [chunkPairs_paths (dataOs os₀) (dataOs x.objs) (dataOs_paths_sig os₀ x.objs hsig)]

theorem flatMap_congr' {α β : Type} (l : List α) (f g : α → List β) (h : ∀ x ∈ l, f x = g x) :
    l.flatMap f = l.flatMap g := by
  induction l with
  | nil => rfl
  | cons x xs ih =>
    rw [List.flatMap_cons, List.flatMap_cons, h x List.mem_cons_self,
      ih (fun y hy => h y (List.mem_cons_of_mem _ hy))]

theorem multiRawChunks_eq (s₀ : SegEnc) (mid : List SegEnc) (s : SegEnc) (H : MultiOK s₀ mid s) (k : Nat) :
    multiRawChunks s₀ mid s k =
      (multiChunks s₀ mid s k).map fun ch => pairsChunk (chunkPairs (dataOs s₀.objs) ch) := by
  unfold multiRawChunks multiChunks
  rw [List.map_append, List.map_flatMap]
  congr 1
  · apply flatMap_congr'
    intro x hx
    rcases List.mem_cons.mp hx with rfl | hx
    · exact cutRawChunks_sig _ _ H.first.wfSingle rfl _
    · exact cutRawChunks_sig _ x (H.mid x hx).1.std.wfSingle (H.mid x hx).1.sig _
  · split
    · exact cutRawChunks_sig _ s H.last.std.wfSingle H.last.sig k
    · rfl

/-! ## values of data object `i` over all segments -/

theorem segChunks_flatMap (x : SegEnc) (k i : Nat) :
    (segChunks x k).flatMap (·.getD i []) = cutVals x k i := by
  unfold segChunks cutVals
  rw [List.flatMap_append]
  cases x.rawFlag <;> simp

/-- the count recorded for the path of data object `i` is the number of its values in the segment -/
theorem seg_count (os₀ : List ObjEnc) (x : SegEnc) (h : CutStd x) (hsig : x.objs.map sigOf = os₀.map sigOf)
    (k : Nat) (hk : dataPosOf x ≤ k) (hkL : k ≤ encLen x) (i : Nat) (hi : i < (dataOs os₀).length) :
    atPath x.objs (cutNum x k) 0 (dataOs os₀)[i].path = (cutVals x k i).length := by
  have w := h.wfSingle
  obtain ⟨hi', hp⟩ := getElem_path_sig (dataOs os₀) (dataOs x.objs) (dataOs_paths_sig os₀ x.objs hsig) i hi
  obtain ⟨hmem, hfull⟩ := dataOs_sub (List.getElem_mem hi')
  rw [← hp, atPath_mem x.objs w.nodup _ _ _ hmem, cutVals_length x h.contiguous h.stdObjs w k hk hkL i hi']
  simp [cutNum, hfull]

theorem runNf_count (os₀ : List ObjEnc) (i : Nat) (hi : i < (dataOs os₀).length) :
    ∀ (ss : List SegEnc) (nf : Bytes → Nat),
      (∀ x ∈ ss, CutStd x ∧ x.objs.map sigOf = os₀.map sigOf) →
      runNf ss nf (dataOs os₀)[i].path =
        nf (dataOs os₀)[i].path + ((ss.flatMap fun x => segChunks x (encLen x)).flatMap (·.getD i [])).length := by
  intro ss
  induction ss with
  | nil => intro nf _; simp [runNf]
  | cons x ss ih =>
    intro nf hall
    obtain ⟨hx, hsig⟩ := hall x List.mem_cons_self
    have w := hx.wfSingle
    have hLd : dataPosOf x ≤ encLen x := by
      unfold encLen; rw [file_length x w hx.contiguous]; omega
    show runNf ss (stepNf x (encLen x) nf) _ = _
    rw [ih _ (fun y hy => hall y (List.mem_cons_of_mem _ hy))]
    unfold stepNf
    rw [seg_count os₀ x hx hsig (encLen x) hLd (Nat.le_refl _) i hi, List.flatMap_cons, List.flatMap_append,
      List.length_append, segChunks_flatMap]
    omega

/-! ## `readFile` -/

/-- value counts per path for the file `s₀ :: mid` followed by `k` bytes of `s` -/
def multiNf (s₀ : SegEnc) (mid : List SegEnc) (s : SegEnc) (k : Nat) : Bytes → Nat :=
  if dataPosOf s ≤ k then stepNf s k (runNf (s₀ :: mid) fun _ => 0) else runNf (s₀ :: mid) fun _ => 0

/-- properties per path -/
def multiPf (s₀ : SegEnc) (mid : List SegEnc) (s : SegEnc) (k : Nat) : Bytes → List PropVal :=
  if dataPosOf s ≤ k then stepPf s (runPf (s₀ :: mid) fun _ => []) else runPf (s₀ :: mid) fun _ => []

theorem multiState_objects (s₀ : SegEnc) (mid : List SegEnc) (s : SegEnc) (k : Nat) (prev : PrevObjs) :
    (multiState s₀ mid s k prev).objects = s₀.objs.map (mkMeta (multiPf s₀ mid s k) (multiNf s₀ mid s k)) := by
  unfold multiState multiPf multiNf
  split <;> rfl

/-- values of data object `i` of the file `s₀ :: mid` followed by `k` bytes of `s`: all its values in the complete
    segments, then its values in the cut segment -/
theorem multiChunks_flatMap (s₀ : SegEnc) (mid : List SegEnc) (s : SegEnc) (k i : Nat) :
    (multiChunks s₀ mid s k).flatMap (·.getD i []) =
      (s₀ :: mid).flatMap (fun x => cutVals x (encLen x) i) ++ (if dataPosOf s ≤ k then cutVals s k i else []) := by
  unfold multiChunks
  rw [List.flatMap_append, List.flatMap_assoc]
  congr 1
  · exact flatMap_congr' _ _ _ (fun x _ => segChunks_flatMap x _ i)
  · split
    · exact segChunks_flatMap s k i
    · rfl

theorem multi_count (s₀ : SegEnc) (mid : List SegEnc) (s : SegEnc) (H : MultiOK s₀ mid s) (k : Nat)
    (hk : k ≤ encLen s) (i : Nat) (hi : i < (dataOs s₀.objs).length) :
    multiNf s₀ mid s k (dataOs s₀.objs)[i].path = ((multiChunks s₀ mid s k).flatMap (·.getD i [])).length := by
  have hall : ∀ x ∈ s₀ :: mid, CutStd x ∧ x.objs.map sigOf = s₀.objs.map sigOf := by
    intro x hx
    rcases List.mem_cons.mp hx with rfl | hx
    · exact ⟨H.first, rfl⟩
    · exact ⟨(H.mid x hx).1.std, (H.mid x hx).1.sig⟩
  have hA := runNf_count s₀.objs i hi (s₀ :: mid) (fun _ => 0) hall
  unfold multiNf multiChunks
  rw [List.flatMap_append, List.length_append]
  by_cases hkd : dataPosOf s ≤ k
  · simp only [hkd, if_true]
    unfold stepNf
    rw [hA, seg_count s₀.objs s H.last.std H.last.sig k hkd hk i hi, segChunks_flatMap]
    omega
  · simp only [hkd, if_false]
    rw [hA]
    simp

/-- the channel data of the file `s₀ :: mid` followed by `k` bytes of `s` -/
def multiChannels (s₀ : SegEnc) (mid : List SegEnc) (s : SegEnc) (k : Nat) : List ChannelData :=
  rcvWith (rcvPaths s₀.objs) (valsAfter (dataOs s₀.objs) (fun _ => []) (multiChunks s₀ mid s k))

/-- **what `TdmsFile.read` returns for complete segments followed by a cut (or complete) one** -/
theorem readFile_multi (s₀ : SegEnc) (mid : List SegEnc) (s : SegEnc) (H : MultiOK s₀ mid s)
    (hch : onlyChannelsHaveData s₀) (k : Nat) (hk : k ≤ encLen s) :
    ∃ prev, readFile (encAll (s₀ :: mid) ++ (encodeSeg s (s.objs.map actOf)).take k) =
      .ok ⟨multiState s₀ mid s k prev, multiChannels s₀ mid s k⟩ := by
  have w₀ := H.first.wfSingle
  obtain ⟨prev, hmeta⟩ := readMetadata_multi s₀ mid s H k hk
  obtain ⟨fs, hdata⟩ := readRawDataAll_multi s₀ mid s H k hk prev {}
  refine ⟨prev, readFile_of_parts _ _ (multiRawChunks s₀ mid s k) fs _ hmeta hdata ?_⟩
  rw [multiState_objects, receivers_eq_mk _ _ _ w₀.objs, multiRawChunks_eq s₀ mid s H k]
  apply foldl_fileStep_gen (multiState s₀ mid s k prev) (rcvPaths s₀.objs) (dataOs s₀.objs)
    (fun d hd => mem_rcvPaths_of_data s₀ hch d hd)
  intro p hp
  obtain ⟨i, hi, rfl⟩ := rcvPaths_sub_data s₀ p hp
  obtain ⟨hmem, _⟩ := dataOs_sub (List.getElem_mem hi)
  rw [multiState_objects, get_mkMeta _ _ _ _ hmem, valsAfter_at' _ (dataOs_nodup s₀.objs w₀.nodup) i hi,
    multi_count s₀ mid s H k hk i hi]
  simp

/-! ## the spec side: active lists and bytes of a file of several self-describing segments -/

/-- every index the spec remembers belongs to the signature -/
def LastInv (last : LastIdx) (sigs : List (Bytes × Option Nat)) : Prop :=
  ∀ p d, last.get p = some d → (p, some d.ty) ∈ sigs

theorem sig_unique (os₀ : List ObjEnc) (hnd : (os₀.map (·.path)).Nodup) (p : Bytes) (a b : Option Nat)
    (ha : (p, a) ∈ os₀.map sigOf) (hb : (p, b) ∈ os₀.map sigOf) : a = b := by
  obtain ⟨o1, h1, e1⟩ := List.mem_map.mp ha
  obtain ⟨o2, h2, e2⟩ := List.mem_map.mp hb
  have hp1 : o1.path = p := congrArg Prod.fst e1
  have hp2 : o2.path = p := congrArg Prod.fst e2
  have : o1 = o2 := eq_of_nodup_map_path os₀ hnd h1 h2 (by rw [hp1, hp2])
  subst this
  have t1 : tyOf o1 = a := congrArg Prod.snd e1
  have t2 : tyOf o1 = b := congrArg Prod.snd e2
  rw [← t1, ← t2]

theorem lastGet_set (last : LastIdx) (p q : Bytes) (d : IdxDesc) :
    (last.set p d).get q = if q = p then some d else last.get q :=
  Tdms.Proofs.C02.LastIdx.get_set last p q d

theorem resolveObjs_sig (os₀ : List ObjEnc) (hnd₀ : (os₀.map (·.path)).Nodup) (objs : List ObjEnc) :
    ∀ (last : LastIdx) (act : List ActiveObj), (∀ o ∈ objs, stdIdx o) →
      (objs.map (·.path)).Nodup → (∀ o ∈ objs, sigOf o ∈ os₀.map sigOf) → LastInv last (os₀.map sigOf) →
      (∀ o ∈ objs, ∀ a ∈ act, a.path ≠ o.path) →
      ∃ last', resolveObjs last act objs = .ok (act ++ objs.map actOf, last') ∧ LastInv last' (os₀.map sigOf) := by
  induction objs with
  | nil => intro last act _ _ _ hinv _; exact ⟨last, by simp [resolveObjs], hinv⟩
  | cons o os ih =>
    intro last act hstd hnd hsig hinv hact
    simp only [List.map_cons, List.nodup_cons, List.mem_map, not_exists, not_and] at hnd
    obtain ⟨hno, hnd'⟩ := hnd
    have hany : act.any (fun a => decide (a.path = o.path)) = false := by
      simp only [List.any_eq_false, decide_eq_true_eq]
      exact fun a ha => hact o List.mem_cons_self a ha
    have hact' : ∀ q ∈ os, ∀ a ∈ act ++ [actOf o], a.path ≠ q.path := by
      intro q hq a ha
      rcases List.mem_append.mp ha with ha | ha
      · exact hact q (List.mem_cons_of_mem _ hq) a ha
      · simp only [List.mem_singleton] at ha
        subst ha
        rw [actOf_path]
        exact fun h => hno q hq h.symm
    have hso := hsig o List.mem_cons_self
    have hp : placeObj act (actOf o) = act ++ [actOf o] := by
      simp [placeObj, actOf_path, hany]
    rcases hstd o List.mem_cons_self with h | ⟨ty, n, total, h⟩
    · have hty : tyOf o = none := by
        obtain ⟨p, idx, ps⟩ := o; simp only at h; subst h; rfl
      have hl0 : last.get o.path = none := by
        cases hg : last.get o.path with
        | none => rfl
        | some d =>
          have := sig_unique os₀ hnd₀ o.path _ _ hso (hinv o.path d hg)
          simp [hty] at this
      have hres : resolveObj last o = .ok (actOf o, last) := by
        simp [resolveObj, actOf, h, hl0]
      obtain ⟨last', hr, hinv'⟩ := ih last (act ++ [actOf o])
        (fun q hq => hstd q (List.mem_cons_of_mem _ hq)) hnd'
        (fun q hq => hsig q (List.mem_cons_of_mem _ hq)) hinv hact'
      refine ⟨last', ?_, hinv'⟩
      simp only [resolveObjs, hres, hp, hr, List.map_cons, List.append_assoc, List.singleton_append]
    · have hty : tyOf o = some ty := by
        obtain ⟨p, idx, ps⟩ := o; simp only at h; subst h; rfl
      have hres : resolveObj last o = .ok (actOf o, last.set o.path (.std ty n total)) := by
        cases hg : last.get o.path with
        | none => simp [resolveObj, actOf, h, hg]
        | some d =>
          have := sig_unique os₀ hnd₀ o.path _ _ hso (hinv o.path d hg)
          simp only [hty, Option.some.injEq] at this
          simp [resolveObj, actOf, h, hg, this]
      have hinv1 : LastInv (last.set o.path (.std ty n total)) (os₀.map sigOf) := by
        intro p d hg
        rw [lastGet_set] at hg
        by_cases hpe : p = o.path
        · rw [if_pos hpe] at hg
          injection hg with hg
          subst hg
          rw [hpe]
          have : sigOf o = (o.path, some (IdxDesc.std ty n total).ty) := by simp [sigOf, hty, IdxDesc.ty]
          rw [← this]
          exact hso
        · rw [if_neg hpe] at hg
          exact hinv p d hg
      obtain ⟨last', hr, hinv'⟩ := ih (last.set o.path (.std ty n total)) (act ++ [actOf o])
        (fun q hq => hstd q (List.mem_cons_of_mem _ hq)) hnd'
        (fun q hq => hsig q (List.mem_cons_of_mem _ hq)) hinv1 hact'
      refine ⟨last', ?_, hinv'⟩
      simp only [resolveObjs, hres, hp, hr, List.map_cons, List.append_assoc, List.singleton_append]

theorem mem_sig_of_eq (os os₀ : List ObjEnc) (h : os.map sigOf = os₀.map sigOf) :
    ∀ o ∈ os, sigOf o ∈ os₀.map sigOf := by
  intro o ho
  rw [← h]
  exact List.mem_map.mpr ⟨o, ho, rfl⟩

theorem activeLists_later (os₀ : List ObjEnc) (hnd₀ : (os₀.map (·.path)).Nodup) :
    ∀ (ss : List SegEnc) (prev : Option (List ActiveObj)) (last : LastIdx),
      (∀ x ∈ ss, CutStd x ∧ x.newList = true ∧ x.objs.map sigOf = os₀.map sigOf) → LastInv last (os₀.map sigOf) →
      activeLists prev last ss = .ok (ss.map fun x => x.objs.map actOf) := by
  intro ss
  induction ss with
  | nil => intro prev last _ _; rfl
  | cons x ss ih =>
    intro prev last hall hinv
    obtain ⟨hxs, hxn, hxsig⟩ := hall x List.mem_cons_self
    have w := hxs.wfSingle
    obtain ⟨last', hr, hinv'⟩ := resolveObjs_sig os₀ hnd₀ x.objs last [] hxs.stdObjs w.nodup
      (mem_sig_of_eq _ _ hxsig) hinv (fun _ _ a ha => by simp at ha)
    have hact : activeOfSeg prev last x = .ok (x.objs.map actOf, last') := by
      simp only [activeOfSeg, hxs.hasMeta, Bool.not_true, Bool.false_eq_true, if_false, hxn, if_true]
      rw [hr]; simp
    simp only [activeLists, hact, ih (some (x.objs.map actOf)) last' (fun y hy => hall y (List.mem_cons_of_mem _ hy)) hinv',
      List.map_cons]

theorem zipEncode_eq_encAll (ss : List SegEnc) :
    zipEncode encodeSeg ss (ss.map fun x => x.objs.map actOf) = encAll ss := by
  induction ss with
  | nil => rfl
  | cons x ss ih => simp only [List.map_cons, zipEncode, ih, encAll_cons]

/-- **the bytes of a file of self-describing segments with one signature** -/
theorem encodeFile_multi (s₀ : SegEnc) (rest : List SegEnc) (h₀ : CutStd s₀)
    (hrest : ∀ x ∈ rest, CutStd x ∧ x.newList = true ∧ x.objs.map sigOf = s₀.objs.map sigOf) :
    encodeFile (s₀ :: rest) = .ok (encAll (s₀ :: rest)) := by
  have w₀ := h₀.wfSingle
  obtain ⟨last', hr, hinv'⟩ := resolveObjs_sig s₀.objs w₀.nodup s₀.objs [] [] h₀.stdObjs w₀.nodup
    (fun o ho => List.mem_map.mpr ⟨o, ho, rfl⟩) (fun p d hg => by simp [LastIdx.get] at hg)
    (fun _ _ a ha => by simp at ha)
  have hact : activeOfSeg none [] s₀ = .ok (s₀.objs.map actOf, last') := by
    simp only [activeOfSeg, h₀.hasMeta, Bool.not_true, Bool.false_eq_true, if_false]
    have hb : (if s₀.newList = true then ([] : List ActiveObj) else (none : Option (List ActiveObj)).getD []) = [] := by
      cases s₀.newList <;> rfl
    rw [hb, hr]; simp
  have hacts : activeLists none [] (s₀ :: rest) = .ok ((s₀ :: rest).map fun x => x.objs.map actOf) := by
    simp only [activeLists, hact, activeLists_later s₀.objs w₀.nodup rest _ last' hrest hinv', List.map_cons]
  unfold encodeFile
  rw [hacts]
  simp only [zipEncode_eq_encAll]

/-! ## the class of multi-segment files, and cutting its bytes -/

/-- **the class of files of several segments covered**: every segment is, on its own, in the one-segment class
    (`CutStd`, `SegFits`); the segments after the first start a new object list and list objects with the signature
    (paths in order, data types; hence also the same split into objects with and without data) of the first
    segment; only the last segment may carry the length-unknown marker; only channels have data -/
structure MultiStd (s₀ : SegEnc) (rest : List SegEnc) : Prop where
  first : CutStd s₀
  firstFits : SegFits s₀
  channels : onlyChannelsHaveData s₀
  later : ∀ x ∈ rest, CutStd x ∧ SegFits x ∧ x.newList = true ∧ x.objs.map sigOf = s₀.objs.map sigOf
  known : ∀ x ∈ (s₀ :: rest).dropLast, x.lengthUnknown = false

theorem encAll_append (as bs : List SegEnc) : encAll (as ++ bs) = encAll as ++ encAll bs := by
  unfold encAll; rw [List.flatMap_append]

theorem encLen_le_encAll (ss : List SegEnc) (x : SegEnc) (hx : x ∈ ss) : encLen x ≤ (encAll ss).length := by
  induction ss with
  | nil => simp at hx
  | cons a as ih =>
    rw [encAll_length_cons]
    rcases List.mem_cons.mp hx with rfl | h
    · omega
    · have := ih h; omega

theorem mem_dropLast_of_append_cons {α : Type} (pre : List α) (x : α) (post : List α) (y : α) (hy : y ∈ pre) :
    y ∈ (pre ++ x :: post).dropLast := by
  induction pre with
  | nil => simp at hy
  | cons a as ih =>
    cases as with
    | nil =>
      have : y = a := by simpa using hy
      subst this
      simp
    | cons b bs =>
      rcases List.mem_cons.mp hy with rfl | h
      · simp
      · have := ih h
        simp only [List.cons_append, List.dropLast_cons_cons, List.mem_cons] at this ⊢
        exact Or.inr this

theorem multiOK_of_multiStd (s₀ : SegEnc) (mid : List SegEnc) (s : SegEnc) (post : List SegEnc)
    (H : MultiStd s₀ (mid ++ s :: post)) (hlen : (encAll (s₀ :: mid ++ s :: post)).length < 2 ^ 63) :
    MultiOK s₀ mid s := by
  have hle : ∀ x ∈ s₀ :: mid ++ s :: post, encLen x < 2 ^ 63 := fun x hx =>
    Nat.lt_of_le_of_lt (encLen_le_encAll _ x hx) hlen
  have hlater : ∀ x ∈ mid ++ s :: post, LaterOK s₀.objs x := by
    intro x hx
    obtain ⟨h1, h2, h3, h4⟩ := H.later x hx
    exact ⟨h1, h2, h3, h4, hle x (by simp at hx ⊢; exact Or.inr hx)⟩
  refine ⟨H.first, H.firstFits, ?_, hle s₀ (by simp), ?_, hlater s (by simp)⟩
  · exact H.known s₀ (mem_dropLast_of_append_cons (s₀ :: mid) s post s₀ (by simp))
  · intro x hx
    refine ⟨hlater x (by simp [hx]), ?_⟩
    exact H.known x (mem_dropLast_of_append_cons (s₀ :: mid) s post x (by simp [hx]))

/-- cutting the bytes of the file inside (or at the end of) segment `s` -/
theorem take_encAll (pre : List SegEnc) (s : SegEnc) (post : List SegEnc) (k : Nat) (hk : k ≤ encLen s) :
    (encAll (pre ++ s :: post)).take ((encAll pre).length + k) =
      encAll pre ++ (encodeSeg s (s.objs.map actOf)).take k := by
  rw [encAll_append, encAll_cons, List.take_length_add_append, List.take_append_of_le_length hk]

/-- every cut offset beyond nothing lies inside (or at the end of) some segment -/
theorem cut_decompose : ∀ (rest : List SegEnc) (K : Nat), rest ≠ [] → K ≤ (encAll rest).length →
    ∃ mid s post k, rest = mid ++ s :: post ∧ K = (encAll mid).length + k ∧ k ≤ encLen s := by
  intro rest
  induction rest with
  | nil => intro K h _; exact absurd rfl h
  | cons x xs ih =>
    intro K _ hK
    by_cases hle : K ≤ encLen x
    · exact ⟨[], x, xs, K, rfl, by simp [encAll], hle⟩
    · rw [encAll_length_cons] at hK
      have hne : xs ≠ [] := by
        intro h; subst h; simp [encAll] at hK; omega
      obtain ⟨mid, s, post, k, h1, h2, h3⟩ := ih (K - encLen x) hne (by omega)
      refine ⟨x :: mid, s, post, k, by rw [h1]; rfl, ?_, h3⟩
      rw [encAll_length_cons]; omega

/-! ## facts for the headline theorems -/

/-- values of data object `i` in complete segments -/
def fullValsOf (ss : List SegEnc) (i : Nat) : List Bytes := ss.flatMap fun x => fullVals x i

theorem cutVals_at_end (x : SegEnc) (hi : x.interleaved = false) (w : WfSingle x) (i : Nat) :
    cutVals x (encLen x) i = fullVals x i := by
  unfold cutVals fullVals encLen
  rw [cutChunks_at_end x hi w]

theorem multiChunks_vals (s₀ : SegEnc) (mid : List SegEnc) (s : SegEnc) (H : MultiOK s₀ mid s) (k i : Nat) :
    (multiChunks s₀ mid s k).flatMap (·.getD i []) =
      fullValsOf (s₀ :: mid) i ++ (if dataPosOf s ≤ k then cutVals s k i else []) := by
  rw [multiChunks_flatMap]
  congr 1
  unfold fullValsOf
  apply flatMap_congr'
  intro x hx
  rcases List.mem_cons.mp hx with rfl | hx
  · exact cutVals_at_end _ H.first.contiguous H.first.wfSingle i
  · exact cutVals_at_end x (H.mid x hx).1.std.contiguous (H.mid x hx).1.std.wfSingle i

theorem atPath_nodata (os₀ : List ObjEnc) (hnd₀ : (os₀.map (·.path)).Nodup) (x : SegEnc)
    (hsig : x.objs.map sigOf = os₀.map sigOf) (k : Nat) (o : ObjEnc) (ho : o ∈ os₀) (hf : isFull o = false) :
    atPath x.objs (cutNum x k) 0 o.path = 0 := by
  unfold atPath
  cases hfind : x.objs.find? (·.path = o.path) with
  | none => rfl
  | some o' =>
    have hmem := List.mem_of_find?_eq_some hfind
    have hp : o'.path = o.path := by
      have := List.find?_some hfind; simpa using this
    have h1 : (o.path, tyOf o') ∈ os₀.map sigOf := by
      rw [← hsig, ← hp]; exact List.mem_map.mpr ⟨o', hmem, rfl⟩
    have h2 : (o.path, tyOf o) ∈ os₀.map sigOf := List.mem_map.mpr ⟨o, ho, rfl⟩
    have := sig_unique os₀ hnd₀ o.path _ _ h1 h2
    have hf' : isFull o' = false := by rw [isFull_eq_tyOf, this, ← isFull_eq_tyOf, hf]
    simp [cutNum, hf']

theorem runNf_nodata (os₀ : List ObjEnc) (hnd₀ : (os₀.map (·.path)).Nodup) (o : ObjEnc) (ho : o ∈ os₀)
    (hf : isFull o = false) :
    ∀ (ss : List SegEnc) (nf : Bytes → Nat), (∀ x ∈ ss, x.objs.map sigOf = os₀.map sigOf) →
      runNf ss nf o.path = nf o.path := by
  intro ss
  induction ss with
  | nil => intro nf _; rfl
  | cons x ss ih =>
    intro nf hall
    show runNf ss (stepNf x (encLen x) nf) o.path = _
    rw [ih _ (fun y hy => hall y (List.mem_cons_of_mem _ hy))]
    unfold stepNf
    rw [atPath_nodata os₀ hnd₀ x (hall x List.mem_cons_self) _ o ho hf]
    rfl

theorem multiNf_nodata (s₀ : SegEnc) (mid : List SegEnc) (s : SegEnc) (H : MultiOK s₀ mid s) (k : Nat)
    (o : ObjEnc) (ho : o ∈ s₀.objs) (hf : isFull o = false) : multiNf s₀ mid s k o.path = 0 := by
  have hnd₀ := H.first.wfSingle.nodup
  have hall : ∀ x ∈ s₀ :: mid, x.objs.map sigOf = s₀.objs.map sigOf := by
    intro x hx
    rcases List.mem_cons.mp hx with rfl | hx
    · rfl
    · exact (H.mid x hx).1.sig
  have hA := runNf_nodata s₀.objs hnd₀ o ho hf (s₀ :: mid) (fun _ => 0) hall
  unfold multiNf
  split
  · unfold stepNf
    rw [hA, atPath_nodata s₀.objs hnd₀ s H.last.sig k o ho hf]
  · exact hA

theorem multiState_segments (s₀ : SegEnc) (mid : List SegEnc) (s : SegEnc) (k : Nat) (prev : PrevObjs) :
    (multiState s₀ mid s k prev).segments =
      runSegs 0 (s₀ :: mid) ++ (if dataPosOf s ≤ k then [cutSegAt s (encAll (s₀ :: mid)).length k] else []) := by
  unfold multiState
  split <;> simp [stAfter]

/-! ## the values at an arbitrary cut offset, and their monotonicity -/

/-- values of data object `i` when the bytes of the segments `ss` are cut after `K` bytes: the segments lying
    wholly before the cut in full, the segment containing the cut up to the cut (nothing when its raw data are not
    reached) -/
def valsAt : List SegEnc → Nat → Nat → List Bytes
  | [], _, _ => []
  | x :: xs, K, i =>
    if K ≤ encLen x then (if dataPosOf x ≤ K then cutVals x K i else [])
    else fullVals x i ++ valsAt xs (K - encLen x) i

theorem fullValsOf_cons (x : SegEnc) (xs : List SegEnc) (i : Nat) :
    fullValsOf (x :: xs) i = fullVals x i ++ fullValsOf xs i := rfl

theorem valsAt_decomp (i : Nat) : ∀ (pre : List SegEnc) (s : SegEnc) (post : List SegEnc) (k : Nat),
    (∀ x ∈ pre, x.interleaved = false ∧ WfSingle x) → k ≤ encLen s →
    valsAt (pre ++ s :: post) ((encAll pre).length + k) i =
      fullValsOf pre i ++ (if dataPosOf s ≤ k then cutVals s k i else []) := by
  intro pre
  induction pre with
  | nil => intro s post k _ hk; simp [valsAt, encAll, fullValsOf, hk]
  | cons x pre ih =>
    intro s post k hall hk
    obtain ⟨hxi, hxw⟩ := hall x List.mem_cons_self
    rw [encAll_length_cons, fullValsOf_cons]
    show valsAt (x :: (pre ++ s :: post)) _ i = _
    unfold valsAt
    by_cases hle : encLen x + (encAll pre).length + k ≤ encLen x
    · have hk0 : k = 0 := by omega
      have hpre : pre = [] := by
        cases pre with
        | nil => rfl
        | cons y ys =>
          rw [encAll_length_cons] at hle
          have := encLen_ge y; omega
      subst hpre hk0
      have hLd : dataPosOf x ≤ encLen x := by
        unfold encLen; rw [file_length x hxw hxi]; omega
      have hds : ¬ dataPosOf s ≤ 0 := by unfold dataPosOf; omega
      simp only [encAll, List.flatMap_nil, List.length_nil, Nat.add_zero, Nat.le_refl, if_true, hLd, hds, if_false,
        fullValsOf, List.append_nil]
      exact cutVals_at_end x hxi hxw i
    · rw [if_neg hle]
      have e : encLen x + (encAll pre).length + k - encLen x = (encAll pre).length + k := by omega
      rw [e, ih s post k (fun y hy => hall y (List.mem_cons_of_mem _ hy)) hk, List.append_assoc]

theorem valsAt_mono (i : Nat) : ∀ (ss : List SegEnc) (K K' : Nat),
    (∀ x ∈ ss, CutStd x ∧ i < (dataOs x.objs).length) → K ≤ K' → K' ≤ (encAll ss).length →
    valsAt ss K i <+: valsAt ss K' i := by
  intro ss
  induction ss with
  | nil => intro K K' _ _ _; exact List.prefix_refl _
  | cons x xs ih =>
    intro K K' hall hKK hK'
    obtain ⟨hx, hi⟩ := hall x List.mem_cons_self
    have w := hx.wfSingle
    rw [encAll_length_cons] at hK'
    unfold valsAt
    by_cases h1 : K' ≤ encLen x
    · have h0 : K ≤ encLen x := by omega
      rw [if_pos h1, if_pos h0]
      by_cases hd : dataPosOf x ≤ K
      · have hd' : dataPosOf x ≤ K' := by omega
        rw [if_pos hd, if_pos hd']
        exact cutVals_mono x hx.contiguous hx.stdObjs w K K' hd hKK h1 i hi
      · rw [if_neg hd]; exact List.nil_prefix
    · rw [if_neg h1]
      by_cases h0 : K ≤ encLen x
      · rw [if_pos h0]
        refine List.IsPrefix.trans ?_ (List.prefix_append _ _)
        by_cases hd : dataPosOf x ≤ K
        · rw [if_pos hd]
          exact cutVals_prefix x hx.contiguous w K hd h0 i hi
        · rw [if_neg hd]; exact List.nil_prefix
      · rw [if_neg h0, List.prefix_append_right_inj]
        exact ih (K - encLen x) (K' - encLen x) (fun y hy => hall y (List.mem_cons_of_mem _ hy)) (by omega) (by omega)

theorem valsAt_end (i : Nat) : ∀ (ss : List SegEnc), (∀ x ∈ ss, x.interleaved = false ∧ WfSingle x) → ss ≠ [] →
    valsAt ss (encAll ss).length i = fullValsOf ss i := by
  intro ss hall hne
  obtain ⟨pre, l, rfl⟩ : ∃ pre l, ss = pre ++ [l] := by
    rcases List.eq_nil_or_concat ss with h | ⟨pre, l, h⟩
    · exact absurd h hne
    · exact ⟨pre, l, by simpa using h⟩
  have hl := hall l (by simp)
  have hLd : dataPosOf l ≤ encLen l := by
    unfold encLen; rw [file_length l hl.2 hl.1]; omega
  have := valsAt_decomp i pre l [] (encLen l) (fun x hx => hall x (by simp [hx])) (Nat.le_refl _)
  rw [encAll_append, List.length_append]
  have e : (encAll [l]).length = encLen l := by simp [encAll, encLen]
  rw [e, this, if_pos hLd, cutVals_at_end l hl.1 hl.2]
  unfold fullValsOf
  simp

/-! ## reading the file cut at an arbitrary offset -/

theorem multiStd_each (s₀ : SegEnc) (rest : List SegEnc) (H : MultiStd s₀ rest) :
    ∀ x ∈ s₀ :: rest, CutStd x ∧ x.objs.map sigOf = s₀.objs.map sigOf := by
  intro x hx
  rcases List.mem_cons.mp hx with rfl | hx
  · exact ⟨H.first, rfl⟩
  · exact ⟨(H.later x hx).1, (H.later x hx).2.2.2⟩

theorem dataOs_length_sig (os os' : List ObjEnc) (h : os'.map sigOf = os.map sigOf) :
    (dataOs os').length = (dataOs os).length := by
  have := congrArg List.length (dataOs_sig os os' h)
  simpa using this

/-- **what `TdmsFile.read` returns for the file cut after `K` bytes, any `K`** -/
theorem readFile_at (s₀ : SegEnc) (rest : List SegEnc) (H : MultiStd s₀ rest)
    (hlen : (encAll (s₀ :: rest)).length < 2 ^ 63) (K : Nat) (hK : K ≤ (encAll (s₀ :: rest)).length) :
    ∃ r', readFile ((encAll (s₀ :: rest)).take K) = .ok r' ∧
      (∀ (i : Nat) (hi : i < (dataOs s₀.objs).length),
        valuesIn r'.channels (dataOs s₀.objs)[i].path = valsAt (s₀ :: rest) K i) ∧
      (∀ p, p ∉ (dataOs s₀.objs).map (·.path) → valuesIn r'.channels p = []) ∧
      (∀ m ∈ r'.state.objects, m.numValues = (valuesIn r'.channels m.path).length) := by
  have w₀ := H.first.wfSingle
  have heach := multiStd_each s₀ rest H
  obtain ⟨mid', s, post, k, hsplit, hKk, hk⟩ := cut_decompose (s₀ :: rest) K (by simp) hK
  cases mid' with
  | nil =>
    -- the cut is inside (or at the end of) the first segment
    simp only [List.nil_append, List.cons.injEq] at hsplit
    obtain ⟨rfl, rfl⟩ := hsplit
    simp only [encAll, List.flatMap_nil, List.length_nil, Nat.zero_add] at hKk
    subst hKk
    have htake : (encAll (s₀ :: rest)).take K = (encodeSeg s₀ (s₀.objs.map actOf)).take K := by
      rw [encAll_cons, List.take_append_of_le_length hk]
    have hlen₀ : (encodeSeg s₀ (s₀.objs.map actOf)).length < 2 ^ 63 :=
      Nat.lt_of_le_of_lt (encLen_le_encAll _ s₀ (by simp)) hlen
    rw [htake]
    have hva : ∀ i, valsAt (s₀ :: rest) K i = if dataPosOf s₀ ≤ K then cutVals s₀ K i else [] := by
      intro i; simp [valsAt, hk]
    by_cases hd : K < dataPosOf s₀
    · refine ⟨_, readFile_dropped s₀ H.first hlen₀ K hd, ?_, fun p _ => rfl, ?_⟩
      · intro i hi
        rw [hva, if_neg (by omega)]
        rfl
      · intro m hm
        have hobjs : (droppedState s₀ K).objects = [] := by unfold droppedState; split <;> rfl
        simp only [hobjs] at hm
        cases hm
    · have hd' : dataPosOf s₀ ≤ K := by omega
      obtain ⟨prev, hcut⟩ := readFile_cut s₀ H.first H.firstFits H.channels hlen₀ K hd' hk
      refine ⟨_, hcut, ?_, ?_, cutState_numValues s₀ H.first H.channels K hd' hk _ prev⟩
      · intro i hi
        rw [hva, if_pos hd']
        show valuesIn (cutChannels s₀ K) _ = _
        unfold cutChannels
        rw [valuesIn_rcv_data s₀ H.channels w₀ _ i hi]
        rfl
      · intro p hp
        show valuesIn (cutChannels s₀ K) p = []
        unfold cutChannels
        exact valuesIn_rcv_other s₀ _ p hp
  | cons a mid =>
    simp only [List.cons_append, List.cons.injEq] at hsplit
    obtain ⟨rfl, rfl⟩ := hsplit
    have HOK := multiOK_of_multiStd s₀ mid s post H hlen
    obtain ⟨prev, hread⟩ := readFile_multi s₀ mid s HOK H.channels k hk
    have htake : (encAll (s₀ :: (mid ++ s :: post))).take K =
        encAll (s₀ :: mid) ++ (encodeSeg s (s.objs.map actOf)).take k := by
      rw [hKk]
      exact take_encAll (s₀ :: mid) s post k hk
    rw [htake]
    have hwf : ∀ x ∈ s₀ :: mid, x.interleaved = false ∧ WfSingle x := by
      intro x hx
      have := heach x (by simp at hx ⊢; rcases hx with h | h <;> simp [h])
      exact ⟨this.1.contiguous, this.1.wfSingle⟩
    have hva : ∀ i, valsAt (s₀ :: (mid ++ s :: post)) K i =
        fullValsOf (s₀ :: mid) i ++ (if dataPosOf s ≤ k then cutVals s k i else []) := by
      intro i
      rw [hKk]
      exact valsAt_decomp i (s₀ :: mid) s post k hwf hk
    refine ⟨_, hread, ?_, ?_, ?_⟩
    · intro i hi
      show valuesIn (multiChannels s₀ mid s k) _ = _
      unfold multiChannels
      rw [valuesIn_rcv_data s₀ H.channels w₀ _ i hi, multiChunks_vals s₀ mid s HOK k i, hva]
    · intro p hp
      show valuesIn (multiChannels s₀ mid s k) p = []
      unfold multiChannels
      exact valuesIn_rcv_other s₀ _ p hp
    · intro m hm
      rw [multiState_objects] at hm
      obtain ⟨o, ho, rfl⟩ := List.mem_map.mp hm
      show multiNf s₀ mid s k o.path = (valuesIn (multiChannels s₀ mid s k) o.path).length
      unfold multiChannels
      cases hf : isFull o with
      | true =>
        have hd : o ∈ dataOs s₀.objs := by simp [dataOs, ho, hf]
        obtain ⟨i, hi, rfl⟩ := List.getElem_of_mem hd
        rw [valuesIn_rcv_data s₀ H.channels w₀ _ i hi]
        exact multi_count s₀ mid s HOK k hk i hi
      | false =>
        rw [valuesIn_rcv_other s₀ _ o.path, multiNf_nodata s₀ mid s HOK k o ho hf]
        · rfl
        · intro hmem
          obtain ⟨d, hd, hde⟩ := List.mem_map.mp hmem
          obtain ⟨hdm, hfull⟩ := dataOs_sub hd
          have : d = o := eq_of_nodup_map_path s₀.objs w₀.nodup hdm ho hde
          subst this
          rw [hf] at hfull; cases hfull

end Tdms.Proofs.C06Whole
