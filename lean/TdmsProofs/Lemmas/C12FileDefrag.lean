/-
  C12 at file level, part 3: `TdmsWriter.defragment` on timestamps — a timestamp property is copied verbatim
  (`rereadProp` is the identity on it), channel values are copied verbatim, a non-empty timestamp channel keeps its
  type; the object of the copy under a source path is `copyOf` of the source object.
-/
import TdmsProofs.Properties.C10Whole
import TdmsProofs.Lemmas.C12FileRead
import TdmsProofs.Lemmas.C12FileReadable

namespace Tdms.Proofs.C12File

open Tdms Tdms.Generated Tdms.Model Tdms.Model.Writer Tdms.Model.Path
open Tdms.Proofs.C08 Tdms.Proofs.C10 Tdms.Proofs.C10Whole Tdms.Proofs.C16File
open Tdms.Proofs.C01Compose (content contentOfDenote ObjView)

/-- a timestamp property goes through `defragment` unchanged: read with `raw_timestamps=True` it is a
    `TdmsTimestamp(seconds, fractions)`, which `_to_tdms_value` packs into the same 16 bytes -/
theorem rereadProp_timestamp (pv : PropVal) (h : pv.ty = tyTimeStamp) (hl : pv.val.length = 16) :
    rereadProp pv = pv := by
  unfold rereadProp
  rw [timestamp_bytes pv h hl]
  obtain ⟨n, ty, val⟩ := pv
  simp only at h
  rw [h]

theorem find_map_reread (ps : List PropVal) (n : Bytes) :
    (ps.map rereadProp).find? (·.name = n) = (ps.find? (·.name = n)).map rereadProp := by
  rw [List.find?_map]
  rfl

/-- a non-empty timestamp channel keeps the type `TimeStamp` in the copy -/
theorem retype_timestamp (o : ObjView) (h : o.dataType = some tyTimeStamp) (hv : o.values ≠ []) :
    retype o = some tyTimeStamp := by
  unfold retype
  rw [h]
  simp only
  have : o.values.isEmpty = false := by
    cases hvs : o.values with
    | nil => exact absurd hvs hv
    | cons a as => rfl
  rw [this, rewrittenType_timestamp]
  decide

/-- a file whose object paths are all of the form `_components_to_path(names)` is canonical -/
theorem sourceCanonical_of_paths {r : EagerResult}
    (h : ∀ o ∈ content r, ∃ cs, o.path = componentsToPathBytes cs) : SourceCanonical r := by
  intro m hm
  have : (⟨m.path, m.dataType, m.props, Tdms.Proofs.C01Compose.valuesIn r.channels m.path⟩ : ObjView) ∈ content r := by
    unfold content
    exact List.mem_map.2 ⟨m, hm, rfl⟩
  obtain ⟨cs, hcs⟩ := h _ this
  simp only at hcs
  rw [hcs, Tdms.Proofs.C08.pathComponents_path cs]

/-- **the copy, object by object**: for a canonical source that can be re-written, the copy read back holds, under
    the path of every source object `o`, exactly `copyOf o` -/
theorem defragment_copy_object (src : Bytes) (v : Nat) (hv : v = 4712 ∨ v = 4713) (r : EagerResult) (d i : Bytes)
    (hr : readFile src = .ok r) (hd : defragment src v = some (d, i)) (hW : CopyWritable r)
    (hcan : SourceCanonical r) (hlen : d.length < 2 ^ 63) :
    ∃ r', readFile d = .ok r' ∧ ∀ o ∈ content r, (content r').find? (·.path = o.path) = some (copyOf o) := by
  obtain ⟨r', hr', hsame⟩ := defragment_same_content src v hv r d i hr hd hW hcan hlen
  refine ⟨r', hr', fun o ho => ?_⟩
  have hmem : copyOf o ∈ content r' := (hsame.2 (copyOf o)).2 (.inl (List.mem_map_of_mem ho))
  exact find_of_mem_nodup hsame.1 hmem

/-- a `TimeStamp` property of any object read from ANY file holds exactly 16 bytes -/
theorem content_timestamp_length {file : Bytes} {r : EagerResult} (h : readFile file = .ok r)
    {o : ObjView} (ho : o ∈ content r) {pv : PropVal} (hp : pv ∈ o.props) (hty : pv.ty = tyTimeStamp) :
    pv.val.length = 16 := by
  unfold content at ho
  obtain ⟨m, hm, rfl⟩ := List.mem_map.1 ho
  exact readFile_timestamp_length h hm hp hty

end Tdms.Proofs.C12File
