import Tdms.Generated.Code
import Tdms.Model.Reader
import TdmsProofs.Lemmas.TiedPrelude

/-!
# Representation mapping between the hand-written model and the generated code

The generated definitions (`Tdms.Generated.Code`) work on structures that mirror the Python objects
(`SegmentObject`, `TdmsSegment`, …, all numbers `Int`); the model (`Tdms.Model`) has its own records with
`Nat` fields.  `pyObj`, `pySeg`, … map a model value to the Python object it stands for.  The `…_tied`
theorems are stated through this mapping.
-/

namespace Tdms.Proofs.Tied

open Tdms Tdms.Model Tdms.Generated Tdms.Generated.Code

/-- `obj.data_type`: the TdmsType class with the given type code; only `.size` is observed -/
def pyDataType (ty : Nat) : DataType := ⟨(typeSize ty).map fun (n : Nat) => (n : Int)⟩

def pyScaler (s : DaqScaler) : DaqMxScaler := ⟨(s.buffer : Int)⟩

def pyDaq (m : DaqMeta) : DaqMxMetadata :=
  ⟨m.widths.map fun (n : Nat) => (n : Int), m.scalers.map pyScaler⟩

/-- a `TdmsSegmentObject` (no `daq`) or `DaqmxSegmentObject` (`daq = some _`) -/
def pyObj (o : SegObj) : SegmentObject :=
  { path := o.path, has_data := o.hasData, number_values := (o.numberValues : Int),
    data_size := (o.dataSize : Int), data_type := o.dataType.map pyDataType,
    is_daqmx := o.daq.isSome, daqmx_metadata := o.daq.map pyDaq }

/-- a dict `{path: int}` -/
def pyDict (ov : List (Bytes × Nat)) : Py.Dict Py.Path Int := ov.map fun pn => (pn.1, (pn.2 : Int))

/-- a `TdmsSegment` whose two caches hold the given values -/
def pySegC (s : Segment) (chunkCache : Option Int) (daqCache : Option Bool) : TdmsSegment :=
  { toc_mask := (s.toc : Int), next_segment_pos := (s.nextSegmentPos : Int),
    data_position := (s.dataPosition : Int), segment_incomplete := s.incomplete,
    ordered_objects := s.objects.map pyObj, num_chunks := (s.numChunks : Int),
    final_chunk_lengths_override := s.override.map pyDict,
    chunk_size_cached := chunkCache, has_daqmx_objects_cached := daqCache }

/-- a freshly constructed `TdmsSegment` (both caches `None`) -/
def pySeg (s : Segment) : TdmsSegment := pySegC s none none

/-- Python exception class names a model error stands for -/
def errNames : Err → List Py.Exc
  | .negativeSize => ["ValueError"]
  | .zeroSizeButData => ["ValueError"]
  | .mixedDaqmx => ["Exception"]
  | .noneType => ["AttributeError"]
  | .daqmxWidths => ["ValueError"]
  | .other => ["IndexError", "ValueError", "ZeroDivisionError", "AttributeError", "TypeError", "KeyError"]
  | _ => []

/-- the result of generated code `g` is the image of the model result `m` -/
def Agrees {α β : Type} (r : α → β) (m : Except Err α) (g : Except Py.Exc β) : Prop :=
  match m with
  | .ok v => g = .ok (r v)
  | .error e => ∃ x, g = .error x ∧ x ∈ errNames e

/-- in a DAQmx object `number_values` is the chunk size of its metadata (`read_raw_data_index`) -/
def DaqConsistent (objs : List SegObj) : Prop :=
  ∀ o ∈ objs, ∀ m, o.daq = some m → o.numberValues = m.chunkSize

end Tdms.Proofs.Tied
