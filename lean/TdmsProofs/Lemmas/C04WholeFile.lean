import TdmsProofs.Lemmas.C04WholeMain

/-!
# C04Whole: `TdmsFile.open` on the encoding of a file of the class `MultiStd`

What `openFile (encodeFile e)` is (bytes, segment table, object metadata — from C01Multi's
`readMetadata_multi`), in the canonical form the byte-level lemmas work with, and the lazy window read on
it in terms of `denote e`.  Core Lean only.
-/

namespace Tdms.Proofs.C04Whole

open Tdms Tdms.Generated Tdms.Model Tdms.Proofs.C02 Tdms.Proofs.C01Multi Tdms.Proofs.C04

theorem wfSegs_rawFlag : ∀ (ss : List SegEnc) (as : List (List ActiveObj)), wfSegs ss as = true →
    ∀ s ∈ ss, s.chunks ≠ [] → s.rawFlag = true := by
  intro ss
  induction ss with
  | nil => intro _ _ s hs; cases hs
  | cons s0 ss ih =>
    intro as h s hs hne
    cases as with
    | nil => simp [wfSegs] at h
    | cons a as =>
      simp only [wfSegs, Bool.and_eq_true] at h
      rcases List.mem_cons.1 hs with rfl | hs'
      · have := h.1
        simp only [wfSeg, Bool.and_eq_true, decide_eq_true_eq] at this
        apply this.1.1.2
        simpa using hne
      · exact ih as h.2 s hs' hne

/-- the canonical form of the encoding (same bytes, same meaning; `total := n * size` for fixed-width
    indexes) with the per-segment facts the byte-level lemmas need -/
structure CanonOf (e : FileEnc) (acts : List (List ActiveObj)) (ss : List SegEnc) (as : List (List ActiveObj)) : Prop where
  ss_eq : ss = e.map canonSeg
  as_eq : as = acts.map (·.map canonAct)
  hacts : activeLists none [] ss = .ok as
  ok : SegsOK ss as
  nodup : ActsNodup as
  raw : ∀ s ∈ ss, s.chunks ≠ [] → s.rawFlag = true
  bytes : zipEncode encodeSeg ss as = zipEncode encodeSeg e acts
  meaning : denoteSegs [] ss as = denoteSegs [] e acts

theorem canonOf_multi {e : FileEnc} (h : MultiStd e) (fit : FileFits e) {acts : List (List ActiveObj)}
    (ha : activeLists none [] e = .ok acts) :
    CanonOf e acts (e.map canonSeg) (acts.map (·.map canonAct)) := by
  obtain ⟨acts', ha', hwf⟩ := h.acts
  rw [ha] at ha'
  cases ha'
  refine ⟨rfl, rfl, activeLists_canon e none [] acts ha, segsOK_canon e acts (segsOK0_of_multi h fit ha),
    actsNodup_canon (activeLists_nodup e none [] acts ha SpecInv.init (wellFormed_noDup h.wf)), ?_,
    zipEncode_canon e acts, denoteSegs_canon e acts []⟩
  intro s hs hne
  obtain ⟨s0, hs0, rfl⟩ := List.mem_map.1 hs
  exact wfSegs_rawFlag e acts hwf s0 hs0 hne

/-- **`TdmsFile.open` on an encoded file of the class**: the open file holds the bytes, the segment table
    `segRecs` of the canonical form, and the view of `denote`'s content as object metadata -/
theorem openFile_encoded (e : FileEnc) (h : MultiStd e) (fit : FileFits e) (bytes : Bytes)
    (hb : encodeFile e = .ok bytes) (hlen : bytes.length < 2 ^ 63) :
    ∃ f acts ss as, openFile bytes = .ok f ∧ activeLists none [] e = .ok acts ∧ CanonOf e acts ss as ∧
      f.file = zipEncode encodeSeg ss as ∧ f.segments = segRecs 0 ss as ∧
      f.objects = (denoteSegs [] e acts).map (mOC fun _ => 0) := by
  obtain ⟨acts, ha, _⟩ := h.acts
  have hbytes : encodeFile e = .ok (zipEncode encodeSeg e acts) := by simp [encodeFile, ha]
  rw [hbytes] at hb
  injection hb with hb
  subst hb
  have hc := canonOf_multi h fit ha
  rw [← hc.bytes] at hlen ⊢
  obtain ⟨st, h1, h2, h3, _⟩ := readMetadata_multi _ _ hc.hacts hc.ok hlen
  refine ⟨⟨_, st.segments, st.objects⟩, acts, _, _, ?_, ha, hc, rfl, h2, ?_⟩
  · simp [openFile, h1, bind, Except.bind, pure, Except.pure]
  · rw [h3, hc.meaning]

theorem get_mOC {c : Content} (hnd : (c.map (·.path)).Nodup) {oc : ObjContent} (hoc : oc ∈ c) :
    ObjMetas.get (c.map (mOC fun _ => 0)) oc.path = some (mOC (fun _ => 0) oc) := by
  unfold ObjMetas.get
  rw [List.find?_map]
  have hcomp : ((fun m : ObjMeta => decide (m.path = oc.path)) ∘ mOC fun _ => 0) =
      fun x : ObjContent => decide (x.path = oc.path) := by
    funext x; rfl
  rw [hcomp, find_of_nodup hnd hoc]
  rfl

theorem get_mOC_none {c : Content} {p : Bytes} (hp : p ∉ c.map (·.path)) :
    ObjMetas.get (c.map (mOC fun _ => 0)) p = none := by
  unfold ObjMetas.get
  rw [List.find?_eq_none]
  intro m hm hmp
  obtain ⟨oc, hoc, rfl⟩ := List.mem_map.1 hm
  exact hp (List.mem_map.2 ⟨oc, hoc, of_decide_eq_true hmp⟩)

/-- the lazy window read on the opened encoding, in terms of `denote` -/
theorem lazy_window_encoded (e : FileEnc) (h : MultiStd e) (fit : FileFits e) (bytes : Bytes)
    (hb : encodeFile e = .ok bytes) (hlen : bytes.length < 2 ^ 63) :
    ∃ f c, openFile bytes = .ok f ∧ denote e = .ok c ∧ (c.map (·.path)).Nodup ∧
      f.objects = c.map (mOC fun _ => 0) ∧
      ∀ oc ∈ c, oc.ty.isSome = true → ∀ (offset : Int) (length : Option Int), 0 ≤ offset →
        (∀ l, length = some l → 0 ≤ l) → ∀ st : FState,
          ∃ st' r, (channelReadData f oc.path offset length).run st = .ok (some r, st') ∧
            r.data.getD [] = takeOpt length (oc.values.drop offset.toNat) := by
  obtain ⟨f, acts, ss, as, hopen, ha, hc, hfile, hsegs, hobjs⟩ := openFile_encoded e h fit bytes hb hlen
  have hnodup : ((denoteSegs [] e acts).map (·.path)).Nodup := by
    rw [← hc.meaning]; exact denoteSegs_nodup ss as [] hc.ok (by simp)
  refine ⟨f, denoteSegs [] e acts, hopen, by simp [denote, ha], hnodup, hobjs, ?_⟩
  intro oc hoc hty offset length h0 hl st
  have hm : f.objects.get oc.path = some (mOC (fun _ => 0) oc) := by rw [hobjs]; exact get_mOC hnodup hoc
  have hvals := values_eq_chanValsAll ss as hc.ok hc.nodup oc (by rw [hc.meaning]; exact hoc)
  rw [hvals]
  exact channelReadData_encoded ss as hc.ok hc.nodup hc.raw f hfile hsegs oc.path _ hm hty
    (by show oc.values.length + 0 = _; rw [hvals]; rfl) offset length h0 hl st

end Tdms.Proofs.C04Whole
