/-
  C06 (lazy = eager on cut files): the `Segment` records the reader builds for a cut file of the class of
  `C06Whole.lean` satisfy the hypotheses `SegShape` / `SizedOk` of `C03.invariants_hold_sized`
  (fixed-width channels only).  Core Lean only.
-/
import TdmsProofs.Lemmas.C06WholeMultiFile
import TdmsProofs.Lemmas.C03Sized

namespace Tdms.Proofs.C06Lazy

open Tdms Tdms.Generated Tdms.Model Tdms.Proofs.Bytes Tdms.Proofs.C01Compose Tdms.Proofs.C06Whole
open Tdms.Proofs.C03 (SegShape SizedOk)

/-- `wellFormed [s]`: a segment with chunks carries the raw-data flag -/
theorem chunks_nil_of_noRaw (s : SegEnc) (h : CutStd s) (hr : s.rawFlag = false) : s.chunks = [] := by
  have hwf := h.wf
  unfold wellFormed at hwf
  rw [h.wfSingle.acts] at hwf
  simp only [wfSegs, Bool.and_true, wfSeg, Bool.and_eq_true] at hwf
  have h1 := hwf.1.1.2
  rw [hr] at h1
  simp only [Bool.false_eq_true, decide_eq_true_eq] at h1
  cases hc : s.chunks with
  | nil => rfl
  | cons c cs =>
    rw [hc] at h1
    simp at h1

/-- `SegShape` of a segment record that lists the objects of `s` under the ToC of `s`, with no chunk when the
    encoding has none -/
theorem segShape_of (s : SegEnc) (h : CutStd s) (seg : Segment) (htoc : seg.toc = tocMask s)
    (hobjs : seg.objects = s.objs.map segObjOf) (hnc : s.chunks = [] → seg.numChunks = 0) : SegShape seg := by
  refine ⟨?_, ?_, ?_⟩
  · rw [hobjs, List.map_map]
    have : ((fun x : SegObj => x.path) ∘ segObjOf) = fun o : ObjEnc => o.path := funext fun o => segObjOf_path o
    rw [this]
    exact h.wfSingle.nodup
  · exact dataReaderKind_std seg s.objs h.stdObjs hobjs
      (by rw [htoc, hasFlag_tocMask_interleaved, h.contiguous])
  · intro hr
    rw [htoc, hasFlag_tocMask_raw] at hr
    exact hnc (chunks_nil_of_noRaw s h hr)

/-- `SizedOk` of such a record when no data object of `s` holds strings -/
theorem sizedOk_of (s : SegEnc) (h : CutStd s) (hns : hasStr s = false) (seg : Segment)
    (hobjs : seg.objects = s.objs.map segObjOf) : SizedOk seg := by
  intro o ho
  unfold Tdms.Proofs.C03.dataObjs at ho
  rw [hobjs, filter_hasData_map_segObjOf s.objs h.stdObjs] at ho
  obtain ⟨d, hd, rfl⟩ := List.mem_map.mp ho
  obtain ⟨hdm, hfull⟩ := dataOs_sub hd
  obtain ⟨ty, n, total, hidx⟩ := (isFull_iff d).mp hfull
  have hnot : ty ≠ tyString := by
    intro hty
    have : hasStr s = true := by
      unfold hasStr
      rw [List.any_eq_true]
      exact ⟨d, hd, by simp [tyOf, hidx, hty]⟩
    rw [hns] at this; cases this
  have hwo := h.wfSingle.objs d hdm
  simp only [wfObj, hidx, wfIdx, Bool.and_eq_true, Bool.or_eq_true, decide_eq_true_eq] at hwo
  have hsz : (typeSize ty).isSome = true := by
    rcases hwo.1.1.1 with h1 | h1
    · exact absurd h1 hnot
    · exact h1
  obtain ⟨sz, hsz⟩ := Option.isSome_iff_exists.mp hsz
  refine ⟨ty, sz, ?_, hsz, ?_⟩
  · simp [segObjOf, segObjOfIdx, hidx, stdIndexObj]
  · simp [segObjOf, segObjOfIdx, hidx, stdIndexObj, hnot, hsz]

theorem numChunks_zero (s : SegEnc) (h : CutStd s) (k : Nat) (hk : k ≤ encLen s) (hc : s.chunks = []) :
    cutQ s k + (if cutR s k = 0 then 0 else 1) = 0 := by
  have hL := file_length s h.wfSingle h.contiguous
  rw [hc] at hL
  simp only [List.length_nil, Nat.zero_mul, Nat.add_zero] at hL
  unfold encLen at hk
  have h0 : k - dataPosOf s = 0 := by omega
  unfold cutQ cutR
  rw [h0]
  simp

theorem segShape_cutSegAt (s : SegEnc) (h : CutStd s) (P k : Nat) (hk : k ≤ encLen s) :
    SegShape (cutSegAt s P k) :=
  segShape_of s h _ rfl rfl (numChunks_zero s h k hk)

theorem sizedOk_cutSegAt (s : SegEnc) (h : CutStd s) (hns : hasStr s = false) (P k : Nat) :
    SizedOk (cutSegAt s P k) :=
  sizedOk_of s h hns _ rfl

theorem segShape_cutSeg (s : SegEnc) (h : CutStd s) (k : Nat) (hk : k ≤ encLen s) :
    SegShape (cutSeg s (encLen s) k) :=
  segShape_of s h _ rfl rfl (numChunks_zero s h k hk)

theorem sizedOk_cutSeg (s : SegEnc) (h : CutStd s) (hns : hasStr s = false) (L k : Nat) :
    SizedOk (cutSeg s L k) :=
  sizedOk_of s h hns _ rfl

theorem mem_runSegs : ∀ (ss : List SegEnc) (P : Nat) (seg : Segment), seg ∈ runSegs P ss →
    ∃ x ∈ ss, ∃ Q, seg = cutSegAt x Q (encLen x) := by
  intro ss
  induction ss with
  | nil => intro P seg h; cases h
  | cons x xs ih =>
    intro P seg h
    simp only [runSegs, List.mem_cons] at h
    rcases h with rfl | h
    · exact ⟨x, List.mem_cons_self, P, rfl⟩
    · obtain ⟨y, hy, Q, hQ⟩ := ih _ _ h
      exact ⟨y, List.mem_cons_of_mem _ hy, Q, hQ⟩

end Tdms.Proofs.C06Lazy
