import TdmsProofs.Lemmas.TiedRepr
import TdmsProofs.Lemmas.C04SliceLemmas

/-!
# Lemmas for the C19 tied theorems (`TdmsChannel._read_slice`, `TdmsChannel._read_at_index`,
`TdmsReader.read_channel_chunk_for_index`)

The generated definitions (`Tdms.Generated.Code`) are proved equal to the model functions of
`Tdms/Model/Lazy.lean` through the representation mapping stated here.
-/

namespace Tdms.Proofs.TiedC19
open Tdms Tdms.Model Tdms.Generated Tdms.Generated.Code Tdms.Proofs.C04 Tdms.Proofs.Tied

/-! ## `_read_slice` -/

/-- `len(channel)`: `object_metadata[path].num_values` (0 for an unknown path) -/
def chanLen (f : OpenFile) (p : Bytes) : Int := (((f.objects.get p).map (·.numValues)).getD 0 : Nat)

/-- a `TdmsChannel` of the given length with an empty chunk cache -/
def pyChannel (len : Int) : TdmsChannel Bytes :=
  { _length := len, _cached_chunk := none, _cached_chunk_bounds := (0, 0) }

/-- `self.read_data(offset, length, scaled=False)` as a suspended read: the values of the window
    (`[]` for a channel without data type) -/
def sliceReadData (f : OpenFile) (p : Bytes) (a b : Int) : F (List Bytes) := do
  match ← channelReadData f p a (some b) with
  | some r => pure (r.data.getD [])
  | none => pure []

/-- `data[::step]` on a suspended read -/
def sliceStep (r : F (List Bytes)) (st : Int) : F (List Bytes) := do
  let xs ← r
  pure (stepList xs st)

/-- what the generated `_read_slice` does with the request `sliceRequest` (the model's pure
    normalisation, `C04SliceLemmas`) -/
def pySliceCont {R : Type} (empty : R) (read_data : Int → Int → R) (step_slice : R → Int → R) :
    Except Err (Option (Int × Int × Int)) → Except Py.Exc R
  | .error _ => .error "ValueError"
  | .ok none => .ok empty
  | .ok (some (off, l, st)) =>
    .ok (if st > 0 then (if st > 1 then step_slice (read_data off l) st else read_data off l)
         else step_slice (read_data off l) st)

/-- the generated `_read_slice`, for ARBITRARY `empty`, `read_data`, `step_slice`, makes exactly the
    request `sliceRequest self._length start stop step`.  The `let` chains of the two definitions are
    merged by `extract_lets`; every test is then discharged by `split`/`rfl`, so any change of a
    comparison or of an operand in the Python source breaks this proof. -/
theorem read_slice_request {Value R : Type} (empty : R) (read_data : Int → Int → R) (step_slice : R → Int → R)
    (self : TdmsChannel Value) (a b c : Option Int) :
    TdmsChannel._read_slice empty read_data step_slice self a b c =
      pySliceCont empty read_data step_slice (sliceRequest self._length a b c) := by
  unfold TdmsChannel._read_slice sliceRequest
  by_cases h0 : c = some 0
  · subst h0; rfl
  · rw [if_neg h0, if_neg h0]
    rcases a with _ | a <;> rcases b with _ | b <;> rcases c with _ | c
    all_goals
      dsimp -zeta only [Option.getD_none, Option.getD_some, pure, Except.pure]
      extract_lets
      simp only [or_assoc]
      rw [apply_ite (pySliceCont _ _ _), apply_ite (pySliceCont _ _ _), apply_ite (pySliceCont _ _ _),
        apply_ite (pySliceCont _ _ _)]
      split
      · rfl
      split
      · rfl
      split
      · rfl
      split
      · next h => simp only [pySliceCont, h, if_true]; rfl
      · next h => simp only [pySliceCont, h, if_false]; rfl

theorem stepList_nil (st : Int) : stepList [] st = [] := by
  unfold stepList everyNth; split <;> rfl

theorem sliceStep_readData (f : OpenFile) (p : Bytes) (off l st : Int) :
    sliceStep (sliceReadData f p off l) st =
      (do match ← channelReadData f p off (some l) with
          | some r => pure (stepList (r.data.getD []) st)
          | none => pure []) := by
  unfold sliceStep sliceReadData
  rw [bind_assoc]
  congr 1
  funext o
  cases o <;> simp [stepList_nil]

theorem sliceReadData_one (f : OpenFile) (p : Bytes) (off l : Int) :
    sliceReadData f p off l =
      (do match ← channelReadData f p off (some l) with
          | some r => pure (stepList (r.data.getD []) 1)
          | none => pure []) := by
  unfold sliceReadData
  simp only [stepList_one]

/-- collapse of an `Except` holding a suspended read into the read (`ValueError` ↦ `.stepZero`) -/
def joinSlice (x : Except Py.Exc (F (List Bytes))) : F (List Bytes) :=
  match x with
  | .ok r => r
  | .error _ => throw .stepZero

theorem pySliceCont_join (f : OpenFile) (p : Bytes) (q : Except Err (Option (Int × Int × Int)))
    (hq : ∀ e, q = .error e → e = .stepZero) :
    joinSlice (pySliceCont (pure []) (sliceReadData f p) sliceStep q) = sliceCont f p q := by
  match q, hq with
  | .error e, hq => rw [hq e rfl]; rfl
  | .ok none, _ => rfl
  | .ok (some (off, l, st)), _ =>
    simp only [pySliceCont, sliceCont, joinSlice]
    split
    · split
      · exact sliceStep_readData f p off l st
      · next h1 h2 =>
        have : st = 1 := by omega
        subst this
        exact sliceReadData_one f p off l
    · exact sliceStep_readData f p off l st

theorem sliceRequest_error (len : Int) (a b c : Option Int) (e : Err)
    (h : sliceRequest len a b c = .error e) : e = .stepZero ∧ c = some 0 := by
  unfold sliceRequest at h
  by_cases h0 : c = some 0
  · rw [if_pos h0] at h; injection h with h; exact ⟨h.symm, h0⟩
  · rw [if_neg h0] at h
    extract_lets at h
    exfalso
    repeat' split at h
    all_goals cases h

theorem read_slice_error_iff' {Value R : Type} (empty : R) (read_data : Int → Int → R)
    (step_slice : R → Int → R) (self : TdmsChannel Value) (a b c : Option Int) (e : Py.Exc) :
    TdmsChannel._read_slice empty read_data step_slice self a b c = .error e ↔
      (c = some 0 ∧ e = "ValueError") := by
  rw [read_slice_request]
  cases h : sliceRequest self._length a b c with
  | error e' =>
    have := sliceRequest_error _ _ _ _ _ h
    simp only [pySliceCont, Except.error.injEq, this.2, true_and]
    exact eq_comm
  | ok q =>
    have hc : c ≠ some 0 := by
      intro hc; subst hc; simp [sliceRequest] at h
    cases q with
    | none => simp [pySliceCont, hc]
    | some t => obtain ⟨off, l, st⟩ := t; simp [pySliceCont, hc]

/-! ## `read_channel_chunk_for_index`: the model side

`chunkPlan` is the pure arithmetic of `readChannelChunkForIndex` (segment, chunk index, chunk offset), or the
Python exception raised before anything is read. -/

/-- segment selection and chunk arithmetic of `read_channel_chunk_for_index` for `index ≥ 0`:
    `(segment, chunk_index, chunk_offset)`; `IndexError` when `self._segments[segment_index]` is out of
    range (the index lies at or after the end of the channel's data), `ZeroDivisionError` when the channel
    has no object, or an object with `number_values = 0`, in the selected segment -/
def chunkPlan (segs : List Segment) (p : Bytes) (index : Nat) : Except Py.Exc (Segment × Nat × Nat) :=
  let ix := buildIndex segs p
  let segIndex := ix.firstSegment + searchRight ix.offsets index
  match segs[segIndex]? with
  | none => .error "IndexError"
  | some s =>
    let cs := match getSegmentObject s p with
      | some o => o.numberValues
      | none => 0
    if cs = 0 then .error "ZeroDivisionError"
    else
      let segStart := if segIndex = ix.firstSegment then 0 else ix.offsets.getD (segIndex - ix.firstSegment - 1) 0
      let chunkIndex := (index - segStart) / cs
      .ok (s, chunkIndex, segStart + chunkIndex * cs)

/-- what `readChannelChunkForIndex` does with its plan: both Python exceptions are `.other` in the model -/
def chunkRead (f : OpenFile) (p : Bytes) : Except Py.Exc (Segment × Nat × Nat) → F (ChanChunk × Nat)
  | .error _ => throw .other
  | .ok (s, ci, off) => do
    verifySegmentStart f.file s
    let chunks ← segReadChannel f.file s p ci (some 1)
    match chunks.head? with
    | some c => pure (c, off)
    | none => throw .other

theorem readChannelChunkForIndex_eq (f : OpenFile) (p : Bytes) (index : Nat) :
    readChannelChunkForIndex f p index = chunkRead f p (chunkPlan f.segments p index) := by
  unfold readChannelChunkForIndex chunkPlan
  simp only []
  generalize f.segments[(buildIndex f.segments p).firstSegment +
    searchRight (buildIndex f.segments p).offsets index]? = os
  cases os with
  | none => rfl
  | some s =>
    simp only []
    cases getSegmentObject s p with
    | none => rfl
    | some o =>
      simp only []
      split
      · rfl
      · rfl

theorem takeWhile_length_spec {α : Type} (P : α → Bool) (xs : List α) (j : Nat)
    (h : j < (xs.takeWhile P).length) : ∃ x, xs[j]? = some x ∧ P x = true := by
  induction xs generalizing j with
  | nil => simp at h
  | cons x xs ih =>
    rw [List.takeWhile_cons] at h
    cases hx : P x with
    | false => simp [hx] at h
    | true =>
      simp only [hx, if_true, List.length_cons] at h
      cases j with
      | zero => exact ⟨x, rfl, hx⟩
      | succ j => simpa using ih j (by omega)

theorem searchRight_le_length (xs : List Nat) (x : Int) : searchRight xs x ≤ xs.length := by
  unfold searchRight
  exact List.Sublist.length_le (List.takeWhile_sublist _)

/-- the element before the insertion point of `searchsorted(…, side='right')` is `≤` the key -/
theorem searchRight_prev_le (xs : List Nat) (x : Int) (h : searchRight xs x ≠ 0) :
    ((xs.getD (searchRight xs x - 1) 0 : Nat) : Int) ≤ x := by
  obtain ⟨y, hy, hP⟩ := takeWhile_length_spec (fun (y : Nat) => decide ((y : Int) ≤ x)) xs
    (searchRight xs x - 1) (by unfold searchRight at h ⊢; omega)
  rw [List.getD_eq_getElem?_getD, hy]
  simpa using hP

/-- the chunk offset never exceeds the index (so `index - chunk_offset` is never a negative Python index) -/
theorem chunkPlan_off_le (segs : List Segment) (p : Bytes) (index : Nat) (s : Segment) (ci off : Nat)
    (h : chunkPlan segs p index = .ok (s, ci, off)) : off ≤ index := by
  unfold chunkPlan at h
  extract_lets ix segIndex segStart at h
  split at h
  · cases h
  · extract_lets cs ci' at h
    split at h
    · cases h
    · injection h with h
      simp only [Prod.mk.injEq] at h
      obtain ⟨_, _, rfl⟩ := h
      have h1 : segStart ≤ index := by
        show (if _ then _ else _) ≤ _
        split
        · omega
        · next hne =>
          have e : segIndex - ix.firstSegment - 1 = searchRight ix.offsets index - 1 := by
            show ix.firstSegment + searchRight ix.offsets index - ix.firstSegment - 1 = _
            omega
          rw [e]
          have := searchRight_prev_le ix.offsets index (by
            intro h0; apply hne; show ix.firstSegment + searchRight ix.offsets index = _; omega)
          omega
      have h2 : ci' * cs ≤ index - segStart := Nat.div_mul_le_self _ _
      omega

theorem run_bind_ok {α β : Type} (x : F α) (g : α → F β) (σ σ' : FState) (b : β)
    (h : (x >>= g).run σ = .ok (b, σ')) :
    ∃ a σ1, x.run σ = .ok (a, σ1) ∧ (g a).run σ1 = .ok (b, σ') := by
  rw [StateT.run_bind] at h
  cases hx : x.run σ with
  | error e => rw [hx] at h; cases h
  | ok r => rw [hx] at h; exact ⟨r.1, r.2, rfl, h⟩

theorem chunkRead_run_ok (f : OpenFile) (p : Bytes) (s : Segment) (ci off : Nat) (σ σ' : FState)
    (c : ChanChunk) (off' : Nat) (h : (chunkRead f p (.ok (s, ci, off))).run σ = .ok ((c, off'), σ')) :
    off' = off := by
  obtain ⟨_, σ1, _, h⟩ := run_bind_ok _ _ _ _ _ h
  obtain ⟨chunks, σ2, _, h⟩ := run_bind_ok _ _ _ _ _ h
  cases h3 : chunks.head? with
  | none => simp only [h3] at h; cases h
  | some c' =>
    simp only [h3] at h
    injection h with h
    simp only [Prod.mk.injEq] at h
    exact h.1.2.symm

theorem readChannelChunkForIndex_off_le (f : OpenFile) (p : Bytes) (i : Nat) (σ σ' : FState)
    (c : ChanChunk) (off : Nat) (h : (readChannelChunkForIndex f p i).run σ = .ok ((c, off), σ')) :
    off ≤ i := by
  rw [readChannelChunkForIndex_eq] at h
  cases hp : chunkPlan f.segments p i with
  | error e => rw [hp] at h; cases h
  | ok t =>
    obtain ⟨s, ci, off'⟩ := t
    rw [hp] at h
    rw [chunkRead_run_ok f p s ci off' σ σ' c off h]
    exact chunkPlan_off_le _ _ _ _ _ _ hp

/-! ## `_read_at_index` -/

/-- the model's cache miss, run at file state `σ` -/
def atIndexMiss (f : OpenFile) (p : Bytes) (i : Nat) (σ : FState) :
    Except Err ((Bytes × Option ChunkCache) × FState) :=
  match (readChannelChunkForIndex f p i).run σ with
  | .error e => .error e
  | .ok ((chunk, off), σ') =>
    match (chunk.data.getD [])[i - off]? with
    | some v => .ok ((v, some ⟨off, off + (chunk.data.getD []).length, chunk.data.getD []⟩), σ')
    | none => .error .indexError

/-- `channelReadAtIndex` run at file state `σ`, in closed form -/
def atIndexRun (f : OpenFile) (p : Bytes) (cache : Option ChunkCache) (index : Int) (σ : FState) :
    Except Err ((Bytes × Option ChunkCache) × FState) :=
  match indexRequest (chanLen f p) index with
  | .error e => .error e
  | .ok i =>
    match cache with
    | some c =>
      if c.lo ≤ i ∧ i < c.hi then .ok ((c.vals.getD (i - c.lo) [], cache), σ) else atIndexMiss f p i σ
    | none => atIndexMiss f p i σ

theorem atIndex_jp_run (f : OpenFile) (p : Bytes) (i : Nat) (σ : FState) :
    (do let (chunk, off) ← readChannelChunkForIndex f p i
        let vals := chunk.data.getD []
        match vals[i - off]? with
        | some v => pure (v, some (⟨off, off + vals.length, vals⟩ : ChunkCache))
        | none => throw Err.indexError : F (Bytes × Option ChunkCache)).run σ = atIndexMiss f p i σ := by
  unfold atIndexMiss
  rw [StateT.run_bind]
  cases (readChannelChunkForIndex f p i).run σ with
  | error e => rfl
  | ok r =>
    obtain ⟨⟨chunk, off⟩, σ'⟩ := r
    show StateT.run (match (chunk.data.getD [])[i - off]? with | some v => _ | none => _) σ' = _
    simp only []
    cases (chunk.data.getD [])[i - off]? <;> rfl

theorem channelReadAtIndex_run (f : OpenFile) (p : Bytes) (cache : Option ChunkCache) (index : Int)
    (σ : FState) : (channelReadAtIndex f p cache index).run σ = atIndexRun f p cache index σ := by
  rw [channelReadAtIndex_eq]
  unfold atIndexRun chanLen
  cases indexRequest _ index with
  | error e => rfl
  | ok i =>
    simp only []
    unfold readAtIndexRest
    cases cache with
    | none => exact atIndex_jp_run f p i σ
    | some c =>
      simp only []
      split
      · rfl
      · exact atIndex_jp_run f p i σ

/-- `xs[j]` for `j ≥ 0` (generic; candidate for `TiedPrelude.lean`) -/
theorem index_of_nonneg {α : Type} (xs : List α) (j : Int) (h : 0 ≤ j) :
    Py.index xs j = match xs[j.toNat]? with
      | some v => .ok v
      | none => .error "IndexError" := by
  unfold Py.index
  have h1 : ¬ j < 0 := by omega
  simp only [h1, if_false]
  cases xs[j.toNat]? <;> rfl

/-- a `TdmsChannel` of length `len` whose one-chunk cache is `cache`: `none` is `_cached_chunk = None`
    (then `_cached_chunk_bounds`, here `b0`, is never read), `some ⟨lo, hi, vals⟩` is
    `_cached_chunk = vals`, `_cached_chunk_bounds = (lo, hi)` -/
def pyChanC (len : Int) (b0 : Int × Int) : Option ChunkCache → TdmsChannel Bytes
  | none => { _length := len, _cached_chunk := none, _cached_chunk_bounds := b0 }
  | some c => { _length := len, _cached_chunk := some c.vals, _cached_chunk_bounds := ((c.lo : Int), (c.hi : Int)) }

/-- `self._reader.read_channel_chunk_for_index(self.path, index)`: the model's `readChannelChunkForIndex`
    run at file state `σ`; a model error `e` is the Python exception `nm e` -/
def pyReadChunk (f : OpenFile) (p : Bytes) (σ : FState) (nm : Err → Py.Exc) (i : Int) :
    Except Py.Exc (ChanChunk × Int) :=
  match (readChannelChunkForIndex f p i.toNat).run σ with
  | .ok ((c, off), _) => .ok (c, (off : Int))
  | .error e => .error (nm e)

/-- `self._scale_data(chunk)` with `scaled=False`-like identity scaling: the raw values of the chunk -/
def pyScale (c : ChanChunk) : Except Py.Exc (List Bytes) := .ok (c.data.getD [])

/-- the channel object `self` holds the model cache `cache`: `none` is `_cached_chunk = None` (then
    `_cached_chunk_bounds` is never read), `some ⟨lo, hi, vals⟩` is `_cached_chunk = vals`,
    `_cached_chunk_bounds = (lo, hi)` -/
def CacheRepr (self : TdmsChannel Bytes) : Option ChunkCache → Prop
  | none => self._cached_chunk = none
  | some c => self._cached_chunk = some c.vals ∧ self._cached_chunk_bounds = ((c.lo : Int), (c.hi : Int))

/-- `self` after the assignments `self._cached_chunk = …; self._cached_chunk_bounds = …` -/
def setCache (self : TdmsChannel Bytes) : Option ChunkCache → TdmsChannel Bytes
  | none => { self with _cached_chunk := none }
  | some c => { self with _cached_chunk := some c.vals, _cached_chunk_bounds := ((c.lo : Int), (c.hi : Int)) }

/-- image of a model result: value and the channel object with its new cache; the file state is dropped -/
def pyAtIndexResult (self : TdmsChannel Bytes) (nm : Err → Py.Exc) :
    Except Err ((Bytes × Option ChunkCache) × FState) → Except Py.Exc (Bytes × TdmsChannel Bytes)
  | .ok ((v, cache'), _) => .ok (v, setCache self cache')
  | .error e => .error (nm e)

theorem setCache_self (self : TdmsChannel Bytes) (cache : Option ChunkCache) (h : CacheRepr self cache) :
    setCache self cache = self := by
  obtain ⟨l, c, b⟩ := self
  cases cache with
  | none => simp only [CacheRepr] at h; subst h; rfl
  | some c' => simp only [CacheRepr] at h; obtain ⟨h1, h2⟩ := h; subst h1; subst h2; rfl

/-- a cache miss: whatever the generated code does with the chunk (`K`), if on every successful read it
    produces element `index - chunk_offset` of the raw chunk and the cache `(offset, offset + len)`,
    then the whole is the image of the model's miss -/
theorem miss_core (f : OpenFile) (p : Bytes) (σ : FState) (nm : Err → Py.Exc) (self : TdmsChannel Bytes)
    (i : Int) (K : ChanChunk × Int → Except Py.Exc (Bytes × TdmsChannel Bytes))
    (hK : ∀ (chunk : ChanChunk) (off : Nat), off ≤ i.toNat →
      K (chunk, (off : Int)) = match (chunk.data.getD [])[i.toNat - off]? with
        | some v => .ok (v, setCache self (some ⟨off, off + (chunk.data.getD []).length, chunk.data.getD []⟩))
        | none => .error (nm .indexError)) :
    (pyReadChunk f p σ nm i >>= K) = pyAtIndexResult self nm (atIndexMiss f p i.toNat σ) := by
  unfold pyReadChunk atIndexMiss
  cases hr : (readChannelChunkForIndex f p i.toNat).run σ with
  | error e => rfl
  | ok r =>
    obtain ⟨⟨chunk, off⟩, σ'⟩ := r
    have hoff := readChannelChunkForIndex_off_le f p i.toNat σ σ' chunk off hr
    show K (chunk, (off : Int)) = _
    rw [hK chunk off hoff]
    dsimp only
    cases (chunk.data.getD [])[i.toNat - off]? <;> rfl

theorem read_at_index_tied' (f : OpenFile) (p : Bytes) (cache : Option ChunkCache) (index : Int) (σ : FState)
    (nm : Err → Py.Exc) (hnm : nm .indexError = "IndexError") (self : TdmsChannel Bytes)
    (hlen : self._length = chanLen f p) (hrepr : CacheRepr self cache)
    (hwf : ∀ c, cache = some c → c.hi ≤ c.lo + c.vals.length) :
    TdmsChannel._read_at_index (pyReadChunk f p σ nm) pyScale self index
      = pyAtIndexResult self nm (atIndexRun f p cache index σ) := by
  unfold TdmsChannel._read_at_index atIndexRun indexRequest
  rw [← hlen]
  simp only []
  generalize (if index < 0 then self._length + index else index) = i
  by_cases h : i < 0 ∨ i ≥ self._length
  · rw [if_pos h, if_pos h]; simp only [pyAtIndexResult, hnm]; rfl
  · rw [if_neg h, if_neg h]
    have hmiss : ∀ K : ChanChunk × Int → Except Py.Exc (Bytes × TdmsChannel Bytes),
        (∀ (chunk : ChanChunk) (off : Int), K (chunk, off) = (do
            let scaled_chunk ← pyScale chunk
            let t ← Py.index scaled_chunk (i - off)
            pure (t, { self with _cached_chunk := some scaled_chunk,
                                 _cached_chunk_bounds := (off, off + Py.len scaled_chunk) }))) →
        (pyReadChunk f p σ nm i >>= K) = pyAtIndexResult self nm (atIndexMiss f p i.toNat σ) := by
      intro K hK
      refine miss_core f p σ nm self i K ?_
      intro chunk off hoff
      rw [hK]
      simp only [pyScale]
      show (do let t ← Py.index (chunk.data.getD []) (i - off); pure (t, _)) = _
      rw [index_of_nonneg _ _ (by omega)]
      have e : (i - (off : Int)).toNat = i.toNat - off := by omega
      rw [e]
      cases (chunk.data.getD [])[i.toNat - off]? with
      | none => simp only [hnm]; rfl
      | some v =>
        show Except.ok _ = _
        simp only [setCache, Py.len_eq, Int.natCast_add]
    cases cache with
    | none =>
      simp only [CacheRepr] at hrepr
      simp only [hrepr]
      exact hmiss _ (fun _ _ => rfl)
    | some c =>
      have hself := setCache_self self (some c) hrepr
      simp only [CacheRepr] at hrepr
      obtain ⟨h1, h2⟩ := hrepr
      simp only [h1, h2]
      have hc := hwf c rfl
      by_cases hh : c.lo ≤ i.toNat ∧ i.toNat < c.hi
      · have hh' : (c.lo : Int) ≤ i ∧ i < (c.hi : Int) := by omega
        rw [if_pos hh, if_pos hh', index_of_nonneg _ _ (by omega)]
        have e : (i - (c.lo : Int)).toNat = i.toNat - c.lo := by omega
        have hlt : i.toNat - c.lo < c.vals.length := by omega
        rw [e, List.getElem?_eq_getElem hlt]
        simp only [pyAtIndexResult, hself, List.getD_eq_getElem?_getD, List.getElem?_eq_getElem hlt,
          Option.getD_some]
        rfl
      · have hh' : ¬ ((c.lo : Int) ≤ i ∧ i < (c.hi : Int)) := by omega
        rw [if_neg hh, if_neg hh']
        exact hmiss _ (fun _ _ => rfl)

/-- the new cache is the old one (hit) or a fresh one (miss) -/
theorem atIndexRun_cache (f : OpenFile) (p : Bytes) (cache : Option ChunkCache) (index : Int) (σ σ' : FState)
    (v : Bytes) (cache' : Option ChunkCache) (h : atIndexRun f p cache index σ = .ok ((v, cache'), σ')) :
    (cache' = cache ∧ σ' = σ) ∨
      ∃ i chunk off, (readChannelChunkForIndex f p i).run σ = .ok ((chunk, off), σ') ∧
        cache' = some ⟨off, off + (chunk.data.getD []).length, chunk.data.getD []⟩ := by
  unfold atIndexRun at h
  have hm : ∀ i, atIndexMiss f p i σ = .ok ((v, cache'), σ') →
      ∃ i chunk off, (readChannelChunkForIndex f p i).run σ = .ok ((chunk, off), σ') ∧
        cache' = some ⟨off, off + (chunk.data.getD []).length, chunk.data.getD []⟩ := by
    intro i hi
    unfold atIndexMiss at hi
    cases hr : (readChannelChunkForIndex f p i).run σ with
    | error e => rw [hr] at hi; cases hi
    | ok r =>
      obtain ⟨⟨chunk, off⟩, σ1⟩ := r
      rw [hr] at hi
      dsimp only at hi
      cases hv : (chunk.data.getD [])[i - off]? with
      | none => rw [hv] at hi; cases hi
      | some w =>
        rw [hv] at hi
        injection hi with hi
        simp only [Prod.mk.injEq] at hi
        obtain ⟨⟨_, h2⟩, h3⟩ := hi
        subst h3
        exact ⟨i, chunk, off, hr, h2.symm⟩
  cases hreq : indexRequest (chanLen f p) index with
  | error e => rw [hreq] at h; cases h
  | ok i =>
    rw [hreq] at h
    cases cache with
    | none => exact Or.inr (hm i h)
    | some c =>
      dsimp only at h
      split at h
      · injection h with h
        simp only [Prod.mk.injEq] at h
        exact Or.inl ⟨h.1.2.symm, h.2.symm⟩
      · exact Or.inr (hm i h)

/-- the hypothesis of `read_at_index_tied'` on the cache is an invariant -/
theorem atIndexRun_cache_wf (f : OpenFile) (p : Bytes) (cache : Option ChunkCache) (index : Int) (σ σ' : FState)
    (v : Bytes) (cache' : Option ChunkCache) (h : atIndexRun f p cache index σ = .ok ((v, cache'), σ'))
    (hwf : ∀ c, cache = some c → c.hi ≤ c.lo + c.vals.length) :
    ∀ c, cache' = some c → c.hi ≤ c.lo + c.vals.length := by
  rcases atIndexRun_cache f p cache index σ σ' v cache' h with ⟨h1, _⟩ | ⟨i, chunk, off, _, h2⟩
  · rw [h1]; exact hwf
  · intro c hc
    rw [h2] at hc
    injection hc with hc
    subst hc
    exact Nat.le_refl _

theorem setCache_pyChanC (len : Int) (b0 : Int × Int) (cache cache' : Option ChunkCache)
    (h : cache' = cache ∨ ∃ c, cache' = some c) :
    setCache (pyChanC len b0 cache) cache' = pyChanC len b0 cache' := by
  rcases h with h | ⟨c, h⟩
  · subst h
    exact setCache_self _ _ (by cases cache' <;> simp [CacheRepr, pyChanC])
  · subst h
    cases cache <;> rfl

/-! ## `read_channel_chunk_for_index`: the generated side -/

/-- `segment.get_segment_object(path)`: `object_index.get(path)`, the LAST object of `ordered_objects` with
    that path (`object_index` is a dict comprehension over `enumerate(ordered_objects)`) -/
def pyGetSegObj (ps : TdmsSegment) (q : Py.Path) : Option SegmentObject :=
  ps.ordered_objects.reverse.find? fun o => decide (o.path = q)

/-- `self._channel_index(path)` (cached `_build_index`): first segment and cumulative offsets -/
def pyChannelIndex (segs : List Segment) (q : Py.Path) : Int × List Int :=
  (((buildIndex segs q).firstSegment : Int), (buildIndex segs q).offsets.map fun (n : Nat) => (n : Int))

theorem searchsortedRight_natCast (xs : List Nat) (x : Int) :
    Py.searchsortedRight (xs.map fun (n : Nat) => (n : Int)) x = (searchRight xs x : Int) := by
  unfold Py.searchsortedRight searchRight
  congr 1
  induction xs with
  | nil => rfl
  | cons y ys ih =>
    simp only [List.map_cons, List.takeWhile_cons]
    split <;> simp [ih]


theorem existingIndex_snoc (zs : List SegObj) (y : SegObj) (p : Bytes) :
    (existingIndex (zs ++ [y]) p).bind (fun i => (zs ++ [y])[i]?)
      = if y.path = p then some y else (existingIndex zs p).bind (fun i => zs[i]?) := by
  unfold existingIndex
  simp only [List.length_append, List.length_singleton, List.range_succ, List.filter_append]
  have e : (List.range zs.length).filter (fun i => decide (((zs ++ [y])[i]?.map (·.path)) = some p))
      = (List.range zs.length).filter (fun i => decide ((zs[i]?.map (·.path)) = some p)) := by
    apply List.filter_congr
    intro i hi
    rw [List.mem_range] at hi
    rw [List.getElem?_append_left hi]
  rw [e]
  by_cases hy : y.path = p
  · simp [hy]
  · simp only [hy, if_false]
    have : List.filter (fun i => decide (((zs ++ [y])[i]?.map (·.path)) = some p)) [zs.length] = [] := by
      simp [hy]
    rw [this, List.append_nil]
    cases hl : ((List.range zs.length).filter (fun i => decide ((zs[i]?.map (·.path)) = some p))).getLast? with
    | none => rfl
    | some i =>
      have hm := List.mem_of_getLast? hl
      rw [List.mem_filter, List.mem_range] at hm
      simp only [Option.bind_some]
      rw [List.getElem?_append_left hm.1]

theorem existingIndex_bind_reverse (ys : List SegObj) (p : Bytes) :
    (existingIndex ys.reverse p).bind (fun i => ys.reverse[i]?) = ys.find? fun o => decide (o.path = p) := by
  induction ys with
  | nil => rfl
  | cons y ys ih =>
    rw [List.reverse_cons, existingIndex_snoc, ih, List.find?_cons]
    by_cases hy : y.path = p <;> simp [hy]

theorem pyGetSegObj_pySeg (s : Segment) (q : Bytes) :
    pyGetSegObj (pySeg s) q = (getSegmentObject s q).map pyObj := by
  unfold pyGetSegObj getSegmentObject
  have := existingIndex_bind_reverse s.objects.reverse q
  rw [List.reverse_reverse] at this
  rw [this]
  show ((s.objects.map pyObj).reverse.find? _) = _
  rw [← List.map_reverse, List.find?_map]
  rfl

/-- `xs[a + b]` on a mapped list, for natural `a`, `b` -/
theorem index_map_natCast_add {α β : Type} (g : α → β) (xs : List α) (a b : Nat) :
    Py.index (xs.map g) ((a : Int) + (b : Int)) = match xs[a + b]? with
      | some x => .ok (g x)
      | none => .error "IndexError" := by
  rw [index_of_nonneg _ _ (by omega)]
  have e : ((a : Int) + (b : Int)).toNat = a + b := by omega
  rw [e, List.getElem?_map]
  cases xs[a + b]? <;> rfl

theorem ok_bind {ε α β : Type} (a : α) (g : α → Except ε β) : (Except.ok a >>= g) = g a := rfl

theorem read_chunk_tied' {Chunk : Type} (ensure_open : Except Py.Exc Unit)
    (verify_segment_start : TdmsSegment → Except Py.Exc Unit)
    (seg_read : TdmsSegment → Py.Path → Int → Int → List Chunk)
    (segs : List Segment) (md : Py.Dict Py.Path ObjectMetadata) (p : Bytes) (index : Nat) :
    TdmsReader.read_channel_chunk_for_index ensure_open verify_segment_start (pyChannelIndex segs) pyGetSegObj
        seg_read { _segments := some (segs.map pySeg), object_metadata := md } p (index : Int)
      = (do
          let _ ← ensure_open
          match chunkPlan segs p index with
          | .error e => .error e
          | .ok (s, ci, off) => do
            let _ ← verify_segment_start (pySeg s)
            let c ← Py.next (seg_read (pySeg s) p (ci : Int) 1)
            pure (c, (off : Int))) := by
  unfold TdmsReader.read_channel_chunk_for_index chunkPlan pyChannelIndex
  cases ensure_open with
  | error e => rfl
  | ok u =>
    simp only [searchsortedRight_natCast, index_map_natCast_add]
    have hk := searchRight_le_length (buildIndex segs p).offsets index
    have hprev := searchRight_prev_le (buildIndex segs p).offsets index
    generalize (buildIndex segs p).firstSegment = first at *
    generalize (buildIndex segs p).offsets = offs at *
    generalize searchRight offs index = k at *
    cases segs[first + k]? with
    | none => rfl
    | some s =>
      simp only [ok_bind, pyGetSegObj_pySeg]
      by_cases hk0 : k = 0
      · subst hk0
        simp only [Int.natCast_zero, Int.add_zero, Nat.add_zero, if_true, pure, Except.pure, ok_bind]
        cases getSegmentObject s p with
        | none => simp [Py.floordiv_zero]; rfl
        | some o =>
          simp only [Option.map_some]
          simp only [show (pyObj o).number_values = (o.numberValues : Int) from rfl]
          generalize o.numberValues = cs
          by_cases hcs : cs = 0
          · subst hcs; simp [Py.floordiv_zero]; rfl
          · have e : (index : Int) - 0 = ((index - 0 : Nat) : Int) := by omega
            rw [e, Py.floordiv_natCast _ _ hcs, if_neg hcs]
            simp only [ok_bind, Int.natCast_add, Int.natCast_mul, Int.natCast_zero]
      · have hne : ¬ ((first : Int) + (k : Int) = (first : Int)) := by omega
        have hne' : ¬ (first + k = first) := by omega
        have hidx : Py.index (offs.map fun (n : Nat) => (n : Int)) ((first : Int) + (k : Int) - (first : Int) - 1)
            = .ok ((offs.getD (first + k - first - 1) 0 : Nat) : Int) := by
          rw [index_of_nonneg _ _ (by omega)]
          have e : ((first : Int) + (k : Int) - (first : Int) - 1).toNat = first + k - first - 1 := by omega
          have hlt : first + k - first - 1 < offs.length := by omega
          rw [e, List.getElem?_map, List.getElem?_eq_getElem hlt, List.getD_eq_getElem?_getD,
            List.getElem?_eq_getElem hlt]
          rfl
        have hss : offs.getD (first + k - first - 1) 0 ≤ index := by
          have e : first + k - first - 1 = k - 1 := by omega
          rw [e]; have := hprev hk0; omega
        simp only [if_neg hne, if_neg hne', hidx, ok_bind]
        generalize offs.getD (first + k - first - 1) 0 = segStart at hss
        cases getSegmentObject s p with
        | none => simp [Py.floordiv_zero]; rfl
        | some o =>
          simp only [Option.map_some]
          simp only [show (pyObj o).number_values = (o.numberValues : Int) from rfl]
          generalize o.numberValues = cs
          by_cases hcs : cs = 0
          · subst hcs; simp [Py.floordiv_zero]; rfl
          · have e : (index : Int) - (segStart : Int) = ((index - segStart : Nat) : Int) := by omega
            rw [e, Py.floordiv_natCast _ _ hcs, if_neg hcs]
            simp only [ok_bind, Int.natCast_add, Int.natCast_mul]
end Tdms.Proofs.TiedC19
