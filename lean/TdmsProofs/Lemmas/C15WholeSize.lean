/-
  C15 for whole files: every segment of `withEndian f e` has the byte size of the segment of `e`, and
  `withEndian f e` is well-formed when `e` is.  Core Lean only.
-/
import TdmsProofs.Lemmas.C15WholeWf

namespace Tdms.Proofs.C15Whole

open Tdms Tdms.Generated Tdms.Model Tdms.Proofs.C01Layouts Tdms.Proofs.C01Multi Tdms.Proofs.C02 Tdms.Proofs.Bytes

/-! ## metadata -/

theorem encString_length (e : Endian) (s : Bytes) : (encString e s).length = 4 + s.length := by
  simp [encString]

theorem encScaler_length (e : Endian) (dg : Bool) (s : ScalerEnc) :
    (encScaler e dg s).length = if dg then 17 else 20 := by
  cases dg <;> simp [encScaler]

theorem encIdx_length_indep (e₁ e₂ : Endian) (i : IdxEnc) : (encIdx e₁ i).length = (encIdx e₂ i).length := by
  cases i with
  | noData => simp [encIdx]
  | matchesPrev => simp [encIdx]
  | full ty n total => simp only [encIdx]; split <;> simp
  | daqmx dg ty n sc w =>
    simp only [encIdx, List.length_append, enc_length]
    rw [flatMap_length_congr sc (encScaler e₁ dg) (encScaler e₂ dg) (fun s _ => by rw [encScaler_length, encScaler_length]),
      flatMap_length_congr w (enc e₁ 4) (enc e₂ 4) (fun s _ => by simp)]

theorem encProp_length_indep (e₁ e₂ : Endian) (p : PropEnc) (h : wfProp p = true) :
    (encProp e₁ p).length = (encProp e₂ p).length := by
  simp only [encProp, List.length_append, encString_length, enc_length, encPropValue]
  by_cases hs : p.ty = tyString
  · simp [hs, encString_length]
  · simp only [hs, if_false]
    simp only [wfProp, Bool.and_eq_true, Bool.or_eq_true, decide_eq_true_eq] at h
    rcases h.2 with h2 | h2
    · exact absurd h2 hs
    · rw [storeValue_length_eq e₁ _ _ (Or.inr h2), storeValue_length_eq e₂ _ _ (Or.inr h2)]

theorem encObj_length_indep (e₁ e₂ : Endian) (o : ObjEnc) (h : wfObj o = true) :
    (encObj e₁ o).length = (encObj e₂ o).length := by
  simp only [wfObj, Bool.and_eq_true, List.all_eq_true] at h
  simp only [encObj, List.length_append, encString_length, enc_length, encIdx_length_indep e₁ e₂ o.idx,
    flatMap_length_congr o.props (encProp e₁) (encProp e₂) (fun p hp => encProp_length_indep e₁ e₂ p (h.1.2 p hp))]

theorem encMeta_length_indep (e₁ e₂ : Endian) (objs : List ObjEnc) (h : ∀ o ∈ objs, wfObj o = true) :
    (encMeta e₁ objs).length = (encMeta e₂ objs).length := by
  simp only [encMeta, List.length_append, enc_length,
    flatMap_length_congr objs (encObj e₁) (encObj e₂) (fun o ho => encObj_length_indep e₁ e₂ o (h o ho))]

theorem segMeta_weSeg_length (b : Bool) (s : SegEnc) (a : List ActiveObj) (h : ∀ o ∈ s.objs, wfObj o = true) :
    (segMeta (weSeg b s a)).length = (segMeta s).length := by
  simp only [segMeta, weSeg_hasMeta, weSeg_objs, weSeg_padding, List.length_append]
  split
  · rw [encMeta_length_indep _ s.endian s.objs h]
  · rfl

/-! ## raw data -/

theorem allFixed_of_wf {d : List ActiveObj}
    (h : (d.all fun a => match a.idx with
                        | some (.std ty _ _) => (typeSize ty).isSome
                        | _ => false) = true) : AllFixed d := by
  intro a ha
  have := List.all_eq_true.mp h a ha
  cases hi : a.idx with
  | none => rw [hi] at this; cases this
  | some dsc =>
    cases dsc with
    | daq dg ty n sc w => rw [hi] at this; cases this
    | std ty n total => rw [hi] at this; simpa [IdxDesc.ty] using this

/-- what `wfSeg` says about the chunks of a standard segment -/
theorem std_of_wfSeg {s : SegEnc} {a : List ActiveObj} {isLast : Bool} (hwf : wfSeg s a isLast = true)
    (hq : (dataObjs a).any isDaqmxObj = false) :
    (∀ c ∈ s.chunks, PairsFit (dataObjs a) c) ∧ (s.interleaved = true → AllFixed (dataObjs a)) := by
  simp only [wfSeg, Bool.and_eq_true, hq, Bool.false_eq_true, if_false, List.all_eq_true] at hwf
  obtain ⟨_, hch, hint⟩ := hwf
  refine ⟨fun c hc => pairsFit_of_wf _ c (hch c hc), ?_⟩
  intro hi
  have := hint
  simp only [hi, decide_eq_true_eq, forall_const] at this
  exact allFixed_of_wf (List.all_eq_true.mpr this.1)

theorem encChunk_std_length_indep (s : SegEnc) (b : Bool) (a : List ActiveObj)
    (hq : (dataObjs a).any isDaqmxObj = false) (c : List (List Bytes)) (hp : PairsFit (dataObjs a) c)
    (hi : s.interleaved = true → AllFixed (dataObjs a)) :
    (encChunk { s with big := b } a c).length = (encChunk s a c).length := by
  simp only [encChunk, hq, Bool.false_eq_true, if_false]
  cases hil : s.interleaved with
  | false => exact encChunkContiguous_length_indep _ _ _ c hp
  | true => exact encChunkInterleaved_length_indep _ _ _ c hp (hi hil)

theorem encChunk_daq (s : SegEnc) (a : List ActiveObj) (hq : (dataObjs a).any isDaqmxObj = true)
    (c : List (List Bytes)) : encChunk s a c = encChunkDaqmx c := by
  simp [encChunk, hq]

/-- the chunks of the re-flagged segment, paired with the chunks they come from, have the same byte size -/
theorem encRaw_weSeg_length {s : SegEnc} {a : List ActiveObj} {isLast : Bool} (hwf : wfSeg s a isLast = true)
    (b : Bool) : (encRaw (weSeg b s a) a).length = (encRaw s a).length := by
  by_cases hb : b = s.big
  · rw [hb, weSeg_self]
  · by_cases hq : (dataObjs a).any isDaqmxObj = true
    · simp only [encRaw, weSeg_chunks, hb, hq, ne_eq, not_false_eq_true, and_self, if_true, List.flatMap_map]
      apply flatMap_length_congr
      intro c _
      rw [encChunk_daq _ a hq, encChunk_daq _ a hq, encChunkDaqmx_reenc_length]
    · have hq' : (dataObjs a).any isDaqmxObj = false := by simpa using hq
      obtain ⟨hp, hi⟩ := std_of_wfSeg hwf hq'
      rw [weSeg_std b s a hq']
      simp only [encRaw]
      apply flatMap_length_congr
      intro c hc
      exact encChunk_std_length_indep s b a hq' c (hp c hc) hi

theorem wfSeg_objs {s : SegEnc} {a : List ActiveObj} {isLast : Bool} (hwf : wfSeg s a isLast = true) :
    ∀ o ∈ s.objs, wfObj o = true := by
  simp only [wfSeg, Bool.and_eq_true, List.all_eq_true] at hwf
  exact hwf.1.1.1.1.1.2

theorem encodeSeg_weSeg_length {s : SegEnc} {a : List ActiveObj} {isLast : Bool} (hwf : wfSeg s a isLast = true)
    (b : Bool) : (encodeSeg (weSeg b s a) a).length = (encodeSeg s a).length := by
  rw [C01Compose.encodeSeg_length, C01Compose.encodeSeg_length, segMeta_weSeg_length b s a (wfSeg_objs hwf),
    encRaw_weSeg_length hwf]

theorem zipEncode_weSegs_length (f : Nat → Bool) : ∀ (ss : List SegEnc) (as : List (List ActiveObj)) (i : Nat),
    wfSegs ss as = true → (zipEncode encodeSeg (weSegs f i ss as) as).length = (zipEncode encodeSeg ss as).length := by
  intro ss
  induction ss with
  | nil => intro as i _; cases as <;> rfl
  | cons s ss ih =>
    intro as i h
    cases as with
    | nil => rfl
    | cons a as =>
      simp only [wfSegs, Bool.and_eq_true] at h
      simp only [weSegs, zipEncode, List.length_append, encodeSeg_weSeg_length h.1, ih as (i + 1) h.2]

/-! ## well-formedness -/

theorem encChunk_nonempty_iff {x y : Bytes} (h : x.length = y.length) : x.isEmpty = y.isEmpty := by
  cases x <;> cases y <;> simp_all

theorem chunkBytesNonZero_weSeg {s : SegEnc} {a : List ActiveObj} {isLast : Bool} (hwf : wfSeg s a isLast = true)
    (b : Bool) (hnz : chunkBytesNonZero s a = true) : chunkBytesNonZero (weSeg b s a) a = true := by
  by_cases hb : b = s.big
  · rw [hb, weSeg_self]; exact hnz
  · simp only [chunkBytesNonZero, List.all_eq_true, Bool.not_eq_true'] at hnz ⊢
    by_cases hq : (dataObjs a).any isDaqmxObj = true
    · rw [weSeg_chunks, if_pos ⟨hb, hq⟩]
      intro c' hc'
      obtain ⟨c, hc, rfl⟩ := List.mem_map.mp hc'
      rw [encChunk_nonempty_iff (y := encChunk s a c)]
      · exact hnz c hc
      · rw [encChunk_daq _ a hq, encChunk_daq _ a hq, encChunkDaqmx_reenc_length]
    · have hq' : (dataObjs a).any isDaqmxObj = false := by simpa using hq
      obtain ⟨hp, hi⟩ := std_of_wfSeg hwf hq'
      rw [weSeg_std b s a hq']
      intro c hc
      rw [encChunk_nonempty_iff (encChunk_std_length_indep s b a hq' c (hp c hc) hi)]
      exact hnz c hc

theorem weSeg_chunks_isEmpty (b : Bool) (s : SegEnc) (a : List ActiveObj) :
    (weSeg b s a).chunks.isEmpty = s.chunks.isEmpty := by
  rw [weSeg_chunks]; split <;> simp

theorem wfSeg_weSeg {s : SegEnc} {a : List ActiveObj} {isLast : Bool} (hwf : wfSeg s a isLast = true) (b : Bool) :
    wfSeg (weSeg b s a) a isLast = true := by
  have hnz : chunkBytesNonZero (weSeg b s a) a = true := by
    apply chunkBytesNonZero_weSeg hwf
    simp only [wfSeg, Bool.and_eq_true] at hwf
    exact hwf.1.2
  by_cases hb : b = s.big
  · rw [hb, weSeg_self]; exact hwf
  · simp only [wfSeg, Bool.and_eq_true] at hwf ⊢
    obtain ⟨⟨⟨⟨⟨⟨⟨h1, h2⟩, h3⟩, h4⟩, h5⟩, h6⟩, _⟩, h8⟩ := hwf
    refine ⟨⟨⟨⟨⟨⟨⟨?_, ?_⟩, ?_⟩, ?_⟩, ?_⟩, ?_⟩, hnz⟩, ?_⟩
    · simpa using h1
    · simpa using h2
    · simpa using h3
    · simpa using h4
    · simpa using h5
    · simpa [weSeg_chunks_isEmpty] using h6
    · by_cases hq : (dataObjs a).any isDaqmxObj = true
      · simp only [hq, if_true, Bool.and_eq_true, weSeg_interleaved] at h8 ⊢
        refine ⟨h8.1, ?_⟩
        rw [weSeg_chunks, if_pos ⟨hb, hq⟩, List.all_map]
        simpa [Function.comp_def, wfDaqChunk_reenc] using h8.2
      · have hq' : (dataObjs a).any isDaqmxObj = false := by simpa using hq
        rw [weSeg_std b s a hq']
        exact h8

theorem wfSegs_length : ∀ (ss : List SegEnc) (as : List (List ActiveObj)), wfSegs ss as = true →
    as.length = ss.length := by
  intro ss
  induction ss with
  | nil => intro as h; cases as with
    | nil => rfl
    | cons a as => simp [wfSegs] at h
  | cons s ss ih =>
    intro as h
    cases as with
    | nil => simp [wfSegs] at h
    | cons a as =>
      simp only [wfSegs, Bool.and_eq_true] at h
      simp [ih as h.2]

theorem wfSegs_weSegs (f : Nat → Bool) : ∀ (ss : List SegEnc) (as : List (List ActiveObj)) (i : Nat),
    wfSegs ss as = true → wfSegs (weSegs f i ss as) as = true := by
  intro ss
  induction ss with
  | nil =>
    intro as i h
    cases as with
    | nil => rfl
    | cons a as => simp [wfSegs] at h
  | cons s ss ih =>
    intro as i h
    cases as with
    | nil => simp [wfSegs] at h
    | cons a as =>
      simp only [wfSegs, Bool.and_eq_true] at h
      simp only [weSegs, wfSegs, Bool.and_eq_true]
      have hlen : as.length = ss.length := wfSegs_length ss as h.2
      have he : (weSegs f (i + 1) ss as).isEmpty = ss.isEmpty := by
        have := weSegs_length f ss as (i + 1) hlen
        cases hw : weSegs f (i + 1) ss as <;> cases ss <;> simp_all
      rw [he]
      exact ⟨wfSeg_weSeg h.1 (f i), ih as (i + 1) h.2⟩

end Tdms.Proofs.C15Whole
