import Tdms.Generated.CodePrelude

/-!
# Lemmas about the hand-written Python operations of `Tdms/Generated/CodePrelude.lean`

Used by the `…_tied` theorems (`TdmsProofs/Properties/C*Tied.lean`).  Core Lean only.
-/

namespace Tdms.Generated.Py

/-! ## integers -/

theorem floordiv_natCast (a b : Nat) (hb : b ≠ 0) : floordiv (a : Int) (b : Int) = .ok ((a / b : Nat) : Int) := by
  unfold floordiv
  rw [if_neg (by omega), Int.fdiv_eq_ediv_of_nonneg _ (by omega)]
  rfl

theorem mod_natCast (a b : Nat) (hb : b ≠ 0) : mod (a : Int) (b : Int) = .ok ((a % b : Nat) : Int) := by
  unfold mod
  rw [if_neg (by omega), Int.fmod_eq_emod_of_nonneg _ (by omega)]
  rfl

theorem floordiv_zero (a : Int) : floordiv a 0 = .error "ZeroDivisionError" := by simp [floordiv]
theorem mod_zero (a : Int) : mod a 0 = .error "ZeroDivisionError" := by simp [mod]

theorem floordiv_pos (a b : Int) (hb : 0 < b) : floordiv a b = .ok (a / b) := by
  unfold floordiv
  rw [if_neg (by omega), Int.fdiv_eq_ediv_of_nonneg _ (by omega)]

theorem mod_pos (a b : Int) (hb : 0 < b) : mod a b = .ok (a % b) := by
  unfold mod
  rw [if_neg (by omega), Int.fmod_eq_emod_of_nonneg _ (by omega)]

theorem band_natCast (a b : Nat) : band (a : Int) (b : Int) = ((a &&& b : Nat) : Int) := rfl

theorem and_two_pow_ne_zero (n k : Nat) : (n &&& 2 ^ k ≠ 0) ↔ n.testBit k = true := by
  constructor
  · intro h
    cases hb : n.testBit k with
    | true => rfl
    | false =>
      exfalso; apply h
      apply Nat.eq_of_testBit_eq
      intro i
      rw [Nat.testBit_and, Nat.testBit_two_pow, Nat.zero_testBit]
      by_cases hki : k = i
      · subst hki; simp [hb]
      · simp [hki]
  · intro h h0
    have := Nat.testBit_and n (2 ^ k) k
    rw [h0, Nat.zero_testBit, h, Nat.testBit_two_pow_self] at this
    simp at this

/-- `toc & 2^k` is non-zero exactly when bit `k` of `toc` is set, i.e. `(toc / 2^k) % 2 = 1` -/
theorem band_two_pow_ne_zero (toc k : Nat) :
    (band (toc : Int) ((2 ^ k : Nat) : Int) ≠ 0) ↔ (toc / 2 ^ k) % 2 = 1 := by
  rw [band_natCast]
  have h1 : (((toc &&& 2 ^ k : Nat) : Int) ≠ 0) ↔ (toc &&& 2 ^ k ≠ 0) := by omega
  rw [h1, and_two_pow_ne_zero, Nat.testBit_eq_decide_div_mod_eq]
  simp

theorem sum_eq_foldl (xs : List Int) (acc : Int) : xs.foldl (· + ·) acc = acc + sum xs := by
  unfold sum
  induction xs generalizing acc with
  | nil => simp
  | cons x xs ih => simp only [List.foldl_cons]; rw [ih, ih (0 + x)]; omega

@[simp] theorem sum_nil : sum [] = 0 := rfl
@[simp] theorem sum_cons (x : Int) (xs : List Int) : sum (x :: xs) = x + sum xs := by
  show List.foldl (· + ·) (0 + x) xs = x + sum xs
  rw [sum_eq_foldl]; omega

theorem sum_map_natCast (l : List Nat) : sum (l.map fun (n : Nat) => (n : Int)) = ((l.sum : Nat) : Int) := by
  induction l with
  | nil => rfl
  | cons x xs ih => simp [ih]

@[simp] theorem len_eq {α : Type} (xs : List α) : len xs = (xs.length : Int) := rfl

/-! ## loops -/

@[simp] theorem forP_nil {α σ : Type} (s : σ) (f : α → σ → Step σ) : forP [] s f = s := rfl
theorem forP_cons {α σ : Type} (x : α) (xs : List α) (s : σ) (f : α → σ → Step σ) :
    forP (x :: xs) s f = match f x s with | .next s' => forP xs s' f | .brk s' => s' := rfl

@[simp] theorem forE_nil {α σ : Type} (s : σ) (f : α → σ → Except Exc (Step σ)) : forE [] s f = .ok s := rfl
theorem forE_cons {α σ : Type} (x : α) (xs : List α) (s : σ) (f : α → σ → Except Exc (Step σ)) :
    forE (x :: xs) s f = match f x s with
      | .error e => .error e
      | .ok (.next s') => forE xs s' f
      | .ok (.brk s') => .ok s' := by
  cases h : f x s with
  | error e => simp [forE, h]
  | ok st => cases st <;> simp [forE, h]

@[simp] theorem anyE_nil {α : Type} (f : α → Except Exc Bool) : anyE [] f = .ok false := rfl
theorem anyE_cons {α : Type} (x : α) (xs : List α) (f : α → Except Exc Bool) :
    anyE (x :: xs) f = match f x with
      | .error e => .error e
      | .ok true => .ok true
      | .ok false => anyE xs f := by
  cases h : f x with
  | error e => simp [anyE, h]
  | ok b => cases b <;> simp [anyE, h]

/-- when the predicate never raises, `anyE` is `List.any` -/
theorem anyE_pure {α : Type} (xs : List α) (f : α → Except Exc Bool) (g : α → Bool)
    (h : ∀ x ∈ xs, f x = .ok (g x)) : anyE xs f = .ok (xs.any g) := by
  induction xs with
  | nil => rfl
  | cons x xs ih =>
    rw [anyE_cons, h x (by simp)]
    cases hg : g x with
    | true => simp [hg]
    | false =>
      simp only [List.any_cons, hg, Bool.false_or]
      exact ih (fun y hy => h y (by simp [hy]))

/-! ## dictionaries -/

theorem Dict.set_append_of_not_mem {κ ν : Type} [DecidableEq κ] (d : Dict κ ν) (k : κ) (v : ν)
    (h : ∀ kv ∈ d, kv.1 ≠ k) : Dict.set d k v = d ++ [(k, v)] := by
  induction d with
  | nil => rfl
  | cons kv rest ih =>
    obtain ⟨k', v'⟩ := kv
    have hk : k' ≠ k := h (k', v') (by simp)
    simp only [Dict.set, if_neg hk, List.cons_append]
    rw [ih (fun x hx => h x (by simp [hx]))]

end Tdms.Generated.Py
