/-
  C02 — a predicate on index descriptions that holds of every listed index holds of every description
  in every active list.  Used with `wfDesc` (so that `absObj` inverts `concObj` on the active lists of
  encodings whose objects satisfy the spec's `wfIdx`).  Core Lean only.
-/
import TdmsProofs.Lemmas.C02File

namespace Tdms.Proofs.C02

open Tdms Tdms.Model Tdms.Generated

section
variable (W : IdxDesc → Prop)

def LastW (last : LastIdx) : Prop := ∀ p d, last.get p = some d → W d
def ActW (act : List ActiveObj) : Prop := ∀ x ∈ act, ∀ d, x.idx = some d → W d

theorem resolveObj_W {last : LastIdx} {o : ObjEnc} {a : ActiveObj} {last' : LastIdx}
    (h : resolveObj last o = .ok (a, last')) (hl : LastW W last)
    (ho : ∀ d, descOfIdx o.idx = some d → W d) :
    (∀ d, a.idx = some d → W d) ∧ LastW W last' := by
  have hL := resolveObj_ok_L h
  unfold resolveObjL at hL
  cases hidx : o.idx with
  | noData =>
    simp only [hidx] at hL
    cases hL
    exact ⟨fun d hd => hl _ _ hd, hl⟩
  | matchesPrev =>
    simp only [hidx] at hL
    cases hg : last.get o.path with
    | none => simp only [hg] at hL; cases hL
    | some d0 =>
      simp only [hg] at hL
      cases hL
      exact ⟨fun d hd => by cases hd; exact hl _ _ hg, hl⟩
  | full ty n total =>
    simp only [hidx] at hL
    cases hL
    have hw : W (.std ty n total) := ho _ (by rw [hidx]; rfl)
    refine ⟨fun d hd => by cases hd; exact hw, ?_⟩
    intro p d hd
    rw [LastIdx.get_set] at hd
    split at hd
    · cases hd; exact hw
    · exact hl p d hd
  | daqmx dg ty n sc w =>
    simp only [hidx] at hL
    cases hL
    have hw : W (.daq dg ty n sc w) := ho _ (by rw [hidx]; rfl)
    refine ⟨fun d hd => by cases hd; exact hw, ?_⟩
    intro p d hd
    rw [LastIdx.get_set] at hd
    split at hd
    · cases hd; exact hw
    · exact hl p d hd

theorem resolveObjs_W : ∀ (os : List ObjEnc) (last : LastIdx) (act act' : List ActiveObj) (last' : LastIdx),
    resolveObjs last act os = .ok (act', last') → LastW W last → ActW W act →
    (∀ o ∈ os, ∀ d, descOfIdx o.idx = some d → W d) → ActW W act' ∧ LastW W last' := by
  intro os
  induction os with
  | nil => intro last act act' last' h hl ha _; cases h; exact ⟨ha, hl⟩
  | cons o os ih =>
    intro last act act' last' h hl ha ho
    unfold resolveObjs at h
    cases hr : resolveObj last o with
    | error e => rw [hr] at h; cases h
    | ok al =>
      obtain ⟨a, l1⟩ := al
      rw [hr] at h
      obtain ⟨h1, h2⟩ := resolveObj_W W hr hl (ho o (List.mem_cons_self ..))
      refine ih _ _ _ _ h h2 ?_ (fun o' ho' => ho o' (List.mem_cons_of_mem _ ho'))
      intro x hx
      rcases mem_placeObj hx with rfl | ⟨hx, _⟩
      · exact h1
      · exact ha x hx

theorem activeLists_W : ∀ (ss : List SegEnc) (prev : Option (List ActiveObj)) (last : LastIdx)
    (acts : List (List ActiveObj)), activeLists prev last ss = .ok acts → LastW W last →
    (∀ a, prev = some a → ActW W a) →
    (∀ s ∈ ss, ∀ o ∈ s.objs, ∀ d, descOfIdx o.idx = some d → W d) → ∀ a ∈ acts, ActW W a := by
  intro ss
  induction ss with
  | nil => intro prev last acts h _ _ _ a ha; simp only [activeLists] at h; cases h; cases ha
  | cons s ss ih =>
    intro prev last acts h hl hp hs a ha
    unfold activeLists at h
    cases hseg : activeOfSeg prev last s with
    | error r => rw [hseg] at h; cases h
    | ok al =>
      obtain ⟨a0, last'⟩ := al
      rw [hseg] at h
      simp only [] at h
      cases hrest : activeLists (some a0) last' ss with
      | error r => rw [hrest] at h; cases h
      | ok as =>
        rw [hrest] at h
        cases h
        have hseg' : ActW W a0 ∧ LastW W last' := by
          unfold activeOfSeg at hseg
          split at hseg
          · cases hpv : prev with
            | none => rw [hpv] at hseg; cases hseg
            | some b => rw [hpv] at hseg; cases hseg; exact ⟨hp _ hpv, hl⟩
          · refine resolveObjs_W W _ _ _ _ _ hseg hl ?_ (hs s (List.mem_cons_self ..))
            split
            · intro x hx; cases hx
            · cases hpv : prev with
              | none => intro x hx; cases hx
              | some b => exact hp b hpv
        rcases List.mem_cons.1 ha with rfl | ha
        · exact hseg'.1
        · exact ih (some a0) last' as hrest hseg'.2 (fun b hb => by cases hb; exact hseg'.1)
            (fun s' hs' => hs s' (List.mem_cons_of_mem _ hs')) a ha

end

/-- the spec's `wfIdx` implies what `absObj` needs -/
theorem wfDesc_of_wfIdx {i : IdxEnc} (h : wfIdx i = true) : ∀ d, descOfIdx i = some d → wfDesc d := by
  intro d hd
  cases i with
  | noData => cases hd
  | matchesPrev => cases hd
  | full ty n total => cases hd; trivial
  | daqmx dg ty n sc w =>
    cases hd
    simp only [wfIdx, Bool.and_eq_true] at h
    obtain ⟨⟨⟨⟨_, hsc⟩, _⟩, _⟩, hall⟩ := h
    refine ⟨fun _ hnil => by rw [hnil] at hsc; simp at hsc, ?_⟩
    intro s hs
    have := List.all_eq_true.1 hall s hs
    unfold daqmxTypeCode at this
    cases hf : daqmxTypes.find? (·.1 = s.daqType) with
    | none => rw [hf] at this; simp at this
    | some ct => rfl

/-- every description in the active lists of an encoding whose listed objects satisfy `wfIdx` can be
    recovered by `absObj` -/
theorem activeLists_wfDesc (e : FileEnc) (acts : List (List ActiveObj))
    (h : activeLists none [] e = .ok acts) (hwf : ∀ s ∈ e, ∀ o ∈ s.objs, wfIdx o.idx = true) :
    ∀ a ∈ acts, ∀ x ∈ a, ∀ d, x.idx = some d → wfDesc d :=
  activeLists_W wfDesc e none [] acts h (fun p d hd => by simp [LastIdx.get] at hd)
    (fun a ha => by cases ha) (fun s hs o ho => wfDesc_of_wfIdx (hwf s hs o ho))

theorem map_map_absObj_concObj (acts : List (List ActiveObj))
    (h : ∀ a ∈ acts, ∀ x ∈ a, ∀ d, x.idx = some d → wfDesc d) :
    (acts.map (·.map concObj)).map (·.map absObj) = acts := by
  rw [List.map_map]
  calc acts.map ((fun l => l.map absObj) ∘ fun l => l.map concObj) = acts.map id := by
        apply List.map_congr_left
        intro a ha
        exact map_absObj_concObj a (h a ha)
    _ = acts := by simp

end Tdms.Proofs.C02
